namespace Proto
structure Req where
  fromO : Int
  toO : Int
deriving DecidableEq, Repr

def Req.covers (r : Req) (o : Int) : Prop := r.fromO ≤ o ∧ o < r.toO
def covered (l : List Req) (o : Int) : Prop := ∃ r ∈ l, r.covers o
def Req.wf (r : Req) : Prop := r.fromO ≤ r.toO

def overlaps (f t : Int) (r : Req) : Bool := f ≤ r.toO && r.fromO ≤ t
def widen (f t : Int) (r : Req) : Req :=
  if overlaps f t r then ⟨min f r.fromO, max t r.toO⟩ else r

/-- AddRecoveryRequest on one partition's list -/
def add (l : List Req) (f t : Int) : List Req :=
  if l.any (overlaps f t) then l.map (widen f t) else l ++ [⟨f, t⟩]

theorem widen_covers (f t : Int) (r : Req) (hr : r.wf) (hft : f ≤ t) (o : Int) :
    (widen f t r).covers o ↔ (r.covers o ∨ (overlaps f t r = true ∧ f ≤ o ∧ o < t)) := by
  unfold widen overlaps Req.covers Req.wf at *
  split <;> simp_all <;> omega

theorem add_covered (l : List Req) (f t : Int) (hwf : ∀ r ∈ l, r.wf) (hft : f ≤ t) (o : Int) :
    covered (add l f t) o ↔ covered l o ∨ (f ≤ o ∧ o < t) := by
  unfold add
  split
  · rename_i hany
    simp only [covered, List.mem_map]
    constructor
    · rintro ⟨r', ⟨r, hr, rfl⟩, hc⟩
      rcases (widen_covers f t r (hwf r hr) hft o).1 hc with h | h
      · exact Or.inl ⟨r, hr, h⟩
      · exact Or.inr h.2
    · rintro (⟨r, hr, hc⟩ | hnew)
      · exact ⟨widen f t r, ⟨r, hr, rfl⟩, (widen_covers f t r (hwf r hr) hft o).2 (Or.inl hc)⟩
      · obtain ⟨r, hr, hov⟩ := List.any_eq_true.1 hany
        exact ⟨widen f t r, ⟨r, hr, rfl⟩, (widen_covers f t r (hwf r hr) hft o).2 (Or.inr ⟨hov, hnew⟩)⟩
  · simp only [covered, List.mem_append, List.mem_singleton]
    constructor
    · rintro ⟨r, hr | rfl, hc⟩
      · exact Or.inl ⟨r, hr, hc⟩
      · exact Or.inr hc
    · rintro (⟨r, hr, hc⟩ | hnew)
      · exact ⟨r, Or.inl hr, hc⟩
      · exact ⟨⟨f, t⟩, Or.inr rfl, hnew⟩
end Proto
