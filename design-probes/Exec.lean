/-! prototype of the operational model: channel ledger invariant -/
namespace ProtoX

abbrev Ev := Nat
def upd {α} (f : Nat → α) (i : Nat) (v : α) : Nat → α := fun j => if j = i then v else f j
@[simp] theorem upd_same {α} (f : Nat → α) i v : upd f i v i = v := by simp [upd]
@[simp] theorem upd_other {α} (f : Nat → α) i j v (h : j ≠ i) : upd f i v j = f j := by simp [upd, h]

structure NodeSt where
  ch : List Ev := []
  enq : List Ev := []      -- ghost: everything ever enqueued
  deq : List Ev := []      -- ghost: everything ever dequeued
  dropped : List Ev := []  -- ghost: discarded at full buffer
  closed : Bool := false

structure Static where
  cap : Nat → Nat
  discard : Nat → Bool

structure Thread where
  todo : List (Nat × Ev) := []   -- pending sends (target, event)
  noted : Bool := false          -- already counted buffer-full for head

structure St where
  node : Nat → NodeSt
  thr : Nat → Thread
  panic : Bool := false

inductive Act
  | send (t : Nat)        -- thread t attempts / completes its head send
  | recv (n : Nat) (t : Nat) (res : List (Nat × Ev)) -- worker thread t of node n dequeues, processes with outcome producing sends `res`

def step (S : Static) (s : St) : Act → Option St
  | .send t =>
    match (s.thr t).todo with
    | [] => none
    | (c, e) :: rest =>
      let nc := s.node c
      if nc.closed then some { s with panic := true }
      else if nc.ch.length < S.cap c then
        some { s with node := upd s.node c { nc with ch := nc.ch ++ [e], enq := nc.enq ++ [e] },
                      thr := upd s.thr t { todo := rest, noted := false } }
      else if S.discard c then
        some { s with node := upd s.node c { nc with dropped := nc.dropped ++ [e] },
                      thr := upd s.thr t { todo := rest, noted := false } }
      else if (s.thr t).noted then none   -- blocked
      else some { s with thr := upd s.thr t { (s.thr t) with noted := true } }
  | .recv n t res =>
    match (s.node n).ch, (s.thr t).todo with
    | e :: rest, [] =>
      let nn := s.node n
      some { s with node := upd s.node n { nn with ch := rest, deq := nn.deq ++ [e] },
                    thr := upd s.thr t { todo := res, noted := false } }
    | _, _ => none

def Inv (S : Static) (s : St) : Prop :=
  ∀ n, (s.node n).enq = (s.node n).deq ++ (s.node n).ch ∧
       (s.node n).ch.length ≤ S.cap n ∧
       (S.discard n = false → (s.node n).dropped = [])

theorem step_inv (S : Static) (s s' : St) (a : Act) (h : Inv S s) (hs : step S s a = some s') : Inv S s' := by
  cases a with
  | send t =>
    simp only [step] at hs
    split at hs
    · simp at hs
    · rename_i c e rest _
      have hc := h c
      split at hs
      · cases hs; exact h
      · split at hs
        · cases hs
          intro n
          by_cases hn : n = c
          · subst hn; simp; grind
          · simpa [upd_other _ _ _ _ hn] using h n
        · split at hs
          · cases hs
            intro n
            by_cases hn : n = c
            · subst hn; simp; grind
            · simpa [upd_other _ _ _ _ hn] using h n
          · split at hs
            · simp at hs
            · cases hs; exact h
  | recv n t res =>
    simp only [step] at hs
    split at hs
    · rename_i e rest _ hch _
      cases hs
      have hn := h n
      intro m
      by_cases hm : m = n
      · subst hm; simp; grind
      · simpa [upd_other _ _ _ _ hm] using h m
    · simp at hs
end ProtoX
