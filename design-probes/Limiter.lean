/-! prototype: C19 token-bucket bound in integer time units (T = ns per token, C = burst * T) -/
namespace ProtoL
inductive Op | advance (dt : Nat) | grant

structure St where
  level : Int      -- accumulated credit in ns, 0 ≤ level ≤ C
  elapsed : Int := 0
  spent : Int := 0 -- T per grant

def step (T C : Int) (s : St) : Op → Option St
  | .advance dt => some { s with level := min C (s.level + dt), elapsed := s.elapsed + dt }
  | .grant => if s.level ≥ T then some { s with level := s.level - T, spent := s.spent + T } else none

def run (T C : Int) (s : St) : List Op → Option St
  | [] => some s
  | op :: ops => match step T C s op with
    | some s' => run T C s' ops
    | none => none

/-- over any op sequence: spent ≤ level₀ + elapsed, and the level stays within [0, C] -/
theorem bucket_bound (T C : Int) (hT : 0 < T) (hC : 0 ≤ C) (s s' : St) (ops : List Op)
    (h0 : 0 ≤ s.level ∧ s.level ≤ C) (hr : run T C s ops = some s') :
    (s'.spent - s.spent) + s'.level ≤ s.level + (s'.elapsed - s.elapsed) ∧ 0 ≤ s'.level ∧ s'.level ≤ C := by
  induction ops generalizing s with
  | nil => simp [run] at hr; subst hr; omega
  | cons op ops ih =>
    simp only [run] at hr
    cases op with
    | advance dt =>
      simp only [step] at hr
      have := ih _ (by simp only []; omega) hr
      simp only [] at this; omega
    | grant =>
      by_cases hg : s.level ≥ T
      · simp only [step, hg, if_true] at hr
        have := ih _ (by show 0 ≤ s.level - T ∧ s.level - T ≤ C; omega) hr
        simp only [] at this; omega
      · simp [step, hg] at hr

/-- hence in any window: grants·T ≤ C + Δ, i.e. at most burst + rate·Δ grants -/
theorem window_bound (T C : Int) (hT : 0 < T) (hC : 0 ≤ C) (s s' : St) (ops : List Op)
    (h0 : 0 ≤ s.level ∧ s.level ≤ C) (hr : run T C s ops = some s') :
    s'.spent - s.spent ≤ C + (s'.elapsed - s.elapsed) := by
  have := bucket_bound T C hT hC s s' ops h0 hr; omega
end ProtoL
