namespace ProtoC
inductive Cfg where
  | mk (id : String) (children : List Cfg) (eh : Option Cfg)

mutual
def ids : Cfg → List String
  | .mk id cs _ => id :: idsL cs
def idsL : List Cfg → List String
  | [] => []
  | c :: cs => ids c ++ idsL cs
end

/-- transcription of validateUniqueID: threads the seen-set, only descends into FIRST child (bug as in code) -/
def uniqCode (seen : List String) : Cfg → Option (List String)
  | .mk id cs _ =>
    if id ∈ seen then none else
    match cs with
    | [] => some (id :: seen)
    | c :: _ => uniqCode (id :: seen) c

mutual
def uniqFix (seen : List String) : Cfg → Option (List String)
  | .mk id cs _ => if id ∈ seen then none else uniqFixL (id :: seen) cs
def uniqFixL (seen : List String) : List Cfg → Option (List String)
  | [] => some seen
  | c :: cs => match uniqFix seen c with
    | none => none
    | some s' => uniqFixL s' cs
end

mutual
theorem uniqFix_spec (seen : List String) (c : Cfg) :
    (∀ s', uniqFix seen c = some s' → ∀ x, x ∈ s' ↔ x ∈ seen ∨ x ∈ ids c) := by
  match c with
  | .mk id cs eh =>
    intro s' h x
    simp only [uniqFix] at h
    split at h
    · simp at h
    · have := uniqFixL_spec (id :: seen) cs s' h x
      simp [ids] at *; rw [this]; grind
theorem uniqFixL_spec (seen : List String) (cs : List Cfg) :
    (∀ s', uniqFixL seen cs = some s' → ∀ x, x ∈ s' ↔ x ∈ seen ∨ x ∈ idsL cs) := by
  match cs with
  | [] => intro s' h x; simp [uniqFixL] at h; subst h; simp [idsL]
  | c :: cs =>
    intro s' h x
    simp only [uniqFixL] at h
    split at h
    · simp at h
    · rename_i s1 h1
      have a := uniqFix_spec seen c s1 h1 x
      have b := uniqFixL_spec s1 cs s' h x
      simp [idsL]; rw [b, a]; grind
end

-- witness that the code-as-is accepts a duplicate among siblings
example : (uniqCode [] (.mk "a" [.mk "b" [] none, .mk "b" [] none] none)).isSome = true := by decide
end ProtoC
