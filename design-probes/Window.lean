/-! prototype: C07 emission window of recoverSingleEvent for in-order delivery (code as it is today) -/
namespace ProtoW

inductive Out | drop | emit (o : Int) | complete
deriving DecidableEq, Repr

/-- recoverSingleEvent for an active partition (from,to); the map entry is never advanced by the code -/
def recOne (fromO toO o : Int) : Out :=
  if o < fromO then .drop
  else if toO - o < 0 then .complete
  else if o > fromO then .emit o
  else .drop

/-- offsets x, x+1, …, x+n-1 -/
def seqFrom (x : Int) : Nat → List Int
  | 0 => []
  | n+1 => x :: seqFrom (x+1) n

theorem mem_seqFrom (x : Int) (n : Nat) (o : Int) : o ∈ seqFrom x n ↔ x ≤ o ∧ o < x + n := by
  induction n generalizing x with
  | zero => simp [seqFrom]
  | succ n ih => simp [seqFrom, ih]; omega

def emitted (fromO toO : Int) (l : List Int) : List Int :=
  l.filterMap (fun o => match recOne fromO toO o with | .emit o => some o | _ => none)

theorem recOne_emit (fromO toO a o : Int) : recOne fromO toO a = .emit o ↔ (a = o ∧ fromO < a ∧ a ≤ toO) := by
  unfold recOne
  split
  · simp; omega
  · split
    · simp; omega
    · split
      · simp; omega
      · simp; omega

/-- exact emission set today: (from, to] -/
theorem emitted_iff (fromO toO : Int) (l : List Int) (o : Int) :
    o ∈ emitted fromO toO l ↔ o ∈ l ∧ fromO < o ∧ o ≤ toO := by
  unfold emitted
  simp only [List.mem_filterMap]
  constructor
  · rintro ⟨a, ha, h⟩
    cases hr : recOne fromO toO a with
    | drop => simp [hr] at h
    | complete => simp [hr] at h
    | emit b =>
      simp [hr] at h; subst h
      obtain ⟨rfl, h1, h2⟩ := (recOne_emit _ _ _ _).1 hr
      exact ⟨ha, h1, h2⟩
  · rintro ⟨hl, h1, h2⟩
    exact ⟨o, hl, by rw [(recOne_emit fromO toO o o).2 ⟨rfl, h1, h2⟩]⟩

-- the record at `from` is never emitted although it belongs to [from,to): witness
example : (10 : Int) ∉ emitted 10 20 (seqFrom 10 13) := by decide
example : emitted 10 20 (seqFrom 10 13) = [11,12,13,14,15,16,17,18,19,20] := by decide
end ProtoW
