/-! prototype: C06 lag-cap arithmetic -/
namespace Proto

def wrap64 (x : Int) : Int := (x + 2^63) % 2^64 - 2^63

theorem wrap64_id (x : Int) (h1 : -(2^63) ≤ x) (h2 : x < 2^63) : wrap64 x = x := by
  unfold wrap64; omega

/-- transcription of calculateAssignmentOffsets' per-partition body.  returns (start, recovery request before trimming) -/
def startOffset (maxLag : Int) (recEnabled : Bool) (committed : Int) (high : Int) : Int × Option (Int × Int) :=
  let po := if committed = -1001 then 0 else committed
  if wrap64 (high - po) > maxLag then
    if maxLag > high then (0, none)
    else
      let capped := wrap64 (high - maxLag)
      (capped, if recEnabled then some (po, capped) else none)
  else (po, none)

theorem start_spec (maxLag c high : Int) (re : Bool)
    (hc : 0 ≤ c) (hc2 : c ≤ 2^62) (hh : 0 ≤ high) (hh2 : high ≤ 2^62) (hm : 0 ≤ maxLag) (hm2 : maxLag < 2^63) :
    (startOffset maxLag re c high).1 = if high - c ≤ maxLag then c else high - maxLag := by
  unfold startOffset
  have h1 : wrap64 (high - c) = high - c := wrap64_id _ (by omega) (by omega)
  have hne : c ≠ -1001 := by omega
  simp only [hne, if_false, h1]
  split
  · split
    · omega
    · have : wrap64 (high - maxLag) = high - maxLag := wrap64_id _ (by omega) (by omega)
      simp [this]; omega
  · simp; omega

def trim (maxRecords fromO toO : Int) : Int × Int :=
  if wrap64 (toO - fromO) > maxRecords then (wrap64 (toO - maxRecords), toO) else (fromO, toO)

end Proto
