/-! prototype: C14 per-attempt conservation of handleErrorResponses and exactly-once answering over a retry chain -/
namespace ProtoEs
abbrev Doc := Nat
inductive Outcome | ok | retryable | mapping
deriving DecidableEq
inductive Ans | success | error
deriving DecidableEq

/-- one attempt with a partial-failure response: answers given now, docs carried to the next attempt -/
def handle (retry max : Nat) : List (Doc × Outcome) → List (Doc × Ans) × List Doc
  | [] => ([], [])
  | (d, o) :: rest =>
    let (as, rs) := handle retry max rest
    match o with
    | .ok => ((d, .success) :: as, rs)
    | .mapping => ((d, .error) :: as, rs)
    | .retryable => if retry = max then ((d, .error) :: as, rs) else (as, d :: rs)
    -- (the code also appends exhausted docs to its retry slice but then returns ErrMaxRetries without using it)

/-- conservation: every doc of the attempt is answered now xor carried over, never both, never neither -/
theorem handle_conserve (retry max : Nat) (l : List (Doc × Outcome)) (d : Doc) :
    ((handle retry max l).1.map (·.1)).count d + (handle retry max l).2.count d = (l.map (·.1)).count d := by
  induction l with
  | nil => simp [handle]
  | cons p rest ih =>
    obtain ⟨d', o⟩ := p
    simp only [handle]
    cases o <;> simp only [] <;> (try split) <;> simp [List.count_cons] <;> omega

/-- a whole retry chain: `script d k` is ES's verdict for doc d at attempt k -/
def chain (max : Nat) (script : Doc → Nat → Outcome) : Nat → Nat → List Doc → List (Doc × Ans)
  | 0, _, _ => []
  | fuel+1, retry, docs =>
    let r := handle retry max (docs.map (fun d => (d, script d retry)))
    r.1 ++ (if retry = max then [] else chain max script fuel (retry+1) r.2)

theorem carried_none_at_max (max : Nat) (l : List (Doc × Outcome)) : (handle max max l).2 = [] := by
  induction l with
  | nil => simp [handle]
  | cons p rest ih => obtain ⟨d, o⟩ := p; simp only [handle]; cases o <;> simp [ih]

/-- exactly-once: with enough fuel (max - retry + 1 attempts) every doc is answered exactly as often as it was accepted -/
theorem chain_exactly_once (max : Nat) (script : Doc → Nat → Outcome) (fuel retry : Nat) (docs : List Doc)
    (hr : retry ≤ max) (hf : max - retry < fuel) (d : Doc) :
    ((chain max script fuel retry docs).map (·.1)).count d = docs.count d := by
  induction fuel generalizing retry docs with
  | zero => omega
  | succ fuel ih =>
    simp only [chain]
    have hc := handle_conserve retry max (docs.map (fun d => (d, script d retry))) d
    have hm : (docs.map (fun d => (d, script d retry))).map (·.1) = docs := by simp [List.map_map]; exact List.map_id' docs
    rw [hm] at hc
    by_cases he : retry = max
    · subst he
      have := carried_none_at_max retry (docs.map (fun d => (d, script d retry)))
      simp [this] at hc
      simp [List.count_append]; omega
    · simp only [he, if_false, List.map_append, List.count_append]
      rw [ih (retry+1) _ (by omega) (by omega)]
      omega
end ProtoEs
