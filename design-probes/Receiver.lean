/-! prototype: C10 receiver, fixed variant (set of partitions that signalled EOF) -/
namespace ProtoR

structure Wire where
  key : String        -- uniqueKey(type,key)
  payload : Nat
  ack : Bool
deriving DecidableEq, Repr

inductive Op | record (w : Option Wire) | eof (p : Nat)

structure St where
  initialized : Bool := false
  eofs : List Nat := []          -- distinct partitions that signalled
  buf : List Wire := []          -- assoc list, at most one entry per key (latest)
  out : List Wire := []          -- deliveries in order

def put (buf : List Wire) (w : Wire) : List Wire :=
  w :: buf.filter (fun x => x.key ≠ w.key)

def step (nparts : Nat) (s : St) : Op → St
  | .record none => s
  | .record (some w) =>
    if s.initialized then (if w.ack then s else { s with out := s.out ++ [w] })
    else { s with buf := put s.buf w }
  | .eof p =>
    let eofs := if p ∈ s.eofs then s.eofs else p :: s.eofs
    if !s.initialized && eofs.length ≥ nparts then
      { s with eofs := eofs, initialized := true, out := s.out ++ s.buf.filter (fun w => !w.ack), buf := [] }
    else { s with eofs := eofs }

def run (nparts : Nat) (ops : List Op) : St := ops.foldl (step nparts) {}

/-- latest decodable record per key in a history -/
def latest (h : List Wire) (k : String) : Option Wire := (h.reverse.find? (fun w => w.key = k))

def recs : List Op → List Wire
  | [] => []
  | .record (some w) :: t => w :: recs t
  | _ :: t => recs t

theorem find_filter_ne (buf : List Wire) (k k' : String) (h : k' ≠ k) :
    (buf.filter (fun x => x.key ≠ k')).find? (fun x => x.key = k) = buf.find? (fun x => x.key = k) := by
  rw [List.find?_filter]
  congr 1
  funext x
  by_cases hx : x.key = k
  · subst hx; simp [Ne.symm h]
  · simp [hx]

theorem put_lookup (buf : List Wire) (w : Wire) (k : String) :
    (put buf w).find? (fun x => x.key = k) = if w.key = k then some w else buf.find? (fun x => x.key = k) := by
  unfold put
  by_cases h : w.key = k
  · simp [h]
  · simp only [List.find?_cons, h, decide_false, ite_false]
    exact find_filter_ne buf k w.key h

theorem latest_snoc (h : List Wire) (w : Wire) (k : String) :
    latest (h ++ [w]) k = if w.key = k then some w else latest h k := by
  unfold latest; simp [List.reverse_append, List.find?_cons]; split <;> simp_all

theorem recs_snoc (ops : List Op) (op : Op) :
    recs (ops ++ [op]) = recs ops ++ (match op with | .record (some w) => [w] | _ => []) := by
  induction ops with
  | nil => cases op with
    | record w => cases w <;> simp [recs]
    | eof p => simp [recs]
  | cons o os ih =>
    cases o with
    | record w => cases w <;> simp [recs, ih]
    | eof p => simp [recs, ih]

theorem init_mono (nparts : Nat) (s : St) (op : Op) (h : (step nparts s op).initialized = false) :
    s.initialized = false := by
  cases hs : s.initialized with
  | false => rfl
  | true =>
    cases op with
    | record w => cases w with
      | none => simp [step, hs] at h
      | some w => simp [step, hs] at h; split at h <;> simp [hs] at h
    | eof p => simp [step, hs] at h


def Pre (s : St) (hist : List Wire) : Prop :=
  s.out = [] ∧ ∀ k, s.buf.find? (fun x => x.key = k) = latest hist k

def opRecs : Op → List Wire
  | .record (some w) => [w]
  | _ => []

theorem step_pre (nparts : Nat) (s : St) (hist : List Wire) (op : Op)
    (hp : Pre s hist) (h0 : s.initialized = false) (h : (step nparts s op).initialized = false) :
    Pre (step nparts s op) (hist ++ opRecs op) := by
  obtain ⟨ih1, ih2⟩ := hp
  cases op with
  | record w =>
    cases w with
    | none => simpa [step, opRecs, Pre] using ⟨ih1, ih2⟩
    | some w =>
      simp only [step, h0, opRecs]
      refine ⟨by simpa using ih1, fun k => ?_⟩
      simp [put_lookup, latest_snoc, ih2]
  | eof p =>
    simp only [step, h0] at h ⊢
    generalize (if p ∈ s.eofs then s.eofs else p :: s.eofs) = E at h ⊢
    by_cases hc : (!false && decide (E.length ≥ nparts)) = true
    · have hle : nparts ≤ E.length := by simpa using hc
      simp [hle] at h
    · have hle : ¬ nparts ≤ E.length := by simpa using hc
      simp only [hc]; simpa [opRecs, Pre] using ⟨ih1, ih2⟩

/-- before initialisation nothing is delivered and the buffer holds exactly the latest record per key -/
theorem pre_init (nparts : Nat) (ops : List Op) (s : St) (hist : List Wire) (hp : Pre s hist)
    (h : (ops.foldl (step nparts) s).initialized = false) :
    Pre (ops.foldl (step nparts) s) (hist ++ ops.flatMap opRecs) := by
  induction ops generalizing s hist with
  | nil => simpa using hp
  | cons op ops ih =>
    simp only [List.foldl_cons, List.flatMap_cons] at h ⊢
    have hmono : ∀ (l : List Op) (t : St), (l.foldl (step nparts) t).initialized = false → t.initialized = false := by
      intro l; induction l with
      | nil => intro t ht; simpa using ht
      | cons o l ihl => intro t ht; simp only [List.foldl_cons] at ht; exact init_mono _ _ _ (ihl _ ht)
    have h1 := hmono ops _ h
    have h0 := init_mono _ _ _ h1
    have := ih (step nparts s op) (hist ++ opRecs op) (step_pre nparts s hist op hp h0 h1) h
    simpa [List.append_assoc] using this
end ProtoR
