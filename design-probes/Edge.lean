/-! prototype: per-edge conservation with counting instead of Perm.
    parent threads hold todo lists of sends to the child; ledger: for every event value x
      count x offered + Σ_t count x (todo t) = count x produced -/
namespace ProtoE
abbrev Ev := Nat
def upd {α} (f : Nat → α) (i : Nat) (v : α) : Nat → α := fun j => if j = i then v else f j
@[simp] theorem upd_same {α} (f : Nat → α) i v : upd f i v i = v := by simp [upd]
theorem upd_other {α} (f : Nat → α) i j v (h : j ≠ i) : upd f i v j = f j := by simp [upd, h]

/-- Σ_{t<T} count x (todo t) -/
def pend (T : Nat) (todo : Nat → List Ev) (x : Ev) : Nat :=
  match T with
  | 0 => 0
  | T+1 => pend T todo x + (todo T).count x

theorem pend_upd_ge (T : Nat) (todo : Nat → List Ev) (x : Ev) (t : Nat) (v : List Ev) (h : T ≤ t) :
    pend T (upd todo t v) x = pend T todo x := by
  induction T with
  | zero => rfl
  | succ T ih => simp only [pend]; rw [ih (by omega), upd_other _ _ _ _ (by omega : T ≠ t)]

theorem pend_upd (T : Nat) (todo : Nat → List Ev) (x : Ev) (t : Nat) (v : List Ev) (h : t < T) :
    pend T (upd todo t v) x + (todo t).count x = pend T todo x + v.count x := by
  induction T with
  | zero => omega
  | succ T ih =>
    simp only [pend]
    by_cases ht : t = T
    · subst ht; rw [pend_upd_ge _ _ _ _ _ (Nat.le_refl _)]; simp; omega
    · have := ih (by omega); rw [upd_other _ _ _ _ (fun h => ht h.symm)]; omega

structure St where
  offered : List Ev := []     -- ghost: completed send attempts to the child (enqueued or dropped)
  produced : List Ev := []    -- ghost: flatMap results of handled events with outcome pass
  todo : Nat → List Ev

inductive Act
  | handle (t : Nat) (results : List Ev)   -- thread t finished Process with outcome pass(results)
  | send (t : Nat)                          -- thread t completes its head send (enqueue or discard)

def step (T : Nat) (s : St) : Act → Option St
  | .handle t rs => if t < T then
      match s.todo t with
      | [] => some { s with produced := s.produced ++ rs, todo := upd s.todo t rs }
      | _ => none else none
  | .send t => if t < T then
      match s.todo t with
      | e :: rest => some { s with offered := s.offered ++ [e], todo := upd s.todo t rest }
      | [] => none else none

def Inv (T : Nat) (s : St) : Prop := ∀ x, s.offered.count x + pend T s.todo x = s.produced.count x

theorem step_inv (T : Nat) (s s' : St) (a : Act) (h : Inv T s) (hs : step T s a = some s') : Inv T s' := by
  intro x
  have hx := h x
  cases a with
  | handle t rs =>
    simp only [step] at hs
    split at hs
    · rename_i ht
      split at hs
      · rename_i hnil; cases hs
        have := pend_upd T s.todo x t rs ht
        simp [hnil, List.count_append] at this ⊢; omega
      · simp at hs
    · simp at hs
  | send t =>
    simp only [step] at hs
    split at hs
    · rename_i ht
      split at hs
      · rename_i e rest hcons; cases hs
        have := pend_upd T s.todo x t rest ht
        simp [hcons, List.count_append, List.count_cons] at this ⊢
        split at this <;> simp_all <;> omega
      · simp at hs
    · simp at hs

/-- at quiescence (all todo empty) the child was offered exactly what was produced, as a multiset -/
theorem quiescent (T : Nat) (s : St) (h : Inv T s) (hq : ∀ t, t < T → s.todo t = []) :
    s.offered.Perm s.produced := by
  have hz : ∀ x, pend T s.todo x = 0 := by
    intro x
    have : ∀ T', T' ≤ T → pend T' s.todo x = 0 := by
      intro T'; induction T' with
      | zero => intro _; rfl
      | succ T' ih => intro hle; simp [pend, ih (by omega), hq T' (by omega)]
    exact this T (Nat.le_refl _)
  apply List.perm_iff_count.2
  intro x; have := h x; rw [hz x] at this; omega
end ProtoE
