/-! prototype: close cascade for one parent (W workers) and one child; no send on closed, no double close -/
namespace ProtoCas

abbrev Ev := Nat
def upd {α} (f : Nat → α) (i : Nat) (v : α) : Nat → α := fun j => if j = i then v else f j
@[simp] theorem upd_same {α} (f : Nat → α) i v : upd f i v i = v := by simp [upd]
theorem upd_other {α} (f : Nat → α) i j v (h : j ≠ i) : upd f i v j = f j := by simp [upd, h]

inductive Pc | idle | busy (todo : List Ev) | c1 | c2 | c3 | hSh | hClose | exited
deriving DecidableEq

def Pc.live : Pc → Bool   -- still counted in the node's WaitGroup
  | .idle | .busy _ | .c1 => true
  | _ => false
def Pc.holder : Pc → Bool
  | .hSh | .hClose => true
  | _ => false
def Pc.past : Pc → Bool   -- passed WaitGroup.Wait
  | .c3 | .hSh | .hClose | .exited => true
  | _ => false

def cnt (W : Nat) (f : Nat → Pc) (P : Pc → Bool) : Nat :=
  match W with
  | 0 => 0
  | W+1 => cnt W f P + (if P (f W) then 1 else 0)

theorem cnt_upd_ge (W : Nat) (f : Nat → Pc) (P : Pc → Bool) (w : Nat) (v : Pc) (h : W ≤ w) :
    cnt W (upd f w v) P = cnt W f P := by
  induction W with
  | zero => rfl
  | succ W ih =>
    simp only [cnt]; rw [ih (by omega), upd_other _ _ _ _ (by omega : W ≠ w)]

theorem cnt_upd (W : Nat) (f : Nat → Pc) (P : Pc → Bool) (w : Nat) (v : Pc) (h : w < W) :
    cnt W (upd f w v) P + (if P (f w) then 1 else 0) = cnt W f P + (if P v then 1 else 0) := by
  induction W with
  | zero => omega
  | succ W ih =>
    simp only [cnt]
    by_cases hw : w = W
    · subst hw; rw [cnt_upd_ge _ _ _ _ _ (Nat.le_refl _)]; simp; omega
    · have := ih (by omega); rw [upd_other _ _ _ _ (fun h => hw h.symm)]; omega

theorem cnt_pos_of (W : Nat) (f : Nat → Pc) (P : Pc → Bool) (w : Nat) (h : w < W) (hp : P (f w) = true) :
    0 < cnt W f P := by
  induction W with
  | zero => omega
  | succ W ih =>
    simp only [cnt]
    by_cases hw : w = W
    · subst hw; simp [hp]
    · have := ih (by omega); omega

theorem cnt_zero_all (W : Nat) (f : Nat → Pc) (P : Pc → Bool) (h : cnt W f P = 0) (w : Nat) (hw : w < W) :
    P (f w) = false := by
  cases hp : P (f w) with
  | false => rfl
  | true => have := cnt_pos_of W f P w hw hp; omega

structure St where
  pch : List Ev := []
  pclosed : Bool := false
  cch : List Ev := []
  ccap : Nat := 1
  cclosed : Bool := false
  wg : Nat
  onceTaken : Bool := false
  onceDone : Bool := false
  pc : Nat → Pc
  panic : Bool := false

inductive Act
  | mainSend (e : Ev) | closeP
  | recv (w : Nat) | seeClosed (w : Nat) | send (w : Nat) | finish (w : Nat)
  | wgDone (w : Nat) | wgWait (w : Nat) | onceEnter (w : Nat) | shutdown (w : Nat) | closeChild (w : Nat)

def step (W : Nat) (s : St) : Act → Option St
  | .mainSend e => if s.pclosed then none else some { s with pch := s.pch ++ [e] }
  | .closeP => if s.pclosed then none else some { s with pclosed := true }
  | .recv w => if w < W then
      match s.pc w, s.pch with
      | .idle, e :: rest => some { s with pch := rest, pc := upd s.pc w (.busy [e, e]) }
      | _, _ => none else none
  | .seeClosed w => if w < W then
      match s.pc w, s.pch with
      | .idle, [] => if s.pclosed then some { s with pc := upd s.pc w .c1 } else none
      | _, _ => none else none
  | .send w => if w < W then
      match s.pc w with
      | .busy (e :: todo) =>
        if s.cclosed then some { s with panic := true }
        else if s.cch.length < s.ccap then some { s with cch := s.cch ++ [e], pc := upd s.pc w (.busy todo) }
        else none
      | _ => none else none
  | .finish w => if w < W then
      match s.pc w with
      | .busy [] => some { s with pc := upd s.pc w .idle }
      | _ => none else none
  | .wgDone w => if w < W then
      match s.pc w with
      | .c1 => some { s with wg := s.wg - 1, pc := upd s.pc w .c2 }
      | _ => none else none
  | .wgWait w => if w < W then
      match s.pc w with
      | .c2 => if s.wg = 0 then some { s with pc := upd s.pc w .c3 } else none
      | _ => none else none
  | .onceEnter w => if w < W then
      match s.pc w with
      | .c3 => if !s.onceTaken then some { s with onceTaken := true, pc := upd s.pc w .hSh }
               else if s.onceDone then some { s with pc := upd s.pc w .exited } else none
      | _ => none else none
  | .shutdown w => if w < W then
      match s.pc w with
      | .hSh => some { s with pc := upd s.pc w .hClose }
      | _ => none else none
  | .closeChild w => if w < W then
      match s.pc w with
      | .hClose => if s.cclosed then some { s with panic := true }
                   else some { s with cclosed := true, onceDone := true, pc := upd s.pc w .exited }
      | _ => none else none

structure Inv (W : Nat) (s : St) : Prop where
  wg_live : s.wg = cnt W s.pc Pc.live
  past_wg : ∀ w, w < W → (s.pc w).past = true → s.wg = 0
  holders : cnt W s.pc Pc.holder = (if s.onceTaken && !s.onceDone then 1 else 0)
  done_taken : s.onceDone = true → s.onceTaken = true
  cclosed_iff : s.cclosed = s.onceDone
  taken_wg : s.onceTaken = true → s.wg = 0
  no_panic : s.panic = false


/-- effect of moving worker `w` from its current pc to `v` on the three derived facts -/
theorem move (W : Nat) (f : Nat → Pc) (w : Nat) (v : Pc) (hw : w < W) :
    (cnt W (upd f w v) Pc.live + (if (f w).live then 1 else 0) = cnt W f Pc.live + (if v.live then 1 else 0)) ∧
    (cnt W (upd f w v) Pc.holder + (if (f w).holder then 1 else 0) = cnt W f Pc.holder + (if v.holder then 1 else 0)) ∧
    (∀ u, u < W → ((upd f w v) u).past = true → (u = w ∧ v.past = true) ∨ (u ≠ w ∧ (f u).past = true)) := by
  refine ⟨cnt_upd W f _ w v hw, cnt_upd W f _ w v hw, ?_⟩
  intro u _ hp
  by_cases h : u = w
  · subst h; simp at hp; exact Or.inl ⟨rfl, hp⟩
  · rw [upd_other _ _ _ _ h] at hp; exact Or.inr ⟨h, hp⟩

macro "og" h:ident : tactic => `(tactic| (split at $h:ident; rotate_left; (simp at $h:ident)))

theorem step_inv (W : Nat) (s s' : St) (a : Act) (h : Inv W s) (hs : step W s a = some s') : Inv W s' := by
  obtain ⟨h1, h2, h3, h4, h5, h6, h7⟩ := h
  cases a with
  | mainSend e => simp only [step] at hs; split at hs <;> simp at hs; subst hs; exact ⟨h1, h2, h3, h4, h5, h6, h7⟩
  | closeP => simp only [step] at hs; split at hs <;> simp at hs; subst hs; exact ⟨h1, h2, h3, h4, h5, h6, h7⟩
  | recv w =>
    simp only [step] at hs; og hs
    rename_i hw; og hs
    rename_i e rest hpc _; cases hs
    obtain ⟨m1, m2, m3⟩ := move W s.pc w (.busy [e, e]) hw
    simp [hpc, Pc.live, Pc.holder] at m1 m2
    refine ⟨by simp; omega, ?_, (by have h3' := h3; simp at h3' ⊢; omega), h4, h5, h6, h7⟩
    intro u hu hp; rcases m3 u hu hp with ⟨_, hv⟩ | ⟨_, hv⟩
    · simp [Pc.past] at hv
    · exact h2 u hu hv
  | seeClosed w =>
    simp only [step] at hs; og hs
    rename_i hw; og hs
    rename_i hpc _; og hs
    cases hs
    obtain ⟨m1, m2, m3⟩ := move W s.pc w .c1 hw
    simp [hpc, Pc.live, Pc.holder] at m1 m2
    refine ⟨by simp; omega, ?_, (by have h3' := h3; simp at h3' ⊢; omega), h4, h5, h6, h7⟩
    intro u hu hp; rcases m3 u hu hp with ⟨_, hv⟩ | ⟨_, hv⟩
    · simp [Pc.past] at hv
    · exact h2 u hu hv
  | send w =>
    simp only [step] at hs; og hs
    rename_i hw; og hs
    rename_i e todo hpc
    have hlive : 0 < cnt W s.pc Pc.live := cnt_pos_of W s.pc _ w hw (by simp [hpc, Pc.live])
    split at hs
    · -- child closed: impossible
      rename_i hc
      have : s.onceTaken = true := h4 (by rw [← h5]; exact hc)
      have := h6 this; omega
    · og hs
      cases hs
      obtain ⟨m1, m2, m3⟩ := move W s.pc w (.busy todo) hw
      simp [hpc, Pc.live, Pc.holder] at m1 m2
      refine ⟨by simp; omega, ?_, (by have h3' := h3; simp at h3' ⊢; omega), h4, h5, h6, h7⟩
      intro u hu hp; rcases m3 u hu hp with ⟨_, hv⟩ | ⟨_, hv⟩
      · simp [Pc.past] at hv
      · exact h2 u hu hv
  | finish w =>
    simp only [step] at hs; og hs
    rename_i hw; og hs
    rename_i hpc; cases hs
    obtain ⟨m1, m2, m3⟩ := move W s.pc w .idle hw
    simp [hpc, Pc.live, Pc.holder] at m1 m2
    refine ⟨by simp; omega, ?_, (by have h3' := h3; simp at h3' ⊢; omega), h4, h5, h6, h7⟩
    intro u hu hp; rcases m3 u hu hp with ⟨_, hv⟩ | ⟨_, hv⟩
    · simp [Pc.past] at hv
    · exact h2 u hu hv
  | wgDone w =>
    simp only [step] at hs; og hs
    rename_i hw; og hs
    rename_i hpc; cases hs
    obtain ⟨m1, m2, m3⟩ := move W s.pc w .c2 hw
    simp [hpc, Pc.live, Pc.holder] at m1 m2
    have hlive : 0 < cnt W s.pc Pc.live := cnt_pos_of W s.pc _ w hw (by simp [hpc, Pc.live])
    refine ⟨by simp; omega, ?_, (by have h3' := h3; simp at h3' ⊢; omega), h4, h5, ?_, h7⟩
    · intro u hu hp; rcases m3 u hu hp with ⟨_, hv⟩ | ⟨_, hv⟩
      · simp [Pc.past] at hv
      · have := h2 u hu hv; omega
    · intro ht; have := h6 ht; omega
  | wgWait w =>
    simp only [step] at hs; og hs
    rename_i hw; og hs
    rename_i hpc; og hs
    rename_i hz; cases hs
    obtain ⟨m1, m2, m3⟩ := move W s.pc w .c3 hw
    simp [hpc, Pc.live, Pc.holder] at m1 m2
    refine ⟨by simp; omega, ?_, (by have h3' := h3; simp at h3' ⊢; omega), h4, h5, h6, h7⟩
    intro u hu hp; exact hz
  | onceEnter w =>
    simp only [step] at hs; og hs
    rename_i hw; og hs
    rename_i hpc
    have hz : s.wg = 0 := h2 w hw (by simp [hpc, Pc.past])
    split at hs
    · rename_i hnt; cases hs
      obtain ⟨m1, m2, m3⟩ := move W s.pc w .hSh hw
      simp [hpc, Pc.live, Pc.holder] at m1 m2
      simp at hnt
      have hnd : s.onceDone = false := by
        cases hd : s.onceDone with
        | false => rfl
        | true => have := h4 hd; simp [hnt] at this
      refine ⟨by simp; omega, ?_, ?_, by simp, by simpa using h5, by simp; exact hz, h7⟩
      · intro u hu hp; exact hz
      · simp [hnt, hnd] at h3 ⊢; omega
    · og hs
      rename_i hd; cases hs
      obtain ⟨m1, m2, m3⟩ := move W s.pc w .exited hw
      simp [hpc, Pc.live, Pc.holder] at m1 m2
      refine ⟨by simp; omega, ?_, (by have h3' := h3; simp at h3' ⊢; omega), h4, h5, h6, h7⟩
      intro u hu hp; exact hz
  | shutdown w =>
    simp only [step] at hs; og hs
    rename_i hw; og hs
    rename_i hpc; cases hs
    have hz : s.wg = 0 := h2 w hw (by simp [hpc, Pc.past])
    obtain ⟨m1, m2, m3⟩ := move W s.pc w .hClose hw
    simp [hpc, Pc.live, Pc.holder] at m1 m2
    refine ⟨by simp; omega, ?_, (by have h3' := h3; simp at h3' ⊢; omega), h4, h5, h6, h7⟩
    intro u hu hp; exact hz
  | closeChild w =>
    simp only [step] at hs; og hs
    rename_i hw; og hs
    rename_i hpc
    have hz : s.wg = 0 := h2 w hw (by simp [hpc, Pc.past])
    have hh : 0 < cnt W s.pc Pc.holder := cnt_pos_of W s.pc _ w hw (by simp [hpc, Pc.holder])
    have hnd : s.onceDone = false := by
      cases hd : s.onceDone with
      | false => rfl
      | true => simp [hd] at h3; omega
    have ht : s.onceTaken = true := by
      cases htk : s.onceTaken with
      | true => rfl
      | false => simp [htk] at h3; omega
    split at hs
    · rename_i hc; rw [h5, hnd] at hc; simp at hc
    · cases hs
      obtain ⟨m1, m2, m3⟩ := move W s.pc w .exited hw
      simp [hpc, Pc.live, Pc.holder] at m1 m2
      refine ⟨by simp; omega, ?_, ?_, by simp [ht], by simp, (fun _ => hz), h7⟩
      · intro u hu hp; exact hz
      · simp [ht, hnd] at h3 ⊢; omega
end ProtoCas
