namespace ProtoK
/-- uniqueKey on character lists: type ++ "-" ++ key -/
def ukey (t k : List Char) : List Char := t ++ '-' :: k

theorem ukey_inj (t1 k1 t2 k2 : List Char) (h1 : '-' ∉ t1) (h2 : '-' ∉ t2)
    (h : ukey t1 k1 = ukey t2 k2) : t1 = t2 ∧ k1 = k2 := by
  unfold ukey at h
  induction t1 generalizing t2 with
  | nil =>
    cases t2 with
    | nil => simpa using h
    | cons c t2 => simp at h; simp at h2; exact absurd h.1 h2.1
  | cons c t1 ih =>
    cases t2 with
    | nil => simp at h; simp at h1; exact absurd h.1.symm h1.1
    | cons d t2 =>
      simp at h h1 h2
      obtain ⟨rfl, h⟩ := h
      have := ih t2 h1.2 h2.2 (by simpa using h)
      simp [this.1, this.2]

-- collision witness when the type may contain '-'
example : ukey "a-b".toList "c".toList = ukey "a".toList "b-c".toList := by decide

inductive IR where
  | recv (ch : String) | send (ch : String) | seq (l : List IR) | call (f : String)
def a : IR := .seq [.recv "node.Ch", .call "ProcessEvent", .seq [.send "child.Ch"]]
def b : IR := .seq [.recv "node.Ch", .call "ProcessEvent", .seq [.send "child.Ch"]]
theorem ab : a = b := by rfl
structure Instr where
  depth : Nat
  op : String
  arg : String
deriving DecidableEq, Repr
def p1 : List Instr := [⟨0,"for","select"⟩, ⟨1,"recv","node.Ch"⟩, ⟨2,"call","node.WaitGroup.Done"⟩, ⟨2,"call","node.WaitGroup.Wait"⟩, ⟨2,"once","node.ShutdownOnce"⟩, ⟨3,"call","NodeProcessor.Shutdown"⟩, ⟨3,"close","child.Ch"⟩]
def p2 : List Instr := [⟨0,"for","select"⟩, ⟨1,"recv","node.Ch"⟩, ⟨2,"call","node.WaitGroup.Done"⟩, ⟨2,"call","node.WaitGroup.Wait"⟩, ⟨2,"once","node.ShutdownOnce"⟩, ⟨3,"call","NodeProcessor.Shutdown"⟩, ⟨3,"close","child.Ch"⟩]
theorem p12 : p1 = p2 := by decide
end ProtoK
