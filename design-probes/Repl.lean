/-! prototype: state-based replication is insensitive to log compaction -/
namespace ProtoRep
abbrev Key := Int
abbrev Snap := List (Int × Int)
abbrev Store := Key → Snap
def upd (f : Store) (k : Key) (v : Snap) : Store := fun j => if j = k then v else f j

def recvAll (B : Store) : List (Key × Snap) → Store
  | [] => B
  | (k, v) :: ms => recvAll (upd B k v) ms

/-- value of the last message for key j, if any -/
def lastOf (j : Key) : List (Key × Snap) → Option Snap
  | [] => none
  | (k, v) :: ms => match lastOf j ms with
    | some w => some w
    | none => if k = j then some v else none

theorem recvAll_char (B : Store) (ms : List (Key × Snap)) (j : Key) :
    recvAll B ms j = (lastOf j ms).getD (B j) := by
  induction ms generalizing B with
  | nil => simp [recvAll, lastOf]
  | cons m ms ih =>
    obtain ⟨k, v⟩ := m
    simp only [recvAll, lastOf]
    rw [ih]
    cases h : lastOf j ms with
    | some w => simp
    | none =>
      by_cases hk : k = j
      · subst hk; simp [upd]
      · have : ¬ j = k := fun e => hk e.symm
        simp [upd, hk, this]

theorem lastOf_append (j : Key) (l1 l2 : List (Key × Snap)) :
    lastOf j (l1 ++ l2) = match lastOf j l2 with | some w => some w | none => lastOf j l1 := by
  induction l1 with
  | nil => simp [lastOf]; cases lastOf j l2 <;> rfl
  | cons m l1 ih =>
    obtain ⟨k, v⟩ := m
    simp only [List.cons_append, lastOf, ih]
    cases lastOf j l2 <;> simp

theorem lastOf_some_of_mem (j : Key) (l : List (Key × Snap)) (h : ∃ m ∈ l, m.1 = j) : (lastOf j l).isSome := by
  induction l with
  | nil => simp at h
  | cons m l ih =>
    obtain ⟨k, v⟩ := m
    simp only [lastOf]
    cases hl : lastOf j l with
    | some w => simp
    | none =>
      obtain ⟨m', hm, hk⟩ := h
      simp at hm
      rcases hm with rfl | hm
      · simp at hk; simp [hk]
      · have := ih ⟨m', hm, hk⟩; simp [hl] at this

/-- deleting a record that is followed by a later record with the same key changes nothing -/
theorem drop_shadowed (B : Store) (l1 l2 : List (Key × Snap)) (m : Key × Snap)
    (h : ∃ m' ∈ l2, m'.1 = m.1) : recvAll B (l1 ++ m :: l2) = recvAll B (l1 ++ l2) := by
  funext j
  rw [recvAll_char, recvAll_char, lastOf_append, lastOf_append]
  obtain ⟨k, v⟩ := m
  simp only [lastOf]
  cases hl : lastOf j l2 with
  | some w => rfl
  | none =>
    by_cases hk : k = j
    · subst hk
      have := lastOf_some_of_mem k l2 h
      simp [hl] at this
    · simp [hk]

/-- log compaction: repeatedly delete shadowed records -/
inductive Compacts : List (Key × Snap) → List (Key × Snap) → Prop
  | refl (l) : Compacts l l
  | drop (l1 l2 m l') : (∃ m' ∈ l2, m'.1 = m.1) → Compacts (l1 ++ l2) l' → Compacts (l1 ++ m :: l2) l'

theorem compaction_invisible (B : Store) (ms ms' : List (Key × Snap)) (h : Compacts ms ms') :
    recvAll B ms' = recvAll B ms := by
  induction h with
  | refl l => rfl
  | drop l1 l2 m l' hs _ ih => rw [ih, drop_shadowed B l1 l2 m hs]
end ProtoRep
