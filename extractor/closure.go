package main

// Influence closure of a property's pinned functions (§4e of DESIGN.md).
//
// A function pin says "the code this model was transcribed from has not changed".  What the pinned code *reads* can still be
// changed from elsewhere: a constructor that initialises a field differently, a Setup that replaces a context, a package
// variable that gets re-assigned, a helper the pinned code calls.  For every property the closure is computed mechanically:
//
//	R = the pinned functions + the repo functions they call (by name, up to depth 3)
//	F = the struct fields and package-level variables of the repo that functions in R mention
//	W = every repo function that writes a member of F (assignment, inc/dec, composite-literal key, delete/append target)
//
// and for every function in R ∪ W a digest of its normalised full-statement form is emitted.  The list is compared with the
// reviewed copy by a theorem per property; a difference names the functions that changed, appeared or disappeared.

import (
	"crypto/sha256"
	"encoding/hex"
	"encoding/json"
	"fmt"
	"go/ast"
	"go/parser"
	"go/token"
	"os"
	"path/filepath"
	"sort"
	"strings"
)

type fnInfo struct {
	key   string // "<rel file>:<recv>.<name>"
	pkg   string // package directory, relative
	recv  string
	name  string
	decl  *ast.FuncDecl
	file  *ast.File
	calls map[string]bool // resolved callee keys
	reads map[string]bool // "f:<field>" / "v:<pkg>:<var>"
	wr    map[string]bool // same vocabulary, written
}

var cloDepth = 0
var cloWriters = true

const modPath = "github.com/digitalocean/firebolt"

func skipDir(rel string) bool {
	for _, p := range []string{"examples", "testutil", "docs", "inttest", "vendor", ".git", "internal"} {
		if rel == p || strings.HasPrefix(rel, p+"/") {
			return true
		}
	}
	return false
}

func loadRepo(repo string) (map[string]*fnInfo, map[string]bool, map[string]map[string]bool) {
	fns := map[string]*fnInfo{}
	fields := map[string]bool{}
	pkgVars := map[string]map[string]bool{}
	_ = filepath.Walk(repo, func(path string, info os.FileInfo, err error) error {
		if err != nil {
			return nil
		}
		rel, _ := filepath.Rel(repo, path)
		if info.IsDir() {
			if rel != "." && skipDir(rel) {
				return filepath.SkipDir
			}
			return nil
		}
		if !strings.HasSuffix(rel, ".go") || strings.HasSuffix(rel, "_test.go") || filepath.Base(rel) == "verif_hooks.go" || strings.HasPrefix(filepath.Base(rel), "mock_") {
			return nil
		}
		f, perr := parser.ParseFile(fset, path, nil, 0)
		if perr != nil {
			return nil
		}
		pkg := filepath.Dir(rel)
		if pkgVars[pkg] == nil {
			pkgVars[pkg] = map[string]bool{}
		}
		for _, d := range f.Decls {
			switch x := d.(type) {
			case *ast.FuncDecl:
				if x.Body == nil {
					continue
				}
				fi := &fnInfo{pkg: pkg, recv: recvName(x), name: x.Name.Name, decl: x, file: f}
				fi.key = rel + ":" + fi.recv + "." + fi.name
				fns[fi.key] = fi
			case *ast.GenDecl:
				if x.Tok == token.VAR {
					for _, sp := range x.Specs {
						if vs, ok := sp.(*ast.ValueSpec); ok {
							for _, n := range vs.Names {
								if n.Name != "_" {
									pkgVars[pkg][n.Name] = true
								}
							}
						}
					}
				}
				if x.Tok == token.TYPE {
					for _, sp := range x.Specs {
						if ts, ok := sp.(*ast.TypeSpec); ok {
							if st, ok := ts.Type.(*ast.StructType); ok {
								for _, fl := range st.Fields.List {
									for _, n := range fl.Names {
										fields[n.Name] = true
									}
								}
							}
						}
					}
				}
			}
		}
		return nil
	})
	return fns, fields, pkgVars
}

// repo packages imported by a file: local name -> package directory
func repoImports(f *ast.File) map[string]string {
	m := map[string]string{}
	for _, im := range f.Imports {
		p := strings.Trim(im.Path.Value, "\"")
		if p != modPath && !strings.HasPrefix(p, modPath+"/") {
			continue
		}
		dir := strings.TrimPrefix(strings.TrimPrefix(p, modPath), "/")
		if dir == "" {
			dir = "."
		}
		name := filepath.Base(p)
		if im.Name != nil {
			name = im.Name.Name
		}
		m[name] = dir
	}
	return m
}

func analyse(fns map[string]*fnInfo, fields map[string]bool, pkgVars map[string]map[string]bool) {
	byName := map[string][]*fnInfo{}
	for _, fi := range fns {
		byName[fi.name] = append(byName[fi.name], fi)
	}
	for _, fi := range fns {
		fi.calls, fi.reads, fi.wr = map[string]bool{}, map[string]bool{}, map[string]bool{}
		imps := repoImports(fi.file)
		locals := map[string]bool{}
		// the receiver variable: selectors on it are fields of the receiver type
		rvar := ""
		if fi.decl.Recv != nil && len(fi.decl.Recv.List) > 0 && len(fi.decl.Recv.List[0].Names) > 0 {
			rvar = fi.decl.Recv.List[0].Names[0].Name
		}
		fkey := func(x *ast.SelectorExpr) string {
			if id, ok := x.X.(*ast.Ident); ok && rvar != "" && id.Name == rvar {
				return "f:" + fi.recv + "." + x.Sel.Name
			}
			return "f:?." + x.Sel.Name
		}
		markWrite := func(e ast.Expr) {
			// strip index / star / paren
			for {
				switch x := e.(type) {
				case *ast.IndexExpr:
					e = x.X
					continue
				case *ast.StarExpr:
					e = x.X
					continue
				case *ast.ParenExpr:
					e = x.X
					continue
				}
				break
			}
			switch x := e.(type) {
			case *ast.SelectorExpr:
				if fields[x.Sel.Name] {
					fi.wr[fkey(x)] = true
				}
				if id, ok := x.X.(*ast.Ident); ok {
					if dir, ok := imps[id.Name]; ok && pkgVars[dir][x.Sel.Name] {
						fi.wr["v:"+dir+":"+x.Sel.Name] = true
					}
				}
			case *ast.Ident:
				if pkgVars[fi.pkg][x.Name] && !locals[x.Name] {
					fi.wr["v:"+fi.pkg+":"+x.Name] = true
				}
			}
		}
		ast.Inspect(fi.decl, func(n ast.Node) bool {
			switch x := n.(type) {
			case *ast.AssignStmt:
				for _, l := range x.Lhs {
					if x.Tok == token.DEFINE {
						if id, ok := l.(*ast.Ident); ok {
							locals[id.Name] = true
							continue
						}
					}
					markWrite(l)
				}
			case *ast.IncDecStmt:
				markWrite(x.X)
			case *ast.CompositeLit:
				tname := "?"
				switch t := x.Type.(type) {
				case *ast.Ident:
					tname = t.Name
				case *ast.SelectorExpr:
					tname = t.Sel.Name
				}
				for _, el := range x.Elts {
					if kv, ok := el.(*ast.KeyValueExpr); ok {
						if id, ok := kv.Key.(*ast.Ident); ok && fields[id.Name] {
							fi.wr["f:"+tname+"."+id.Name] = true
						}
					}
				}
			case *ast.CallExpr:
				switch fn := x.Fun.(type) {
				case *ast.Ident:
					if fn.Name == "delete" && len(x.Args) > 0 {
						markWrite(x.Args[0])
					}
					for _, c := range byName[fn.Name] {
						if c.recv == "" && c.pkg == fi.pkg {
							fi.calls[c.key] = true
						}
					}
				case *ast.SelectorExpr:
					if id, ok := fn.X.(*ast.Ident); ok {
						if dir, ok := imps[id.Name]; ok {
							for _, c := range byName[fn.Sel.Name] {
								if c.recv == "" && c.pkg == dir {
									fi.calls[c.key] = true
								}
							}
							return true
						}
					}
					// a method call: same-named methods of the caller's package, or the only one in the repo
					var cands []*fnInfo
					for _, c := range byName[fn.Sel.Name] {
						if c.recv != "" {
							cands = append(cands, c)
						}
					}
					same := 0
					for _, c := range cands {
						if c.pkg == fi.pkg {
							fi.calls[c.key] = true
							same++
						}
					}
					if same == 0 && len(cands) == 1 {
						fi.calls[cands[0].key] = true
					}
				}
			case *ast.SelectorExpr:
				if fields[x.Sel.Name] {
					fi.reads[fkey(x)] = true
				}
				if id, ok := x.X.(*ast.Ident); ok {
					if dir, ok := imps[id.Name]; ok && pkgVars[dir][x.Sel.Name] {
						fi.reads["v:"+dir+":"+x.Sel.Name] = true
					}
				}
			case *ast.Ident:
				if pkgVars[fi.pkg][x.Name] && !locals[x.Name] {
					fi.reads["v:"+fi.pkg+":"+x.Name] = true
				}
			}
			return true
		})
	}
}

func digest(fi *fnInfo) string {
	w := &walker{full: true}
	w.emit(0, "func", exprString(fi.decl.Type))
	w.block(0, fi.decl.Body)
	h := sha256.New()
	for _, in := range w.out {
		fmt.Fprintf(h, "%d\x00%s\x00%s\n", in.depth, in.op, in.arg)
	}
	return hex.EncodeToString(h.Sum(nil))[:12]
}

// fields too generic to follow by name: they are written all over the repo and say nothing about who influences whom
var genericFields = map[string]bool{"ID": true, "Name": true, "Params": true, "Config": true, "Payload": true, "Created": true, "Type": true,
	"Key": true, "Value": true, "Topic": true, "Err": true, "Event": true, "Code": true, "Msg": true, "Index": true, "Doc": true, "Partition": true, "Offset": true}

func closureOf(roots []string, fns map[string]*fnInfo) []string {
	in := map[string]int{}
	queue := []string{}
	for _, r := range roots {
		if _, ok := fns[r]; ok {
			in[r] = 0
			queue = append(queue, r)
		}
	}
	for len(queue) > 0 {
		k := queue[0]
		queue = queue[1:]
		if in[k] >= cloDepth {
			continue
		}
		for c := range fns[k].calls {
			if _, seen := in[c]; !seen {
				in[c] = in[k] + 1
				queue = append(queue, c)
			}
		}
	}
	reads := map[string]bool{}     // exact keys
	readNames := map[string]bool{} // field names read through an expression of unknown type
	readTyped := map[string]bool{} // field names read through a receiver (for writes through an expression of unknown type)
	for k := range in {
		for r := range fns[k].reads {
			if strings.HasPrefix(r, "f:") {
				tf := strings.SplitN(strings.TrimPrefix(r, "f:"), ".", 2)
				if genericFields[tf[1]] {
					continue
				}
				if tf[0] == "?" {
					readNames[tf[1]] = true
				} else {
					readTyped[tf[1]] = true
				}
			}
			reads[r] = true
		}
	}
	out := map[string]bool{}
	for k := range in {
		out[k] = true
	}
	for k, fi := range fns {
		if !cloWriters {
			break
		}
		for w := range fi.wr {
			hit := reads[w]
			if !hit && strings.HasPrefix(w, "f:") {
				tf := strings.SplitN(strings.TrimPrefix(w, "f:"), ".", 2)
				if !genericFields[tf[1]] {
					if tf[0] == "?" {
						hit = readTyped[tf[1]] || readNames[tf[1]] // written through an unknown type: matches any read of that name
					} else if os.Getenv("CLO_LOOSE") != "0" {
						hit = readNames[tf[1]] // read through an unknown type: matches any typed write of that name
					}
				}
			}
			if hit {
				out[k] = true
			}
		}
	}
	var keys []string
	for k := range out {
		keys = append(keys, k)
	}
	sort.Strings(keys)
	return keys
}

// writeClosures emits Generated/Closure.lean: per property the sorted list of (function, digest)
func writeClosures(repo, outDir, rootsFile string) error {
	if v := os.Getenv("CLO_DEPTH"); v != "" {
		fmt.Sscanf(v, "%d", &cloDepth)
	}
	if os.Getenv("CLO_WRITERS") == "0" {
		cloWriters = false
	}
	data, err := os.ReadFile(rootsFile)
	if err != nil {
		return err
	}
	var roots map[string][]string // property -> lean names of its pinned functions
	if err := json.Unmarshal(data, &roots); err != nil {
		return err
	}
	byLean := map[string]target{}
	for _, t := range targets {
		byLean[t.lean] = t
	}
	for _, t := range fullTargets {
		if _, ok := byLean[t.lean]; !ok {
			byLean[t.lean] = t
		}
	}
	fns, fields, pkgVars := loadRepo(repo)
	analyse(fns, fields, pkgVars)
	var props []string
	for p := range roots {
		props = append(props, p)
	}
	sort.Strings(props)
	var sb strings.Builder
	sb.WriteString("/-! GENERATED by /verif/extractor from /repo's sources on every run. Do not edit.\nPer property: every function in the influence closure of its pinned functions (callees, and writers of the fields and\npackage variables they read), with a digest of its normalised statements. -/\nnamespace Firebolt.GeneratedClo\n\n")
	for _, p := range props {
		var rk []string
		for _, ln := range roots[p] {
			t, ok := byLean[ln]
			if !ok || t.recv == "type" {
				continue
			}
			rk = append(rk, t.file+":"+t.recv+"."+t.name)
		}
		keys := closureOf(rk, fns)
		fmt.Fprintf(&sb, "def %s : List (String × String) := [\n", p)
		for i, k := range keys {
			sep := ","
			if i == len(keys)-1 {
				sep = ""
			}
			fmt.Fprintf(&sb, "  (%s, %s)%s\n", leanStr(k), leanStr(digest(fns[k])), sep)
		}
		sb.WriteString("]\n\n")
	}
	sb.WriteString("end Firebolt.GeneratedClo\n")
	return os.WriteFile(filepath.Join(outDir, "Closure.lean"), []byte(sb.String()), 0o644)
}
