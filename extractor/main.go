// fbextract regenerates, from /repo's current sources, the synchronisation skeleton of the functions the Lean
// executor/limiter models were transcribed from, as flat instruction lists in Lean syntax (Generated/Skeleton.lean).
// Only go/ast from the standard library is used. Logging, metric gauges and timing statements are ignored; everything
// that matters for the models (channel operations, select arms, WaitGroup/Once calls, go statements, lifecycle calls,
// counter increments, conditions, loops, returns, field assignments) is kept, in source order, with nesting depth.
package main

import (
	"bytes"
	"flag"
	"fmt"
	"go/ast"
	"go/parser"
	"go/printer"
	"go/token"
	"os"
	"path/filepath"
	"sort"
	"strings"
)

type instr struct {
	depth int
	op    string
	arg   string
}

type target struct {
	file string // relative to repo
	recv string // receiver type name ("" for plain functions)
	name string
	lean string // Lean identifier
}

var targets = []target{
	{"executor/executor.go", "Executor", "Execute", "execute"},
	{"executor/executor.go", "", "waitTimeout", "waitTimeout"},
	{"executor/executor.go", "Executor", "prepareSource", "prepareSource"},
	{"executor/executor.go", "Executor", "superviseSource", "superviseSource"},
	{"executor/executor.go", "Executor", "Shutdown", "shutdown"},
	{"executor/executor.go", "Executor", "setupNodes", "setupNodes"},
	{"executor/executor.go", "Executor", "startWorkers", "startWorkers"},
	{"executor/executor.go", "Executor", "stopWorkers", "stopWorkers"},
	{"executor/executor.go", "Executor", "runNode", "runNode"},
	{"node/node.go", "", "InitNodeContextHierarchy", "initNodeContextHierarchy"},
	{"node/node.go", "Context", "ProcessEvent", "processEvent"},
	{"node/node.go", "", "eventToEventSlice", "eventToEventSlice"},
	{"node/node.go", "Context", "handleResult", "handleResult"},
	{"node/node.go", "Context", "deliverToChild", "deliverToChild"},
	{"node/node.go", "Context", "invokeProcessorAsync", "invokeProcessorAsync"},
	{"node/node.go", "Context", "handleFailure", "handleFailure"},
	{"node/kafkaconsumer/recoveryconsumer.go", "RecoveryConsumer", "recoverSingleEvent", "recoverSingleEvent"},
	{"node/kafkaconsumer/kafkaconsumer.go", "KafkaConsumer", "processEvent", "kafkaProcessEvent"},
}

// full-statement targets: the functions the op-sequence / decision models (recovery, tracker, offsets, receiver, sender,
// routing, config, elasticsearch sink, producers, parameters) were transcribed from.  Every statement is kept verbatim
// (normalised whitespace); only logging statements are dropped.  Written to Generated/Source.lean.
var fullTargets = []target{
	// C06
	{"node/kafkaconsumer/kafkaconsumer.go", "KafkaConsumer", "retryAssignPartitions", "retryAssignPartitions"},
	{"node/kafkaconsumer/kafkaconsumer.go", "KafkaConsumer", "assignPartitions", "assignPartitions"},
	{"node/kafkaconsumer/kafkaconsumer.go", "KafkaConsumer", "calculateAssignmentOffsets", "calculateAssignmentOffsets"},
	{"node/kafkaconsumer/kafkaconsumer.go", "KafkaConsumer", "offsetForPartition", "offsetForPartition"},
	{"node/kafkaconsumer/recoveryconsumer.go", "RecoveryConsumer", "RequestRecovery", "requestRecovery"},
	// C07 / C09 / C19
	{"node/kafkaconsumer/recoveryconsumer.go", "", "NewRecoveryConsumer", "newRecoveryConsumer"},
	{"node/kafkaconsumer/recoveryconsumer.go", "RecoveryConsumer", "handleEvents", "rcHandleEvents"},
	{"node/kafkaconsumer/recoveryconsumer.go", "RecoveryConsumer", "processEvent", "rcProcessEvent"},
	{"node/kafkaconsumer/recoveryconsumer.go", "RecoveryConsumer", "processError", "rcProcessError"},
	{"node/kafkaconsumer/recoveryconsumer.go", "RecoveryConsumer", "recoverSingleEvent", "rcRecoverSingleEvent"},
	{"node/kafkaconsumer/recoveryconsumer.go", "RecoveryConsumer", "RefreshAssignments", "refreshAssignments"},
	{"node/kafkaconsumer/recoveryconsumer.go", "RecoveryConsumer", "partitionAssignmentsChanged", "partitionAssignmentsChanged"},
	{"node/kafkaconsumer/recoveryconsumer.go", "RecoveryConsumer", "setActivePartitionMap", "setActivePartitionMap"},
	{"node/kafkaconsumer/recoveryconsumer.go", "RecoveryConsumer", "SetAssignedPartitions", "setAssignedPartitions"},
	{"node/kafkaconsumer/kafkaconsumer.go", "KafkaConsumer", "processEvent", "kcProcessEvent"},
	{"node/kafkaconsumer/kafkaconsumer.go", "KafkaConsumer", "revokePartitionAssignments", "revokePartitionAssignments"},
	{"node/kafkaconsumer/kafkaconsumer.go", "KafkaConsumer", "Receive", "kcReceive"},
	// C08
	{"node/kafkaconsumer/recoverytracker.go", "RecoveryTracker", "GetRecoveryRequest", "getRecoveryRequest"},
	{"node/kafkaconsumer/recoverytracker.go", "RecoveryTracker", "AddRecoveryRequest", "addRecoveryRequest"},
	{"node/kafkaconsumer/recoverytracker.go", "RecoveryTracker", "UpdateRecoveryRequest", "updateRecoveryRequest"},
	{"node/kafkaconsumer/recoverytracker.go", "RecoveryTracker", "MarkRecoveryComplete", "markRecoveryComplete"},
	{"node/kafkaconsumer/recoverytracker.go", "RecoveryTracker", "cancelAll", "cancelAll"},
	{"node/kafkaconsumer/recoverytracker.go", "RecoveryTracker", "sendRecoveryRequests", "sendRecoveryRequests"},
	{"node/kafkaconsumer/recoverytracker.go", "RecoveryTracker", "receiveRequest", "receiveRequest"},
	{"node/kafkaconsumer/recoverytracker.go", "type", "RecoveryRequest", "tyRecoveryRequest"},
	{"node/kafkaconsumer/recoverytracker.go", "type", "RecoveryRequests", "tyRecoveryRequests"},
	{"node/kafkaconsumer/recoverytracker.go", "", "max", "trackerMax"},
	{"node/kafkaconsumer/recoverytracker.go", "", "min", "trackerMin"},
	// C10 / C12
	{"message/kakfamessagereceiver.go", "KafkaMessageReceiver", "handleEvents", "mrHandleEvents"},
	{"message/kakfamessagereceiver.go", "KafkaMessageReceiver", "buildPartitionAssignments", "mrBuildPartitionAssignments"},
	{"message/kakfamessagereceiver.go", "KafkaMessageReceiver", "processEvent", "mrProcessEvent"},
	{"message/kakfamessagereceiver.go", "KafkaMessageReceiver", "processMessage", "mrProcessMessage"},
	{"message/kakfamessagereceiver.go", "KafkaMessageReceiver", "deliverMessage", "mrDeliverMessage"},
	{"message/kakfamessagereceiver.go", "KafkaMessageReceiver", "processInitBuffer", "mrProcessInitBuffer"},
	{"message/kafkamessagesender.go", "KafkaMessageSender", "Send", "msSend"},
	{"message/kafkamessagesender.go", "KafkaMessageSender", "Ack", "msAck"},
	{"message/kafkamessagesender.go", "KafkaMessageSender", "produceMessage", "msProduceMessage"},
	{"message/kafkamessagewire.go", "", "uniqueKey", "msgUniqueKey"},
	{"message/kafkamessagewire.go", "type", "wireMessage", "tyWireMessage"},
	{"message/message.go", "type", "Message", "tyMessage"},
	// C11
	{"executor/message.go", "Executor", "deliverMessage", "exDeliverMessage"},
	{"executor/message.go", "Executor", "deliverMessageToNode", "exDeliverMessageToNode"},
	{"executor/message.go", "errorList", "addError", "exAddError"},
	{"executor/message.go", "", "newContextMessage", "exNewContextMessage"},
	{"fbcontext/fbcontext.go", "ContextAware", "Subscribe", "ctxSubscribe"},
	{"fbcontext/fbcontext.go", "ContextAware", "AcceptsMessage", "ctxAcceptsMessage"},
	// C13
	{"config/config.go", "", "Read", "cfgRead"},
	{"config/config.go", "", "validate", "cfgValidate"},
	{"config/config.go", "", "validateInternalDataConfig", "cfgValidateInternalData"},
	{"config/config.go", "", "validateSourceConfig", "cfgValidateSource"},
	{"config/config.go", "", "validateUniqueID", "cfgValidateUniqueID"},
	{"config/config.go", "", "validateNodeConfig", "cfgValidateNode"},
	{"config/config.go", "", "validateErrorHandlerConfig", "cfgValidateErrorHandler"},
	{"config/config.go", "", "setDefaults", "cfgSetDefaults"},
	{"config/config.go", "", "assignNodeConfigDefaults", "cfgAssignNodeDefaults"},
	// C14
	{"node/elasticsearch/elastic_index_client.go", "ElasticIndexClient", "Send", "esSend"},
	{"node/elasticsearch/elastic_index_client.go", "ElasticIndexClient", "Run", "esRun"},
	{"node/elasticsearch/elastic_index_client.go", "ElasticIndexClient", "Stop", "esStop"},
	{"node/elasticsearch/elastic_index_client.go", "ElasticIndexClient", "batch", "esBatch"},
	{"node/elasticsearch/elastic_index_client.go", "ElasticIndexClient", "retryBulkIndex", "esRetryBulkIndex"},
	{"node/elasticsearch/elastic_index_client.go", "ElasticIndexClient", "doBulkIndex", "esDoBulkIndex"},
	{"node/elasticsearch/elastic_index_client.go", "ElasticIndexClient", "handleErrorResponses", "esHandleErrorResponses"},
	{"node/elasticsearch/elasticsearch.go", "Elasticsearch", "ProcessAsync", "esProcessAsync"},
	{"node/elasticsearch/elasticsearch.go", "Elasticsearch", "Shutdown", "esShutdown"},
	// C15
	{"node/kafkaproducer/kafkaproducer.go", "KafkaProducer", "Process", "kpProcess"},
	{"node/kafkaproducer/kafkaproducer.go", "KafkaProducer", "Produce", "kpProduce"},
	{"node/kafkaproducer/errorproducer.go", "ErrorProducer", "Process", "epProcess"},
	{"error.go", "EventError", "MarshalJSON", "eventErrorMarshalJSON"},
	{"error.go", "", "NewEventError", "newEventError"},
	{"error.go", "", "NewFBError", "newFBError"},
	{"error.go", "type", "EventError", "tyEventError"},
	{"error.go", "type", "FBError", "tyFBError"},
	// C20
	{"util/util.go", "", "ApplyLibrdkafkaConf", "applyLibrdkafkaConf"},
	{"node/kafkaconsumer/kafkaconsumer.go", "KafkaConsumer", "buildConfigMap", "kcBuildConfigMap"},
	{"node/kafkaconsumer/kafkaconsumer.go", "KafkaConsumer", "checkConfig", "kcCheckConfig"},
	{"node/kafkaconsumer/recoveryconsumer.go", "RecoveryConsumer", "buildConfigMap", "rcBuildConfigMap"},
	{"message/kakfamessagereceiver.go", "KafkaMessageReceiver", "buildConfigMap", "mrBuildConfigMap"},
	{"node/kafkaproducer/kafkaproducer.go", "KafkaProducer", "buildConfigMap", "kpBuildConfigMap"},
	{"node/kafkaproducer/kafkaproducer.go", "KafkaProducer", "checkConfig", "kpCheckConfig"},
	{"helpers.go", "Nodeconfig", "IntConfig", "hIntConfig"},
	{"helpers.go", "Nodeconfig", "IntConfigRequired", "hIntConfigRequired"},
	{"helpers.go", "Nodeconfig", "StringConfig", "hStringConfig"},
	{"helpers.go", "Nodeconfig", "StringConfigRequired", "hStringConfigRequired"},
	{"helpers.go", "Nodeconfig", "Float64Config", "hFloat64Config"},
	{"helpers.go", "Nodeconfig", "Float64ConfigRequired", "hFloat64ConfigRequired"},
	// context: functions the models' assumptions rest on (construction, wiring, the calls around the modelled code)
	{"node/node.go", "", "getNodeType", "getNodeType"},
	{"node/node.go", "Context", "invokeProcessorSync", "invokeProcessorSync"},
	{"node/node.go", "Context", "invokeProcessorFanout", "invokeProcessorFanout"},
	{"event.go", "", "NewAsyncEvent", "newAsyncEvent"},
	{"node/registry.go", "Registry", "RegisterNodeType", "registerNodeType"},
	{"node/registry.go", "Registry", "RegisterSourceType", "registerSourceType"},
	{"node/registry.go", "Registry", "GetNodeRegistration", "getNodeRegistration"},
	{"node/registry.go", "Registry", "GetSourceRegistration", "getSourceRegistration"},
	{"metrics/metrics.go", "", "Init", "metricsInit"},
	{"metrics/metrics.go", "", "Get", "metricsGet"},
	{"metrics/metrics.go", "", "Node", "metricsNode"},
	{"node/registry.go", "Registry", "InstantiateNode", "instantiateNode"},
	{"node/registry.go", "Registry", "InstantiateSource", "instantiateSource"},
	{"executor/executor.go", "", "WithConfig", "withConfig"},
	{"executor/executor.go", "", "New", "exNew"},
	{"executor/executor.go", "Executor", "SendMessage", "exSendMessage"},
	{"executor/executor.go", "Executor", "FindNodeByID", "exFindNodeByID"},
	{"executor/executor.go", "", "findMatchingNode", "exFindMatchingNode"},
	{"executor/executor.go", "Executor", "GetSource", "exGetSource"},
	{"executor/message.go", "Executor", "InitMessaging", "exInitMessaging"},
	{"executor/message.go", "Executor", "StartMessaging", "exStartMessaging"},
	{"executor/message.go", "Executor", "initMessagingKafka", "exInitMessagingKafka"},
	{"executor/message.go", "", "newMessage", "exNewMessage"},
	{"executor/message.go", "", "sendMessage", "exSendMessageFn"},
	{"executor/message.go", "", "ackMessage", "exAckMessageFn"},
	{"message/message.go", "", "InitKafkaSender", "msgInitKafkaSender"},
	{"message/message.go", "", "ShutdownKafkaSender", "msgShutdownKafkaSender"},
	{"message/message.go", "", "GetSender", "msgGetSender"},
	{"message/kafkamessagesender.go", "", "NewKafkaMessageSender", "newKafkaMessageSender"},
	{"message/kafkamessagesender.go", "KafkaMessageSender", "Shutdown", "msShutdown"},
	{"message/kakfamessagereceiver.go", "", "NewKafkaReceiver", "newKafkaReceiver"},
	{"message/kakfamessagereceiver.go", "KafkaMessageReceiver", "Start", "mrStart"},
	{"message/kakfamessagereceiver.go", "KafkaMessageReceiver", "Initialized", "mrInitialized"},
	{"message/kakfamessagereceiver.go", "KafkaMessageReceiver", "SetNotificationFunc", "mrSetNotificationFunc"},
	{"message/kakfamessagereceiver.go", "KafkaMessageReceiver", "Shutdown", "mrShutdown"},
	{"fbcontext/fbcontext.go", "ContextAware", "Init", "ctxInit"},
	{"fbcontext/fbcontext.go", "Context", "SendMessage", "ctxSendMessage"},
	{"fbcontext/fbcontext.go", "Context", "AckMessage", "ctxAckMessage"},
	{"fbcontext/fbcontext.go", "Context", "ConfigureMessaging", "ctxConfigureMessaging"},
	{"node/elasticsearch/elasticsearch.go", "Elasticsearch", "Setup", "esSetup"},
	{"node/elasticsearch/elastic_index_client.go", "", "NewElasticIndexClient", "newElasticIndexClient"},
	{"node/kafkaproducer/kafkaproducer.go", "KafkaProducer", "Setup", "kpSetup"},
	{"node/kafkaproducer/kafkaproducer.go", "KafkaProducer", "Shutdown", "kpShutdown"},
	{"node/kafkaproducer/kafkaproducer.go", "KafkaProducer", "startEventsReceiver", "kpStartEventsReceiver"},
	{"node/kafkaproducer/kafkaproducer.go", "KafkaProducer", "stop", "kpStop"},
	{"node/kafkaconsumer/kafkaconsumer.go", "KafkaConsumer", "Setup", "kcSetup"},
	{"node/kafkaconsumer/kafkaconsumer.go", "KafkaConsumer", "Start", "kcStart"},
	{"node/kafkaconsumer/kafkaconsumer.go", "KafkaConsumer", "Shutdown", "kcShutdown"},
	{"node/kafkaconsumer/recoverytracker.go", "", "NewRecoveryTracker", "newRecoveryTracker"},
	{"node/kafkaconsumer/recoveryconsumer.go", "RecoveryConsumer", "Shutdown", "rcShutdown"},
}

var fset = token.NewFileSet()

func exprString(e ast.Node) string {
	if e == nil {
		return ""
	}
	var buf bytes.Buffer
	_ = printer.Fprint(&buf, fset, e)
	s := strings.Join(strings.Fields(buf.String()), " ")
	return s
}

// ignored calls: logging, gauges, histograms, timing bookkeeping
func ignoredCall(s string) bool {
	if strings.HasPrefix(s, "log.") {
		return true
	}
	if strings.Contains(s, "BufferedEvents") || strings.Contains(s, "ProcessTime") || strings.HasPrefix(s, "time.Now") || strings.HasPrefix(s, "time.Since") {
		return true
	}
	return false
}

type walker struct {
	out  []instr
	full bool // every statement verbatim (only logging dropped)
}

// isLogStmt: a logging statement that can be left out of a pin - a log.* call chain whose arguments call nothing but
// conversions and formatting.  A log line whose arguments call anything else is kept: the call may have effects.
func isLogStmt(e ast.Expr) bool {
	c, ok := e.(*ast.CallExpr)
	if !ok {
		return false
	}
	if !strings.HasPrefix(exprString(c.Fun), "log.") {
		return false
	}
	harmless := true
	ast.Inspect(c, func(n ast.Node) bool {
		x, ok := n.(*ast.CallExpr)
		if !ok {
			return true
		}
		fn := exprString(x.Fun)
		if strings.HasPrefix(fn, "log.") {
			return true
		}
		switch fn {
		case "len", "cap", "int", "int32", "int64", "uint32", "float64", "string", "strconv.Itoa", "strconv.FormatInt", "fmt.Sprintf", "fmt.Sprint", "time.Since", "time.Now":
			return true
		}
		for _, suf := range []string{".String", ".Error", ".Code", ".Seconds", ".Milliseconds"} {
			if strings.HasSuffix(fn, suf) {
				return true
			}
		}
		harmless = false
		return false
	})
	return harmless
}

func (w *walker) emit(d int, op, arg string) { w.out = append(w.out, instr{d, op, arg}) }

// calls inside an expression, in source order (function literals are walked as nested blocks)
func (w *walker) exprCalls(d int, e ast.Node) {
	if e == nil {
		return
	}
	ast.Inspect(e, func(n ast.Node) bool {
		switch x := n.(type) {
		case *ast.FuncLit:
			w.emit(d, "funclit", "")
			w.block(d+1, x.Body)
			return false
		case *ast.UnaryExpr:
			if x.Op == token.ARROW {
				w.emit(d, "recv", exprString(x.X))
			}
		case *ast.CallExpr:
			fn := exprString(x.Fun)
			full := exprString(x)
			if ignoredCall(fn) {
				return false
			}
			if fn == "close" && len(x.Args) == 1 {
				w.emit(d, "close", exprString(x.Args[0]))
				return false
			}
			// function-literal arguments (e.g. Once.Do(func(){...})) become nested blocks
			hasLit := false
			for _, a := range x.Args {
				if _, ok := a.(*ast.FuncLit); ok {
					hasLit = true
				}
			}
			if hasLit {
				w.emit(d, "call", fn)
				for _, a := range x.Args {
					if fl, ok := a.(*ast.FuncLit); ok {
						w.emit(d+1, "funclit", "")
						w.block(d+2, fl.Body)
					} else {
						w.exprCalls(d+1, a)
					}
				}
				return false
			}
			if fn == "make" || fn == "len" || fn == "append" || fn == "float64" || fn == "string" || fn == "int64" || fn == "int" || fn == "copy" {
				return true
			}
			w.emit(d, "call", full)
			// nested calls in the arguments are part of the printed text already
			return false
		}
		return true
	})
}

func (w *walker) block(d int, b *ast.BlockStmt) {
	if b == nil {
		return
	}
	for _, s := range b.List {
		w.stmt(d, s)
	}
}

func (w *walker) stmt(d int, s ast.Stmt) {
	if w.full {
		switch x := s.(type) {
		case *ast.ExprStmt:
			if !isLogStmt(x.X) {
				w.emit(d, "stmt", exprString(x))
			}
			return
		case *ast.AssignStmt:
			w.emit(d, "assign", exprString(x))
			return
		case *ast.DeclStmt:
			w.emit(d, "decl", exprString(x))
			return
		case *ast.GoStmt:
			w.emit(d, "go", exprString(x.Call))
			return
		case *ast.DeferStmt:
			w.emit(d, "defer", exprString(x.Call))
			return
		}
	}
	switch x := s.(type) {
	case *ast.ExprStmt:
		w.exprCalls(d, x.X)
	case *ast.SendStmt:
		w.emit(d, "send", exprString(x.Chan)+" <- "+exprString(x.Value))
	case *ast.GoStmt:
		if fl, ok := x.Call.Fun.(*ast.FuncLit); ok {
			w.emit(d, "go", "func")
			w.block(d+1, fl.Body)
		} else {
			w.emit(d, "go", exprString(x.Call))
		}
	case *ast.DeferStmt:
		if fl, ok := x.Call.Fun.(*ast.FuncLit); ok {
			w.emit(d, "defer", "func")
			w.block(d+1, fl.Body)
		} else {
			w.emit(d, "defer", exprString(x.Call))
		}
	case *ast.AssignStmt:
		for _, l := range x.Lhs {
			if _, ok := l.(*ast.SelectorExpr); ok {
				w.emit(d, "assign", exprString(l))
			}
		}
		for _, r := range x.Rhs {
			if fl, ok := r.(*ast.FuncLit); ok {
				w.emit(d, "funcdef", exprString(x.Lhs[0]))
				w.block(d+1, fl.Body)
			} else if cl, ok := r.(*ast.CompositeLit); ok || isAddrOfComposite(r) {
				_ = cl
				w.emit(d, "literal", exprString(x.Lhs[0])+" := "+exprString(r))
			} else {
				w.exprCalls(d, r)
			}
		}
	case *ast.DeclStmt:
		// local variable declarations: where a variable lives (inside or outside a loop) decides whether
		// pointers to it handed to other goroutines alias each other
		if gd, ok := x.Decl.(*ast.GenDecl); ok && gd.Tok == token.VAR {
			for _, sp := range gd.Specs {
				if vs, ok := sp.(*ast.ValueSpec); ok {
					for _, n := range vs.Names {
						w.emit(d, "var", n.Name+" "+exprString(vs.Type))
					}
				}
			}
		}
	case *ast.IfStmt:
		if x.Init != nil {
			w.stmt(d, x.Init)
		}
		w.emit(d, "if", exprString(x.Cond))
		w.block(d+1, x.Body)
		if x.Else != nil {
			w.emit(d, "else", "")
			switch e := x.Else.(type) {
			case *ast.BlockStmt:
				w.block(d+1, e)
			default:
				w.stmt(d+1, e)
			}
		}
	case *ast.ForStmt:
		hdr := exprString(x.Cond)
		if x.Init != nil || x.Post != nil {
			hdr = exprString(x.Init) + "; " + exprString(x.Cond) + "; " + exprString(x.Post)
		}
		w.emit(d, "for", hdr)
		w.block(d+1, x.Body)
	case *ast.RangeStmt:
		w.emit(d, "range", exprString(x.X))
		w.block(d+1, x.Body)
	case *ast.SelectStmt:
		w.emit(d, "select", "")
		for _, c := range x.Body.List {
			cc := c.(*ast.CommClause)
			switch comm := cc.Comm.(type) {
			case nil:
				w.emit(d+1, "default", "")
			case *ast.SendStmt:
				w.emit(d+1, "case-send", exprString(comm.Chan)+" <- "+exprString(comm.Value))
			case *ast.ExprStmt:
				w.emit(d+1, "case-recv", strings.TrimPrefix(exprString(comm.X), "<-"))
			case *ast.AssignStmt:
				w.emit(d+1, "case-recv"+comm.Tok.String(), strings.TrimPrefix(exprString(comm.Rhs[0]), "<-"))
			}
			for _, st := range cc.Body {
				w.stmt(d+2, st)
			}
		}
	case *ast.SwitchStmt:
		w.emit(d, "switch", exprString(x.Tag))
		for _, c := range x.Body.List {
			cc := c.(*ast.CaseClause)
			var es []string
			for _, e := range cc.List {
				es = append(es, exprString(e))
			}
			if cc.List == nil {
				w.emit(d+1, "default", "")
			} else {
				w.emit(d+1, "case", strings.Join(es, ", "))
			}
			for _, st := range cc.Body {
				w.stmt(d+2, st)
			}
		}
	case *ast.TypeSwitchStmt:
		w.emit(d, "typeswitch", exprString(x.Assign))
		for _, c := range x.Body.List {
			cc := c.(*ast.CaseClause)
			var es []string
			for _, e := range cc.List {
				es = append(es, exprString(e))
			}
			if cc.List == nil {
				w.emit(d+1, "default", "")
			} else {
				w.emit(d+1, "case", strings.Join(es, ", "))
			}
			for _, st := range cc.Body {
				w.stmt(d+2, st)
			}
		}
	case *ast.ReturnStmt:
		var es []string
		for _, e := range x.Results {
			es = append(es, exprString(e))
		}
		w.emit(d, "return", strings.Join(es, ", "))
	case *ast.BranchStmt:
		w.emit(d, strings.ToLower(x.Tok.String()), "")
	case *ast.BlockStmt:
		w.block(d, x)
	case *ast.IncDecStmt:
		w.emit(d, "incdec", exprString(x))
	case *ast.LabeledStmt:
		w.stmt(d, x.Stmt)
	}
}

func isAddrOfComposite(e ast.Expr) bool {
	if u, ok := e.(*ast.UnaryExpr); ok && u.Op == token.AND {
		_, ok2 := u.X.(*ast.CompositeLit)
		return ok2
	}
	return false
}

func recvName(fd *ast.FuncDecl) string {
	if fd.Recv == nil || len(fd.Recv.List) == 0 {
		return ""
	}
	t := fd.Recv.List[0].Type
	if s, ok := t.(*ast.StarExpr); ok {
		t = s.X
	}
	if id, ok := t.(*ast.Ident); ok {
		return id.Name
	}
	return ""
}

// methodsOf lists (sorted) the methods declared with receiver type `name` in the non-test files of a package directory
func methodsOf(dir, name string) []string {
	var ms []string
	entries, _ := os.ReadDir(dir)
	for _, e := range entries {
		if !strings.HasSuffix(e.Name(), ".go") || strings.HasSuffix(e.Name(), "_test.go") || e.Name() == "verif_hooks.go" {
			continue
		}
		f, err := parser.ParseFile(fset, filepath.Join(dir, e.Name()), nil, 0)
		if err != nil {
			continue
		}
		for _, d := range f.Decls {
			if fd, ok := d.(*ast.FuncDecl); ok && recvName(fd) == name {
				ms = append(ms, fd.Name.Name)
			}
		}
	}
	sort.Strings(ms)
	return ms
}

func leanStr(s string) string {
	s = strings.ReplaceAll(s, "\\", "\\\\")
	s = strings.ReplaceAll(s, "\"", "\\\"")
	return "\"" + s + "\""
}

func main() {
	repo := flag.String("repo", "/repo", "repository root")
	out := flag.String("out", "", "output directory")
	rootsFile := flag.String("roots", "", "JSON file: property -> lean names of its pinned functions (for the influence closures)")
	flag.Parse()
	parsed := map[string]*ast.File{}
	render := func(sb *strings.Builder, ts []target, full bool) {
		for _, t := range ts {
			f, ok := parsed[t.file]
			if !ok {
				var err error
				f, err = parser.ParseFile(fset, filepath.Join(*repo, t.file), nil, 0)
				if err != nil {
					fmt.Fprintln(os.Stderr, "parse error:", err)
					os.Exit(1)
				}
				parsed[t.file] = f
			}
			var found *ast.FuncDecl
			for _, d := range f.Decls {
				if fd, ok := d.(*ast.FuncDecl); ok && fd.Name.Name == t.name && recvName(fd) == t.recv {
					found = fd
				}
			}
			w := &walker{full: full}
			if t.recv == "type" {
				// a type declaration (field names, types and struct tags), verbatim
				w.emit(0, "missing", "type "+t.name)
				for _, d := range f.Decls {
					if gd, ok := d.(*ast.GenDecl); ok && gd.Tok == token.TYPE {
						for _, sp := range gd.Specs {
							if ts, ok := sp.(*ast.TypeSpec); ok && ts.Name.Name == t.name {
								w.out = nil
								w.emit(0, "type", exprString(ts.Type))
								// the methods declared on the type anywhere in its package: a new MarshalJSON, Error or String changes
								// how values of the type are encoded without touching the type or any existing function
								w.emit(0, "methods", strings.Join(methodsOf(filepath.Join(*repo, filepath.Dir(t.file)), t.name), ","))
							}
						}
					}
				}
			} else if found == nil {
				w.emit(0, "missing", t.recv+"."+t.name)
			} else {
				if full {
					// the signature is part of what the model was transcribed from (named results, receiver kind)
					w.emit(0, "func", exprString(found.Type))
				}
				w.block(0, found.Body)
			}
			fmt.Fprintf(sb, "def %s : List Instr := [\n", t.lean)
			for i, in := range w.out {
				sep := ","
				if i == len(w.out)-1 {
					sep = ""
				}
				fmt.Fprintf(sb, "  ⟨%d, %s, %s⟩%s\n", in.depth, leanStr(in.op), leanStr(in.arg), sep)
			}
			sb.WriteString("]\n\n")
		}
	}
	var src strings.Builder
	src.WriteString("import Firebolt.Skeleton\n/-! GENERATED by /verif/extractor from /repo's sources on every run. Do not edit. -/\nnamespace Firebolt.GeneratedSrc\nopen Firebolt.Skeleton\n\n")
	render(&src, fullTargets, true)
	src.WriteString("end Firebolt.GeneratedSrc\n")
	var sb strings.Builder
	sb.WriteString("import Firebolt.Skeleton\n/-! GENERATED by /verif/extractor from /repo's sources on every run. Do not edit. -/\nnamespace Firebolt.Generated\nopen Firebolt.Skeleton\n\n")
	render(&sb, targets, false)
	// facts: every mention of the rate limiter in package kafkaconsumer (function ↦ expression), and its construction
	var uses []string
	dir := filepath.Join(*repo, "node/kafkaconsumer")
	entries, _ := os.ReadDir(dir)
	for _, e := range entries {
		if !strings.HasSuffix(e.Name(), ".go") || strings.HasSuffix(e.Name(), "_test.go") || e.Name() == "verif_hooks.go" {
			continue
		}
		f, err := parser.ParseFile(fset, filepath.Join(dir, e.Name()), nil, 0)
		if err != nil {
			continue
		}
		for _, d := range f.Decls {
			fd, ok := d.(*ast.FuncDecl)
			if !ok || fd.Body == nil {
				continue
			}
			ast.Inspect(fd.Body, func(n ast.Node) bool {
				switch x := n.(type) {
				case *ast.CallExpr:
					s := exprString(x)
					if strings.Contains(exprString(x.Fun), "rateLimiter") || strings.HasPrefix(exprString(x.Fun), "rate.") {
						uses = append(uses, fd.Name.Name+": "+s)
						return false
					}
				case *ast.AssignStmt:
					for _, l := range x.Lhs {
						if strings.Contains(exprString(l), "rateLimiter") {
							uses = append(uses, fd.Name.Name+": assign "+exprString(l))
						}
					}
				case *ast.KeyValueExpr:
					if exprString(x.Key) == "rateLimiter" {
						uses = append(uses, fd.Name.Name+": field rateLimiter: "+exprString(x.Value))
						return false
					}
				}
				return true
			})
		}
	}
	sort.Strings(uses)
	sb.WriteString("def limiterUses : List String := [\n")
	for i, u := range uses {
		sep := ","
		if i == len(uses)-1 {
			sep = ""
		}
		fmt.Fprintf(&sb, "  %s%s\n", leanStr(u), sep)
	}
	sb.WriteString("]\n\nend Firebolt.Generated\n")
	if *out == "" {
		fmt.Print(sb.String())
		fmt.Print(src.String())
		return
	}
	if err := os.WriteFile(filepath.Join(*out, "Source.lean"), []byte(src.String()), 0o644); err != nil {
		fmt.Fprintln(os.Stderr, err)
		os.Exit(1)
	}
	if err := os.WriteFile(filepath.Join(*out, "Skeleton.lean"), []byte(sb.String()), 0o644); err != nil {
		fmt.Fprintln(os.Stderr, err)
		os.Exit(1)
	}
	if err := os.WriteFile(filepath.Join(*out, "Trans.lean"), []byte(writeTrans(*repo)), 0o644); err != nil {
		fmt.Fprintln(os.Stderr, err)
		os.Exit(1)
	}
	if *rootsFile != "" {
		if err := writeClosures(*repo, *out, *rootsFile); err != nil {
			fmt.Fprintln(os.Stderr, err)
			os.Exit(1)
		}
	}
}
