// translate.go: Go (go/ast) -> MiniGo terms in Lean syntax (Generated/Trans.lean).
//
// The loop-free, scalar fragment of Go the decision logic of firebolt is written in is translated statement by statement
// into the deep embedding of Firebolt/MiniGo.lean; see that file for what a term means.  A target is a whole function
// body or the body of the n-th loop of a function ("loop0", "loop1", ...: loops in source order, nested ones included).
// Whatever has no rule becomes S.unsupported (the run gets stuck there), never something silently different.
package main

import (
	"fmt"
	"go/ast"
	"go/parser"
	"go/token"
	"os"
	"path/filepath"
	"strings"
)

type transTarget struct {
	file string
	recv string
	name string
	part string // "" = whole body, "loopN" = body of the N-th for/range statement
	lean string
}

var transTargets = []transTarget{
	// C06
	{"node/kafkaconsumer/recoveryconsumer.go", "RecoveryConsumer", "RequestRecovery", "", "requestRecovery"},
	{"node/kafkaconsumer/kafkaconsumer.go", "KafkaConsumer", "calculateAssignmentOffsets", "loop0", "calcOffsetsBody"},
	// C07 / C19
	{"node/kafkaconsumer/recoveryconsumer.go", "RecoveryConsumer", "recoverSingleEvent", "", "recoverSingleEvent"},
	{"node/kafkaconsumer/kafkaconsumer.go", "KafkaConsumer", "processEvent", "", "kcProcessEvent"},
	{"node/kafkaconsumer/recoveryconsumer.go", "RecoveryConsumer", "processError", "loop0", "truncationBody"},
	// C09
	{"node/kafkaconsumer/kafkaconsumer.go", "KafkaConsumer", "revokePartitionAssignments", "", "kcRevoke"},
	{"node/kafkaconsumer/recoveryconsumer.go", "RecoveryConsumer", "partitionAssignmentsChanged", "loop0", "changedBody"},
	// C08
	{"node/kafkaconsumer/recoverytracker.go", "", "min", "", "trackerMin"},
	{"node/kafkaconsumer/recoverytracker.go", "", "max", "", "trackerMax"},
	{"node/kafkaconsumer/recoverytracker.go", "RecoveryTracker", "AddRecoveryRequest", "loop0", "addRequestMergeBody"},
	{"node/kafkaconsumer/recoverytracker.go", "RecoveryTracker", "AddRecoveryRequest", "head0", "addRequestHead"},
	{"node/kafkaconsumer/recoverytracker.go", "RecoveryTracker", "AddRecoveryRequest", "tail0", "addRequestTail"},
	{"node/kafkaconsumer/recoverytracker.go", "RecoveryTracker", "MarkRecoveryComplete", "loop0", "markCompleteBody"},
	{"node/kafkaconsumer/recoverytracker.go", "RecoveryTracker", "MarkRecoveryComplete", "head0", "markCompleteHead"},
	{"node/kafkaconsumer/recoverytracker.go", "RecoveryTracker", "MarkRecoveryComplete", "tail0", "markCompleteTail"},
	{"node/kafkaconsumer/recoverytracker.go", "RecoveryTracker", "UpdateRecoveryRequest", "", "updateRequest"},
	// C09
	{"node/kafkaconsumer/recoveryconsumer.go", "RecoveryConsumer", "RefreshAssignments", "loop0", "refreshCandidateBody"},
	// C13
	{"config/config.go", "", "assignNodeConfigDefaults", "loop0", "nodeDefaultsBody"},
	// C01 / C02 / C16
	{"node/node.go", "Context", "handleResult", "", "handleResult"},
	{"node/node.go", "Context", "handleFailure", "", "handleFailure"},
	// C04 / C16
	{"node/node.go", "Context", "deliverToChild", "loop0", "deliverBody"},
	// C14
	{"node/elasticsearch/elastic_index_client.go", "ElasticIndexClient", "handleErrorResponses", "loop1", "esItemBody"},
	{"node/elasticsearch/elastic_index_client.go", "ElasticIndexClient", "handleErrorResponses", "tail0", "esTail"},
	// C15
	{"node/kafkaproducer/kafkaproducer.go", "KafkaProducer", "Process", "", "kpProcess"},
	// C04 / C01 (root delivery, F11)
	{"executor/executor.go", "Executor", "Execute", "loop2", "exRootDeliverBody"},
	// C03 / C05
	{"executor/executor.go", "Executor", "runNode", "loop0", "exRunNodeBody"},
	{"executor/executor.go", "Executor", "runNode", "closure:shutDownNode", "exShutDownNode"},
	{"executor/executor.go", "Executor", "startWorkers", "head0", "exStartWorkersHead"},
	{"executor/executor.go", "Executor", "startWorkers", "loop0", "exStartWorkersBody"},
	{"executor/executor.go", "Executor", "startWorkers", "tail0", "exStartWorkersTail"},
	// C17 / C02 (asynchronous nodes)
	{"node/node.go", "Context", "invokeProcessorAsync", "", "ncInvokeAsync"},
	{"node/node.go", "Context", "invokeProcessorAsync", "closure:errFunc", "ncAsyncErrFunc"},
	{"node/node.go", "Context", "invokeProcessorAsync", "closure:eventFunc", "ncAsyncEventFunc"},
	{"node/node.go", "Context", "invokeProcessorAsync", "closure:filterFunc", "ncAsyncFilterFunc"},
	{"executor/executor.go", "Executor", "setupNodes", "", "exSetupNodes"},
	{"executor/executor.go", "Executor", "Shutdown", "", "exShutdown"},
	// C17 / C03
	{"executor/executor.go", "Executor", "Execute", "tail1", "exExecuteTail"},
	{"executor/executor.go", "", "waitTimeout", "", "exWaitTimeout"},
	// C18
	{"executor/executor.go", "Executor", "prepareSource", "", "exPrepareSource"},
	{"executor/executor.go", "Executor", "superviseSource", "loop0", "exSuperviseBody"},
	// C13
	{"config/config.go", "", "Read", "", "cfgRead"},
	{"config/config.go", "", "assignNodeConfigDefaults", "", "cfgNodeDefaults"},
	{"config/config.go", "", "validateErrorHandlerConfig", "", "cfgValidateHandler"},
	{"config/config.go", "", "validateInternalDataConfig", "", "cfgValidateInternalData"},
	{"config/config.go", "", "validateNodeConfig", "loop0", "cfgChildTypeBody"},
	{"config/config.go", "", "validateSourceConfig", "loop0", "cfgRootTypeBody"},
	{"config/config.go", "", "validateUniqueID", "head0", "cfgUniqueIDHead"},
	{"config/config.go", "", "validateUniqueID", "loop0", "cfgUniqueIDBody"},
	// C20
	{"node/kafkaconsumer/kafkaconsumer.go", "KafkaConsumer", "checkConfig", "", "kcCheckConfig"},
	{"util/util.go", "", "ApplyLibrdkafkaConf", "loop0", "applyConfBody"},
	{"helpers.go", "Nodeconfig", "IntConfigRequired", "", "intConfigRequired"},
	{"helpers.go", "Nodeconfig", "IntConfig", "", "intConfig"},
	{"helpers.go", "Nodeconfig", "StringConfigRequired", "", "stringConfigRequired"},
	{"helpers.go", "Nodeconfig", "StringConfig", "", "stringConfig"},
	// C10
	{"message/kakfamessagereceiver.go", "KafkaMessageReceiver", "processMessage", "", "mrProcessMessage"},
	{"message/kakfamessagereceiver.go", "KafkaMessageReceiver", "buildPartitionAssignments", "loop0", "mrStartOffsetBody"},
	{"message/kakfamessagereceiver.go", "KafkaMessageReceiver", "processEvent", "", "mrProcessEvent"},
	{"message/kakfamessagereceiver.go", "KafkaMessageReceiver", "processInitBuffer", "loop0", "mrInitBufferBody"},
	{"message/kakfamessagereceiver.go", "KafkaMessageReceiver", "deliverMessage", "", "mrDeliverMessage"},
	// C11
	{"executor/message.go", "Executor", "deliverMessageToNode", "", "exDeliverToNode"},
	{"executor/message.go", "Executor", "deliverMessage", "", "exDeliverMessage"},
	// C01 / C02 (tree construction)
	{"node/node.go", "", "InitNodeContextHierarchy", "head0", "initHead"},
	{"node/node.go", "", "InitNodeContextHierarchy", "loop0", "initChildBody"},
	{"node/node.go", "", "InitNodeContextHierarchy", "tail0", "initTail"},
	// C12
	{"node/kafkaproducer/kafkaproducer.go", "KafkaProducer", "startEventsReceiver", "loop0", "kpReportBody"},
	{"message/kafkamessagesender.go", "KafkaMessageSender", "produceMessage", "", "msProduceMessage"},
	{"message/kafkamessagesender.go", "KafkaMessageSender", "Send", "", "msSend"},
	{"message/kafkamessagesender.go", "KafkaMessageSender", "Ack", "", "msAck"},
}

// integer constants of other packages that the fragments compare against
var transConsts = map[string]string{
	"kafka.OffsetInvalid": "(-1001)",
	"math.MaxInt64":       "9223372036854775807",
	"http.StatusConflict": "409",
}

var minMaxPure bool // set per target: the target's package declares min and max itself

type translator struct {
	tmp         int
	pre         []string                   // hoisted calls of the statement being translated
	noCtx       bool                       // inside the right operand of && / ||: a call may not be hoisted
	localMinMax bool                       // the package declares its own min / max functions
	consts      map[string]string          // package-level integer constants of the target's package
	multiArgs   map[string]map[string]bool // callee text -> the distinct argument texts it is called with in the fragment
	bad         bool
}

func lit(s string) string { return "(.lit " + s + ")" }
func vr(s string) string  { return "(.var " + leanStr(s) + ")" }

func pureConv(fn string) bool {
	switch fn {
	case "int64", "int", "kafka.Offset", "time.Duration":
		return true
	}
	return false
}

func hasCall(e ast.Node) bool {
	found := false
	ast.Inspect(e, func(n ast.Node) bool {
		if c, ok := n.(*ast.CallExpr); ok {
			fn := exprString(c.Fun)
			if pureConv(fn) || fn == "len" || fn == "cap" || ((fn == "min" || fn == "max") && minMaxPure) {
				return true
			}
			found = true
			return false
		}
		if _, ok := n.(*ast.FuncLit); ok {
			found = true
			return false
		}
		return true
	})
	return found
}

func hasCallFree(c *ast.CallExpr) bool { return !hasCall(c) }

// loose: an argument of a call / a sent value: translated when there is a rule, otherwise a variable named by its text
func (t *translator) loose(e ast.Expr) string {
	if hasCall(e) {
		return vr(exprString(e))
	}
	return t.expr(e)
}

func (t *translator) callStmt(rets []string, c *ast.CallExpr) string {
	fn := exprString(c.Fun)
	var args []string
	for _, a := range c.Args {
		args = append(args, t.loose(a))
	}
	// a callee the fragment calls with different arguments (strconv.Atoi on two settings, InstantiateNode for the handler and
	// for the node) may run twice in one run with different results: its results are distinct inputs, named with the argument
	// text.  Calls with the same argument text share their inputs (a function of its arguments).  Error constructors are left
	// alone: their results are only ever returned.
	src := fn
	if len(t.multiArgs[fn]) > 1 && fn != "fmt.Errorf" && fn != "errors.New" {
		var at []string
		for _, a := range c.Args {
			at = append(at, exprString(a))
		}
		src = fn + "(" + strings.Join(at, ", ") + ")"
	}
	var rs []string
	for i, r := range rets {
		if r == "_" {
			continue
		}
		rs = append(rs, fmt.Sprintf("(%s, %s)", leanStr(r), leanStr(fmt.Sprintf("%s#%d", src, i))))
	}
	return fmt.Sprintf("(.call [%s] %s [%s])", strings.Join(rs, ", "), leanStr(fn), strings.Join(args, ", "))
}

func (t *translator) expr(e ast.Expr) string {
	switch x := e.(type) {
	case *ast.BasicLit:
		if x.Kind == token.INT {
			return lit(x.Value)
		}
		return vr(exprString(x))
	case *ast.Ident:
		switch x.Name {
		case "true":
			return lit("1")
		case "false", "nil":
			return lit("0")
		}
		if c, ok := t.consts[x.Name]; ok {
			return lit(c)
		}
		return vr(x.Name)
	case *ast.ParenExpr:
		return t.expr(x.X)
	case *ast.SelectorExpr:
		s := exprString(x)
		if c, ok := transConsts[s]; ok {
			return lit(c)
		}
		if hasCall(x) {
			break
		}
		return vr(s)
	case *ast.UnaryExpr:
		switch x.Op {
		case token.NOT:
			return "(.not " + t.expr(x.X) + ")"
		case token.SUB:
			return "(.sub (.lit 0) " + t.expr(x.X) + ")"
		}
	case *ast.BinaryExpr:
		ops := map[token.Token]string{token.ADD: "add", token.SUB: "sub", token.MUL: "mul", token.REM: "rem", token.LSS: "lt", token.LEQ: "le",
			token.GTR: "gt", token.GEQ: "ge", token.EQL: "eq", token.NEQ: "ne", token.LAND: "and", token.LOR: "or"}
		if op, ok := ops[x.Op]; ok {
			l := t.expr(x.X)
			save := t.noCtx
			if x.Op == token.LAND || x.Op == token.LOR {
				t.noCtx = true
			}
			r := t.expr(x.Y)
			t.noCtx = save
			return "(." + op + " " + l + " " + r + ")"
		}
	case *ast.CallExpr:
		fn := exprString(x.Fun)
		if pureConv(fn) && len(x.Args) == 1 {
			return t.expr(x.Args[0])
		}
		if fn == "len" || fn == "cap" {
			if !hasCall(x.Args[0]) {
				return vr(exprString(x))
			}
		}
		if (fn == "min" || fn == "max") && len(x.Args) == 2 && t.localMinMax {
			// the package's own min / max (translated themselves: trackerMin / trackerMax are proved to compute min / max)
			return "(." + fn + " " + t.expr(x.Args[0]) + " " + t.expr(x.Args[1]) + ")"
		}
		if t.noCtx {
			t.bad = true
			return vr("?")
		}
		// hoist: the call becomes a statement before the one being translated, its result a fresh variable
		t.tmp++
		v := fmt.Sprintf("$t%d", t.tmp)
		t.pre = append(t.pre, t.callStmt([]string{v}, x))
		return vr(v)
	}
	if !hasCall(e) {
		return vr(exprString(e)) // index expressions, dereferences, composite literals, strings ... : inputs named by their text
	}
	t.bad = true
	return vr("?")
}

// withPre wraps the translation of one statement: hoisted calls first; anything untranslatable makes the statement unsupported
func (t *translator) withPre(src ast.Node, f func() string) []string {
	t.pre, t.bad = nil, false
	s := f()
	if t.bad {
		return []string{"(.unsupported " + leanStr(exprString(src)) + ")"}
	}
	out := append([]string{}, t.pre...)
	t.pre = nil
	if s != "" {
		out = append(out, s)
	}
	return out
}

func (t *translator) block(b *ast.BlockStmt) string {
	var out []string
	for _, s := range b.List {
		out = append(out, t.stmt(s)...)
	}
	return "(blk [" + strings.Join(out, ",\n    ") + "])"
}

// selectRecv: select { case <-a: A  case <-b: B } with receive cases only.  The channel expressions are evaluated on entry
// (calls among them are events, in order); which case fires is the input "select#0" (0, 1, ...).
func (t *translator) selectRecv(s ast.Stmt, x *ast.SelectStmt) []string {
	if len(x.Body.List) == 0 {
		return nil
	}
	var out, chans []string
	for _, c := range x.Body.List {
		cc := c.(*ast.CommClause)
		var rx ast.Expr
		switch cm := cc.Comm.(type) {
		case *ast.ExprStmt:
			rx = cm.X
		case *ast.AssignStmt: // v, ok := <-ch
			if len(cm.Rhs) == 1 {
				rx = cm.Rhs[0]
			}
		}
		u, ok := rx.(*ast.UnaryExpr)
		if !ok || u.Op != token.ARROW {
			return nil
		}
		var ch string
		pre := t.withPre(s, func() string { ch = t.expr(u.X); return "" })
		if len(pre) == 1 && strings.HasPrefix(pre[0], "(.unsupported") {
			return pre
		}
		out = append(out, pre...)
		chans = append(chans, ch)
	}
	out = append(out, fmt.Sprintf("(.call [(\"$sel\", \"select#0\")] \"select\" [%s])", strings.Join(chans, ", ")))
	chain := "(.unsupported \"select: no such case\")"
	for i := len(x.Body.List) - 1; i >= 0; i-- {
		cc := x.Body.List[i].(*ast.CommClause)
		body := t.stmts(cc.Body)
		if as, ok := cc.Comm.(*ast.AssignStmt); ok {
			// the received value (and the "channel still open" flag) are inputs of the case
			var lhs []string
			for _, l := range as.Lhs {
				lhs = append(lhs, exprString(l))
			}
			fn := "recv " + exprString(as.Rhs[0].(*ast.UnaryExpr).X)
			body = append([]string{fmt.Sprintf("(.call [%s] %s [])", bindPairs(lhs, fn), leanStr(fn))}, body...)
		}
		chain = fmt.Sprintf("(.ite (.eq (.var \"$sel\") (.lit %d))\n    (blk [%s])\n    %s)", i, strings.Join(body, ",\n    "), chain)
	}
	return append(out, chain)
}

func (t *translator) stmts(l []ast.Stmt) []string {
	var out []string
	for _, s := range l {
		out = append(out, t.stmt(s)...)
	}
	return out
}

func (t *translator) stmt(s ast.Stmt) []string {
	unsupported := func() []string { return []string{"(.unsupported " + leanStr(exprString(s)) + ")"} }
	switch x := s.(type) {
	case *ast.EmptyStmt:
		return nil
	case *ast.BlockStmt:
		return []string{t.block(x)}
	case *ast.ExprStmt:
		if isLogStmt(x.X) {
			return nil
		}
		c, ok := x.X.(*ast.CallExpr)
		if !ok {
			return unsupported()
		}
		if fl, ok := c.Fun.(*ast.FuncLit); ok && len(c.Args) == 0 {
			return []string{t.block(fl.Body)} // func() { ... }() : the block, in place
		}
		if len(c.Args) == 1 && strings.HasSuffix(exprString(c.Fun), ".Do") {
			if fl, ok := c.Args[0].(*ast.FuncLit); ok && len(fl.Type.Params.List) == 0 {
				// once.Do(func() {...}): sync.Once runs the function iff this is the first call - the input "<once>.Do#0"
				fn := exprString(c.Fun)
				return []string{fmt.Sprintf("(.call [(\"$once\", %s)] %s [])", leanStr(fn+"#0"), leanStr(fn)),
					fmt.Sprintf("(.ite (.var \"$once\")\n    %s\n    .skip)", t.block(fl.Body))}
			}
		}
		return t.withPre(s, func() string { return t.callStmt(nil, c) })
	case *ast.DeferStmt:
		return []string{fmt.Sprintf("(.call [] %s [])", leanStr("defer "+exprString(x.Call.Fun)))}
	case *ast.GoStmt:
		// go f(args) / go func() {...}(): an event; what the goroutine does is not part of this run
		return t.withPre(s, func() string {
			var args []string
			for _, a := range x.Call.Args {
				args = append(args, t.loose(a))
			}
			return fmt.Sprintf("(.call [] %s [%s])", leanStr("go "+exprString(x.Call.Fun)), strings.Join(args, ", "))
		})
	case *ast.SendStmt:
		return t.withPre(s, func() string {
			var args []string
			name := "send " + exprString(x.Chan)
			if cl, ok := x.Value.(*ast.CompositeLit); ok {
				var keys []string
				for _, el := range cl.Elts {
					if kv, ok := el.(*ast.KeyValueExpr); ok {
						keys = append(keys, exprString(kv.Key))
						args = append(args, t.loose(kv.Value))
					} else {
						args = append(args, t.loose(el))
					}
				}
				name += " {" + strings.Join(keys, ",") + "}"
			} else {
				args = append(args, t.loose(x.Value))
			}
			return fmt.Sprintf("(.call [] %s [%s])", leanStr(name), strings.Join(args, ", "))
		})
	case *ast.IncDecStmt:
		return t.withPre(s, func() string {
			op := "add"
			if x.Tok == token.DEC {
				op = "sub"
			}
			return fmt.Sprintf("(.assign %s (.%s %s (.lit 1)))", leanStr(exprString(x.X)), op, t.expr(x.X))
		})
	case *ast.DeclStmt:
		gd, ok := x.Decl.(*ast.GenDecl)
		if !ok || gd.Tok != token.VAR {
			return unsupported()
		}
		var out []string
		for _, sp := range gd.Specs {
			vs := sp.(*ast.ValueSpec)
			for i, n := range vs.Names {
				if i < len(vs.Values) {
					v := vs.Values[i]
					out = append(out, t.withPre(s, func() string { return fmt.Sprintf("(.assign %s %s)", leanStr(n.Name), t.expr(v)) })...)
				} else {
					out = append(out, fmt.Sprintf("(.assign %s (.lit 0))", leanStr(n.Name))) // zero value
				}
			}
		}
		return out
	case *ast.AssignStmt:
		var lhs []string
		for _, l := range x.Lhs {
			lhs = append(lhs, exprString(l))
		}
		switch x.Tok {
		case token.ASSIGN, token.DEFINE:
			if len(x.Rhs) == 1 {
				if c, ok := x.Rhs[0].(*ast.CallExpr); ok && !pureConv(exprString(c.Fun)) && exprString(c.Fun) != "len" && exprString(c.Fun) != "append" && !hasCallFree(c) {
					return t.withPre(s, func() string { return t.callStmt(lhs, c) })
				}
				if c, ok := x.Rhs[0].(*ast.CallExpr); ok && exprString(c.Fun) == "append" && len(lhs) == 1 {
					// x = append(x, v...): an event on the slice; the slice itself is not a scalar
					return t.withPre(s, func() string {
						var args []string
						name := "append " + lhs[0]
						for _, a := range c.Args[1:] {
							if cl := compositeOf(a); cl != nil {
								var keys []string
								for _, el := range cl.Elts {
									if kv, ok := el.(*ast.KeyValueExpr); ok {
										keys = append(keys, exprString(kv.Key))
										args = append(args, t.loose(kv.Value))
									} else {
										args = append(args, t.loose(el))
									}
								}
								name += " {" + strings.Join(keys, ",") + "}"
							} else {
								args = append(args, t.loose(a))
							}
						}
						return fmt.Sprintf("(.call [] %s [%s])", leanStr(name), strings.Join(args, ", "))
					})
				}
				if ta, ok := x.Rhs[0].(*ast.TypeAssertExpr); ok && len(lhs) == 2 && !hasCall(ta.X) {
					// v, ok := x.(T): both results are inputs
					return t.withPre(s, func() string {
						fn := "assert " + exprString(ta.Type)
						return fmt.Sprintf("(.call [%s] %s [%s])", bindPairs(lhs, fn), leanStr(fn), t.loose(ta.X))
					})
				}
				if cl := compositeOf(x.Rhs[0]); cl != nil && len(lhs) == 1 && cl.Type != nil && len(cl.Elts) > 0 {
					// x := T{k: v, ...}: a construction event, the fields as arguments
					return t.withPre(s, func() string {
						var keys, args []string
						for _, el := range cl.Elts {
							if kv, ok := el.(*ast.KeyValueExpr); ok {
								keys = append(keys, exprString(kv.Key))
								args = append(args, t.loose(kv.Value))
							} else {
								args = append(args, t.loose(el))
							}
						}
						fn := "new " + exprString(cl.Type) + " {" + strings.Join(keys, ",") + "}"
						return fmt.Sprintf("(.call [(%s, %s)] %s [%s])", leanStr(lhs[0]), leanStr(fn+"#0"), leanStr(fn), strings.Join(args, ", "))
					})
				}
				if ix, ok := x.Rhs[0].(*ast.IndexExpr); ok && len(lhs) == 2 {
					// v, ok = m[k]: a lookup; both results are inputs
					return t.withPre(s, func() string {
						fn := "lookup " + exprString(ix.X)
						return fmt.Sprintf("(.call [%s] %s [%s])", bindPairs(lhs, fn), leanStr(fn), t.loose(ix.Index))
					})
				}
				if _, ok := x.Rhs[0].(*ast.FuncLit); ok && len(lhs) == 1 {
					// name := func(...) {...}: a definition; the literal's body is a target of its own ("closure:name"), calls of it are events
					return []string{fmt.Sprintf("(.assign %s %s)", leanStr(lhs[0]), vr("func literal "+lhs[0]))}
				}
				if len(lhs) == 1 {
					if lhs[0] == "_" {
						return nil
					}
					return t.withPre(s, func() string { return fmt.Sprintf("(.assign %s %s)", leanStr(lhs[0]), t.expr(x.Rhs[0])) })
				}
			}
			return unsupported()
		case token.ADD_ASSIGN, token.SUB_ASSIGN:
			op := "add"
			if x.Tok == token.SUB_ASSIGN {
				op = "sub"
			}
			return t.withPre(s, func() string {
				return fmt.Sprintf("(.assign %s (.%s %s %s))", leanStr(lhs[0]), op, t.expr(x.Lhs[0]), t.expr(x.Rhs[0]))
			})
		}
		return unsupported()
	case *ast.IfStmt:
		var out []string
		if x.Init != nil {
			out = append(out, t.stmt(x.Init)...)
		}
		var cond string
		pre := t.withPre(s, func() string { cond = t.expr(x.Cond); return "" })
		if len(pre) == 1 && strings.HasPrefix(pre[0], "(.unsupported") {
			return append(out, pre...)
		}
		out = append(out, pre...)
		th := t.block(x.Body)
		el := ".skip"
		switch e := x.Else.(type) {
		case *ast.BlockStmt:
			el = t.block(e)
		case *ast.IfStmt:
			el = "(blk [" + strings.Join(t.stmt(e), ",\n    ") + "])"
		}
		return append(out, fmt.Sprintf("(.ite %s\n    %s\n    %s)", cond, th, el))
	case *ast.ReturnStmt:
		return t.withPre(s, func() string {
			var es []string
			for _, r := range x.Results {
				es = append(es, t.expr(r))
			}
			return "(.ret [" + strings.Join(es, ", ") + "])"
		})
	case *ast.TypeSwitchStmt:
		// switch e := x.(type) { case T1: A  case T2: B ... }: which case matches is the input "typeswitch#0" (the index of the
		// clause in source order; the number of clauses = no clause matches)
		{
			subject := exprString(x.Assign)
			out := []string{fmt.Sprintf("(.call [(\"$ts\", \"typeswitch#0\")] %s [])", leanStr("typeswitch "+subject))}
			chain := ".skip"
			for i := len(x.Body.List) - 1; i >= 0; i-- {
				cc := x.Body.List[i].(*ast.CaseClause)
				chain = fmt.Sprintf("(.ite (.eq (.var \"$ts\") (.lit %d))\n    (blk [%s])\n    %s)", i, strings.Join(t.stmts(cc.Body), ",\n    "), chain)
			}
			return append(out, chain)
		}
	case *ast.SelectStmt:
		// select { case ch <- v: A  default: B }: a non-blocking send; whether the channel has room is the input "room <ch>"
		if len(x.Body.List) == 2 {
			var sendCl, defCl *ast.CommClause
			for _, c := range x.Body.List {
				cc := c.(*ast.CommClause)
				if cc.Comm == nil {
					defCl = cc
				} else if _, ok := cc.Comm.(*ast.SendStmt); ok {
					sendCl = cc
				}
			}
			if sendCl != nil && defCl != nil {
				snd := sendCl.Comm.(*ast.SendStmt)
				th := append(t.stmt(snd), t.stmts(sendCl.Body)...)
				el := t.stmts(defCl.Body)
				return []string{fmt.Sprintf("(.ite %s\n    (blk [%s])\n    (blk [%s]))", vr("room "+exprString(snd.Chan)), strings.Join(th, ",\n    "), strings.Join(el, ",\n    "))}
			}
		}
		if out := t.selectRecv(s, x); out != nil {
			return out
		}
	case *ast.RangeStmt:
		// for _, v := range coll { f(args) }: one event "foreach coll: f" (the pattern of fan-out loops)
		var bodyStmts []ast.Stmt
		for _, bs := range x.Body.List {
			if es, ok := bs.(*ast.ExprStmt); ok && isLogStmt(es.X) {
				continue
			}
			bodyStmts = append(bodyStmts, bs)
		}
		if len(bodyStmts) == 1 && !hasCall(x.X) {
			if es, ok := bodyStmts[0].(*ast.ExprStmt); ok {
				if c, ok := es.X.(*ast.CallExpr); ok && !isLogStmt(c) {
					return t.withPre(s, func() string {
						var args []string
						for _, a := range c.Args {
							args = append(args, t.loose(a))
						}
						return fmt.Sprintf("(.call [] %s [%s])", leanStr("foreach "+exprString(x.X)+": "+exprString(c.Fun)), strings.Join(args, ", "))
					})
				}
			}
		}
	case *ast.BranchStmt:
		if x.Tok == token.CONTINUE && x.Label == nil {
			return []string{"(.ret [])"} // the fragment is a loop body: `continue` ends this iteration
		}
		if x.Tok == token.BREAK && x.Label == nil {
			return []string{"(.ret [(.lit 1)])"} // the fragment is a loop body: `break` ends the loop - marked by the value 1
		}
	}
	return unsupported()
}

// bindPairs: (variable, input it is read from) for each result that is not discarded with `_`
func bindPairs(lhs []string, fn string) string {
	var rs []string
	for i, l := range lhs {
		if l != "_" {
			rs = append(rs, fmt.Sprintf("(%s, %s)", leanStr(l), leanStr(fmt.Sprintf("%s#%d", fn, i))))
		}
	}
	return strings.Join(rs, ", ")
}

func compositeOf(e ast.Expr) *ast.CompositeLit {
	if u, ok := e.(*ast.UnaryExpr); ok && u.Op == token.AND {
		e = u.X
	}
	cl, _ := e.(*ast.CompositeLit)
	return cl
}

func nthLoop(body *ast.BlockStmt, n int) *ast.BlockStmt {
	var res *ast.BlockStmt
	i := 0
	ast.Inspect(body, func(nd ast.Node) bool {
		if res != nil {
			return false
		}
		switch l := nd.(type) {
		case *ast.RangeStmt:
			if i == n {
				res = l.Body
			}
			i++
		case *ast.ForStmt:
			if i == n {
				res = l.Body
			}
			i++
		}
		return true
	})
	return res
}

func writeTrans(repo string) string {
	var sb strings.Builder
	sb.WriteString("import Firebolt.MiniGo\n/-! GENERATED by /verif/extractor (translate.go) from /repo's sources on every run. Do not edit. -/\nnamespace Firebolt.Trans\nopen Firebolt.MiniGo\n\n")
	parsed := map[string]*ast.File{}
	for _, tt := range transTargets {
		f, ok := parsed[tt.file]
		if !ok {
			var err error
			f, err = parser.ParseFile(fset, filepath.Join(repo, tt.file), nil, 0)
			if err != nil {
				f = &ast.File{}
			}
			parsed[tt.file] = f
		}
		var body *ast.BlockStmt
		for _, d := range f.Decls {
			if fd, ok := d.(*ast.FuncDecl); ok && fd.Name.Name == tt.name && recvName(fd) == tt.recv && fd.Body != nil {
				body = fd.Body
			}
		}
		if body != nil && strings.HasPrefix(tt.part, "closure:") {
			// the body of a function literal assigned to a local variable: name := func() {...}
			var found *ast.BlockStmt
			want := strings.TrimPrefix(tt.part, "closure:")
			ast.Inspect(body, func(nd ast.Node) bool {
				if as, ok := nd.(*ast.AssignStmt); ok && len(as.Lhs) == 1 && len(as.Rhs) == 1 && exprString(as.Lhs[0]) == want {
					if fl, ok := as.Rhs[0].(*ast.FuncLit); ok {
						found = fl.Body
					}
				}
				return found == nil
			})
			body = found
		}
		if body != nil && strings.HasPrefix(tt.part, "loop") {
			n := 0
			fmt.Sscanf(tt.part, "loop%d", &n)
			body = nthLoop(body, n)
		}
		if body != nil && (strings.HasPrefix(tt.part, "head") || strings.HasPrefix(tt.part, "tail")) {
			// the top-level statements before / after the k-th top-level loop of the function
			k, idx, seen := 0, -1, 0
			fmt.Sscanf(tt.part[4:], "%d", &k)
			for i, st := range body.List {
				switch st.(type) {
				case *ast.RangeStmt, *ast.ForStmt:
					if seen == k && idx < 0 {
						idx = i
					}
					seen++
				}
			}
			if idx < 0 {
				body = nil
			} else if strings.HasPrefix(tt.part, "head") {
				body = &ast.BlockStmt{List: body.List[:idx]}
			} else {
				body = &ast.BlockStmt{List: body.List[idx+1:]}
			}
		}
		term := "(.unsupported \"missing\")"
		if body != nil {
			minMaxPure = tt.name != "min" && tt.name != "max" && len(methodsOfFuncs(filepath.Join(repo, filepath.Dir(tt.file)), "min", "max")) == 2
			t := &translator{localMinMax: minMaxPure, consts: pkgIntConsts(filepath.Join(repo, filepath.Dir(tt.file))), multiArgs: map[string]map[string]bool{}}
			ast.Inspect(body, func(nd ast.Node) bool {
				if c, ok := nd.(*ast.CallExpr); ok {
					fn := exprString(c.Fun)
					var at []string
					for _, a := range c.Args {
						at = append(at, exprString(a))
					}
					if t.multiArgs[fn] == nil {
						t.multiArgs[fn] = map[string]bool{}
					}
					t.multiArgs[fn][strings.Join(at, ", ")] = true
				}
				return true
			})
			term = t.block(body)
		}
		fmt.Fprintf(&sb, "def %s : S :=\n  %s\n\n", tt.lean, term)
	}
	sb.WriteString("end Firebolt.Trans\n")
	return sb.String()
}

// methodsOfFuncs: which of the named plain functions the package in dir declares (non-test files)
func methodsOfFuncs(dir string, names ...string) []string {
	var out []string
	pkgs, err := parser.ParseDir(fset, dir, func(fi os.FileInfo) bool { return !strings.HasSuffix(fi.Name(), "_test.go") }, 0)
	if err != nil {
		return nil
	}
	for _, p := range pkgs {
		for _, f := range p.Files {
			for _, d := range f.Decls {
				if fd, ok := d.(*ast.FuncDecl); ok && fd.Recv == nil {
					for _, n := range names {
						if fd.Name.Name == n {
							out = append(out, n)
						}
					}
				}
			}
		}
	}
	return out
}

// pkgIntConsts: package-level `const name = <integer literal>` declarations of the package in dir (non-test files)
func pkgIntConsts(dir string) map[string]string {
	out := map[string]string{}
	pkgs, err := parser.ParseDir(fset, dir, func(fi os.FileInfo) bool { return !strings.HasSuffix(fi.Name(), "_test.go") }, 0)
	if err != nil {
		return out
	}
	for _, p := range pkgs {
		for _, f := range p.Files {
			for _, d := range f.Decls {
				gd, ok := d.(*ast.GenDecl)
				if !ok || gd.Tok != token.CONST {
					continue
				}
				for _, sp := range gd.Specs {
					vs := sp.(*ast.ValueSpec)
					for i, n := range vs.Names {
						if i < len(vs.Values) {
							if bl, ok := vs.Values[i].(*ast.BasicLit); ok && bl.Kind == token.INT {
								out[n.Name] = bl.Value
							}
						}
					}
				}
			}
		}
	}
	return out
}
