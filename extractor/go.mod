module fbextract

go 1.23
