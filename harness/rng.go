package main

// rng is a xorshift64* generator; all random choices of the harness come from it.
type rng struct{ s uint64 }

func newRng(seed uint64) *rng {
	r := &rng{s: seed*0x9E3779B97F4A7C15 + 0x1234567}
	if r.s == 0 {
		r.s = 1
	}
	for i := 0; i < 4; i++ {
		r.next()
	}
	return r
}

func (r *rng) next() uint64 {
	r.s ^= r.s >> 12
	r.s ^= r.s << 25
	r.s ^= r.s >> 27
	return r.s * 0x2545F4914F6CDD1D
}

// intn returns a value in [0, n).
func (r *rng) intn(n int) int {
	if n <= 0 {
		return 0
	}
	return int(r.next() % uint64(n))
}

// rangeI returns a value in [lo, hi].
func (r *rng) rangeI(lo, hi int64) int64 {
	if hi <= lo {
		return lo
	}
	return lo + int64(r.next()%uint64(hi-lo+1))
}

func (r *rng) chance(pct int) bool { return r.intn(100) < pct }

func (r *rng) pick(xs ...int64) int64 { return xs[r.intn(len(xs))] }

func (r *rng) pickS(xs ...string) string { return xs[r.intn(len(xs))] }

func (r *rng) fork() *rng { return newRng(r.next()) }
