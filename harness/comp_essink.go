package main

// component "essink" (C14): the real elasticsearch node over a scripted bulk service.
// input: "cfg <batchSize> <maxRetries> <workers> <waitMs> <mode> ; d <id> <script> | w | p <ms> ; ..."
//   "d <id> <script> e": the request names no index (empty Index)
//   script: verdict per attempt of that document, o = 2xx, r = retryable error, m = mapping conflict (last one repeats)
//   mode:   normal | ctx (the node runs inside a node.Context: answers are observed at its child / error handler) | linger (normal, observed for 5.5 s after the last answer) | shutdown (Shutdown right after the last submission) | whole:<k> (bulk call k fails as a whole)
//           | late:<k> (bulk call k answers after the per-request deadline)

import (
	"context"
	"encoding/json"
	"errors"
	"fmt"
	"strconv"
	"strings"
	"sync"
	"time"

	"github.com/olivere/elastic/v7"

	"github.com/digitalocean/firebolt"
	"github.com/digitalocean/firebolt/node"
	"github.com/digitalocean/firebolt/node/elasticsearch"
)

func init() {
	register("essink", &component{gen: genEsSink, exec: execEsSink})
}

func genEsSink(r *rng, n int, tier string, emit func(string)) {
	for _, c := range []string{
		"cfg 3 2 2 20 normal ; d 1 o ; d 2 m ; d 3 rro ; d 4 r ; d 5 ro ; w ; d 6 rm ; d 7 o",
		"cfg 10 1 1 20 normal ; d 1 o ; d 2 o ; d 3 o",
		"cfg 2 3 3 15 normal ; d 1 rrro ; d 2 rrrr ; d 3 rrrm ; d 4 o ; p 40 ; d 5 r ; d 6 m",
		"cfg 10 2 1 5000 shutdown ; d 1 o ; d 2 o ; d 3 o",
		"cfg 2 2 1 5000 shutdown ; d 1 o ; d 2 r ; d 3 o ; d 4 o ; d 5 o",
		"cfg 3 1 1 20 late:0 ; d 1 o ; d 2 o ; d 3 o",
		// nothing is sent or answered again after a document has used up its retries (watched for 5.5 s after the last answer)
		"cfg 2 1 1 20 linger ; d 1 rr ; d 2 o ; d 3 rm",
		// a refused bulk request (5 s back-off) must not use up the per-document retry budget
		"cfg 2 1 1 20 whole:0 ; d 1 o ; d 2 ro ; d 3 m",
		"cfg 5 1 1 20 normal ; d 1 o ; d 2 m ; d 3 m ; d 4 rr ; d 5 rr",
		"cfg 3 1 2 20 ctx ; d 1 o ; d 2 m ; d 3 ro ; d 4 o ; d 5 rr",              // inside a node context: indexed documents go on to the child, failures to the handler           // several permanent failures of one kind in one response
		"cfg 4 1 1 20 normal ; d 1 o ; d 2 o e ; d 3 m ; d 4 o ; d 5 o e ; d 6 o", // requests without an index name inside batches
	} {
		emit(c)
	}
	if tier == "thorough" {
		emit("cfg 2 2 1 20 whole:0 ; d 1 o ; d 2 r ; d 3 m")
	}
	for i := 0; i < n; i++ {
		bs := int(r.pick(1, 2, 3, 5, 8))
		mr := int(r.pick(1, 2, 3))
		w := int(r.pick(1, 1, 2, 4))
		wait := int(r.pick(10, 20, 30))
		mode := "normal"
		if r.chance(15) {
			mode = "ctx"
		} else if r.chance(6) {
			mode = "shutdown"
			wait = 5000
		}
		ops := []string{fmt.Sprintf("cfg %d %d %d %d %s", bs, mr, w, wait, mode)}
		nd := r.intn(14) + 1
		for j := 0; j < nd; j++ {
			var sb strings.Builder
			for k := 0; k <= mr; k++ {
				x := r.intn(100)
				switch {
				case x < 55:
					sb.WriteByte('o')
				case x < 90:
					sb.WriteByte('r')
				default:
					sb.WriteByte('m')
				}
				if sb.String()[k] != 'r' {
					break
				}
			}
			if r.chance(6) {
				sb.WriteString(" e") // a request that names no index: elasticsearch decides what becomes of it
			}
			ops = append(ops, fmt.Sprintf("d %d %s", j+1, sb.String()))
			if r.chance(8) && mode == "normal" {
				ops = append(ops, "w")
			}
			if r.chance(10) && mode == "normal" {
				ops = append(ops, fmt.Sprintf("p %d", wait+15))
			}
		}
		emit(strings.Join(ops, " ; "))
	}
}

type esScript struct {
	mu        sync.Mutex
	scripts   map[string]string
	scriptIdx map[string]int
	sendCount map[string]int
	firstSeen map[string]time.Time
	calls     int
	inflight  int
	maxInfl   int
	maxBatch  int
	altered   int
	wholeCall int
	lateCall  int
	emptyIdx  map[string]bool // documents submitted with an empty index name
}

type scriptedBulk struct {
	svc  *esScript
	reqs []elastic.BulkableRequest
}

func (b *scriptedBulk) Add(requests ...elastic.BulkableRequest) { b.reqs = append(b.reqs, requests...) }

func (b *scriptedBulk) Do(ctx context.Context) (*elastic.BulkResponse, error) {
	s := b.svc
	s.mu.Lock()
	call := s.calls
	s.calls++
	s.inflight++
	if s.inflight > s.maxInfl {
		s.maxInfl = s.inflight
	}
	if len(b.reqs) > s.maxBatch {
		s.maxBatch = len(b.reqs)
	}
	var ids []string
	for _, rq := range b.reqs {
		lines, err := rq.Source()
		id := "?"
		if err == nil && len(lines) == 2 {
			var action map[string]map[string]interface{}
			_ = json.Unmarshal([]byte(lines[0]), &action)
			idx, _ := action["index"]["_index"].(string)
			id, _ = action["index"]["_id"].(string)
			n, _ := strconv.Atoi(id)
			var doc map[string]int
			_ = json.Unmarshal([]byte(lines[1]), &doc)
			want := fmt.Sprintf("idx%d", n%3)
			if s.emptyIdx[id] {
				want = ""
			}
			if idx != want || doc["n"] != n || len(doc) != 1 {
				s.altered++
			}
		} else {
			s.altered++
		}
		ids = append(ids, id)
		s.sendCount[id]++
		if _, ok := s.firstSeen[id]; !ok {
			s.firstSeen[id] = time.Now()
		}
	}
	whole := call == s.wholeCall
	late := call == s.lateCall
	s.mu.Unlock()
	time.Sleep(time.Duration(1+call%3) * time.Millisecond)
	if late {
		time.Sleep(1150 * time.Millisecond)
	}
	defer func() {
		s.mu.Lock()
		s.inflight--
		s.mu.Unlock()
	}()
	if whole {
		return nil, errors.New("scripted: elasticsearch unavailable")
	}
	res := &elastic.BulkResponse{}
	s.mu.Lock()
	for _, id := range ids {
		sc := s.scripts[id]
		k := s.scriptIdx[id]
		s.scriptIdx[id] = k + 1
		c := byte('o')
		if len(sc) > 0 {
			if k < len(sc) {
				c = sc[k]
			} else {
				c = sc[len(sc)-1]
			}
		}
		item := &elastic.BulkResponseItem{Id: id, Status: 201}
		switch c {
		case 'r':
			item.Status = 429
			item.Error = &elastic.ErrorDetails{Type: "es_rejected_execution_exception", Reason: "busy " + id, Index: "idx-of-" + id}
			res.Errors = true
		case 'm':
			item.Status = 400
			item.Error = &elastic.ErrorDetails{Type: "mapper_parsing_exception", Reason: "conflict on field f" + id, Index: "idx-of-" + id}
			res.Errors = true
		}
		res.Items = append(res.Items, map[string]*elastic.BulkResponseItem{"index": item})
	}
	s.mu.Unlock()
	return res, nil
}

func execEsSink(input string) string {
	consumerMetrics() // metrics.Init
	segs := strings.Split(input, ";")
	hd := strings.Fields(segs[0])
	if len(hd) != 6 || hd[0] != "cfg" {
		return "bad-input"
	}
	bs, _ := strconv.Atoi(hd[1])
	workers, _ := strconv.Atoi(hd[3])
	waitMs, _ := strconv.Atoi(hd[4])
	mode := hd[5]
	svc := &esScript{scripts: map[string]string{}, scriptIdx: map[string]int{}, sendCount: map[string]int{}, firstSeen: map[string]time.Time{}, wholeCall: -1, lateCall: -1, emptyIdx: map[string]bool{}}
	timeoutSec := "20"
	if strings.HasPrefix(mode, "whole:") {
		svc.wholeCall, _ = strconv.Atoi(strings.TrimPrefix(mode, "whole:"))
	}
	if strings.HasPrefix(mode, "late:") {
		svc.lateCall, _ = strconv.Atoi(strings.TrimPrefix(mode, "late:"))
		timeoutSec = "1"
	}
	es := &elasticsearch.Elasticsearch{}
	es.VerifSetBulkServiceFactory(func() elasticsearch.VerifBulkService { return &scriptedBulk{svc: svc} })
	if err := es.Setup(map[string]string{"elastic-addr": "http://scripted", "batch-size": hd[1], "bulk-index-max-retries": hd[2],
		"index-workers": hd[3], "batch-max-wait-ms": hd[4], "bulk-index-timeout-seconds": timeoutSec}); err != nil {
		return "harness-error " + err.Error()
	}
	var mu sync.Mutex
	answers := map[string][]string{}
	record := func(key, a string) {
		mu.Lock()
		answers[key] = append(answers[key], a)
		mu.Unlock()
	}
	// mode ctx: the node runs inside a node.Context as under the executor: answers are what arrives at its child (success),
	// at its error handler (failure) or nowhere (counted as filtered)
	var nctx *node.Context
	stopDrain := make(chan struct{})
	if mode == "ctx" {
		run := nextRunID()
		mk := func(suffix string) *node.Context {
			return &node.Context{Config: &node.Config{ID: fmt.Sprintf("es%d_%s", run, suffix), BufferSize: 4096}, Ch: make(chan firebolt.Event, 4096)}
		}
		child, handler := mk("child"), mk("handler")
		nctx = &node.Context{Config: &node.Config{ID: fmt.Sprintf("es%d", run), Workers: 1, BufferSize: 1}, NodeType: node.Async, NodeProcessor: es,
			Children: []*node.Context{child}, ErrorHandler: handler}
		keyOf := func(p interface{}) string {
			if rq, ok := p.(elasticsearch.IndexRequest); ok {
				return "d" + rq.DocID
			}
			return "?"
		}
		go func() {
			for {
				select {
				case ev := <-child.Ch:
					record(keyOf(ev.Payload), "ok")
				case ev := <-handler.Ch:
					ee, ok := ev.Payload.(firebolt.EventError)
					if !ok {
						record("?", "?")
						continue
					}
					key := "?"
					if e0, ok := ee.Event.(*firebolt.Event); ok && e0 != nil {
						key = keyOf(e0.Payload)
					}
					var fe firebolt.FBError
					if errors.As(ee.Err, &fe) && fe.Code == "ES_INDEX_ERROR" && fe.ErrorInfo != nil {
						if det, ok := fe.ErrorInfo.(*elastic.ErrorDetails); ok && det != nil && det.Index != "idx-of-"+strings.TrimPrefix(key, "d") {
							record(key, "Ew")
						} else {
							record(key, "E")
						}
					} else {
						record(key, "?")
					}
				case <-stopDrain:
					return
				}
			}
		}()
	}
	defer close(stopDrain)
	submit := func(key string, payload interface{}) {
		ev := &firebolt.Event{Payload: payload, Created: time.Now()}
		if nctx != nil {
			nctx.ProcessEvent(ev)
			return
		}
		ae := firebolt.NewAsyncEvent(ev,
			func(err error) {
				var fe firebolt.FBError
				if errors.As(err, &fe) && fe.Code == "ES_INDEX_ERROR" && fe.ErrorInfo != nil {
					// the error carried must be the one elasticsearch returned for this very document
					if det, ok := fe.ErrorInfo.(*elastic.ErrorDetails); ok && det != nil && det.Index != "idx-of-"+strings.TrimPrefix(key, "d") {
						record(key, "Ew")
					} else {
						record(key, "E")
					}
				} else if strings.Contains(err.Error(), "type assertion") {
					record(key, "T")
				} else {
					record(key, "?")
				}
			},
			func(*firebolt.AsyncEvent) { record(key, "ok") },
			func() { record(key, "F") })
		es.ProcessAsync(ae)
	}
	var order []string
	nWrong := 0
	lastSubmit := time.Now()
	lastKey := ""
	for _, seg := range segs[1:] {
		f := strings.Fields(seg)
		if len(f) == 0 {
			continue
		}
		switch f[0] {
		case "d":
			id := f[1]
			n, _ := strconv.Atoi(id)
			svc.mu.Lock()
			svc.scripts[id] = f[2]
			index := fmt.Sprintf("idx%d", n%3)
			if len(f) > 3 && f[3] == "e" {
				svc.emptyIdx[id] = true
				index = ""
			}
			svc.mu.Unlock()
			order = append(order, "d"+id)
			submit("d"+id, elasticsearch.IndexRequest{Index: index, DocID: id, Doc: map[string]int{"n": n}})
			lastSubmit = time.Now()
			lastKey = id
		case "w":
			key := fmt.Sprintf("x%d", nWrong)
			nWrong++
			order = append(order, key)
			submit(key, "not an index request")
		case "p":
			ms, _ := strconv.Atoi(f[1])
			time.Sleep(time.Duration(ms) * time.Millisecond)
		default:
			return "bad-input"
		}
	}
	if mode == "shutdown" {
		_ = es.Shutdown()
	}
	deadline := 2 * time.Second
	if svc.wholeCall >= 0 {
		deadline = 8 * time.Second
	} else if svc.lateCall >= 0 {
		deadline = 9 * time.Second // the unrepaired code re-ran the batch after a 5 s back-off
	} else if mode == "shutdown" {
		deadline = 400 * time.Millisecond
	}
	start := time.Now()
	for time.Since(start) < deadline {
		mu.Lock()
		done := true
		for _, k := range order {
			if len(answers[k]) == 0 {
				done = false
			}
		}
		mu.Unlock()
		if done {
			break
		}
		time.Sleep(3 * time.Millisecond)
	}
	if svc.lateCall >= 0 || mode == "linger" {
		time.Sleep(5500 * time.Millisecond) // a re-run of an already answered batch would show up after its 5 s back-off
	} else {
		time.Sleep(15 * time.Millisecond)
	}
	if mode != "shutdown" {
		_ = es.Shutdown()
	}
	mu.Lock()
	svc.mu.Lock()
	defer mu.Unlock()
	defer svc.mu.Unlock()
	var parts []string
	unans := 0
	var sorted []string
	for _, k := range order {
		if strings.HasPrefix(k, "d") {
			sorted = append(sorted, k)
		}
	}
	for _, k := range order {
		if strings.HasPrefix(k, "x") {
			sorted = append(sorted, k)
		}
	}
	for _, k := range sorted {
		a := "-"
		if len(answers[k]) > 0 {
			a = strings.Join(answers[k], "+")
		} else if mode == "ctx" {
			a = "F" // neither the child nor the handler got anything: the executor took the answer for "filtered"
		} else {
			unans++
		}
		sends := strconv.Itoa(svc.sendCount[strings.TrimPrefix(k, "d")])
		if strings.HasPrefix(k, "x") {
			sends = "0"
		}
		if svc.wholeCall >= 0 && strings.HasPrefix(k, "d") {
			sends = "*"
		}
		parts = append(parts, fmt.Sprintf("%s=%s/%s", k, a, sends))
	}
	flushok := true
	if lastKey != "" && mode != "shutdown" {
		if t, ok := svc.firstSeen[lastKey]; ok {
			scale := 1.0
			if t.Sub(lastSubmit) > time.Duration(float64(waitMs)+600*scale)*time.Millisecond {
				flushok = false
			}
		}
	}
	return strings.Join(parts, " ") + fmt.Sprintf(" batchok=%s inflightok=%s altered=%d flushok=%s unans=%d",
		b01(svc.maxBatch <= bs), b01(svc.maxInfl <= workers), svc.altered, b01(flushok), unans)
}
