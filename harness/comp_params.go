package main

// component "params" (C20): librdkafka overlay of the four client configurations, KafkaConsumer.checkConfig,
// typed getters, and Go's strconv.Atoi/ParseBool against the model's re-implementation.

import (
	"fmt"
	"math"
	"sort"
	"strconv"
	"strings"

	"github.com/confluentinc/confluent-kafka-go/kafka"

	"github.com/digitalocean/firebolt"
	"github.com/digitalocean/firebolt/message"
	"github.com/digitalocean/firebolt/node/kafkaconsumer"
	"github.com/digitalocean/firebolt/node/kafkaproducer"
)

func init() {
	register("params", &component{gen: genParams, exec: execParams})
}

func tilde(s string) string {
	if s == "" {
		return "~"
	}
	return s
}
func untilde(s string) string {
	if s == "~" {
		return ""
	}
	return s
}

var numStrings = []string{"0", "1", "-1", "+5", "-0", "+0", "007", "0x10", "1_000", "9223372036854775807", "9223372036854775808",
	"-9223372036854775808", "-9223372036854775809", "99999999999999999999", "~", "-", "+", "1e3", "1.0", "12a", "a12", "--1", "+-1",
	"2147483647", "2147483648", "10", "100", "5", "٣", "１", "1-", "0b1", "0o7", "123456789012345678", "1234567890123456789", "-123456789012345678901"}

var boolStrings = []string{"1", "0", "t", "f", "T", "F", "true", "false", "TRUE", "FALSE", "True", "False", "tRUE", "yes", "no", "~", "2", "on", "truee"}

func genParams(r *rng, n int, tier string, emit func(string)) {
	// directed prefix
	for _, s := range numStrings {
		emit("atoi " + s)
	}
	for _, s := range boolStrings {
		emit("bool " + s)
	}
	for _, c := range []string{"kc", "rc", "mr", "kp"} {
		emit("overlay " + c + " brokers=b:9092 consumergroup=g buffersize=10 topic=t")
		emit("overlay " + c + " brokers=b:9092 consumergroup=g buffersize=10 topic=t librdkafka.session.timeout.ms=77 librdkafka.fetch.min.bytes=3 session.timeout.ms=1 zz=leak")
		emit("overlay " + c + " brokers=b:9092 consumergroup=g buffersize=10 topic=t librdkafka.{topic}.auto.offset.reset=latest librdkafka.{topic}.x=y")
		emit("overlay " + c + " brokers=b:9092 consumergroup=g buffersize=10 topic=t librdkafka.bootstrap.servers=other librdkafka.group.id=mine")
	}
	// through a real Setup: credential-like and ordinary overrides must reach every later client built from the same params
	emit("setup kc brokers=127.0.0.1:1 consumergroup=g buffersize=10 topic=t librdkafka.sasl.username=u librdkafka.sasl.password=s3cr3t-Pa55 librdkafka.client.id=c1")
	emit("setup rc brokers=127.0.0.1:1 consumergroup=g buffersize=10 topic=t librdkafka.sasl.password=pw librdkafka.ssl.key.password=kpw librdkafka.session.timeout.ms=7000 zz=leak")
	emit("check brokers=b consumergroup=g topic=t buffersize=1")
	emit("check brokers=b consumergroup=g topic=t buffersize=0")
	emit("check brokers=b consumergroup=g topic=t buffersize=1 maxpartitionlag=-1")
	emit("check brokers=b consumergroup=g topic=t buffersize=1 maxpartitionlag=0 parallelrecoveryenabled=yes")
	emit("check consumergroup=g topic=t buffersize=1")
	emit("int 0 0 ~ 5 1 10")
	emit("int 0 0 ~ 11 1 10")
	emit("int 1 0 ~ 5 1 10")
	emit("int 0 1 10 5 1 10")
	emit("int 0 1 11 5 1 10")
	emit("float 0 0 ~ e " + fbits(0.1234567) + " " + fbits(0) + " " + fbits(1))
	emit("float 0 0 ~ e " + fbits(1e-7) + " " + fbits(1e-8) + " " + fbits(1))
	emit("float 0 0 ~ e " + fbits(0.01) + " " + fbits(0.01) + " " + fbits(math.MaxFloat64))
	emit("float 0 0 ~ e " + fbits(10) + " " + fbits(0.01) + " " + fbits(math.MaxFloat64))
	clientKeys := []string{"session.timeout.ms", "group.id", "bootstrap.servers", "enable.auto.commit", "auto.offset.reset", "go.events.channel.size",
		"compression.codec", "queue.buffering.max.ms", "fetch.min.bytes", "security.protocol", "statistics.interval.ms", "enable.partition.eof", "x", "a.b",
		"go.batch.producer", "go.delivery.reports", "go.application.rebalance.enable", "log.connection.close", "fetch.wait.max.ms", "debug", "api.version.request"}
	vals := []string{"1", "0", "true", "false", "v", "latest", "earliest", "10.0.0.1:9092", "SASL_SSL", "-5", "A-b_c", "0500", "T", "00", "1e3", "TRUE", "0x10"}
	for i := 0; i < n; i++ {
		if r.chance(2) {
			// real client properties only: Setup creates a librdkafka client from them
			parts := []string{"setup", r.pickS("kc", "rc"), "brokers=127.0.0.1:1", "consumergroup=g", "buffersize=" + r.pickS("10", "1"), "topic=t"}
			for _, k := range []string{"sasl.password", "sasl.username", "ssl.key.password", "client.id", "session.timeout.ms", "fetch.min.bytes", "ssl.keystore.password"} {
				if r.chance(40) {
					v := r.pickS("v", "s3cr3t", "********", "p w", "x:y")
					if strings.HasSuffix(k, ".ms") || strings.HasSuffix(k, ".bytes") {
						v = r.pickS("7000", "9000", "11")
					}
					parts = append(parts, "librdkafka."+k+"="+strings.ReplaceAll(v, " ", "_"))
				}
			}
			if r.chance(30) {
				parts = append(parts, "password=plain", "secret.token=zz")
			}
			emit(strings.Join(parts, " "))
			continue
		}
		switch r.intn(10) {
		case 0, 1, 2, 3:
			client := r.pickS("kc", "rc", "mr", "kp")
			kv := map[string]string{"brokers": r.pickS("b:9092", "h1:1_h2:2", "x")}
			if r.chance(90) {
				kv["consumergroup"] = r.pickS("g", "grp-1")
				kv["buffersize"] = r.pickS("10", "1", "500")
				kv["topic"] = "t"
			} else {
				kv["buffersize"] = "7"
			}
			if r.chance(30) {
				kv["messagetopic"] = "m"
			}
			for j := r.intn(5); j > 0; j-- {
				k := clientKeys[r.intn(len(clientKeys))]
				pre := "librdkafka."
				if r.chance(25) {
					pre += "{topic}."
				}
				if r.chance(3) {
					k = ""
				}
				kv[pre+k] = vals[r.intn(len(vals))]
			}
			for j := r.intn(4); j > 0; j-- { // non-prefixed junk, some named like client keys
				k := r.pickS("zz", "yy", "librdkafka", "librdkafkax.a", "Librdkafka.b", "{topic}.c", "xlibrdkafka.d") + strconv.Itoa(r.intn(3))
				if r.chance(40) {
					k = clientKeys[r.intn(len(clientKeys))]
				}
				kv[k] = vals[r.intn(len(vals))]
			}
			var keys []string
			for k := range kv {
				keys = append(keys, k)
			}
			sort.Strings(keys)
			// random order of parameters (Go map iteration order is random anyway)
			for j := len(keys) - 1; j > 0; j-- {
				k := r.intn(j + 1)
				keys[j], keys[k] = keys[k], keys[j]
			}
			parts := []string{"overlay", client}
			for _, k := range keys {
				parts = append(parts, k+"="+kv[k])
			}
			emit(strings.Join(parts, " "))
		case 4, 5:
			parts := []string{"check"}
			if r.chance(96) {
				parts = append(parts, "brokers="+r.pickS("b", "b", "b", "b", "b", "~"))
			}
			if r.chance(96) {
				parts = append(parts, "consumergroup="+r.pickS("g", "g", "g", "g", "g", "~"))
			}
			if r.chance(96) {
				parts = append(parts, "topic="+r.pickS("t", "t", "t", "t", "t", "~"))
			}
			if r.chance(96) {
				parts = append(parts, "buffersize="+pickNum(r, 25))
			}
			if r.chance(60) {
				parts = append(parts, "maxpartitionlag="+pickNum(r, 25))
			}
			if r.chance(60) {
				parts = append(parts, "parallelrecoveryenabled="+boolStrings[r.intn(len(boolStrings))])
			}
			if r.chance(20) {
				parts = append(parts, "zz=1")
			}
			emit(strings.Join(parts, " "))
		case 6, 7:
			mn := r.pick(0, 1, -5, 10, math.MinInt64, -100, -(1 << 53), math.MinInt64+1, -(1 << 62)) // also bounds beyond the float64-exact range
			mx := r.pick(10, 100, 1, 0, math.MaxInt64, math.MaxInt32, -10, 1<<53, (1<<53)+2, math.MaxInt64-1, 1<<62)
			d := r.pick(mn, mx, mn-1, mx+1, 0, 5, 50)
			if mn == math.MinInt64 && d == mn-1 {
				d = mn
			}
			if mx == math.MaxInt64 && d == mx+1 {
				d = mx
			}
			val := pickNum(r, 50)
			if r.chance(40) {
				val = strconv.FormatInt(r.pick(mn, mx, mn+1, mx-1, 5), 10)
				if r.chance(30) {
					val = strconv.FormatInt(r.pick(mn, mx), 10)
					if v, err := strconv.ParseInt(val, 10, 64); err == nil && v < math.MaxInt64 && v > math.MinInt64 {
						val = strconv.FormatInt(v+r.pick(-1, 1), 10)
					}
				}
			}
			emit(fmt.Sprintf("int %s %s %s %d %d %d", b01(r.chance(30)), b01(r.chance(65)), val, d, mn, mx))
		case 8:
			emit(fmt.Sprintf("str %s %s %s %s", b01(r.chance(40)), b01(r.chance(60)), r.pickS("~", "v", "a-b", "0"), r.pickS("~", "d", "dflt")))
		default:
			fl := []float64{0, 0.01, 0.1, 0.1234567, 1e-7, 1e-8, 1, 2.5, 10, 1e6, 123456.789, 1e21, 1e300, math.MaxFloat64, -1, -0.5, math.SmallestNonzeroFloat64, 0.30000000000000004, 1.0 / 3}
			mn := fl[r.intn(len(fl))]
			mx := fl[r.intn(len(fl))]
			if r.chance(70) && mn > mx {
				mn, mx = mx, mn
			}
			d := fl[r.intn(len(fl))]
			if r.chance(50) {
				d = r.pickF(mn, mx)
			}
			if r.chance(2) && tier == "thorough" {
				d = math.NaN()
			}
			val := r.pickS("0.5", "1", "1e3", "abc", "~", "0.1", "-1", "1e400", "0x1p-2", "inf", "+Inf", "1_0", ".5", "5.", "0.01", "1e-8")
			if r.chance(30) {
				val = strconv.FormatFloat(r.pickF(mn, mx, d), 'g', -1, 64)
			}
			pv := "e"
			if f, err := strconv.ParseFloat(untilde(val), 64); err == nil {
				pv = fbits(f)
			}
			emit(fmt.Sprintf("float %s %s %s %s %s %s %s", b01(r.chance(30)), b01(r.chance(50)), val, pv, fbits(d), fbits(mn), fbits(mx)))
		}
	}
}

func (r *rng) pickF(xs ...float64) float64 { return xs[r.intn(len(xs))] }

func fbits(f float64) string { return strconv.FormatUint(math.Float64bits(f), 10) }

func pickNum(r *rng, pctList int) string {
	if r.chance(pctList) {
		return numStrings[r.intn(len(numStrings))]
	}
	return strconv.FormatInt(r.rangeI(-3, 20), 10)
}

func fmtConf(pre string, cm *kafka.ConfigMap) string {
	var top []string
	sub := "none"
	for k, v := range *cm {
		if k == "default.topic.config" {
			if sm, ok := v.(kafka.ConfigMap); ok {
				var ss []string
				for sk, sv := range sm {
					ss = append(ss, fmt.Sprintf("%s=%v", sk, sv))
				}
				sort.Strings(ss)
				sub = "[" + strings.Join(ss, ",") + "]"
			} else {
				sub = fmt.Sprintf("[!notamap=%v]", v)
			}
			continue
		}
		top = append(top, fmt.Sprintf("%s=%v", k, v))
	}
	sort.Strings(top)
	return fmt.Sprintf("%s.top=[%s] %s.sub=%s", pre, strings.Join(top, ","), pre, sub)
}

func buildClientConf(client string, params map[string]string) (*kafka.ConfigMap, error) {
	cp := map[string]string{}
	for k, v := range params {
		cp[k] = v
	}
	switch client {
	case "kc":
		return kafkaconsumer.VerifNewKafkaConsumer(newScriptedConsumer(), "t", nil, 0, consumerMetrics(), nil, &recordingContext{}).VerifBuildConfigMap(cp)
	case "rc":
		return kafkaconsumer.VerifNewRecoveryConsumer(newScriptedConsumer(), "t", nil, 1, 1, consumerMetrics(), &recordingContext{}, true).VerifBuildConfigMap(cp)
	case "mr":
		return message.VerifNewKafkaMessageReceiver(newScriptedConsumer(), "m", 1, nil).VerifBuildConfigMap(cp)
	case "kp":
		return kafkaproducer.VerifNewKafkaProducer(nil, "t").VerifBuildConfigMap(cp)
	}
	return nil, fmt.Errorf("unknown client")
}

func confAfterSetup(client string, params map[string]string) (*kafka.ConfigMap, error) {
	if client != "kc" && client != "rc" {
		return nil, fmt.Errorf("setup applies to the source")
	}
	kc := &kafkaconsumer.KafkaConsumer{}
	kc.Init("verif-setup", &recordingContext{})
	if client == "rc" {
		params["parallelrecoveryenabled"] = "true"
		params["parallelrecoverymaxrecords"] = "1000"
		params["parallelrecoverymaxrate"] = "100"
	}
	ch := make(chan firebolt.Event, 1)
	if err := kc.Setup(params, ch); err != nil {
		return nil, err
	}
	kc.VerifDetachMain(newScriptedConsumer())
	rc := kc.VerifRecoveryConsumer()
	if rc != nil {
		rc.VerifDetach(newScriptedConsumer(), ch)
	}
	if client == "rc" {
		if rc == nil {
			return nil, fmt.Errorf("no recovery consumer")
		}
		return rc.VerifBuildConfigMap(params)
	}
	return kc.VerifBuildConfigMap(params)
}

func execParams(input string) string {
	consumerMetrics() // metrics.Init: a real Setup registers collectors; every case must find the process initialised
	f := strings.Fields(input)
	if len(f) == 0 {
		return "bad-input"
	}
	switch f[0] {
	case "overlay", "setup":
		all := map[string]string{}
		base := map[string]string{}
		min := map[string]string{}
		for _, kv := range f[2:] {
			p := strings.SplitN(kv, "=", 2)
			if len(p) != 2 {
				return "bad-input"
			}
			all[p[0]] = p[1]
			if !strings.HasPrefix(p[0], "librdkafka.") {
				base[p[0]] = p[1]
				switch p[0] {
				case "brokers", "consumergroup", "buffersize", "topic", "messagetopic":
					min[p[0]] = p[1]
				}
			}
		}
		var res *kafka.ConfigMap
		var err error
		if f[0] == "setup" {
			// a real KafkaConsumer.Setup runs on the caller's params map (with parallel recovery for "rc"); printed is the
			// configuration the NEXT client built from that same map gets: the restarted source's (prepareSource calls Setup
			// with the same map again) or the recovery consumer's
			res, err = confAfterSetup(f[1], all)
		} else {
			res, err = buildClientConf(f[1], all)
		}
		if err != nil {
			return "err"
		}
		b, err := buildClientConf(f[1], base)
		if err != nil {
			return "err"
		}
		m, err := buildClientConf(f[1], min)
		if err != nil {
			return "err"
		}
		return fmtConf("base", b) + " " + fmtConf("min", m) + " " + fmtConf("res", res)
	case "check":
		params := map[string]string{}
		for _, kv := range f[1:] {
			p := strings.SplitN(kv, "=", 2)
			params[p[0]] = untilde(p[1])
		}
		kc := kafkaconsumer.VerifNewKafkaConsumer(newScriptedConsumer(), "t", nil, 0, consumerMetrics(), nil, &recordingContext{})
		if kc.VerifCheckConfig(params) != nil {
			return "err"
		}
		// what the source will use: Setup converts config["maxpartitionlag"] after checkConfig has defaulted it
		return "ok ml=" + params["maxpartitionlag"]
	case "int":
		if len(f) != 7 {
			return "bad-input"
		}
		c := firebolt.Nodeconfig{}
		if f[2] == "1" {
			c["k"] = untilde(f[3])
		}
		d, _ := strconv.ParseInt(f[4], 10, 64)
		mn, _ := strconv.ParseInt(f[5], 10, 64)
		mx, _ := strconv.ParseInt(f[6], 10, 64)
		var v int
		var err error
		if f[1] == "1" {
			v, err = c.IntConfigRequired("k", int(mn), int(mx))
		} else {
			v, err = c.IntConfig("k", int(d), int(mn), int(mx))
		}
		set := "~absent"
		if s, ok := c["k"]; ok {
			set = tilde(s)
		}
		if err != nil {
			return "err set=" + set
		}
		return fmt.Sprintf("ok %d set=%s", v, set)
	case "str":
		if len(f) != 5 {
			return "bad-input"
		}
		c := firebolt.Nodeconfig{}
		if f[2] == "1" {
			c["k"] = untilde(f[3])
		}
		var v string
		var err error
		if f[1] == "1" {
			v, err = c.StringConfigRequired("k")
		} else {
			v, err = c.StringConfig("k", untilde(f[4]))
		}
		if err != nil {
			return "err"
		}
		return "ok " + tilde(v)
	case "float":
		if len(f) != 8 {
			return "bad-input"
		}
		c := firebolt.Nodeconfig{}
		if f[2] == "1" {
			c["k"] = untilde(f[3])
		}
		pb := func(s string) float64 { u, _ := strconv.ParseUint(s, 10, 64); return math.Float64frombits(u) }
		var v float64
		var err error
		if f[1] == "1" {
			v, err = c.Float64ConfigRequired("k", pb(f[6]), pb(f[7]))
		} else {
			v, err = c.Float64Config("k", pb(f[5]), pb(f[6]), pb(f[7]))
		}
		if err != nil {
			return "err"
		}
		return "ok " + fbits(v)
	case "atoi":
		v, err := strconv.Atoi(untilde(f[1]))
		if err != nil {
			return "err"
		}
		return fmt.Sprintf("ok %d", v)
	case "bool":
		v, err := strconv.ParseBool(untilde(f[1]))
		if err != nil {
			return "err"
		}
		return fmt.Sprintf("ok %v", v)
	}
	return "bad-input"
}
