package main

// component "setupparams" (C18: "each replacement is set up with the same parameters"): the executor hands its own
// Source.Params map to Setup of every incarnation of the source, so whatever Setup does to that map is what the next
// incarnation is configured with.  A real KafkaConsumer.Setup (no broker needed) runs on the map; the map afterwards is the
// observation.
// input: "sp k=v k=v ..."

import (
	"sort"
	"strings"

	"github.com/digitalocean/firebolt"
	"github.com/digitalocean/firebolt/node/kafkaconsumer"
)

func init() {
	register("setupparams", &component{gen: genSetupParams, exec: execSetupParams})
}

func genSetupParams(r *rng, n int, tier string, emit func(string)) {
	emit("sp brokers=127.0.0.1:1 consumergroup=g topic=t buffersize=10")
	emit("sp brokers=127.0.0.1:1 consumergroup=g topic=t buffersize=10 maxpartitionlag=50 parallelrecoveryenabled=true parallelrecoverymaxrecords=1000 parallelrecoverymaxrate=100 librdkafka.client.id=c1 custom=1")
	emit("sp brokers=127.0.0.1:1 consumergroup=grp topic=t buffersize=1 librdkafka.sasl.username=u librdkafka.sasl.password=s3cr3t zz=leak")
	for i := 0; i < n; i++ {
		parts := []string{"sp", "brokers=127.0.0.1:1", "consumergroup=" + r.pickS("g", "grp-1"), "topic=t", "buffersize=" + r.pickS("10", "1", "500")}
		if r.chance(50) {
			parts = append(parts, "maxpartitionlag="+r.pickS("0", "50", "100000"))
		}
		if r.chance(40) {
			parts = append(parts, "parallelrecoveryenabled="+r.pickS("true", "false", "1"), "parallelrecoverymaxrecords=1000", "parallelrecoverymaxrate=100")
		}
		for _, k := range []string{"librdkafka.client.id", "librdkafka.session.timeout.ms", "librdkafka.sasl.password", "custom", "api_token", "zz"} {
			if r.chance(35) {
				v := r.pickS("v", "s3cr3t", "x1")
				if strings.HasSuffix(k, ".ms") {
					v = "7000"
				}
				parts = append(parts, k+"="+v)
			}
		}
		emit(strings.Join(parts, " "))
	}
}

func execSetupParams(input string) string {
	consumerMetrics() // metrics.Init
	f := strings.Fields(input)
	if len(f) < 2 || f[0] != "sp" {
		return "bad-input"
	}
	params := map[string]string{}
	for _, kv := range f[1:] {
		p := strings.SplitN(kv, "=", 2)
		if len(p) != 2 {
			return "bad-input"
		}
		params[p[0]] = p[1]
	}
	kc := &kafkaconsumer.KafkaConsumer{}
	kc.Init("verif-setup", &recordingContext{})
	ch := make(chan firebolt.Event, 1)
	if err := kc.Setup(params, ch); err != nil {
		return "err " + strings.ReplaceAll(err.Error(), " ", "_")
	}
	kc.VerifDetachMain(newScriptedConsumer())
	if rc := kc.VerifRecoveryConsumer(); rc != nil {
		rc.VerifDetach(newScriptedConsumer(), ch)
	}
	var kvs []string
	for k, v := range params {
		kvs = append(kvs, k+"="+v)
	}
	sort.Strings(kvs)
	return "ok [" + strings.Join(kvs, ",") + "]"
}
