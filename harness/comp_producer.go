package main

// component "producer" (C15): real KafkaProducer / ErrorProducer nodes over a scripted MessageProducer.
// ctxreport <errkind> <a> <b> <c>: the report is built by node.Context.handleFailure for an event with Created beyond year 9999
// input: "cfg <topic|~> ; req <topic|~> <valuehex|-> | other | report <isReport> <serialisable> <errkind> <a> <b> <c> ; ..."
// All ops of a case run on the same pair of nodes; the records are read back only after the last op.

import (
	"bytes"
	"encoding/hex"
	"encoding/json"
	"errors"
	"fmt"
	"math"
	"sort"
	"strconv"
	"strings"
	"time"

	"github.com/confluentinc/confluent-kafka-go/kafka"

	"github.com/digitalocean/firebolt"
	"github.com/digitalocean/firebolt/fbcontext"
	"github.com/digitalocean/firebolt/node"
	"github.com/digitalocean/firebolt/node/kafkaproducer"
)

func init() {
	register("producer", &component{gen: genProducer, exec: execProducer})
}

var safeStrs = []string{"a", "b", "E_CODE", "bad-thing", "x.y", "code:1", "~", "timeout", "ES_INDEX_ERROR", "m1", "hello_world",
	"^0", "^e", "^b", "^v", "^u", "^q"}

// ctlStrs: texts with characters that JSON must escape (written as ^x tokens in the protocol; the Lean driver has the same table)
var ctlStrs = map[string]string{"^0": "a\x00b", "^e": "\x1b[0m", "^b": "x\x07", "^v": "\x0b\x7f", "^u": "\u2028\U000E0001", "^q": "say \"hi\" \\ <&>"}

func untok(s string) string {
	if v, ok := ctlStrs[s]; ok {
		return v
	}
	return untilde(s)
}

func genProducer(r *rng, n int, tier string, emit func(string)) {
	for _, c := range []string{
		"cfg t ; req ~ 0102 ; req other 03 ; req ~ - ; other",
		"cfg ~ ; req ~ 01 ; req o 02 ; other",
		"cfg errs ; report 1 1 plain boom ~ ~ ; report 1 1 fb E_X msg ~ ; report 1 1 fbinfo E_X msg ~ ; report 1 1 wrapped E_X msg ctx ; report 1 1 ptrfb E_X msg ~",
		"cfg errs ; report 1 0 plain boom ~ ~ ; report 1 0 fb E_X msg ~ ; report 0 1 plain x ~ ~",
		"cfg ~ ; report 1 1 plain boom ~ ~",
		"cfg errs ; ctxreport plain boom ~ ~ ; ctxreport fb E_X msg ~ ; report 1 1 plain x ~ ~",
		"cfg t ; req a 01 ; req b 02 ; req ~ 03 ; req c 04",
		"cfg t ; req ~ *1000001 ; req o1 *2500000 ; req ~ 01",
		"cfg t bp ; req a 01 ; req b 02 ; req ~ 03 ; req c 04 ; req ~ 05 ; req ~ 06 ; report 1 1 plain boom ~ ~ ; report 1 1 fb E_X msg ~",
	} {
		emit(c)
	}
	for i := 0; i < n; i++ {
		ops := []string{"cfg " + r.pickS("t", "t", "events", "~") + r.pickS("", "", " bp")}
		for j := r.intn(6) + 1; j > 0; j-- {
			switch x := r.intn(100); {
			case x < 45:
				v := make([]byte, r.intn(5))
				for q := range v {
					v[q] = byte(r.intn(256))
				}
				if r.chance(3) {
					v = bytes.Repeat([]byte{0xab}, 1<<16)
				}
				vs := hx(v)
				if r.chance(2) {
					vs = fmt.Sprintf("*%d", r.pick(1000001, 1500000, 3000000)) // a large payload, written as *<length> (bytes 0xab)
				}
				ops = append(ops, fmt.Sprintf("req %s %s", r.pickS("~", "~", "o1", "o2", "o3", "audit-events", "a.b_c", "T-1"), vs))
			case x < 52:
				ops = append(ops, "other")
			default:
				k := r.pickS("plain", "fb", "fbinfo", "wrapped", "ptrfb")
				if r.chance(8) {
					ops = append(ops, fmt.Sprintf("ctxreport %s %s %s %s", k, safeStrs[r.intn(len(safeStrs))], safeStrs[r.intn(len(safeStrs))], safeStrs[r.intn(len(safeStrs))]))
					continue
				}
				ops = append(ops, fmt.Sprintf("report %s %s %s %s %s %s", b01(r.chance(93)), b01(r.chance(70)), k,
					safeStrs[r.intn(len(safeStrs))], safeStrs[r.intn(len(safeStrs))], safeStrs[r.intn(len(safeStrs))]))
			}
		}
		emit(strings.Join(ops, " ; "))
	}
}

func hexS(s string) string {
	if s == "" {
		return "-"
	}
	return hex.EncodeToString([]byte(s))
}

type unserialisable struct {
	C chan int
}

// failingNode is a sync node that fails every event with the given error
type failingNode struct {
	fbcontext.ContextAware
	err error
}

func (n *failingNode) Setup(map[string]string) error                    { return nil }
func (n *failingNode) Process(*firebolt.Event) (*firebolt.Event, error) { return nil, n.err }
func (n *failingNode) Shutdown() error                                  { return nil }
func (n *failingNode) Receive(fbcontext.Message) error                  { return nil }

func execProducer(input string) string {
	consumerMetrics() // metrics.Init: node contexts count through the process-wide collectors
	segs := strings.Split(input, ";")
	hd := strings.Fields(segs[0])
	if (len(hd) != 2 && !(len(hd) == 3 && hd[2] == "bp")) || hd[0] != "cfg" {
		return "bad-input"
	}
	cfgTopic := untilde(hd[1])
	sp := newScriptedProducer()
	readCh := sp.ch
	var stopDrain, drained chan struct{}
	if len(hd) == 3 {
		// backpressure: the produce channel holds one record and the client takes them out slowly
		sp.ch = make(chan *kafka.Message, 1)
		collected := make(chan *kafka.Message, 4096)
		stopDrain, drained = make(chan struct{}), make(chan struct{})
		go func(in chan *kafka.Message) {
			defer close(drained)
			for {
				select {
				case m := <-in:
					time.Sleep(150 * time.Microsecond)
					collected <- m
				case <-stopDrain:
					for {
						select {
						case m := <-in:
							collected <- m
						default:
							return
						}
					}
				}
			}
		}(sp.ch)
		readCh = collected
	}
	kp := kafkaproducer.VerifNewKafkaProducer(sp, cfgTopic)
	ep := kafkaproducer.VerifNewErrorProducer(sp, cfgTopic)
	type pending struct {
		kind     string // produce | report
		ok       bool
		childRes bool
		evJSON   []byte // expected JSON of the failed event, nil if unserialisable
	}
	var ps []pending
	for i, seg := range segs[1:] {
		f := strings.Fields(seg)
		if len(f) == 0 {
			continue
		}
		switch f[0] {
		case "req":
			val := unhx(f[2])
			if strings.HasPrefix(f[2], "*") {
				n, _ := strconv.Atoi(f[2][1:])
				val = bytes.Repeat([]byte{0xab}, n)
			}
			ev := &firebolt.Event{Payload: &firebolt.SimpleProduceRequest{TargetTopic: untilde(f[1]), MessageBytes: val}, Created: time.Now()}
			res, err := kp.Process(ev)
			ps = append(ps, pending{kind: "produce", ok: err == nil, childRes: res != nil})
		case "other":
			res, err := kp.Process(&firebolt.Event{Payload: "not a request", Created: time.Now()})
			ps = append(ps, pending{kind: "produce", ok: err == nil, childRes: res != nil})
		case "report", "ctxreport":
			viaCtx := f[0] == "ctxreport"
			if viaCtx {
				if len(f) != 5 {
					return "bad-input"
				}
				f = []string{"report", "1", "0", f[1], f[2], f[3], f[4]}
			}
			if len(f) != 7 {
				return "bad-input"
			}
			a, b, c := untok(f[4]), untok(f[5]), untok(f[6])
			var e error
			switch f[3] {
			case "plain":
				e = errors.New(a)
			case "fb":
				e = firebolt.NewFBError(a, b)
			case "fbinfo":
				e = firebolt.NewFBError(a, b, firebolt.WithInfo(map[string]interface{}{"k": i, "why": c}))
			case "wrapped":
				e = fmt.Errorf("%s: %w", c, firebolt.NewFBError(a, b))
			case "ptrfb":
				fe := firebolt.NewFBError(a, b)
				e = &fe
			default:
				return "bad-input"
			}
			var payload interface{}
			if f[2] == "1" {
				switch i % 5 {
				case 0:
					payload = "text " + a
				case 1:
					payload = []byte{1, 2, byte(i)}
				case 2:
					payload = map[string]interface{}{"n": i, "s": b}
				case 3:
					payload = nil
				default:
					payload = struct {
						A int
						B string
					}{i, c}
				}
			} else {
				switch i % 4 {
				case 0:
					payload = make(chan int)
				case 1:
					payload = func() {}
				case 2:
					payload = math.NaN()
				default:
					payload = unserialisable{C: make(chan int)}
				}
			}
			failed := &firebolt.Event{Payload: payload, Created: time.Unix(1700000000, 0).UTC()}
			var evPayload interface{} = "not an error report"
			if f[1] == "1" {
				evPayload = firebolt.EventError{Timestamp: failed.Created, Event: failed, Err: e}
			}
			if viaCtx {
				// the report as the executor builds it: a node fails an event whose Created lies far outside what JSON can carry
				// (a source that read a timestamp in the wrong unit); its error handler's context receives the report
				failed = &firebolt.Event{Payload: "text " + a, Created: time.Date(20000+i, 1, 1, 0, 0, 0, 0, time.UTC)}
				hctx := &node.Context{Config: &node.Config{ID: "vrep-handler", BufferSize: 4}, Ch: make(chan firebolt.Event, 4)}
				nctx := &node.Context{Config: &node.Config{ID: "vrep-node", Workers: 1, BufferSize: 1}, NodeType: node.Sync,
					NodeProcessor: &failingNode{err: e}, ErrorHandler: hctx}
				nctx.ProcessEvent(failed)
				select {
				case rep := <-hctx.Ch:
					evPayload = rep.Payload
				default:
					evPayload = "no report reached the handler"
				}
			}
			res, err := ep.Process(&firebolt.Event{Payload: evPayload, Created: time.Now()})
			var evJSON []byte
			if f[2] == "1" {
				evJSON, _ = json.Marshal(failed)
			}
			ps = append(ps, pending{kind: "report", ok: err == nil, childRes: res != nil, evJSON: evJSON})
		default:
			return "bad-input"
		}
	}
	if stopDrain != nil {
		close(stopDrain)
		<-drained
	}
	// read the records back, in order
	var outs []string
	for _, p := range ps {
		if !p.ok {
			outs = append(outs, "err")
			continue
		}
		var km *kafka.Message
		select {
		case km = <-readCh:
		default:
			outs = append(outs, "ok norecord")
			continue
		}
		topic := "~"
		if km.TopicPartition.Topic != nil {
			topic = tilde(*km.TopicPartition.Topic)
		}
		children := "none"
		if p.childRes {
			children = "event"
		}
		if p.kind == "produce" {
			vs := hx(km.Value)
			if len(km.Value) > 1000000 && bytes.Equal(km.Value, bytes.Repeat([]byte{0xab}, len(km.Value))) {
				vs = fmt.Sprintf("*%d", len(km.Value))
			}
			outs = append(outs, fmt.Sprintf("ok t=%s v=%s children=%s", topic, vs, children))
			continue
		}
		var top map[string]json.RawMessage
		if err := json.Unmarshal(km.Value, &top); err != nil {
			outs = append(outs, fmt.Sprintf("ok t=%s invalid-json children=%s", topic, children))
			continue
		}
		var keys []string
		for k := range top {
			keys = append(keys, k)
		}
		sort.Strings(keys)
		var eo map[string]json.RawMessage
		_ = json.Unmarshal(top["error"], &eo)
		var ekeys []string
		for k := range eo {
			ekeys = append(ekeys, k)
		}
		sort.Strings(ekeys)
		var code, msg string
		_ = json.Unmarshal(eo["code"], &code)
		_ = json.Unmarshal(eo["message"], &msg)
		event := "replaced"
		if p.evJSON != nil && bytes.Equal(bytes.TrimSpace(top["event"]), p.evJSON) {
			event = "same"
		} else if p.evJSON != nil {
			event = "changed"
		}
		outs = append(outs, fmt.Sprintf("ok t=%s keys=%s ekeys=%s code=%s msg=%s event=%s children=%s", topic, strings.Join(keys, ","), strings.Join(ekeys, ","), hexS(code), hexS(msg), event, children))
	}
	select {
	case <-readCh:
		outs = append(outs, "extra-record")
	default:
	}
	return strings.Join(outs, " ; ")
}
