package main

// component "offsets" (C06): KafkaConsumer.assignPartitions over a scripted client.
// input: "maxLag recEn maxRec cerr aerr ; p committed|a low high werr ; ... [; @ <history>]"
// history (what the same consumer went through before the judged call; the property holds "whenever partitions are
// assigned", so the model ignores it): w = an attempt whose watermark query failed, c = an attempt whose Committed query
// failed, a = an attempt whose Assign failed, o = a successful assignment; a trailing r = followed by a revocation.
// Earlier attempts see other committed offsets and watermarks and skip nothing (so they file no request).
// g: a snapshot of another instance's request for the upper part of the range the judged call skips is already tracked
// retry / xretry: the judged assignment arrives as a rebalance event; its first attempt cannot read the committed offsets,
// so the source has to retry (3 s later) — with xretry after a revocation during which Unassign failed.

import (
	"errors"
	"fmt"
	"math"
	"sort"
	"strconv"
	"strings"
	"sync"
	"time"

	"github.com/confluentinc/confluent-kafka-go/kafka"

	"github.com/digitalocean/firebolt"
	"github.com/digitalocean/firebolt/metrics"
	"github.com/digitalocean/firebolt/node/kafkaconsumer"
)

var metricsOnce sync.Once
var sharedConsumerMetrics *kafkaconsumer.Metrics

func consumerMetrics() *kafkaconsumer.Metrics {
	metricsOnce.Do(func() {
		metrics.Init("verif")
		sharedConsumerMetrics = kafkaconsumer.VerifNewMetrics()
	})
	return sharedConsumerMetrics
}

func init() {
	register("offsets", &component{gen: genOffsets, exec: execOffsets})
}

func b01(b bool) string {
	if b {
		return "1"
	}
	return "0"
}

func genOffsets(r *rng, n int, tier string, emit func(string)) {
	// directed prefix: every model branch that matters, independent of luck
	for _, c := range []string{
		"5 1 100 0 0 ; 0 10 0 15 0",                                     // lag == max: normal
		"5 1 100 0 0 ; 0 10 0 16 0",                                     // lag == max+1: capped, request [10,11)
		"5 1 1000 0 0 ; 0 10 0 60 0 ; 1 20 0 90 0 ; 2 0 0 40 0",         // three partitions (the committed reply may come in any order)
		"5 1 4611686018427387904 0 0 ; 0 10 0 60 0 ; 1 20 0 90 0 ; @ g", // a foreign request for the upper half of the skipped range is already tracked
		"5 1 3 0 0 ; 0 10 0 30 0",                                       // trimmed request
		"5 0 100 0 0 ; 0 10 0 30 0",                                     // recovery disabled
		"5 1 100 0 0 ; 0 a 0 30 0 ; 1 -1001 0 30 0",                     // absent / invalid
		"5 1 100 1 0 ; 0 10 0 30 0",                                     // committed query fails
		"5 1 100 0 0 ; 0 10 0 30 0 ; 1 10 0 30 1",                       // watermark query fails on second partition
		"5 1 100 0 1 ; 0 10 0 30 0",                                     // assign fails
		"0 1 100 0 0 ; 0 30 0 30 0 ; 1 29 0 30 0",                       // maxLag 0
		"9223372036854775807 1 100 0 0 ; 0 0 0 4611686018427387904 0",   // default maxLag
		"5 1 1 0 0 ; 0 4611686018427387900 0 4611686018427387904 0",
		"5 1 100 0 0 ;", // no partitions
		"5 1 9223372036854775807 0 0 ; 0 10 0 4611686018427387904 0", // unlimited maxrecords
		"5 1 9223372036854775800 0 0 ; 0 0 0 100 0 ; 1 50 0 100 0",
		"5 1 100 0 0 ; 0 10 0 30 0 ; 1 4 0 5 0 ; @ retry", // the first attempt of the rebalance cannot read the committed offsets
		"5 1 100 0 0 ; 2 10 0 30 0 ; @ xretry",            // … after a revocation during which Unassign failed
	} {
		emit(c)
	}
	for i := 0; i < n; i++ {
		maxLag := r.pick(0, 1, 5, 5, 100, 1000, math.MaxInt64, math.MaxInt64-1, 1<<62)
		if r.chance(10) {
			maxLag = r.rangeI(0, 50)
		}
		maxRec := r.pick(1, 2, 3, 10, 1000, math.MaxInt32, math.MaxInt64, math.MaxInt64-1, 1<<62, (1<<62)+1)
		recEn := r.chance(75)
		cerr := r.chance(4)
		aerr := r.chance(4)
		np := r.intn(6) + 1
		if r.chance(3) {
			np = 0
		}
		perm := []int{0, 1, 2, 3, 4, 5, 6, 7}
		for j := len(perm) - 1; j > 0; j-- {
			k := r.intn(j + 1)
			perm[j], perm[k] = perm[k], perm[j]
		}
		parts := []string{fmt.Sprintf("%d %s %d %s %s", maxLag, b01(recEn), maxRec, b01(cerr), b01(aerr))}
		anyWerr := false
		for j := 0; j < np; j++ {
			high := r.pick(0, 1, 10, 100, 5000, 1<<40, 1<<62, (1<<62)-3)
			if r.chance(50) {
				high = r.rangeI(0, 200)
			}
			var committed string
			lagBase := maxLag
			if lagBase > high {
				lagBase = r.rangeI(0, high)
			}
			switch x := r.intn(100); {
			case x < 8:
				committed = "a"
			case x < 14:
				committed = "-1001"
			case x < 17 && tier == "thorough":
				committed = r.pickS("-1", "-2", "-1000", "-5") // other sentinels: correspondence only
			case x < 70:
				// boundary: lag = maxLag + d
				d := r.rangeI(-2, 2)
				c := high - lagBase - d
				// second boundary: skipped = maxRec + e
				if r.chance(40) {
					c = high - lagBase - maxRec - r.rangeI(-1, 1)
				}
				if c < 0 {
					c = 0
				}
				if c > 1<<62 {
					c = 1 << 62
				}
				committed = strconv.FormatInt(c, 10)
			default:
				committed = strconv.FormatInt(r.rangeI(0, high+3), 10)
			}
			low := r.rangeI(0, 5)
			werr := r.chance(4)
			anyWerr = anyWerr || werr
			parts = append(parts, fmt.Sprintf("%d %s %d %d %s", perm[j], committed, low, high, b01(werr)))
		}
		if r.chance(30) && np > 0 {
			h := r.pickS("w", "wr", "wr", "c", "cr", "ar", "or", "or", "o")
			if maxRec >= 1<<62 && !cerr && !anyWerr && r.chance(40) { // (a judged call that stops early files less than the earlier one)
				h = r.pickS("f", "fr", "g")
			}
			parts = append(parts, "@ "+h)
		}
		emit(strings.Join(parts, " ; "))
	}
}

func execOffsets(input string) string {
	segs := strings.Split(input, ";")
	hd := strings.Fields(segs[0])
	if len(hd) != 5 {
		return "bad-input"
	}
	maxLag, _ := strconv.ParseInt(hd[0], 10, 64)
	recEn := hd[1] == "1"
	maxRec, _ := strconv.ParseInt(hd[2], 10, 64)
	sc := newScriptedConsumer()
	sc.committedErr = hd[3] == "1"
	sc.assignErr = hd[4] == "1"
	sc.committedRev = len(input)%3 == 1
	topic := "t"
	var tps []kafka.TopicPartition
	history := ""
	for _, seg := range segs[1:] {
		f := strings.Fields(seg)
		if len(f) == 0 {
			continue
		}
		if f[0] == "@" {
			if len(f) > 1 {
				history = f[1]
			}
			continue
		}
		if len(f) != 5 {
			return "bad-input"
		}
		p64, _ := strconv.ParseInt(f[0], 10, 32)
		p := int32(p64)
		if f[1] != "a" {
			c, _ := strconv.ParseInt(f[1], 10, 64)
			sc.committed[p] = c
		}
		sc.low[p], _ = strconv.ParseInt(f[2], 10, 64)
		sc.high[p], _ = strconv.ParseInt(f[3], 10, 64)
		sc.wmErr[p] = f[4] == "1"
		tps = append(tps, kafka.TopicPartition{Topic: &topic, Partition: p})
	}
	m := consumerMetrics()
	ctx := &recordingContext{}
	sendCh := make(chan firebolt.Event, 16)
	var rc *kafkaconsumer.RecoveryConsumer
	rcClient := newScriptedConsumer()
	if recEn {
		rc = kafkaconsumer.VerifNewRecoveryConsumer(rcClient, topic, sendCh, int(maxRec), 1000, m, ctx, true)
	}
	if rc != nil {
		// sentinel ownership, so that "ownership not updated" is observable
		rc.SetAssignedPartitions([]kafka.TopicPartition{{Topic: &topic, Partition: 999}})
	}
	// the lag limit reaches the source the way Setup gets it: checkConfig (which defaults an absent key), then Atoi
	cfgm := map[string]string{"brokers": "b", "consumergroup": "g", "topic": "t", "buffersize": "1"}
	if !(maxLag == math.MaxInt64 && len(input)%2 == 0) {
		cfgm["maxpartitionlag"] = strconv.FormatInt(maxLag, 10)
	}
	if maxLag >= 0 {
		probe := kafkaconsumer.VerifNewKafkaConsumer(newScriptedConsumer(), topic, sendCh, 0, m, nil, ctx)
		if err := probe.VerifCheckConfig(cfgm); err != nil {
			return "config-rejected " + err.Error()
		}
		if eff, err := strconv.Atoi(cfgm["maxpartitionlag"]); err == nil {
			maxLag = int64(eff)
		}
	}
	kc := kafkaconsumer.VerifNewKafkaConsumer(sc, topic, sendCh, int(maxLag), m, rc, ctx)
	if history != "" && history != "g" && !strings.HasSuffix(history, "retry") && len(tps) > 0 {
		// an earlier attempt on the same consumer, against a client in another state; it skips nothing
		saved := *sc
		sc.committed, sc.low, sc.high, sc.wmErr = map[int32]int64{}, map[int32]int64{}, map[int32]int64{}, map[int32]bool{}
		sc.committedErr, sc.assignErr = false, false
		for i, tp := range tps {
			sc.committed[tp.Partition] = int64(7 + 3*i)
			sc.high[tp.Partition] = int64(7 + 3*i)
			sc.low[tp.Partition] = 0
		}
		if history[0] == 'f' {
			// an earlier assignment that filed requests itself: same committed offsets, lower high watermarks, so whatever it
			// filed is covered by what the judged call must file (only when nothing is trimmed)
			for _, tp := range tps {
				delete(sc.committed, tp.Partition)
				if c, ok := saved.committed[tp.Partition]; ok {
					sc.committed[tp.Partition] = c
				}
				stored := saved.committed[tp.Partition]
				if stored < 0 {
					stored = 0
				}
				sc.high[tp.Partition] = stored + (saved.high[tp.Partition]-stored)/2
			}
		}
		switch history[0] {
		case 'w':
			sc.wmErr[tps[0].Partition] = true
		case 'c':
			sc.committedErr = true
		case 'a':
			sc.assignErr = true
		}
		_ = kc.VerifAssignPartitions(tps)
		if strings.HasSuffix(history, "r") {
			kc.VerifRevoke()
		}
		sc.committed, sc.low, sc.high, sc.wmErr = saved.committed, saved.low, saved.high, saved.wmErr
		sc.committedErr, sc.assignErr = saved.committedErr, saved.assignErr
		sc.calls, sc.assigned, sc.lastAssign = nil, false, nil
		ctx.sent = nil
		if rc != nil {
			rc.SetAssignedPartitions([]kafka.TopicPartition{{Topic: &topic, Partition: 999}})
		}
	}
	if history == "g" && rc != nil {
		// another instance has been working on part of what the judged call is about to skip: its request (later from, same to)
		// arrived as a snapshot; the judged call's request must widen it down to the committed offset
		for _, tp := range tps {
			c, ok := sc.committed[tp.Partition]
			high := sc.high[tp.Partition]
			if !ok || c < 0 || maxLag < 0 || maxLag > high || high-c <= maxLag {
				continue
			}
			to := high - maxLag
			from := c + (to-c)/2 + 1
			if from < to {
				rc.VerifTracker().VerifReceive(strconv.Itoa(int(tp.Partition)), encodeReqs(tp.Partition, fmt.Sprintf("%d:%d", from, to)))
			}
		}
	}
	var err error
	if strings.HasSuffix(history, "retry") && len(tps) > 0 {
		if history == "xretry" {
			sc.unassignErr = true
			kc.VerifRevoke()
			sc.unassignErr = false
			sc.mu.Lock()
			sc.calls, sc.assigned, sc.lastAssign = nil, false, nil
			sc.mu.Unlock()
			if rc != nil {
				rc.SetAssignedPartitions([]kafka.TopicPartition{{Topic: &topic, Partition: 999}})
			}
		}
		sc.mu.Lock()
		sc.committedErrOnce = true
		sc.mu.Unlock()
		kc.VerifProcessEvent(kafka.AssignedPartitions{Partitions: tps})
		err = errors.New("not assigned")
		for t0 := time.Now(); time.Since(t0) < 4500*time.Millisecond; time.Sleep(5 * time.Millisecond) {
			sc.mu.Lock()
			done := sc.assigned
			sc.mu.Unlock()
			if done {
				err = nil
				time.Sleep(20 * time.Millisecond) // let the retry loop finish telling the recovery consumer
				break
			}
		}
	} else {
		err = kc.VerifAssignPartitions(tps)
	}
	res := "ok"
	if err != nil {
		res = "err"
	}
	ac := false
	assign := "[]"
	for _, c := range sc.calls {
		if strings.HasPrefix(c, "assign") {
			ac = true
		}
	}
	if sc.assigned {
		assign = fmtTPs(sc.lastAssign, false)
	}
	owned := "none"
	tr := "-"
	if rc != nil {
		if a := rc.VerifAssigned(); !(len(a) == 1 && a[0].Partition == 999) {
			owned = fmtTPs(a, false)
		}
		tr = trackerState(rc.VerifTracker())
	}
	return fmt.Sprintf("%s ac=%s assign=%s owned=%s tr=%s msgs=%d", res, b01(ac), assign, owned, tr, len(ctx.sent))
}

func trackerState(rt *kafkaconsumer.RecoveryTracker) string {
	ps := rt.VerifPartitions()
	sort.Slice(ps, func(i, j int) bool { return ps[i] < ps[j] })
	var parts []string
	for _, p := range ps {
		rs, _ := rt.VerifSnapshot(p)
		parts = append(parts, fmt.Sprintf("%d=%s", p, fmtReqs(rs)))
	}
	if len(parts) == 0 {
		return "-"
	}
	return strings.Join(parts, "|")
}

func fmtReqs(rs []kafkaconsumer.RecoveryRequest) string {
	var parts []string
	for _, r := range rs {
		parts = append(parts, fmt.Sprintf("%d:%d", r.FromOffset, r.ToOffset))
	}
	return "[" + strings.Join(parts, ",") + "]"
}
