package main

// Harness-owned source and node types for driving the real executor (C01-C05, C11, C16-C18).
// Behaviour of every node is looked up by node id in the global scenario table, which a component fills in
// before calling executor.New. All observations are stamped with one global atomic sequence counter.

import (
	"context"
	"errors"
	"fmt"
	"os"
	"reflect"
	"sort"
	"strings"
	"sync"
	"sync/atomic"
	"time"

	"github.com/digitalocean/firebolt"
	"github.com/digitalocean/firebolt/fbcontext"
	"github.com/digitalocean/firebolt/node"
)

var seqCounter int64

func nextSeq() int64 { return atomic.AddInt64(&seqCounter, 1) }

// fnv1a over seed, node index and payload: the outcome oracle shared with the Lean model (Model/Flow.lean).
func oracleHash(seed uint32, idx int, payload string) uint32 {
	h := uint32(2166136261)
	mix := func(b byte) { h ^= uint32(b); h *= 16777619 }
	for i := 0; i < 4; i++ {
		mix(byte(seed >> (8 * i)))
	}
	mix(byte(idx))
	mix(byte(idx >> 8))
	for i := 0; i < len(payload); i++ {
		mix(payload[i])
	}
	return h
}

type nodeSpec struct {
	idx        int
	id         string
	kind       string // sync | fanout | async
	seed       uint32
	wPass      int // weights in percent: pass, transform, filter, error; the rest is fanout (fanout nodes) or pass
	wTrans     int
	wFilter    int
	wError     int
	maxFan     int
	latency    time.Duration
	gate       chan struct{} // Process blocks on it while non-nil and open
	gateFn     func()        // if set, Process blocks inside this call instead (e.g. inside a message send)
	shutBlocks bool          // Shutdown cannot return while the gate is closed (it needs what the wedged processing call holds)
	// async behaviour: 0 answer inline, 1 answer from another goroutine after latency, 2 keep a backlog and flush it in Shutdown
	asyncMode   int
	self        *vnode        // the node instance this scenario is bound to
	setupParams string        // the parameters Setup was called with (sorted k=v list)
	shutDelay   time.Duration // how long Shutdown takes before it flushes and returns
	structErr   bool          // return FBError instead of a plain error
	isHandler   bool
	subs        []string
	failRecv    bool

	mu                sync.Mutex
	recv              []string
	outcomes          map[string]int // pass/filter/error counts as decided by the oracle
	setupCount        int
	shutCount         int
	setupSeq          int64
	firstEnter        int64
	lastEnter         int64
	lastExit          int64
	shutEnter         int64
	shutExit          int64
	cur               int32
	hw                int32
	receipts          []string // message receipts "type:key:payload"
	returned          map[string]error
	eventPtr          map[string]*firebolt.Event
	handlerBad        []string
	backlog           []func()
	pending           sync.WaitGroup
	lateAfterShutdown int
}

var scenarioMu sync.Mutex
var scenario = map[string]*nodeSpec{}

func setScenario(specs []*nodeSpec) {
	scenarioMu.Lock()
	defer scenarioMu.Unlock()
	for _, s := range specs {
		s.outcomes = map[string]int{}
		s.returned = map[string]error{}
		s.eventPtr = map[string]*firebolt.Event{}
		scenario[s.id] = s
	}
}

func clearScenario(specs []*nodeSpec) {
	scenarioMu.Lock()
	defer scenarioMu.Unlock()
	for _, s := range specs {
		delete(scenario, s.id)
	}
}

func lookupSpec(id string) *nodeSpec {
	scenarioMu.Lock()
	defer scenarioMu.Unlock()
	return scenario[id]
}

type outcome struct {
	kind    string // pass | filter | error
	results []string
}

// decide is the deterministic outcome oracle: what this node does with this payload.
func (s *nodeSpec) decide(payload string) outcome {
	if payload == "nil" {
		return outcome{"pass", []string{payload}} // an event whose payload is nil is passed on as it is
	}
	h := oracleHash(s.seed, s.idx, payload)
	x := int(h % 100)
	switch {
	case x < s.wPass:
		return outcome{"pass", []string{payload}}
	case x < s.wPass+s.wTrans:
		if (h/100)%7 == 0 {
			return outcome{"pass", []string{"nil"}} // the transformed event carries no payload at all
		}
		return outcome{"pass", []string{fmt.Sprintf("%st%d", payload, s.idx)}}
	case x < s.wPass+s.wTrans+s.wFilter:
		return outcome{"filter", nil}
	case x < s.wPass+s.wTrans+s.wFilter+s.wError:
		return outcome{"error", nil}
	}
	if s.kind == "fanout" {
		k := int((h / 100) % uint32(s.maxFan+1))
		var rs []string
		for i := 0; i < k; i++ {
			rs = append(rs, fmt.Sprintf("%sf%d_%d", payload, s.idx, i))
		}
		if k == 0 {
			return outcome{"filter", nil}
		}
		return outcome{"pass", rs}
	}
	return outcome{"pass", []string{payload}}
}

type vnode struct {
	fbcontext.ContextAware
	spec      *nodeSpec
	bound     *nodeSpec // scenario bound at construction (instantiation order) instead of by id: ids may repeat then
	earlySubs bool      // subscribed in the factory, before Init
}

// scenarios handed out in instantiation order (the route component, where several nodes may carry the same id)
var factorySpecs []*nodeSpec

func popFactorySpec() *nodeSpec {
	factorySubsMu.Lock()
	defer factorySubsMu.Unlock()
	if len(factorySpecs) == 0 {
		return nil
	}
	x := factorySpecs[0]
	factorySpecs = factorySpecs[1:]
	return x
}

// nodes that subscribe when they are constructed (in the registry factory, before the executor calls Init): the route
// component queues their subscriptions in instantiation order (preorder of the tree)
var factorySubs [][]string
var factorySubsMu sync.Mutex

func popFactorySubs() ([]string, bool) {
	factorySubsMu.Lock()
	defer factorySubsMu.Unlock()
	if len(factorySubs) == 0 {
		return nil, false
	}
	x := factorySubs[0]
	factorySubs = factorySubs[1:]
	return x, x != nil
}

func newVsync() node.Node {
	v := &vsync{}
	v.bound = popFactorySpec()
	if subs, ok := popFactorySubs(); ok {
		v.Subscribe(subs)
		v.earlySubs = true
	}
	return v
}

var errSharedRecv = errors.New("recv-fail-shared")

func (v *vnode) Setup(config map[string]string) error {
	v.spec = v.bound
	if v.spec == nil {
		v.spec = lookupSpec(v.ID)
	}
	if v.spec == nil {
		return fmt.Errorf("no scenario for node %s", v.ID)
	}
	v.spec.mu.Lock()
	v.spec.self = v
	var pks []string
	for k, val := range config {
		pks = append(pks, k+"="+val)
	}
	sort.Strings(pks)
	v.spec.setupParams = strings.Join(pks, ",")
	v.spec.setupCount++
	v.spec.setupSeq = nextSeq()
	v.spec.mu.Unlock()
	if !v.earlySubs {
		v.Subscribe(v.spec.subs)
	}
	return nil
}

func (v *vnode) Shutdown() error {
	s := v.spec
	s.mu.Lock()
	s.shutCount++
	s.shutEnter = nextSeq()
	delay := s.shutDelay
	s.mu.Unlock()
	if delay > 0 {
		// a Shutdown that takes its time (a bulk flush, a producer draining its queue) before it hands back what it still holds
		time.Sleep(delay)
	}
	s.mu.Lock()
	backlog := s.backlog
	s.backlog = nil
	s.mu.Unlock()
	for _, f := range backlog {
		f()
	}
	if s.shutBlocks && s.gate != nil {
		<-s.gate
	}
	s.pending.Wait() // a well-behaved async node answers every event before Shutdown returns
	s.mu.Lock()
	s.shutExit = nextSeq()
	s.mu.Unlock()
	if (s.seed+uint32(s.idx)*7)%5 == 0 {
		// some nodes' Shutdown hooks fail; the framework logs that and the cascade goes on regardless
		return errors.New("scripted shutdown failure")
	}
	return nil
}

func (v *vnode) Receive(msg fbcontext.Message) error {
	s := v.spec
	s.mu.Lock()
	s.receipts = append(s.receipts, fmt.Sprintf("%s:%s:%s", msg.MessageType, msg.Key, hx(msg.Payload)))
	s.mu.Unlock()
	if s.failRecv {
		if s.idx%3 == 2 {
			return errSharedRecv // several recipients fail with the very same error
		}
		return fmt.Errorf("recv-fail-%d", s.idx)
	}
	return nil
}

// enter/exit bookkeeping shared by the three kinds; returns the payload string and the oracle's decision.
func (v *vnode) enter(event *firebolt.Event) (string, outcome) {
	s := v.spec
	c := atomic.AddInt32(&s.cur, 1)
	payload := payloadString(event, s)
	seq := nextSeq()
	s.mu.Lock()
	if c > s.hw {
		s.hw = c
	}
	if s.firstEnter == 0 {
		s.firstEnter = seq
	}
	s.lastEnter = seq
	s.recv = append(s.recv, payload)
	s.eventPtr[payload] = event
	gate := s.gate
	gateFn := s.gateFn
	s.mu.Unlock()
	if gateFn != nil {
		gateFn()
	} else if gate != nil {
		<-gate
	}
	if s.latency > 0 {
		time.Sleep(s.latency)
	}
	o := s.decide(payload)
	s.mu.Lock()
	s.outcomes[o.kind]++
	s.mu.Unlock()
	return payload, o
}

func (v *vnode) exit() {
	s := v.spec
	seq := nextSeq()
	s.mu.Lock()
	s.lastExit = seq
	s.mu.Unlock()
	atomic.AddInt32(&s.cur, -1)
}

// wrappedErr is a custom error type with Unwrap around a structured error
type wrappedErr struct {
	msg   string
	inner error
}

func (w *wrappedErr) Error() string { return w.msg }
func (w *wrappedErr) Unwrap() error { return w.inner }

func (s *nodeSpec) makeErr(payload string) error {
	var err error
	h := 0
	for _, b := range []byte(payload) {
		h = h*31 + int(b)
	}
	switch {
	case s.structErr && h%3 == 0:
		// an error that wraps a structured one: the report must carry the wrapper the node returned, not what is inside
		err = fmt.Errorf("e%d:%s: %w", s.idx, payload, firebolt.NewFBError("E_INNER", "inner"))
	case s.structErr && h%3 == 1:
		err = &wrappedErr{msg: fmt.Sprintf("e%d:%s", s.idx, payload), inner: firebolt.NewFBError("E_INNER", "inner")}
	case s.structErr:
		err = firebolt.NewFBError("E_VERIF", fmt.Sprintf("e%d:%s", s.idx, payload))
	default:
		err = errors.New(fmt.Sprintf("e%d:%s", s.idx, payload))
	}
	s.mu.Lock()
	s.returned[payload] = err
	s.mu.Unlock()
	return err
}

// payloadString: plain events carry a string; error handlers receive an EventError and record "E(<payload>)" after
// checking that it carries the original event and the very error the failing node returned.
// resultPayload: the result string "nil" stands for an event without a payload
func resultPayload(r string) interface{} {
	if r == "nil" {
		return nil
	}
	return r
}

func payloadString(event *firebolt.Event, s *nodeSpec) string {
	switch p := event.Payload.(type) {
	case nil:
		return "nil"
	case string:
		return p
	case firebolt.EventError:
		orig, ok := p.Event.(*firebolt.Event)
		if !ok {
			s.mu.Lock()
			s.handlerBad = append(s.handlerBad, "event-not-original")
			s.mu.Unlock()
			return "E(?)"
		}
		ps, _ := orig.Payload.(string)
		// which node failed? the error text starts with e<idx>:
		bad := ""
		failing := findReturned(ps, p.Err)
		if failing == nil {
			bad = "error-not-the-returned-one"
		} else if failing.eventPtrOf(ps) != orig {
			bad = "event-not-the-one-handed-to-the-node"
		}
		if bad != "" {
			s.mu.Lock()
			s.handlerBad = append(s.handlerBad, bad)
			s.mu.Unlock()
		}
		return "E(" + ps + ")"
	}
	return fmt.Sprintf("?%v", event.Payload)
}

func (s *nodeSpec) eventPtrOf(payload string) *firebolt.Event {
	s.mu.Lock()
	defer s.mu.Unlock()
	return s.eventPtr[payload]
}

func findReturned(payload string, err error) *nodeSpec {
	scenarioMu.Lock()
	specs := make([]*nodeSpec, 0, len(scenario))
	for _, s := range scenario {
		specs = append(specs, s)
	}
	scenarioMu.Unlock()
	for _, s := range specs {
		s.mu.Lock()
		e, ok := s.returned[payload]
		s.mu.Unlock()
		if ok && e == err {
			return s
		}
	}
	return nil
}

type vsync struct{ vnode }

func (v *vsync) Process(event *firebolt.Event) (*firebolt.Event, error) {
	payload, o := v.enter(event)
	defer v.exit()
	switch o.kind {
	case "filter":
		return nil, nil
	case "error":
		if oracleHash(v.spec.seed+7, v.spec.idx, payload)%2 == 0 {
			// a failure may come with a (partial) result; it is a failure all the same
			return event.WithPayload(payload + "!partial"), v.spec.makeErr(payload)
		}
		return nil, v.spec.makeErr(payload)
	}
	if o.results[0] == payload {
		return event, nil // pass the very same event on
	}
	return event.WithPayload(resultPayload(o.results[0])), nil
}

type vfanout struct{ vnode }

func (v *vfanout) Process(event *firebolt.Event) ([]firebolt.Event, error) {
	payload, o := v.enter(event)
	defer v.exit()
	switch o.kind {
	case "filter":
		if oracleHash(v.spec.seed, v.spec.idx, payload)%2 == 0 {
			return nil, nil
		}
		return []firebolt.Event{}, nil
	case "error":
		if oracleHash(v.spec.seed+7, v.spec.idx, payload)%2 == 0 {
			return []firebolt.Event{*event.WithPayload(payload + "!partial0"), *event.WithPayload(payload + "!partial1")}, v.spec.makeErr(payload)
		}
		return nil, v.spec.makeErr(payload)
	}
	var out []firebolt.Event
	for _, r := range o.results {
		out = append(out, *event.WithPayload(resultPayload(r)))
	}
	return out, nil
}

type vasync struct{ vnode }

func (v *vasync) ProcessAsync(event *firebolt.AsyncEvent) {
	s := v.spec
	payload, o := v.enter(event.Event)
	answer := func() {
		switch o.kind {
		case "filter":
			if oracleHash(s.seed, s.idx, payload)%2 == 0 {
				event.ReturnFiltered()
			} else {
				event.ReturnEvent(nil)
			}
		case "error":
			event.ReturnError(s.makeErr(payload))
		default:
			if o.results[0] == payload {
				event.ReturnEvent(event) // like the elasticsearch node: hand back the very same event
			} else {
				event.ReturnEvent(event.WithPayload(resultPayload(o.results[0])))
			}
		}
		s.pending.Done()
	}
	s.pending.Add(1)
	mode := s.asyncMode
	if mode == 3 { // mixed, decided per event
		mode = int(oracleHash(s.seed+1, s.idx, payload) % 3)
	}
	switch mode {
	case 0:
		answer()
	case 1:
		d := time.Duration(oracleHash(s.seed+2, s.idx, payload)%300) * time.Microsecond
		go func() { time.Sleep(d); answer() }()
	default:
		s.mu.Lock()
		if s.shutEnter != 0 {
			s.lateAfterShutdown++
		}
		s.backlog = append(s.backlog, answer)
		s.mu.Unlock()
	}
	v.exit()
}

// ---------------------------------------------------------------------------------------------- source

type sourceScript struct {
	mu              sync.Mutex
	events          []string // payloads still to emit
	failAfter       []int    // per incarnation: emit this many events then return an error (-1 = run to the end and return nil)
	incarnation     int
	setupFails      bool
	setupFailAt     int                   // incarnation whose Setup returns an error (0 = none)
	runFor          map[int]time.Duration // per incarnation: how long it runs before it fails
	failTimes       []time.Time
	startTimes      []time.Time
	subs            []string
	failRecv        bool
	log             []string // factory / init / setup / start / shutdown calls
	receipts        []string
	stopAt          int // call executor.Shutdown (through stopFn) after this many emitted events in total (-1 never)
	emitted         int
	stopFn          func()
	hookAt          int      // hookFn is called when this many events have been emitted
	hookFn          func()   // something else the application does in the same process meanwhile
	outCh           []string // identity of the output channel seen by each incarnation
	params          []string
	lastStartReturn int64
	startSeqs       []int64
	blockedEmits    int
	setupDelay      map[int]time.Duration // per incarnation: how long Setup takes
	cancelWrap      bool                  // failures wrap context.Canceled
	quiet           bool                  // not the scenario's source: its lifecycle is not streamed
	errKind         string                // "retriable": failures carry (or wrap) an error with IsRetriable() == true, as kafka.Error does
	receiptIncs     []int                 // which incarnation each entry of receipts was handed to
}

var currentSource *sourceScript

// retriableErr looks like a transient client error (kafka.Error has the same method): the supervisor must not treat it
// differently from any other failed Start
type retriableErr struct{ inc int }

func (e *retriableErr) Error() string {
	return fmt.Sprintf("scripted retriable source failure %d", e.inc)
}
func (e *retriableErr) IsRetriable() bool { return true }

// logf records a lifecycle call (caller holds s.mu); a child process started for a scenario that ends in os.Exit streams
// the entries to stderr, because it never gets to print an observation
func (s *sourceScript) logf(entry string) {
	s.log = append(s.log, entry)
	if os.Getenv("FBV_CHILD") != "" && !s.quiet {
		fmt.Fprintln(os.Stderr, "LOG "+entry)
	}
	switch {
	case strings.HasPrefix(entry, "fail"):
		s.failTimes = append(s.failTimes, time.Now())
	case strings.HasPrefix(entry, "start"):
		s.startTimes = append(s.startTimes, time.Now())
	}
}

type vsource struct {
	fbcontext.ContextAware
	script *sourceScript
	inc    int
	ch     chan firebolt.Event
	done   chan struct{}
}

func newVsource() node.Source {
	s := currentSource
	s.mu.Lock()
	s.incarnation++
	inc := s.incarnation
	s.logf(fmt.Sprintf("factory%d", inc))
	s.mu.Unlock()
	v := &vsource{script: s, inc: inc, done: make(chan struct{}, 1)}
	if inc%2 == 0 {
		// a factory may hand out replacements of another Go type (a fallback implementation): every second incarnation is one
		return &vsourceAlt{v}
	}
	return v
}

// vsourceAlt: the same source behind another concrete type
type vsourceAlt struct{ *vsource }

func (v *vsource) Init(id string, ctx fbcontext.FBContext) {
	v.ContextAware.Init(id, ctx)
	v.script.mu.Lock()
	v.script.logf(fmt.Sprintf("init%d:%s", v.inc, id))
	v.script.mu.Unlock()
}

func (v *vsource) Setup(config map[string]string, ch chan firebolt.Event) error {
	v.ch = ch
	s := v.script
	s.mu.Lock()
	defer s.mu.Unlock()
	s.logf(fmt.Sprintf("setup%d", v.inc))
	s.outCh = append(s.outCh, fmt.Sprintf("%p", ch))
	var ks []string
	for k, val := range config {
		ks = append(ks, k+"="+val)
	}
	sort.Strings(ks)
	s.params = append(s.params, fmt.Sprintf("%p/%s", reflect.ValueOf(config).UnsafePointer(), strings.Join(ks, ",")))
	v.Subscribe(s.subs)
	if s.setupFails || (s.setupFailAt != 0 && s.setupFailAt == v.inc) {
		return errors.New("scripted setup failure")
	}
	if d := s.setupDelay[v.inc]; d > 0 {
		s.mu.Unlock()
		time.Sleep(d)
		s.mu.Lock()
	}
	s.logf(fmt.Sprintf("setupdone%d", v.inc))
	return nil
}

func (v *vsource) Start() error {
	s := v.script
	s.mu.Lock()
	s.logf(fmt.Sprintf("start%d", v.inc))
	s.startSeqs = append(s.startSeqs, nextSeq())
	quota := -1
	if v.inc-1 < len(s.failAfter) {
		quota = s.failAfter[v.inc-1]
	}
	s.mu.Unlock()
	n := 0
	for {
		if quota >= 0 && n >= quota {
			if d := s.runFor[v.inc]; d > 0 {
				time.Sleep(d)
			}
			s.mu.Lock()
			s.logf(fmt.Sprintf("fail%d", v.inc))
			s.lastStartReturn = nextSeq()
			s.mu.Unlock()
			if s.cancelWrap {
				return fmt.Errorf("scripted source failure %d: %w", v.inc, context.Canceled)
			}
			if s.errKind == "retriable" {
				if v.inc%2 == 1 {
					return &retriableErr{inc: v.inc}
				}
				return fmt.Errorf("scripted source failure: %w", &retriableErr{inc: v.inc})
			}
			return fmt.Errorf("scripted source failure %d", v.inc)
		}
		s.mu.Lock()
		if len(s.events) == 0 {
			s.logf(fmt.Sprintf("end%d", v.inc))
			s.lastStartReturn = nextSeq()
			s.mu.Unlock()
			return nil
		}
		p := s.events[0]
		s.events = s.events[1:]
		stop := s.stopAt >= 0 && s.emitted == s.stopAt
		hook := s.hookFn != nil && s.emitted == s.hookAt
		s.mu.Unlock()
		if stop && s.stopFn != nil {
			s.stopFn()
		}
		if hook {
			s.hookFn()
		}
		select {
		case <-v.done:
			s.mu.Lock()
			s.events = append([]string{p}, s.events...)
			s.logf(fmt.Sprintf("stopped%d", v.inc))
			s.lastStartReturn = nextSeq()
			s.mu.Unlock()
			return nil
		case v.ch <- firebolt.Event{Payload: p, Created: time.Now(), Recovery: len(p)%3 == 0}: // some events are flagged as recovery events, as the kafka source's are
			s.mu.Lock()
			s.emitted++
			s.mu.Unlock()
			n++
		}
	}
}

func (v *vsource) Shutdown() error {
	v.script.mu.Lock()
	v.script.logf(fmt.Sprintf("shutdown%d", v.inc))
	v.script.mu.Unlock()
	select {
	case v.done <- struct{}{}:
	default:
	}
	return nil
}

func (v *vsource) Receive(msg fbcontext.Message) error {
	s := v.script
	s.mu.Lock()
	s.receipts = append(s.receipts, fmt.Sprintf("%s:%s:%s", msg.MessageType, msg.Key, hx(msg.Payload)))
	s.receiptIncs = append(s.receiptIncs, v.inc)
	s.mu.Unlock()
	if s.failRecv {
		return errors.New("recv-fail-source")
	}
	return nil
}

var execRegOnce sync.Once

func registerExecTypes() {
	execRegOnce.Do(func() {
		st := reflect.TypeOf("")
		et := reflect.TypeOf(&firebolt.EventError{})
		r := node.GetRegistry()
		r.RegisterNodeType("vsync", newVsync, st, st)
		r.RegisterNodeType("vfanout", func() node.Node { return &vfanout{} }, st, st)
		r.RegisterNodeType("vasync", func() node.Node { return &vasync{} }, st, st)
		r.RegisterNodeType("vhsync", func() node.Node { return &vsync{} }, et, st)
		r.RegisterNodeType("vhasync", func() node.Node { return &vasync{} }, et, st)
		r.RegisterSourceType("vsource", newVsource, st)
	})
}

var runCounter int64

func nextRunID() int64 { return atomic.AddInt64(&runCounter, 1) }
