package main

// components "flow-C01".."flow-C16": a real Executor (executor.New(WithConfig)) over harness-owned source and nodes runs a
// generated tree on a generated stream; the per-node observations are printed for the Lean Flow model and trace monitor.
// input: "tree <seed> <nroots> N <kind> <workers> <buf> <discard> <disabled> <wP> <wT> <wF> <wE> <maxFan> <amode> <latUs> <nc> <hh> ... ;
//         stream <n> ; opts stop=<k|-> gm=<GOMAXPROCS> [sig=1] [gate=<idx>] [shutms=<idx>:<ms>]"
// cfgfile=1: the pipeline is given as a YAML file (defaults left out, no shutdowntimeout) through WithConfigFile
// to=<sec>: shutdown timeout of the pipeline (default 5)
// reinit=k: metrics.Init is called with another prefix (a second executor is built in the process) when k events have been emitted
// srcfail=k: the source's Start returns an error after k events; the restarted source (10 s later) emits the rest
// shutms=i:ms: node i's Shutdown takes ms before it flushes what it holds back and returns
// stop=k: shutdown is requested when the source emits its k-th event — by Executor.Shutdown(), or with sig=1 by a SIGTERM
// delivered to the process (the executor's signal handler)

import (
	"fmt"
	"os"
	"regexp"
	"runtime"
	"sort"
	"strconv"
	"strings"
	"syscall"
	"time"

	"github.com/digitalocean/firebolt/config"
	"github.com/digitalocean/firebolt/executor"
	"github.com/digitalocean/firebolt/metrics"
	"github.com/digitalocean/firebolt/node"
	"github.com/digitalocean/firebolt/util"
)

func init() {
	for _, p := range []string{"C01", "C02", "C03", "C04", "C05", "C16"} {
		prop := p
		register("flow-"+prop, &component{gen: func(r *rng, n int, tier string, emit func(string)) { genFlow(prop, r, n, tier, emit) }, exec: execFlow})
	}
}

type flowGen struct {
	r     *rng
	prop  string
	count int
	parts []string
}

func (g *flowGen) node(depth int, handler bool) {
	r := g.r
	g.count++
	kind := r.pickS("sync", "sync", "fanout", "async")
	if handler {
		kind = r.pickS("hsync", "hsync", "hasync")
	}
	workers := int(r.pick(1, 1, 2, 3, 4))
	buf := int(r.pick(1, 1, 2, 3))
	discard := false
	lat := 0
	if g.prop == "C04" || g.prop == "C16" || g.prop == "C02" {
		discard = r.chance(20)
	} else if r.chance(25) {
		// also elsewhere some trees have discarding nodes: a drop is permitted only at a node that is marked itself
		discard = r.chance(30)
	}

	disabled := !handler && r.chance(7)
	wP := r.intn(40) + 25
	wT := r.intn(20)
	wF := r.intn(15)
	wE := r.intn(18)
	if g.prop == "C02" {
		wE = r.intn(30) + 10
	}
	if wP+wT+wF+wE > 100 {
		wP = 100 - wT - wF - wE
	}
	maxFan := r.intn(3) + 1
	amode := r.intn(4)
	lat = int(r.pick(0, 0, 20, 100, 300))
	if g.prop == "C02" && handler {
		lat = int(r.pick(0, 100, 300, 300))
	}
	nc := 0
	if !handler && depth < 4 && g.count < 12 {
		nc = r.intn(3)
		if depth == 1 {
			nc = r.intn(4)
		}
	}
	hh := !handler && r.chance(30)
	if g.prop == "C02" && !handler {
		hh = r.chance(60)
	}
	idx := len(g.parts)
	g.parts = append(g.parts, "N", kind, strconv.Itoa(workers), strconv.Itoa(buf), b01(discard), b01(disabled), strconv.Itoa(wP), strconv.Itoa(wT),
		strconv.Itoa(wF), strconv.Itoa(wE), strconv.Itoa(maxFan), strconv.Itoa(amode), strconv.Itoa(lat), "0", b01(hh))
	kids := 0
	for j := 0; j < nc; j++ {
		g.node(depth+1, false)
		kids++
	}
	g.parts[idx+13] = strconv.Itoa(kids)
	if hh {
		g.node(depth+1, true)
	}
}

func genFlow(prop string, r *rng, n int, tier string, emit func(string)) {
	// directed prefix
	for _, c := range []string{
		"tree 7 1 N sync 1 1 0 0 100 0 0 0 1 0 0 0 0 ; stream 5 ; opts stop=- gm=4",
		"tree 11 2 N sync 2 1 0 0 40 20 20 20 1 0 50 2 1 N fanout 1 2 0 0 20 10 10 10 3 0 0 1 0 N async 3 1 0 0 50 10 20 20 1 1 100 0 1 N hasync 2 1 0 0 80 0 10 10 1 2 0 0 0 N async 1 1 0 0 60 0 20 20 1 2 0 0 0 N hsync 1 1 0 0 100 0 0 0 1 0 0 0 0 N sync 1 1 0 1 100 0 0 0 1 0 0 1 0 N sync 1 1 0 0 100 0 0 0 1 0 0 0 0 ; stream 40 ; opts stop=- gm=4",
		"tree 13 1 N fanout 2 1 0 0 10 10 10 10 3 0 0 2 0 N sync 1 1 0 0 100 0 0 0 1 0 200 0 0 N async 2 1 0 0 50 0 25 25 1 3 0 0 0 ; stream 30 ; opts stop=17 gm=2",
		// shutdown requested by a signal while the main loop is held up by a slow root; the other root is fast
		"tree 29 2 N sync 1 1 0 0 100 0 0 0 1 0 300 0 0 N sync 1 1 0 0 100 0 0 0 1 0 0 0 0 ; stream 40 ; opts stop=9 sig=1 gm=4",
	} {
		emit(c)
	}
	if prop == "C05" || prop == "C01" {
		// a second executor for the same pipeline (same node ids) in one process: its nodes are new instances and are set up again
		emit("tree 73 1 N sync 2 1 0 0 80 0 0 20 1 0 0 1 1 N sync 1 1 0 0 100 0 0 0 1 0 0 0 0 N hsync 1 1 0 0 100 0 0 0 1 0 0 0 0 ; stream 20 ; opts stop=- gm=4 again=1")
	}
	if prop == "C02" || prop == "C04" {
		// a non-discarding error handler that is stalled for 1.3 s while its node keeps failing: the node waits, no report is lost
		emit("tree 31 1 N sync 1 1 0 0 0 0 0 100 1 0 0 0 1 N hsync 1 1 0 0 100 0 0 0 1 0 0 0 0 ; stream 8 ; opts stop=- gm=4 gate=1 gatems=1300")
		// ... and a non-discarding child stalled for 5.6 s: backpressure has no time limit
		emit("tree 71 1 N sync 1 1 0 0 100 0 0 0 1 0 0 1 0 N sync 1 1 0 0 100 0 0 0 1 0 0 0 0 ; stream 5 ; opts stop=- gm=4 gate=1 gatems=5600 to=9")
	}
	if prop == "C01" || prop == "C04" {
		// an async single-worker node whose completions arrive concurrently, a slow first child and a fast second one
		emit("tree 37 1 N async 1 2 0 0 100 0 0 0 1 1 0 2 0 N sync 1 1 0 0 100 0 0 0 1 0 300 0 0 N sync 1 1 0 0 100 0 0 0 1 0 0 0 0 ; stream 60 ; opts stop=- gm=4")
		emit("tree 41 1 N async 1 1 0 0 100 0 0 0 1 1 0 3 0 N sync 1 1 0 0 100 0 0 0 1 0 300 0 0 N sync 2 1 0 0 100 0 0 0 1 0 0 0 0 N sync 1 2 0 0 100 0 0 0 1 0 20 0 0 ; stream 80 ; opts stop=- gm=16")
	}
	if prop == "C16" {
		// a second pipeline with another metrics prefix is built while this one has events in flight (an async node holding them)
		emit("tree 59 1 N async 2 2 0 0 60 0 20 20 1 2 0 1 1 N sync 1 1 0 0 100 0 0 0 1 0 100 0 0 N hsync 1 1 0 0 100 0 0 0 1 0 0 0 0 ; stream 30 ; opts stop=- gm=4 reinit=12")
		emit("tree 61 1 N sync 2 2 0 0 60 0 20 20 1 0 200 1 0 N fanout 1 1 0 0 50 0 20 20 2 0 100 0 0 ; stream 40 ; opts stop=- gm=4 reinit=15")
	}
	if prop == "C04" || prop == "C16" {
		emit("tree 17 1 N fanout 1 1 0 0 0 0 0 0 3 0 0 2 0 N sync 1 1 1 0 100 0 0 0 1 0 300 0 0 N sync 1 1 0 0 100 0 0 0 1 0 0 0 0 ; stream 30 ; opts stop=- gm=4")
		emit("tree 19 1 N sync 2 1 0 0 20 0 0 80 1 0 0 0 1 N hsync 1 1 1 0 100 0 0 0 1 0 300 0 0 ; stream 40 ; opts stop=- gm=4")
		emit("tree 23 1 N sync 4 2 0 0 100 0 0 0 1 0 0 2 0 N sync 1 1 1 0 100 0 0 0 1 0 0 0 0 N sync 1 2 0 0 100 0 0 0 1 0 0 0 0 ; stream 50 ; opts stop=- gm=4 gate=1")
	}
	if prop == "C01" || prop == "C02" || prop == "C03" || prop == "C05" {
		// from a configuration file with the defaults left out: a handler on a childless node, a multi-worker parent with a
		// child that names no worker count, no shutdowntimeout (a slow leaf still has events queued when the source ends)
		emit("tree 67 1 N sync 4 2 0 0 60 0 10 30 1 0 0 2 1 N sync 1 1 0 0 70 0 0 30 1 0 300 0 1 N hsync 1 1 0 0 100 0 0 0 1 0 0 0 0 N async 1 1 0 0 100 0 0 0 1 1 2000 0 0 N hsync 1 1 0 0 100 0 0 0 1 0 0 0 0 ; stream 60 ; opts stop=- gm=4 cfgfile=1")
	}
	if prop == "C01" {
		// the source fails (Start returns an error) while events it has emitted are still on their way to a slow root; the
		// supervisor restarts it 10 s later and the fresh source emits the rest: every event reaches the root
		emit("tree 53 1 N sync 1 1 0 0 100 0 0 0 1 0 10000 1 0 N sync 1 1 0 0 100 0 0 0 1 0 0 0 0 ; stream 24 ; opts stop=- gm=4 srcfail=20")
	}
	if prop == "C03" || prop == "C05" {
		// the same with a Shutdown of 5.6 s under a 9 s timeout
		emit("tree 73 1 N async 1 2 0 0 70 0 0 30 1 2 0 1 1 N sync 1 1 0 0 100 0 0 0 1 0 0 0 0 N hsync 1 1 0 0 100 0 0 0 1 0 0 0 0 ; stream 6 ; opts stop=- gm=4 shutms=0:5600 to=9")
	}
	if prop == "C03" {
		// an async node that holds its events back and hands them on from a Shutdown taking 3.2 s of the 5 s timeout: its child
		// and its handler must still be there
		emit("tree 47 1 N async 1 2 0 0 70 0 0 30 1 2 0 1 1 N sync 1 1 0 0 100 0 0 0 1 0 0 0 0 N hsync 1 1 0 0 100 0 0 0 1 0 0 0 0 ; stream 6 ; opts stop=- gm=4 shutms=0:3200")
	}
	if prop == "C02" {
		// failure storm: eight workers of one node fail events at the same time, every failure must be reported exactly once
		emit("tree 43 1 N sync 8 4 0 0 0 0 0 100 1 0 0 0 1 N hsync 2 8 0 0 100 0 0 0 1 0 0 0 0 ; stream 3000 ; opts stop=- gm=16")
	}
	for i := 0; i < n; i++ {
		if prop == "C02" && r.chance(6) {
			emit(fmt.Sprintf("tree %d 1 N %s %d 4 0 0 %d 0 0 %d 2 %d 0 0 1 N %s %d %d 0 0 100 0 0 0 1 0 0 0 0 ; stream %d ; opts stop=- gm=16",
				r.intn(100000), r.pickS("sync", "fanout", "async"), r.pick(4, 8, 16), 0, 100, r.intn(4), r.pickS("hsync", "hasync"), r.pick(1, 2, 4), r.pick(1, 8, 64), r.pick(500, 2000, 4000)))
			continue
		}
		if prop == "C04" && r.chance(20) {
			// race round: many fast parent workers deliver into a stalled discarding child with a tiny buffer
			emit(fmt.Sprintf("tree %d 1 N %s %d 4 0 0 100 0 0 0 2 0 0 1 0 N sync 1 %d 1 0 100 0 0 0 1 0 0 0 0 ; stream %d ; opts stop=- gm=16 gate=1",
				r.intn(100000), r.pickS("sync", "fanout"), r.pick(4, 8), r.pick(1, 1, 2), r.pick(12, 24, 48)))
			continue
		}
		if prop == "C04" && r.chance(12) {
			// drain race: the discarding child keeps freeing its single slot, several parent workers compete for it each time
			emit(fmt.Sprintf("tree %d 1 N sync %d 4 0 0 100 0 0 0 1 0 0 1 0 N sync 1 1 1 0 100 0 0 0 1 0 %d 0 0 ; stream %d ; opts stop=- gm=16",
				r.intn(100000), r.pick(4, 8, 16), r.pick(0, 5, 20), r.pick(200, 400, 800)))
			continue
		}
		g := &flowGen{r: r, prop: prop}
		nroots := r.intn(3) + 1
		for j := 0; j < nroots; j++ {
			g.node(1, false)
		}
		ns := r.intn(60)
		if r.chance(5) {
			ns = 0
		}
		stop := "-"
		if r.chance(30) && ns > 0 {
			stop = strconv.Itoa(r.intn(ns))
			if r.chance(40) {
				stop += " sig=1"
			}
		}
		gate := ""
		if prop == "C04" && r.chance(35) {
			// stall one discarding node until the source has finished: nothing may wait for it
			var cands []int
			for k := 0; k*15 < len(g.parts); k++ {
				if g.parts[k*15+4] == "1" && g.parts[k*15+5] == "0" {
					cands = append(cands, k)
				}
			}
			if len(cands) > 0 {
				gate = fmt.Sprintf(" gate=%d", cands[r.intn(len(cands))])
				stop = "-"
			}
		}
		if gate == "" && r.chance(12) {
			gate += " cfgfile=1"
		}
		if prop == "C16" && r.chance(15) && ns > 2 {
			gate += fmt.Sprintf(" reinit=%d", r.intn(ns-1)+1)
		}
		emit(fmt.Sprintf("tree %d %d %s ; stream %d ; opts stop=%s gm=%d%s", r.intn(100000), nroots, strings.Join(g.parts, " "), ns, stop, r.pick(1, 2, 4, 16), gate))
	}
}

type flowTree struct {
	specs []*nodeSpec
	roots []*node.Config
}

func buildFlowTree(toks []string, run int64, seed uint32) (*flowTree, bool) {
	ft := &flowTree{}
	pos := 0
	var build func(handler bool) *node.Config
	build = func(handler bool) *node.Config {
		if pos+15 > len(toks) || toks[pos] != "N" {
			return nil
		}
		f := toks[pos : pos+15]
		pos += 15
		ai := func(i int) int { v, _ := strconv.Atoi(f[i]); return v }
		idx := len(ft.specs)
		sp := &nodeSpec{idx: idx, id: fmt.Sprintf("r%d_%d", run, idx), seed: seed, wPass: ai(6), wTrans: ai(7), wFilter: ai(8), wError: ai(9),
			maxFan: ai(10), asyncMode: ai(11), latency: time.Duration(ai(12)) * time.Microsecond, structErr: idx%2 == 0, isHandler: handler}
		name := "vsync"
		switch f[1] {
		case "fanout":
			sp.kind, name = "fanout", "vfanout"
		case "async":
			sp.kind, name = "async", "vasync"
		case "hsync":
			sp.kind, name = "sync", "vhsync"
		case "hasync":
			sp.kind, name = "async", "vhasync"
		default:
			sp.kind = "sync"
		}
		ft.specs = append(ft.specs, sp)
		c := &node.Config{ID: sp.id, Name: name, Workers: ai(2), BufferSize: ai(3), DiscardOnFullBuffer: f[4] == "1", Disabled: f[5] == "1"}
		for i := 0; i < ai(13); i++ {
			ch := build(false)
			if ch == nil {
				return nil
			}
			c.Children = append(c.Children, ch)
		}
		if f[14] == "1" {
			h := build(true)
			if h == nil {
				return nil
			}
			c.ErrorHandler = h
		}
		return c
	}
	for pos < len(toks) {
		c := build(false)
		if c == nil {
			return nil, false
		}
		ft.roots = append(ft.roots, c)
	}
	return ft, true
}

func counterOf(cv interface{}, id string) int {
	return 0
}

func nodeCounters(id string) string {
	g := func(v float64, err error) int {
		if err != nil {
			return -1
		}
		return int(v)
	}
	m := metrics.Node()
	return fmt.Sprintf("%d,%d,%d,%d,%d", g(util.GetCounterVecValue(m.EventsReceived, id)), g(util.GetCounterVecValue(m.Successes, id)),
		g(util.GetCounterVecValue(m.Filtered, id)), g(util.GetCounterVecValue(m.Failures, id)), g(util.GetCounterVecValue(m.DiscardedEvents, id)))
}

// forcedRunID: set while a case with again=1 runs, so that the prelude executor and the judged one use the same node ids
var forcedRunID int64

var streamRe = regexp.MustCompile(`; stream \d+ ;`)

func execFlow(input string) string {
	registerExecTypes()
	if strings.Contains(input, " again=1") && forcedRunID == 0 {
		// again=1: an executor for the very same pipeline - same node ids - was built, run on an empty stream and shut down
		// earlier in this process (an application that rebuilds its executor; a test binary that runs two pipelines)
		forcedRunID = nextRunID()
		judged := strings.Replace(input, " again=1", "", 1)
		_ = execFlow(streamRe.ReplaceAllString(judged, "; stream 0 ;"))
		out := execFlow(judged)
		forcedRunID = 0
		return out
	}
	segs := strings.Split(input, ";")
	hd := strings.Fields(segs[0])
	if len(hd) < 3 || hd[0] != "tree" {
		return "bad-input"
	}
	seed64, _ := strconv.ParseUint(hd[1], 10, 32)
	nroots, _ := strconv.Atoi(hd[2])
	nstream := 0
	stop := -1
	gm := 4
	gateIdx := -1
	gateMs := 0
	bySignal := false
	shutIdx, shutMs := -1, 0
	srcFail := -1
	reinitAt := -1
	cfgFile := false
	timeoutSec := 5
	for _, seg := range segs[1:] {
		f := strings.Fields(seg)
		if len(f) == 2 && f[0] == "stream" {
			nstream, _ = strconv.Atoi(f[1])
		}
		if len(f) > 0 && f[0] == "opts" {
			for _, o := range f[1:] {
				if strings.HasPrefix(o, "stop=") && o != "stop=-" {
					stop, _ = strconv.Atoi(strings.TrimPrefix(o, "stop="))
				}
				if strings.HasPrefix(o, "gm=") {
					gm, _ = strconv.Atoi(strings.TrimPrefix(o, "gm="))
				}
				if strings.HasPrefix(o, "gate=") {
					gateIdx, _ = strconv.Atoi(strings.TrimPrefix(o, "gate="))
				}
				if o == "sig=1" {
					bySignal = true
				}
				if o == "cfgfile=1" {
					cfgFile = true
				}
				if strings.HasPrefix(o, "to=") {
					timeoutSec, _ = strconv.Atoi(strings.TrimPrefix(o, "to="))
				}
				if strings.HasPrefix(o, "reinit=") {
					reinitAt, _ = strconv.Atoi(strings.TrimPrefix(o, "reinit="))
				}
				if strings.HasPrefix(o, "srcfail=") {
					srcFail, _ = strconv.Atoi(strings.TrimPrefix(o, "srcfail="))
				}
				if strings.HasPrefix(o, "shutms=") {
					p := strings.SplitN(strings.TrimPrefix(o, "shutms="), ":", 2)
					if len(p) == 2 {
						shutIdx, _ = strconv.Atoi(p[0])
						shutMs, _ = strconv.Atoi(p[1])
					}
				}
				if strings.HasPrefix(o, "gatems=") {
					gateMs, _ = strconv.Atoi(strings.TrimPrefix(o, "gatems="))
				}
			}
		}
	}
	run := nextRunID()
	if forcedRunID != 0 {
		run = forcedRunID
	}
	ft, ok := buildFlowTree(hd[3:], run, uint32(seed64))
	if !ok || len(ft.roots) != nroots {
		return "bad-input"
	}
	old := runtime.GOMAXPROCS(gm)
	defer runtime.GOMAXPROCS(old)
	src := &sourceScript{stopAt: stop}
	for i := 0; i < nstream; i++ {
		src.events = append(src.events, fmt.Sprintf("e%d", i))
	}
	if srcFail >= 0 {
		// the source's Start returns an error after srcFail events; the supervisor starts a fresh source 10 s later, which emits the rest
		src.failAfter = []int{srcFail, -1}
	}
	if reinitAt >= 0 {
		// while events are in flight the application builds a second pipeline with another metrics prefix (executor.WithConfig
		// calls metrics.Init for every executor): the counters of the running one must not change under its feet
		src.hookAt = reinitAt
		src.hookFn = func() { metrics.Init(fmt.Sprintf("verif_second_%d", run)) }
	}
	currentSource = src
	var gate chan struct{}
	if gateIdx >= 0 && gateIdx < len(ft.specs) {
		gate = make(chan struct{})
		ft.specs[gateIdx].gate = gate
	}
	if shutIdx >= 0 && shutIdx < len(ft.specs) {
		ft.specs[shutIdx].shutDelay = time.Duration(shutMs) * time.Millisecond
	}
	setScenario(ft.specs)
	defer clearScenario(ft.specs)
	cfg := config.Config{ApplicationName: "verif", MetricsPrefix: "verif", Source: &node.SourceConfig{Name: "vsource", ID: fmt.Sprintf("r%d_src", run)},
		Nodes: ft.roots, ShutdownTimeOut: timeoutSec}
	var ex *executor.Executor
	var err error
	if cfgFile {
		// the same pipeline from a configuration file as an application would write it: defaults left out, no shutdowntimeout
		path, werr := writeConfigFile("f", run, yamlForConfig(cfg, true, 0))
		if werr != nil {
			return "harness-error " + werr.Error()
		}
		ex, err = executor.New(executor.WithConfigFile(path))
		os.Remove(path)
	} else {
		ex, err = executor.New(executor.WithConfig(cfg))
	}
	if err != nil {
		return "harness-error " + err.Error()
	}
	src.stopFn = func() { ex.Shutdown() }
	if bySignal {
		// the executor registered its signal handler in New; the signal reaches this process only
		src.stopFn = func() { _ = syscall.Kill(os.Getpid(), syscall.SIGTERM) }
	}
	done := make(chan struct{})
	go func() {
		ex.Execute()
		close(done)
	}()
	returned := true
	progress := ""
	if gate != nil && gateMs > 0 {
		// the gated node (any node, e.g. a non-discarding error handler) is simply stalled for a while: everything waits
		// for it, nothing may be lost
		time.Sleep(time.Duration(gateMs) * time.Millisecond)
		close(gate)
	} else if gate != nil {
		// while the discarding node is stalled, the source must still be able to hand over its whole stream
		ok := false
		for t0 := time.Now(); time.Since(t0) < 3*time.Second; time.Sleep(2 * time.Millisecond) {
			src.mu.Lock()
			fin := src.emitted == nstream
			src.mu.Unlock()
			if fin {
				ok = true
				break
			}
		}
		progress = " progress=" + b01(ok)
		close(gate)
	}
	select {
	case <-done:
	case <-time.After(time.Duration(12+map[bool]int{true: 11, false: 0}[srcFail >= 0]) * time.Second):
		returned = false
	}
	ret := nextSeq()
	time.Sleep(2 * time.Millisecond)
	var parts []string
	for _, s := range ft.specs {
		s.mu.Lock()
		recv := append([]string(nil), s.recv...)
		sort.Strings(recv)
		rs := "-"
		if len(recv) > 0 {
			rs = strings.Join(recv, ",")
		}
		bad := "-"
		if len(s.handlerBad) > 0 {
			bad = s.handlerBad[0]
		}
		bf, _ := util.GetCounterVecValue(metrics.Node().BufferFullEvents, s.id)
		parts = append(parts, fmt.Sprintf("n%d.recv=%s n%d.ctr=%s n%d.bf=%d n%d.su=%d n%d.sh=%d n%d.hw=%d n%d.seq=%d,%d,%d,%d,%d,%d n%d.bad=%s",
			s.idx, rs, s.idx, nodeCounters(s.id), s.idx, int(bf), s.idx, s.setupCount, s.idx, s.shutCount, s.idx, s.hw,
			s.idx, s.setupSeq, s.firstEnter, s.lastEnter, s.lastExit, s.shutEnter, s.shutExit, s.idx, bad))
		s.mu.Unlock()
	}
	src.mu.Lock()
	emitted := src.emitted
	src.mu.Unlock()
	return strings.Join(parts, " ") + fmt.Sprintf(" emitted=%d returned=%s ret=%d%s", emitted, b01(returned), ret, progress)
}
