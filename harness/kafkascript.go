package main

import (
	"errors"
	"fmt"
	"runtime"
	"sort"
	"strconv"
	"strings"
	"sync"
	"time"

	"github.com/confluentinc/confluent-kafka-go/kafka"

	"github.com/digitalocean/firebolt/fbcontext"
)

// scriptedConsumer implements firebolt's kafka.MessageConsumer with scripted answers and a call log.
type scriptedConsumer struct {
	mu               sync.Mutex
	committed        map[int32]int64 // absent = not returned
	committedErr     bool
	low, high        map[int32]int64
	wmErr            map[int32]bool
	assignErr        bool
	unassignErr      bool // Unassign reports a failure (after having been recorded)
	committedErrOnce bool // the next Committed query fails, later ones succeed
	committedRev     bool // a complete reply comes in another order than the request (the broker owes no order)
	partitions       int  // for GetMetadata
	events           chan kafka.Event
	calls            []string // "assign p:o,..." | "unassign"
	lastAssign       []kafka.TopicPartition
	assigned         bool
	cursor           map[int32]int64 // cursor client: next offset per assigned partition
	parkUnassign     chan struct{}   // the next Unassign waits for this channel to be closed (a slow broker round trip)
	parked           chan struct{}   // closed when that Unassign has been reached
	callGoids        []int64         // when trackGoids: the goroutine that made each entry of calls
	trackGoids       bool
}

// goid is the number of the calling goroutine (from the header of its stack trace); used only to attribute the scripted
// client's calls to one of two concurrent callers
func goid() int64 {
	var buf [64]byte
	n := runtime.Stack(buf[:], false)
	f := strings.Fields(string(buf[:n]))
	if len(f) < 2 {
		return -1
	}
	v, _ := strconv.ParseInt(f[1], 10, 64)
	return v
}

// logCall appends to the call log (caller holds s.mu)
func (s *scriptedConsumer) logCall(c string) {
	s.calls = append(s.calls, c)
	if s.trackGoids {
		for len(s.callGoids) < len(s.calls)-1 {
			s.callGoids = append(s.callGoids, 0)
		}
		s.callGoids = append(s.callGoids, goid())
	}
}

func newScriptedConsumer() *scriptedConsumer {
	return &scriptedConsumer{committed: map[int32]int64{}, low: map[int32]int64{}, high: map[int32]int64{}, wmErr: map[int32]bool{}, events: make(chan kafka.Event, 1024)}
}

func (s *scriptedConsumer) Subscribe(string, kafka.RebalanceCb) error { return nil }
func (s *scriptedConsumer) Events() chan kafka.Event                  { return s.events }
func (s *scriptedConsumer) Assign(p []kafka.TopicPartition) error {
	s.mu.Lock()
	defer s.mu.Unlock()
	if s.assignErr {
		s.logCall("assign-failed")
		return errors.New("scripted: assign failed")
	}
	cp := make([]kafka.TopicPartition, len(p))
	copy(cp, p)
	s.lastAssign = cp
	s.assigned = true
	s.cursor = map[int32]int64{}
	for _, tp := range p {
		s.cursor[tp.Partition] = int64(tp.Offset)
	}
	s.logCall("assign " + fmtTPs(p, true))
	return nil
}
func (s *scriptedConsumer) Unassign() error {
	s.mu.Lock()
	park, parked := s.parkUnassign, s.parked
	s.parkUnassign, s.parked = nil, nil
	s.mu.Unlock()
	if park != nil {
		close(parked)
		<-park
	}
	s.mu.Lock()
	defer s.mu.Unlock()
	s.lastAssign = nil
	s.assigned = false
	s.cursor = map[int32]int64{}
	s.logCall("unassign")
	if s.unassignErr {
		return errors.New("scripted unassign failure")
	}
	return nil
}
func (s *scriptedConsumer) Committed(ps []kafka.TopicPartition, _ int) ([]kafka.TopicPartition, error) {
	s.mu.Lock()
	once := s.committedErrOnce
	s.committedErrOnce = false
	s.mu.Unlock()
	if s.committedErr || once {
		return nil, errors.New("scripted: committed failed")
	}
	var out []kafka.TopicPartition
	for _, tp := range ps {
		if o, ok := s.committed[tp.Partition]; ok {
			t := tp
			t.Offset = kafka.Offset(o)
			out = append(out, t)
		}
	}
	if s.committedRev {
		for i, j := 0, len(out)-1; i < j; i, j = i+1, j-1 {
			out[i], out[j] = out[j], out[i]
		}
	}
	return out, nil
}
func (s *scriptedConsumer) QueryWatermarkOffsets(_ string, p int32, _ int) (int64, int64, error) {
	if s.wmErr[p] {
		return 0, 0, errors.New("scripted: watermark query failed")
	}
	return s.low[p], s.high[p], nil
}
func (s *scriptedConsumer) GetMetadata(topic *string, _ bool, _ int) (*kafka.Metadata, error) {
	md := &kafka.Metadata{Topics: map[string]kafka.TopicMetadata{}}
	tm := kafka.TopicMetadata{Topic: *topic}
	for i := 0; i < s.partitions; i++ {
		tm.Partitions = append(tm.Partitions, kafka.PartitionMetadata{ID: int32(i)})
	}
	md.Topics[*topic] = tm
	return md, nil
}
func (s *scriptedConsumer) Close() error { return nil }

// fmtTPs prints partition:offset pairs; sorted by partition unless keepOrder.
func fmtTPs(p []kafka.TopicPartition, sorted bool) string {
	cp := make([]kafka.TopicPartition, len(p))
	copy(cp, p)
	if sorted {
		sort.Slice(cp, func(i, j int) bool { return cp[i].Partition < cp[j].Partition })
	}
	var parts []string
	for _, tp := range cp {
		parts = append(parts, fmt.Sprintf("%d:%d", tp.Partition, int64(tp.Offset)))
	}
	return "[" + strings.Join(parts, ",") + "]"
}

// recordingContext implements fbcontext.FBContext and records every message sent or acked.
type recordingContext struct {
	mu        sync.Mutex
	sent      []fbcontext.Message
	acked     []fbcontext.Message
	sendErr   bool
	stallNext bool          // the next SendMessage stalls for up to 10 ms (or until another send has been recorded)
	stalling  chan struct{} // closed when that send has begun to stall
}

func (c *recordingContext) ConfigureMessaging(send fbcontext.MessageFunc, ack fbcontext.MessageFunc) {
}
func (c *recordingContext) ConfigureLeader(leader func() bool) {}
func (c *recordingContext) SendMessage(msg fbcontext.Message) error {
	c.mu.Lock()
	if c.stallNext {
		// this send stalls in the transport: if another send gets through meanwhile, it is delivered first
		c.stallNext = false
		before := len(c.sent)
		if c.stalling != nil {
			close(c.stalling)
			c.stalling = nil
		}
		c.mu.Unlock()
		for t0 := time.Now(); time.Since(t0) < 10*time.Millisecond; time.Sleep(200 * time.Microsecond) {
			c.mu.Lock()
			overtaken := len(c.sent) > before
			c.mu.Unlock()
			if overtaken {
				break
			}
		}
		c.mu.Lock()
	}
	defer c.mu.Unlock()
	cp := msg
	cp.Payload = append([]byte(nil), msg.Payload...)
	c.sent = append(c.sent, cp)
	if c.sendErr {
		return errors.New("scripted: send failed")
	}
	return nil
}
func (c *recordingContext) AckMessage(msg fbcontext.Message) error {
	c.mu.Lock()
	defer c.mu.Unlock()
	c.acked = append(c.acked, msg)
	return nil
}
func (c *recordingContext) IsLeader() bool     { return false }
func (c *recordingContext) InstanceID() string { return "verif" }
