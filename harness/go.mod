module fbharness

go 1.23

require (
	github.com/confluentinc/confluent-kafka-go v1.9.2
	github.com/digitalocean/firebolt v0.0.0
	github.com/olivere/elastic/v7 v7.0.32
	github.com/sirupsen/logrus v1.9.0
)

require (
	github.com/Comcast/go-leaderelection v0.0.0-20181102191523-272fd9e2bddc // indirect
	github.com/Shopify/sarama v1.30.1 // indirect
	github.com/beorn7/perks v1.0.1 // indirect
	github.com/cespare/xxhash/v2 v2.1.2 // indirect
	github.com/davecgh/go-spew v1.1.1 // indirect
	github.com/digitalocean/captainslog v0.0.0-20190610170928-cd175de8a6e2 // indirect
	github.com/eapache/go-resiliency v1.2.0 // indirect
	github.com/eapache/go-xerial-snappy v0.0.0-20180814174437-776d5712da21 // indirect
	github.com/eapache/queue v1.1.0 // indirect
	github.com/golang/protobuf v1.5.2 // indirect
	github.com/golang/snappy v0.0.4 // indirect
	github.com/hashicorp/go-uuid v1.0.2 // indirect
	github.com/jcmturner/aescts/v2 v2.0.0 // indirect
	github.com/jcmturner/dnsutils/v2 v2.0.0 // indirect
	github.com/jcmturner/gofork v1.0.0 // indirect
	github.com/jcmturner/gokrb5/v8 v8.4.2 // indirect
	github.com/jcmturner/rpc/v2 v2.0.3 // indirect
	github.com/josharian/intern v1.0.0 // indirect
	github.com/klauspost/compress v1.13.6 // indirect
	github.com/mailru/easyjson v0.7.7 // indirect
	github.com/matttproud/golang_protobuf_extensions v1.0.1 // indirect
	github.com/pierrec/lz4 v2.6.1+incompatible // indirect
	github.com/pkg/errors v0.9.1 // indirect
	github.com/pmezard/go-difflib v1.0.0 // indirect
	github.com/prometheus/client_golang v1.12.1 // indirect
	github.com/prometheus/client_model v0.2.0 // indirect
	github.com/prometheus/common v0.32.1 // indirect
	github.com/prometheus/procfs v0.7.3 // indirect
	github.com/rcrowley/go-metrics v0.0.0-20201227073835-cf1acfcdf475 // indirect
	github.com/samuel/go-zookeeper v0.0.0-20180130194729-c4fab1ac1bec // indirect
	github.com/stretchr/objx v0.4.0 // indirect
	github.com/stretchr/testify v1.8.0 // indirect
	github.com/tidwall/gjson v1.12.1 // indirect
	github.com/tidwall/match v1.1.1 // indirect
	github.com/tidwall/pretty v1.2.0 // indirect
	golang.org/x/crypto v0.14.0 // indirect
	golang.org/x/net v0.17.0 // indirect
	golang.org/x/sys v0.13.0 // indirect
	golang.org/x/time v0.0.0-20191024005414-555d28b269f0 // indirect
	google.golang.org/protobuf v1.28.0 // indirect
	gopkg.in/yaml.v2 v2.4.0 // indirect
	gopkg.in/yaml.v3 v3.0.1 // indirect
)

replace github.com/digitalocean/firebolt => /repo
