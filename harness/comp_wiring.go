package main

// component "wiring" (C20: "reaches the client configuration verbatim ... no other parameter leaks"): the parameters a
// configuration gives the source and a node, as they arrive at Setup after passing through executor.New(WithConfig(...)).
// input: "wire S k=v ... N k=v ..."   (values may contain $, {, }: they are data, not references - only a configuration
// FILE is subject to ${VAR} substitution, and only once, when it is read)

import (
	"fmt"
	"os"
	"strings"

	"github.com/digitalocean/firebolt/config"
	"github.com/digitalocean/firebolt/executor"
	"github.com/digitalocean/firebolt/node"
)

func init() {
	register("wiring", &component{gen: genWiring, exec: execWiring})
}

func genWiring(r *rng, n int, tier string, emit func(string)) {
	emit("wire S brokers=b topic=t N mode=fast")
	emit("wire S librdkafka.sasl.username=$ConnectionString librdkafka.sasl.password=pa$$w0rd brokers=b N path=${HOME}/x pattern=^a$ cost=5$")
	vals := []string{"v", "$HOME", "${HOME}", "$FBV_WIRE", "${FBV_WIRE}x", "a$b", "$$", "$", "pa$$w0rd", "${}", "$1", "x${FBV_UNSET}y", "100%", "{topic}.x"}
	keys := []string{"brokers", "topic", "librdkafka.sasl.username", "librdkafka.sasl.password", "librdkafka.client.id", "custom", "path", "pattern", "zz"}
	for i := 0; i < n; i++ {
		parts := []string{"wire", "S"}
		for _, k := range keys {
			if r.chance(35) {
				parts = append(parts, k+"="+vals[r.intn(len(vals))])
			}
		}
		parts = append(parts, "N")
		for _, k := range keys {
			if r.chance(30) {
				parts = append(parts, k+"="+vals[r.intn(len(vals))])
			}
		}
		emit(strings.Join(parts, " "))
	}
}

func execWiring(input string) string {
	registerExecTypes()
	f := strings.Fields(input)
	if len(f) < 3 || f[0] != "wire" || f[1] != "S" {
		return "bad-input"
	}
	os.Setenv("FBV_WIRE", "expanded")
	src, nod := map[string]string{}, map[string]string{}
	cur := src
	for _, kv := range f[2:] {
		if kv == "N" {
			cur = nod
			continue
		}
		p := strings.SplitN(kv, "=", 2)
		if len(p) != 2 {
			return "bad-input"
		}
		cur[p[0]] = p[1]
	}
	run := nextRunID()
	sp := &nodeSpec{idx: 0, id: fmt.Sprintf("r%d_0", run), kind: "sync", wPass: 100}
	setScenario([]*nodeSpec{sp})
	defer clearScenario([]*nodeSpec{sp})
	script := &sourceScript{stopAt: -1}
	currentSource = script
	cfg := config.Config{ApplicationName: "verif", MetricsPrefix: "verif", ShutdownTimeOut: 2,
		Source: &node.SourceConfig{Name: "vsource", ID: fmt.Sprintf("r%d_src", run), Params: src},
		Nodes:  []*node.Config{{ID: sp.id, Name: "vsync", Workers: 1, BufferSize: 1, Params: nod}}}
	if _, err := executor.New(executor.WithConfig(cfg)); err != nil {
		return "harness-error " + err.Error()
	}
	script.mu.Lock()
	sparams := "-"
	if len(script.params) > 0 {
		x := script.params[len(script.params)-1]
		sparams = x[strings.Index(x, "/")+1:]
	}
	script.mu.Unlock()
	sp.mu.Lock()
	nparams := sp.setupParams
	sp.mu.Unlock()
	return fmt.Sprintf("S=[%s] N=[%s]", sparams, nparams)
}
