package main

import (
	"fmt"
	"os"
	"path/filepath"
	"strings"

	"github.com/digitalocean/firebolt/config"
	"github.com/digitalocean/firebolt/node"
)

// yamlForConfig renders a pipeline configuration as the YAML file an application would ship.  With omitDefaults, keys whose
// value is the documented default (workers 1, buffersize 1, no discarding, not disabled) are left out, as hand-written files do;
// timeout <= 0 leaves `shutdowntimeout` out (the documented default of 10 s applies).
func yamlForConfig(cfg config.Config, omitDefaults bool, timeout int) string {
	var sb strings.Builder
	fmt.Fprintf(&sb, "application: %s\nmetricsprefix: %s\n", cfg.ApplicationName, cfg.MetricsPrefix)
	if timeout > 0 {
		fmt.Fprintf(&sb, "shutdowntimeout: %d\n", timeout)
	}
	fmt.Fprintf(&sb, "source:\n  name: %s\n  id: %s\nnodes:\n", cfg.Source.Name, cfg.Source.ID)
	var fields func(n *node.Config, ind string)
	fields = func(n *node.Config, ind string) {
		fmt.Fprintf(&sb, "%sid: %s\n", ind, n.ID)
		if !(omitDefaults && n.Workers == 1) {
			fmt.Fprintf(&sb, "%sworkers: %d\n", ind, n.Workers)
		}
		if !(omitDefaults && n.BufferSize == 1) {
			fmt.Fprintf(&sb, "%sbuffersize: %d\n", ind, n.BufferSize)
		}
		if n.DiscardOnFullBuffer {
			fmt.Fprintf(&sb, "%sdiscard_on_full_buffer: true\n", ind)
		}
		if n.Disabled {
			fmt.Fprintf(&sb, "%sdisabled: true\n", ind)
		}
		if n.ErrorHandler != nil {
			fmt.Fprintf(&sb, "%serror_handler:\n%s  name: %s\n", ind, ind, n.ErrorHandler.Name)
			fields(n.ErrorHandler, ind+"  ")
		}
		if len(n.Children) > 0 {
			fmt.Fprintf(&sb, "%schildren:\n", ind)
			for _, c := range n.Children {
				fmt.Fprintf(&sb, "%s  - name: %s\n", ind, c.Name)
				fields(c, ind+"    ")
			}
		}
	}
	for _, n := range cfg.Nodes {
		fmt.Fprintf(&sb, "  - name: %s\n", n.Name)
		fields(n, "    ")
	}
	return sb.String()
}

// writeConfigFile writes the rendered configuration to a scratch file and returns its path
func writeConfigFile(tag string, run int64, content string) (string, error) {
	dir := filepath.Join(os.TempDir(), "fbverif-cfg")
	_ = os.MkdirAll(dir, 0o755)
	path := filepath.Join(dir, fmt.Sprintf("%s%d-%d.yaml", tag, os.Getpid(), run))
	return path, os.WriteFile(path, []byte(content), 0o644)
}
