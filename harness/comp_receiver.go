package main

// component "receiver" (C10, C12): the real KafkaMessageSender over a scripted producer writes records that are fed to a
// real KafkaMessageReceiver over a scripted consumer.
// input: "hist <partitions> ; send T K P | ack T K P | bad N | eof p | kerr ; ..."   (T K P hex, '-' = empty)
//    or: "assign ; p low high err ; ..."

import (
	"bytes"
	"encoding/hex"
	"encoding/json"
	"errors"
	"fmt"
	"runtime"
	"sort"
	"strconv"
	"strings"
	"time"

	"github.com/confluentinc/confluent-kafka-go/kafka"

	"github.com/digitalocean/firebolt/executor"
	"github.com/digitalocean/firebolt/fbcontext"
	"github.com/digitalocean/firebolt/message"
	"github.com/digitalocean/firebolt/node/kafkaproducer"
)

func init() {
	register("receiver", &component{gen: genReceiver, exec: execReceiver})
}

type scriptedProducer struct {
	ch     chan *kafka.Message
	events chan kafka.Event
}

func newScriptedProducer() *scriptedProducer {
	return &scriptedProducer{ch: make(chan *kafka.Message, 64), events: make(chan kafka.Event, 4)}
}
func (p *scriptedProducer) ProduceChannel() chan *kafka.Message { return p.ch }
func (p *scriptedProducer) Events() chan kafka.Event            { return p.events }
func (p *scriptedProducer) Flush(int) int                       { return 0 }
func (p *scriptedProducer) Close()                              {}

// patBytes is the payload the token "%<n>" stands for: n bytes of a fixed non-periodic-looking pattern
func patBytes(n int) []byte {
	b := make([]byte, n)
	for i := range b {
		b[i] = byte(i*7 + i/251 + 3)
	}
	return b
}

func hx(b []byte) string {
	if len(b) == 0 {
		return "-"
	}
	if len(b) > 64 && bytes.Equal(b, patBytes(len(b))) {
		return "%" + strconv.Itoa(len(b))
	}
	return hex.EncodeToString(b)
}
func unhx(s string) []byte {
	if s == "-" {
		return nil
	}
	if strings.HasPrefix(s, "%") {
		n, _ := strconv.Atoi(s[1:])
		return patBytes(n)
	}
	b, _ := hex.DecodeString(s)
	return b
}

var strPool = []string{"a", "b", "recoveryrequest", "t", "k1", "k2", "0", "", "héllo", "日本", " ", "a\"b", "<&>", "x\\y", "😀", "a b", "\n",
	"\x00", "a\x07b", "\x0b\x7f", "\U000e0001", "\u2028x", "recovery", "request7", // control characters, non-printable runes, strings whose concatenations coincide
	"a-b", "-", "t-"}

func genReceiver(r *rng, n int, tier string, emit func(string)) {
	h := func(s string) string { return hx([]byte(s)) }
	for _, c := range []string{
		"hist 1 ; send " + h("t") + " " + h("k") + " " + h("p1") + " ; ack " + h("t") + " " + h("k") + " - ; send " + h("t") + " " + h("k2") + " " + h("p2") + " ; eof 0 ; send " + h("t") + " " + h("k") + " " + h("p3") + " ; ack " + h("t") + " " + h("k") + " -",
		"hist 2 ; send " + h("t") + " " + h("k") + " " + h("p") + " ; eof 0 ; eof 0 ; ack " + h("t") + " " + h("k") + " - ; eof 1",
		"hist 1 ; send " + h("t") + " " + h("k") + " %513 ; send " + h("t") + " " + h("k2") + " %384 ; eof 0 ; send " + h("u") + " " + h("k") + " %2000 ; ack " + h("t") + " " + h("k2") + " %384",
		"hist 3 ; send " + h("a") + " " + h("k") + " - ; eof 0 ; eof 1 ; eof 0 ; send " + h("b") + " " + h("k") + " " + h("x") + " ; eof 2 ; eof 1",
		"hist 1 ; bad 0 ; bad 1 ; bad 2 ; send " + h("t") + " " + h("k") + " 00ff10 ; bad 3 ; eof 0 ; bad 4 ; kerr ; send " + h("t") + " " + h("k") + " 00",
		"hist 1 ; send " + h("t") + " " + h("k") + " " + h("old") + " ; send " + h("t") + " " + h("k") + " " + h("new") + " ; send " + h("u") + " " + h("k") + " " + h("other") + " ; eof 0",
		"hist 1 ; rsend " + h("t") + " " + h("k") + " 01 100 ; rack " + h("t") + " " + h("k") + " - -50 ; rsend " + h("t") + " " + h("j") + " 02 0 ; rsend " + h("t") + " " + h("j") + " 03 -9 ; eof 0 ; rsend " + h("t") + " " + h("k") + " 04 -100000",
		"hist 2 ; wm 0:0:5:1 1:0:0:0 ; send " + h("t") + " " + h("k") + " " + h("p") + " ; eof 1 ; ack " + h("t") + " " + h("k") + " - ; eof 0",
		"hist 1 ; ack " + h("t") + " " + h("k") + " - ; rnoack " + h("t") + " " + h("k") + " 0a0b ; send " + h("t") + " " + h("j") + " 01 ; rnopl " + h("t") + " " + h("j") + " 0 ; bad 0 ; eof 0 ; rack " + h("t") + " " + h("k") + " - 0 ; rnoack " + h("t") + " " + h("k") + " 0c ; rnopl " + h("t") + " " + h("k") + " 0",
		"assign ; 0 0 10 0 1 ; 1 5 9 0 0 ; 2 0 3 0 1",
		"assign ; 0 0 10 0 ; 1 0 50000 0 ; 2 0 50001 0 ; 3 100 60000 0 ; 4 100 50100 0 ; 5 100 50101 0 ; 6 7 9 1",
	} {
		emit(c)
	}
	maxOps := 60
	if tier == "thorough" {
		maxOps = 300
	}
	for i := 0; i < n; i++ {
		if r.chance(8) {
			parts := []string{"assign"}
			for p := 0; p < r.intn(5)+1; p++ {
				low := r.pick(0, 0, 5, 100, 1<<40)
				high := low + r.pick(0, 1, 49999, 50000, 50001, 50002, 1000000, 7)
				parts = append(parts, fmt.Sprintf("%d %d %d %s %s", p, low, high, b01(r.chance(8)), b01(r.chance(15))))
			}
			emit(strings.Join(parts, " ; "))
			continue
		}
		np := r.intn(4) + 1
		nk := r.intn(5) + 1
		nt := r.intn(3) + 1
		types := make([]string, nt)
		for j := range types {
			types[j] = strPool[r.intn(len(strPool)-3)] // without '-' mostly
			if tier == "thorough" && r.chance(4) {
				types[j] = strPool[len(strPool)-1-r.intn(3)] // contains '-': out of scope, correspondence only
			}
		}
		keys := make([]string, nk)
		for j := range keys {
			keys[j] = strPool[r.intn(len(strPool))]
		}
		ops := []string{fmt.Sprintf("hist %d", np)}
		if r.chance(30) {
			// the assignment is built first; watermark queries may fail or find the partition empty
			wm := "wm"
			for p := 0; p < np; p++ {
				low := r.pick(0, 0, 3)
				wm += fmt.Sprintf(" %d:%d:%d:%s", p, low, low+r.pick(0, 0, 4, 100), b01(r.chance(35)))
			}
			ops = append(ops, wm)
		}
		nops := r.intn(maxOps) + 1
		eofBias := r.intn(25) + 3
		for j := 0; j < nops; j++ {
			x := r.intn(100)
			t := h(types[r.intn(nt)])
			k := h(keys[r.intn(nk)])
			switch {
			case x < 45:
				pl := make([]byte, r.intn(6))
				for q := range pl {
					pl[q] = byte(r.intn(256))
				}
				if r.chance(20) {
					pl = []byte(strPool[r.intn(len(strPool))])
				}
				if r.chance(6) {
					pl = patBytes(int(r.pick(200, 384, 511, 512, 513, 700, 2000))) // a rate-data document, a long request list
				}
				ops = append(ops, fmt.Sprintf("send %s %s %s", t, k, hx(pl)))
			case x < 58:
				// an acknowledgement carries the payload of what is acknowledged, or none
				ap := "-"
				if r.chance(50) {
					ap = hx([]byte{byte(j), 0xac})
				}
				if r.chance(4) {
					ap = hx(patBytes(int(r.pick(384, 513, 900))))
				}
				ops = append(ops, fmt.Sprintf("ack %s %s %s", t, k, ap))
			case x < 65:
				// records of other instances, with clocks that disagree (past, far past, future)
				ops = append(ops, fmt.Sprintf("%s %s %s %s %d", r.pickS("rsend", "rsend", "rack"), t, k, hx([]byte{byte(j), 7}), r.pick(0, -5, -100000, 100000, 3600, -1, 400000000)))
			case x < 68:
				if r.chance(50) {
					ops = append(ops, fmt.Sprintf("rnoack %s %s %s", t, k, hx([]byte{byte(j), 9})))
				} else {
					ops = append(ops, fmt.Sprintf("rnopl %s %s %s", t, k, b01(r.chance(40))))
				}
			case x < 72:
				if r.chance(40) {
					ops = append(ops, fmt.Sprintf("bad %d %s %s", r.pick(5, 6), t, k))
				} else {
					ops = append(ops, fmt.Sprintf("bad %d", r.intn(5)))
				}
			case x < 72+eofBias:
				ops = append(ops, fmt.Sprintf("eof %d", r.intn(np)))
			case x < 98:
				ops = append(ops, fmt.Sprintf("send %s %s %s", t, k, hx([]byte{byte(j)})))
			default:
				ops = append(ops, "kerr")
			}
		}
		emit(strings.Join(ops, " ; "))
	}
}

type wireMirror struct {
	Message struct {
		MessageType string `json:"messagetype"`
		Key         string `json:"key"`
		Payload     []byte `json:"payload"`
	} `json:"message"`
	Updated      time.Time `json:"updated"`
	Acknowledged bool      `json:"ack"`
}

func fmtMsg(m message.Message) string {
	return hx([]byte(m.MessageType)) + ":" + hx([]byte(m.Key)) + ":" + hx(m.Payload)
}

func execReceiver(input string) string {
	consumerMetrics() // metrics.Init
	segs := strings.Split(input, ";")
	hd := strings.Fields(segs[0])
	topic := "m"
	if len(hd) == 1 && hd[0] == "assign" {
		cl := newScriptedConsumer()
		var parts []kafka.PartitionMetadata
		for _, seg := range segs[1:] {
			f := strings.Fields(seg)
			if len(f) != 4 && len(f) != 5 {
				continue
			}
			p, _ := strconv.ParseInt(f[0], 10, 32)
			cl.low[int32(p)], _ = strconv.ParseInt(f[1], 10, 64)
			cl.high[int32(p)], _ = strconv.ParseInt(f[2], 10, 64)
			cl.wmErr[int32(p)] = f[3] == "1"
			pm := kafka.PartitionMetadata{ID: int32(p)}
			if len(f) == 5 && f[4] == "1" {
				// the metadata response carries a (transient) error for this partition: it is a partition of the topic all the same
				pm.Error = kafka.NewError(kafka.ErrLeaderNotAvailable, "scripted", false)
			}
			parts = append(parts, pm)
		}
		r := message.VerifNewKafkaMessageReceiver(cl, topic, len(parts), nil)
		return fmtTPs(r.VerifBuildPartitionAssignments(parts), false)
	}
	if len(hd) != 2 || hd[0] != "hist" {
		return "bad-input"
	}
	np, _ := strconv.Atoi(hd[1])
	sp := newScriptedProducer()
	readCh := sp.ch
	bp := len(input)%4 == 0
	if bp {
		// backpressure: the produce channel holds one record, the client takes them out slowly; order must be kept
		sp.ch = make(chan *kafka.Message, 1)
		collected := make(chan *kafka.Message, 8192)
		go func(in chan *kafka.Message) {
			n := 0
			for m := range in {
				// a slow client: it yields before taking each record and pauses now and then (a sleep per record would make
				// the long histories of the thorough tier take an hour)
				runtime.Gosched()
				if n%16 == 0 {
					time.Sleep(50 * time.Microsecond)
				}
				n++
				collected <- m
			}
		}(sp.ch)
		defer close(sp.ch)
		readCh = collected
	}
	next := func() *kafka.Message {
		if bp {
			select {
			case km := <-readCh:
				return km
			case <-time.After(200 * time.Millisecond):
				return nil
			}
		}
		select {
		case km := <-readCh:
			return km
		default:
			return nil
		}
	}
	// several senders (nodes and the application each hold one) write to the same topic
	kp0, kp1 := kafkaproducer.VerifNewKafkaProducer(sp, topic), kafkaproducer.VerifNewKafkaProducer(sp, topic)
	// the producers' delivery-report loops run, as in production: the scripted client reports a failed delivery for some
	// records (below); a report is information for the log - it must not put anything on the topic
	kp0.VerifStartEventsReceiver()
	kp1.VerifStartEventsReceiver()
	defer close(sp.events)
	senders := []message.Sender{message.VerifNewKafkaMessageSender(kp0, topic), message.VerifNewKafkaMessageSender(kp1, topic)}
	var delivered []string
	recvClient := newScriptedConsumer()
	recv := message.VerifNewKafkaMessageReceiver(recvClient, topic, np, func(m message.Message) []error {
		delivered = append(delivered, fmtMsg(m))
		if len(m.Payload)%3 == 1 {
			// some subscriber fails on this message: it has still been delivered, once
			return []error{errors.New("scripted subscriber failure")}
		}
		return nil
	})
	failureReports := 0 // at most two scripted delivery failures per case (each costs a pause for the report loop to act)
	var outs []string
	var opsF [][]string
	for _, seg := range segs[1:] {
		if f := strings.Fields(seg); len(f) > 0 {
			if f[0] == "wm" {
				// the receiver builds its partition assignment first, against scripted watermark queries (p:low:high:err)
				var parts []kafka.PartitionMetadata
				for _, w := range f[1:] {
					q := strings.Split(w, ":")
					if len(q) != 4 {
						return "bad-input"
					}
					pp, _ := strconv.ParseInt(q[0], 10, 32)
					recvClient.low[int32(pp)], _ = strconv.ParseInt(q[1], 10, 64)
					recvClient.high[int32(pp)], _ = strconv.ParseInt(q[2], 10, 64)
					recvClient.wmErr[int32(pp)] = q[3] == "1"
					parts = append(parts, kafka.PartitionMetadata{ID: int32(pp)})
				}
				recv.VerifBuildPartitionAssignments(parts)
				continue
			}
			opsF = append(opsF, f)
		}
	}
	finish := func(pre string) {
		sort.Strings(delivered)
		if len(delivered) == 0 {
			outs = append(outs, pre+".")
		} else {
			outs = append(outs, pre+"D=["+strings.Join(delivered, ",")+"]")
		}
	}
	for i := 0; i < len(opsF); i++ {
		f := opsF[i]
		delivered = nil
		pre := ""
		switch f[0] {
		case "send", "ack":
			// a run of consecutive sends/acks is handed to the sender first and only then drained from the producer's
			// queue (the real producer drains asynchronously), so records that alias shared state are exposed
			j := i
			var errs []bool
			for j < len(opsF) && (opsF[j][0] == "send" || opsF[j][0] == "ack") && j-i < 32 {
				g := opsF[j]
				msg := message.Message{MessageType: string(unhx(g[1])), Key: string(unhx(g[2])), Payload: unhx(g[3])}
				var err error
				sender := senders[(j+len(g[1]))%2]
				if (j+len(g[2]))%3 == 0 {
					// sent / acknowledged by a node: through the functions the node's context is configured with, which use
					// the process-wide sender
					message.VerifSetSender(sender)
					cm := fbcontext.Message{MessageType: msg.MessageType, Key: msg.Key, Payload: msg.Payload}
					if g[0] == "send" {
						err = executor.VerifNodeSendMessage(cm)
					} else {
						err = executor.VerifNodeAckMessage(cm)
					}
				} else if g[0] == "send" {
					err = sender.Send(msg)
				} else {
					err = sender.Ack(msg)
				}
				errs = append(errs, err != nil)
				j++
			}
			for k := i; k < j; k++ {
				delivered = nil
				if errs[k-i] {
					finish("senderr ")
					continue
				}
				if km := next(); km != nil {
					var w wireMirror
					if e := json.Unmarshal(km.Value, &w); e != nil {
						pre = "K=" + hx(km.Key) + " W=undecodable "
					} else {
						pre = fmt.Sprintf("K=%s W=%s:%s:%s:%s ", hx(km.Key), hx([]byte(w.Message.MessageType)), hx([]byte(w.Message.Key)), hx(w.Message.Payload), b01(w.Acknowledged))
					}
					recv.VerifProcessEvent(&kafka.Message{TopicPartition: kafka.TopicPartition{Topic: &topic}, Key: km.Key, Value: km.Value})
					if (len(km.Value)+k)%4 == 0 && failureReports < 2 {
						failureReports++
						// the broker reports this record as not delivered (after later records of the run were queued)
						failed := *km
						failed.TopicPartition.Error = errors.New("scripted delivery failure")
						sp.events <- &failed
						time.Sleep(2 * time.Millisecond)
					}
				} else {
					pre = "norecord "
				}
				finish(pre)
			}
			if !bp {
				select {
				case <-readCh:
					outs[len(outs)-1] = "extra-record " + outs[len(outs)-1]
				default:
				}
			}
			i = j - 1
			continue
		case "rsend", "rack":
			// a record written by another instance: same wire format, arbitrary 'updated' timestamp (clock skew)
			var w wireMirror
			w.Message.MessageType = string(unhx(f[1]))
			w.Message.Key = string(unhx(f[2]))
			w.Message.Payload = unhx(f[3])
			w.Acknowledged = f[0] == "rack"
			d, _ := strconv.ParseInt(f[4], 10, 64)
			w.Updated = time.Unix(1700000000+d, 0).UTC()
			v, _ := json.Marshal(w)
			recv.VerifProcessEvent(&kafka.Message{TopicPartition: kafka.TopicPartition{Topic: &topic}, Key: []byte(w.Message.MessageType + "-" + w.Message.Key), Value: v})
		case "rnoack", "rnopl":
			// records of other writers that omit optional JSON fields
			ty, _ := json.Marshal(string(unhx(f[1])))
			ky, _ := json.Marshal(string(unhx(f[2])))
			var v []byte
			if f[0] == "rnoack" {
				pl, _ := json.Marshal(unhx(f[3]))
				v = []byte(fmt.Sprintf(`{"message":{"messagetype":%s,"key":%s,"payload":%s}}`, ty, ky, pl))
			} else {
				v = []byte(fmt.Sprintf(`{"message":{"messagetype":%s,"key":%s},"updated":"2023-11-14T22:13:20Z","ack":%v}`, ty, ky, f[3] == "1"))
			}
			recv.VerifProcessEvent(&kafka.Message{TopicPartition: kafka.TopicPartition{Topic: &topic}, Key: []byte(string(unhx(f[1])) + "-" + string(unhx(f[2]))), Value: v})
		case "bad":
			var v []byte
			switch f[1] {
			case "0":
				v = []byte("not json")
			case "1":
				v = []byte(`{"message": 5, "ack": false}`)
			case "2":
				v = []byte{}
			case "3":
				v = []byte(`[1,2]`)
			case "6":
				// a complete, valid wire document followed by junk: not a JSON document as a whole, so undecodable
				ty, ky := "t", "k"
				if len(f) >= 4 {
					ty, ky = string(unhx(f[2])), string(unhx(f[3]))
				}
				tj, _ := json.Marshal(ty)
				kj, _ := json.Marshal(ky)
				v = []byte(fmt.Sprintf(`{"message":{"messagetype":%s,"key":%s,"payload":"AQ=="},"updated":"2023-11-14T22:13:20Z","ack":%v} trailing{`, tj, kj, len(ky)%2 == 0))
			case "5":
				// the wire layout of a real record, but with an 'updated' that is not a timestamp: undecodable as a whole
				ty, ky := "t", "k"
				if len(f) >= 4 {
					ty, ky = string(unhx(f[2])), string(unhx(f[3]))
				}
				tj, _ := json.Marshal(ty)
				kj, _ := json.Marshal(ky)
				v = []byte(fmt.Sprintf(`{"message":{"messagetype":%s,"key":%s,"payload":"AQ=="},"updated":"yesterday","ack":%v}`, tj, kj, len(ky)%2 == 0))
			default:
				v = []byte(`{"message":{"messagetype":"t","key":"k","payload":"!!notbase64"},"ack":false}`)
			}
			recv.VerifProcessEvent(&kafka.Message{TopicPartition: kafka.TopicPartition{Topic: &topic}, Value: v})
		case "eof":
			p, _ := strconv.ParseInt(f[1], 10, 32)
			recv.VerifProcessEvent(kafka.PartitionEOF{Topic: &topic, Partition: int32(p)})
		case "kerr":
			recv.VerifProcessEvent(kafka.NewError(kafka.ErrTransport, "scripted", false))
		default:
			return "bad-input"
		}
		finish(pre)
	}
	return strings.Join(outs, " ; ") + " # init=" + b01(recv.Initialized())
}
