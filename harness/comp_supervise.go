package main

// component "supervise" (C18): a scripted source fails after given numbers of events; the executor must re-create, set up
// and restart it (hard-coded 10 s pause per restart) and end the run on a nil return.
// input: "sup <nevents> fails=<a,b,..|-> [delay=<incarnation>:<ms>] [cancelwrap=1] [runms=<incarnation>:<ms>] [setupfail=<incarnation>]"
// runms: that incarnation keeps running for so long before it fails.  setupfail: the Setup of that incarnation returns an
// error — the executor ends the process (os.Exit), so the scenario runs in a child process whose lifecycle log is streamed.

import (
	"bufio"
	"fmt"
	"os"
	"os/exec"
	"strconv"
	"strings"
	"time"

	"github.com/digitalocean/firebolt/config"
	"github.com/digitalocean/firebolt/executor"
	"github.com/digitalocean/firebolt/node"
)

func init() {
	register("supervise", &component{gen: genSupervise, exec: execSupervise})
	// the concurrency bound of a node across a source restart (C05): one scenario, 10 s
	register("supervise-C05", &component{gen: func(r *rng, n int, tier string, emit func(string)) {
		emit("sup 9 fails=3 lat=1500")
		if tier == "thorough" {
			emit("sup 12 fails=2,3 lat=1000")
		}
	}, exec: execSupervise})
}

func genSupervise(r *rng, n int, tier string, emit func(string)) {
	emit("sup 6 fails=-")
	emit("sup 6 fails=0")
	emit("sup 7 fails=3")
	emit("sup 5 fails=5")
	emit("sup 6 fails=2 cancelwrap=1")
	emit("sup 4 fails=1 delay=2:10600")
	emit("sup 3 fails=1 runms=1:10600")
	emit("sup 4 fails=2 setupfail=2")
	emit("sup 5 fails=2 errkind=retriable")
	if tier == "thorough" {
		emit("sup 9 fails=2,0,4")
		emit("sup 3 fails=1,1")
		for i := 0; i < n; i++ {
			k := r.intn(3) + 1
			var fs []string
			for j := 0; j < k; j++ {
				fs = append(fs, strconv.Itoa(r.intn(4)))
			}
			emit(fmt.Sprintf("sup %d fails=%s", r.intn(12), strings.Join(fs, ",")))
		}
	}
}

func execSupervise(input string) string {
	registerExecTypes()
	f := strings.Fields(input)
	if len(f) < 3 || f[0] != "sup" {
		return "bad-input"
	}
	n, _ := strconv.Atoi(f[1])
	if strings.Contains(input, "setupfail=") && os.Getenv("FBV_CHILD") == "" {
		return superviseInChild(input)
	}
	src := &sourceScript{stopAt: -1, setupDelay: map[int]time.Duration{}, runFor: map[int]time.Duration{}}
	latUs := 0
	for _, o := range f[2:] {
		switch {
		case strings.HasPrefix(o, "fails=") && o != "fails=-":
			for _, x := range strings.Split(strings.TrimPrefix(o, "fails="), ",") {
				v, _ := strconv.Atoi(x)
				src.failAfter = append(src.failAfter, v)
			}
		case strings.HasPrefix(o, "delay="):
			p := strings.Split(strings.TrimPrefix(o, "delay="), ":")
			inc, _ := strconv.Atoi(p[0])
			ms, _ := strconv.Atoi(p[1])
			src.setupDelay[inc] = time.Duration(ms) * time.Millisecond
		case o == "cancelwrap=1":
			src.cancelWrap = true
		case strings.HasPrefix(o, "errkind="):
			src.errKind = strings.TrimPrefix(o, "errkind=")
		case strings.HasPrefix(o, "lat="):
			latUs, _ = strconv.Atoi(strings.TrimPrefix(o, "lat="))
		case strings.HasPrefix(o, "runms="):
			p := strings.Split(strings.TrimPrefix(o, "runms="), ":")
			inc, _ := strconv.Atoi(p[0])
			ms, _ := strconv.Atoi(p[1])
			src.runFor[inc] = time.Duration(ms) * time.Millisecond
		case strings.HasPrefix(o, "setupfail="):
			src.setupFailAt, _ = strconv.Atoi(strings.TrimPrefix(o, "setupfail="))
		}
	}
	for i := 0; i < n; i++ {
		src.events = append(src.events, fmt.Sprintf("e%d", i))
	}
	// the process has already run another executor to completion and shut it down (a test binary, an embedding application)
	{
		prev := &sourceScript{stopAt: -1, events: []string{"p0"}, quiet: true}
		currentSource = prev
		prun := nextRunID()
		psp := &nodeSpec{idx: 0, id: fmt.Sprintf("r%d_0", prun), kind: "sync", wPass: 100}
		setScenario([]*nodeSpec{psp})
		pex, err := executor.New(executor.WithConfig(config.Config{ApplicationName: "verif", MetricsPrefix: "verif", ShutdownTimeOut: 2,
			Source: &node.SourceConfig{Name: "vsource", ID: fmt.Sprintf("r%d_src", prun)},
			Nodes:  []*node.Config{{ID: psp.id, Name: "vsync", Workers: 1, BufferSize: 1}}}))
		if err == nil {
			pex.Shutdown()
			pdone := make(chan struct{})
			go func() { pex.Execute(); close(pdone) }()
			select {
			case <-pdone:
			case <-time.After(5 * time.Second):
			}
		}
		clearScenario([]*nodeSpec{psp})
	}
	currentSource = src
	run := nextRunID()
	sp := &nodeSpec{idx: 0, id: fmt.Sprintf("r%d_0", run), kind: "sync", wPass: 100, latency: time.Duration(latUs) * time.Microsecond}
	setScenario([]*nodeSpec{sp})
	defer clearScenario([]*nodeSpec{sp})
	cfg := config.Config{ApplicationName: "verif", MetricsPrefix: "verif", ShutdownTimeOut: 5,
		Source: &node.SourceConfig{Name: "vsource", ID: fmt.Sprintf("r%d_src", run), Params: map[string]string{"k": "v", "run": strconv.FormatInt(run, 10),
			"librdkafka.sasl.password": "hunter2", "api_token": "t0k3n", "secretkey": "s3cr3t"}},
		Nodes: []*node.Config{{ID: sp.id, Name: "vsync", Workers: 1, BufferSize: 2}}}
	ex, err := executor.New(executor.WithConfig(cfg))
	if err != nil {
		return "harness-error " + err.Error()
	}
	done := make(chan struct{})
	go func() {
		ex.Execute()
		close(done)
	}()
	returned := true
	budget := time.Duration(len(src.failAfter))*10500*time.Millisecond + 6*time.Second
	for _, d := range src.setupDelay {
		budget += d
	}
	for _, d := range src.runFor {
		budget += d
	}
	if src.setupFailAt != 0 {
		budget += 15 * time.Second // long enough to see whether anything is started after the failed Setup
	}
	select {
	case <-done:
	case <-time.After(budget):
		returned = false
	}
	src.mu.Lock()
	defer src.mu.Unlock()
	distinct := func(xs []string) int {
		m := map[string]bool{}
		for _, x := range xs {
			m[x] = true
		}
		return len(m)
	}
	var ids []string
	var log []string
	for _, l := range src.log {
		if strings.HasPrefix(l, "init") {
			p := strings.SplitN(l, ":", 2)
			ids = append(ids, p[1])
			l = p[0]
		}
		if strings.HasPrefix(l, "shutdown") {
			continue
		}
		log = append(log, l)
	}
	sp.mu.Lock()
	recv := strings.Join(sp.recv, ",")
	hw := sp.hw
	sp.mu.Unlock()
	if recv == "" {
		recv = "-"
	}
	// pause between a failed Start returning and the next Start
	var pauses []string
	for i, ft := range src.failTimes {
		if i+1 < len(src.startTimes) {
			pauses = append(pauses, strconv.FormatInt(src.startTimes[i+1].Sub(ft).Milliseconds(), 10))
		}
	}
	ps := "-"
	if len(pauses) > 0 {
		ps = strings.Join(pauses, ",")
	}
	return fmt.Sprintf("log=%s outch=%d params=%d ids=%d recv=%s returned=%s pauses=%s hw=%d", strings.Join(log, ","), distinct(src.outCh), distinct(src.params), distinct(ids), recv, b01(returned), ps, hw)
}

// superviseInChild runs a scenario that ends in os.Exit in a child process and reports the lifecycle log it streamed
func superviseInChild(input string) string {
	cmd := exec.Command(os.Args[0], "exec", "supervise")
	cmd.Env = append(os.Environ(), "FBV_CHILD=1")
	cmd.Stdin = strings.NewReader("c\t" + input + "\n")
	stderr, err := cmd.StderrPipe()
	if err != nil {
		return "harness-error " + err.Error()
	}
	if err := cmd.Start(); err != nil {
		return "harness-error " + err.Error()
	}
	var log []string
	done := make(chan struct{})
	go func() {
		sc := bufio.NewScanner(stderr)
		for sc.Scan() {
			if l := sc.Text(); strings.HasPrefix(l, "LOG ") {
				l = strings.TrimPrefix(l, "LOG ")
				if strings.HasPrefix(l, "init") {
					l = strings.SplitN(l, ":", 2)[0]
				}
				if !strings.HasPrefix(l, "shutdown") {
					log = append(log, l)
				}
			}
		}
		close(done)
	}()
	exited := make(chan error, 1)
	go func() { <-done; exited <- cmd.Wait() }()
	status := "running"
	select {
	case err := <-exited:
		status = "0"
		if ee, ok := err.(*exec.ExitError); ok {
			status = strconv.Itoa(ee.ExitCode())
		}
	case <-time.After(40 * time.Second):
		_ = cmd.Process.Kill()
		<-exited
	}
	return fmt.Sprintf("log=%s exit=%s", strings.Join(log, ","), status)
}
