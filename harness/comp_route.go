package main

// component "route" (C11): Executor.deliverMessage on a real executor built from harness-owned source and nodes.
// input: "tree S <subs> <fail> <nroots> N <subs> <fail> <nchildren> ... ; msg <type> <key> <payloadhex> ; resub <index> <subs> ; restart ; ..."
// restart = the source is re-created as after a failed Start (prepareSource): the fresh instance subscribes as configured

import (
	"fmt"
	"sort"
	"strconv"
	"strings"

	"github.com/digitalocean/firebolt/config"
	"github.com/digitalocean/firebolt/executor"
	"github.com/digitalocean/firebolt/message"
	"github.com/digitalocean/firebolt/node"
)

func init() {
	register("route", &component{gen: genRoute, exec: execRoute})
}

var msgTypes = []string{"a", "b", "c", "recoveryrequest", "x"}

func genSubs(r *rng) string {
	var ss []string
	for _, t := range msgTypes {
		if r.chance(30) {
			ss = append(ss, t)
		}
	}
	if r.chance(10) {
		ss = append(ss, ss...) // overlapping / repeated subscription
	}
	if len(ss) == 0 {
		return "-"
	}
	return strings.Join(ss, ",")
}

func genRoute(r *rng, n int, tier string, emit func(string)) {
	for _, c := range []string{
		"tree S a 0 1 N a 0 0 ; msg a k 01 ; msg b k 02",
		"tree S a 0 1 N a 0 1 N a 0 0 ; msg a k %1024 ; msg a k %1025 ; msg a k %70000",
		"treed S a 0 2 N a 0 1 N a 0 0 N a 0 1 N b 0 0 ; msg a k 01 ; msg b k 02", // nodes sharing an id: each one still gets the message
		"tree S - 0 2 N a 1 2 N a 0 0 N b 0 1 N a,b 0 0 N a 0 0 ; msg a k - ; msg b k2 ff ; msg zz k -",
		"tree S a 0 1 N a 0 0 ; msg a k 01 ; restart ; msg a k 02 ; resub -1 b ; msg b k 03 ; restart ; msg b k 04 ; msg a k 05",
		"tree S a,b 1 1 N a 1 1 N a 1 1 N a 0 0 ; msg a k 00 ; resub 2 - ; msg a k 00 ; resub -1 b ; msg a k 01 ; resub 0 a,b ; msg b k 03",
	} {
		emit(c)
	}
	for i := 0; i < n; i++ {
		var parts []string
		count := 0
		var build func(depth int)
		build = func(depth int) {
			count++
			k := 0
			if depth < 5 && count < 14 {
				k = r.intn(3)
				if depth == 1 {
					k = r.intn(4)
				}
			}
			idx := len(parts)
			parts = append(parts, "N", genSubs(r), b01(r.chance(25)), "0")
			kids := 0
			for j := 0; j < k; j++ {
				build(depth + 1)
				kids++
			}
			parts[idx+3] = strconv.Itoa(kids)
		}
		nroots := r.intn(3) + 1
		for j := 0; j < nroots; j++ {
			build(1)
		}
		hd := r.pickS("tree", "tree", "tree", "tree", "treed") + " S " + genSubs(r) + " " + b01(r.chance(25)) + " " + strconv.Itoa(nroots) + " " + strings.Join(parts, " ")
		ops := []string{hd}
		for j := r.intn(8) + 1; j > 0; j-- {
			if r.chance(8) {
				ops = append(ops, "restart")
			} else if r.chance(25) {
				ops = append(ops, fmt.Sprintf("resub %d %s", r.intn(count+1)-1, genSubs(r)))
			} else {
				t := msgTypes[r.intn(len(msgTypes))]
				if r.chance(8) {
					t = "unknown"
				}
				pl := hx([]byte{byte(j), byte(i)})
				if r.chance(15) {
					// long payloads around powers of two and beyond (a rate-data document, a large recovery request)
					pl = fmt.Sprintf("%%%d", r.pick(65, 255, 256, 1023, 1024, 1025, 4095, 4097, 65536, 100000, 1<<20+1))
				}
				ops = append(ops, fmt.Sprintf("msg %s k%d %s", t, r.intn(3), pl))
			}
		}
		emit(strings.Join(ops, " ; "))
	}
}

func subsList(s string) []string {
	if s == "-" {
		return []string{}
	}
	return strings.Split(s, ",")
}

func execRoute(input string) string {
	registerExecTypes()
	segs := strings.Split(input, ";")
	toks := strings.Fields(segs[0])
	if len(toks) < 5 || (toks[0] != "tree" && toks[0] != "treed") || toks[1] != "S" {
		return "bad-input"
	}
	dupIDs := toks[0] == "treed" // pairs of nodes carry the same id (configurations built in code get no id check at all)
	run := nextRunID()
	src := &sourceScript{subs: subsList(toks[2]), failRecv: toks[3] == "1", stopAt: -1}
	currentSource = src
	nroots, _ := strconv.Atoi(toks[4])
	pos := 5
	var specs, post []*nodeSpec
	var build func() *node.Config
	build = func() *node.Config {
		if pos+4 > len(toks) || toks[pos] != "N" {
			return nil
		}
		idx := len(specs)
		sp := &nodeSpec{idx: idx, id: fmt.Sprintf("r%d_%d", run, idx), kind: "sync", wPass: 100, subs: subsList(toks[pos+1]), failRecv: toks[pos+2] == "1"}
		if dupIDs {
			sp.id = fmt.Sprintf("r%d_%d", run, idx/2)
		}
		specs = append(specs, sp)
		nc, _ := strconv.Atoi(toks[pos+3])
		pos += 4
		c := &node.Config{ID: sp.id, Name: "vsync", Workers: 1, BufferSize: 1}
		for i := 0; i < nc; i++ {
			ch := build()
			if ch == nil {
				return nil
			}
			c.Children = append(c.Children, ch)
		}
		post = append(post, sp) // nodes are instantiated children first
		return c
	}
	cfg := config.Config{ApplicationName: "verif", MetricsPrefix: "verif", Source: &node.SourceConfig{Name: "vsource", ID: fmt.Sprintf("r%d_src", run)}, ShutdownTimeOut: 2}
	for i := 0; i < nroots; i++ {
		c := build()
		if c == nil {
			return "bad-input"
		}
		cfg.Nodes = append(cfg.Nodes, c)
	}
	setScenario(specs)
	defer clearScenario(specs)
	// a quarter of the nodes subscribe when they are constructed (before the executor calls Init), the others in Setup
	factorySubsMu.Lock()
	factorySubs = nil
	factorySpecs = append([]*nodeSpec(nil), post...)
	for _, sp := range post {
		if sp.idx%4 == 1 {
			factorySubs = append(factorySubs, sp.subs)
		} else {
			factorySubs = append(factorySubs, nil)
		}
	}
	factorySubsMu.Unlock()
	ex, err := executor.New(executor.WithConfig(cfg))
	factorySubsMu.Lock()
	factorySubs = nil
	factorySpecs = nil
	factorySubsMu.Unlock()
	if err != nil {
		return "harness-error " + err.Error()
	}
	var outs []string
	for _, seg := range segs[1:] {
		f := strings.Fields(seg)
		if len(f) == 0 {
			continue
		}
		switch f[0] {
		case "msg":
			for _, s := range specs {
				s.receipts = nil
			}
			src.receipts = nil
			src.receiptIncs = nil
			errs := ex.VerifDeliverMessage(message.Message{MessageType: f[1], Key: f[2], Payload: unhx(f[3])})
			var rec []string
			fields := ""
			note := func(rs []string, who int) {
				for _, r := range rs {
					rec = append(rec, strconv.Itoa(who))
					parts := strings.SplitN(r, ":", 3)
					if parts[0] != f[1] {
						fields = "type-changed"
					} else if fields == "" {
						fields = parts[1] + ":" + parts[2]
					} else if fields != parts[1]+":"+parts[2] {
						fields = "differs-between-recipients"
					}
				}
			}
			for i, r := range src.receipts {
				who := -1
				if src.receiptIncs[i] != src.incarnation {
					who = -2 // a source instance that has been replaced: nobody the message may go to
				}
				note([]string{r}, who)
			}
			for _, s := range specs {
				note(s.receipts, s.idx)
			}
			var es []int
			// recipients that fail with one shared error value (same text): attributed in delivery order
			var sharedFailing []int
			for _, sp := range specs {
				if sp.failRecv && sp.idx%3 == 2 && len(sp.receipts) > 0 {
					sharedFailing = append(sharedFailing, sp.idx)
				}
			}
			for _, e := range errs {
				msg := e.Error()
				if msg == "recv-fail-source" {
					es = append(es, -1)
				} else if msg == "recv-fail-shared" {
					if len(sharedFailing) > 0 {
						es = append(es, sharedFailing[0])
						sharedFailing = sharedFailing[1:]
					} else {
						es = append(es, -98)
					}
				} else if strings.HasPrefix(msg, "recv-fail-") {
					v, _ := strconv.Atoi(strings.TrimPrefix(msg, "recv-fail-"))
					es = append(es, v)
				} else {
					es = append(es, -99)
				}
			}
			_ = sort.Ints
			esS := make([]string, len(es))
			for i, v := range es {
				esS[i] = strconv.Itoa(v)
			}
			if fields == "" {
				fields = f[2] + ":" + f[3]
			}
			outs = append(outs, fmt.Sprintf("r=[%s] e=[%s] f=%s", strings.Join(rec, ","), strings.Join(esS, ","), fields))
		case "resub":
			i, _ := strconv.Atoi(f[1])
			if i == -1 {
				(*ex.GetSource()).(interface{ Subscribe([]string) }).Subscribe(subsList(f[2])) // *vsource or *vsourceAlt
			} else if i >= 0 && i < len(specs) {
				if specs[i].self != nil {
					specs[i].self.Subscribe(subsList(f[2]))
				}
			}
			outs = append(outs, ".")
		case "restart":
			ex.VerifPrepareSource()
			outs = append(outs, ".")
		default:
			return "bad-input"
		}
	}
	return strings.Join(outs, " ; ")
}
