package main

// component "timeout" (C17, runtime part): a pipeline root -> inner -> leaf (root with an error handler) in which one node
// stalls; measured: time between the source's Start returning and Execute returning.
// input: "to <timeoutSec> stall=<root|inner|leaf|handler|none>:<forever|long|send> n=<events> fill=<0|1> pw=<parent workers> hw=<handler workers>"
// send = the node is stalled forever inside Executor.SendMessage (a message sender that never returns)
// slow = the node is not stalled but takes 100 ms per event: far too slow to drain its backlog within the timeout
// shutblocks=1: the stalled node's Shutdown hook cannot return while its processing call is wedged (it needs the same lock)
// async=1: the inner node is an asynchronous node that answers half of its events with an error (nothing stalls)
// flush=stuck: the message sender's Kafka producer still has an undeliverable record queued at shutdown (Flush keeps
// reporting 1 outstanding); sd=1: Executor.Shutdown() is called early and the channel it returns is ignored

import (
	"fmt"
	"os"
	"strconv"
	"strings"
	"time"

	"github.com/digitalocean/firebolt/config"
	"github.com/digitalocean/firebolt/executor"
	"github.com/digitalocean/firebolt/message"
	"github.com/digitalocean/firebolt/node"
	"github.com/digitalocean/firebolt/node/kafkaproducer"
)

// blockingSender is a message sender whose Send/Ack never return until the gate opens
type blockingSender struct{ gate chan struct{} }

func (b *blockingSender) Send(msg message.Message) error { <-b.gate; return nil }
func (b *blockingSender) Ack(msg message.Message) error  { <-b.gate; return nil }
func (b *blockingSender) Shutdown()                      {}

// stuckProducer is a Kafka producer client whose queue never drains: Flush always reports one outstanding record
type stuckProducer struct{ scriptedProducer }

func (p *stuckProducer) Flush(int) int { return 1 }

func init() {
	register("timeout", &component{gen: genTimeout, exec: execTimeout})
}

func genTimeout(r *rng, n int, tier string, emit func(string)) {
	emit("to 1 stall=leaf:forever n=3 fill=0 pw=1 hw=1")
	emit("to 1 stall=root:forever n=2 fill=0 pw=2 hw=1")
	emit("to 1 stall=inner:long n=3 fill=0 pw=1 hw=1")
	emit("to 1 stall=handler:forever n=6 fill=0 pw=1 hw=3")
	emit("to 6 stall=leaf:forever n=3 fill=0 pw=1 hw=1")
	emit("to 5 stall=none:forever n=25 fill=0 pw=2 hw=1")
	emit("to 1 stall=leaf:forever n=80 fill=1 pw=1 hw=1")
	emit("to 1 stall=inner:send n=2 fill=0 pw=1 hw=1")
	emit("to 1 stall=leaf+handler:forever n=4 fill=0 pw=2 hw=2")
	emit("to 3 stall=none:forever n=10 fill=0 pw=1 hw=1 flush=stuck")
	emit("to 1 stall=root:slow n=30 fill=0 pw=1 hw=1")
	emit("to 1 stall=leaf:forever n=3 fill=0 pw=1 hw=1 shutblocks=1")
	emit("to 3 stall=none:forever n=30 fill=0 pw=1 hw=1 sd=1")
	emit("to 3 stall=none:forever n=12 fill=0 pw=1 hw=1 roots=3")
	emit("to 1 stall=leaf:forever n=3 fill=0 pw=1 hw=1 roots=2")
	emit("to 2 stall=inner:forever n=3 fill=0 pw=1 hw=1 file=1")
	emit("to 4 stall=none:forever n=8 fill=0 pw=2 hw=1 file=1 roots=2")
	emit("to 4 stall=none:forever n=16 fill=0 pw=2 hw=1 async=1")
	if tier == "thorough" {
		for i := 0; i < n; i++ {
			role := r.pickS("root", "inner", "leaf", "handler")
			pw, hw := int(r.pick(1, 2, 3)), int(r.pick(1, 2, 4))
			// keep the number of events within what the pipeline can absorb above the stalled node, so that the main loop is
			// not blocked on a full root buffer (that situation is the separate fill=1 scenario, known finding F6)
			room := map[string]int{"root": pw + 1, "inner": pw + 2, "leaf": pw + 4, "handler": hw + 6}[role]
			emit(fmt.Sprintf("to %d stall=%s:%s n=%d fill=0 pw=%d hw=%d roots=%d file=%d", r.pick(1, 2, 6), role, r.pickS("forever", "long", "send", "forever"), r.intn(room)+1, pw, hw, r.pick(1, 1, 2, 3), r.pick(0, 0, 1)))
		}
		emit("to 2 stall=inner:forever n=120 fill=1 pw=2 hw=1")
		emit("to 2 stall=inner+handler:long n=3 fill=0 pw=2 hw=1")
		emit("to 1 stall=root+handler:forever n=2 fill=0 pw=3 hw=2")
		emit("to 3 stall=none:forever n=40 fill=0 pw=1 hw=1")
	}
}

func execTimeout(input string) string {
	registerExecTypes()
	f := strings.Fields(input)
	if len(f) < 3 || f[0] != "to" {
		return "bad-input"
	}
	timeoutSec, _ := strconv.Atoi(f[1])
	opt := map[string]string{}
	for _, o := range f[2:] {
		p := strings.SplitN(o, "=", 2)
		if len(p) == 2 {
			opt[p[0]] = p[1]
		}
	}
	stall := strings.SplitN(opt["stall"], ":", 2)
	role, mode := stall[0], "forever"
	if len(stall) == 2 {
		mode = stall[1]
	}
	n, _ := strconv.Atoi(opt["n"])
	pw, _ := strconv.Atoi(opt["pw"])
	hw, _ := strconv.Atoi(opt["hw"])
	if pw < 1 {
		pw = 1
	}
	if hw < 1 {
		hw = 1
	}
	run := nextRunID()
	mk := func(idx int, kind string) *nodeSpec {
		return &nodeSpec{idx: idx, id: fmt.Sprintf("r%d_%d", run, idx), kind: kind, wPass: 100}
	}
	root, inner, leaf, handler := mk(0, "sync"), mk(1, "sync"), mk(2, "sync"), mk(3, "sync")
	if role == "handler" {
		root.wPass, root.wError = 0, 100 // every event fails at the root and goes to the handler
	} else if strings.Contains(role, "handler") {
		root.wPass, root.wError = 50, 50 // several nodes stall: half of the events go down, half to the handler
	}
	gate := make(chan struct{})
	for _, r1 := range strings.Split(role, "+") {
		var sp *nodeSpec
		switch r1 {
		case "root":
			sp = root
		case "inner":
			sp = inner
		case "leaf":
			sp = leaf
		case "handler":
			sp = handler
		}
		if sp == nil {
			continue
		}
		if mode == "slow" {
			sp.latency = 100 * time.Millisecond
		} else {
			sp.gate = gate
			sp.shutBlocks = opt["shutblocks"] == "1"
		}
	}
	innerName := "vsync"
	if opt["async"] == "1" {
		inner.kind, innerName = "async", "vasync"
		inner.wPass, inner.wError = 50, 50
	}
	specs := []*nodeSpec{root, inner, leaf, handler}
	src := &sourceScript{stopAt: -1}
	for i := 0; i < n; i++ {
		src.events = append(src.events, fmt.Sprintf("e%d", i))
	}
	currentSource = src
	cfg := config.Config{ApplicationName: "verif", MetricsPrefix: "verif", ShutdownTimeOut: timeoutSec,
		Source: &node.SourceConfig{Name: "vsource", ID: fmt.Sprintf("r%d_src", run)},
		Nodes: []*node.Config{{ID: root.id, Name: "vsync", Workers: pw, BufferSize: 2,
			ErrorHandler: &node.Config{ID: handler.id, Name: "vhsync", Workers: hw, BufferSize: 8},
			Children: []*node.Config{{ID: inner.id, Name: innerName, Workers: 1, BufferSize: 2,
				Children: []*node.Config{{ID: leaf.id, Name: "vsync", Workers: 1, BufferSize: 2}}}}}}}
	// roots=K: K-1 further, perfectly healthy trees (a root with one child) beside the one that may stall
	extraRoots, _ := strconv.Atoi(opt["roots"])
	for k := 1; k < extraRoots; k++ {
		xr, xc := mk(2+2*k, "sync"), mk(3+2*k, "sync")
		specs = append(specs, xr, xc)
		cfg.Nodes = append(cfg.Nodes, &node.Config{ID: xr.id, Name: "vsync", Workers: 1, BufferSize: 2,
			Children: []*node.Config{{ID: xc.id, Name: "vsync", Workers: 2, BufferSize: 1}}})
	}
	setScenario(specs)
	defer clearScenario(specs)
	var ex *executor.Executor
	var err error
	if opt["file"] == "1" {
		// the application gives its configuration as a file: the timeout is what the file says
		path, werr := writeConfigFile("t", run, yamlForConfig(cfg, false, timeoutSec))
		if werr != nil {
			return "harness-error " + werr.Error()
		}
		ex, err = executor.New(executor.WithConfigFile(path))
		os.Remove(path)
	} else {
		ex, err = executor.New(executor.WithConfig(cfg))
	}
	if err != nil {
		return "harness-error " + err.Error()
	}
	if opt["flush"] == "stuck" {
		sp := &stuckProducer{scriptedProducer: *newScriptedProducer()}
		message.VerifSetSender(message.VerifNewKafkaMessageSender(kafkaproducer.VerifNewKafkaProducer(sp, "t"), "t"))
	}
	if mode == "send" {
		message.VerifSetSender(&blockingSender{gate: gate})
		for _, sp := range specs {
			if sp.gate != nil {
				sp.gateFn = func() {
					select {
					case <-gate:
						return // the scenario is over: the sender singleton is gone, do not call it again
					default:
					}
					_ = ex.SendMessage(message.Message{MessageType: "t", Key: "k"})
				}
			}
		}
	}
	if opt["sd"] == "1" {
		// shutdown is requested while the source is emitting (at its 4th event); the caller ignores the channel Shutdown returns
		src.mu.Lock()
		src.stopAt = 3
		src.stopFn = func() { ex.Shutdown() }
		src.mu.Unlock()
	}
	done := make(chan time.Time, 1)
	go func() {
		ex.Execute()
		done <- time.Now()
	}()

	// with fill=1 the source blocks on the full pipeline: request shutdown once it is stuck, as an operator would
	var srcStopped time.Time
	if opt["fill"] == "1" {
		time.Sleep(300 * time.Millisecond)
		ex.Shutdown()
		time.Sleep(50 * time.Millisecond)
		srcStopped = time.Now()
	} else {
		for t0 := time.Now(); time.Since(t0) < 5*time.Second; time.Sleep(time.Millisecond) {
			src.mu.Lock()
			fin := src.lastStartReturn != 0
			src.mu.Unlock()
			if fin {
				break
			}
		}
		srcStopped = time.Now()
	}
	if mode == "long" {
		go func() { time.Sleep(time.Duration(3*timeoutSec) * time.Second); close(gate) }()
	}
	var res string
	select {
	case t := <-done:
		res = fmt.Sprintf("returned=1 retMs=%d", t.Sub(srcStopped).Milliseconds())
	case <-time.After(time.Duration(timeoutSec+4) * time.Second):
		res = "returned=0 retMs=0"
	}
	if mode != "long" {
		close(gate) // let the stalled goroutines finish
	}
	return res
}
