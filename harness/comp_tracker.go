package main

// component "tracker" (C08): a real RecoveryTracker A driven by an op list, its broadcasts captured from a
// recording FBContext and replayed (all, or only the latest per key) into two further real trackers.
// input: ops separated by ';': add p f t | upd p f t | done p t | cancel | get p | recv k f:t,f:t | recvbad k

import (
	"encoding/json"
	"fmt"
	"sort"
	"strconv"
	"strings"
	"sync"

	"github.com/confluentinc/confluent-kafka-go/kafka"

	"github.com/digitalocean/firebolt"
	"github.com/digitalocean/firebolt/fbcontext"
	"github.com/digitalocean/firebolt/node/kafkaconsumer"
)

func init() {
	register("tracker", &component{gen: genTracker, exec: execTracker})
}

func genTracker(r *rng, n int, tier string, emit func(string)) {
	for _, c := range []string{
		"add 0 10 20 ; add 0 15 30 ; get 0 ; upd 0 17 30 ; done 0 30 ; get 0",
		"add 0 10 20 ; add 0 30 40 ; add 0 20 30 ; get 0 ; done 0 40 ; get 0",
		"add 1 5 9 ; upd 1 6 10 ; done 1 10 ; done 2 9 ; upd 2 1 2 ; cancel ; get 1 ; done 1 9",
		"add 0 1 5 ; add 1 2 6 ; cancel ; add 0 7 9 ; get 0",
		"recv 0 1:5,7:9 ; get 0 ; upd 0 3 5 ; done 0 5 ; get 0 ; recv 0 - ; done 0 9",
		"add 0 1 5 ; recvbad 0 ; get 0 ; recv x 4:8 ; get 0",
		"add 0 5 5 ; add 0 5 6 ; add 0 0 4 ; add 0 4 5",
		"add 0 10 20 ; add 0 40 50 ; add 0 0 100 ; done 0 100 ; get 0",
		"add 0 1 5 ; padd 0 10 20 30 40 ; get 0 ; padd 1 3 4 3 9",
	} {
		emit(c)
	}
	maxOps := 40
	if tier == "thorough" {
		maxOps = 200
	}
	for i := 0; i < n; i++ {
		nops := r.intn(maxOps) + 1
		nparts := r.intn(4) + 1
		big := r.chance(10)
		var ops []string
		// remember some 'to' values used so that upd/done hit
		var tos []int64
		rngv := func() int64 {
			if big {
				return r.pick(0, 1, 1<<40, (1<<62)-1, 1<<62) + r.rangeI(0, 3)
			}
			return r.rangeI(0, 40)
		}
		for j := 0; j < nops; j++ {
			p := r.intn(nparts)
			x := r.intn(100)
			switch {
			case x < 40:
				f := rngv()
				t := f + r.pick(0, 1, 1, 2, 5, 10, 20)
				if len(tos) > 0 && r.chance(30) { // adjacent / overlapping with an earlier range
					f = tos[r.intn(len(tos))] + r.rangeI(-3, 1)
					if f < 0 {
						f = 0
					}
					t = f + r.pick(0, 1, 3, 8)
				}
				if r.chance(2) && tier == "thorough" {
					t = f - 1 // ill-formed: out of scope, correspondence only
				}
				tos = append(tos, t)
				if r.chance(3) && t >= f {
					f2 := rngv()
					ops = append(ops, fmt.Sprintf("padd %d %d %d %d %d", p, f, t, f2, f2+r.pick(0, 1, 4, 9)))
				} else {
					ops = append(ops, fmt.Sprintf("add %d %d %d", p, f, t))
				}
			case x < 55:
				t := rngv()
				if len(tos) > 0 && r.chance(75) {
					t = tos[r.intn(len(tos))]
				}
				f := t - r.rangeI(0, 6)
				if f < 0 {
					f = 0
				}
				if r.chance(3) {
					f = t + 2
				}
				ops = append(ops, fmt.Sprintf("upd %d %d %d", p, f, t))
			case x < 70:
				t := rngv()
				if len(tos) > 0 && r.chance(75) {
					t = tos[r.intn(len(tos))]
				}
				ops = append(ops, fmt.Sprintf("done %d %d", p, t))
			case x < 74:
				ops = append(ops, "cancel")
			case x < 90:
				ops = append(ops, fmt.Sprintf("get %d", p))
			case x < 97:
				var rs []string
				k := r.intn(3)
				for q := 0; q < k; q++ {
					f := rngv()
					t := f + r.rangeI(0, 9)
					tos = append(tos, t)
					rs = append(rs, fmt.Sprintf("%d:%d", f, t))
				}
				l := "-"
				if len(rs) > 0 {
					l = strings.Join(rs, ",")
				}
				key := strconv.Itoa(p)
				if r.chance(5) {
					key = "x"
				}
				ops = append(ops, fmt.Sprintf("recv %s %s", key, l))
			default:
				ops = append(ops, fmt.Sprintf("recvbad %d", p))
			}
		}
		emit(strings.Join(ops, " ; "))
	}
}

func encodeReqs(p int32, l string) []byte {
	rs := kafkaconsumer.RecoveryRequests{}
	if l != "-" {
		for _, x := range strings.Split(l, ",") {
			ft := strings.Split(x, ":")
			f, _ := strconv.ParseInt(ft[0], 10, 64)
			t, _ := strconv.ParseInt(ft[1], 10, 64)
			rs.Requests = append(rs.Requests, &kafkaconsumer.RecoveryRequest{PartitionID: p, FromOffset: f, ToOffset: t})
		}
	}
	b, _ := json.Marshal(rs)
	return b
}

func decodeBcast(m fbcontext.Message) string {
	rs := kafkaconsumer.RecoveryRequests{}
	if err := json.Unmarshal(m.Payload, &rs); err != nil {
		return m.Key + "=undecodable"
	}
	var parts []string
	for _, r := range rs.Requests {
		parts = append(parts, fmt.Sprintf("%d:%d", r.FromOffset, r.ToOffset))
	}
	return m.Key + "=[" + strings.Join(parts, ",") + "]"
}

func fmtBcasts(ms []fbcontext.Message) string {
	if len(ms) == 0 {
		return "-"
	}
	var parts []string
	for _, m := range ms {
		if m.MessageType != "recoveryrequest" {
			parts = append(parts, "wrongtype:"+m.MessageType)
			continue
		}
		parts = append(parts, decodeBcast(m))
	}
	sort.SliceStable(parts, func(i, j int) bool {
		a, _ := strconv.Atoi(strings.SplitN(parts[i], "=", 2)[0])
		b, _ := strconv.Atoi(strings.SplitN(parts[j], "=", 2)[0])
		return a < b
	})
	return strings.Join(parts, "|")
}

func execTracker(input string) string {
	m := consumerMetrics()
	ctx := &recordingContext{}
	// every instance is a Kafka source with its recovery consumer; messages reach the tracker through the source's Receive,
	// whatever the instance owns at that moment (here: nothing, or partitions 0 and 2)
	topic := "t"
	newInstance := func(c *recordingContext, owner bool) (*kafkaconsumer.KafkaConsumer, *kafkaconsumer.RecoveryTracker) {
		sendCh := make(chan firebolt.Event, 16)
		rc := kafkaconsumer.VerifNewRecoveryConsumer(newScriptedConsumer(), topic, sendCh, 1000000, 1000, m, c, true)
		if owner {
			rc.SetAssignedPartitions([]kafka.TopicPartition{{Topic: &topic, Partition: 0}, {Topic: &topic, Partition: 2}})
		}
		return kafkaconsumer.VerifNewKafkaConsumer(newScriptedConsumer(), topic, sendCh, 0, m, rc, c), rc.VerifTracker()
	}
	kcA, a := newInstance(ctx, len(input)%2 == 0)
	var outs []string
	for _, seg := range strings.Split(input, ";") {
		f := strings.Fields(seg)
		if len(f) == 0 {
			continue
		}
		before := len(ctx.sent)
		pi := func(i int) int64 { v, _ := strconv.ParseInt(f[i], 10, 64); return v }
		res := func(err error) string {
			r := "ok "
			if err != nil {
				r = "err "
			}
			return r + fmtBcasts(ctx.sent[before:])
		}
		switch f[0] {
		case "add":
			outs = append(outs, res(a.AddRecoveryRequest(int32(pi(1)), pi(2), pi(3))))
		case "padd":
			// two requests for one partition filed concurrently; the first caller's broadcast stalls in the transport
			stalling, done1 := make(chan struct{}), make(chan struct{})
			ctx.mu.Lock()
			ctx.stallNext = true
			ctx.stalling = stalling
			ctx.mu.Unlock()
			var wg sync.WaitGroup
			var e1, e2 error
			wg.Add(2)
			go func() { defer wg.Done(); defer close(done1); e1 = a.AddRecoveryRequest(int32(pi(1)), pi(2), pi(3)) }()
			// the second caller arrives once the first one's broadcast is under way (or the first has returned without one)
			select {
			case <-stalling:
			case <-done1:
				ctx.mu.Lock()
				ctx.stallNext, ctx.stalling = false, nil
				ctx.mu.Unlock()
			}
			go func() { defer wg.Done(); e2 = a.AddRecoveryRequest(int32(pi(1)), pi(4), pi(5)) }()
			wg.Wait()
			sent := ctx.sent[before:]
			for i, e := range []error{e1, e2} {
				r := "ok "
				if e != nil {
					r = "err "
				}
				if i < len(sent) {
					r += fmtBcasts(sent[i : i+1])
				} else {
					r += fmtBcasts(nil)
				}
				outs = append(outs, r)
			}
		case "upd":
			outs = append(outs, res(a.UpdateRecoveryRequest(int32(pi(1)), pi(2), pi(3))))
		case "done":
			outs = append(outs, res(a.MarkRecoveryComplete(int32(pi(1)), pi(2))))
		case "cancel":
			outs = append(outs, res(a.VerifCancelAll()))
		case "get":
			r := a.GetRecoveryRequest(int32(pi(1)))
			if r == nil {
				outs = append(outs, "G none")
			} else {
				outs = append(outs, fmt.Sprintf("G %d:%d", r.FromOffset, r.ToOffset))
			}
		case "recv":
			var p int32
			if f[1] != "x" {
				p = int32(pi(1))
			}
			_ = kcA.Receive(fbcontext.Message{MessageType: "recoveryrequest", Key: f[1], Payload: encodeReqs(p, f[2])})
			outs = append(outs, ".")
		case "recvbad":
			_ = kcA.Receive(fbcontext.Message{MessageType: "recoveryrequest", Key: f[1], Payload: []byte("{not json")})
			outs = append(outs, ".")
		default:
			return "bad-input"
		}
	}
	kcAll, ball := newInstance(&recordingContext{}, len(input)%3 == 0)
	kcLast, blast := newInstance(&recordingContext{}, len(input)%3 == 1)
	for _, msg := range ctx.sent {
		_ = kcAll.Receive(msg)
	}
	lastIdx := map[string]int{}
	for i, msg := range ctx.sent {
		lastIdx[msg.Key] = i
	}
	for i, msg := range ctx.sent {
		if lastIdx[msg.Key] == i {
			_ = kcLast.Receive(msg)
		}
	}
	return strings.Join(outs, " ; ") + fmt.Sprintf(" # A=%s Ball=%s Blast=%s", trackerState(a), trackerState(ball), trackerState(blast))
}
