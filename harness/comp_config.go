package main

// component "config" (C13): random node trees rendered to YAML files and read with config.Read against a harness registry.
// input: "cfg <source> <transport|-> <timeout> <nroots> N id name workers buf nchildren hasHandler ..." (prefix order:
// node, its children, then its handler)

import (
	"fmt"
	"os"
	"path/filepath"
	"reflect"
	"strconv"
	"strings"
	"sync"

	"github.com/digitalocean/firebolt"
	"github.com/digitalocean/firebolt/config"
	"github.com/digitalocean/firebolt/node"
)

func init() {
	register("config", &component{gen: genConfig, exec: execConfig})
}

var regOnce sync.Once

func harnessRegistry() {
	regOnce.Do(func() {
		// Y, Z, I: distinct types that are assignable to one another ([]byte, a named []byte type, interface{}); the
		// framework compares produced and consumed types for identity
		tys := harnessTys
		for _, c := range []string{"A", "B", "E", "Y", "Z", "I"} {
			for _, p := range []string{"A", "B", "E", "N", "Y", "Z", "I"} {
				node.GetRegistry().RegisterNodeType("t_"+c+"_"+p, func() node.Node { return nil }, tys[c], tys[p])
			}
		}
		for _, p := range []string{"A", "B", "E", "Y", "Z", "I"} {
			node.GetRegistry().RegisterSourceType("s_"+p, func() node.Source { return nil }, tys[p])
		}
	})
}

type namedBytes []byte

var harnessTys = map[string]reflect.Type{"A": reflect.TypeOf(""), "B": reflect.TypeOf(0), "E": reflect.TypeOf(&firebolt.EventError{}), "N": nil,
	"Y": reflect.TypeOf([]byte(nil)), "Z": reflect.TypeOf(namedBytes(nil)), "I": reflect.TypeOf((*interface{})(nil)).Elem()}

type cnode struct {
	id, name     string
	workers, buf int
	children     []*cnode
	handler      *cnode
}

func (n *cnode) flat(out *[]string) {
	h := "0"
	if n.handler != nil {
		h = "1"
	}
	*out = append(*out, "N", tilde(n.id), tilde(n.name), strconv.Itoa(n.workers), strconv.Itoa(n.buf), strconv.Itoa(len(n.children)), h)
	for _, c := range n.children {
		c.flat(out)
	}
	if n.handler != nil {
		n.handler.flat(out)
	}
}

func genConfig(r *rng, n int, tier string, emit func(string)) {
	for _, c := range []string{
		"cfg s_A - 0 1 N ~ t_A_A 0 0 0 0",
		"cfg s_A kafka 5 2 N a t_A_B 2 3 2 1 N b t_B_A 0 0 0 0 N c t_B_N 1 1 0 0 N h t_E_N 0 0 0 0 N d t_A_A 0 0 0 0",
		"cfg s_A - 0 1 N a t_A_A 0 0 2 0 N b t_A_A 0 0 0 0 N b t_A_A 0 0 0 0",                                     // duplicate siblings (off spine)
		"cfg s_A - 0 1 N a t_A_A 0 0 1 0 N a t_A_A 0 0 0 0",                                                       // duplicate parent/first child (on spine)
		"cfg s_A - 0 2 N a t_A_A 0 0 0 0 N a t_A_A 0 0 0 0",                                                       // duplicate roots
		"cfg s_A - 0 1 N a t_A_A 0 0 2 0 N b t_A_A 0 0 1 0 N x t_A_A 0 0 0 0 N c t_A_A 0 0 1 0 N x t_A_A 0 0 0 0", // cousins
		"cfg s_A - 0 1 N ~ t_A_A 0 0 1 0 N ~ t_A_A 0 0 0 0",                                                       // defaulted ids collide
		"cfg s_A amqp 0 1 N a t_A_A 0 0 0 0",
		"cfg s_X - 0 1 N a t_A_A 0 0 0 0",
		"cfg s_A - 0 1 N a t_B_A 0 0 0 0",
		"cfg s_A - 0 1 N a t_A_B 0 0 1 0 N b t_A_A 0 0 0 0",
		"cfg s_A - 0 1 N a t_A_N 0 0 1 0 N b t_A_A 0 0 0 0",                                     // sink with a child: panics in config.Read
		"cfg s_A - 0 1 N a t_A_A 0 0 0 1 N h t_A_A 0 0 0 0",                                     // handler consumes wrong type
		"cfg s_A - 0 1 N a t_A_A 0 0 0 1 N h t_E_N 0 0 1 0 N hc t_A_A 0 0 0 0",                  // handler with children
		"cfg s_A - 0 1 N a t_A_A 0 0 0 1 N h t_E_N 0 0 0 1 N hh t_E_N 0 0 0 0",                  // handler with handler
		"cfg s_A - -3 1 N a t_A_A 0 0 0 1 N ~ zz 0 0 0 0",                                       // unregistered handler
		"cfg s_Y - 0 2 N a t_Y_Z 0 0 1 0 N b t_Z_I 0 0 1 0 N c t_I_N 0 0 0 0 N d t_Z_N 0 0 0 0", // second root consumes a type the source's is assignable to
		"cfg s_Y - 0 1 N a t_Y_Y 0 0 1 0 N b t_I_A 0 0 0 0",                                     // child consumes interface{}
		"cfg s_Z - 0 1 N a t_Z_Y 0 0 1 0 N b t_Z_A 0 0 0 0",
		"R q0 A B RS qs A cfg qs - 2 1 N a q0 0 0 1 0 N b t_B_N 0 0 0 0",
		"R q0 B A RS qs B cfg qs - 9 1 N a q0 0 0 1 0 N b t_A_N 0 0 0 0", // the same names registered again with other types
		"R q0 B A RS qs B cfg qs - 0 1 N a q0 0 0 1 0 N b t_B_N 0 0 0 0", // consistent only under the earlier registration
	} {
		emit(c)
	}
	for i := 0; i < n; i++ {
		idc := 0
		valid := r.chance(45) // mostly-valid stream vs. noisy stream
		pe := func(p int) bool {
			if valid {
				return false
			}
			return r.chance(p)
		}
		var build func(consumes string, depth int) *cnode
		var all []*cnode
		build = func(consumes string, depth int) *cnode {
			idc++
			produces := r.pickS("A", "A", "B", "B", "E", "Y", "Z", "I")
			if pe(4) {
				produces = "N"
			}
			cn := &cnode{id: fmt.Sprintf("n%d", idc), workers: r.intn(4), buf: r.intn(4)}
			c := consumes
			if pe(6) {
				c = r.pickS("A", "B", "E", "Y", "Z", "I", "Y", "Z", "I")
			}
			cn.name = "t_" + c + "_" + produces
			if pe(3) {
				cn.name = r.pickS("zz", "t_A", "T_A_A")
			}
			if r.chance(12) {
				cn.id = ""
			}
			all = append(all, cn)
			if depth < 4 {
				k := r.intn(4)
				if depth >= 2 {
					k = r.intn(3)
				}
				if produces == "N" && !pe(30) {
					k = 0
				}
				for j := 0; j < k; j++ {
					cp := produces
					if cp == "N" {
						cp = "A"
					}
					cn.children = append(cn.children, build(cp, depth+1))
				}
			}
			if r.chance(25) {
				idc++
				h := &cnode{id: fmt.Sprintf("h%d", idc), name: r.pickS("t_E_N", "t_E_A"), workers: r.intn(3), buf: r.intn(3)}
				if r.chance(20) {
					h.id = ""
				}
				if pe(12) {
					h.name = r.pickS("t_A_A", "t_B_N", "zz")
				}
				if pe(8) {
					h.children = []*cnode{{id: "hc", name: "t_A_A"}}
				}
				if pe(8) {
					h.handler = &cnode{id: "hh", name: "t_E_N"}
				}
				cn.handler = h
			}
			return cn
		}
		src := r.pickS("A", "B", "Y", "Z", "I")
		nroots := r.intn(3) + 1
		var roots []*cnode
		for j := 0; j < nroots; j++ {
			roots = append(roots, build(src, 1))
		}
		// plant a duplicate id at a random pair of positions
		if len(all) >= 2 && r.chance(35) {
			a := r.intn(len(all))
			b := r.intn(len(all))
			if a != b {
				if all[a].id == "" {
					all[a].id = "dup"
				}
				all[b].id = all[a].id
			}
		}
		srcName := "s_" + src
		if pe(5) {
			srcName = r.pickS("s_X", "kafkaconsumer")
		}
		tr := r.pickS("-", "-", "kafka", "kafka")
		if pe(10) {
			tr = r.pickS("amqp", "Kafka", "~")
		}
		// a few type names are registered by the case itself, with types that change from case to case (the same name
		// registered again with other types): the configuration is judged by the latest registration
		var regs []string
		if r.chance(30) {
			seen := map[string]string{}
			for _, cn := range all {
				if strings.HasPrefix(cn.name, "t_") && len(cn.name) == 5 && r.chance(40) {
					q := fmt.Sprintf("q%d", r.intn(4))
					ty := cn.name[2:3] + " " + cn.name[4:5]
					if prev, ok := seen[q]; ok && prev != ty {
						continue
					}
					if pe(15) {
						ty = r.pickS("A", "B", "Y") + " " + r.pickS("A", "B", "N") // registered with other types than the tree needs
					}
					if _, ok := seen[q]; !ok {
						seen[q] = ty
						regs = append(regs, "R", q, ty)
					}
					cn.name = q
				}
			}
			if strings.HasPrefix(srcName, "s_") && len(srcName) == 3 && srcName != "s_X" && r.chance(40) {
				ty := srcName[2:3]
				if pe(20) {
					ty = r.pickS("A", "B", "Z")
				}
				regs = append(regs, "RS", "qs", ty)
				srcName = "qs"
			}
		}
		parts := append(regs, "cfg", srcName, tr, strconv.Itoa(int(r.pick(0, 0, 5, -1, 30, 1, 9))), strconv.Itoa(nroots))
		for _, rt := range roots {
			rt.flat(&parts)
		}
		emit(strings.Join(parts, " "))
	}
}

func parseCNode(toks []string, pos *int) *cnode {
	if *pos+7 > len(toks) || toks[*pos] != "N" {
		return nil
	}
	n := &cnode{id: untilde(toks[*pos+1]), name: untilde(toks[*pos+2])}
	n.workers, _ = strconv.Atoi(toks[*pos+3])
	n.buf, _ = strconv.Atoi(toks[*pos+4])
	nc, _ := strconv.Atoi(toks[*pos+5])
	hh := toks[*pos+6] == "1"
	*pos += 7
	for i := 0; i < nc; i++ {
		c := parseCNode(toks, pos)
		if c == nil {
			return nil
		}
		n.children = append(n.children, c)
	}
	if hh {
		n.handler = parseCNode(toks, pos)
		if n.handler == nil {
			return nil
		}
	}
	return n
}

func (n *cnode) yaml(sb *strings.Builder, indent string, asList bool, envName *bool) {
	first := indent
	if asList {
		first = indent[:len(indent)-2] + "- "
	}
	name := n.name
	workers := strconv.Itoa(n.workers)
	if *envName && n.name != "" {
		// ${VAR} references with every shape of variable name the shell allows (upper/lower case, digits, underscores)
		v := envNames[cfgSel%len(envNames)]
		os.Setenv(v, n.name)
		name = "${" + v + "}"
		if n.workers != 0 && cfgSel%4 == 2 {
			w := envNames[(cfgSel+1)%len(envNames)] + "_w"
			os.Setenv(w, workers)
			workers = "${" + w + "}"
		}
		*envName = false
	}
	fmt.Fprintf(sb, "%sname: %s\n", first, name)
	if n.id != "" {
		fmt.Fprintf(sb, "%sid: %s\n", indent, n.id)
	}
	if (cfgSel+len(n.name)+len(n.id)+n.workers*3+n.buf)%6 == 2 {
		// disabled nodes are validated like any other (they are only skipped when the tree is built)
		fmt.Fprintf(sb, "%sdisabled: true\n", indent)
	}
	// a size of 0 means "use the default": the key is omitted, written as an explicit 0, or left empty
	if n.workers != 0 || (cfgSel/11)%3 == 1 {
		fmt.Fprintf(sb, "%sworkers: %s\n", indent, workers)
	} else if (cfgSel/11)%3 == 2 {
		fmt.Fprintf(sb, "%sworkers:\n", indent)
	}
	if n.buf != 0 || (cfgSel/13)%3 == 1 {
		fmt.Fprintf(sb, "%sbuffersize: %d\n", indent, n.buf)
	} else if (cfgSel/13)%3 == 2 {
		fmt.Fprintf(sb, "%sbuffersize:\n", indent)
	}
	if n.handler != nil {
		fmt.Fprintf(sb, "%serror_handler:\n", indent)
		n.handler.yaml(sb, indent+"  ", false, envName)
	}
	if len(n.children) > 0 {
		fmt.Fprintf(sb, "%schildren:\n", indent)
		for _, c := range n.children {
			c.yaml(sb, indent+"    ", true, envName)
		}
	}
}

func showCfgNode(n *node.Config, out *[]string) {
	*out = append(*out, fmt.Sprintf("%s:%d:%d", tilde(n.ID), n.Workers, n.BufferSize))
	if n.ErrorHandler != nil {
		showCfgNode(n.ErrorHandler, out)
	}
	for _, c := range n.Children {
		showCfgNode(c, out)
	}
}

var cfgSeq int

// cfgSel: rendering choices (which names are written as ${VAR} references, and through which variable names) are a
// function of the case's input, so that a replay of one case renders the same file
var cfgSel int
var envNames = []string{"FBV_NODE_NAME", "fbv_node_name", "FBV_N2", "Fbv_Name_x9", "_FBV", "FBVN"}

func execConfig(input string) (res string) {
	harnessRegistry()
	toks := strings.Fields(input)
	// leading registrations: "R <name> <consumes> <produces>" / "RS <name> <produces>" register (or register again, with
	// whatever types this case gives them) a type name, as an application replacing a type or a second pipeline would
	for len(toks) > 0 && (toks[0] == "R" || toks[0] == "RS") {
		if toks[0] == "R" && len(toks) >= 4 {
			node.GetRegistry().RegisterNodeType(toks[1], func() node.Node { return nil }, harnessTys[toks[2]], harnessTys[toks[3]])
			toks = toks[4:]
		} else if toks[0] == "RS" && len(toks) >= 3 {
			node.GetRegistry().RegisterSourceType(toks[1], func() node.Source { return nil }, harnessTys[toks[2]])
			toks = toks[3:]
		} else {
			return "bad-input"
		}
	}
	if len(toks) < 5 || toks[0] != "cfg" {
		return "bad-input"
	}
	nroots, _ := strconv.Atoi(toks[4])
	pos := 5
	var roots []*cnode
	for i := 0; i < nroots; i++ {
		n := parseCNode(toks, &pos)
		if n == nil {
			return "bad-input"
		}
		roots = append(roots, n)
	}
	var sb strings.Builder
	sb.WriteString("application: verif\n")
	if toks[2] != "-" {
		fmt.Fprintf(&sb, "internaldata:\n  transport: %s\n  params:\n    brokers: b\n", untilde(toks[2]))
	}
	cfgSeq++
	cfgSel = 0
	for _, b := range []byte(input) {
		cfgSel = (cfgSel*31 + int(b)) % 1000003
	}
	srcName := toks[1]
	if cfgSel%3 == 0 {
		v := []string{"FBV_SRC", "fbv_src_1", "FBV_SRC_2b"}[(cfgSel/3)%3]
		os.Setenv(v, toks[1])
		srcName = "${" + v + "}"
	}
	fmt.Fprintf(&sb, "source:\n  name: %s\n  params:\n    p: v\n", srcName)
	if toks[3] != "0" {
		fmt.Fprintf(&sb, "shutdowntimeout: %s\n", toks[3])
	}
	sb.WriteString("nodes:\n")
	envName := (cfgSel/7)%2 == 0
	for _, rt := range roots {
		rt.yaml(&sb, "    ", true, &envName)
	}
	dir := filepath.Join(os.TempDir(), "fbverif-cfg")
	_ = os.MkdirAll(dir, 0o755)
	path := filepath.Join(dir, fmt.Sprintf("c%d-%d.yaml", os.Getpid(), cfgSeq%8))
	if err := os.WriteFile(path, []byte(sb.String()), 0o644); err != nil {
		return "harness-error " + err.Error()
	}
	defer os.Remove(path)
	defer func() {
		if r := recover(); r != nil {
			res = "crash"
		}
	}()
	c, err := config.Read(path)
	if err != nil {
		return "reject"
	}
	var out []string
	for _, n := range c.Nodes {
		showCfgNode(n, &out)
	}
	return fmt.Sprintf("accept t=%d [%s]", c.ShutdownTimeOut, strings.Join(out, ","))
}
