// fbharness drives the real firebolt code (built from /repo's working tree with -tags verif)
// on generated or given cases and prints canonical observations, one line per case:
//
//	gen  <component> -seed S -n N        -> "<id>\t<input>"
//	exec <component>   (cases on stdin)  -> "<id>\t<input>\t<impl observation>"
//	run  <component> -seed S -n N        -> gen | exec
//
// Every random choice derives from -seed through one xorshift state, so a case replays exactly.
package main

import (
	"bufio"
	"flag"
	"fmt"
	"io"
	"os"
	"sort"
	"strings"

	log "github.com/sirupsen/logrus"
)

type component struct {
	gen  func(r *rng, n int, tier string, emit func(string))
	exec func(input string) string
}

var components = map[string]*component{}

func register(name string, c *component) { components[name] = c }

func main() {
	log.SetOutput(io.Discard)
	if len(os.Args) < 3 {
		var names []string
		for k := range components {
			names = append(names, k)
		}
		sort.Strings(names)
		fmt.Fprintf(os.Stderr, "usage: fbharness gen|exec|run <component> [-seed S] [-n N] [-tier T]\ncomponents: %s\n", strings.Join(names, " "))
		os.Exit(2)
	}
	mode, name := os.Args[1], os.Args[2]
	c, ok := components[name]
	if !ok {
		fmt.Fprintf(os.Stderr, "unknown component %s\n", name)
		os.Exit(2)
	}
	fs := flag.NewFlagSet(mode, flag.ExitOnError)
	seed := fs.Uint64("seed", 1, "PRNG seed")
	n := fs.Int("n", 100, "number of generated cases")
	tier := fs.String("tier", "quick", "quick|thorough")
	_ = fs.Parse(os.Args[3:])
	out := bufio.NewWriterSize(os.Stdout, 1<<20)
	defer out.Flush()
	switch mode {
	case "gen":
		i := 0
		c.gen(newRng(*seed), *n, *tier, func(s string) {
			fmt.Fprintf(out, "g%d-%d\t%s\n", *seed, i, s)
			i++
		})
	case "exec":
		sc := bufio.NewScanner(os.Stdin)
		sc.Buffer(make([]byte, 1<<20), 1<<28)
		for sc.Scan() {
			line := sc.Text()
			if line == "" || strings.HasPrefix(line, "#") {
				continue
			}
			parts := strings.SplitN(line, "\t", 3)
			if len(parts) < 2 {
				continue
			}
			fmt.Fprintf(out, "%s\t%s\t%s\n", parts[0], parts[1], safeExec(c, parts[1]))
			out.Flush()
		}
	case "run":
		i := 0
		c.gen(newRng(*seed), *n, *tier, func(s string) {
			fmt.Fprintf(out, "g%d-%d\t%s\t%s\n", *seed, i, s, safeExec(c, s))
			out.Flush()
			i++
		})
	default:
		fmt.Fprintf(os.Stderr, "unknown mode %s\n", mode)
		os.Exit(2)
	}
}

// safeExec turns a panic inside firebolt into an observation instead of killing the harness.
func safeExec(c *component, input string) (res string) {
	defer func() {
		if r := recover(); r != nil {
			res = "panic " + strings.ReplaceAll(strings.ReplaceAll(fmt.Sprint(r), "\t", " "), "\n", " ")
		}
	}()
	return c.exec(input)
}
