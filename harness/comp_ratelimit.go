package main

// component "ratelimit" (C19, runtime part): the recovery consumer is built by the REAL NewRecoveryConsumer (so the limiter
// is the one the code constructs from configuration), then detached from its Kafka client; records are pushed as fast as
// possible and the time until the last recovery event is measured.
// input: "rate <r> parts <k> n <n> [seq|revoke|setup]"
//   setup:  source and recovery consumer are built by the real KafkaConsumer.Setup and a rebalance has happened before recovery starts
//   seq:    the partitions' windows (n/k records each) are recovered one after the other, each to completion, so that the
//           assignment changes k times while the limiter is in use
//   replay: half of the records are delivered, then the assignment changes (another partition gets a request and is assigned),
//           which re-assigns the client at the last persisted offset: the records after it are delivered and emitted AGAIN - they
//           count against the limit like any other recovery event
//   revoke: once the burst is used up and a recovery record is waiting for its token, the main consumer gets a
//           revocation and then a record; measured: how long that record takes

import (
	"fmt"
	"strconv"
	"strings"
	"sync"
	"time"

	"github.com/confluentinc/confluent-kafka-go/kafka"

	"github.com/digitalocean/firebolt"
	"github.com/digitalocean/firebolt/node/kafkaconsumer"
)

func init() {
	register("ratelimit", &component{gen: genRateLimit, exec: execRateLimit})
}

func genRateLimit(r *rng, n int, tier string, emit func(string)) {
	emit("rate 200 parts 1 n 260")
	emit("rate 1000 parts 4 n 800")
	emit("rate 1500 parts 2 n 1400")
	emit("rate 200 parts 6 n 600 seq")
	emit("rate 1 parts 1 n 104 revoke")
	emit("rate 300 parts 2 n 400 setup")
	emit("rate 200 parts 1 n 600 replay")
	if tier == "thorough" {
		emit("rate 50 parts 3 n 150")
		emit("rate 5000 parts 4 n 4600")
		emit("rate 400 parts 1 n 100")
		for i := 0; i < n; i++ {
			rate := r.pick(100, 300, 700, 1200, 2500)
			emit(fmt.Sprintf("rate %d parts %d n %d", rate, r.intn(4)+1, 100+rate*int64(r.rangeI(3, 9))/10))
		}
	}
}

func execRateLimit(input string) string {
	f := strings.Fields(input)
	mode := ""
	if len(f) == 7 {
		mode = f[6]
		f = f[:6]
	}
	if len(f) != 6 {
		return "bad-input"
	}
	rate, _ := strconv.Atoi(f[1])
	parts, _ := strconv.Atoi(f[3])
	n, _ := strconv.Atoi(f[5])
	m := consumerMetrics()
	ctx := &recordingContext{}
	sendCh := make(chan firebolt.Event, 64)
	cfg := map[string]string{"brokers": "127.0.0.1:1", "buffersize": "10", "parallelrecoverymaxrecords": "1000000", "parallelrecoverymaxrate": strconv.Itoa(rate)}
	var rc *kafkaconsumer.RecoveryConsumer
	var kc *kafkaconsumer.KafkaConsumer
	client := newScriptedConsumer()
	if mode == "setup" {
		// source and recovery consumer as the application gets them: built by the real KafkaConsumer.Setup, then detached from
		// their Kafka clients; a rebalance (revocation, new assignment) has happened before recovery starts
		cfg["consumergroup"], cfg["topic"], cfg["parallelrecoveryenabled"] = "g", "t", "true"
		kc = &kafkaconsumer.KafkaConsumer{}
		kc.Init("verif-source", ctx)
		if err := kc.Setup(cfg, sendCh); err != nil {
			return "harness-error " + err.Error()
		}
		kc.VerifDetachMain(newScriptedConsumer())
		rc = kc.VerifRecoveryConsumer()
		rc.VerifDetach(client, sendCh)
		kc.VerifProcessEvent(kafka.RevokedPartitions{})
	} else {
		var err error
		rc, err = kafkaconsumer.NewRecoveryConsumer("t", sendCh, cfg, m, ctx)
		if err != nil {
			return "harness-error " + err.Error()
		}
		rc.VerifDetach(client, sendCh)
		kc = kafkaconsumer.VerifNewKafkaConsumer(newScriptedConsumer(), "t", sendCh, 0, m, rc, ctx)
	}
	limit, burst := rc.VerifLimiter()
	topic := "t"
	var tps []kafka.TopicPartition
	per := (n + parts - 1) / parts
	for p := 0; p < parts; p++ {
		tps = append(tps, kafka.TopicPartition{Topic: &topic, Partition: int32(p)})
		if mode == "seq" {
			rc.RequestRecovery(int32(p), 0, kafka.Offset(per)) // exactly the window: the record at `per` completes it
		} else {
			rc.RequestRecovery(int32(p), 0, kafka.Offset(per+10))
		}
	}
	rc.SetAssignedPartitions(tps)
	_ = rc.RefreshAssignments()
	// drain
	done := make(chan [2]int, 1)
	stop := make(chan struct{})
	var last time.Time
	var mu sync.Mutex
	flaggedSoFar := 0
	var mainSeen time.Time
	go func() {
		flagged, total := 0, 0
		for {
			select {
			case ev := <-sendCh:
				mu.Lock()
				if !ev.Recovery && mode == "revoke" {
					mainSeen = time.Now()
					mu.Unlock()
					continue
				}
				total++
				if ev.Recovery {
					flagged++
					flaggedSoFar = flagged
				}
				last = time.Now()
				mu.Unlock()
			case <-stop:
				done <- [2]int{total, flagged}
				return
			}
		}
	}()
	start := time.Now()
	sent := 0
	revokeMs := int64(-1)
	switch mode {
	case "seq":
		for p := 0; p < parts; p++ {
			for o := 0; o <= per; o++ { // the record at offset `per` completes the window and changes the assignment
				rc.VerifProcessEvent(recMsg(&topic, int32(p), int64(o)))
			}
		}
		n = parts * per
	case "replay":
		half := n / 2
		for o := 0; o < half; o++ {
			rc.VerifProcessEvent(recMsg(&topic, 0, int64(o)))
		}
		extra := kafka.TopicPartition{Topic: &topic, Partition: int32(parts)}
		rc.RequestRecovery(extra.Partition, 0, 5)
		rc.SetAssignedPartitions(append(append([]kafka.TopicPartition{}, tps...), extra))
		_ = rc.RefreshAssignments()
		for o := 0; o < n-half; o++ { // what a real client delivers after being re-assigned at the persisted offset 0
			rc.VerifProcessEvent(recMsg(&topic, 0, int64(o)))
		}
	case "revoke":
		pushed := make(chan struct{})
		go func() {
			for o := 0; o < n; o++ {
				rc.VerifProcessEvent(recMsg(&topic, 0, int64(o)))
			}
			close(pushed)
		}()
		// wait until the burst is used up and the next record is waiting for its token
		for t0 := time.Now(); time.Since(t0) < 5*time.Second; time.Sleep(time.Millisecond) {
			mu.Lock()
			k := flaggedSoFar
			mu.Unlock()
			if k >= burst {
				break
			}
		}
		time.Sleep(30 * time.Millisecond)
		t0 := time.Now()
		kc.VerifProcessEvent(kafka.RevokedPartitions{})
		kc.VerifProcessEvent(recMsg(&topic, 0, 7))
		for time.Since(t0) < 5*time.Second {
			mu.Lock()
			seen := mainSeen
			mu.Unlock()
			if !seen.IsZero() {
				revokeMs = seen.Sub(t0).Milliseconds()
				break
			}
			time.Sleep(time.Millisecond)
		}
		select {
		case <-pushed:
		case <-time.After(8 * time.Second):
		}
		mu.Lock()
		n = flaggedSoFar // after the revocation the remaining records are not emitted
		mu.Unlock()
	default:
		for o := 0; sent < n; o++ {
			for p := 0; p < parts && sent < n; p++ {
				rc.VerifProcessEvent(recMsg(&topic, int32(p), int64(o)))
				sent++
			}
		}
	}
	time.Sleep(20 * time.Millisecond)
	stop <- struct{}{}
	res := <-done
	mu.Lock()
	elapsed := last.Sub(start)
	mu.Unlock()
	// main consumer events are never delayed by the limit (the bucket is empty right now)
	mainN := 10000
	go func() {
		for i := 0; i < mainN; i++ {
			<-sendCh
		}
		done <- [2]int{0, 0}
	}()
	ms := time.Now()
	for i := 0; i < mainN; i++ {
		kc.VerifProcessEvent(recMsg(&topic, 0, int64(i)))
	}
	<-done
	mainMs := time.Since(ms).Milliseconds()
	return fmt.Sprintf("elapsedMs=%d emitted=%d flagged=%d mainMs=%d mainN=%d limit=%d burst=%d n=%d revokeMs=%d", elapsed.Milliseconds(), res[0], res[1], mainMs, mainN, int(limit), burst, n, revokeMs)
}
