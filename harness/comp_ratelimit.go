package main

// component "ratelimit" (C19, runtime part): the recovery consumer is built by the REAL NewRecoveryConsumer (so the limiter
// is the one the code constructs from configuration), then detached from its Kafka client; records are pushed as fast as
// possible and the time until the last recovery event is measured.
// input: "rate <r> parts <k> n <n>"

import (
	"fmt"
	"strconv"
	"strings"
	"time"

	"github.com/confluentinc/confluent-kafka-go/kafka"

	"github.com/digitalocean/firebolt"
	"github.com/digitalocean/firebolt/node/kafkaconsumer"
)

func init() {
	register("ratelimit", &component{gen: genRateLimit, exec: execRateLimit})
}

func genRateLimit(r *rng, n int, tier string, emit func(string)) {
	emit("rate 200 parts 1 n 260")
	emit("rate 1000 parts 4 n 800")
	emit("rate 1500 parts 2 n 1400")
	if tier == "thorough" {
		emit("rate 50 parts 3 n 150")
		emit("rate 5000 parts 4 n 4600")
		emit("rate 400 parts 1 n 100")
		for i := 0; i < n; i++ {
			rate := r.pick(100, 300, 700, 1200, 2500)
			emit(fmt.Sprintf("rate %d parts %d n %d", rate, r.intn(4)+1, 100+rate*int64(r.rangeI(3, 9))/10))
		}
	}
}

func execRateLimit(input string) string {
	f := strings.Fields(input)
	if len(f) != 6 {
		return "bad-input"
	}
	rate, _ := strconv.Atoi(f[1])
	parts, _ := strconv.Atoi(f[3])
	n, _ := strconv.Atoi(f[5])
	m := consumerMetrics()
	ctx := &recordingContext{}
	sendCh := make(chan firebolt.Event, 64)
	cfg := map[string]string{"brokers": "127.0.0.1:1", "buffersize": "10", "parallelrecoverymaxrecords": "1000000", "parallelrecoverymaxrate": strconv.Itoa(rate)}
	rc, err := kafkaconsumer.NewRecoveryConsumer("t", sendCh, cfg, m, ctx)
	if err != nil {
		return "harness-error " + err.Error()
	}
	client := newScriptedConsumer()
	rc.VerifDetach(client, sendCh)
	limit, burst := rc.VerifLimiter()
	kc := kafkaconsumer.VerifNewKafkaConsumer(newScriptedConsumer(), "t", sendCh, 0, m, rc, ctx)
	topic := "t"
	var tps []kafka.TopicPartition
	per := (n + parts - 1) / parts
	for p := 0; p < parts; p++ {
		tps = append(tps, kafka.TopicPartition{Topic: &topic, Partition: int32(p)})
		rc.RequestRecovery(int32(p), 0, kafka.Offset(per+10))
	}
	rc.SetAssignedPartitions(tps)
	_ = rc.RefreshAssignments()
	// drain
	done := make(chan [2]int, 1)
	stop := make(chan struct{})
	var last time.Time
	go func() {
		flagged, total := 0, 0
		for {
			select {
			case ev := <-sendCh:
				total++
				if ev.Recovery {
					flagged++
				}
				last = time.Now()
			case <-stop:
				done <- [2]int{total, flagged}
				return
			}
		}
	}()
	start := time.Now()
	sent := 0
	for o := 0; sent < n; o++ {
		for p := 0; p < parts && sent < n; p++ {
			rc.VerifProcessEvent(recMsg(&topic, int32(p), int64(o)))
			sent++
		}
	}
	time.Sleep(20 * time.Millisecond)
	stop <- struct{}{}
	res := <-done
	elapsed := last.Sub(start)
	// main consumer events are never delayed by the limit (the bucket is empty right now)
	mainN := 10000
	go func() {
		for i := 0; i < mainN; i++ {
			<-sendCh
		}
		done <- [2]int{0, 0}
	}()
	ms := time.Now()
	for i := 0; i < mainN; i++ {
		kc.VerifProcessEvent(recMsg(&topic, 0, int64(i)))
	}
	<-done
	mainMs := time.Since(ms).Milliseconds()
	return fmt.Sprintf("elapsedMs=%d emitted=%d flagged=%d mainMs=%d mainN=%d limit=%d burst=%d", elapsed.Milliseconds(), res[0], res[1], mainMs, mainN, int(limit), burst)
}
