package main

// component "recovery" (C07, C09, wiring of C19): a real RecoveryConsumer (+ KafkaConsumer for main-consumer records
// and revocation) over a scripted cursor client, driven by an op list.
// input: "cfg maxRecords maxRate ; op ; op ..." with ops
//   poll p | msg p o | main p o | kerr 0|1 | low p v | refresh | own p,p|- | revoke | revokex | req p f t | recv p f:t,..|- | crash
//   refresh& (a refresh whose Unassign is a slow round trip; a directly following revoke runs beside it on another goroutine)
//   queue p o (a record sits prefetched in the client's event queue) | handle (one iteration of the event loop on that queue)

import (
	"fmt"
	"sort"
	"strconv"
	"strings"
	"sync"
	"time"

	"github.com/confluentinc/confluent-kafka-go/kafka"

	"github.com/digitalocean/firebolt"
	"github.com/digitalocean/firebolt/fbcontext"
	"github.com/digitalocean/firebolt/node/kafkaconsumer"
)

func init() {
	register("recovery", &component{gen: genRecovery, exec: execRecovery})
}

func genRecovery(r *rng, n int, tier string, emit func(string)) {
	for _, c := range []string{
		// one window, read to completion
		"cfg 1000 1000 ; own 0 ; req 0 10 14 ; refresh ; poll 0 ; poll 0 ; poll 0 ; poll 0 ; poll 0 ; poll 0 ; poll 0",
		// request before ownership; stale records; main consumer in between
		"cfg 1000 1000 ; req 1 5 8 ; refresh ; own 1,2 ; refresh ; msg 1 3 ; msg 1 4 ; poll 1 ; main 1 100 ; poll 1 ; poll 1 ; poll 1 ; poll 1",
		// progress broadcast every 5 records (rate 1), crash, successor resumes
		"cfg 1000 1 ; own 0 ; req 0 3 14 ; refresh ; poll 0 ; poll 0 ; poll 0 ; poll 0 ; crash ; own 0 ; refresh ; poll 0 ; poll 0 ; poll 0 ; poll 0 ; poll 0 ; poll 0 ; poll 0 ; poll 0 ; poll 0 ; poll 0",
		// truncation: restart from low watermark / close
		"cfg 1000 1000 ; own 0,1 ; req 0 10 20 ; req 1 10 20 ; refresh ; low 0 15 ; low 1 30 ; kerr 1 ; refresh ; poll 0 ; poll 1 ; kerr 0",
		// revoke stops emission; empty window; trimmed request
		"cfg 3 1000 ; own 0 ; req 0 10 20 ; req 0 30 30 ; refresh ; poll 0 ; revoke ; poll 0 ; msg 0 18 ; own 0 ; refresh ; poll 0 ; poll 0 ; poll 0 ; poll 0",
		// prefetched records of the old assignment are dropped when the assignment changes, handled when it does not
		"cfg 1000 1000 ; own 0 ; req 0 20 30 ; refresh ; queue 0 25 ; queue 0 26 ; queue 0 27 ; recv 0 3:8 ; refresh ; handle ; handle ; poll 0 ; poll 0",
		"cfg 1000 1000 ; own 0 ; req 0 20 30 ; refresh ; queue 0 20 ; queue 0 21 ; refresh ; handle ; queue 0 35 ; queue 0 22 ; handle ; handle ; handle ; poll 0",
		// a revocation arrives while a refresh is in its broker round trip: nothing under recovery yet (F12) / one of two partitions just completed
		"cfg 1000 1000 ; own 0 ; req 0 10 20 ; refresh& ; revoke ; poll 0 ; poll 0",
		"cfg 1000 1000 ; own 0,1 ; req 0 10 12 ; req 1 5 30 ; refresh ; poll 0 ; poll 0 ; msg 0 12 ; own 0,1 ; req 0 40 50 ; refresh& ; revoke ; poll 1 ; poll 0",
		// two partitions interleaved, completion of one reassigns the other
		"cfg 1000 1000 ; own 0,1 ; req 0 1 3 ; req 1 7 12 ; refresh ; poll 1 ; poll 0 ; poll 1 ; poll 0 ; poll 0 ; poll 1 ; poll 1 ; poll 1 ; poll 1 ; poll 1",
	} {
		emit(c)
	}
	maxOps := 60
	if tier == "thorough" {
		maxOps = 300
	}
	for i := 0; i < n; i++ {
		nparts := r.intn(4) + 1
		rate := r.pick(1, 1, 2, 1000)
		maxRec := r.pick(1000, 1000, 3, 8)
		ops := []string{fmt.Sprintf("cfg %d %d", maxRec, rate)}
		nops := r.intn(maxOps) + 5
		ownAll := func() string {
			var ps []string
			for p := 0; p < nparts; p++ {
				if r.chance(75) {
					ps = append(ps, strconv.Itoa(p))
				}
			}
			if len(ps) == 0 {
				return "-"
			}
			return strings.Join(ps, ",")
		}
		// a typical opening: ownership and requests in either order, then refresh
		if r.chance(50) {
			ops = append(ops, "own "+ownAll())
		}
		for p := 0; p < nparts; p++ {
			if r.chance(70) {
				f := r.rangeI(0, 30)
				ops = append(ops, fmt.Sprintf("req %d %d %d", p, f, f+r.pick(0, 1, 2, 4, 7, 12, 25)))
			}
		}
		if r.chance(60) {
			ops = append(ops, "own "+ownAll())
		}
		ops = append(ops, "refresh")
		for j := 0; j < nops; j++ {
			p := r.intn(nparts)
			x := r.intn(1000)
			switch {
			case x < 620:
				ops = append(ops, fmt.Sprintf("poll %d", p))
			case x < 690:
				ops = append(ops, fmt.Sprintf("msg %d %d", p, r.rangeI(0, 45)))
			case x < 740:
				ops = append(ops, fmt.Sprintf("main %d %d", p, r.rangeI(0, 99)))
			case x < 780:
				ops = append(ops, "refresh")
			case x < 800:
				// records prefetched before something changes the assignment (or does not), then the event loop runs
				nq := r.intn(4) + 1
				for q := 0; q < nq; q++ {
					ops = append(ops, fmt.Sprintf("queue %d %d", r.intn(nparts), r.rangeI(0, 45)))
				}
				switch r.intn(4) {
				case 0:
					f := r.rangeI(0, 30)
					ops = append(ops, fmt.Sprintf("recv %d %d:%d", p, f, f+r.rangeI(0, 9)), "refresh")
				case 1:
					ops = append(ops, "refresh")
				case 2:
					ops = append(ops, "revoke")
				}
				for q := r.intn(nq + 2); q > 0; q-- {
					ops = append(ops, "handle")
				}
			case x < 830:
				f := r.rangeI(0, 40)
				ops = append(ops, fmt.Sprintf("req %d %d %d", p, f, f+r.pick(0, 1, 3, 6, 10)))
			case x < 850:
				ops = append(ops, "own "+ownAll())
			case x < 862:
				// a revocation arriving while a refresh is still talking to the broker
				if r.chance(50) {
					f := r.rangeI(0, 40)
					ops = append(ops, fmt.Sprintf("req %d %d %d", p, f, f+r.pick(1, 3, 6, 10)))
				}
				if r.chance(40) {
					ops = append(ops, "own "+ownAll())
				}
				ops = append(ops, "refresh&", "revoke")
			case x < 870:
				ops = append(ops, r.pickS("revoke", "revoke", "revokex"))
			case x < 890:
				ops = append(ops, "crash", "own "+ownAll(), "refresh")
			case x < 915:
				ops = append(ops, fmt.Sprintf("low %d %d", p, r.rangeI(0, 40)), fmt.Sprintf("kerr %d", r.pick(1, 1, 1, 0)))
			case x < 935:
				var rs []string
				for q := r.intn(3); q > 0; q-- {
					f := r.rangeI(0, 40)
					rs = append(rs, fmt.Sprintf("%d:%d", f, f+r.rangeI(0, 9)))
				}
				l := "-"
				if len(rs) > 0 {
					l = strings.Join(rs, ",")
				}
				ops = append(ops, fmt.Sprintf("recv %d %s", p, l))
			default:
				ops = append(ops, fmt.Sprintf("poll %d", p), fmt.Sprintf("poll %d", p), fmt.Sprintf("poll %d", p))
			}
		}
		emit(strings.Join(ops, " ; "))
	}
}

type pendingRefresh struct {
	park        chan struct{}
	done        chan struct{}
	goid        int64
	callsBefore int
}

// callsObs renders client calls as "c=<U|A|F letters> a=<last assignment>"
func callsObs(calls []string) string {
	if len(calls) == 0 {
		return ""
	}
	letters, last := "", ""
	for _, c := range calls {
		if strings.HasPrefix(c, "assign ") {
			letters += "A"
			last = strings.TrimPrefix(c, "assign ")
		} else if c == "unassign" {
			letters += "U"
		} else {
			letters += "F"
		}
	}
	if last != "" {
		return "c=" + letters + " a=" + last
	}
	return "c=" + letters
}

type recoveryRig struct {
	topic   string
	client  *scriptedConsumer
	mainCl  *scriptedConsumer
	ctx     *recordingContext
	sendCh  chan firebolt.Event
	rc      *kafkaconsumer.RecoveryConsumer
	kc      *kafkaconsumer.KafkaConsumer
	maxRec  int
	maxRate int
}

func newRecoveryRig(maxRec, maxRate int, unlimited bool) *recoveryRig {
	g := &recoveryRig{topic: "t", maxRec: maxRec, maxRate: maxRate}
	g.client = newScriptedConsumer()
	g.mainCl = newScriptedConsumer()
	g.ctx = &recordingContext{}
	g.sendCh = make(chan firebolt.Event, 256)
	m := consumerMetrics()
	g.rc = kafkaconsumer.VerifNewRecoveryConsumer(g.client, g.topic, g.sendCh, maxRec, maxRate, m, g.ctx, unlimited)
	g.kc = kafkaconsumer.VerifNewKafkaConsumer(g.mainCl, g.topic, g.sendCh, 0, m, g.rc, g.ctx)
	return g
}

var (
	setupGateOnce sync.Once
	setupGateOpen bool
)

// setupAcceptsRecoveryRequests: does a Kafka source with parallel recovery, built by the real Setup and not yet started,
// accept recovery-request snapshots?  (once per process)
func setupAcceptsRecoveryRequests() bool {
	setupGateOnce.Do(func() {
		kc := &kafkaconsumer.KafkaConsumer{}
		kc.Init("verif-restarted-source", &recordingContext{})
		cfg := map[string]string{"brokers": "127.0.0.1:1", "consumergroup": "g", "topic": "t", "buffersize": "10",
			"parallelrecoveryenabled": "true", "parallelrecoverymaxrecords": "1000", "parallelrecoverymaxrate": "100"}
		ch := make(chan firebolt.Event, 1)
		if err := kc.Setup(cfg, ch); err != nil {
			setupGateOpen = true // cannot tell: do not blame the gate
			return
		}
		kc.VerifDetachMain(newScriptedConsumer())
		if rc := kc.VerifRecoveryConsumer(); rc != nil {
			rc.VerifDetach(newScriptedConsumer(), ch)
		}
		setupGateOpen = kc.AcceptsMessage("recoveryrequest")
	})
	return setupGateOpen
}

func recMsg(topic *string, p int32, o int64) *kafka.Message {
	return &kafka.Message{TopicPartition: kafka.TopicPartition{Topic: topic, Partition: p, Offset: kafka.Offset(o)}, Value: []byte(fmt.Sprintf("%d:%d", p, o))}
}

func execRecovery(input string) string {
	segs := strings.Split(input, ";")
	hd := strings.Fields(segs[0])
	if len(hd) != 3 || hd[0] != "cfg" {
		return "bad-input"
	}
	maxRec, _ := strconv.Atoi(hd[1])
	maxRate, _ := strconv.Atoi(hd[2])
	g := newRecoveryRig(maxRec, maxRate, true)
	var topicLog []fbcontext.Message // everything on the message topic, in order
	var outs []string
	var pending *pendingRefresh
	// fixPending fills in the observation of a finished "refresh&": the client calls its goroutine made
	fixPending := func() {
		if pending == nil {
			return
		}
		g.client.mu.Lock()
		var mine []string
		for i := pending.callsBefore; i < len(g.client.calls); i++ {
			if i < len(g.client.callGoids) && g.client.callGoids[i] == pending.goid {
				mine = append(mine, g.client.calls[i])
			}
		}
		g.client.mu.Unlock()
		obs := callsObs(mine)
		if obs == "" {
			obs = "."
		}
		for i := len(outs) - 1; i >= 0; i-- {
			if outs[i] == "@pending" {
				outs[i] = obs
				break
			}
		}
		pending = nil
	}
	for idx, seg := range segs[1:] {
		f := strings.Fields(seg)
		if len(f) == 0 {
			continue
		}
		pi := func(i int) int64 { v, _ := strconv.ParseInt(f[i], 10, 64); return v }
		callsBefore := len(g.client.calls)
		sentBefore := len(g.ctx.sent)
		if pending != nil && f[0] != "revoke" {
			// not followed by a revocation: let the refresh finish first, it is then an ordinary refresh
			close(pending.park)
			<-pending.done
			pending.park = nil
			fixPending()
			callsBefore = len(g.client.calls)
		}
		switch f[0] {
		case "poll":
			p := int32(pi(1))
			if o, ok := g.client.cursor[p]; ok {
				g.client.cursor[p] = o + 1
				g.rc.VerifProcessEvent(recMsg(&g.topic, p, o))
			}
		case "msg":
			g.rc.VerifProcessEvent(recMsg(&g.topic, int32(pi(1)), pi(2)))
		case "queue":
			select {
			case g.client.events <- recMsg(&g.topic, int32(pi(1)), pi(2)):
			default:
				return "bad-input queue-full"
			}
		case "handle":
			select {
			case ev := <-g.client.events:
				g.rc.VerifProcessEvent(ev)
			default:
			}
		case "main":
			g.kc.VerifProcessEvent(recMsg(&g.topic, int32(pi(1)), pi(2)))
		case "kerr":
			code := kafka.ErrUnknownTopicOrPart
			if f[1] == "1" {
				code = kafka.ErrOffsetOutOfRange
				if idx%2 == 1 {
					code = kafka.ErrInvalidMsg
				}
			}
			g.rc.VerifProcessEvent(kafka.NewError(code, "scripted", false))
		case "low":
			g.client.low[int32(pi(1))] = pi(2)
		case "refresh":
			_ = g.rc.RefreshAssignments()
		case "refresh&":
			// a refresh (the 10 s ticker's, say) whose Unassign is a slow broker round trip; the next op - a revocation - arrives
			// on another goroutine while it is under way.  Calls are attributed to the goroutine that made them.
			park, parked, aDone := make(chan struct{}), make(chan struct{}), make(chan struct{})
			g.client.mu.Lock()
			g.client.parkUnassign, g.client.parked, g.client.trackGoids = park, parked, true
			g.client.mu.Unlock()
			pend := &pendingRefresh{park: park, done: aDone, callsBefore: callsBefore}
			go func() {
				pend.goid = goid()
				_ = g.rc.RefreshAssignments()
				close(aDone)
			}()
			select {
			case <-parked:
			case <-aDone: // nothing to change: the refresh never talks to the client
			}
			pending = pend
			outs = append(outs, "@pending")
			continue
		case "own":
			var tps []kafka.TopicPartition
			if f[1] != "-" {
				for _, x := range strings.Split(f[1], ",") {
					v, _ := strconv.ParseInt(x, 10, 32)
					tps = append(tps, kafka.TopicPartition{Topic: &g.topic, Partition: int32(v)})
				}
			}
			g.rc.SetAssignedPartitions(tps)
		case "revoke":
			if pending != nil {
				bDone := make(chan struct{})
				go func() { g.kc.VerifRevoke(); close(bDone) }()
				// give the revocation time to get as far as it can while the refresh is still in its round trip
				select {
				case <-bDone:
				case <-time.After(30 * time.Millisecond):
				}
				close(pending.park)
				<-pending.done
				<-bDone
				pending.park = nil
			} else {
				g.kc.VerifRevoke()
			}
		case "revokex":
			// a revocation during which the main client's Unassign reports a failure: the recovery consumer must still be told
			g.mainCl.unassignErr = true
			g.kc.VerifRevoke()
			g.mainCl.unassignErr = false
		case "req":
			g.rc.RequestRecovery(int32(pi(1)), kafka.Offset(pi(2)), kafka.Offset(pi(3)))
		case "recv":
			msg := fbcontext.Message{MessageType: "recoveryrequest", Key: f[1], Payload: encodeReqs(int32(pi(1)), f[2])}
			topicLog = append(topicLog, msg)
			_ = g.kc.Receive(msg)
		case "crash":
			old := g
			g = newRecoveryRig(maxRec, maxRate, true)
			for p, v := range old.client.low {
				g.client.low[p] = v
			}
			// the executor replays the message topic to a restarted source between its Setup and its Start, and hands a message
			// only to a source that accepts the type at that moment (deliverMessage): ask a source built by the real Setup
			if setupAcceptsRecoveryRequests() {
				for _, m := range topicLog {
					g.rc.VerifTracker().VerifReceive(m.Key, m.Payload)
				}
			}
			callsBefore, sentBefore = 0, 0
		default:
			return "bad-input"
		}
		// observations of this op
		var parts []string
		var rec, mainE []string
	drain:
		for {
			select {
			case ev := <-g.sendCh:
				b, _ := ev.Payload.([]byte)
				if ev.Recovery {
					rec = append(rec, string(b))
				} else {
					mainE = append(mainE, string(b))
				}
			default:
				break drain
			}
		}
		if len(rec) > 0 {
			parts = append(parts, "r=["+strings.Join(rec, ",")+"]")
		}
		if len(mainE) > 0 {
			parts = append(parts, "m=["+strings.Join(mainE, ",")+"]")
		}
		if f[0] != "crash" {
			var newCalls []string
			g.client.mu.Lock()
			if pending != nil {
				// the op that ran beside a "refresh&": its calls are those the refresh's goroutine did not make
				for i := pending.callsBefore; i < len(g.client.calls); i++ {
					if !(i < len(g.client.callGoids) && g.client.callGoids[i] == pending.goid) {
						newCalls = append(newCalls, g.client.calls[i])
					}
				}
			} else {
				newCalls = append(newCalls, g.client.calls[callsBefore:]...)
			}
			g.client.mu.Unlock()
			if o := callsObs(newCalls); o != "" {
				parts = append(parts, o)
			}
			fixPending()
			newSent := g.ctx.sent[sentBefore:]
			if len(newSent) > 0 {
				topicLog = append(topicLog, newSent...)
				parts = append(parts, "b="+fmtBcasts(newSent))
			}
		}
		if len(parts) == 0 {
			outs = append(outs, ".")
		} else {
			outs = append(outs, strings.Join(parts, " "))
		}
	}
	if pending != nil {
		close(pending.park)
		<-pending.done
		fixPending()
	}
	// final state
	act := g.rc.VerifActive()
	sort.Slice(act, func(i, j int) bool { return act[i].Partition < act[j].Partition })
	var aA, aF []string
	for _, a := range act {
		aA = append(aA, fmt.Sprintf("%d:%d", a.Partition, a.Assigned))
		aF = append(aF, fmt.Sprintf("%d=[%d:%d]", a.Partition, a.From, a.To))
	}
	actF := "-"
	if len(aF) > 0 {
		actF = strings.Join(aF, "|")
	}
	var cur []string
	var cps []int
	for p := range g.client.cursor {
		cps = append(cps, int(p))
	}
	sort.Ints(cps)
	for _, p := range cps {
		cur = append(cur, fmt.Sprintf("%d:%d", p, g.client.cursor[int32(p)]))
	}
	var own []string
	for _, tp := range g.rc.VerifAssigned() {
		own = append(own, fmt.Sprintf("%d:0", tp.Partition))
	}
	return strings.Join(outs, " ; ") + fmt.Sprintf(" # actA=[%s] actF=%s tr=%s cur=[%s] own=[%s]", strings.Join(aA, ","), actF, trackerState(g.rc.VerifTracker()), strings.Join(cur, ","), strings.Join(own, ","))
}
