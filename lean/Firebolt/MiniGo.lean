import Firebolt.Util
/-!
MiniGo — a deep embedding of the loop-free, scalar fragment of Go that the decision logic of firebolt is written in,
with an executable semantics.  `/verif/extractor` (translate.go) **translates** selected functions (or the body of a
loop of a function) of /repo into terms of type `S` on every run (`Generated/Trans.lean`); the `translated_*` theorems of
the property files prove, for every environment, that running the translated term yields what the hand-written model
function yields.  Unlike the source pins (`source_*`), these obligations are *semantic*: renaming a local, reordering
independent statements or restructuring an `if` keeps them provable; changing a comparison, a bound or an argument
does not.

What a term means (this is the trusted reading of Go; the translator is part of the trusted base):
* every value is a mathematical integer; `bool` is 1/0; `nil` is 0; `+`, `-`, `*` wrap to int64 (`wrap64`), `%` is Go's
  truncated remainder; the conversions `int64(·)`, `int(·)`, `kafka.Offset(·)` are the identity (all are 64-bit here);
* a variable is a name: locals, parameters, **field paths** (`recoveryState.toOffset`, `rc.maxRecordsToRecover`) and any
  call-free expression the translator has no rule for (`len(result)`, `requests.Requests[0]`) are variables named by
  their source text — inputs of the fragment, independent of each other;
* a call the fragment makes (`S.call`) is an event of the run — callee text and evaluated arguments are appended to
  `R.calls` — and its results are *inputs*: result `i` of callee `f` is read from the variable `f#i`; calls nested in
  conditions or right-hand sides are hoisted into `S.call`s in evaluation order (a call under the right operand of
  `&&`/`||` is not translated: `S.unsupported`); calls inside the *arguments* of a call are not events, the argument is a
  variable named by its text;
* `return` ends the run with the evaluated results; statements outside the fragment (`for`, `switch`, `select`, `go`,
  labelled jumps) make the run `stuck` — the theorems show the translated fragments never get stuck.
-/
namespace Firebolt.MiniGo
open Firebolt

inductive E where
  | lit (n : Int)
  | var (x : String)
  | add (a b : E) | sub (a b : E) | mul (a b : E) | rem (a b : E)
  | lt (a b : E) | le (a b : E) | gt (a b : E) | ge (a b : E) | eq (a b : E) | ne (a b : E)
  | and (a b : E) | or (a b : E) | not (a : E)
  | min (a b : E) | max (a b : E)   -- the package's own `min` / `max` (see `translated_trackerMin/Max`)
deriving Repr, Inhabited

inductive S where
  | skip
  | seq (a b : S)
  | assign (x : String) (e : E)
  /-- `rets`: (variable assigned, input variable the result is read from) -/
  | call (rets : List (String × String)) (f : String) (args : List E)
  | ite (c : E) (t e : S)
  | ret (es : List E)
  | unsupported (txt : String)
deriving Repr, Inhabited

/-- a block of statements -/
def blk (l : List S) : S := l.foldr S.seq S.skip

abbrev Env := String → Int

def upd (σ : Env) (x : String) (v : Int) : Env := fun y => if y = x then v else σ y

@[simp] theorem upd_apply (σ : Env) (x y : String) (v : Int) : upd σ x v y = if y = x then v else σ y := rfl

theorem upd_same (σ : Env) (x : String) (v : Int) : upd σ x v x = v := by simp [upd]
theorem upd_other (σ : Env) (x y : String) (v : Int) (h : y ≠ x) : upd σ x v y = σ y := by simp [upd, h]

def b2i (b : Bool) : Int := if b then 1 else 0

def evalE (σ : Env) : E → Int
  | .lit n => n
  | .var x => σ x
  | .add a b => wrap64 (evalE σ a + evalE σ b)
  | .sub a b => wrap64 (evalE σ a - evalE σ b)
  | .mul a b => wrap64 (evalE σ a * evalE σ b)
  | .rem a b => Int.tmod (evalE σ a) (evalE σ b)
  | .lt a b => b2i (decide (evalE σ a < evalE σ b))
  | .le a b => b2i (decide (evalE σ a ≤ evalE σ b))
  | .gt a b => b2i (decide (evalE σ a > evalE σ b))
  | .ge a b => b2i (decide (evalE σ a ≥ evalE σ b))
  | .eq a b => b2i (decide (evalE σ a = evalE σ b))
  | .ne a b => b2i (decide (evalE σ a ≠ evalE σ b))
  | .and a b => b2i (evalE σ a != 0 && evalE σ b != 0)
  | .or a b => b2i (evalE σ a != 0 || evalE σ b != 0)
  | .not a => b2i (evalE σ a == 0)
  | .min a b => if evalE σ a > evalE σ b then evalE σ b else evalE σ a
  | .max a b => if evalE σ a < evalE σ b then evalE σ b else evalE σ a

structure R where
  env : Env
  calls : List (String × List Int) := []
  ret : Option (List Int) := none
  stuck : Bool := false

def R.live (r : R) : Bool := r.ret.isNone && !r.stuck

/-- results of a call are inputs: each assigned variable takes the value of the named input variable -/
def bindRets (σ : Env) : List (String × String) → Env
  | [] => σ
  | (x, src) :: rest => bindRets (upd σ x (σ src)) rest

def exec : S → R → R
  | .skip, r => r
  | .seq a b, r => exec b (exec a r)
  | .assign x e, r => if r.live then { r with env := upd r.env x (evalE r.env e) } else r
  | .call rets f args, r =>
    if r.live then { r with calls := r.calls ++ [(f, args.map (evalE r.env))], env := bindRets r.env rets } else r
  | .ite c t e, r => if r.live then (if evalE r.env c != 0 then exec t r else exec e r) else r
  | .ret es, r => if r.live then { r with ret := some (es.map (evalE r.env)) } else r
  | .unsupported _, r => if r.live then { r with stuck := true } else r

def run (s : S) (σ : Env) : R := exec s { env := σ }

/-- the observable outcome of a run: the calls made (in order), the returned values, whether it left the fragment -/
structure Obs where
  calls : List (String × List Int)
  ret : Option (List Int)
  stuck : Bool
deriving DecidableEq, Repr

def obs (s : S) (σ : Env) : Obs := let r := run s σ; ⟨r.calls, r.ret, r.stuck⟩


/-! ### variables and literals of a term (for the counterexample search of the driver) -/

def E.vars : E → List String
  | .lit _ => []
  | .var x => [x]
  | .add a b | .sub a b | .mul a b | .rem a b | .lt a b | .le a b | .gt a b | .ge a b | .eq a b | .ne a b
  | .and a b | .or a b | .min a b | .max a b => a.vars ++ b.vars
  | .not a => a.vars

def E.lits : E → List Int
  | .lit n => [n]
  | .var _ => []
  | .add a b | .sub a b | .mul a b | .rem a b | .lt a b | .le a b | .gt a b | .ge a b | .eq a b | .ne a b
  | .and a b | .or a b | .min a b | .max a b => a.lits ++ b.lits
  | .not a => a.lits

/-- every name a run may read: variables of expressions and the inputs call results are read from -/
def S.vars : S → List String
  | .skip => []
  | .seq a b => a.vars ++ b.vars
  | .assign _ e => e.vars
  | .call rets _ args => rets.map (·.2) ++ args.flatMap E.vars
  | .ite c t e => c.vars ++ t.vars ++ e.vars
  | .ret es => es.flatMap E.vars
  | .unsupported _ => []

def S.lits : S → List Int
  | .skip => []
  | .seq a b => a.lits ++ b.lits
  | .assign _ e => e.lits
  | .call _ _ args => args.flatMap E.lits
  | .ite c t e => c.lits ++ t.lits ++ e.lits
  | .ret es => es.flatMap E.lits
  | .unsupported _ => []

/-- evaluate a translated term symbolically: unfold the interpreter; string comparisons of variable names are decided by `simp` -/
macro "minigo_simp" "[" ts:Lean.Parser.Tactic.simpLemma,* "]" : tactic =>
  `(tactic| simp [run, obs, exec, blk, evalE, R.live, bindRets, b2i, $ts,*])

end Firebolt.MiniGo
