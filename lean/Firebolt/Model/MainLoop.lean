import Firebolt.Util
/-!
Model of the executor's main goroutine from the moment the source channel is being read to the return of `Execute`
(executor.go: the `for !done` loop, closing the root channels, `waitTimeout`, `stopWorkers`) — C17.
Workers are abstracted to what the main goroutine can observe of them: whether a root buffer has room, and whether
the executor-wide WaitGroup has reached zero.  The timer of `waitTimeout` is an action that is always enabled while waiting.
-/
namespace Firebolt.MainLoop

inductive Pc where
  | reading                 -- in the select on the source channel
  | sending (i : Nat)       -- delivering the current event to root i (roots 0..i-1 done)
  | closing                 -- source channel closed: closing the root channels
  | waiting                 -- in waitTimeout
  | stopping                -- timeout: stopWorkers (spawns one goroutine per worker, never blocks)
  | done                    -- Execute returns
deriving DecidableEq, Repr, Inhabited

structure St where
  pc : Pc := .reading
  roots : Nat
  room : Nat → Bool         -- root i's buffer has room, or root i discards (environment)
  wgZero : Bool             -- every worker of every node has exited (environment)
  timedOut : Bool := false
deriving Inhabited

inductive Act where
  | srcEvent                -- an event arrives from the source
  | srcClosed               -- the source channel is closed (source returned nil / was shut down)
  | sendRoot                -- the send to the current root completes (needs room or discard)
  | closeRoots
  | waitDone                -- the WaitGroup reached zero
  | timer                   -- the shutdown timeout fires
  | stopAll
  | env (room : Nat → Bool) (wgZero : Bool)   -- workers make progress or stall: the environment changes
deriving Inhabited

def step (s : St) : Act → Option St
  | .srcEvent => if s.pc = .reading then some { s with pc := if s.roots = 0 then .reading else .sending 0 } else none
  | .srcClosed => if s.pc = .reading then some { s with pc := .closing } else none
  | .sendRoot =>
    match s.pc with
    | .sending i => if s.room i then some { s with pc := if i + 1 < s.roots then .sending (i + 1) else .reading } else none
    | _ => none
  | .closeRoots => if s.pc = .closing then some { s with pc := .waiting } else none
  | .waitDone => if s.pc = .waiting ∧ s.wgZero then some { s with pc := .done } else none
  | .timer => if s.pc = .waiting then some { s with pc := .stopping, timedOut := true } else none
  | .stopAll => if s.pc = .stopping then some { s with pc := .done } else none
  | .env r z => some { s with room := r, wgZero := z }

def run (s : St) : List Act → Option St
  | [] => some s
  | a :: as => match step s a with
    | some s' => run s' as
    | none => none

end Firebolt.MainLoop
