import Firebolt.Util
/-!
Operational model of ONE node of the executor with its `W` workers, its input channel and its `K` downstream channels
(children `0 … nChildren-1`, then the error handler if any) — the transcription of `runNode`, `ProcessEvent`,
`handleResult`, `deliverToChild`, `handleFailure`, `invokeProcessorAsync` at the granularity of one Go-level
synchronisation event per action (Expected/Skeleton.lean is the reviewed shape of those functions).

Every action is one thread doing one thing; a *schedule* is any list of actions, `step` returns `none` when the action is
not enabled (blocked).  The upstream (parent or main loop) and the downstream consumers (the children's workers) are
environment actions.  The tree is a composition of such components: what this component guarantees about a downstream
channel (sends only while open, one close, after Shutdown returned) is what the child component assumes about its input.
Theorems: `Properties/ExecCascade.lean` (C03, C05), `Properties/ExecLedger.lean` (C01, C02, C04, C16).
-/
namespace Firebolt.Exec

abbrev Ev := Nat

def upd {α} (f : Nat → α) (i : Nat) (v : α) : Nat → α := fun j => if j = i then v else f j
@[simp] theorem upd_same {α} (f : Nat → α) (i : Nat) (v : α) : upd f i v i = v := by simp [upd]
theorem upd_other {α} (f : Nat → α) (i j : Nat) (v : α) (h : j ≠ i) : upd f i v j = f j := by simp [upd, h]

inductive Outcome where
  | pass (rs : List Ev)
  | filter
  | error
deriving DecidableEq, Repr, Inhabited

structure Chan where
  buf : List Ev := []
  cap : Nat := 1
  closed : Bool := false
  discard : Bool := false
deriving Repr, Inhabited

/-- where a worker is -/
inductive Pc where
  | idle                                   -- in the select of runNode
  | proc (e : Ev)                          -- inside the node's Process call
  | deliver (todo : List (Nat × Ev))       -- in handleResult/handleFailure: sends still to do, in order
  | c1                                     -- saw the input closed and drained
  | c2                                     -- after WaitGroup.Done
  | c3                                     -- after WaitGroup.Wait
  | hSh                                    -- Once holder, about to call Shutdown
  | hShIn                                  -- Once holder, inside the node's Shutdown
  | hClose                                 -- Once holder, Shutdown returned, about to close children and handler
  | exited
deriving DecidableEq, Repr, Inhabited

def Pc.live : Pc → Bool          -- still counted in the node's WaitGroup
  | .idle | .proc _ | .deliver _ | .c1 => true
  | _ => false
def Pc.holder : Pc → Bool
  | .hSh | .hShIn | .hClose => true
  | _ => false
def Pc.past : Pc → Bool          -- passed WaitGroup.Wait
  | .c3 | .hSh | .hShIn | .hClose | .exited => true
  | _ => false
def Pc.inProc : Pc → Bool
  | .proc _ => true
  | _ => false

structure Cfg where
  W : Nat                  -- workers
  nChildren : Nat
  hasHandler : Bool
  async : Bool
  oracle : Ev → Outcome

def Cfg.K (c : Cfg) : Nat := c.nChildren + (if c.hasHandler then 1 else 0)

/-- the sends one resolved event gives rise to: every result to every child (children outer, results inner — the loops of
handleResult / deliverToChild), a failure report carrying the original event to the handler, nothing when filtered -/
def todoOf (c : Cfg) (e : Ev) : Outcome → List (Nat × Ev)
  | .pass rs => (List.range c.nChildren).flatMap (fun k => rs.map (fun r => (k, r)))
  | .filter => []
  | .error => if c.hasHandler then [(c.nChildren, e)] else []

structure St where
  inp : List Ev := []
  inpClosed : Bool := false
  outs : Nat → Chan
  pc : Nat → Pc
  cbs : List (List (Nat × Ev)) := []     -- async completions being delivered by other goroutines
  pending : List Ev := []                -- async events not yet answered
  wg : Nat
  onceTaken : Bool := false
  onceDone : Bool := false
  shutStarted : Bool := false
  shutDone : Bool := false
  panic : Bool := false
  -- prometheus counters of this node, and discarded_events_total of each downstream node
  received : Nat := 0
  processed : Nat := 0
  filtered : Nat := 0
  failed : Nat := 0
  discarded : Nat → Nat := fun _ => 0
  -- ghost ledgers
  upSent : List Ev := []                 -- everything the upstream put on the input channel
  recvd : List Ev := []                  -- events handed to the node, in order
  resolved : List Ev := []               -- events whose outcome has been reported, in order
  produced : Nat → List Ev := fun _ => []   -- per downstream channel: events handed to delivery
  offered : Nat → List Ev := fun _ => []    -- … send attempts completed
  enq : Nat → List Ev := fun _ => []        -- … accepted into the buffer
  dropped : Nat → List Ev := fun _ => []    -- … discarded at a full buffer
  deq : Nat → List Ev := fun _ => []        -- … taken out by the downstream workers

inductive Act where
  | upSend (e : Ev) | upClose
  | recv (w : Nat) | procReturn (w : Nat) | complete (i : Nat)
  | send (w : Nat) | finish (w : Nat) | cbSend (i : Nat) | cbFinish (i : Nat)
  | seeClosed (w : Nat) | wgDone (w : Nat) | wgWait (w : Nat) | onceEnter (w : Nat)
  | shutEnter (w : Nat) | shutExit (w : Nat) | closeAll (w : Nat)
  | downRecv (k : Nat)
deriving Repr, Inhabited

def addProduced (s : St) (todo : List (Nat × Ev)) : Nat → List Ev :=
  fun k => s.produced k ++ (todo.filter (fun x => x.1 = k)).map (·.2)

def passB (c : Cfg) (e : Ev) : Bool := match c.oracle e with | .pass _ => true | _ => false
def filterB (c : Cfg) (e : Ev) : Bool := match c.oracle e with | .filter => true | _ => false
def errorB (c : Cfg) (e : Ev) : Bool := match c.oracle e with | .error => true | _ => false

/-- account for a resolved event: one of processed / filtered / failed, the ghost ledgers -/
def resolve (c : Cfg) (s : St) (e : Ev) : St :=
  let o := c.oracle e
  { s with
    processed := s.processed + (if passB c e then 1 else 0),
    filtered := s.filtered + (if filterB c e then 1 else 0),
    failed := s.failed + (if errorB c e then 1 else 0),
    resolved := s.resolved ++ [e],
    produced := addProduced s (todoOf c e o) }

/-- one send attempt of `deliverToChild` (the non-blocking attempt and, for a non-discarding target, the blocking send
are one action that is enabled only when there is room): `none` = blocked -/
def trySend (s : St) (k : Nat) (x : Ev) : Option St :=
  let ch := s.outs k
  if ch.closed then some { s with panic := true }
  else if ch.buf.length < ch.cap then
    some { s with outs := upd s.outs k { ch with buf := ch.buf ++ [x] },
                  offered := upd s.offered k (s.offered k ++ [x]), enq := upd s.enq k (s.enq k ++ [x]) }
  else if ch.discard then
    some { s with offered := upd s.offered k (s.offered k ++ [x]), dropped := upd s.dropped k (s.dropped k ++ [x]),
                  discarded := upd s.discarded k (s.discarded k + 1) }
  else none

def setCb (l : List (List (Nat × Ev))) (i : Nat) (v : List (Nat × Ev)) : List (List (Nat × Ev)) := l.set i v

def step (c : Cfg) (s : St) : Act → Option St
  | .upSend e =>
    if s.inpClosed then none else some { s with inp := s.inp ++ [e], upSent := s.upSent ++ [e] }
  | .upClose => if s.inpClosed then none else some { s with inpClosed := true }
  | .recv w =>
    if w < c.W then
      match s.pc w, s.inp with
      | .idle, e :: rest =>
        let s1 := { s with inp := rest, received := s.received + 1, recvd := s.recvd ++ [e] }
        if c.async then some { s1 with pending := s1.pending ++ [e] }     -- ProcessAsync returns at once
        else some { s1 with pc := upd s.pc w (.proc e) }
      | _, _ => none
    else none
  | .procReturn w =>
    if w < c.W then
      match s.pc w with
      | .proc e => some { resolve c s e with pc := upd s.pc w (.deliver (todoOf c e (c.oracle e))) }
      | _ => none
    else none
  | .complete i =>
    match s.pending[i]? with
    | some e => some { resolve c s e with pending := s.pending.eraseIdx i, cbs := s.cbs ++ [todoOf c e (c.oracle e)] }
    | none => none
  | .send w =>
    if w < c.W then
      match s.pc w with
      | .deliver ((k, x) :: todo) => (trySend s k x).map (fun s' => { s' with pc := upd s'.pc w (.deliver todo) })
      | _ => none
    else none
  | .finish w =>
    if w < c.W then
      match s.pc w with
      | .deliver [] => some { s with pc := upd s.pc w .idle }
      | _ => none
    else none
  | .cbSend i =>
    match s.cbs[i]? with
    | some ((k, x) :: todo) => (trySend s k x).map (fun s' => { s' with cbs := setCb s'.cbs i todo })
    | _ => none
  | .cbFinish i =>
    match s.cbs[i]? with
    | some [] => some { s with cbs := s.cbs.eraseIdx i }
    | _ => none
  | .seeClosed w =>
    if w < c.W then
      match s.pc w, s.inp with
      | .idle, [] => if s.inpClosed then some { s with pc := upd s.pc w .c1 } else none
      | _, _ => none
    else none
  | .wgDone w =>
    if w < c.W then
      match s.pc w with
      | .c1 => some { s with wg := s.wg - 1, pc := upd s.pc w .c2 }
      | _ => none
    else none
  | .wgWait w =>
    if w < c.W then
      match s.pc w with
      | .c2 => if s.wg = 0 then some { s with pc := upd s.pc w .c3 } else none
      | _ => none
    else none
  | .onceEnter w =>
    if w < c.W then
      match s.pc w with
      | .c3 => if !s.onceTaken then some { s with onceTaken := true, pc := upd s.pc w .hSh }
               else if s.onceDone then some { s with pc := upd s.pc w .exited } else none
      | _ => none
    else none
  | .shutEnter w =>
    if w < c.W then
      match s.pc w with
      | .hSh => some { s with shutStarted := true, pc := upd s.pc w .hShIn }
      | _ => none
    else none
  | .shutExit w =>
    if w < c.W then
      match s.pc w with
      | .hShIn =>
        -- H-async: a well-behaved async node has answered every event when its Shutdown returns
        if s.pending.isEmpty && s.cbs.isEmpty then some { s with shutDone := true, pc := upd s.pc w .hClose } else none
      | _ => none
    else none
  | .closeAll w =>
    if w < c.W then
      match s.pc w with
      | .hClose =>
        if (List.range c.K).any (fun k => (s.outs k).closed) then some { s with panic := true }
        else some { s with outs := fun k => if k < c.K then { s.outs k with closed := true } else s.outs k,
                           onceDone := true, pc := upd s.pc w .exited }
      | _ => none
    else none
  | .downRecv k =>
    match (s.outs k).buf with
    | x :: rest => some { s with outs := upd s.outs k { s.outs k with buf := rest }, deq := upd s.deq k (s.deq k ++ [x]) }
    | [] => none

def run (c : Cfg) (s : St) : List Act → Option St
  | [] => some s
  | a :: as => match step c s a with
    | some s' => run c s' as
    | none => none

/-- initial state: `W` idle workers, all channels open and empty -/
def init (c : Cfg) (caps : Nat → Nat) (disc : Nat → Bool) : St :=
  { outs := fun k => { cap := caps k, discard := disc k }, pc := fun _ => .idle, wg := c.W }

end Firebolt.Exec
