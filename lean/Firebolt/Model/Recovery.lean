import Firebolt.Model.Tracker
/-!
Model of `node/kafkaconsumer/recoveryconsumer.go` (C07, C09, wiring part of C19) together with the pieces of
`kafkaconsumer.go` that drive it (`processEvent` for main-consumer records, `revokePartitionAssignments`).

The Kafka client of the recovery consumer is a *scripted cursor client* (trusted contract, implemented identically by
the Go harness): after `Assign [p@x …]` a `poll p` delivers offset `x`, then `x+1`, …; after `Unassign` nothing is
delivered; `msg p o` delivers an arbitrary (stale / out-of-order) record regardless of the cursor.
-/
namespace Firebolt.Recovery
open Firebolt Firebolt.Tracker

structure Active where
  assignOff : Int      -- offset the partition was assigned at (partition.Offset)
  fromO : Int          -- partitionRecoveryState.fromOffset (never advanced by recoverSingleEvent: its update is to a local copy)
  toO : Int
deriving Repr, Inhabited, DecidableEq

structure Emit where
  p : Int
  o : Int
  recovery : Bool
deriving Repr, Inhabited, DecidableEq

inductive Call where
  | assign (l : List (Int × Int))
  | unassign
deriving Repr, Inhabited, DecidableEq

structure St where
  maxRecords : Int
  updateEvery : Int                     -- 5 * parallelrecoverymaxrate
  owned : List Int := []                -- assignedPartitions (partition ids, in order)
  active : AList Active := []
  tracker : Store := []
  cursor : AList Int := []              -- scripted client: next offset per assigned partition (absent = not assigned)
  low : AList Int := []                 -- scripted low watermarks (default 0)
  granted : Nat := 0                    -- rate-limiter tokens consumed
deriving Repr, Inhabited

/-- what one operation makes observable -/
structure Out where
  emits : List Emit := []
  calls : List Call := []
  bcasts : List Bcast := []
deriving Repr, Inhabited

def Out.append (a b : Out) : Out := ⟨a.emits ++ b.emits, a.calls ++ b.calls, a.bcasts ++ b.bcasts⟩

/-- partitionAssignmentsChanged -/
def changed (cands act : AList Active) : Bool :=
  if cands.length = act.length then
    cands.any (fun c => match act.get? c.1 with
      | none => true
      | some a => c.2.toO ≠ a.toO)
  else true

/-- one iteration of the loop over the owned partitions in RefreshAssignments -/
def candStep (s : St) (acc : AList Active) (p : Int) : AList Active :=
  match Tracker.get s.tracker p with
  | none => acc
  | some r =>
    let f := match s.active.get? p with
      | some a => if a.toO = r.toO ∧ a.fromO > r.fromO then a.fromO else r.fromO
      | none => r.fromO
    acc.set p ⟨f, f, r.toO⟩

/-- candidates of RefreshAssignments: owned × outstanding (a later duplicate of a partition overwrites) -/
def candidates (s : St) : AList Active := s.owned.foldl (candStep s) []

/-- RefreshAssignments -/
def refresh (s : St) : St × Out :=
  let cands := candidates s
  if changed cands s.active then
    let asg := cands.map (fun c => (c.1, c.2.assignOff))
    ({ s with active := cands, cursor := asg }, { calls := [.unassign, .assign asg] })
  else (s, {})

/-- recoverSingleEvent for record `(p, o)` -/
def recover (s : St) (p o : Int) : St × Out :=
  match s.active.get? p with
  | none => (s, {})
  | some a =>
    if o < a.fromO then (s, {})
    else if a.toO - o ≤ 0 then
      let (tr, bs, _) := Tracker.complete s.tracker p a.toO
      let (s', out) := refresh { s with tracker := tr }
      (s', Out.append { bcasts := bs } out)
    else
      -- (offset >= fromOffset always holds here) wait for a limiter token, then emit flagged as recovery
      let s1 := { s with granted := s.granted + 1 }
      let e : Emit := ⟨p, o, true⟩
      if o % s.updateEvery = 0 ∧ a.toO - o > 0 then
        let (tr, bs, _) := Tracker.update s1.tracker p o a.toO
        ({ s1 with tracker := tr }, { emits := [e], bcasts := bs })
      else (s1, { emits := [e] })

/-- processError for ErrInvalidMsg / ErrOffsetOutOfRange (watermark queries succeed) -/
def truncation (s : St) : St × Out :=
  let (tr, bs) := s.active.foldl (fun (acc : Store × List Bcast) pa =>
    let low := (s.low.get? pa.1).getD 0
    if pa.2.fromO < low then
      if low ≥ pa.2.toO then
        let (tr, bs, _) := Tracker.complete acc.1 pa.1 pa.2.toO
        (tr, acc.2 ++ bs)
      else
        let (tr, bs, _) := Tracker.update acc.1 pa.1 low pa.2.toO
        (tr, acc.2 ++ bs)
    else acc) (s.tracker, [])
  ({ s with active := [], tracker := tr }, { bcasts := bs })

/-- RequestRecovery: trim to the newest maxRecords, add -/
def request (s : St) (p f t : Int) : St × Out :=
  let f' := if wrap64 (t - f) > s.maxRecords then wrap64 (t - s.maxRecords) else f
  let (tr, bs) := Tracker.add s.tracker p f' t
  ({ s with tracker := tr }, { bcasts := bs })

inductive Op where
  | poll (p : Int)                         -- client delivers the next in-order record of p (if assigned)
  | msg (p o : Int)                        -- client delivers an arbitrary record (stale, out of order)
  | main (p o : Int)                       -- the *main* consumer delivers a record
  | kerr (truncated : Bool)                -- kafka.Error on the recovery client: invalid-message/out-of-range, or another code
  | setLow (p v : Int)                     -- script: low watermark of p
  | refresh
  | own (ps : List Int)                    -- SetAssignedPartitions
  | revoke                                 -- KafkaConsumer.revokePartitionAssignments
  | req (p f t : Int)                      -- RequestRecovery
  | recv (p : Int) (l : Snap)              -- snapshot message from another instance
  | crash                                  -- C09: the instance stops; a new one starts with nothing but the replicated snapshots
deriving Repr, Inhabited

def step (s : St) : Op → St × Out
  | .poll p =>
    match s.cursor.get? p with
    | none => (s, {})
    | some o => recover { s with cursor := s.cursor.set p (o + 1) } p o
  | .msg p o => recover s p o
  | .main p o => (s, { emits := [⟨p, o, false⟩] })
  | .kerr true => truncation s
  | .kerr false => (s, {})
  | .setLow p v => ({ s with low := s.low.set p v }, {})
  | .refresh => refresh s
  | .own ps => ({ s with owned := ps }, {})
  | .revoke => refresh { s with owned := [] }
  | .req p f t => request s p f t
  | .recv p l => ({ s with tracker := Tracker.receive s.tracker (some p) l }, {})
  | .crash =>
    -- the successor knows only what was broadcast/received: the tracker contents (state-based replication, C08)
    ({ s with owned := [], active := [], cursor := [], granted := 0 }, {})

def run (s : St) : List Op → St × List Out
  | [] => (s, [])
  | op :: ops =>
    let (s1, o) := step s op
    let (s2, os) := run s1 ops
    (s2, o :: os)

end Firebolt.Recovery
