import Firebolt.Util
/-!
Model of `message/kakfamessagereceiver.go` (C10), `message/kafkamessagesender.go` and `kafkamessagewire.go` (C12).

Types, keys and payloads are byte strings (`List Nat`).  The JSON codec of the wire message (`encoding/json`, base64 for the
payload) is outside the model: a decodable record *is* its wire message, an undecodable one is `none`; that the real
sender's bytes decode to the same fields is checked by the harness on every record.
-/
namespace Firebolt.Receiver

abbrev Bytes := List Nat

structure Msg where
  mtype : Bytes
  key : Bytes
  payload : Bytes
deriving Repr, DecidableEq, Inhabited

structure Wire where
  msg : Msg
  ack : Bool
deriving Repr, DecidableEq, Inhabited

def dash : Nat := 45

/-- uniqueKey: messagetype + "-" + key (also the Kafka record key written by the sender) -/
def ukey (m : Msg) : Bytes := m.mtype ++ [dash] ++ m.key

/-- the sender: one record per send/ack, keyed by `ukey`, carrying the message unchanged and the ack flag -/
def produce (m : Msg) (ack : Bool) : Bytes × Wire := (ukey m, ⟨m, ack⟩)

structure St where
  partitionCount : Nat
  initialized : Bool := false
  eofs : List Int := []                       -- distinct partitions that have signalled end-of-partition
  buffer : List (Bytes × Wire) := []          -- initBuffer: latest record per ukey (insertion order; Go map order is unspecified)
deriving Repr, Inhabited

def bufSet (b : List (Bytes × Wire)) (k : Bytes) (w : Wire) : List (Bytes × Wire) :=
  match b with
  | [] => [(k, w)]
  | (k', w') :: rest => if k' = k then (k, w) :: rest else (k', w') :: bufSet rest k w

inductive Ev where
  | record (w : Option Wire)      -- a record; none = undecodable
  | eof (p : Int)
  | kerr
deriving Repr, Inhabited

/-- the set of partitions that have signalled end-of-partition, without duplicates -/
def addEof (eofs : List Int) (p : Int) : List Int := if eofs.contains p then eofs else p :: eofs

/-- processEvent; returns the messages handed to the notification function, in order -/
def step (s : St) : Ev → St × List Msg
  | .record none => (s, [])
  | .record (some w) =>
    if !s.initialized then ({ s with buffer := bufSet s.buffer (ukey w.msg) w }, [])
    else if !w.ack then (s, [w.msg]) else (s, [])
  | .eof p =>
    let eofs := addEof s.eofs p
    if !s.initialized && eofs.length ≥ s.partitionCount then
      ({ s with eofs := eofs, initialized := true, buffer := [] },
       (s.buffer.filter (fun kw => !kw.2.ack)).map (fun kw => kw.2.msg))
    else ({ s with eofs := eofs }, [])
  | .kerr => (s, [])

def run (s : St) : List Ev → St × List (List Msg)
  | [] => (s, [])
  | e :: es =>
    let (s1, d) := step s e
    let (s2, ds) := run s1 es
    (s2, d :: ds)

def maxReplay : Int := 50000

/-- buildPartitionAssignments for one partition: (low, high, query failed) ↦ start offset.
A failing watermark query yields zero values (scripted client contract) and the code resets `low` to 0. -/
def startOffset (low high : Int) (err : Bool) : Int :=
  let low' := if err then 0 else low
  let high' := if err then 0 else high
  if wrap64 (high' - low') > maxReplay then wrap64 (high' - maxReplay) else low'

end Firebolt.Receiver
