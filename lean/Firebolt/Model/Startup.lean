import Firebolt.Model.Flow
namespace Firebolt.Startup
open Firebolt Firebolt.Flow

/-! Model of what `WithConfig` and `Execute` do before the first event: `setupNodes` on every root (Init + Setup of the
node, then of its error handler, then of its children, recursively), and only then `startWorkers` in the same order.
Disabled nodes are not in the built tree; an error handler's own children / handler are not part of its context. -/

mutual
def setupN : FNode → List Nat
  | .mk s cs h => if s.disabled then [] else s.idx :: (setupH h ++ setupL cs)
def setupL : List FNode → List Nat
  | [] => []
  | c :: cs => setupN c ++ setupL cs
def setupH : Option FNode → List Nat
  | none => []
  | some (.mk s _ _) => [s.idx]
end

mutual
def startN : FNode → List (Nat × Nat)
  | .mk s cs h => if s.disabled then [] else (s.idx, s.workers) :: (startH h ++ startL cs)
def startL : List FNode → List (Nat × Nat)
  | [] => []
  | c :: cs => startN c ++ startL cs
def startH : Option FNode → List (Nat × Nat)
  | none => []
  | some (.mk s _ _) => [(s.idx, s.workers)]
end

inductive Call where
  | setup (idx : Nat)
  | start (idx workers : Nat)
deriving DecidableEq, Repr

/-- the calls made before the first event can flow -/
def startup (roots : List FNode) : List Call :=
  (setupL roots).map .setup ++ (startL roots).map (fun x => .start x.1 x.2)


end Firebolt.Startup
