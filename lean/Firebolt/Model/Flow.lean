import Firebolt.Util
/-!
Denotational ("schedule-free") model of event flow through the node tree — C01, C02, C04 (accounting part), C16.
It transcribes `InitNodeContextHierarchy` (pruning of disabled subtrees, error-handler attachment), the result
classification of `ProcessEvent`/`handleResult`, the delivery of every result to every child (`deliverToChild`) and of
every failure to the node's own handler (`handleFailure`).  What a node does with an event is an *oracle*
`NSpec → String → Outcome`; the theorems hold for every oracle, the driver instantiates the one the harness nodes implement
(an FNV-1a hash of seed, node index and payload).
-/
namespace Firebolt.Flow

inductive Kind where
  | sync | fanout | async
deriving DecidableEq, Repr, Inhabited

/-- per-node parameters as the harness generates them -/
structure NSpec where
  idx : Nat
  kind : Kind
  workers : Nat
  buf : Nat
  discard : Bool
  disabled : Bool
  seed : UInt32
  wPass : Nat
  wTrans : Nat
  wFilter : Nat
  wError : Nat
  maxFan : Nat
deriving Repr, Inhabited

inductive FNode where
  | mk (spec : NSpec) (children : List FNode) (handler : Option FNode)
deriving Repr, Inhabited

def FNode.spec : FNode → NSpec | .mk s _ _ => s
def FNode.children : FNode → List FNode | .mk _ c _ => c
def FNode.handler : FNode → Option FNode | .mk _ _ h => h

/-- what a node makes of one event -/
inductive Outcome where
  | pass (results : List String)      -- success: one result (sync/async) or k ≥ 1 results (fanout)
  | filter                            -- nil / empty result
  | error                             -- the node reports an error
deriving DecidableEq, Repr, Inhabited

abbrev Oracle := NSpec → String → Outcome

/-! ### the harness oracle -/

def fnv1a (seed : UInt32) (idx : Nat) (payload : String) : UInt32 :=
  let mix (h : UInt32) (b : UInt32) : UInt32 := (h ^^^ b) * 16777619
  let h0 : UInt32 := 2166136261
  let h1 := mix (mix (mix (mix h0 (seed &&& 255)) ((seed >>> 8) &&& 255)) ((seed >>> 16) &&& 255)) ((seed >>> 24) &&& 255)
  let h2 := mix (mix h1 (UInt32.ofNat (idx % 256))) (UInt32.ofNat ((idx / 256) % 256))
  payload.toUTF8.foldl (fun h b => mix h b.toUInt32) h2

def harnessOracle : Oracle := fun s payload =>
  if payload == "nil" then .pass [payload] else     -- an event whose payload is nil is passed on as it is
  let h := fnv1a s.seed s.idx payload
  let x := (h % 100).toNat
  if x < s.wPass then .pass [payload]
  else if x < s.wPass + s.wTrans then
    (if (h / 100) % 7 == 0 then .pass ["nil"] else .pass [payload ++ "t" ++ toString s.idx])
  else if x < s.wPass + s.wTrans + s.wFilter then .filter
  else if x < s.wPass + s.wTrans + s.wFilter + s.wError then .error
  else if s.kind = .fanout then
    let k := ((h / 100) % (UInt32.ofNat (s.maxFan + 1))).toNat
    if k = 0 then .filter else .pass ((List.range k).map (fun i => payload ++ "f" ++ toString s.idx ++ "_" ++ toString i))
  else .pass [payload]

/-! ### flow -/

def passed (o : Oracle) (s : NSpec) (input : List String) : List String :=
  input.flatMap (fun e => match o s e with | .pass rs => rs | _ => [])

def failedEvents (o : Oracle) (s : NSpec) (input : List String) : List String :=
  input.filter (fun e => o s e = .error)

def errPayload (e : String) : String := "E(" ++ e ++ ")"

/-- per-node accounting -/
structure Account where
  idx : Nat
  setUp : Bool              -- the node exists in the built tree (was initialised and set up)
  received : List String    -- events handed to the node (as a multiset; order depends on the schedule)
  processed : Nat
  filtered : Nat
  failed : Nat
deriving Repr, Inhabited

def count (o : Oracle) (s : NSpec) (input : List String) (p : Outcome → Bool) : Nat :=
  (input.filter (fun e => p (o s e))).length

def isPass : Outcome → Bool | .pass _ => true | _ => false
def isFilter : Outcome → Bool | .filter => true | _ => false
def isError : Outcome → Bool | .error => true | _ => false

def account (o : Oracle) (s : NSpec) (input : List String) : Account :=
  ⟨s.idx, true, input, count o s input isPass, count o s input isFilter, count o s input isError⟩

def absent (s : NSpec) : Account := ⟨s.idx, false, [], 0, 0, 0⟩

mutual
/-- everything below a node that is never built: nothing is set up, nothing is received -/
def silentN : FNode → List Account
  | .mk s cs h => absent s :: (silentL cs ++ silentO h)
def silentL : List FNode → List Account
  | [] => []
  | c :: cs => silentN c ++ silentL cs
def silentO : Option FNode → List Account
  | none => []
  | some h => silentN h
end

mutual
/-- flow through a subtree whose root is offered `input` (no discarding anywhere: every offer is a receipt).
A disabled node prunes itself, its handler and all descendants.  The `disabled` flag of an error handler is ignored by the code. -/
def flowN (o : Oracle) (input : List String) : FNode → List Account
  | .mk s cs h =>
    if s.disabled then silentN (.mk s cs h)
    else account o s input :: (flowL o (passed o s input) cs ++ flowH o ((failedEvents o s input).map errPayload) h)
def flowL (o : Oracle) (input : List String) : List FNode → List Account
  | [] => []
  | c :: cs => flowN o input c ++ flowL o input cs
/-- the error handler of a node: offered one report per failed event; it has neither children nor a handler -/
def flowH (o : Oracle) (input : List String) : Option FNode → List Account
  | none => []
  | some (.mk s cs h) => account o s input :: (silentL cs ++ silentO h)
end

/-- the whole pipeline: every root is offered the source's stream -/
def flow (o : Oracle) (stream : List String) (roots : List FNode) : List Account := flowL o stream roots

end Firebolt.Flow
