import Firebolt.Util
/-!
Model of `config/config.go` (C13): `setDefaults`, `validate` and the shutdown-timeout default, on the nested node tree.
YAML parsing and `os.ExpandEnv` are outside the model (the harness renders files and reads them with `config.Read`).
The registry is a parameter: node type name ↦ (consumed type, produced type or none for a sink), source name ↦ produced type.
-/
namespace Firebolt.Config

inductive Ty where
  | A | B | E | Y | Z | I          -- E = *firebolt.EventError; Y = []byte, Z = a named []byte type, I = interface{} (distinct
                                   -- types that Go considers assignable to one another: the code compares types for identity)
deriving DecidableEq, Repr, Inhabited

structure Reg where
  consumes : Ty
  produces : Option Ty   -- none: the node is a sink (nil Produces)
deriving Repr, Inhabited

structure Registry where
  node : String → Option Reg
  source : String → Option Ty

inductive Node where
  | mk (id name : String) (workers buf : Int) (children : List Node) (handler : Option Node)
deriving Repr, Inhabited

def Node.id : Node → String | .mk i _ _ _ _ _ => i
def Node.name : Node → String | .mk _ n _ _ _ _ => n
def Node.workers : Node → Int | .mk _ _ w _ _ _ => w
def Node.buf : Node → Int | .mk _ _ _ b _ _ => b
def Node.children : Node → List Node | .mk _ _ _ _ c _ => c
def Node.handler : Node → Option Node | .mk _ _ _ _ _ h => h

structure Cfg where
  source : String
  transport : Option String      -- none: no internaldata section
  timeout : Int
  nodes : List Node
deriving Repr, Inhabited

/-! ### defaults -/
mutual
def defaultsN : Node → Node
  | .mk id name w b cs h =>
    .mk (if id = "" then name else id) name (if w = 0 then 1 else w) (if b = 0 then 1 else b) (defaultsL cs) (defaultsO h)
def defaultsL : List Node → List Node
  | [] => []
  | c :: cs => defaultsN c :: defaultsL cs
def defaultsO : Option Node → Option Node
  | none => none
  | some h => some (defaultsN h)
end

/-! ### validation -/

inductive Res where
  | ok | reject | crash
deriving DecidableEq, Repr, Inhabited

/-- validateUniqueID exactly as written: the `return` inside the loop means only the first child is visited -/
def uniqCode (seen : List String) : Node → Option (List String)
  | .mk id _ _ _ cs _ =>
    if id ∈ seen then none else
    match cs with
    | [] => some (id :: seen)
    | c :: _ => uniqCode (id :: seen) c

def uniqRoots (seen : List String) : List Node → Bool
  | [] => true
  | n :: ns => match uniqCode seen n with
    | none => false
    | some s => uniqRoots s ns

/-- validateErrorHandlerConfig (children != nil is modelled as "has children": the harness never writes `children: []`) -/
def checkHandler (r : Registry) (h : Node) : Res :=
  if !h.children.isEmpty then .reject
  else if h.handler.isSome then .reject
  else match r.node h.name with
    | none => .reject
    | some reg => if reg.consumes ≠ Ty.E then .reject else .ok

/-- the loop over the children in validateNodeConfig: registration, then type compatibility
(formatting the error message dereferences a nil `Produces` when the parent is a sink: crash) -/
def checkChildTypes (r : Registry) (parent : Reg) : List Node → Res
  | [] => .ok
  | c :: cs => match r.node c.name with
    | none => .reject
    | some creg =>
      if parent.produces ≠ some creg.consumes then (if parent.produces.isNone then .crash else .reject)
      else checkChildTypes r parent cs

def checkHandlerO (r : Registry) : Option Node → Res
  | none => .ok
  | some hn => checkHandler r hn

mutual
/-- validateNodeConfig -/
def checkNode (r : Registry) : Node → Res
  | .mk _ name _ _ cs h =>
    match r.node name with
    | none => .reject
    | some reg =>
      match checkChildTypes r reg cs with
      | .ok =>
        match checkHandlerO r h with
        | .ok => checkNodes r cs
        | e => e
      | e => e
def checkNodes (r : Registry) : List Node → Res
  | [] => .ok
  | c :: cs => match checkNode r c with
    | .ok => checkNodes r cs
    | e => e
end

/-- the loop over the root nodes in validateSourceConfig -/
def checkRoots (r : Registry) (p : Ty) : List Node → Res
  | [] => .ok
  | n :: ns => match r.node n.name with
    | none => .reject
    | some reg => if p ≠ reg.consumes then .reject else checkRoots r p ns

/-- validateSourceConfig -/
def checkSource (r : Registry) (c : Cfg) : Res :=
  match r.source c.source with
  | none => .reject
  | some p => checkRoots r p c.nodes

/-- validateInternalDataConfig: a configured transport other than kafka is rejected -/
def transportBad : Option String → Bool
  | some t => decide (t ≠ "kafka")
  | none => false

/-- validate, in the order of the code -/
def validate (r : Registry) (c : Cfg) : Res :=
  if !uniqRoots [] c.nodes then .reject
  else if transportBad c.transport then .reject
  else match checkSource r c with
    | .ok => checkNodes r c.nodes
    | e => e

def withDefaults (c : Cfg) : Cfg := { c with nodes := defaultsL c.nodes }

/-- config.Read after parsing: defaults, validation, timeout default -/
def read (r : Registry) (c : Cfg) : Res × Cfg :=
  match validate r (withDefaults c) with
  | .ok => (.ok, { withDefaults c with timeout := if c.timeout ≤ 0 then 10 else c.timeout })
  | e => (e, withDefaults c)

end Firebolt.Config
