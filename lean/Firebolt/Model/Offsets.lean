import Firebolt.Model.Tracker
/-!
Model of `KafkaConsumer.assignPartitions` / `calculateAssignmentOffsets`
(node/kafkaconsumer/kafkaconsumer.go:306-396) and `RecoveryConsumer.RequestRecovery`
(recoveryconsumer.go:328-343).  C06.

The Kafka client is a script: per assigned partition the committed offset (absent, or any int64,
-1001 being `kafka.OffsetInvalid`), the watermarks and whether the watermark query fails;
globally whether `Committed` fails and whether `Assign` fails.  Arithmetic is Go's int64
(`wrap64` after every + and -); the theorems show the wrap is the identity on the property's range.
-/
namespace Firebolt.Offsets
open Firebolt Firebolt.Tracker

structure PartIn where
  p : Int
  committed : Option Int   -- none = not in the list returned by Committed()
  low : Int
  high : Int
  werr : Bool              -- QueryWatermarkOffsets fails
deriving Repr, Inhabited

structure Cfg where
  maxLag : Int
  recEnabled : Bool
  maxRecords : Int
  cerr : Bool              -- Committed() fails
  aerr : Bool              -- Assign() fails
deriving Repr, Inhabited

def offsetInvalid : Int := -1001

/-- offsetForPartition + the OffsetInvalid → 0 rule -/
def storedOffset (c : Option Int) : Int :=
  match c with
  | none => 0
  | some o => if o = offsetInvalid then 0 else o

/-- the per-partition body of calculateAssignmentOffsets: (start offset, untrimmed recovery request) -/
def startOffset (maxLag : Int) (recEnabled : Bool) (committed : Option Int) (high : Int) :
    Int × Option (Int × Int) :=
  let po := storedOffset committed
  if wrap64 (high - po) > maxLag then
    if maxLag > high then (0, none)
    else
      let capped := wrap64 (high - maxLag)
      (capped, if recEnabled then some (po, capped) else none)
  else (po, none)

/-- RequestRecovery's trimming to the newest maxRecords records -/
def trim (maxRecords fromO toO : Int) : Int × Int :=
  if wrap64 (toO - fromO) > maxRecords then (wrap64 (toO - maxRecords), toO) else (fromO, toO)

inductive Res where
  | error                                   -- nothing assigned, failure reported
  | assigned (parts : List (Int × Int))     -- Assign argument = new ownership
deriving Repr, Inhabited, DecidableEq

/-- file the (trimmed) recovery request of one partition, if the arithmetic asks for one -/
def fileReq (c : Cfg) (tr : Store) (pi : PartIn) : Store × List Bcast :=
  match (startOffset c.maxLag c.recEnabled pi.committed pi.high).2 with
  | none => (tr, [])
  | some (f, t) => Tracker.add tr pi.p (trim c.maxRecords f t).1 (trim c.maxRecords f t).2

/-- walk the partitions; a watermark error aborts (requests already filed for earlier partitions stay filed) -/
def walk (c : Cfg) (tr : Store) : List PartIn → Option (List (Int × Int)) × Store × List Bcast
  | [] => (some [], tr, [])
  | pi :: rest =>
    if pi.werr then (none, tr, [])
    else
      let st := fileReq c tr pi
      let r := walk c st.1 rest
      (r.1.map (fun l => (pi.p, (startOffset c.maxLag c.recEnabled pi.committed pi.high).1) :: l), r.2.1, st.2 ++ r.2.2)

structure Result where
  res : Res
  assignCalled : Bool
  owned : Option (List (Int × Int))   -- some = SetAssignedPartitions was called with this
  tracker : Store
  bcasts : List Bcast
deriving Repr, Inhabited

def assign (c : Cfg) (tr : Store) (parts : List PartIn) : Result :=
  if c.cerr then ⟨.error, false, none, tr, []⟩
  else
    let w := walk c tr parts
    match w.1 with
    | none => ⟨.error, false, none, w.2.1, w.2.2⟩
    | some l =>
      if c.aerr then ⟨.error, true, none, w.2.1, w.2.2⟩
      else ⟨.assigned l, true, if c.recEnabled then some l else none, w.2.1, w.2.2⟩

end Firebolt.Offsets
