import Firebolt.Util
/-!
Model of the source supervision of the executor (C18): `prepareSource` (instantiate, Init, Setup) during construction,
then `superviseSource`: start; on an error pause, prepare a fresh instance and start again; on nil stop and close the
source channel.  A source run is summarised by what `Start` returned; the events it emitted flow into the one shared
output channel and are the subject of C01–C03.
-/
namespace Firebolt.Supervisor

inductive Ret where
  | failed      -- Start returned an error
  | finished    -- Start returned nil
deriving DecidableEq, Repr, Inhabited

inductive Call where
  | factory (i : Nat)     -- InstantiateSource: a fresh instance, number i
  | init (i : Nat)
  | setup (i : Nat)       -- Setup(params, the one output channel) returned nil
  | start (i : Nat)       -- Start called on instance i
  | returned (i : Nat) (r : Ret)
  | pause                 -- the fixed pause before a restart
  | closeCh               -- the source channel is closed: the main loop ends and clean shutdown begins
deriving DecidableEq, Repr, Inhabited

def prepare (i : Nat) : List Call := [.factory i, .init i, .setup i]

/-- superviseSource from incarnation `i` on (instance `i` is already prepared), given what each `Start` returns.
If the script runs out (a source that never returns) nothing more happens. -/
def superviseFrom (i : Nat) : List Ret → List Call
  | [] => []
  | .finished :: _ => [.start i, .returned i .finished, .closeCh]
  | .failed :: rest => [.start i, .returned i .failed, .pause] ++ prepare (i + 1) ++ superviseFrom (i + 1) rest

/-- construction (prepareSource) followed by Execute's supervision -/
def lifecycle (rets : List Ret) : List Call := prepare 1 ++ superviseFrom 1 rets

end Firebolt.Supervisor
