import Firebolt.Util
/-!
Model of `Executor.deliverMessage` / `deliverMessageToNode` (executor/message.go) and `ContextAware.AcceptsMessage`
(fbcontext/fbcontext.go) — C11.  Nodes are numbered in preorder (0, 1, …); the source is recipient `-1`.
Error handlers are not visited by the walk and are therefore not part of this tree.
-/
namespace Firebolt.Route

inductive RNode where
  | mk (subs : List String) (fail : Bool) (children : List RNode)
deriving Repr, Inhabited

structure Walk where
  recipients : List Int := []     -- in visiting order
  errors : List Int := []         -- recipients whose Receive returned an error, in visiting order
  next : Int := 0                 -- next preorder index
deriving Repr, Inhabited, DecidableEq

mutual
def deliverN (t : String) (w : Walk) : RNode → Walk
  | .mk subs fail cs =>
    let me := w.next
    let w1 : Walk :=
      if subs.contains t then ⟨w.recipients ++ [me], if fail then w.errors ++ [me] else w.errors, me + 1⟩
      else { w with next := me + 1 }
    deliverL t w1 cs
def deliverL (t : String) (w : Walk) : List RNode → Walk
  | [] => w
  | c :: cs => deliverL t (deliverN t w c) cs
end

/-- deliverMessage: the source first (if subscribed), then every node of every root, preorder -/
def deliver (t : String) (srcSubs : List String) (srcFail : Bool) (roots : List RNode) : Walk :=
  let w0 : Walk := if srcSubs.contains t then ⟨[-1], if srcFail then [-1] else [], 0⟩ else {}
  deliverL t w0 roots

mutual
/-- Subscribe on the node with preorder index `i` replaces its subscription set -/
def resubN (i : Int) (subs : List String) (k : Int) : RNode → RNode × Int
  | .mk s f cs =>
    let (cs', k') := resubL i subs (k + 1) cs
    (.mk (if k = i then subs else s) f cs', k')
def resubL (i : Int) (subs : List String) (k : Int) : List RNode → List RNode × Int
  | [] => ([], k)
  | c :: cs =>
    let (c', k1) := resubN i subs k c
    let (cs', k2) := resubL i subs k1 cs
    (c' :: cs', k2)
end

end Firebolt.Route
