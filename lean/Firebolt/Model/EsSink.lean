import Firebolt.Util
/-!
Model of the elasticsearch sink (C14): `Elasticsearch.ProcessAsync` (type check), `ElasticIndexClient.batch` (batching by
size / idle timer), `retryBulkIndex` / `doBulkIndex` / `handleErrorResponses` (per-item outcome, retry selection).
Elasticsearch is a script: the verdict for document `d` at its attempt `k` is `script d k`.
Time (the idle timer, back-off sleeps, the per-request deadline) is not in the model; the harness measures it.
-/
namespace Firebolt.EsSink

abbrev Doc := Nat

inductive Outcome where
  | ok          -- 2xx
  | retryable   -- any error other than a mapping conflict
  | mapping     -- mapper_parsing_exception
deriving DecidableEq, Repr, Inhabited

inductive Ans where
  | success
  | indexError    -- ES_INDEX_ERROR carrying Elasticsearch's error
  | typeError     -- payload was not an IndexRequest
deriving DecidableEq, Repr, Inhabited

/-- handleErrorResponses for one bulk response with partial failures at retry count `retry`:
answers given now, documents carried to the next attempt.  (The code also appends exhausted documents to its retry slice,
but at `retry = max` it returns ErrMaxRetries without using the slice.) -/
def handle (retry max : Nat) : List (Doc × Outcome) → List (Doc × Ans) × List Doc
  | [] => ([], [])
  | (d, o) :: rest =>
    let r := handle retry max rest
    match o with
    | .ok => ((d, .success) :: r.1, r.2)
    | .mapping => ((d, .indexError) :: r.1, r.2)
    | .retryable => if retry = max then ((d, .indexError) :: r.1, r.2) else (r.1, d :: r.2)

/-- one bulk request: if no item failed (`Errors = false`) everything is answered with success -/
def attempt (retry max : Nat) (l : List (Doc × Outcome)) : List (Doc × Ans) × List Doc :=
  if l.all (fun x => x.2 = .ok) then (l.map (fun x => (x.1, Ans.success)), []) else handle retry max l

/-- the whole retry chain of one batch; `fuel` bounds the recursion (max + 1 attempts suffice) -/
def chain (max : Nat) (script : Doc → Nat → Outcome) : Nat → Nat → List Doc → List (Doc × Ans)
  | 0, _, _ => []
  | fuel + 1, retry, docs =>
    let r := attempt retry max (docs.map (fun d => (d, script d retry)))
    r.1 ++ (if retry = max then [] else chain max script fuel (retry + 1) r.2)

/-- documents sent at each attempt of the chain (what Elasticsearch sees) -/
def sends (max : Nat) (script : Doc → Nat → Outcome) : Nat → Nat → List Doc → List (Nat × List Doc)
  | 0, _, _ => []
  | fuel + 1, retry, docs =>
    if docs.isEmpty then [] else
    let r := attempt retry max (docs.map (fun d => (d, script d retry)))
    (retry, docs) :: (if retry = max then [] else sends max script fuel (retry + 1) r.2)

/-- batching: full batches of `bs`, the remainder is flushed by the idle timer -/
def chunks (bs : Nat) : Nat → List Doc → List (List Doc)
  | 0, _ => []
  | fuel + 1, l => if l.isEmpty then [] else l.take bs :: chunks bs fuel (l.drop bs)

/-- the answer and the number of times a single document is sent, by following its own script -/
def docResult (max : Nat) (s : Nat → Outcome) : Nat → Nat → Ans × Nat
  | 0, retry => (.indexError, retry)
  | fuel + 1, retry =>
    match s retry with
    | .ok => (.success, retry + 1)
    | .mapping => (.indexError, retry + 1)
    | .retryable => if retry = max then (.indexError, retry + 1) else docResult max s fuel (retry + 1)

/-- worker pool of `doBulkIndex`: a token is taken before a request is built and returned when it is done -/
structure Pool where
  free : Nat
  inFlight : Nat
deriving Repr, DecidableEq

inductive PoolOp where
  | start | finish
deriving Repr, DecidableEq

def Pool.step (p : Pool) : PoolOp → Pool
  | .start => if p.free = 0 then p else ⟨p.free - 1, p.inFlight + 1⟩      -- blocks (no change) when no token is free
  | .finish => if p.inFlight = 0 then p else ⟨p.free + 1, p.inFlight - 1⟩

/-- Shutdown as the code has it: the batcher is cancelled, the partial batch it still holds is never sent -/
def droppedByShutdown (bs : Nat) (accepted : List Doc) : List Doc :=
  if bs = 0 then [] else accepted.drop ((accepted.length / bs) * bs)

end Firebolt.EsSink
