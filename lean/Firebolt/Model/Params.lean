import Firebolt.Util
/-!
Model of parameter handling (C20):
* `util.ApplyLibrdkafkaConf` + `kafka.ConfigMap.SetKey` (prefix overlay, `{topic}.` sub-map rule),
* `KafkaConsumer.checkConfig`,
* `strconv.Atoi` / `strconv.ParseBool` (re-implemented; compared with Go on boundary strings by the harness),
* `Nodeconfig.IntConfig / IntConfigRequired / StringConfig / StringConfigRequired / Float64Config*` (helpers.go).
Float parsing/formatting are parameters of the model (`strconv.ParseFloat`, `fmt`/`strconv` formatting are trusted).
-/
namespace Firebolt.Params

/-! ### strconv.Atoi (64-bit int) and ParseBool -/

def digitVal (c : Char) : Option Nat :=
  if '0' ≤ c ∧ c ≤ '9' then some (c.toNat - '0'.toNat) else none

/-- all characters decimal digits → their value (most significant first); none otherwise or if empty -/
def digitsVal : List Char → Option Nat
  | [] => none
  | cs => cs.foldlM (fun acc c => (digitVal c).map (fun d => acc * 10 + d)) 0

/-- optional leading sign -/
def splitSign : List Char → Bool × List Char
  | '-' :: r => (true, r)
  | '+' :: r => (false, r)
  | r => (false, r)

/-- Go's `strconv.Atoi` on a 64-bit platform: optional sign, at least one ASCII digit, nothing else, int64 range -/
def atoiC (cs : List Char) : Option Int :=
  match digitsVal (splitSign cs).2 with
  | none => none
  | some n =>
    let v : Int := if (splitSign cs).1 then -(n : Int) else n
    if v < -(2^63) ∨ v > 2^63 - 1 then none else some v

def atoi (s : String) : Option Int := atoiC s.toList

/-- Go's `strconv.Itoa` -/
def itoa (n : Int) : String := toString n

/-- Go's `strconv.ParseBool` -/
def parseBool (s : String) : Option Bool :=
  if s ∈ ["1", "t", "T", "TRUE", "true", "True"] then some true
  else if s ∈ ["0", "f", "F", "FALSE", "false", "False"] then some false
  else none

/-! ### parameter maps -/

abbrev PMap := List (String × String)     -- Go map[string]string; keys distinct

def lookup (m : PMap) (k : String) : String := ((m.find? (fun kv => kv.1 == k)).map (·.2)).getD ""
def lookup? (m : PMap) (k : String) : Option String := (m.find? (fun kv => kv.1 == k)).map (·.2)

/-- KafkaConsumer.checkConfig: true = accepted -/
def checkConfig (m : PMap) : Bool :=
  if lookup m "brokers" == "" then false
  else if lookup m "consumergroup" == "" then false
  else if lookup m "topic" == "" then false
  else if lookup m "buffersize" == "" then false
  else match atoi (lookup m "buffersize") with
    | none => false
    | some b =>
      if b < 1 then false
      else
        let lagOk :=
          if lookup m "maxpartitionlag" == "" then true
          else match atoi (lookup m "maxpartitionlag") with
            | none => false
            | some l => decide (0 ≤ l)
        if !lagOk then false
        else if lookup m "parallelrecoveryenabled" == "" then true
        else (parseBool (lookup m "parallelrecoveryenabled")).isSome

/-! ### client configuration: overlay of `librdkafka.`-prefixed parameters on firebolt's defaults -/

/-- a client configuration: top-level entries and the `default.topic.config` sub-map (absent = none) -/
structure ClientConf where
  top : List (String × String)
  sub : Option (List (String × String))
deriving Repr, Inhabited, DecidableEq

def setKV (m : List (String × String)) (k v : String) : List (String × String) :=
  match m with
  | [] => [(k, v)]
  | (k', v') :: rest => if k' = k then (k, v) :: rest else (k', v') :: setKV rest k v

def getKV (m : List (String × String)) (k : String) : Option String :=
  match m with
  | [] => none
  | (k', v') :: rest => if k' = k then some v' else getKV rest k

def prefixL : String := "librdkafka."
def prefixT : String := "{topic}."

/-- where a firebolt parameter goes in the client configuration -/
inductive PKind where
  | other                 -- not prefixed: never reaches the client configuration
  | top (k : String)      -- `librdkafka.<k>`: top-level property `<k>`
  | sub (k : String)      -- `librdkafka.{topic}.<k>`: property `<k>` of the default topic configuration (client library rule)
deriving Repr, DecidableEq, Inhabited

/-- `strings.HasPrefix/TrimPrefix` in ApplyLibrdkafkaConf followed by ConfigMap.SetKey's `{topic}.` rule -/
def classify (k : String) : PKind :=
  if k.startsWith prefixL then
    let r := (k.drop prefixL.length).toString
    if r.startsWith prefixT then .sub (r.drop prefixT.length).toString else .top r
  else .other

def applyParam (c : ClientConf) (kv : String × String) : ClientConf :=
  match classify kv.1 with
  | .other => c
  | .top k => { c with top := setKV c.top k kv.2 }
  | .sub k => { c with sub := some (setKV (c.sub.getD []) k kv.2) }

/-- ApplyLibrdkafkaConf: every parameter with the prefix is set with the prefix removed; nothing else is touched -/
def overlay (base : ClientConf) (params : PMap) : ClientConf := params.foldl applyParam base

/-! ### typed getters (helpers.go) -/

inductive GetRes (α : Type) where
  | ok (v : α)
  | err
deriving Repr, DecidableEq, Inhabited

/-- IntConfigRequired on the value found (or not) under the name -/
def intRequired (v : Option String) (minV maxV : Int) : GetRes Int :=
  match v with
  | none => .err
  | some s => match atoi s with
    | none => .err
    | some i => if i > maxV ∨ i < minV then .err else .ok i

/-- IntConfig: an absent value is first replaced by `Itoa(default)`; returns the result and the value now stored -/
def intConfig (v : Option String) (dflt minV maxV : Int) : GetRes Int × String :=
  let s := v.getD (itoa dflt)
  (intRequired (some s) minV maxV, s)

def strRequired (v : Option String) : GetRes String :=
  match v with
  | none => .err
  | some s => .ok s

def strConfig (v : Option String) (dflt : String) : GetRes String × String :=
  let s := v.getD dflt
  (.ok s, s)

/-- Float64ConfigRequired, over an abstract float type `F` with parser and order supplied by the caller -/
def floatRequired {F : Type} (parseF : String → Option F) (gt lt : F → F → Bool) (v : Option String) (minV maxV : F) : GetRes F :=
  match v with
  | none => .err
  | some s => match parseF s with
    | none => .err
    | some x => if gt x maxV || lt x minV then .err else .ok x

/-- Float64Config: an absent value is first replaced by the formatted default -/
def floatConfig {F : Type} (parseF : String → Option F) (fmtF : F → String) (gt lt : F → F → Bool)
    (v : Option String) (dflt minV maxV : F) : GetRes F × String :=
  let s := v.getD (fmtF dflt)
  (floatRequired parseF gt lt (some s) minV maxV, s)

end Firebolt.Params
