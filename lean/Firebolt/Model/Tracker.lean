import Firebolt.Util
/-!
Model of `node/kafkaconsumer/recoverytracker.go` (C08; also used by C06, C07, C09).

State: partition ↦ ordered list of requests, with Go-map key presence observable
(`MarkRecoveryComplete` distinguishes "no entry" from "empty list"; `cancelAll` walks the keys).
Every mutating operation returns the broadcasts it performs: `(partition, whole new list)`.
The JSON codec (`encoding/json`) is outside the model: a payload *is* the list it encodes;
an undecodable payload is the op `recvBad`.
-/
namespace Firebolt.Tracker

structure Req where
  fromO : Int
  toO : Int
deriving DecidableEq, Repr, Inhabited

abbrev Snap := List Req
abbrev Store := AList Snap
abbrev Bcast := Int × Snap

/-- `fromOffset <= request.ToOffset && request.FromOffset <= toOffset` (recoverytracker.go:88) -/
def overlaps (f t : Int) (r : Req) : Bool := f ≤ r.toO && r.fromO ≤ t

def widen (f t : Int) (r : Req) : Req :=
  if overlaps f t r then ⟨min f r.fromO, max t r.toO⟩ else r

/-- AddRecoveryRequest on one partition's list: widen every overlapping request in place, else append -/
def addL (l : Snap) (f t : Int) : Snap :=
  if l.any (overlaps f t) then l.map (widen f t) else l ++ [⟨f, t⟩]

/-- AddRecoveryRequest: always broadcasts the partition's new list -/
def add (s : Store) (p f t : Int) : Store × List Bcast :=
  let l := (s.get? p).getD []
  let l' := addL l f t
  (s.set p l', [(p, l')])

/-- UpdateRecoveryRequest: only the head, only when its `to` matches; otherwise error, no change, no broadcast -/
def update (s : Store) (p f t : Int) : Store × List Bcast × Bool :=
  match s.get? p with
  | some (r :: rest) =>
    if r.toO = t then
      let l' := { r with fromO := f } :: rest
      (s.set p l', [(p, l')], true)
    else (s, [], false)
  | _ => (s, [], false)

/-- MarkRecoveryComplete: remove every request ending at `t`; error (no change, no broadcast) if none or no entry -/
def complete (s : Store) (p t : Int) : Store × List Bcast × Bool :=
  match s.get? p with
  | none => (s, [], false)
  | some l =>
    if l.any (fun r => r.toO = t) then
      let l' := l.filter (fun r => r.toO ≠ t)
      (s.set p l', [(p, l')], true)
    else (s, [], false)

/-- cancelAll: every known partition gets the empty list and a broadcast of it (map order is unspecified in Go;
the model uses key order of the store, observers compare as sets) -/
def cancelAll (s : Store) : Store × List Bcast :=
  (s.map (fun kv => (kv.1, [])), s.map (fun kv => (kv.1, [])))

/-- GetRecoveryRequest: the oldest outstanding request -/
def get (s : Store) (p : Int) : Option Req :=
  match s.get? p with
  | some (r :: _) => some r
  | _ => none

/-- receiveRequest with a decodable payload: replace the partition's list.
`key = none` models an unparsable key, which the code lets fall through to partition 0. -/
def receive (s : Store) (key : Option Int) (l : Snap) : Store := s.set (key.getD 0) l

def recvAll (s : Store) : List Bcast → Store
  | [] => s
  | (k, v) :: ms => recvAll (s.set k v) ms

/-- operations of the tracker, as the harness drives them -/
inductive Op where
  | add (p f t : Int)
  | upd (p f t : Int)
  | done (p t : Int)
  | cancel
  | get (p : Int)
  | recv (key : Option Int) (l : Snap)
  | recvBad (key : Option Int)
deriving Repr, Inhabited

inductive Out where
  | bcast (ok : Bool) (bs : List Bcast)
  | got (r : Option Req)
  | unit
deriving Repr, Inhabited

def step (s : Store) : Op → Store × Out
  | .add p f t => let (s', b) := add s p f t; (s', .bcast true b)
  | .upd p f t => let (s', b, ok) := update s p f t; (s', .bcast ok b)
  | .done p t => let (s', b, ok) := complete s p t; (s', .bcast ok b)
  | .cancel => let (s', b) := cancelAll s; (s', .bcast true b)
  | .get p => (s, .got (get s p))
  | .recv k l => (receive s k l, .unit)
  | .recvBad _ => (s, .unit)

def bcastsOf : Out → List Bcast
  | .bcast _ bs => bs
  | _ => []

/-- run an op list from a store, collecting outputs and all broadcasts in order -/
def run (s : Store) : List Op → Store × List Out
  | [] => (s, [])
  | op :: ops =>
    let (s1, o) := step s op
    let (s2, os) := run s1 ops
    (s2, o :: os)

def allBcasts (outs : List Out) : List Bcast := outs.flatMap bcastsOf

/-- latest broadcast per key, in order of last occurrence (what a compacted topic retains) -/
def latestPerKey : List Bcast → List Bcast
  | [] => []
  | (k, v) :: ms => if ms.any (fun m => m.1 = k) then latestPerKey ms else (k, v) :: latestPerKey ms

end Firebolt.Tracker
