import Firebolt.Model.Exec
/-!
Product model of a whole node tree: one `Exec` component per node, composed over their shared channels.

A node is addressed by its path from the root, innermost index first: child `k` of node `p` is `k :: p` (children
`0 … nChildren-1`, then the error handler at index `nChildren`, exactly the downstream channels of the component).  The
tree's shape is the static map `cfg : Path → Cfg`; only paths with every index below the parent's `K` are nodes of the
tree, the others are never touched.

A channel between `p` and `k :: p` exists twice in the component models: as `(st p).outs k` and as `(st (k :: p)).inp`.
The product synchronises the two copies — it is the only thing it adds to the component steps:

* a send attempt of `p` that puts `x` into channel `k` is, at the same instant, the `upSend x` of the child;
* the `recv` of a worker of `k :: p` is, at the same instant, the `downRecv k` of the parent;
* `closeAll` of `p` is the `upClose` of every child and the handler;
* `upSend`/`upClose` are autonomous only at the root (the source's main loop), `downRecv` never.

Every global step is thus a component `step` of the acting node plus component `step`s of its partners, so the
projection of a global run on any node is a component run and every component invariant holds at every node.
Theorems: `Properties/ExecNet.lean`.
-/
namespace Firebolt.Exec

abbrev Path := List Nat

structure Net where
  cfg : Path → Cfg
  st : Path → St

def updP (f : Path → St) (p : Path) (v : St) : Path → St := fun q => if q = p then v else f q

/-- the `(k, x)` a send attempt is about to put into a channel with room (`none`: not a send, or the target is closed,
or full) -/
def pushOf (c : Cfg) (s : St) : Act → Option (Nat × Ev)
  | .send w =>
    if w < c.W then
      match s.pc w with
      | .deliver ((k, x) :: _) => if !(s.outs k).closed && (s.outs k).buf.length < (s.outs k).cap then some (k, x) else none
      | _ => none
    else none
  | .cbSend i =>
    match s.cbs[i]? with
    | some ((k, x) :: _) => if !(s.outs k).closed && (s.outs k).buf.length < (s.outs k).cap then some (k, x) else none
    | _ => none
  | _ => none

/-- `closeAll` that really closes (the panic branch closes nothing) -/
def closesOf (c : Cfg) (s : St) : Act → Bool
  | .closeAll w => w < c.W && s.pc w == .hClose && !(List.range c.K).any (fun k => (s.outs k).closed)
  | _ => false

/-- a partner's synchronised step (always enabled in reachable states, see `Properties/ExecNet.lean`) -/
def partner (c : Cfg) (s : St) (a : Act) : St := (step c s a).getD s

def isRecv : Act → Bool | .recv _ => true | _ => false

/-- `upSend`/`upClose` are autonomous only at the root (the source's main loop); `downRecv` never is -/
def allowed (p : Path) : Act → Bool
  | .upSend _ | .upClose => p == []
  | .downRecv _ => false
  | _ => true

/-- the new state of child (or handler) `k` of the acting node `p` -/
def kidSync (N : Net) (p : Path) (push : Option (Nat × Ev)) (closes : Bool) (k : Nat) : St :=
  match push with
  | some (k0, x) => if k = k0 then partner (N.cfg (k :: p)) (N.st (k :: p)) (.upSend x) else N.st (k :: p)
  | none => if closes && k < (N.cfg p).K then partner (N.cfg (k :: p)) (N.st (k :: p)) .upClose else N.st (k :: p)

/-- the new state of a node `r` that is neither the acting node nor one of its children: only the parent of a receiving
node moves (its `downRecv`) -/
def parSync (N : Net) (p : Path) (a : Act) (r : Path) : St :=
  match p with
  | i :: q0 => if r = q0 && isRecv a then partner (N.cfg r) (N.st r) (.downRecv i) else N.st r
  | [] => N.st r

/-- one global step: node `p` performs `a` -/
def gstep (N : Net) (p : Path) (a : Act) : Option Net :=
  if !allowed p a then none
  else
    match step (N.cfg p) (N.st p) a with
    | none => none
    | some s' =>
      some { N with st := fun r =>
        if r = p then s'
        else match r with
          | k :: q => if q = p then kidSync N p (pushOf (N.cfg p) (N.st p) a) (closesOf (N.cfg p) (N.st p) a) k else parSync N p a r
          | [] => parSync N p a r }

def grun (N : Net) : List (Path × Act) → Option Net
  | [] => some N
  | (p, a) :: rest => match gstep N p a with
    | some N' => grun N' rest
    | none => none

/-- initial net: every node idle, every channel open and empty; `caps`/`disc` are per node (its input buffer) -/
def ginit (cfg : Path → Cfg) (caps : Path → Nat) (disc : Path → Bool) : Net :=
  { cfg := cfg, st := fun p => init (cfg p) (fun k => caps (k :: p)) (fun k => disc (k :: p)) }

/-- the nodes of the tree -/
def inTree (cfg : Path → Cfg) : Path → Prop
  | [] => True
  | k :: q => inTree cfg q ∧ k < (cfg q).K

end Firebolt.Exec
