/-!
Interleaving model of `RecoveryConsumer.RefreshAssignments` / `SetAssignedPartitions` called from several goroutines
(the 10 s ticker, the main consumer's event loop on a revocation or a new assignment, the recovery event loop after a
completed partition) — C09 under concurrency.

A goroutine is a list of calls; a call is `refresh` or `setOwned o` (what `assignPartitions` / `revokePartitionAssignments`
do before their own `RefreshAssignments()`).  Two protocols are modelled:

* `step` — the code as it is (fix F12): both functions take `partitionAssignmentLock` first; the candidates are built and
  compared with the active map under the lock; `Unassign`, the installation of the new active map and `Assign` happen under
  the same hold.
* `stepOld` — the code before the fix: candidates built and compared *without* the lock, the lock taken only when a change
  was found; `SetAssignedPartitions` unsynchronised.

The set of partitions with an outstanding request changes too (`setReq`: a request filed or received, a completion recorded —
under the tracker's own lock, at any moment); such a change is picked up by the next refresh, which is what the statement
grants ("once its periodic refresh has run"): the ghost flag `stale` records that the tracker changed after the last refresh
built its candidates.
-/
namespace Firebolt.RefreshConc

abbrev Part := Int

inductive Call where
  | refresh
  | setOwned (o : List Part)
  | setReq (r : List Part)        -- the tracker's set of partitions with an outstanding request changes (a request is filed or
                                  -- arrives from another instance, a completion is recorded): under the tracker's own lock, not
                                  -- under partitionAssignmentLock; whoever does it calls `refresh` afterwards or leaves it to the ticker
deriving DecidableEq, Repr

inductive PC where
  | start                          -- not inside a call (or about to take the lock)
  | held                           -- lock taken, nothing done yet
  | decided (c : List Part)        -- OLD protocol only: candidates built and found changed, lock not yet taken
  | locked (c : List Part)         -- OLD protocol only: lock taken after the decision
  | unassigned (c : List Part)     -- `Unassign` done
  | installed (c : List Part)      -- active map replaced
  | finishing                      -- about to release the lock and return
deriving DecidableEq, Repr

structure Th where
  todo : List Call := []
  pc : PC := .start
deriving Repr

/-- shared state -/
structure Sh where
  owned : List Part := []          -- rc.assignedPartitions
  active : List Part := []         -- keys of rc.activePartitionMap
  client : List Part := []         -- what the recovery client is assigned
  holder : Option Nat := none      -- goroutine holding partitionAssignmentLock
  reqs : List Part := []           -- partitions with an outstanding request (the tracker)
  stale : Bool := false            -- ghost: the tracker changed after the last refresh built its candidates
deriving Repr

structure Sys where
  sh : Sh
  th : Nat → Th

def upd (f : Nat → Th) (i : Nat) (t : Th) : Nat → Th := fun j => if j = i then t else f j

@[simp] theorem upd_same (f : Nat → Th) (i : Nat) (t : Th) : upd f i t i = t := by simp [upd]
@[simp] theorem upd_other (f : Nat → Th) (i j : Nat) (t : Th) (h : j ≠ i) : upd f i t j = f j := by simp [upd, h]

/-- candidates: owned partitions with an outstanding request -/
def cand (req : Part → Bool) (owned : List Part) : List Part := owned.filter req

/-- the two lists name the same set of partitions (`partitionAssignmentsChanged` is its negation on duplicate-free key
lists, see `Properties/RefreshConc.code_test_iff`) -/
def sameSet (c a : List Part) : Bool := c.all (a.contains ·) && a.all (c.contains ·)

/-- one step of goroutine `i` under the current protocol; `none` when it cannot move (no call left, or waiting for the lock) -/
def step (s : Sys) (i : Nat) : Option Sys :=
  let t := s.th i
  match t.todo with
  | [] => none
  | call :: rest =>
    match t.pc, call with
    | .start, .setReq r => some { sh := { s.sh with reqs := r, stale := true }, th := upd s.th i { todo := rest, pc := .start } }
    | .start, _ =>
      if s.sh.holder = none then some { sh := { s.sh with holder := some i }, th := upd s.th i { t with pc := .held } } else none
    | .held, .setOwned o => some { sh := { s.sh with owned := o }, th := upd s.th i { t with pc := .finishing } }
    | .held, .setReq _ => none
    | .held, .refresh =>
      let c := cand (fun p => s.sh.reqs.contains p) s.sh.owned
      if sameSet c s.sh.active then some { sh := { s.sh with stale := false }, th := upd s.th i { t with pc := .finishing } }
      else some { sh := { s.sh with client := [], stale := false }, th := upd s.th i { t with pc := .unassigned c } }
    | .unassigned c, _ => some { sh := { s.sh with active := c }, th := upd s.th i { t with pc := .installed c } }
    | .installed c, _ => some { sh := { s.sh with client := c }, th := upd s.th i { t with pc := .finishing } }
    | .finishing, _ => some { sh := { s.sh with holder := none }, th := upd s.th i { todo := rest, pc := .start } }
    | .decided _, _ => none
    | .locked _, _ => none

/-- the protocol before the fix -/
def stepOld (req : Part → Bool) (s : Sys) (i : Nat) : Option Sys :=
  let t := s.th i
  match t.todo with
  | [] => none
  | call :: rest =>
    match t.pc, call with
    | .start, .setOwned o => some { sh := { s.sh with owned := o }, th := upd s.th i { todo := rest, pc := .start } }
    | .start, .setReq r => some { sh := { s.sh with reqs := r }, th := upd s.th i { todo := rest, pc := .start } }
    | .start, .refresh =>
      let c := cand req s.sh.owned
      if sameSet c s.sh.active then some { s with th := upd s.th i { todo := rest, pc := .start } }
      else some { s with th := upd s.th i { t with pc := .decided c } }
    | .decided c, _ =>
      if s.sh.holder = none then some { sh := { s.sh with holder := some i }, th := upd s.th i { t with pc := .locked c } } else none
    | .locked c, _ => some { sh := { s.sh with client := [] }, th := upd s.th i { t with pc := .unassigned c } }
    | .unassigned c, _ => some { sh := { s.sh with active := c }, th := upd s.th i { t with pc := .installed c } }
    | .installed c, _ => some { sh := { s.sh with client := c }, th := upd s.th i { t with pc := .finishing } }
    | .finishing, _ => some { sh := { s.sh with holder := none }, th := upd s.th i { todo := rest, pc := .start } }
    | .held, _ => none

/-- run a schedule (a goroutine that cannot move when it is scheduled just loses its turn) -/
def run (stp : Sys → Nat → Option Sys) (s : Sys) : List Nat → Sys
  | [] => s
  | i :: sched => run stp ((stp s i).getD s) sched

/-- every `setOwned` of a goroutine is followed by a `refresh` of the same goroutine (as in `assignPartitions` and
`revokePartitionAssignments`) -/
def wfCalls : List Call → Bool
  | [] => true
  | .refresh :: r => wfCalls r
  | .setReq _ :: r => wfCalls r
  | .setOwned _ :: r => r.contains .refresh && wfCalls r

end Firebolt.RefreshConc
