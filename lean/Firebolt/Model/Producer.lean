import Firebolt.Util
/-!
Model of `node/kafkaproducer/kafkaproducer.go` (`Process`), `errorproducer.go` (`Process`) and the uniform error JSON of
`error.go` (`EventError.MarshalJSON`, `FBError`) — C15.  `encoding/json` is outside the model: an event payload is either
serialisable (then the report's `event` field is its JSON) or not (then it is replaced); the harness parses the produced
bytes with `encoding/json` and prints the tree shape that is compared here.
-/
namespace Firebolt.Producer

inductive Payload where
  | request (topic : String) (value : String)    -- a firebolt.ProduceRequest (value as hex)
  | other                                        -- any other payload type
deriving Repr, DecidableEq, Inhabited

inductive Res where
  | produced (topic : String) (value : String)   -- exactly one record enqueued; the node returns (nil, nil): nothing for children
  | error                                        -- no record
deriving Repr, DecidableEq, Inhabited

/-- KafkaProducer.Process -/
def produce (cfgTopic : String) : Payload → Res
  | .other => .error
  | .request t v =>
    let dest := if t ≠ "" then t else cfgTopic
    if dest = "" then .error else .produced dest v

/-- the errors a node may hand to its handler -/
inductive Err where
  | plain (msg : String)
  | fb (code msg : String)                -- firebolt.FBError value
  | fbInfo (code msg : String)            -- FBError with ErrorInfo
  | wrapped (pre code msg : String)       -- fmt.Errorf("<pre>: %w", FBError)
  | ptrFb (code msg : String)             -- *FBError
deriving Repr, DecidableEq, Inhabited

/-- FBError.Error() -/
def fbText (code msg : String) : String := code ++ ": " ++ msg

structure ErrJson where
  code : String
  message : String
  hasInfo : Bool
deriving Repr, DecidableEq, Inhabited

/-- EventError.MarshalJSON: structured errors are preserved, everything else becomes ERR_UNKNOWN + the error text -/
def errJson : Err → ErrJson
  | .plain m => ⟨"ERR_UNKNOWN", m, false⟩
  | .fb c m => ⟨c, m, false⟩
  | .fbInfo c m => ⟨c, m, true⟩
  | .wrapped pre c m => ⟨"ERR_UNKNOWN", pre ++ ": " ++ fbText c m, false⟩
  | .ptrFb c m => ⟨"ERR_UNKNOWN", fbText c m, false⟩

inductive EventField where
  | same        -- the JSON of the failed event's payload
  | replaced    -- payload not serialisable: replaced by the marshalling error
deriving Repr, DecidableEq, Inhabited

structure Report where
  topic : String
  keys : List String          -- keys of the top-level object
  err : ErrJson
  event : EventField
deriving Repr, DecidableEq, Inhabited

inductive RepRes where
  | produced (r : Report)
  | error
deriving Repr, DecidableEq, Inhabited

/-- ErrorProducer.Process on an EventError (isReport) whose event payload is / is not serialisable -/
def report (cfgTopic : String) (isReport : Bool) (serialisable : Bool) (e : Err) : RepRes :=
  if !isReport then .error
  else if cfgTopic = "" then .error
  else .produced ⟨cfgTopic, ["error", "event", "timestamp"], errJson e, if serialisable then .same else .replaced⟩

end Firebolt.Producer
