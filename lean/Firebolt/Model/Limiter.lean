import Firebolt.Util
/-!
Model of the token bucket behind `golang.org/x/time/rate.Limiter` as the recovery consumer uses it (C19):
`rate.NewLimiter(rate.Limit(r), 100)` and one `Wait` per recovered record.
Time is in integer units with `T` units per token (T = 1s / r) and capacity `C = burst · T`, so every relation is linear.
The bucket contract (a `Wait` returns no earlier than the bucket can grant a token) is trusted; the theorems say what that
contract implies for the emission rate.
-/
namespace Firebolt.Limiter

inductive Op where
  | advance (dt : Nat)   -- time passes
  | grant                -- a Wait returns (possible only when a whole token is available)
deriving Repr, Inhabited, DecidableEq

structure St where
  level : Int            -- accumulated credit, 0 ≤ level ≤ C
  elapsed : Int := 0
  spent : Int := 0       -- T per grant
deriving Repr, Inhabited, DecidableEq

def step (T C : Int) (s : St) : Op → Option St
  | .advance dt => some { s with level := min C (s.level + dt), elapsed := s.elapsed + dt }
  | .grant => if s.level ≥ T then some { s with level := s.level - T, spent := s.spent + T } else none

def run (T C : Int) (s : St) : List Op → Option St
  | [] => some s
  | op :: ops => match step T C s op with
    | some s' => run T C s' ops
    | none => none

/-- the least time (in ms) in which `n` tokens can be granted by a bucket of rate `r`/s that starts full with `burst` tokens -/
def minElapsedMs (r burst n : Nat) : Nat := if n ≤ burst ∨ r = 0 then 0 else ((n - burst) * 1000) / r

end Firebolt.Limiter
