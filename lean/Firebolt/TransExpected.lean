import Firebolt.Generated.Trans
import Firebolt.Model.Offsets
import Firebolt.Properties.TransBase
/-!
The *expected observations* of the translated fragments, as executable functions of the environment — the right-hand
sides of the exact `translated_*` theorems (`obs Trans.f σ = expected σ`).  Being executable, they serve twice: the
theorems prove the equality for every environment, and when a theorem no longer checks (the code changed), the driver
(`fbdriver transcheck`) evaluates both sides on sampled environments and prints a concrete one on which they differ —
a counterexample at the level of the source, attached to the replay file.
-/
namespace Firebolt.TransExpected
open Firebolt Firebolt.MiniGo Firebolt.TransBase

def requestRecovery (σ : Env) : Obs :=
  ⟨[("rc.tracker.AddRecoveryRequest",
      [σ "partitionID", (Offsets.trim (σ "rc.maxRecordsToRecover") (σ "fromOffset") (σ "toOffset")).1,
        (Offsets.trim (σ "rc.maxRecordsToRecover") (σ "fromOffset") (σ "toOffset")).2])], none, false⟩

def recoverSingleEvent (σ : Env) : Obs :=
  let p := σ "e.TopicPartition.Partition"
  let o := σ "e.TopicPartition.Offset"
  let t := σ "recoveryState.toOffset"
  match rdec (σ "lookup rc.activePartitionMap#1" != 0) (σ "recoveryState.fromOffset") t o (σ "rc.updateRequestEvery") with
  | .ignore => ⟨rsePre σ, some [], false⟩
  | .complete => ⟨rsePre σ ++ [("rc.tracker.MarkRecoveryComplete", [p, t]), ("rc.RefreshAssignments", [])], some [], false⟩
  | .emit u => ⟨rsePre σ ++ [rseWait σ,
                  ("rc.metrics.RecoveryEvents.WithLabelValues(strconv.Itoa(int(e.TopicPartition.Partition))).Inc", []),
                  rseSend σ] ++
                (if u then [("rc.tracker.UpdateRecoveryRequest", [p, o, t])] else []), none, false⟩

/-- the hypothesis of `translated_recoverSingleEvent`: offsets are non-negative int64 values -/
def recoverSingleEventPre (σ : Env) : Bool :=
  decide (0 ≤ σ "e.TopicPartition.Offset") && decide (σ "e.TopicPartition.Offset" < 2^63) &&
  decide (0 ≤ σ "recoveryState.toOffset") && decide (σ "recoveryState.toOffset" < 2^63)

def handleResult (σ : Env) : Obs :=
  if σ "err" ≠ 0 then ⟨[("nc.handleFailure", [σ "event", σ "err"])], none, false⟩
  else if σ "len(result)" = 0 then ⟨[("metrics.Node().Filtered.WithLabelValues(nc.Config.ID).Inc", [])], none, false⟩
  else ⟨[("metrics.Node().Successes.WithLabelValues(nc.Config.ID).Inc", []),
         ("foreach nc.Children: nc.deliverToChild", [σ "childNode", σ "result"])], none, false⟩

def handleFailure (σ : Env) : Obs :=
  ⟨("metrics.Node().Failures.WithLabelValues(nc.Config.ID).Inc", []) ::
    (if σ "nc.ErrorHandler" ≠ 0 then
      [("new firebolt.EventError {Event,Err}", [σ "event", σ "err"]),
       ("nc.deliverToChild", [σ "nc.ErrorHandler", σ "[]firebolt.Event{{ Payload: eventError, Created: time.Now(), }}"])]
     else []), none, false⟩

def gauge (σ : Env) : String × List Int :=
  ("metrics.Node().BufferedEvents.WithLabelValues(childNode.Config.ID).Set", [σ "float64(len(childNode.Ch))"])

def deliverBody (σ : Env) : Obs :=
  ⟨(if σ "room childNode.Ch" ≠ 0 then [("send childNode.Ch", [σ "event"])]
    else if σ "childNode.Config.DiscardOnFullBuffer" ≠ 0 then
      [("metrics.Node().DiscardedEvents.WithLabelValues(childNode.Config.ID).Inc", [])]
    else [("metrics.Node().BufferFullEvents.WithLabelValues(childNode.Config.ID).Inc", []), ("send childNode.Ch", [σ "event"])])
    ++ [gauge σ], none, false⟩

def exRootDeliverBody (σ : Env) : Obs :=
  ⟨(if σ "room rootNode.Ch" ≠ 0 then [("send rootNode.Ch", [σ "sourceEvent"])]
    else if σ "rootNode.Config.DiscardOnFullBuffer" ≠ 0 then
      [("metrics.Node().DiscardedEvents.WithLabelValues(rootNode.Config.ID).Inc", [])]
    else [("metrics.Node().BufferFullEvents.WithLabelValues(rootNode.Config.ID).Inc", []), ("send rootNode.Ch", [σ "sourceEvent"])])
    ++ [("metrics.Node().BufferedEvents.WithLabelValues(rootNode.Config.ID).Set", [σ "float64(len(rootNode.Ch))"])], none, false⟩

def exDeliverToNode (σ : Env) : Obs :=
  ⟨[("node.NodeProcessor.AcceptsMessage", [σ "msg.MessageType"])] ++
    (if σ "node.NodeProcessor.AcceptsMessage#0" ≠ 0 then
      [("node.NodeProcessor.Receive", [σ "msg"])] ++
        (if σ "node.NodeProcessor.Receive#0" ≠ 0 then [("errorList.addError", [σ "node.NodeProcessor.Receive#0"])] else [])
     else []) ++
    [("foreach node.Children: e.deliverMessageToNode", [σ "msg", σ "child", σ "errorList"])], none, false⟩

def exPrepareSource (σ : Env) : Obs :=
  ⟨[("node.GetRegistry().InstantiateSource", [σ "e.config.Source.Name"]),
    ("e.source.Init", [σ "e.config.Source.ID", σ "e.fbContext"]),
    ("e.source.Setup", [σ "e.config.Source.Params", σ "e.sourceCh"])] ++
    (if σ "e.source.Setup#0" ≠ 0 then [("os.Exit", [1])] else []), none, false⟩

def exSuperviseBody (σ : Env) : Obs :=
  ⟨(if σ "initialRun" ≠ 0 then [] else [("e.prepareSource", [])]) ++ [("e.source.Start", [])] ++
    (if σ "e.source.Start#0" = 0 then [] else [("time.Sleep", [wrap64 (10 * σ "time.Second")])]),
   (if σ "e.source.Start#0" = 0 then some [1] else none), false⟩

def exExecuteTail (σ : Env) : Obs :=
  ⟨[("foreach e.rootNodes: close", [σ "rootNode.Ch"]),
    ("waitTimeout", [σ "&e.wg", wrap64 (σ "e.config.ShutdownTimeOut" * σ "time.Second")])] ++
    (if σ "waitTimeout#0" ≠ 0 then [("foreach e.rootNodes: e.stopWorkers", [σ "rootNode"])] else []) ++
    [("message.ShutdownKafkaSender", [])], none, false⟩

/-- what a worker does at the end of its node's input -/
def cascadeCalls (σ : Env) : List (String × List Int) :=
  [("node.WaitGroup.Done", []), ("node.WaitGroup.Wait", []), ("node.ShutdownOnce.Do", [])] ++
  (if σ "node.ShutdownOnce.Do#0" ≠ 0 then
    [("shutDownNode", []), ("foreach node.Children: close", [σ "child.Ch"])] ++
    (if σ "node.ErrorHandler" ≠ 0 then [("close", [σ "node.ErrorHandler.Ch"])] else [])
   else [])

def exRunNodeBody (σ : Env) : Obs :=
  if σ "select#0" = 0 then
    ⟨[("select", [σ "node.StopCh", σ "node.Ch"]), ("shutDownNode", [])], some [], false⟩
  else if σ "recv node.Ch#1" = 0 then
    ⟨[("select", [σ "node.StopCh", σ "node.Ch"]), ("recv node.Ch", [])] ++ cascadeCalls σ, some [], false⟩
  else
    ⟨[("select", [σ "node.StopCh", σ "node.Ch"]), ("recv node.Ch", []), ("node.ProcessEvent", [σ "&event"])], none, false⟩

def exRunNodeBodyPre (σ : Env) : Bool := σ "select#0" == 0 || σ "select#0" == 1

def kpReportBody (_σ : Env) : Obs := ⟨[("typeswitch ev := e.(type)", [])], none, false⟩

def truncationBody (σ : Env) : Obs :=
  let p := σ "partition.partition.Partition"
  let low := σ "rc.consumer.QueryWatermarkOffsets#0"
  ⟨[("rc.consumer.QueryWatermarkOffsets", [σ "rc.topic", p, 10000])] ++
        (if σ "rc.consumer.QueryWatermarkOffsets#2" ≠ 0 then []
         else if σ "partition.fromOffset" < low then
           (if low ≥ σ "partition.toOffset" then [("rc.tracker.MarkRecoveryComplete", [p, σ "partition.toOffset"])]
            else [("rc.tracker.UpdateRecoveryRequest", [p, low, σ "partition.toOffset"])])
         else []),
       (if σ "rc.consumer.QueryWatermarkOffsets#2" ≠ 0 then some [] else none), false⟩

def kcRevoke (σ : Env) : Obs :=
  ⟨[("k.assignPartitionsCancel", []), ("k.assignPartitionsMutex.Lock", []),
        ("defer func() { k.assignPartitionsMutex.Unlock() k.assignPartitionsCtx, k.assignPartitionsCancel = context.WithCancel(context.Background()) }", []),
        ("k.consumer.Unassign", [])] ++
        (if σ "k.recoveryConsumerEnabled" ≠ 0 then
          [("k.recoveryConsumer.SetAssignedPartitions", [σ "[]kafka.TopicPartition{}"]), ("k.recoveryConsumer.RefreshAssignments", [])]
         else []), none, false⟩

def exDeliverMessage (σ : Env) : Obs :=
  ⟨[("newContextMessage", [σ "msg"]), ("e.source.AcceptsMessage", [σ "ctxMsg.MessageType"])] ++
        (if σ "e.source.AcceptsMessage#0" ≠ 0 then
          [("e.source.Receive", [σ "newContextMessage#0"])] ++
          (if σ "e.source.Receive#0" ≠ 0 then [("errorList.addError", [σ "e.source.Receive#0"])] else [])
         else []) ++
        [("foreach e.rootNodes: e.deliverMessageToNode", [σ "newContextMessage#0", σ "rootNode", σ "&errorList{}"])],
       some [σ "errorList.errors"], false⟩

def exSetupNodes (σ : Env) : Obs :=
  ⟨[("node.NodeProcessor.Init", [σ "node.Config.ID", σ "e.fbContext"]),
        ("node.NodeProcessor.Setup", [σ "node.Config.Params"])] ++
        (if σ "node.NodeProcessor.Setup#0" ≠ 0 then [("os.Exit", [1])] else []) ++
        (if σ "node.ErrorHandler" ≠ 0 then [("e.setupNodes", [σ "node.ErrorHandler"])] else []) ++
        [("foreach node.Children: e.setupNodes", [σ "child"])], none, false⟩

def exShutdown (σ : Env) : Obs :=
  ⟨(if σ "e.source" ≠ 0 then [("e.source.Shutdown", [])] else []) ++
        (if σ "e.messageReceiver" ≠ 0 then [("e.messageReceiver.Shutdown", [])] else []) ++
        (if σ "e.leader" ≠ 0 then [("e.leader.Shutdown", [])] else []) ++
        [("make", [σ "chan struct{}"]), ("go func() { done <- struct{}{} }", [])], some [σ "make#0"], false⟩

def esTail (σ : Env) : Obs :=
  if σ "retryCount" = σ "c.maxRetries" then
        ⟨[("c.metrics.BulkMaxRetriesReached.Add", [σ "float64(len(res.Failed()))"])], some [σ "ErrMaxRetries"], false⟩
      else ⟨[("go c.retryBulkIndex", [σ "retryRequests", wrap64 (σ "retryCount" + 1)])], some [0], false⟩

def mrDeliverMessage (σ : Env) : Obs :=
  ⟨[("r.notifier", [σ "msg"])], none, false⟩

/-- one entry per exact theorem: the translated term, its expected observation, the theorem's hypothesis -/
structure Case where
  name : String
  term : S
  expected : Env → Obs
  pre : Env → Bool := fun _ => true

def cases : List Case := [
  ⟨"requestRecovery", Trans.requestRecovery, requestRecovery, fun _ => true⟩,
  ⟨"recoverSingleEvent", Trans.recoverSingleEvent, recoverSingleEvent, recoverSingleEventPre⟩,
  ⟨"handleResult", Trans.handleResult, handleResult, fun _ => true⟩,
  ⟨"handleFailure", Trans.handleFailure, handleFailure, fun _ => true⟩,
  ⟨"deliverBody", Trans.deliverBody, deliverBody, fun _ => true⟩,
  ⟨"rootDeliverBody", Trans.exRootDeliverBody, exRootDeliverBody, fun _ => true⟩,
  ⟨"exDeliverToNode", Trans.exDeliverToNode, exDeliverToNode, fun _ => true⟩,
  ⟨"prepareSource", Trans.exPrepareSource, exPrepareSource, fun _ => true⟩,
  ⟨"superviseBody", Trans.exSuperviseBody, exSuperviseBody, fun _ => true⟩,
  ⟨"executeTail", Trans.exExecuteTail, exExecuteTail, fun _ => true⟩,
  ⟨"runNodeBody", Trans.exRunNodeBody, exRunNodeBody, exRunNodeBodyPre⟩,
  ⟨"reportLoopBody", Trans.kpReportBody, kpReportBody, fun _ => true⟩,
  ⟨"truncationBody", Trans.truncationBody, truncationBody, fun _ => true⟩,
  ⟨"kcRevoke", Trans.kcRevoke, kcRevoke, fun _ => true⟩,
  ⟨"exDeliverMessage", Trans.exDeliverMessage, exDeliverMessage, fun _ => true⟩,
  ⟨"exSetupNodes", Trans.exSetupNodes, exSetupNodes, fun _ => true⟩,
  ⟨"exShutdown", Trans.exShutdown, exShutdown, fun _ => true⟩,
  ⟨"esTail", Trans.esTail, esTail, fun _ => true⟩,
  ⟨"mrDeliverMessage", Trans.mrDeliverMessage, mrDeliverMessage, fun _ => true⟩]

end Firebolt.TransExpected
