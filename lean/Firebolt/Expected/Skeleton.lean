import Firebolt.Skeleton
/-! EXPECTED skeleton: the reviewed copy of Generated/Skeleton.lean that the models in Model/Exec.lean, Model/Recovery.lean and Model/Limiter.lean were transcribed from. -/
namespace Firebolt.Expected
open Firebolt.Skeleton

def execute : List Instr := [
  ⟨0, "call", "e.superviseSource()"⟩,
  ⟨0, "range", "e.rootNodes"⟩,
  ⟨1, "call", "e.startWorkers(curNode)"⟩,
  ⟨0, "for", "!done"⟩,
  ⟨1, "select", ""⟩,
  ⟨2, "case-recv:=", "e.sigCh"⟩,
  ⟨3, "call", "e.Shutdown()"⟩,
  ⟨2, "case-recv:=", "e.sourceCh"⟩,
  ⟨3, "if", "!ok"⟩,
  ⟨4, "continue", ""⟩,
  ⟨3, "range", "e.rootNodes"⟩,
  ⟨4, "select", ""⟩,
  ⟨5, "case-send", "rootNode.Ch <- sourceEvent"⟩,
  ⟨5, "default", ""⟩,
  ⟨6, "if", "rootNode.Config.DiscardOnFullBuffer"⟩,
  ⟨7, "call", "metrics.Node().DiscardedEvents.WithLabelValues(rootNode.Config.ID).Inc()"⟩,
  ⟨6, "else", ""⟩,
  ⟨7, "call", "metrics.Node().BufferFullEvents.WithLabelValues(rootNode.Config.ID).Inc()"⟩,
  ⟨7, "send", "rootNode.Ch <- sourceEvent"⟩,
  ⟨0, "range", "e.rootNodes"⟩,
  ⟨1, "close", "rootNode.Ch"⟩,
  ⟨0, "if", "waitTimeout(&e.wg, time.Duration(e.config.ShutdownTimeOut)*time.Second)"⟩,
  ⟨1, "range", "e.rootNodes"⟩,
  ⟨2, "call", "e.stopWorkers(rootNode)"⟩,
  ⟨0, "call", "message.ShutdownKafkaSender()"⟩
]

def waitTimeout : List Instr := [
  ⟨0, "go", "func"⟩,
  ⟨1, "defer", "close(c)"⟩,
  ⟨1, "call", "wg.Wait()"⟩,
  ⟨0, "select", ""⟩,
  ⟨1, "case-recv", "c"⟩,
  ⟨2, "return", "false"⟩,
  ⟨1, "case-recv", "time.After(timeout)"⟩,
  ⟨2, "return", "true"⟩
]

def prepareSource : List Instr := [
  ⟨0, "assign", "e.source"⟩,
  ⟨0, "call", "node.GetRegistry().InstantiateSource(e.config.Source.Name)"⟩,
  ⟨0, "call", "e.source.Init(e.config.Source.ID, e.fbContext)"⟩,
  ⟨0, "call", "e.source.Setup(e.config.Source.Params, e.sourceCh)"⟩,
  ⟨0, "if", "err != nil"⟩,
  ⟨1, "call", "os.Exit(1)"⟩
]

def superviseSource : List Instr := [
  ⟨0, "go", "func"⟩,
  ⟨1, "defer", "close(e.sourceCh)"⟩,
  ⟨1, "for", ""⟩,
  ⟨2, "if", "initialRun"⟩,
  ⟨2, "else", ""⟩,
  ⟨3, "call", "e.prepareSource()"⟩,
  ⟨2, "call", "e.source.Start()"⟩,
  ⟨2, "if", "err == nil"⟩,
  ⟨3, "break", ""⟩,
  ⟨2, "call", "time.Sleep(10 * time.Second)"⟩
]

def shutdown : List Instr := [
  ⟨0, "if", "e.source != nil"⟩,
  ⟨1, "call", "e.source.Shutdown()"⟩,
  ⟨1, "if", "err != nil"⟩,
  ⟨0, "if", "e.messageReceiver != nil"⟩,
  ⟨1, "call", "e.messageReceiver.Shutdown()"⟩,
  ⟨0, "if", "e.leader != nil"⟩,
  ⟨1, "call", "e.leader.Shutdown()"⟩,
  ⟨0, "go", "func"⟩,
  ⟨1, "send", "done <- struct{}{}"⟩,
  ⟨0, "return", "done"⟩
]

def setupNodes : List Instr := [
  ⟨0, "call", "node.NodeProcessor.Init(node.Config.ID, e.fbContext)"⟩,
  ⟨0, "call", "node.NodeProcessor.Setup(node.Config.Params)"⟩,
  ⟨0, "if", "err != nil"⟩,
  ⟨1, "call", "os.Exit(1)"⟩,
  ⟨0, "if", "node.ErrorHandler != nil"⟩,
  ⟨1, "call", "e.setupNodes(node.ErrorHandler)"⟩,
  ⟨0, "range", "node.Children"⟩,
  ⟨1, "call", "e.setupNodes(child)"⟩
]

def startWorkers : List Instr := [
  ⟨0, "call", "node.WaitGroup.Add(node.Config.Workers)"⟩,
  ⟨0, "for", "i := 0; i < node.Config.Workers; i++"⟩,
  ⟨1, "call", "e.wg.Add(1)"⟩,
  ⟨1, "go", "e.runNode(node)"⟩,
  ⟨0, "if", "node.ErrorHandler != nil"⟩,
  ⟨1, "call", "e.startWorkers(node.ErrorHandler)"⟩,
  ⟨0, "range", "node.Children"⟩,
  ⟨1, "call", "e.startWorkers(child)"⟩
]

def stopWorkers : List Instr := [
  ⟨0, "for", "i := 0; i < node.Config.Workers; i++"⟩,
  ⟨1, "go", "func"⟩,
  ⟨2, "send", "node.StopCh <- true"⟩,
  ⟨0, "range", "node.Children"⟩,
  ⟨1, "call", "e.stopWorkers(child)"⟩
]

def runNode : List Instr := [
  ⟨0, "defer", "e.wg.Done()"⟩,
  ⟨0, "funcdef", "shutDownNode"⟩,
  ⟨1, "call", "node.NodeProcessor.Shutdown()"⟩,
  ⟨1, "if", "err != nil"⟩,
  ⟨2, "return", ""⟩,
  ⟨0, "for", ""⟩,
  ⟨1, "select", ""⟩,
  ⟨2, "case-recv", "node.StopCh"⟩,
  ⟨3, "call", "shutDownNode()"⟩,
  ⟨3, "return", ""⟩,
  ⟨2, "case-recv:=", "node.Ch"⟩,
  ⟨3, "if", "!ok"⟩,
  ⟨4, "call", "node.WaitGroup.Done()"⟩,
  ⟨4, "call", "node.WaitGroup.Wait()"⟩,
  ⟨4, "call", "node.ShutdownOnce.Do"⟩,
  ⟨5, "funclit", ""⟩,
  ⟨6, "call", "shutDownNode()"⟩,
  ⟨6, "range", "node.Children"⟩,
  ⟨7, "close", "child.Ch"⟩,
  ⟨6, "if", "node.ErrorHandler != nil"⟩,
  ⟨7, "close", "node.ErrorHandler.Ch"⟩,
  ⟨4, "return", ""⟩,
  ⟨3, "call", "node.ProcessEvent(&event)"⟩
]

def initNodeContextHierarchy : List Instr := [
  ⟨0, "if", "nodeConfig.Disabled"⟩,
  ⟨1, "return", "nil"⟩,
  ⟨0, "var", "childContexts []*Context"⟩,
  ⟨0, "range", "nodeConfig.Children"⟩,
  ⟨1, "call", "InitNodeContextHierarchy(childConfig)"⟩,
  ⟨1, "if", "ctx != nil"⟩,
  ⟨0, "var", "errorHandler *Context"⟩,
  ⟨0, "if", "nodeConfig.ErrorHandler != nil"⟩,
  ⟨1, "call", "GetRegistry().InstantiateNode(nodeConfig.ErrorHandler.Name)"⟩,
  ⟨1, "literal", "errorHandler := &Context{ Config: nodeConfig.ErrorHandler, Ch: make(chan firebolt.Event, nodeConfig.ErrorHandler.BufferSize), StopCh: make(chan bool, nodeConfig.Workers), NodeProcessor: errorHandlerProcessor, NodeType: getNodeType(errorHandlerProcessor), WaitGroup: &sync.WaitGroup{}, ShutdownOnce: &sync.Once{}, }"⟩,
  ⟨0, "call", "GetRegistry().InstantiateNode(nodeConfig.Name)"⟩,
  ⟨0, "call", "getNodeType(nodeProcessor)"⟩,
  ⟨0, "if", "nodeType == Unknown"⟩,
  ⟨1, "call", "panic(\"node: configured node \" + nodeConfig.ID + \" must implement SyncNode, AsyncNode, or FanoutNode\")"⟩,
  ⟨0, "literal", "ctx := &Context{ Config: nodeConfig, Ch: make(chan firebolt.Event, nodeConfig.BufferSize), StopCh: make(chan bool), NodeProcessor: nodeProcessor, NodeType: nodeType, Children: childContexts, ErrorHandler: errorHandler, WaitGroup: &sync.WaitGroup{}, ShutdownOnce: &sync.Once{}, }"⟩,
  ⟨0, "return", "ctx"⟩
]

def processEvent : List Instr := [
  ⟨0, "call", "metrics.Node().EventsReceived.WithLabelValues(nc.Config.ID).Inc()"⟩,
  ⟨0, "switch", "nc.NodeType"⟩,
  ⟨1, "case", "Sync"⟩,
  ⟨2, "call", "nc.invokeProcessorSync(event)"⟩,
  ⟨2, "call", "nc.handleResult(err, event, eventToEventSlice(result))"⟩,
  ⟨1, "case", "Async"⟩,
  ⟨2, "call", "nc.invokeProcessorAsync(event)"⟩,
  ⟨1, "case", "Fanout"⟩,
  ⟨2, "call", "nc.invokeProcessorFanout(event)"⟩,
  ⟨2, "call", "nc.handleResult(err, event, results)"⟩
]

def eventToEventSlice : List Instr := [
  ⟨0, "if", "event == nil"⟩,
  ⟨1, "return", "[]firebolt.Event{}"⟩,
  ⟨0, "return", "[]firebolt.Event{*event}"⟩
]

def handleResult : List Instr := [
  ⟨0, "if", "err != nil"⟩,
  ⟨1, "call", "nc.handleFailure(event, err)"⟩,
  ⟨0, "else", ""⟩,
  ⟨1, "if", "len(result) == 0"⟩,
  ⟨2, "call", "metrics.Node().Filtered.WithLabelValues(nc.Config.ID).Inc()"⟩,
  ⟨1, "else", ""⟩,
  ⟨2, "call", "metrics.Node().Successes.WithLabelValues(nc.Config.ID).Inc()"⟩,
  ⟨2, "range", "nc.Children"⟩,
  ⟨3, "call", "nc.deliverToChild(childNode, result)"⟩
]

def deliverToChild : List Instr := [
  ⟨0, "range", "events"⟩,
  ⟨1, "select", ""⟩,
  ⟨2, "case-send", "childNode.Ch <- event"⟩,
  ⟨2, "default", ""⟩,
  ⟨3, "if", "childNode.Config.DiscardOnFullBuffer"⟩,
  ⟨4, "call", "metrics.Node().DiscardedEvents.WithLabelValues(childNode.Config.ID).Inc()"⟩,
  ⟨3, "else", ""⟩,
  ⟨4, "call", "metrics.Node().BufferFullEvents.WithLabelValues(childNode.Config.ID).Inc()"⟩,
  ⟨4, "send", "childNode.Ch <- event"⟩
]

def invokeProcessorAsync : List Instr := [
  ⟨0, "funcdef", "errFunc"⟩,
  ⟨1, "call", "nc.handleResult(err, event, nil)"⟩,
  ⟨0, "funcdef", "eventFunc"⟩,
  ⟨1, "if", "result != nil"⟩,
  ⟨2, "call", "nc.handleResult(nil, event, eventToEventSlice(result.Event))"⟩,
  ⟨1, "else", ""⟩,
  ⟨2, "call", "nc.handleResult(nil, event, nil)"⟩,
  ⟨0, "funcdef", "filterFunc"⟩,
  ⟨1, "call", "nc.handleResult(nil, event, nil)"⟩,
  ⟨0, "call", "firebolt.NewAsyncEvent(event, errFunc, eventFunc, filterFunc)"⟩,
  ⟨0, "if", "!ok"⟩,
  ⟨1, "call", "panic(\"node: async invocation failed to convert target to AsyncNode\")"⟩,
  ⟨0, "call", "asyncNode.ProcessAsync(asyncEvent)"⟩
]

def handleFailure : List Instr := [
  ⟨0, "call", "metrics.Node().Failures.WithLabelValues(nc.Config.ID).Inc()"⟩,
  ⟨0, "if", "nc.ErrorHandler != nil"⟩,
  ⟨1, "literal", "eventError := firebolt.EventError{ Event: event, Err: err, }"⟩,
  ⟨1, "call", "nc.deliverToChild(nc.ErrorHandler, []firebolt.Event{{ Payload: eventError, Created: time.Now(), }})"⟩
]

def recoverSingleEvent : List Instr := [
  ⟨0, "var", "recoveryState partitionRecoveryState"⟩,
  ⟨0, "var", "partitionIsInRecovery bool"⟩,
  ⟨0, "var", "remainingEventsToRecover int64"⟩,
  ⟨0, "call", "func() { rc.partitionAssignmentLock.RLock() defer rc.partitionAssignmentLock.RUnlock() recoveryState, partitionIsInRecovery = rc.activePartitionMap[e.TopicPartition.Partition] remainingEventsToRecover = recoveryState.toOffset - int64(e.TopicPartition.Offset) }()"⟩,
  ⟨0, "if", "!partitionIsInRecovery"⟩,
  ⟨1, "return", ""⟩,
  ⟨0, "if", "int64(e.TopicPartition.Offset) < recoveryState.fromOffset"⟩,
  ⟨1, "return", ""⟩,
  ⟨0, "if", "remainingEventsToRecover <= 0"⟩,
  ⟨1, "call", "rc.tracker.MarkRecoveryComplete(e.TopicPartition.Partition, recoveryState.toOffset)"⟩,
  ⟨1, "if", "err != nil"⟩,
  ⟨1, "call", "rc.RefreshAssignments()"⟩,
  ⟨1, "if", "err != nil"⟩,
  ⟨1, "return", ""⟩,
  ⟨0, "if", "int64(e.TopicPartition.Offset) >= recoveryState.fromOffset"⟩,
  ⟨1, "call", "rc.rateLimiter.Wait(rc.ctx)"⟩,
  ⟨1, "if", "err != nil"⟩,
  ⟨1, "assign", "recoveryState.fromOffset"⟩,
  ⟨1, "call", "rc.metrics.RecoveryEvents.WithLabelValues(strconv.Itoa(int(e.TopicPartition.Partition))).Inc()"⟩,
  ⟨1, "send", "rc.sendCh <- firebolt.Event{ Payload: e.Value, Created: time.Now(), Recovery: true, }"⟩,
  ⟨0, "if", "int64(e.TopicPartition.Offset)%rc.updateRequestEvery == 0 && remainingEventsToRecover > 0"⟩,
  ⟨1, "call", "rc.tracker.UpdateRecoveryRequest(e.TopicPartition.Partition, int64(e.TopicPartition.Offset), recoveryState.toOffset)"⟩,
  ⟨1, "if", "err != nil"⟩
]

def kafkaProcessEvent : List Instr := [
  ⟨0, "typeswitch", "e := ev.(type)"⟩,
  ⟨1, "case", "kafka.AssignedPartitions"⟩,
  ⟨2, "go", "k.retryAssignPartitions(e.Partitions)"⟩,
  ⟨1, "case", "kafka.RevokedPartitions"⟩,
  ⟨2, "call", "k.revokePartitionAssignments()"⟩,
  ⟨1, "case", "*kafka.Message"⟩,
  ⟨2, "send", "k.sendCh <- firebolt.Event{ Payload: e.Value, Created: time.Now(), Recovery: false, }"⟩,
  ⟨2, "call", "metrics.Source().EventsEmitted.Inc()"⟩,
  ⟨2, "call", "k.metrics.EventsConsumed.WithLabelValues(strconv.Itoa(int(e.TopicPartition.Partition))).Inc()"⟩,
  ⟨1, "case", "kafka.Error"⟩,
  ⟨1, "case", "*kafka.Stats"⟩,
  ⟨2, "call", "k.metrics.UpdateConsumerMetrics(e.String(), k.topic)"⟩
]

def limiterUses : List String := [
  "NewRecoveryConsumer: field rateLimiter: rate.NewLimiter(rate.Limit(maxRecordsPerSec), 100)",
  "recoverSingleEvent: rc.rateLimiter.Wait(rc.ctx)"
]

end Firebolt.Expected
