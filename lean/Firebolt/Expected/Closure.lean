/-! Reviewed copy of Generated/Closure.lean: the digests at the time the models and their assumptions were last reviewed.
Per property: every function in the influence closure of its pinned functions (callees, and writers of the fields and
package variables they read), with a digest of its normalised statements. -/
namespace Firebolt.ExpectedClo

def C01 : List (String × String) := [
  ("config/config.go:.Read", "407429d8ba42"),
  ("config/config.go:.assignNodeConfigDefaults", "46620181ff48"),
  ("event.go:.NewAsyncEvent", "45ee2ce200ca"),
  ("executor/executor.go:.WithConfig", "2ba7d58d1309"),
  ("executor/executor.go:Executor.Execute", "178207774c76"),
  ("executor/executor.go:Executor.prepareSource", "e44671e72cf8"),
  ("executor/executor.go:Executor.runNode", "16fae3758dbd"),
  ("executor/executor.go:Executor.superviseSource", "80a76260b5bc"),
  ("leader/leader.go:.NewLeader", "2f84d6a591e6"),
  ("leader/leader.go:Leader.stopElection", "3da372feaace"),
  ("leader/leader.go:Leader.updateLeadership", "8fa7538a9eed"),
  ("metrics/metrics.go:Metrics.registerNodeMetrics", "f4d4c8ad6eb3"),
  ("node/node.go:.InitNodeContextHierarchy", "49e126bee875"),
  ("node/node.go:.eventToEventSlice", "ca96d06f245d"),
  ("node/node.go:.getNodeType", "bd95451a7777"),
  ("node/node.go:Context.ProcessEvent", "e06175cfb7dc"),
  ("node/node.go:Context.deliverToChild", "229ab2e2dc27"),
  ("node/node.go:Context.handleResult", "65f9795b17c9"),
  ("node/node.go:Context.invokeProcessorAsync", "bf5ad9453a5d"),
  ("node/node.go:Context.invokeProcessorFanout", "e41f16884b20"),
  ("node/node.go:Context.invokeProcessorSync", "352112826b27"),
  ("node/registry.go:Registry.InstantiateNode", "f88154964e39"),
  ("node/registry.go:Registry.RegisterNodeType", "dca01f35809b"),
  ("node/registry.go:Registry.RegisterSourceType", "6f32e52f77c9")
]

def C02 : List (String × String) := [
  ("config/config.go:.assignNodeConfigDefaults", "46620181ff48"),
  ("executor/executor.go:Executor.runNode", "16fae3758dbd"),
  ("executor/executor.go:Executor.startWorkers", "aacf5eb36c86"),
  ("metrics/metrics.go:Metrics.registerNodeMetrics", "f4d4c8ad6eb3"),
  ("node/node.go:.InitNodeContextHierarchy", "49e126bee875"),
  ("node/node.go:.getNodeType", "bd95451a7777"),
  ("node/node.go:Context.handleFailure", "d5c24af5db77"),
  ("node/node.go:Context.handleResult", "65f9795b17c9"),
  ("node/node.go:Context.invokeProcessorAsync", "bf5ad9453a5d"),
  ("node/node.go:Context.invokeProcessorFanout", "e41f16884b20"),
  ("node/node.go:Context.invokeProcessorSync", "352112826b27")
]

def C03 : List (String × String) := [
  ("config/config.go:.Read", "407429d8ba42"),
  ("config/config.go:.assignNodeConfigDefaults", "46620181ff48"),
  ("executor/executor.go:.WithConfig", "2ba7d58d1309"),
  ("executor/executor.go:.waitTimeout", "c13854457397"),
  ("executor/executor.go:Executor.Execute", "178207774c76"),
  ("executor/executor.go:Executor.Shutdown", "9978059ba53c"),
  ("executor/executor.go:Executor.prepareSource", "e44671e72cf8"),
  ("executor/executor.go:Executor.runNode", "16fae3758dbd"),
  ("executor/executor.go:Executor.startWorkers", "aacf5eb36c86"),
  ("executor/executor.go:Executor.superviseSource", "80a76260b5bc"),
  ("executor/message.go:Executor.InitMessaging", "fe5de4957edf"),
  ("executor/message.go:Executor.initMessagingKafka", "49133e5e9abf"),
  ("metrics/metrics.go:Metrics.registerNodeMetrics", "f4d4c8ad6eb3"),
  ("node/node.go:.InitNodeContextHierarchy", "49e126bee875")
]

def C04 : List (String × String) := [
  ("config/config.go:.Read", "407429d8ba42"),
  ("executor/executor.go:.WithConfig", "2ba7d58d1309"),
  ("executor/executor.go:Executor.Execute", "178207774c76"),
  ("metrics/metrics.go:Metrics.registerNodeMetrics", "f4d4c8ad6eb3"),
  ("node/node.go:.InitNodeContextHierarchy", "49e126bee875"),
  ("node/node.go:Context.deliverToChild", "229ab2e2dc27"),
  ("node/node.go:Context.handleFailure", "d5c24af5db77")
]

def C05 : List (String × String) := [
  ("config/config.go:.Read", "407429d8ba42"),
  ("config/config.go:.assignNodeConfigDefaults", "46620181ff48"),
  ("executor/executor.go:.New", "dcf3216a0a67"),
  ("executor/executor.go:.WithConfig", "2ba7d58d1309"),
  ("executor/executor.go:Executor.Execute", "178207774c76"),
  ("executor/executor.go:Executor.prepareSource", "e44671e72cf8"),
  ("executor/executor.go:Executor.runNode", "16fae3758dbd"),
  ("executor/executor.go:Executor.setupNodes", "edfc3ce06535"),
  ("executor/executor.go:Executor.startWorkers", "aacf5eb36c86"),
  ("leader/leader.go:.NewLeader", "2f84d6a591e6"),
  ("leader/leader.go:Leader.stopElection", "3da372feaace"),
  ("leader/leader.go:Leader.updateLeadership", "8fa7538a9eed"),
  ("metrics/metrics.go:Metrics.registerNodeMetrics", "f4d4c8ad6eb3"),
  ("node/node.go:.InitNodeContextHierarchy", "49e126bee875"),
  ("node/registry.go:Registry.InstantiateNode", "f88154964e39"),
  ("node/registry.go:Registry.RegisterNodeType", "dca01f35809b"),
  ("node/registry.go:Registry.RegisterSourceType", "6f32e52f77c9")
]

def C06 : List (String × String) := [
  ("message/kafkamessagesender.go:KafkaMessageSender.produceMessage", "7bc7f382ec20"),
  ("message/kakfamessagereceiver.go:.NewKafkaReceiver", "dc9caeb7b203"),
  ("metrics/metrics.go:Metrics.registerSourceMetrics", "7682ab4ef90e"),
  ("node/kafkaconsumer/consumermetrics.go:Metrics.RegisterConsumerMetrics", "bf44d339cad3"),
  ("node/kafkaconsumer/kafkaconsumer.go:KafkaConsumer.Setup", "9cf71b697938"),
  ("node/kafkaconsumer/kafkaconsumer.go:KafkaConsumer.Start", "3835994f3828"),
  ("node/kafkaconsumer/kafkaconsumer.go:KafkaConsumer.assignPartitions", "e80cef82fffa"),
  ("node/kafkaconsumer/kafkaconsumer.go:KafkaConsumer.calculateAssignmentOffsets", "fee525a55ca0"),
  ("node/kafkaconsumer/kafkaconsumer.go:KafkaConsumer.checkConfig", "ba8d6a0897e5"),
  ("node/kafkaconsumer/kafkaconsumer.go:KafkaConsumer.offsetForPartition", "faf6ad734179"),
  ("node/kafkaconsumer/kafkaconsumer.go:KafkaConsumer.processEvent", "8346c15b4ebf"),
  ("node/kafkaconsumer/kafkaconsumer.go:KafkaConsumer.retryAssignPartitions", "4e602aa7e64d"),
  ("node/kafkaconsumer/kafkaconsumer.go:KafkaConsumer.revokePartitionAssignments", "4fb96ae21207"),
  ("node/kafkaconsumer/recoveryconsumer.go:.NewRecoveryConsumer", "62f4ec448a2b"),
  ("node/kafkaconsumer/recoveryconsumer.go:RecoveryConsumer.RequestRecovery", "b2e0f12c8617"),
  ("node/kafkaconsumer/recoverytracker.go:.NewRecoveryTracker", "f0d768ba1cb9"),
  ("node/kafkaconsumer/recoverytracker.go:RecoveryTracker.AddRecoveryRequest", "7827886d88ba"),
  ("node/kafkaconsumer/recoverytracker.go:RecoveryTracker.MarkRecoveryComplete", "f6674f9ecbcf"),
  ("node/kafkaconsumer/recoverytracker.go:RecoveryTracker.UpdateRecoveryRequest", "9ff3765c18ae"),
  ("node/kafkaconsumer/recoverytracker.go:RecoveryTracker.cancelAll", "dbf023086b78"),
  ("node/kafkaconsumer/recoverytracker.go:RecoveryTracker.receiveRequest", "917ada5b6d22")
]

def C07 : List (String × String) := [
  ("message/kafkamessagesender.go:KafkaMessageSender.produceMessage", "7bc7f382ec20"),
  ("message/kakfamessagereceiver.go:.NewKafkaReceiver", "dc9caeb7b203"),
  ("metrics/metrics.go:Metrics.registerSourceMetrics", "7682ab4ef90e"),
  ("node/kafkaconsumer/consumermetrics.go:Metrics.RegisterConsumerMetrics", "bf44d339cad3"),
  ("node/kafkaconsumer/kafkaconsumer.go:KafkaConsumer.Setup", "9cf71b697938"),
  ("node/kafkaconsumer/kafkaconsumer.go:KafkaConsumer.processEvent", "8346c15b4ebf"),
  ("node/kafkaconsumer/recoveryconsumer.go:.NewRecoveryConsumer", "62f4ec448a2b"),
  ("node/kafkaconsumer/recoveryconsumer.go:RecoveryConsumer.RefreshAssignments", "3a7f60ec8a0d"),
  ("node/kafkaconsumer/recoveryconsumer.go:RecoveryConsumer.SetAssignedPartitions", "81a74a566fec"),
  ("node/kafkaconsumer/recoveryconsumer.go:RecoveryConsumer.Shutdown", "340528791da1"),
  ("node/kafkaconsumer/recoveryconsumer.go:RecoveryConsumer.handleEvents", "e32c766182e9"),
  ("node/kafkaconsumer/recoveryconsumer.go:RecoveryConsumer.partitionAssignmentsChanged", "2bf932c114d4"),
  ("node/kafkaconsumer/recoveryconsumer.go:RecoveryConsumer.processError", "4dd7b70b46f7"),
  ("node/kafkaconsumer/recoveryconsumer.go:RecoveryConsumer.processEvent", "0a424e1fa330"),
  ("node/kafkaconsumer/recoveryconsumer.go:RecoveryConsumer.recoverSingleEvent", "5cdc79d28d08"),
  ("node/kafkaconsumer/recoveryconsumer.go:RecoveryConsumer.setActivePartitionMap", "6b140bafc1b5"),
  ("node/kafkaconsumer/recoverytracker.go:.NewRecoveryTracker", "f0d768ba1cb9"),
  ("node/kafkaconsumer/recoverytracker.go:RecoveryTracker.AddRecoveryRequest", "7827886d88ba"),
  ("node/kafkaconsumer/recoverytracker.go:RecoveryTracker.UpdateRecoveryRequest", "9ff3765c18ae")
]

def C08 : List (String × String) := [
  ("executor/message.go:.newContextMessage", "b1824b34ff9c"),
  ("executor/message.go:.newMessage", "290b91039fb5"),
  ("message/kafkamessagesender.go:KafkaMessageSender.produceMessage", "7bc7f382ec20"),
  ("message/kakfamessagereceiver.go:.NewKafkaReceiver", "dc9caeb7b203"),
  ("message/kakfamessagereceiver.go:KafkaMessageReceiver.handleEvents", "c63b83c25818"),
  ("message/kakfamessagereceiver.go:KafkaMessageReceiver.processEvent", "c25d5aae881c"),
  ("message/kakfamessagereceiver.go:KafkaMessageReceiver.processInitBuffer", "fb4778a52ab4"),
  ("message/kakfamessagereceiver.go:KafkaMessageReceiver.processMessage", "fe10f8941785"),
  ("metrics/metrics.go:Metrics.registerMessageMetrics", "5f3cd60433cc"),
  ("node/kafkaconsumer/kafkaconsumer.go:KafkaConsumer.Receive", "066d20d95c6b"),
  ("node/kafkaconsumer/kafkaconsumer.go:KafkaConsumer.Setup", "9cf71b697938"),
  ("node/kafkaconsumer/recoveryconsumer.go:.NewRecoveryConsumer", "62f4ec448a2b"),
  ("node/kafkaconsumer/recoverytracker.go:.NewRecoveryTracker", "f0d768ba1cb9"),
  ("node/kafkaconsumer/recoverytracker.go:.max", "1bd2a1118300"),
  ("node/kafkaconsumer/recoverytracker.go:.min", "9aa6f0d413d5"),
  ("node/kafkaconsumer/recoverytracker.go:RecoveryTracker.AddRecoveryRequest", "7827886d88ba"),
  ("node/kafkaconsumer/recoverytracker.go:RecoveryTracker.GetRecoveryRequest", "1008441a3a20"),
  ("node/kafkaconsumer/recoverytracker.go:RecoveryTracker.MarkRecoveryComplete", "f6674f9ecbcf"),
  ("node/kafkaconsumer/recoverytracker.go:RecoveryTracker.UpdateRecoveryRequest", "9ff3765c18ae"),
  ("node/kafkaconsumer/recoverytracker.go:RecoveryTracker.cancelAll", "dbf023086b78"),
  ("node/kafkaconsumer/recoverytracker.go:RecoveryTracker.receiveRequest", "917ada5b6d22"),
  ("node/kafkaconsumer/recoverytracker.go:RecoveryTracker.sendRecoveryRequests", "a9c937d6e000")
]

def C09 : List (String × String) := [
  ("executor/message.go:.newContextMessage", "b1824b34ff9c"),
  ("executor/message.go:.newMessage", "290b91039fb5"),
  ("message/kafkamessagesender.go:KafkaMessageSender.produceMessage", "7bc7f382ec20"),
  ("message/kakfamessagereceiver.go:.NewKafkaReceiver", "dc9caeb7b203"),
  ("message/kakfamessagereceiver.go:KafkaMessageReceiver.handleEvents", "c63b83c25818"),
  ("message/kakfamessagereceiver.go:KafkaMessageReceiver.processEvent", "c25d5aae881c"),
  ("message/kakfamessagereceiver.go:KafkaMessageReceiver.processInitBuffer", "fb4778a52ab4"),
  ("message/kakfamessagereceiver.go:KafkaMessageReceiver.processMessage", "fe10f8941785"),
  ("metrics/metrics.go:Metrics.registerMessageMetrics", "5f3cd60433cc"),
  ("node/kafkaconsumer/consumermetrics.go:Metrics.RegisterConsumerMetrics", "bf44d339cad3"),
  ("node/kafkaconsumer/kafkaconsumer.go:KafkaConsumer.Receive", "066d20d95c6b"),
  ("node/kafkaconsumer/kafkaconsumer.go:KafkaConsumer.Setup", "9cf71b697938"),
  ("node/kafkaconsumer/kafkaconsumer.go:KafkaConsumer.Shutdown", "9a72d7f08b17"),
  ("node/kafkaconsumer/kafkaconsumer.go:KafkaConsumer.Start", "3835994f3828"),
  ("node/kafkaconsumer/kafkaconsumer.go:KafkaConsumer.revokePartitionAssignments", "4fb96ae21207"),
  ("node/kafkaconsumer/recoveryconsumer.go:.NewRecoveryConsumer", "62f4ec448a2b"),
  ("node/kafkaconsumer/recoveryconsumer.go:RecoveryConsumer.RefreshAssignments", "3a7f60ec8a0d"),
  ("node/kafkaconsumer/recoveryconsumer.go:RecoveryConsumer.SetAssignedPartitions", "81a74a566fec"),
  ("node/kafkaconsumer/recoveryconsumer.go:RecoveryConsumer.partitionAssignmentsChanged", "2bf932c114d4"),
  ("node/kafkaconsumer/recoveryconsumer.go:RecoveryConsumer.recoverSingleEvent", "5cdc79d28d08"),
  ("node/kafkaconsumer/recoveryconsumer.go:RecoveryConsumer.setActivePartitionMap", "6b140bafc1b5"),
  ("node/kafkaconsumer/recoverytracker.go:RecoveryTracker.AddRecoveryRequest", "7827886d88ba"),
  ("node/kafkaconsumer/recoverytracker.go:RecoveryTracker.UpdateRecoveryRequest", "9ff3765c18ae"),
  ("node/kafkaconsumer/recoverytracker.go:RecoveryTracker.sendRecoveryRequests", "a9c937d6e000")
]

def C10 : List (String × String) := [
  ("executor/message.go:.newContextMessage", "b1824b34ff9c"),
  ("executor/message.go:.newMessage", "290b91039fb5"),
  ("executor/message.go:Executor.InitMessaging", "fe5de4957edf"),
  ("executor/message.go:Executor.StartMessaging", "1b3f7a9b60b8"),
  ("executor/message.go:Executor.initMessagingKafka", "49133e5e9abf"),
  ("message/kafkamessagesender.go:KafkaMessageSender.produceMessage", "7bc7f382ec20"),
  ("message/kafkamessagewire.go:.uniqueKey", "93b850f419f2"),
  ("message/kakfamessagereceiver.go:.NewKafkaReceiver", "dc9caeb7b203"),
  ("message/kakfamessagereceiver.go:KafkaMessageReceiver.Initialized", "a80760eed9cc"),
  ("message/kakfamessagereceiver.go:KafkaMessageReceiver.SetNotificationFunc", "5e5d8339993e"),
  ("message/kakfamessagereceiver.go:KafkaMessageReceiver.Shutdown", "fa4e2b6b4c5c"),
  ("message/kakfamessagereceiver.go:KafkaMessageReceiver.Start", "478b344d38d4"),
  ("message/kakfamessagereceiver.go:KafkaMessageReceiver.buildPartitionAssignments", "78ad7b6991af"),
  ("message/kakfamessagereceiver.go:KafkaMessageReceiver.deliverMessage", "53ced367e20e"),
  ("message/kakfamessagereceiver.go:KafkaMessageReceiver.handleEvents", "c63b83c25818"),
  ("message/kakfamessagereceiver.go:KafkaMessageReceiver.processEvent", "c25d5aae881c"),
  ("message/kakfamessagereceiver.go:KafkaMessageReceiver.processInitBuffer", "fb4778a52ab4"),
  ("message/kakfamessagereceiver.go:KafkaMessageReceiver.processMessage", "fe10f8941785"),
  ("metrics/metrics.go:Metrics.registerMessageMetrics", "5f3cd60433cc"),
  ("node/kafkaconsumer/kafkaconsumer.go:KafkaConsumer.Setup", "9cf71b697938"),
  ("node/kafkaconsumer/recoveryconsumer.go:.NewRecoveryConsumer", "62f4ec448a2b"),
  ("node/kafkaconsumer/recoverytracker.go:RecoveryTracker.sendRecoveryRequests", "a9c937d6e000")
]

def C11 : List (String × String) := [
  ("executor/executor.go:.WithConfig", "2ba7d58d1309"),
  ("executor/executor.go:.findMatchingNode", "982e35b245b8"),
  ("executor/executor.go:Executor.FindNodeByID", "05210193aab8"),
  ("executor/executor.go:Executor.GetSource", "d58960e9eb21"),
  ("executor/executor.go:Executor.prepareSource", "e44671e72cf8"),
  ("executor/message.go:.newContextMessage", "b1824b34ff9c"),
  ("executor/message.go:.newMessage", "290b91039fb5"),
  ("executor/message.go:Executor.InitMessaging", "fe5de4957edf"),
  ("executor/message.go:Executor.deliverMessage", "341a4fca8fc8"),
  ("executor/message.go:Executor.deliverMessageToNode", "335d0c923379"),
  ("executor/message.go:Executor.initMessagingKafka", "49133e5e9abf"),
  ("executor/message.go:errorList.addError", "0a51892189f1"),
  ("fbcontext/fbcontext.go:.NewFBContext", "3b98f80de04d"),
  ("fbcontext/fbcontext.go:Context.AckMessage", "032deed44058"),
  ("fbcontext/fbcontext.go:Context.ConfigureMessaging", "eb5809e85127"),
  ("fbcontext/fbcontext.go:Context.SendMessage", "97a60ddf1a3c"),
  ("fbcontext/fbcontext.go:ContextAware.AcceptsMessage", "e1cc090c4b1d"),
  ("fbcontext/fbcontext.go:ContextAware.Init", "9da6e2a6cc1a"),
  ("fbcontext/fbcontext.go:ContextAware.Subscribe", "4349dfe5aa18"),
  ("message/kafkamessagesender.go:KafkaMessageSender.produceMessage", "7bc7f382ec20"),
  ("node/kafkaconsumer/recoverytracker.go:RecoveryTracker.sendRecoveryRequests", "a9c937d6e000"),
  ("node/node.go:.InitNodeContextHierarchy", "49e126bee875")
]

def C12 : List (String × String) := [
  ("executor/message.go:.ackMessage", "941801eb4fb3"),
  ("executor/message.go:.newContextMessage", "b1824b34ff9c"),
  ("executor/message.go:.newMessage", "290b91039fb5"),
  ("executor/message.go:.sendMessage", "96863c29ceb4"),
  ("message/kafkamessagesender.go:.NewKafkaMessageSender", "b921314203c4"),
  ("message/kafkamessagesender.go:KafkaMessageSender.Ack", "ed1346c5f7eb"),
  ("message/kafkamessagesender.go:KafkaMessageSender.Send", "861563d54724"),
  ("message/kafkamessagesender.go:KafkaMessageSender.Shutdown", "3bb54677eaa7"),
  ("message/kafkamessagesender.go:KafkaMessageSender.produceMessage", "7bc7f382ec20"),
  ("message/kafkamessagewire.go:.uniqueKey", "93b850f419f2"),
  ("message/kakfamessagereceiver.go:.NewKafkaReceiver", "dc9caeb7b203"),
  ("message/kakfamessagereceiver.go:KafkaMessageReceiver.processEvent", "c25d5aae881c"),
  ("message/kakfamessagereceiver.go:KafkaMessageReceiver.processInitBuffer", "fb4778a52ab4"),
  ("message/kakfamessagereceiver.go:KafkaMessageReceiver.processMessage", "fe10f8941785"),
  ("message/message.go:.GetSender", "e537de88e36d"),
  ("message/message.go:.InitKafkaSender", "31ee076b2d27"),
  ("message/message.go:.ShutdownKafkaSender", "90e0dcf0631f"),
  ("metrics/metrics.go:Metrics.registerMessageMetrics", "5f3cd60433cc"),
  ("node/kafkaconsumer/recoverytracker.go:RecoveryTracker.sendRecoveryRequests", "a9c937d6e000"),
  ("node/kafkaproducer/kafkaproducer.go:KafkaProducer.Process", "15b714a1ced4"),
  ("node/kafkaproducer/kafkaproducer.go:KafkaProducer.Produce", "84777a6f832c"),
  ("node/kafkaproducer/kafkaproducer.go:KafkaProducer.Setup", "9f1e87fec2b4")
]

def C13 : List (String × String) := [
  ("config/config.go:.Read", "407429d8ba42"),
  ("config/config.go:.assignNodeConfigDefaults", "46620181ff48"),
  ("config/config.go:.setDefaults", "489eae19bb00"),
  ("config/config.go:.validate", "faae6a856158"),
  ("config/config.go:.validateErrorHandlerConfig", "34052087642b"),
  ("config/config.go:.validateInternalDataConfig", "049609a821df"),
  ("config/config.go:.validateNodeConfig", "f7ed8810d5b4"),
  ("config/config.go:.validateSourceConfig", "1bb646cbc21b"),
  ("config/config.go:.validateUniqueID", "a5d37ed91fa9"),
  ("node/node.go:.InitNodeContextHierarchy", "49e126bee875"),
  ("node/registry.go:Registry.GetNodeRegistration", "9c81eea49f7f"),
  ("node/registry.go:Registry.GetSourceRegistration", "fca28df97a67"),
  ("node/registry.go:Registry.RegisterNodeType", "dca01f35809b"),
  ("node/registry.go:Registry.RegisterSourceType", "6f32e52f77c9")
]

def C14 : List (String × String) := [
  ("event.go:.NewAsyncEvent", "45ee2ce200ca"),
  ("metrics/metrics.go:Metrics.registerNodeMetrics", "f4d4c8ad6eb3"),
  ("node/elasticsearch/elastic_index_client.go:.NewElasticIndexClient", "807dedd4edbc"),
  ("node/elasticsearch/elastic_index_client.go:ElasticIndexClient.Run", "3fcf2a804898"),
  ("node/elasticsearch/elastic_index_client.go:ElasticIndexClient.Send", "9cc6a8058bbe"),
  ("node/elasticsearch/elastic_index_client.go:ElasticIndexClient.Stop", "50dce3e81320"),
  ("node/elasticsearch/elastic_index_client.go:ElasticIndexClient.batch", "59d220a1611f"),
  ("node/elasticsearch/elastic_index_client.go:ElasticIndexClient.doBulkIndex", "4d46e2da1e71"),
  ("node/elasticsearch/elastic_index_client.go:ElasticIndexClient.handleErrorResponses", "5c976ed28035"),
  ("node/elasticsearch/elastic_index_client.go:ElasticIndexClient.retryBulkIndex", "a00bc415ca97"),
  ("node/elasticsearch/elasticsearch.go:Elasticsearch.ProcessAsync", "d4140726be01"),
  ("node/elasticsearch/elasticsearch.go:Elasticsearch.Setup", "00f0a171ab12"),
  ("node/elasticsearch/elasticsearch.go:Elasticsearch.Shutdown", "3a84f9ac1e21"),
  ("node/elasticsearch/metrics.go:Metrics.RegisterElasticIndexMetrics", "1ad5646f13be"),
  ("node/node.go:.InitNodeContextHierarchy", "49e126bee875"),
  ("node/node.go:Context.invokeProcessorAsync", "bf5ad9453a5d")
]

def C15 : List (String × String) := [
  ("error.go:.NewEventError", "fc0b3d1b4a67"),
  ("error.go:.NewFBError", "88edeaca888f"),
  ("error.go:EventError.MarshalJSON", "1c42234484c4"),
  ("message/kafkamessagesender.go:KafkaMessageSender.produceMessage", "7bc7f382ec20"),
  ("metrics/metrics.go:Metrics.registerNodeMetrics", "f4d4c8ad6eb3"),
  ("node/kafkaproducer/errorproducer.go:ErrorProducer.Process", "934e2c476ae6"),
  ("node/kafkaproducer/kafkaproducer.go:KafkaProducer.Process", "15b714a1ced4"),
  ("node/kafkaproducer/kafkaproducer.go:KafkaProducer.Produce", "84777a6f832c"),
  ("node/kafkaproducer/kafkaproducer.go:KafkaProducer.Setup", "9f1e87fec2b4"),
  ("node/kafkaproducer/kafkaproducer.go:KafkaProducer.Shutdown", "2d6e4c8e0602"),
  ("node/kafkaproducer/kafkaproducer.go:KafkaProducer.startEventsReceiver", "831565848a35"),
  ("node/kafkaproducer/kafkaproducer.go:KafkaProducer.stop", "8f54a35d86cd"),
  ("node/node.go:.InitNodeContextHierarchy", "49e126bee875"),
  ("node/node.go:Context.handleFailure", "d5c24af5db77")
]

def C16 : List (String × String) := [
  ("metrics/metrics.go:.Get", "af6a0eed2b0c"),
  ("metrics/metrics.go:.Init", "eacbf8130089"),
  ("metrics/metrics.go:.Node", "70560f66211e"),
  ("metrics/metrics.go:Metrics.registerNodeMetrics", "f4d4c8ad6eb3"),
  ("node/node.go:.InitNodeContextHierarchy", "49e126bee875"),
  ("node/node.go:Context.ProcessEvent", "e06175cfb7dc"),
  ("node/node.go:Context.deliverToChild", "229ab2e2dc27"),
  ("node/node.go:Context.handleFailure", "d5c24af5db77"),
  ("node/node.go:Context.handleResult", "65f9795b17c9"),
  ("node/node.go:Context.invokeProcessorFanout", "e41f16884b20"),
  ("node/node.go:Context.invokeProcessorSync", "352112826b27")
]

def C17 : List (String × String) := [
  ("config/config.go:.Read", "407429d8ba42"),
  ("config/config.go:.assignNodeConfigDefaults", "46620181ff48"),
  ("executor/executor.go:.WithConfig", "2ba7d58d1309"),
  ("executor/executor.go:.waitTimeout", "c13854457397"),
  ("executor/executor.go:Executor.Execute", "178207774c76"),
  ("executor/executor.go:Executor.SendMessage", "c85711cf7a79"),
  ("executor/executor.go:Executor.runNode", "16fae3758dbd"),
  ("executor/executor.go:Executor.stopWorkers", "a69bb3b99459"),
  ("executor/message.go:.ackMessage", "941801eb4fb3"),
  ("executor/message.go:.sendMessage", "96863c29ceb4"),
  ("message/kafkamessagesender.go:.NewKafkaMessageSender", "b921314203c4"),
  ("message/kafkamessagesender.go:KafkaMessageSender.Shutdown", "3bb54677eaa7"),
  ("message/kafkamessagesender.go:KafkaMessageSender.produceMessage", "7bc7f382ec20"),
  ("message/kakfamessagereceiver.go:.NewKafkaReceiver", "dc9caeb7b203"),
  ("message/kakfamessagereceiver.go:KafkaMessageReceiver.Shutdown", "fa4e2b6b4c5c"),
  ("message/message.go:.GetSender", "e537de88e36d"),
  ("message/message.go:.InitKafkaSender", "31ee076b2d27"),
  ("message/message.go:.ShutdownKafkaSender", "90e0dcf0631f"),
  ("metrics/metrics.go:Metrics.registerNodeMetrics", "f4d4c8ad6eb3"),
  ("node/kafkaconsumer/recoveryconsumer.go:.NewRecoveryConsumer", "62f4ec448a2b"),
  ("node/kafkaproducer/kafkaproducer.go:KafkaProducer.Setup", "9f1e87fec2b4"),
  ("node/kafkaproducer/kafkaproducer.go:KafkaProducer.Shutdown", "2d6e4c8e0602"),
  ("node/kafkaproducer/kafkaproducer.go:KafkaProducer.stop", "8f54a35d86cd"),
  ("node/node.go:.InitNodeContextHierarchy", "49e126bee875")
]

def C18 : List (String × String) := [
  ("config/config.go:.Read", "407429d8ba42"),
  ("executor/executor.go:.WithConfig", "2ba7d58d1309"),
  ("executor/executor.go:Executor.Execute", "178207774c76"),
  ("executor/executor.go:Executor.prepareSource", "e44671e72cf8"),
  ("executor/executor.go:Executor.superviseSource", "80a76260b5bc"),
  ("leader/leader.go:.NewLeader", "2f84d6a591e6"),
  ("leader/leader.go:Leader.stopElection", "3da372feaace"),
  ("leader/leader.go:Leader.updateLeadership", "8fa7538a9eed"),
  ("message/kakfamessagereceiver.go:.NewKafkaReceiver", "dc9caeb7b203"),
  ("metrics/metrics.go:Metrics.registerNodeMetrics", "f4d4c8ad6eb3"),
  ("node/kafkaconsumer/kafkaconsumer.go:KafkaConsumer.Setup", "9cf71b697938"),
  ("node/kafkaconsumer/kafkaconsumer.go:KafkaConsumer.revokePartitionAssignments", "4fb96ae21207"),
  ("node/kafkaconsumer/recoveryconsumer.go:.NewRecoveryConsumer", "62f4ec448a2b"),
  ("node/node.go:.InitNodeContextHierarchy", "49e126bee875"),
  ("node/registry.go:Registry.InstantiateSource", "e04754230c24"),
  ("node/registry.go:Registry.RegisterNodeType", "dca01f35809b"),
  ("node/registry.go:Registry.RegisterSourceType", "6f32e52f77c9")
]

def C19 : List (String × String) := [
  ("message/kafkamessagesender.go:KafkaMessageSender.produceMessage", "7bc7f382ec20"),
  ("message/kakfamessagereceiver.go:.NewKafkaReceiver", "dc9caeb7b203"),
  ("metrics/metrics.go:Metrics.registerSourceMetrics", "7682ab4ef90e"),
  ("node/kafkaconsumer/consumermetrics.go:Metrics.RegisterConsumerMetrics", "bf44d339cad3"),
  ("node/kafkaconsumer/kafkaconsumer.go:KafkaConsumer.Setup", "9cf71b697938"),
  ("node/kafkaconsumer/kafkaconsumer.go:KafkaConsumer.Start", "3835994f3828"),
  ("node/kafkaconsumer/kafkaconsumer.go:KafkaConsumer.processEvent", "8346c15b4ebf"),
  ("node/kafkaconsumer/kafkaconsumer.go:KafkaConsumer.revokePartitionAssignments", "4fb96ae21207"),
  ("node/kafkaconsumer/recoveryconsumer.go:.NewRecoveryConsumer", "62f4ec448a2b"),
  ("node/kafkaconsumer/recoveryconsumer.go:RecoveryConsumer.RefreshAssignments", "3a7f60ec8a0d"),
  ("node/kafkaconsumer/recoveryconsumer.go:RecoveryConsumer.recoverSingleEvent", "5cdc79d28d08"),
  ("node/kafkaconsumer/recoveryconsumer.go:RecoveryConsumer.setActivePartitionMap", "6b140bafc1b5")
]

def C20 : List (String × String) := [
  ("executor/executor.go:.WithConfig", "2ba7d58d1309"),
  ("executor/executor.go:Executor.prepareSource", "e44671e72cf8"),
  ("helpers.go:Nodeconfig.Float64Config", "a2941f1af94b"),
  ("helpers.go:Nodeconfig.Float64ConfigRequired", "6193437df913"),
  ("helpers.go:Nodeconfig.IntConfig", "22db55006c57"),
  ("helpers.go:Nodeconfig.IntConfigRequired", "376b517adb59"),
  ("helpers.go:Nodeconfig.StringConfig", "7a3b09fce505"),
  ("helpers.go:Nodeconfig.StringConfigRequired", "de937f7d3692"),
  ("leader/leader.go:.NewLeader", "2f84d6a591e6"),
  ("leader/leader.go:Leader.stopElection", "3da372feaace"),
  ("leader/leader.go:Leader.updateLeadership", "8fa7538a9eed"),
  ("message/kakfamessagereceiver.go:.NewKafkaReceiver", "dc9caeb7b203"),
  ("message/kakfamessagereceiver.go:KafkaMessageReceiver.buildConfigMap", "2453683d9155"),
  ("node/kafkaconsumer/kafkaconsumer.go:KafkaConsumer.Setup", "9cf71b697938"),
  ("node/kafkaconsumer/kafkaconsumer.go:KafkaConsumer.buildConfigMap", "0a8b98e4798f"),
  ("node/kafkaconsumer/kafkaconsumer.go:KafkaConsumer.checkConfig", "ba8d6a0897e5"),
  ("node/kafkaconsumer/kafkaconsumer.go:KafkaConsumer.revokePartitionAssignments", "4fb96ae21207"),
  ("node/kafkaconsumer/recoveryconsumer.go:.NewRecoveryConsumer", "62f4ec448a2b"),
  ("node/kafkaconsumer/recoveryconsumer.go:RecoveryConsumer.buildConfigMap", "b1a4bc2ecef3"),
  ("node/kafkaproducer/kafkaproducer.go:KafkaProducer.Setup", "9f1e87fec2b4"),
  ("node/kafkaproducer/kafkaproducer.go:KafkaProducer.buildConfigMap", "50dfdeec5344"),
  ("node/kafkaproducer/kafkaproducer.go:KafkaProducer.checkConfig", "0e4a35039e37"),
  ("util/util.go:.ApplyLibrdkafkaConf", "176ce46daedd")
]

end Firebolt.ExpectedClo
