import Firebolt.Skeleton
/-! Reviewed copy of Generated/Source.lean: the function bodies the op-sequence and decision models were transcribed from, and the functions their assumptions rest on. Refresh only together with the models. -/
namespace Firebolt.ExpectedSrc
open Firebolt.Skeleton

def retryAssignPartitions : List Instr := [
  ⟨0, "func", "func(partitions []kafka.TopicPartition)"⟩,
  ⟨0, "range", "partitions"⟩,
  ⟨0, "stmt", "k.assignPartitionsMutex.Lock()"⟩,
  ⟨0, "defer", "k.assignPartitionsMutex.Unlock()"⟩,
  ⟨0, "assign", "err := k.assignPartitions(partitions)"⟩,
  ⟨0, "if", "err != nil"⟩,
  ⟨1, "assign", "ticker := time.NewTicker(3 * time.Second)"⟩,
  ⟨1, "for", ""⟩,
  ⟨2, "select", ""⟩,
  ⟨3, "case-recv", "ticker.C"⟩,
  ⟨4, "assign", "err := k.assignPartitions(partitions)"⟩,
  ⟨4, "if", "err == nil"⟩,
  ⟨5, "stmt", "ticker.Stop()"⟩,
  ⟨5, "return", ""⟩,
  ⟨3, "case-recv", "k.assignPartitionsCtx.Done()"⟩,
  ⟨4, "stmt", "ticker.Stop()"⟩,
  ⟨4, "return", ""⟩,
  ⟨0, "range", "partitions"⟩
]

def assignPartitions : List Instr := [
  ⟨0, "func", "func(partitions []kafka.TopicPartition) error"⟩,
  ⟨0, "assign", "partitionsWithOffsets, err := k.calculateAssignmentOffsets(partitions)"⟩,
  ⟨0, "if", "err != nil"⟩,
  ⟨1, "return", "err"⟩,
  ⟨0, "assign", "err = k.consumer.Assign(partitionsWithOffsets)"⟩,
  ⟨0, "if", "err != nil"⟩,
  ⟨1, "return", "err"⟩,
  ⟨0, "if", "k.recoveryConsumerEnabled"⟩,
  ⟨1, "assign", "partitionsCopy := make([]kafka.TopicPartition, len(partitionsWithOffsets))"⟩,
  ⟨1, "stmt", "copy(partitionsCopy, partitionsWithOffsets)"⟩,
  ⟨1, "stmt", "k.recoveryConsumer.SetAssignedPartitions(partitionsCopy)"⟩,
  ⟨0, "return", "nil"⟩
]

def calculateAssignmentOffsets : List Instr := [
  ⟨0, "func", "func(assignedPartitions []kafka.TopicPartition) ([]kafka.TopicPartition, error)"⟩,
  ⟨0, "assign", "maxInitialPartitionLagOffset := kafka.Offset(k.maxInitialPartitionLag)"⟩,
  ⟨0, "assign", "committedOffsets, err := k.consumer.Committed(assignedPartitions, 10000)"⟩,
  ⟨0, "if", "err != nil"⟩,
  ⟨1, "return", "nil, err"⟩,
  ⟨0, "assign", "partitions := make([]kafka.TopicPartition, len(assignedPartitions))"⟩,
  ⟨0, "range", "assignedPartitions"⟩,
  ⟨1, "assign", "partitionOffset := k.offsetForPartition(tp.Partition, committedOffsets)"⟩,
  ⟨1, "if", "partitionOffset == kafka.OffsetInvalid"⟩,
  ⟨2, "assign", "partitionOffset = kafka.Offset(0)"⟩,
  ⟨1, "assign", "low, high, err := k.consumer.QueryWatermarkOffsets(k.topic, tp.Partition, 10000)"⟩,
  ⟨1, "if", "err != nil"⟩,
  ⟨2, "return", "nil, err"⟩,
  ⟨1, "if", "kafka.Offset(high)-partitionOffset > maxInitialPartitionLagOffset"⟩,
  ⟨2, "if", "maxInitialPartitionLagOffset > kafka.Offset(high)"⟩,
  ⟨3, "assign", "partitionOffset = 0"⟩,
  ⟨2, "else", ""⟩,
  ⟨3, "assign", "offsetWithCappedLag := kafka.Offset(high) - maxInitialPartitionLagOffset"⟩,
  ⟨3, "if", "k.recoveryConsumerEnabled"⟩,
  ⟨4, "stmt", "k.recoveryConsumer.RequestRecovery(tp.Partition, partitionOffset, offsetWithCappedLag)"⟩,
  ⟨3, "assign", "partitionOffset = offsetWithCappedLag"⟩,
  ⟨1, "else", ""⟩,
  ⟨1, "assign", "tp.Offset = partitionOffset"⟩,
  ⟨1, "assign", "partitions[i] = tp"⟩,
  ⟨0, "return", "partitions, nil"⟩
]

def offsetForPartition : List Instr := [
  ⟨0, "func", "func(partition int32, offsets []kafka.TopicPartition) kafka.Offset"⟩,
  ⟨0, "range", "offsets"⟩,
  ⟨1, "if", "tp.Partition == partition"⟩,
  ⟨2, "return", "tp.Offset"⟩,
  ⟨0, "return", "0"⟩
]

def requestRecovery : List Instr := [
  ⟨0, "func", "func(partitionID int32, fromOffset kafka.Offset, toOffset kafka.Offset)"⟩,
  ⟨0, "assign", "from := int64(fromOffset)"⟩,
  ⟨0, "assign", "to := int64(toOffset)"⟩,
  ⟨0, "if", "to-from > int64(rc.maxRecordsToRecover)"⟩,
  ⟨1, "assign", "from = to - int64(rc.maxRecordsToRecover)"⟩,
  ⟨0, "assign", "err := rc.tracker.AddRecoveryRequest(partitionID, from, to)"⟩,
  ⟨0, "if", "err != nil"⟩
]

def newRecoveryConsumer : List Instr := [
  ⟨0, "func", "func(topic string, sendCh chan firebolt.Event, config map[string]string, metrics *Metrics, ctx fbcontext.FBContext) (*RecoveryConsumer, error)"⟩,
  ⟨0, "assign", "maxRecordsToRecover, err := strconv.Atoi(config[\"parallelrecoverymaxrecords\"])"⟩,
  ⟨0, "if", "err != nil"⟩,
  ⟨1, "return", "nil, errors.New(\"recoveryconsumer: failed to convert config 'parallelrecoverymaxrecords' to integer\")"⟩,
  ⟨0, "assign", "maxRecordsPerSec, err := strconv.Atoi(config[\"parallelrecoverymaxrate\"])"⟩,
  ⟨0, "if", "err != nil"⟩,
  ⟨1, "return", "nil, errors.New(\"recoveryconsumer: failed to convert config 'parallelrecoverymaxrate' to integer\")"⟩,
  ⟨0, "assign", "r := &RecoveryConsumer{ topic: topic, sendCh: sendCh, doneCh: make(chan struct{}), assignedPartitions: []kafka.TopicPartition{}, maxRecordsToRecover: maxRecordsToRecover, maxRecordsPerSec: maxRecordsPerSec, updateRequestEvery: int64(updateRecoveryRequestSeconds * maxRecordsPerSec), rateLimiter: rate.NewLimiter(rate.Limit(maxRecordsPerSec), 100), ctx: context.Background(), metrics: metrics, refreshTicker: time.NewTicker(refreshPeriodMs * time.Millisecond), }"⟩,
  ⟨0, "assign", "rt, err := NewRecoveryTracker(metrics, ctx)"⟩,
  ⟨0, "if", "err != nil"⟩,
  ⟨1, "return", "nil, err"⟩,
  ⟨0, "assign", "r.tracker = rt"⟩,
  ⟨0, "assign", "configMap, err := r.buildConfigMap(config)"⟩,
  ⟨0, "if", "err != nil"⟩,
  ⟨1, "return", "nil, err"⟩,
  ⟨0, "assign", "c, err := kafka.NewConsumer(configMap)"⟩,
  ⟨0, "if", "err != nil"⟩,
  ⟨1, "return", "nil, err"⟩,
  ⟨0, "assign", "r.consumer = c"⟩,
  ⟨0, "go", "r.handleEvents()"⟩,
  ⟨0, "go", "func() { for t := range r.refreshTicker.C { log.WithField(\"refresh_time\", t).Debug(\"recoveryconsumer: refreshing partition assignments\") err := r.RefreshAssignments() if err != nil { log.WithError(err).Error(\"recoveryconsumer: failed to refresh assignments\") } } }()"⟩,
  ⟨0, "return", "r, nil"⟩
]

def rcHandleEvents : List Instr := [
  ⟨0, "func", "func()"⟩,
  ⟨0, "for", ""⟩,
  ⟨1, "select", ""⟩,
  ⟨2, "case-recv:=", "rc.consumer.Events()"⟩,
  ⟨3, "if", "event == nil"⟩,
  ⟨4, "return", ""⟩,
  ⟨3, "stmt", "rc.processEvent(event)"⟩,
  ⟨2, "case-recv", "rc.doneCh"⟩,
  ⟨3, "return", ""⟩
]

def rcProcessEvent : List Instr := [
  ⟨0, "func", "func(ev kafka.Event)"⟩,
  ⟨0, "typeswitch", "e := ev.(type)"⟩,
  ⟨1, "case", "*kafka.Message"⟩,
  ⟨2, "stmt", "rc.recoverSingleEvent(e)"⟩,
  ⟨1, "case", "kafka.Error"⟩,
  ⟨2, "stmt", "rc.processError(e.Code())"⟩
]

def rcProcessError : List Instr := [
  ⟨0, "func", "func(e kafka.ErrorCode)"⟩,
  ⟨0, "if", "e == kafka.ErrInvalidMsg || e == kafka.ErrOffsetOutOfRange"⟩,
  ⟨1, "stmt", "func() { log.WithField(\"kafka_error\", e.String()).Info(\"recoveryconsumer: received invalid message error, resetting from_offsets based on low watermarks\") rc.partitionAssignmentLock.Lock() defer rc.partitionAssignmentLock.Unlock() activePartitions := rc.activePartitionMap rc.setActivePartitionMap(make(map[int32]partitionRecoveryState)) log.WithField(\"active_partition_count\", len(activePartitions)).Info(\"recoveryconsumer: checking partitions after invalid message error\") for _, partition := range activePartitions { low, _, err := rc.consumer.QueryWatermarkOffsets(rc.topic, partition.partition.Partition, 10000) if err != nil { log.WithError(err).Error(\"recoveryconsumer: failed to query watermark offsets\") return } log.WithField(\"partition_id\", partition.partition.Partition).WithField(\"offset_low\", low).WithField(\"from_offset\", partition.fromOffset).WithField(\"to_offset\", partition.toOffset).Info(\"recoveryconsumer: while handling message error, got watermark offsets for partition\") if partition.fromOffset < low { if low >= partition.toOffset { log.WithField(\"partition_id\", partition.partition.Partition).WithField(\"offset_low\", low).WithField(\"to_offset\", partition.toOffset).Info(\"recoveryconsumer: cancelling recovery request after broker log truncation\") err := rc.tracker.MarkRecoveryComplete(partition.partition.Partition, partition.toOffset) if err != nil { log.WithError(err).Error(\"recoveryconsumer: failed to mark recovery request complete\") } } else { log.WithField(\"partition_id\", partition.partition.Partition).WithField(\"offset_low\", low).WithField(\"from_offset\", partition.fromOffset).Info(\"recoveryconsumer: updating recovery request after broker log truncation\") err := rc.tracker.UpdateRecoveryRequest(partition.partition.Partition, low, partition.toOffset) if err != nil { log.WithError(err).Error(\"recoveryconsumer: failed to update recovery request\") } } } } }()"⟩
]

def rcRecoverSingleEvent : List Instr := [
  ⟨0, "func", "func(e *kafka.Message)"⟩,
  ⟨0, "decl", "var ( recoveryState partitionRecoveryState partitionIsInRecovery bool remainingEventsToRecover int64 )"⟩,
  ⟨0, "stmt", "func() { rc.partitionAssignmentLock.RLock() defer rc.partitionAssignmentLock.RUnlock() recoveryState, partitionIsInRecovery = rc.activePartitionMap[e.TopicPartition.Partition] remainingEventsToRecover = recoveryState.toOffset - int64(e.TopicPartition.Offset) }()"⟩,
  ⟨0, "if", "!partitionIsInRecovery"⟩,
  ⟨1, "return", ""⟩,
  ⟨0, "if", "int64(e.TopicPartition.Offset) < recoveryState.fromOffset"⟩,
  ⟨1, "return", ""⟩,
  ⟨0, "if", "remainingEventsToRecover <= 0"⟩,
  ⟨1, "assign", "err := rc.tracker.MarkRecoveryComplete(e.TopicPartition.Partition, recoveryState.toOffset)"⟩,
  ⟨1, "if", "err != nil"⟩,
  ⟨1, "assign", "err = rc.RefreshAssignments()"⟩,
  ⟨1, "if", "err != nil"⟩,
  ⟨1, "return", ""⟩,
  ⟨0, "if", "int64(e.TopicPartition.Offset) >= recoveryState.fromOffset"⟩,
  ⟨1, "assign", "err := rc.rateLimiter.Wait(rc.ctx)"⟩,
  ⟨1, "if", "err != nil"⟩,
  ⟨1, "assign", "recoveryState.fromOffset = int64(e.TopicPartition.Offset)"⟩,
  ⟨1, "stmt", "rc.metrics.RecoveryEvents.WithLabelValues(strconv.Itoa(int(e.TopicPartition.Partition))).Inc()"⟩,
  ⟨1, "send", "rc.sendCh <- firebolt.Event{ Payload: e.Value, Created: time.Now(), Recovery: true, }"⟩,
  ⟨0, "if", "int64(e.TopicPartition.Offset)%rc.updateRequestEvery == 0 && remainingEventsToRecover > 0"⟩,
  ⟨1, "assign", "err := rc.tracker.UpdateRecoveryRequest(e.TopicPartition.Partition, int64(e.TopicPartition.Offset), recoveryState.toOffset)"⟩,
  ⟨1, "if", "err != nil"⟩
]

def refreshAssignments : List Instr := [
  ⟨0, "func", "func() error"⟩,
  ⟨0, "stmt", "rc.partitionAssignmentLock.Lock()"⟩,
  ⟨0, "defer", "rc.partitionAssignmentLock.Unlock()"⟩,
  ⟨0, "assign", "recoveryCandidates := make(map[int32]partitionRecoveryState)"⟩,
  ⟨0, "range", "rc.assignedPartitions"⟩,
  ⟨1, "assign", "recoveryRequest := rc.tracker.GetRecoveryRequest(partition.Partition)"⟩,
  ⟨1, "assign", "recoveryState, partitionIsInRecovery := rc.activePartitionMap[partition.Partition]"⟩,
  ⟨1, "if", "recoveryRequest != nil"⟩,
  ⟨2, "assign", "fromOffset := recoveryRequest.FromOffset"⟩,
  ⟨2, "if", "partitionIsInRecovery && recoveryState.toOffset == recoveryRequest.ToOffset && recoveryState.fromOffset > fromOffset"⟩,
  ⟨3, "assign", "fromOffset = recoveryState.fromOffset"⟩,
  ⟨2, "assign", "recoveryPartition := kafka.TopicPartition{ Topic: partition.Topic, Partition: partition.Partition, Offset: kafka.Offset(fromOffset), }"⟩,
  ⟨2, "assign", "recoveryState := partitionRecoveryState{ partition: recoveryPartition, fromOffset: fromOffset, toOffset: recoveryRequest.ToOffset, }"⟩,
  ⟨2, "assign", "recoveryCandidates[partition.Partition] = recoveryState"⟩,
  ⟨0, "if", "rc.partitionAssignmentsChanged(recoveryCandidates)"⟩,
  ⟨1, "assign", "err := rc.consumer.Unassign()"⟩,
  ⟨1, "if", "err != nil"⟩,
  ⟨1, "for", "len(rc.consumer.Events()) > 0"⟩,
  ⟨2, "stmt", "<-rc.consumer.Events()"⟩,
  ⟨1, "decl", "var partitionsToAssign []kafka.TopicPartition"⟩,
  ⟨1, "range", "recoveryCandidates"⟩,
  ⟨2, "stmt", "rc.tracker.logRecoveryRequests(partition.partition.Partition)"⟩,
  ⟨2, "assign", "partitionsToAssign = append(partitionsToAssign, partition.partition)"⟩,
  ⟨1, "stmt", "rc.setActivePartitionMap(recoveryCandidates)"⟩,
  ⟨1, "return", "rc.consumer.Assign(partitionsToAssign)"⟩,
  ⟨0, "return", "nil"⟩
]

def partitionAssignmentsChanged : List Instr := [
  ⟨0, "func", "func(candidates map[int32]partitionRecoveryState) bool"⟩,
  ⟨0, "if", "len(candidates) == len(rc.activePartitionMap)"⟩,
  ⟨1, "range", "candidates"⟩,
  ⟨2, "assign", "activePartitionRecoveryState, ok := rc.activePartitionMap[candidate.partition.Partition]"⟩,
  ⟨2, "if", "!ok"⟩,
  ⟨3, "return", "true"⟩,
  ⟨2, "if", "candidate.toOffset != activePartitionRecoveryState.toOffset"⟩,
  ⟨3, "return", "true"⟩,
  ⟨1, "return", "false"⟩,
  ⟨0, "return", "true"⟩
]

def setActivePartitionMap : List Instr := [
  ⟨0, "func", "func(partitions map[int32]partitionRecoveryState)"⟩,
  ⟨0, "range", "rc.activePartitionMap"⟩,
  ⟨1, "stmt", "rc.metrics.RecoveryRemaining.WithLabelValues(strconv.Itoa(int(partition.partition.Partition))).Set(0.0)"⟩,
  ⟨0, "assign", "rc.activePartitionMap = partitions"⟩,
  ⟨0, "stmt", "rc.metrics.RecoveryPartitions.Set(float64(len(partitions)))"⟩
]

def setAssignedPartitions : List Instr := [
  ⟨0, "func", "func(partitions []kafka.TopicPartition)"⟩,
  ⟨0, "stmt", "rc.partitionAssignmentLock.Lock()"⟩,
  ⟨0, "defer", "rc.partitionAssignmentLock.Unlock()"⟩,
  ⟨0, "assign", "rc.assignedPartitions = partitions"⟩
]

def kcProcessEvent : List Instr := [
  ⟨0, "func", "func(ev kafka.Event)"⟩,
  ⟨0, "typeswitch", "e := ev.(type)"⟩,
  ⟨1, "case", "kafka.AssignedPartitions"⟩,
  ⟨2, "go", "k.retryAssignPartitions(e.Partitions)"⟩,
  ⟨1, "case", "kafka.RevokedPartitions"⟩,
  ⟨2, "stmt", "k.revokePartitionAssignments()"⟩,
  ⟨1, "case", "*kafka.Message"⟩,
  ⟨2, "send", "k.sendCh <- firebolt.Event{ Payload: e.Value, Created: time.Now(), Recovery: false, }"⟩,
  ⟨2, "stmt", "metrics.Source().EventsEmitted.Inc()"⟩,
  ⟨2, "stmt", "k.metrics.EventsConsumed.WithLabelValues(strconv.Itoa(int(e.TopicPartition.Partition))).Inc()"⟩,
  ⟨1, "case", "kafka.Error"⟩,
  ⟨1, "case", "*kafka.Stats"⟩,
  ⟨2, "stmt", "k.metrics.UpdateConsumerMetrics(e.String(), k.topic)"⟩
]

def revokePartitionAssignments : List Instr := [
  ⟨0, "func", "func()"⟩,
  ⟨0, "stmt", "k.assignPartitionsCancel()"⟩,
  ⟨0, "stmt", "k.assignPartitionsMutex.Lock()"⟩,
  ⟨0, "defer", "func() { k.assignPartitionsMutex.Unlock() k.assignPartitionsCtx, k.assignPartitionsCancel = context.WithCancel(context.Background()) }()"⟩,
  ⟨0, "assign", "err := k.consumer.Unassign()"⟩,
  ⟨0, "if", "err != nil"⟩,
  ⟨0, "if", "k.recoveryConsumerEnabled"⟩,
  ⟨1, "stmt", "k.recoveryConsumer.SetAssignedPartitions([]kafka.TopicPartition{})"⟩,
  ⟨1, "assign", "err := k.recoveryConsumer.RefreshAssignments()"⟩,
  ⟨1, "if", "err != nil"⟩
]

def kcReceive : List Instr := [
  ⟨0, "func", "func(msg fbcontext.Message) error"⟩,
  ⟨0, "if", "!k.recoveryConsumerEnabled"⟩,
  ⟨1, "return", "nil"⟩,
  ⟨0, "if", "msg.MessageType == messageTypeRecoveryRequest"⟩,
  ⟨1, "stmt", "k.recoveryConsumer.tracker.receiveRequest(msg.Key, msg.Payload)"⟩,
  ⟨1, "return", "nil"⟩,
  ⟨0, "if", "msg.MessageType == messageTypeCancelRecovery"⟩,
  ⟨1, "assign", "err := k.recoveryConsumer.tracker.cancelAll()"⟩,
  ⟨1, "if", "err != nil"⟩,
  ⟨2, "return", "err"⟩,
  ⟨1, "return", "k.Ctx.AckMessage(msg)"⟩,
  ⟨0, "return", "fmt.Errorf(\"kafkaconsumer: unexpected messagetype %s\", msg.MessageType)"⟩
]

def getRecoveryRequest : List Instr := [
  ⟨0, "func", "func(partitionID int32) *RecoveryRequest"⟩,
  ⟨0, "stmt", "rt.requestLock.RLock()"⟩,
  ⟨0, "defer", "rt.requestLock.RUnlock()"⟩,
  ⟨0, "assign", "requests := rt.recoveryRequests[partitionID]"⟩,
  ⟨0, "if", "requests != nil && len(requests.Requests) > 0"⟩,
  ⟨1, "return", "requests.Requests[0]"⟩,
  ⟨0, "return", "nil"⟩
]

def addRecoveryRequest : List Instr := [
  ⟨0, "func", "func(partitionID int32, fromOffset int64, toOffset int64) error"⟩,
  ⟨0, "stmt", "rt.requestLock.Lock()"⟩,
  ⟨0, "defer", "rt.requestLock.Unlock()"⟩,
  ⟨0, "assign", "requests := rt.recoveryRequests[partitionID]"⟩,
  ⟨0, "if", "requests == nil"⟩,
  ⟨1, "assign", "requests = &RecoveryRequests{}"⟩,
  ⟨1, "assign", "rt.recoveryRequests[partitionID] = requests"⟩,
  ⟨0, "assign", "overlapFound := false"⟩,
  ⟨0, "range", "requests.Requests"⟩,
  ⟨1, "if", "fromOffset <= request.ToOffset && request.FromOffset <= toOffset"⟩,
  ⟨2, "assign", "request.FromOffset = min(fromOffset, request.FromOffset)"⟩,
  ⟨2, "assign", "request.ToOffset = max(toOffset, request.ToOffset)"⟩,
  ⟨2, "assign", "overlapFound = true"⟩,
  ⟨0, "if", "!overlapFound"⟩,
  ⟨1, "assign", "request := &RecoveryRequest{ PartitionID: partitionID, FromOffset: fromOffset, ToOffset: toOffset, Created: time.Now(), }"⟩,
  ⟨1, "assign", "requests.Requests = append(requests.Requests, request)"⟩,
  ⟨0, "return", "rt.sendRecoveryRequests(partitionID, requests)"⟩
]

def updateRecoveryRequest : List Instr := [
  ⟨0, "func", "func(partitionID int32, fromOffset int64, toOffset int64) error"⟩,
  ⟨0, "stmt", "rt.requestLock.RLock()"⟩,
  ⟨0, "defer", "rt.requestLock.RUnlock()"⟩,
  ⟨0, "assign", "requests := rt.recoveryRequests[partitionID]"⟩,
  ⟨0, "if", "requests != nil && len(requests.Requests) > 0"⟩,
  ⟨1, "assign", "request := requests.Requests[0]"⟩,
  ⟨1, "if", "request.ToOffset == toOffset"⟩,
  ⟨2, "assign", "request.FromOffset = fromOffset"⟩,
  ⟨2, "stmt", "rt.updateMetrics(partitionID)"⟩,
  ⟨2, "return", "rt.sendRecoveryRequests(partitionID, requests)"⟩,
  ⟨1, "return", "fmt.Errorf(\"failed to update recovery request for partition %d\", partitionID)"⟩,
  ⟨0, "return", "fmt.Errorf(\"failed to update recovery request for partition %d\", partitionID)"⟩
]

def markRecoveryComplete : List Instr := [
  ⟨0, "func", "func(partitionID int32, toOffset int64) error"⟩,
  ⟨0, "stmt", "rt.requestLock.RLock()"⟩,
  ⟨0, "defer", "rt.requestLock.RUnlock()"⟩,
  ⟨0, "assign", "requests := rt.recoveryRequests[partitionID]"⟩,
  ⟨0, "if", "requests == nil"⟩,
  ⟨1, "return", "fmt.Errorf(\"failed to mark recovery complete for partition %d, no recovery requests exist for this partition\", partitionID)"⟩,
  ⟨0, "assign", "removedRequest := false"⟩,
  ⟨0, "decl", "var retained []*RecoveryRequest"⟩,
  ⟨0, "range", "requests.Requests"⟩,
  ⟨1, "if", "request.ToOffset == toOffset"⟩,
  ⟨2, "assign", "removedRequest = true"⟩,
  ⟨1, "else", ""⟩,
  ⟨2, "assign", "retained = append(retained, request)"⟩,
  ⟨0, "if", "removedRequest"⟩,
  ⟨1, "assign", "requests.Requests = retained"⟩,
  ⟨1, "stmt", "rt.updateMetrics(partitionID)"⟩,
  ⟨1, "return", "rt.sendRecoveryRequests(partitionID, requests)"⟩,
  ⟨0, "stmt", "rt.logRecoveryRequests(partitionID)"⟩,
  ⟨0, "return", "fmt.Errorf(\"failed to update recovery request for partition %d\", partitionID)"⟩
]

def cancelAll : List Instr := [
  ⟨0, "func", "func() error"⟩,
  ⟨0, "stmt", "rt.requestLock.RLock()"⟩,
  ⟨0, "defer", "rt.requestLock.RUnlock()"⟩,
  ⟨0, "range", "rt.recoveryRequests"⟩,
  ⟨1, "assign", "recoveryRequests.Requests = make([]*RecoveryRequest, 0)"⟩,
  ⟨1, "stmt", "rt.updateMetrics(partition)"⟩,
  ⟨1, "assign", "err := rt.sendRecoveryRequests(partition, recoveryRequests)"⟩,
  ⟨1, "if", "err != nil"⟩,
  ⟨2, "return", "err"⟩,
  ⟨0, "return", "nil"⟩
]

def sendRecoveryRequests : List Instr := [
  ⟨0, "func", "func(partitionID int32, requests *RecoveryRequests) error"⟩,
  ⟨0, "assign", "requestBytes, err := json.Marshal(requests)"⟩,
  ⟨0, "if", "err != nil"⟩,
  ⟨1, "return", "fmt.Errorf(\"recoverytracker: failed to marshal recoveryrequests [%v]\", err)"⟩,
  ⟨0, "assign", "msg := fbcontext.Message{ MessageType: messageTypeRecoveryRequest, Key: strconv.Itoa(int(partitionID)), Payload: requestBytes, }"⟩,
  ⟨0, "if", "rt.ctx == nil"⟩,
  ⟨1, "return", "nil"⟩,
  ⟨0, "return", "rt.ctx.SendMessage(msg)"⟩
]

def receiveRequest : List Instr := [
  ⟨0, "func", "func(partitionIDStr string, requestBytes []byte)"⟩,
  ⟨0, "stmt", "rt.requestLock.Lock()"⟩,
  ⟨0, "defer", "rt.requestLock.Unlock()"⟩,
  ⟨0, "assign", "partitionID, err := strconv.Atoi(partitionIDStr)"⟩,
  ⟨0, "if", "err != nil"⟩,
  ⟨0, "assign", "requests := &RecoveryRequests{}"⟩,
  ⟨0, "assign", "err = json.Unmarshal(requestBytes, requests)"⟩,
  ⟨0, "if", "err != nil"⟩,
  ⟨1, "return", ""⟩,
  ⟨0, "assign", "rt.recoveryRequests[int32(partitionID)] = requests"⟩
]

def tyRecoveryRequest : List Instr := [
  ⟨0, "type", "struct { PartitionID int32 `json:\"partition_id\"` FromOffset int64 `json:\"from_offset\"` ToOffset int64 `json:\"to_offset\"` Created time.Time `json:\"created\"` }"⟩,
  ⟨0, "methods", ""⟩
]

def tyRecoveryRequests : List Instr := [
  ⟨0, "type", "struct { Requests []*RecoveryRequest `json:\"recovery_requests\"` }"⟩,
  ⟨0, "methods", ""⟩
]

def trackerMax : List Instr := [
  ⟨0, "func", "func(x, y int64) int64"⟩,
  ⟨0, "if", "x < y"⟩,
  ⟨1, "return", "y"⟩,
  ⟨0, "return", "x"⟩
]

def trackerMin : List Instr := [
  ⟨0, "func", "func(x, y int64) int64"⟩,
  ⟨0, "if", "x > y"⟩,
  ⟨1, "return", "y"⟩,
  ⟨0, "return", "x"⟩
]

def mrHandleEvents : List Instr := [
  ⟨0, "func", "func()"⟩,
  ⟨0, "decl", "var messageTopicPartitions []kafka.PartitionMetadata"⟩,
  ⟨0, "assign", "err := testutil.AwaitCondition(func() bool { metadata, err := r.consumer.GetMetadata(&r.topic, false, 30000) if err != nil { log.WithError(err).Error(\"kafkamessagereceiver: failed to read message topic metadata, retrying\") return false } messageTopicPartitions = metadata.Topics[r.topic].Partitions r.partitionCount = len(messageTopicPartitions) if r.partitionCount > 1 { log.WithField(\"num_partitions\", len(messageTopicPartitions)).Warn(\"kafkamessagereceiver: the message topic has more than one partition, messages may be delivered out-of-order\") } return len(messageTopicPartitions) > 0 }, 1*time.Second, 60*time.Second)"⟩,
  ⟨0, "if", "err != nil"⟩,
  ⟨1, "return", ""⟩,
  ⟨0, "assign", "assignments := r.buildPartitionAssignments(messageTopicPartitions)"⟩,
  ⟨0, "assign", "err = r.consumer.Assign(assignments)"⟩,
  ⟨0, "if", "err != nil"⟩,
  ⟨1, "return", ""⟩,
  ⟨0, "for", ""⟩,
  ⟨1, "select", ""⟩,
  ⟨2, "case-recv:=", "r.consumer.Events()"⟩,
  ⟨3, "if", "event == nil"⟩,
  ⟨4, "return", ""⟩,
  ⟨3, "stmt", "r.processEvent(event)"⟩
]

def mrBuildPartitionAssignments : List Instr := [
  ⟨0, "func", "func(messageTopicPartitions []kafka.PartitionMetadata) []kafka.TopicPartition"⟩,
  ⟨0, "assign", "assignments := []kafka.TopicPartition{}"⟩,
  ⟨0, "range", "messageTopicPartitions"⟩,
  ⟨1, "if", "partition.Error.Code() != kafka.ErrNoError"⟩,
  ⟨1, "assign", "low, high, err := r.consumer.QueryWatermarkOffsets(r.topic, partition.ID, 10000)"⟩,
  ⟨1, "if", "err != nil"⟩,
  ⟨2, "assign", "low = 0"⟩,
  ⟨1, "assign", "startOffset := low"⟩,
  ⟨1, "if", "high-low > maxMessagesToReplay"⟩,
  ⟨2, "assign", "startOffset = high - maxMessagesToReplay"⟩,
  ⟨1, "assign", "assignments = append(assignments, kafka.TopicPartition{ Topic: &r.topic, Partition: partition.ID, Offset: kafka.Offset(startOffset), })"⟩,
  ⟨0, "return", "assignments"⟩
]

def mrProcessEvent : List Instr := [
  ⟨0, "func", "func(ev kafka.Event)"⟩,
  ⟨0, "typeswitch", "e := ev.(type)"⟩,
  ⟨1, "case", "*kafka.Message"⟩,
  ⟨2, "stmt", "r.processMessage(e.Value)"⟩,
  ⟨1, "case", "kafka.PartitionEOF"⟩,
  ⟨2, "if", "r.eofPartitions == nil"⟩,
  ⟨3, "assign", "r.eofPartitions = make(map[int32]struct{})"⟩,
  ⟨2, "assign", "r.eofPartitions[e.Partition] = struct{}{}"⟩,
  ⟨2, "assign", "r.partitionEOFs = len(r.eofPartitions)"⟩,
  ⟨2, "if", "!r.initialized && r.partitionEOFs >= r.partitionCount"⟩,
  ⟨3, "stmt", "r.initMutex.Lock()"⟩,
  ⟨3, "defer", "r.initMutex.Unlock()"⟩,
  ⟨3, "assign", "r.initialized = true"⟩,
  ⟨3, "stmt", "r.processInitBuffer()"⟩,
  ⟨1, "case", "kafka.Error"⟩
]

def mrProcessMessage : List Instr := [
  ⟨0, "func", "func(value []byte)"⟩,
  ⟨0, "assign", "wireMsg := &wireMessage{}"⟩,
  ⟨0, "assign", "err := json.Unmarshal(value, wireMsg)"⟩,
  ⟨0, "if", "err != nil"⟩,
  ⟨1, "return", ""⟩,
  ⟨0, "stmt", "metrics.Message().MessagesReceived.WithLabelValues(\"kafka\", wireMsg.Message.MessageType, strconv.FormatBool(wireMsg.Acknowledged)).Inc()"⟩,
  ⟨0, "stmt", "metrics.Message().MessagesReceivedBytes.WithLabelValues(\"kafka\", wireMsg.Message.MessageType, strconv.FormatBool(wireMsg.Acknowledged)).Add(float64(len(value)))"⟩,
  ⟨0, "if", "!r.initialized"⟩,
  ⟨1, "assign", "r.initBuffer[uniqueKey(wireMsg.Message)] = wireMsg"⟩,
  ⟨0, "else", ""⟩,
  ⟨1, "if", "!wireMsg.Acknowledged"⟩,
  ⟨2, "stmt", "r.deliverMessage(wireMsg.Message)"⟩
]

def mrDeliverMessage : List Instr := [
  ⟨0, "func", "func(msg Message)"⟩,
  ⟨0, "assign", "err := r.notifier(msg)"⟩,
  ⟨0, "if", "err != nil"⟩
]

def mrProcessInitBuffer : List Instr := [
  ⟨0, "func", "func()"⟩,
  ⟨0, "range", "r.initBuffer"⟩,
  ⟨1, "if", "!wireMsg.Acknowledged"⟩,
  ⟨2, "assign", "msg := wireMsg.Message"⟩,
  ⟨2, "stmt", "r.deliverMessage(msg)"⟩,
  ⟨0, "assign", "r.initBuffer = make(map[string]*wireMessage)"⟩
]

def msSend : List Instr := [
  ⟨0, "func", "func(msg Message) error"⟩,
  ⟨0, "return", "s.produceMessage(msg, false)"⟩
]

def msAck : List Instr := [
  ⟨0, "func", "func(msg Message) error"⟩,
  ⟨0, "return", "s.produceMessage(msg, true)"⟩
]

def msProduceMessage : List Instr := [
  ⟨0, "func", "func(msg Message, ack bool) error"⟩,
  ⟨0, "assign", "wireMsg := &wireMessage{ Message: msg, Updated: time.Now(), Acknowledged: ack, }"⟩,
  ⟨0, "assign", "wireMsgBytes, err := json.Marshal(wireMsg)"⟩,
  ⟨0, "if", "err != nil"⟩,
  ⟨1, "return", "fmt.Errorf(\"kafkamessagesender: failed to marshal wire message [%v]\", err)"⟩,
  ⟨0, "stmt", "metrics.Message().MessagesSent.WithLabelValues(\"kafka\", msg.MessageType, strconv.FormatBool(ack)).Inc()"⟩,
  ⟨0, "stmt", "metrics.Message().MessagesSentBytes.WithLabelValues(\"kafka\", msg.MessageType, strconv.FormatBool(ack)).Add(float64(len(wireMsgBytes)))"⟩,
  ⟨0, "assign", "kafkaMsg := &kafka.Message{ TopicPartition: kafka.TopicPartition{Topic: &s.topic, Partition: kafka.PartitionAny}, Key: []byte(uniqueKey(msg)), Value: wireMsgBytes, }"⟩,
  ⟨0, "stmt", "s.producer.Produce(kafkaMsg)"⟩,
  ⟨0, "return", "nil"⟩
]

def msgUniqueKey : List Instr := [
  ⟨0, "func", "func(msg Message) string"⟩,
  ⟨0, "return", "msg.MessageType + \"-\" + msg.Key"⟩
]

def tyWireMessage : List Instr := [
  ⟨0, "type", "struct { Message Message `json:\"message\"` Updated time.Time `json:\"updated\"` Acknowledged bool `json:\"ack\"` }"⟩,
  ⟨0, "methods", ""⟩
]

def tyMessage : List Instr := [
  ⟨0, "type", "struct { MessageType string `json:\"messagetype\"` Key string `json:\"key\"` Payload []byte `json:\"payload\"` }"⟩,
  ⟨0, "methods", ""⟩
]

def exDeliverMessage : List Instr := [
  ⟨0, "func", "func(msg message.Message) []error"⟩,
  ⟨0, "assign", "ctxMsg := newContextMessage(msg)"⟩,
  ⟨0, "assign", "errorList := &errorList{}"⟩,
  ⟨0, "if", "e.source.AcceptsMessage(ctxMsg.MessageType)"⟩,
  ⟨1, "assign", "err := e.source.Receive(ctxMsg)"⟩,
  ⟨1, "if", "err != nil"⟩,
  ⟨2, "stmt", "errorList.addError(err)"⟩,
  ⟨0, "range", "e.rootNodes"⟩,
  ⟨1, "stmt", "e.deliverMessageToNode(ctxMsg, rootNode, errorList)"⟩,
  ⟨0, "return", "errorList.errors"⟩
]

def exDeliverMessageToNode : List Instr := [
  ⟨0, "func", "func(msg fbcontext.Message, node *node.Context, errorList *errorList)"⟩,
  ⟨0, "if", "node.NodeProcessor.AcceptsMessage(msg.MessageType)"⟩,
  ⟨1, "assign", "err := node.NodeProcessor.Receive(msg)"⟩,
  ⟨1, "if", "err != nil"⟩,
  ⟨2, "stmt", "errorList.addError(err)"⟩,
  ⟨0, "range", "node.Children"⟩,
  ⟨1, "stmt", "e.deliverMessageToNode(msg, child, errorList)"⟩
]

def exAddError : List Instr := [
  ⟨0, "func", "func(err error)"⟩,
  ⟨0, "assign", "el.errors = append(el.errors, err)"⟩
]

def exNewContextMessage : List Instr := [
  ⟨0, "func", "func(msg message.Message) fbcontext.Message"⟩,
  ⟨0, "return", "fbcontext.Message{ MessageType: msg.MessageType, Key: msg.Key, Payload: msg.Payload, }"⟩
]

def ctxSubscribe : List Instr := [
  ⟨0, "func", "func(messageTypes []string)"⟩,
  ⟨0, "assign", "c.messageTypes = messageTypes"⟩
]

def ctxAcceptsMessage : List Instr := [
  ⟨0, "func", "func(messageType string) bool"⟩,
  ⟨0, "range", "c.messageTypes"⟩,
  ⟨1, "if", "messageType == t"⟩,
  ⟨2, "return", "true"⟩,
  ⟨0, "return", "false"⟩
]

def cfgRead : List Instr := [
  ⟨0, "func", "func(file string) (*Config, error)"⟩,
  ⟨0, "assign", "c := Config{}"⟩,
  ⟨0, "assign", "data, err := os.ReadFile(file)"⟩,
  ⟨0, "if", "err != nil"⟩,
  ⟨1, "return", "nil, err"⟩,
  ⟨0, "assign", "configBytes := []byte(os.ExpandEnv(string(data)))"⟩,
  ⟨0, "assign", "err = yaml.Unmarshal(configBytes, &c)"⟩,
  ⟨0, "if", "err != nil"⟩,
  ⟨1, "return", "nil, err"⟩,
  ⟨0, "stmt", "setDefaults(c)"⟩,
  ⟨0, "assign", "err = validate(c)"⟩,
  ⟨0, "if", "err != nil"⟩,
  ⟨1, "return", "nil, err"⟩,
  ⟨0, "if", "c.ShutdownTimeOut <= 0"⟩,
  ⟨1, "assign", "c.ShutdownTimeOut = 10"⟩,
  ⟨0, "return", "&c, nil"⟩
]

def cfgValidate : List Instr := [
  ⟨0, "func", "func(config Config) error"⟩,
  ⟨0, "assign", "allIDs := make(map[string]struct{})"⟩,
  ⟨0, "range", "config.Nodes"⟩,
  ⟨1, "assign", "err := validateUniqueID(allIDs, n)"⟩,
  ⟨1, "if", "err != nil"⟩,
  ⟨2, "return", "err"⟩,
  ⟨0, "assign", "err := validateInternalDataConfig(config)"⟩,
  ⟨0, "if", "err != nil"⟩,
  ⟨1, "return", "err"⟩,
  ⟨0, "assign", "err = validateSourceConfig(config)"⟩,
  ⟨0, "if", "err != nil"⟩,
  ⟨1, "return", "err"⟩,
  ⟨0, "range", "config.Nodes"⟩,
  ⟨1, "assign", "err := validateNodeConfig(n)"⟩,
  ⟨1, "if", "err != nil"⟩,
  ⟨2, "return", "err"⟩,
  ⟨0, "return", "nil"⟩
]

def cfgValidateInternalData : List Instr := [
  ⟨0, "func", "func(c Config) error"⟩,
  ⟨0, "if", "c.InternalData != nil"⟩,
  ⟨1, "if", "c.InternalData.Transport != \"kafka\""⟩,
  ⟨2, "return", "fmt.Errorf(\"internal data transport %s not supported\", c.InternalData.Transport)"⟩,
  ⟨0, "return", "nil"⟩
]

def cfgValidateSource : List Instr := [
  ⟨0, "func", "func(c Config) error"⟩,
  ⟨0, "assign", "r := node.GetRegistry().GetSourceRegistration(c.Source.Name)"⟩,
  ⟨0, "if", "r == nil"⟩,
  ⟨1, "return", "fmt.Errorf(\"source type %s not registered\", c.Source.Name)"⟩,
  ⟨0, "range", "c.Nodes"⟩,
  ⟨1, "assign", "nodeReg := node.GetRegistry().GetNodeRegistration(n.Name)"⟩,
  ⟨1, "if", "nodeReg == nil"⟩,
  ⟨2, "return", "fmt.Errorf(\"node type %s not registered\", n.Name)"⟩,
  ⟨1, "if", "r.Produces != nodeReg.Consumes"⟩,
  ⟨2, "return", "fmt.Errorf(\"source type %s produces %s, but root node %s consumes incompatible type %s\", c.Source.Name, r.Produces.String(), n.Name, nodeReg.Consumes.String())"⟩,
  ⟨0, "return", "nil"⟩
]

def cfgValidateUniqueID : List Instr := [
  ⟨0, "func", "func(allIDs map[string]struct{}, node *node.Config) error"⟩,
  ⟨0, "assign", "_, ok := allIDs[node.ID]"⟩,
  ⟨0, "if", "ok"⟩,
  ⟨1, "return", "fmt.Errorf(\"multiple nodes exist with the same id %s; set an explicit 'id' in your config to make them unique\", node.ID)"⟩,
  ⟨0, "assign", "allIDs[node.ID] = struct{}{}"⟩,
  ⟨0, "range", "node.Children"⟩,
  ⟨1, "return", "validateUniqueID(allIDs, child)"⟩,
  ⟨0, "return", "nil"⟩
]

def cfgValidateNode : List Instr := [
  ⟨0, "func", "func(n *node.Config) error"⟩,
  ⟨0, "assign", "r := node.GetRegistry().GetNodeRegistration(n.Name)"⟩,
  ⟨0, "if", "r == nil"⟩,
  ⟨1, "return", "fmt.Errorf(\"node type %s not registered\", n.Name)"⟩,
  ⟨0, "range", "n.Children"⟩,
  ⟨1, "assign", "childRegistration := node.GetRegistry().GetNodeRegistration(child.Name)"⟩,
  ⟨1, "if", "childRegistration == nil"⟩,
  ⟨2, "return", "fmt.Errorf(\"node type %s not registered\", child.Name)"⟩,
  ⟨1, "if", "r.Produces != childRegistration.Consumes"⟩,
  ⟨2, "return", "fmt.Errorf(\"node type %s produces %s, but child %s consumes incompatible type %s\", n.Name, r.Produces.String(), child.Name, childRegistration.Consumes.String())"⟩,
  ⟨0, "if", "n.ErrorHandler != nil"⟩,
  ⟨1, "assign", "err := validateErrorHandlerConfig(n.ErrorHandler)"⟩,
  ⟨1, "if", "err != nil"⟩,
  ⟨2, "return", "err"⟩,
  ⟨0, "range", "n.Children"⟩,
  ⟨1, "assign", "err := validateNodeConfig(child)"⟩,
  ⟨1, "if", "err != nil"⟩,
  ⟨2, "return", "err"⟩,
  ⟨0, "return", "nil"⟩
]

def cfgValidateErrorHandler : List Instr := [
  ⟨0, "func", "func(n *node.Config) error"⟩,
  ⟨0, "if", "n.Children != nil"⟩,
  ⟨1, "return", "fmt.Errorf(\"error_handler nodes may not have children for node %s\", n.ID)"⟩,
  ⟨0, "if", "n.ErrorHandler != nil"⟩,
  ⟨1, "return", "fmt.Errorf(\"error_handler nodes may not have an error_handler of their own for node %s\", n.ID)"⟩,
  ⟨0, "assign", "r := node.GetRegistry().GetNodeRegistration(n.Name)"⟩,
  ⟨0, "if", "r == nil"⟩,
  ⟨1, "return", "fmt.Errorf(\"error_handler node type %s not registered\", n.Name)"⟩,
  ⟨0, "if", "r.Consumes != reflect.TypeOf(&firebolt.EventError{})"⟩,
  ⟨1, "return", "fmt.Errorf(\"error_handler node type %s must consume EventError, actually consumes %s\", n.Name, r.Consumes.String())"⟩,
  ⟨0, "return", "nil"⟩
]

def cfgSetDefaults : List Instr := [
  ⟨0, "func", "func(c Config)"⟩,
  ⟨0, "range", "c.Nodes"⟩,
  ⟨1, "stmt", "assignNodeConfigDefaults(n)"⟩
]

def cfgAssignNodeDefaults : List Instr := [
  ⟨0, "func", "func(n *node.Config)"⟩,
  ⟨0, "if", "n.ID == \"\""⟩,
  ⟨1, "assign", "n.ID = n.Name"⟩,
  ⟨0, "if", "n.Workers == 0"⟩,
  ⟨1, "assign", "n.Workers = 1"⟩,
  ⟨0, "if", "n.BufferSize == 0"⟩,
  ⟨1, "assign", "n.BufferSize = 1"⟩,
  ⟨0, "if", "n.ErrorHandler != nil"⟩,
  ⟨1, "stmt", "assignNodeConfigDefaults(n.ErrorHandler)"⟩,
  ⟨0, "range", "n.Children"⟩,
  ⟨1, "stmt", "assignNodeConfigDefaults(child)"⟩
]

def esSend : List Instr := [
  ⟨0, "func", "func(request *eventIndexRequest)"⟩,
  ⟨0, "send", "c.indexChan <- request"⟩
]

def esRun : List Instr := [
  ⟨0, "func", "func(ctx context.Context)"⟩,
  ⟨0, "go", "c.batch(ctx)"⟩,
  ⟨0, "stmt", "<-ctx.Done()"⟩,
  ⟨0, "stmt", "c.Stop()"⟩
]

def esStop : List Instr := [
  ⟨0, "func", "func()"⟩,
  ⟨0, "stmt", "time.Sleep(3 * time.Second)"⟩
]

def esBatch : List Instr := [
  ⟨0, "func", "func(ctx context.Context)"⟩,
  ⟨0, "assign", "freshSlice := func() []*eventIndexRequest { return make([]*eventIndexRequest, 0) }"⟩,
  ⟨0, "assign", "messages := freshSlice()"⟩,
  ⟨0, "for", ""⟩,
  ⟨1, "select", ""⟩,
  ⟨2, "case-recv:=", "c.indexChan"⟩,
  ⟨3, "assign", "messages = append(messages, msg)"⟩,
  ⟨3, "if", "len(messages) == c.batchSize"⟩,
  ⟨4, "stmt", "c.retryBulkIndex(messages, 0)"⟩,
  ⟨4, "assign", "messages = freshSlice()"⟩,
  ⟨2, "case-recv", "time.After(c.batchMaxWait)"⟩,
  ⟨3, "stmt", "c.retryBulkIndex(messages, 0)"⟩,
  ⟨3, "assign", "messages = freshSlice()"⟩,
  ⟨2, "case-recv", "ctx.Done()"⟩,
  ⟨3, "stmt", "close(c.indexChan)"⟩,
  ⟨3, "return", ""⟩
]

def esRetryBulkIndex : List Instr := [
  ⟨0, "func", "func(messages []*eventIndexRequest, retryCount int)"⟩,
  ⟨0, "go", "func() { for i := 0; ; i++ { err := c.doBulkIndex(messages, retryCount) if err == nil { return } if err == ErrMaxRetries { return } maxSleep := 3 * time.Minute calcSleep := time.Duration(math.Pow(2, float64(i))) * 5 * time.Second sleep := time.Duration(math.Min(float64(maxSleep), float64(calcSleep))) time.Sleep(sleep) } }()"⟩
]

def esDoBulkIndex : List Instr := [
  ⟨0, "func", "func(requests []*eventIndexRequest, retryCount int) error"⟩,
  ⟨0, "stmt", "c.metrics.AvailableBatchRoutines.Set(float64(len(c.pool)))"⟩,
  ⟨0, "stmt", "<-c.pool"⟩,
  ⟨0, "defer", "func() { c.pool <- 1 }()"⟩,
  ⟨0, "if", "len(requests) == 0"⟩,
  ⟨1, "return", "nil"⟩,
  ⟨0, "assign", "bulk := c.connectionFactory.BulkService()"⟩,
  ⟨0, "range", "requests"⟩,
  ⟨1, "assign", "request := elastic.NewBulkIndexRequest().Index(req.Index).Type(req.MappingType).Doc(req.Doc)"⟩,
  ⟨1, "if", "req.DocID != \"\""⟩,
  ⟨2, "assign", "request = request.Id(req.DocID)"⟩,
  ⟨1, "stmt", "bulk.Add(request)"⟩,
  ⟨0, "assign", "ctx, cancel := context.WithTimeout(context.Background(), time.Duration(c.timeoutSeconds)*time.Second)"⟩,
  ⟨0, "defer", "cancel()"⟩,
  ⟨0, "assign", "startBulk := time.Now()"⟩,
  ⟨0, "defer", "func() { c.metrics.BulkProcessTime.Observe(time.Since(startBulk).Seconds()) }()"⟩,
  ⟨0, "assign", "res, err := bulk.Do(ctx)"⟩,
  ⟨0, "if", "err != nil"⟩,
  ⟨1, "stmt", "c.metrics.BulkErrors.WithLabelValues(strconv.Itoa(retryCount)).Inc()"⟩,
  ⟨1, "return", "err"⟩,
  ⟨0, "if", "res.Errors"⟩,
  ⟨1, "assign", "err := c.handleErrorResponses(retryCount, res, requests)"⟩,
  ⟨1, "if", "err != nil && err == ErrMaxRetries"⟩,
  ⟨2, "return", "err"⟩,
  ⟨0, "else", ""⟩,
  ⟨1, "range", "requests"⟩,
  ⟨2, "stmt", "req.Event.ReturnEvent(req.Event)"⟩,
  ⟨0, "select", ""⟩,
  ⟨1, "default", ""⟩,
  ⟨1, "case-recv", "ctx.Done()"⟩,
  ⟨2, "stmt", "c.metrics.BulkTimeouts.Inc()"⟩,
  ⟨0, "return", "nil"⟩
]

def esHandleErrorResponses : List Instr := [
  ⟨0, "func", "func(retryCount int, res *elastic.BulkResponse, requests []*eventIndexRequest) error"⟩,
  ⟨0, "stmt", "c.metrics.BulkIndividualErrors.WithLabelValues(strconv.Itoa(retryCount)).Add(float64(len(res.Failed())))"⟩,
  ⟨0, "assign", "retryRequests := make([]*eventIndexRequest, 0)"⟩,
  ⟨0, "range", "res.Items"⟩,
  ⟨1, "range", "item"⟩,
  ⟨2, "assign", "req := requests[bulkIndexPos]"⟩,
  ⟨2, "if", "action != \"index\""⟩,
  ⟨3, "continue", ""⟩,
  ⟨2, "if", "!(i.Status >= 200 && i.Status <= 299)"⟩,
  ⟨3, "if", "i.Error == nil"⟩,
  ⟨4, "continue", ""⟩,
  ⟨3, "else", ""⟩,
  ⟨3, "assign", "isTypeConflict := i.Error.Type == \"mapper_parsing_exception\""⟩,
  ⟨3, "if", "!isTypeConflict"⟩,
  ⟨4, "assign", "retryRequests = append(retryRequests, req)"⟩,
  ⟨3, "if", "isTypeConflict || retryCount == c.maxRetries"⟩,
  ⟨4, "assign", "e := firebolt.NewFBError(\"ES_INDEX_ERROR\", \"failed to index to elasticsearch\", firebolt.WithInfo(i.Error))"⟩,
  ⟨4, "stmt", "c.metrics.IndexErrors.WithLabelValues(i.Error.Type).Inc()"⟩,
  ⟨4, "stmt", "req.Event.ReturnError(e)"⟩,
  ⟨3, "if", "retryCount == c.maxRetries"⟩,
  ⟨2, "else", ""⟩,
  ⟨3, "stmt", "req.Event.ReturnEvent(req.Event)"⟩,
  ⟨0, "if", "retryCount == c.maxRetries"⟩,
  ⟨1, "stmt", "c.metrics.BulkMaxRetriesReached.Add(float64(len(res.Failed())))"⟩,
  ⟨1, "return", "ErrMaxRetries"⟩,
  ⟨0, "go", "c.retryBulkIndex(retryRequests, retryCount+1)"⟩,
  ⟨0, "return", "nil"⟩
]

def esProcessAsync : List Instr := [
  ⟨0, "func", "func(event *firebolt.AsyncEvent)"⟩,
  ⟨0, "assign", "indexRequest, ok := event.Payload.(IndexRequest)"⟩,
  ⟨0, "if", "!ok"⟩,
  ⟨1, "stmt", "event.ReturnError(errors.New(\"failed type assertion for conversion to IndexRequest\"))"⟩,
  ⟨1, "return", ""⟩,
  ⟨0, "assign", "ir := &eventIndexRequest{ Index: indexRequest.Index, MappingType: indexRequest.MappingType, Doc: indexRequest.Doc, DocID: indexRequest.DocID, Event: event, }"⟩,
  ⟨0, "stmt", "i.indexClient.Send(ir)"⟩
]

def esShutdown : List Instr := [
  ⟨0, "func", "func() error"⟩,
  ⟨0, "stmt", "i.done()"⟩,
  ⟨0, "return", "nil"⟩
]

def kpProcess : List Instr := [
  ⟨0, "func", "func(event *firebolt.Event) (*firebolt.Event, error)"⟩,
  ⟨0, "assign", "produceRequest, ok := event.Payload.(firebolt.ProduceRequest)"⟩,
  ⟨0, "if", "!ok"⟩,
  ⟨1, "return", "nil, errors.New(\"kafkaproducer: failed type assertion for conversion to ProduceRequest\")"⟩,
  ⟨0, "assign", "destinationTopic := k.topic"⟩,
  ⟨0, "if", "produceRequest.Topic() != \"\""⟩,
  ⟨1, "assign", "destinationTopic = produceRequest.Topic()"⟩,
  ⟨0, "if", "destinationTopic == \"\""⟩,
  ⟨1, "return", "nil, errors.New(\"kafkaproducer: missing topic name in both node config and ProduceRequest\")"⟩,
  ⟨0, "assign", "kafkaMsg := &kafka.Message{ TopicPartition: kafka.TopicPartition{Topic: &destinationTopic, Partition: kafka.PartitionAny}, Value: produceRequest.Message(), }"⟩,
  ⟨0, "stmt", "k.Produce(kafkaMsg)"⟩,
  ⟨0, "return", "nil, nil"⟩
]

def kpProduce : List Instr := [
  ⟨0, "func", "func(msg *kafka.Message)"⟩,
  ⟨0, "send", "k.producer.ProduceChannel() <- msg"⟩
]

def epProcess : List Instr := [
  ⟨0, "func", "func(event *firebolt.Event) (*firebolt.Event, error)"⟩,
  ⟨0, "assign", "eventError, ok := event.Payload.(firebolt.EventError)"⟩,
  ⟨0, "if", "!ok"⟩,
  ⟨1, "return", "nil, errors.New(\"errorproducer: failed type assertion for conversion to firebolt.EventError\")"⟩,
  ⟨0, "decl", "var errBytes []byte"⟩,
  ⟨0, "assign", "errBytes, err := json.Marshal(eventError)"⟩,
  ⟨0, "if", "err != nil"⟩,
  ⟨1, "assign", "eventError.Event = err"⟩,
  ⟨1, "assign", "errBytes, _ = json.Marshal(eventError)"⟩,
  ⟨0, "return", "ep.KafkaProducer.Process(&firebolt.Event{ Payload: &firebolt.SimpleProduceRequest{ MessageBytes: errBytes, }, Created: event.Created, })"⟩
]

def eventErrorMarshalJSON : List Instr := [
  ⟨0, "func", "func() ([]byte, error)"⟩,
  ⟨0, "assign", "eventErr := ee.Err"⟩,
  ⟨0, "assign", "_, ok := ee.Err.(FBError)"⟩,
  ⟨0, "if", "ok"⟩,
  ⟨0, "else", ""⟩,
  ⟨1, "assign", "eventErr = NewFBError(\"ERR_UNKNOWN\", ee.Err.Error())"⟩,
  ⟨0, "return", "json.Marshal(struct { Timestamp time.Time `json:\"timestamp\"` Event interface{} `json:\"event\"` Err error `json:\"error\"` }{ Timestamp: ee.Timestamp, Event: ee.Event, Err: eventErr, })"⟩
]

def newEventError : List Instr := [
  ⟨0, "func", "func(event *Event, err error) EventError"⟩,
  ⟨0, "return", "EventError{ Timestamp: event.Created, Event: event.Payload, Err: err, }"⟩
]

def newFBError : List Instr := [
  ⟨0, "func", "func(code string, msg string, opts ...FBErrorOpt) FBError"⟩,
  ⟨0, "assign", "e := FBError{Code: code, Msg: msg}"⟩,
  ⟨0, "range", "opts"⟩,
  ⟨1, "assign", "e = opt(e)"⟩,
  ⟨0, "return", "e"⟩
]

def tyEventError : List Instr := [
  ⟨0, "type", "struct { Timestamp time.Time `json:\"timestamp\"` Event interface{} `json:\"event\"` Err error `json:\"error\"` }"⟩,
  ⟨0, "methods", "MarshalJSON"⟩
]

def tyFBError : List Instr := [
  ⟨0, "type", "struct { Code string `json:\"code\"` Msg string `json:\"message\"` ErrorInfo interface{} `json:\"errorinfo,omitempty\"` }"⟩,
  ⟨0, "methods", "Error"⟩
]

def applyLibrdkafkaConf : List Instr := [
  ⟨0, "func", "func(config map[string]string, configMap *kafka.ConfigMap) error"⟩,
  ⟨0, "range", "config"⟩,
  ⟨1, "if", "strings.HasPrefix(k, \"librdkafka.\")"⟩,
  ⟨2, "assign", "err := configMap.SetKey(strings.TrimPrefix(k, \"librdkafka.\"), v)"⟩,
  ⟨2, "if", "err != nil"⟩,
  ⟨3, "stmt", "fmt.Printf(\"failed to populate kafka config map with librdkafka values for key %s\\n\", k)"⟩,
  ⟨3, "return", "err"⟩,
  ⟨0, "return", "nil"⟩
]

def kcBuildConfigMap : List Instr := [
  ⟨0, "func", "func(config map[string]string) (*kafka.ConfigMap, error)"⟩,
  ⟨0, "assign", "bufsize, err := strconv.Atoi(config[\"buffersize\"])"⟩,
  ⟨0, "if", "err != nil"⟩,
  ⟨1, "return", "nil, errors.New(\"kafkaconsumer: failed to convert config 'buffersize' to integer\")"⟩,
  ⟨0, "assign", "configMap := &kafka.ConfigMap{ \"bootstrap.servers\": config[\"brokers\"], \"group.id\": config[\"consumergroup\"], \"session.timeout.ms\": 10000, \"enable.auto.commit\": true, \"auto.commit.interval.ms\": 5000, \"statistics.interval.ms\": 60000, \"go.events.channel.enable\": true, \"go.events.channel.size\": bufsize, \"go.application.rebalance.enable\": true, \"default.topic.config\": kafka.ConfigMap{\"auto.offset.reset\": \"earliest\"}, \"socket.keepalive.enable\": true, \"log.connection.close\": false, }"⟩,
  ⟨0, "assign", "err = util.ApplyLibrdkafkaConf(config, configMap)"⟩,
  ⟨0, "if", "err != nil"⟩,
  ⟨1, "return", "nil, err"⟩,
  ⟨0, "return", "configMap, nil"⟩
]

def kcCheckConfig : List Instr := [
  ⟨0, "func", "func(config map[string]string) error"⟩,
  ⟨0, "if", "config[\"brokers\"] == \"\""⟩,
  ⟨1, "return", "fmt.Errorf(\"kafkaconsumer: missing or invalid value for config 'brokers': [%s]\", config[\"brokers\"])"⟩,
  ⟨0, "if", "config[\"consumergroup\"] == \"\""⟩,
  ⟨1, "return", "fmt.Errorf(\"kafkaconsumer: missing or invalid value for config 'consumergroup': [%s]\", config[\"consumergroup\"])"⟩,
  ⟨0, "if", "config[\"topic\"] == \"\""⟩,
  ⟨1, "return", "fmt.Errorf(\"kafkaconsumer: missing or invalid value for config 'topic': [%s]\", config[\"topic\"])"⟩,
  ⟨0, "if", "config[\"buffersize\"] == \"\""⟩,
  ⟨1, "return", "fmt.Errorf(\"kafkaconsumer: missing or invalid value for config 'buffersize': [%s]\", config[\"buffersize\"])"⟩,
  ⟨0, "assign", "bufsize, err := strconv.Atoi(config[\"buffersize\"])"⟩,
  ⟨0, "if", "err != nil"⟩,
  ⟨1, "return", "fmt.Errorf(\"kafkaconsumer: failed to convert config 'buffersize' to integer: [%v]\", err)"⟩,
  ⟨0, "if", "bufsize < 1"⟩,
  ⟨1, "return", "fmt.Errorf(\"kafkaconsumer: invalid value for config 'buffersize', must be greater than zero: [%d]\", bufsize)"⟩,
  ⟨0, "if", "config[\"maxpartitionlag\"] == \"\""⟩,
  ⟨1, "assign", "config[\"maxpartitionlag\"] = strconv.Itoa(math.MaxInt64)"⟩,
  ⟨0, "assign", "maxPartitionLag, err := strconv.Atoi(config[\"maxpartitionlag\"])"⟩,
  ⟨0, "if", "err != nil"⟩,
  ⟨1, "return", "fmt.Errorf(\"kafkaconsumer: failed to convert config 'maxpartitionlag' to integer: [%v]\", err)"⟩,
  ⟨0, "if", "maxPartitionLag < 0"⟩,
  ⟨1, "return", "fmt.Errorf(\"kafkaconsumer: invalid value for config 'maxpartitionlag', cannot be negative: [%d]\", bufsize)"⟩,
  ⟨0, "if", "config[\"parallelrecoveryenabled\"] != \"\""⟩,
  ⟨1, "assign", "_, err = strconv.ParseBool(config[\"parallelrecoveryenabled\"])"⟩,
  ⟨1, "if", "err != nil"⟩,
  ⟨2, "return", "fmt.Errorf(\"kafkaconsumer: invalid value for required config 'parallelrecoveryenabled', must be a boolean: [%v]\", err)"⟩,
  ⟨0, "return", "nil"⟩
]

def rcBuildConfigMap : List Instr := [
  ⟨0, "func", "func(config map[string]string) (*kafka.ConfigMap, error)"⟩,
  ⟨0, "assign", "bufsize, err := strconv.Atoi(config[\"buffersize\"])"⟩,
  ⟨0, "if", "err != nil"⟩,
  ⟨1, "return", "nil, errors.New(\"recoveryconsumer: failed to convert config 'buffersize' to integer\")"⟩,
  ⟨0, "assign", "configMap := &kafka.ConfigMap{ \"bootstrap.servers\": config[\"brokers\"], \"group.id\": \"firebolt-recoveryconsumer\", \"session.timeout.ms\": 10000, \"enable.auto.commit\": false, \"auto.offset.reset\": \"error\", \"go.events.channel.enable\": true, \"go.events.channel.size\": bufsize, \"go.application.rebalance.enable\": false, \"socket.keepalive.enable\": true, \"log.connection.close\": false, }"⟩,
  ⟨0, "assign", "err = util.ApplyLibrdkafkaConf(config, configMap)"⟩,
  ⟨0, "if", "err != nil"⟩,
  ⟨1, "return", "nil, err"⟩,
  ⟨0, "return", "configMap, nil"⟩
]

def mrBuildConfigMap : List Instr := [
  ⟨0, "func", "func(config map[string]string) (*kafka.ConfigMap, error)"⟩,
  ⟨0, "assign", "configMap := &kafka.ConfigMap{ \"bootstrap.servers\": config[\"brokers\"], \"group.id\": \"firebolt-messages\", \"session.timeout.ms\": 10000, \"enable.auto.commit\": false, \"go.events.channel.enable\": true, \"go.events.channel.size\": 100, \"go.application.rebalance.enable\": false, \"default.topic.config\": kafka.ConfigMap{\"auto.offset.reset\": \"earliest\"}, \"socket.keepalive.enable\": true, \"log.connection.close\": false, \"enable.partition.eof\": true, }"⟩,
  ⟨0, "assign", "err := util.ApplyLibrdkafkaConf(config, configMap)"⟩,
  ⟨0, "if", "err != nil"⟩,
  ⟨1, "return", "nil, err"⟩,
  ⟨0, "return", "configMap, nil"⟩
]

def kpBuildConfigMap : List Instr := [
  ⟨0, "func", "func(config map[string]string) (*kafka.ConfigMap, error)"⟩,
  ⟨0, "assign", "err := k.checkConfig(config)"⟩,
  ⟨0, "if", "err != nil"⟩,
  ⟨1, "return", "nil, err"⟩,
  ⟨0, "assign", "configMap := &kafka.ConfigMap{ \"bootstrap.servers\": config[\"brokers\"], \"statistics.interval.ms\": 60000, \"queue.buffering.max.messages\": 50000, \"queue.buffering.max.kbytes\": 256000, \"queue.buffering.max.ms\": 3000, \"log.connection.close\": false, \"socket.keepalive.enable\": true, \"compression.codec\": \"snappy\", }"⟩,
  ⟨0, "assign", "err = util.ApplyLibrdkafkaConf(config, configMap)"⟩,
  ⟨0, "if", "err != nil"⟩,
  ⟨1, "return", "nil, err"⟩,
  ⟨0, "return", "configMap, nil"⟩
]

def kpCheckConfig : List Instr := [
  ⟨0, "func", "func(config map[string]string) error"⟩,
  ⟨0, "if", "config[\"brokers\"] == \"\""⟩,
  ⟨1, "return", "fmt.Errorf(\"kafkaproducer: missing or invalid value for config 'brokers': %s\", config[\"brokers\"])"⟩,
  ⟨0, "return", "nil"⟩
]

def hIntConfig : List Instr := [
  ⟨0, "func", "func(name string, defaultValue int, minValue int, maxValue int) (int, error)"⟩,
  ⟨0, "assign", "_, ok := c[name]"⟩,
  ⟨0, "if", "!ok"⟩,
  ⟨1, "assign", "c[name] = strconv.Itoa(defaultValue)"⟩,
  ⟨0, "return", "c.IntConfigRequired(name, minValue, maxValue)"⟩
]

def hIntConfigRequired : List Instr := [
  ⟨0, "func", "func(name string, minValue int, maxValue int) (int, error)"⟩,
  ⟨0, "assign", "userValue, ok := c[name]"⟩,
  ⟨0, "if", "!ok"⟩,
  ⟨1, "return", "0, fmt.Errorf(\"missing config value [%s]\", name)"⟩,
  ⟨0, "assign", "intValue, err := strconv.Atoi(userValue)"⟩,
  ⟨0, "if", "err != nil"⟩,
  ⟨1, "return", "0, fmt.Errorf(\"expected integer value for config [%s]\", name)"⟩,
  ⟨0, "if", "intValue > maxValue || intValue < minValue"⟩,
  ⟨1, "return", "0, fmt.Errorf(\"config value [%s] requires value between [%d] and [%d]\", name, minValue, maxValue)"⟩,
  ⟨0, "return", "intValue, nil"⟩
]

def hStringConfig : List Instr := [
  ⟨0, "func", "func(name string, defaultValue string) (string, error)"⟩,
  ⟨0, "assign", "_, ok := c[name]"⟩,
  ⟨0, "if", "!ok"⟩,
  ⟨1, "assign", "c[name] = defaultValue"⟩,
  ⟨0, "return", "c.StringConfigRequired(name)"⟩
]

def hStringConfigRequired : List Instr := [
  ⟨0, "func", "func(name string) (string, error)"⟩,
  ⟨0, "assign", "userValue, ok := c[name]"⟩,
  ⟨0, "if", "!ok"⟩,
  ⟨1, "return", "\"\", fmt.Errorf(\"missing config value [%s]\", name)"⟩,
  ⟨0, "return", "userValue, nil"⟩
]

def hFloat64Config : List Instr := [
  ⟨0, "func", "func(name string, defaultValue float64, minValue float64, maxValue float64) (float64, error)"⟩,
  ⟨0, "assign", "_, ok := c[name]"⟩,
  ⟨0, "if", "!ok"⟩,
  ⟨1, "assign", "c[name] = strconv.FormatFloat(defaultValue, 'g', -1, 64)"⟩,
  ⟨0, "return", "c.Float64ConfigRequired(name, minValue, maxValue)"⟩
]

def hFloat64ConfigRequired : List Instr := [
  ⟨0, "func", "func(name string, minValue, maxValue float64) (float64, error)"⟩,
  ⟨0, "assign", "userValue, ok := c[name]"⟩,
  ⟨0, "if", "!ok"⟩,
  ⟨1, "return", "0, fmt.Errorf(\"missing config value [%s]\", name)"⟩,
  ⟨0, "assign", "f64Value, err := strconv.ParseFloat(userValue, 64)"⟩,
  ⟨0, "if", "err != nil"⟩,
  ⟨1, "return", "0, fmt.Errorf(\"expected float64 value for config [%s]\", name)"⟩,
  ⟨0, "if", "f64Value > maxValue || f64Value < minValue"⟩,
  ⟨1, "return", "0, fmt.Errorf(\"config value [%s] requires value between [%f] and [%f]\", name, minValue, maxValue)"⟩,
  ⟨0, "return", "f64Value, nil"⟩
]

def getNodeType : List Instr := [
  ⟨0, "func", "func(node Node) nodeType"⟩,
  ⟨0, "assign", "_, isSync := node.(SyncNode)"⟩,
  ⟨0, "if", "isSync"⟩,
  ⟨1, "return", "Sync"⟩,
  ⟨0, "assign", "_, isAsync := node.(AsyncNode)"⟩,
  ⟨0, "if", "isAsync"⟩,
  ⟨1, "return", "Async"⟩,
  ⟨0, "assign", "_, isFanout := node.(FanoutNode)"⟩,
  ⟨0, "if", "isFanout"⟩,
  ⟨1, "return", "Fanout"⟩,
  ⟨0, "return", "Unknown"⟩
]

def invokeProcessorSync : List Instr := [
  ⟨0, "func", "func(event *firebolt.Event) (*firebolt.Event, error)"⟩,
  ⟨0, "assign", "start := time.Now()"⟩,
  ⟨0, "assign", "syncNode, ok := nc.NodeProcessor.(SyncNode)"⟩,
  ⟨0, "if", "!ok"⟩,
  ⟨1, "stmt", "panic(\"node: sync invocation failed to convert target to SyncNode\")"⟩,
  ⟨0, "assign", "result, err := syncNode.Process(event)"⟩,
  ⟨0, "stmt", "metrics.Node().ProcessTime.WithLabelValues(nc.Config.ID).Observe(time.Since(start).Seconds())"⟩,
  ⟨0, "return", "result, err"⟩
]

def invokeProcessorFanout : List Instr := [
  ⟨0, "func", "func(event *firebolt.Event) ([]firebolt.Event, error)"⟩,
  ⟨0, "assign", "start := time.Now()"⟩,
  ⟨0, "assign", "fanoutNode, ok := nc.NodeProcessor.(FanoutNode)"⟩,
  ⟨0, "if", "!ok"⟩,
  ⟨1, "stmt", "panic(\"node: sync invocation failed to convert target to FanoutNode\")"⟩,
  ⟨0, "assign", "result, err := fanoutNode.Process(event)"⟩,
  ⟨0, "stmt", "metrics.Node().ProcessTime.WithLabelValues(nc.Config.ID).Observe(time.Since(start).Seconds())"⟩,
  ⟨0, "return", "result, err"⟩
]

def newAsyncEvent : List Instr := [
  ⟨0, "func", "func(event *Event, errFunc func(error), eventFunc func(*AsyncEvent), filterFunc func()) *AsyncEvent"⟩,
  ⟨0, "return", "&AsyncEvent{ Event: event, ReturnError: errFunc, ReturnEvent: eventFunc, ReturnFiltered: filterFunc, }"⟩
]

def registerNodeType : List Instr := [
  ⟨0, "func", "func(nodeType string, factory func() Node, consumes reflect.Type, produces reflect.Type)"⟩,
  ⟨0, "assign", "reg := &Registration{ factory: factory, Consumes: consumes, Produces: produces, }"⟩,
  ⟨0, "assign", "r.nodeTypes[nodeType] = reg"⟩
]

def registerSourceType : List Instr := [
  ⟨0, "func", "func(sourceType string, factory func() Source, produces reflect.Type)"⟩,
  ⟨0, "assign", "reg := &SourceRegistration{ factory: factory, Produces: produces, }"⟩,
  ⟨0, "assign", "r.sourceTypes[sourceType] = reg"⟩
]

def getNodeRegistration : List Instr := [
  ⟨0, "func", "func(nodeType string) *Registration"⟩,
  ⟨0, "return", "r.nodeTypes[nodeType]"⟩
]

def getSourceRegistration : List Instr := [
  ⟨0, "func", "func(sourceType string) *SourceRegistration"⟩,
  ⟨0, "return", "r.sourceTypes[sourceType]"⟩
]

def metricsInit : List Instr := [
  ⟨0, "func", "func(appMetricsPrefix string)"⟩,
  ⟨0, "stmt", "once.Do(func() { singleton = &Metrics{ AppMetricsPrefix: appMetricsPrefix, } singleton.registerSourceMetrics() singleton.registerNodeMetrics() singleton.registerMessageMetrics() })"⟩
]

def metricsGet : List Instr := [
  ⟨0, "func", "func() *Metrics"⟩,
  ⟨0, "if", "singleton == nil"⟩,
  ⟨1, "stmt", "panic(\"illegal attempt to access metrics before initialization, be sure to call Init()\")"⟩,
  ⟨0, "return", "singleton"⟩
]

def metricsNode : List Instr := [
  ⟨0, "func", "func() NodeMetrics"⟩,
  ⟨0, "if", "singleton == nil"⟩,
  ⟨1, "stmt", "panic(\"illegal attempt to access metrics before initialization, be sure to call Init()\")"⟩,
  ⟨0, "return", "singleton.nodeMetrics"⟩
]

def instantiateNode : List Instr := [
  ⟨0, "func", "func(nodeType string) Node"⟩,
  ⟨0, "assign", "registration := r.nodeTypes[nodeType]"⟩,
  ⟨0, "if", "registration == nil"⟩,
  ⟨1, "stmt", "panic(\"no node registered for type\")"⟩,
  ⟨0, "return", "registration.factory()"⟩
]

def instantiateSource : List Instr := [
  ⟨0, "func", "func(sourceType string) Source"⟩,
  ⟨0, "assign", "registration := r.sourceTypes[sourceType]"⟩,
  ⟨0, "if", "registration == nil"⟩,
  ⟨1, "stmt", "panic(\"no source registered for type\")"⟩,
  ⟨0, "return", "registration.factory()"⟩
]

def withConfig : List Instr := [
  ⟨0, "func", "func(c config.Config) Opt"⟩,
  ⟨0, "decl", "var roots []*node.Context"⟩,
  ⟨0, "range", "c.Nodes"⟩,
  ⟨1, "assign", "nodeContext := node.InitNodeContextHierarchy(rootNodeConfig)"⟩,
  ⟨1, "if", "nodeContext != nil"⟩,
  ⟨2, "assign", "roots = append(roots, nodeContext)"⟩,
  ⟨0, "stmt", "metrics.Init(c.MetricsPrefix)"⟩,
  ⟨0, "if", "c.MetricsPort != 0"⟩,
  ⟨1, "go", "func() { err := metrics.StartServer(context.Background(), c.MetricsPort) if err != nil { log.WithError(err).Error(\"executor: failed to start metrics http server\") } }()"⟩,
  ⟨0, "return", "func(e *Executor) (*Executor, error) { newE := &Executor{ config: c, rootNodes: roots, sigCh: make(chan os.Signal, 1), sourceCh: make(chan firebolt.Event), source: e.source, instanceID: util.BuildInstanceID(), } signal.Notify(newE.sigCh, syscall.SIGINT, syscall.SIGTERM) newE.fbContext = fbcontext.NewFBContext(func() string { return newE.instanceID }) if c.Zookeeper != \"\" { newE.leader = leader.NewLeader(newE.instanceID, c.Zookeeper, c.ZkElectionPath) newE.fbContext.ConfigureLeader(func() bool { return newE.leader.IsLeader() }) } err := newE.InitMessaging(c) if err != nil { return nil, err } newE.prepareSource() for _, rootNode := range newE.rootNodes { newE.setupNodes(rootNode) } newE.StartMessaging() return newE, nil }"⟩
]

def exNew : List Instr := [
  ⟨0, "func", "func(opts ...Opt) (*Executor, error)"⟩,
  ⟨0, "decl", "var ( e = &Executor{} err error )"⟩,
  ⟨0, "range", "opts"⟩,
  ⟨1, "assign", "e, err = opt(e)"⟩,
  ⟨1, "if", "err != nil"⟩,
  ⟨2, "return", "nil, err"⟩,
  ⟨0, "return", "e, nil"⟩
]

def exSendMessage : List Instr := [
  ⟨0, "func", "func(msg message.Message) error"⟩,
  ⟨0, "return", "message.GetSender().Send(msg)"⟩
]

def exFindNodeByID : List Instr := [
  ⟨0, "func", "func(id string) *node.Context"⟩,
  ⟨0, "range", "e.rootNodes"⟩,
  ⟨1, "assign", "match := findMatchingNode(rootNode, id)"⟩,
  ⟨1, "if", "match != nil"⟩,
  ⟨2, "return", "match"⟩,
  ⟨0, "return", "nil"⟩
]

def exFindMatchingNode : List Instr := [
  ⟨0, "func", "func(node *node.Context, id string) *node.Context"⟩,
  ⟨0, "if", "node.Config.ID == id"⟩,
  ⟨1, "return", "node"⟩,
  ⟨0, "range", "node.Children"⟩,
  ⟨1, "assign", "match := findMatchingNode(child, id)"⟩,
  ⟨1, "if", "match != nil"⟩,
  ⟨2, "return", "match"⟩,
  ⟨0, "return", "nil"⟩
]

def exGetSource : List Instr := [
  ⟨0, "func", "func() *node.Source"⟩,
  ⟨0, "return", "&e.source"⟩
]

def exInitMessaging : List Instr := [
  ⟨0, "func", "func(c config.Config) error"⟩,
  ⟨0, "if", "c.InternalData != nil && c.InternalData.Transport == config.InternalDataTransportKafka"⟩,
  ⟨1, "return", "e.initMessagingKafka(c)"⟩,
  ⟨0, "assign", "e.messageReceiver = &NoOpMessageReceiver{}"⟩,
  ⟨0, "return", "nil"⟩
]

def exStartMessaging : List Instr := [
  ⟨0, "func", "func()"⟩,
  ⟨0, "stmt", "e.messageReceiver.Start()"⟩,
  ⟨0, "assign", "deadline := time.Now().Add(60 * time.Second)"⟩,
  ⟨0, "for", ""⟩,
  ⟨1, "if", "e.messageReceiver.Initialized()"⟩,
  ⟨2, "break", ""⟩,
  ⟨1, "if", "time.Now().After(deadline)"⟩,
  ⟨2, "break", ""⟩,
  ⟨1, "stmt", "time.Sleep(300 * time.Millisecond)"⟩
]

def exInitMessagingKafka : List Instr := [
  ⟨0, "func", "func(c config.Config) error"⟩,
  ⟨0, "stmt", "message.InitKafkaSender(*c.InternalData)"⟩,
  ⟨0, "assign", "receiver, err := message.NewKafkaReceiver(c.InternalData)"⟩,
  ⟨0, "if", "err != nil"⟩,
  ⟨1, "return", "fmt.Errorf(\"executor: failed to initialize message receiver %s\", c.InternalData.Transport)"⟩,
  ⟨0, "stmt", "receiver.SetNotificationFunc(func(msg message.Message) []error { return e.deliverMessage(msg) })"⟩,
  ⟨0, "assign", "e.messageReceiver = receiver"⟩,
  ⟨0, "stmt", "e.fbContext.ConfigureMessaging(sendMessage, ackMessage)"⟩,
  ⟨0, "return", "nil"⟩
]

def exNewMessage : List Instr := [
  ⟨0, "func", "func(msg fbcontext.Message) message.Message"⟩,
  ⟨0, "return", "message.Message{ MessageType: msg.MessageType, Key: msg.Key, Payload: msg.Payload, }"⟩
]

def exSendMessageFn : List Instr := [
  ⟨0, "func", "func(msg fbcontext.Message) error"⟩,
  ⟨0, "return", "message.GetSender().Send(newMessage(msg))"⟩
]

def exAckMessageFn : List Instr := [
  ⟨0, "func", "func(msg fbcontext.Message) error"⟩,
  ⟨0, "return", "message.GetSender().Ack(newMessage(msg))"⟩
]

def msgInitKafkaSender : List Instr := [
  ⟨0, "func", "func(config config.InternalDataConfig)"⟩,
  ⟨0, "stmt", "senderLock.Lock()"⟩,
  ⟨0, "defer", "senderLock.Unlock()"⟩,
  ⟨0, "assign", "senderSingleton = NewKafkaMessageSender(&config)"⟩
]

def msgShutdownKafkaSender : List Instr := [
  ⟨0, "func", "func()"⟩,
  ⟨0, "stmt", "senderLock.Lock()"⟩,
  ⟨0, "defer", "senderLock.Unlock()"⟩,
  ⟨0, "if", "senderSingleton != nil"⟩,
  ⟨1, "stmt", "senderSingleton.Shutdown()"⟩,
  ⟨1, "assign", "senderSingleton = nil"⟩
]

def msgGetSender : List Instr := [
  ⟨0, "func", "func() Sender"⟩,
  ⟨0, "if", "senderSingleton == nil"⟩,
  ⟨0, "return", "senderSingleton"⟩
]

def newKafkaMessageSender : List Instr := [
  ⟨0, "func", "func(config *config.InternalDataConfig) Sender"⟩,
  ⟨0, "assign", "kp := &kafkaproducer.KafkaProducer{}"⟩,
  ⟨0, "assign", "producerConfig := make(map[string]string)"⟩,
  ⟨0, "assign", "producerConfig[\"brokers\"] = config.Params[\"brokers\"]"⟩,
  ⟨0, "assign", "producerConfig[\"topic\"] = config.Params[\"messagetopic\"]"⟩,
  ⟨0, "assign", "err := kp.Setup(producerConfig)"⟩,
  ⟨0, "if", "err != nil"⟩,
  ⟨0, "return", "KafkaMessageSender{ producer: kp, topic: config.Params[\"messagetopic\"], }"⟩
]

def msShutdown : List Instr := [
  ⟨0, "func", "func()"⟩,
  ⟨0, "assign", "err := s.producer.Shutdown()"⟩,
  ⟨0, "if", "err != nil"⟩
]

def newKafkaReceiver : List Instr := [
  ⟨0, "func", "func(config *config.InternalDataConfig) (Receiver, error)"⟩,
  ⟨0, "assign", "r := &KafkaMessageReceiver{ topic: config.Params[\"messagetopic\"], initMutex: sync.RWMutex{}, initBuffer: make(map[string]*wireMessage), }"⟩,
  ⟨0, "assign", "consumerConfigMap, err := r.buildConfigMap(config.Params)"⟩,
  ⟨0, "if", "err != nil"⟩,
  ⟨1, "return", "nil, err"⟩,
  ⟨0, "assign", "kc, err := kafka.NewConsumer(consumerConfigMap)"⟩,
  ⟨0, "if", "err != nil"⟩,
  ⟨1, "return", "nil, err"⟩,
  ⟨0, "assign", "r.consumer = kc"⟩,
  ⟨0, "return", "r, nil"⟩
]

def mrStart : List Instr := [
  ⟨0, "func", "func()"⟩,
  ⟨0, "go", "r.handleEvents()"⟩
]

def mrInitialized : List Instr := [
  ⟨0, "func", "func() bool"⟩,
  ⟨0, "stmt", "r.initMutex.RLock()"⟩,
  ⟨0, "defer", "r.initMutex.RUnlock()"⟩,
  ⟨0, "return", "r.initialized"⟩
]

def mrSetNotificationFunc : List Instr := [
  ⟨0, "func", "func(notifier NotificationFunc)"⟩,
  ⟨0, "assign", "r.notifier = notifier"⟩
]

def mrShutdown : List Instr := [
  ⟨0, "func", "func()"⟩,
  ⟨0, "assign", "err := r.consumer.Close()"⟩,
  ⟨0, "if", "err != nil"⟩
]

def ctxInit : List Instr := [
  ⟨0, "func", "func(id string, ctx FBContext)"⟩,
  ⟨0, "assign", "c.ID = id"⟩,
  ⟨0, "assign", "c.Ctx = ctx"⟩
]

def ctxSendMessage : List Instr := [
  ⟨0, "func", "func(msg Message) error"⟩,
  ⟨0, "return", "c.sendFunc(msg)"⟩
]

def ctxAckMessage : List Instr := [
  ⟨0, "func", "func(msg Message) error"⟩,
  ⟨0, "return", "c.ackFunc(msg)"⟩
]

def ctxConfigureMessaging : List Instr := [
  ⟨0, "func", "func(send MessageFunc, ack MessageFunc)"⟩,
  ⟨0, "assign", "c.sendFunc = send"⟩,
  ⟨0, "assign", "c.ackFunc = ack"⟩
]

def esSetup : List Instr := [
  ⟨0, "func", "func(cfgMap map[string]string) error"⟩,
  ⟨0, "assign", "ctx, done := context.WithCancel(context.Background())"⟩,
  ⟨0, "assign", "i.done = done"⟩,
  ⟨0, "assign", "config := firebolt.Nodeconfig(cfgMap)"⟩,
  ⟨0, "assign", "esURL, err := config.StringConfigRequired(\"elastic-addr\")"⟩,
  ⟨0, "if", "err != nil"⟩,
  ⟨1, "return", "err"⟩,
  ⟨0, "assign", "esUsername, err := config.StringConfig(\"elastic-username\", \"\")"⟩,
  ⟨0, "if", "err != nil"⟩,
  ⟨1, "return", "err"⟩,
  ⟨0, "assign", "esPassword, err := config.StringConfig(\"elastic-password\", \"\")"⟩,
  ⟨0, "if", "err != nil"⟩,
  ⟨1, "return", "err"⟩,
  ⟨0, "assign", "batchSize, err := config.IntConfig(\"batch-size\", 100, 1, math.MaxInt32)"⟩,
  ⟨0, "if", "err != nil"⟩,
  ⟨1, "return", "err"⟩,
  ⟨0, "assign", "batchMaxWaitMs, err := config.IntConfig(\"batch-max-wait-ms\", 1000, 1, math.MaxInt32)"⟩,
  ⟨0, "if", "err != nil"⟩,
  ⟨1, "return", "err"⟩,
  ⟨0, "assign", "bulkIndexTimeoutMs, err := config.IntConfig(\"bulk-index-timeout-ms\", 5000, 1, math.MaxInt32)"⟩,
  ⟨0, "if", "err != nil"⟩,
  ⟨1, "return", "err"⟩,
  ⟨0, "assign", "reconnectBatchCount, err := config.IntConfig(\"reconnect-batch-count\", 10000, 1, math.MaxInt32)"⟩,
  ⟨0, "if", "err != nil"⟩,
  ⟨1, "return", "err"⟩,
  ⟨0, "assign", "bulkIndexMaxRetries, err := config.IntConfig(\"bulk-index-max-retries\", 3, 1, math.MaxInt32)"⟩,
  ⟨0, "if", "err != nil"⟩,
  ⟨1, "return", "err"⟩,
  ⟨0, "assign", "bulkIndexTimeoutSeconds, err := config.IntConfig(\"bulk-index-timeout-seconds\", 20, 1, math.MaxInt32)"⟩,
  ⟨0, "if", "err != nil"⟩,
  ⟨1, "return", "err"⟩,
  ⟨0, "assign", "indexWorkers, err := config.IntConfig(\"index-workers\", 1, 1, math.MaxInt32)"⟩,
  ⟨0, "if", "err != nil"⟩,
  ⟨1, "return", "err"⟩,
  ⟨0, "assign", "bulkProcessHistogramMin, err := config.Float64Config(\"histogram-min-bucket-sec\", 0.01, 0.01, math.MaxFloat64)"⟩,
  ⟨0, "if", "err != nil"⟩,
  ⟨1, "return", "err"⟩,
  ⟨0, "assign", "bulkProcessHistogramMax, err := config.Float64Config(\"histogram-max-bucket-sec\", float64(2*(bulkIndexTimeoutMs/1000)), 0.01, math.MaxFloat64)"⟩,
  ⟨0, "if", "err != nil"⟩,
  ⟨1, "return", "err"⟩,
  ⟨0, "assign", "bulkProcessingHistogramBuckets, err := config.IntConfig(\"histogram-bucket-count\", 8, 1, math.MaxInt)"⟩,
  ⟨0, "if", "err != nil"⟩,
  ⟨1, "return", "err"⟩,
  ⟨0, "assign", "metrics := &Metrics{}"⟩,
  ⟨0, "stmt", "metrics.RegisterElasticIndexMetrics(bulkProcessHistogramMin, bulkProcessHistogramMax, bulkProcessingHistogramBuckets)"⟩,
  ⟨0, "if", "i.serviceFactory == nil"⟩,
  ⟨1, "assign", "i.serviceFactory = newEsBulkServiceFactory(ctx, esURL, esUsername, esPassword, reconnectBatchCount, bulkIndexTimeoutMs, metrics)"⟩,
  ⟨0, "assign", "i.indexClient = NewElasticIndexClient( i.serviceFactory, metrics, batchSize, bulkIndexMaxRetries, bulkIndexTimeoutSeconds, indexWorkers, time.Duration(batchMaxWaitMs)*time.Millisecond)"⟩,
  ⟨0, "go", "i.indexClient.Run(ctx)"⟩,
  ⟨0, "return", "nil"⟩
]

def newElasticIndexClient : List Instr := [
  ⟨0, "func", "func( connectionFactory bulkServiceFactory, metrics *Metrics, batchSize, maxRetries, timeoutSeconds, workerPool int, batchMaxWait time.Duration) *ElasticIndexClient"⟩,
  ⟨0, "assign", "c := &ElasticIndexClient{ connectionFactory: connectionFactory, metrics: metrics, batchSize: batchSize, batchMaxWait: batchMaxWait, maxRetries: maxRetries, timeoutSeconds: timeoutSeconds, pool: make(chan int, workerPool), indexChan: make(chan *eventIndexRequest), }"⟩,
  ⟨0, "for", "i := 0; i < workerPool; i++"⟩,
  ⟨1, "send", "c.pool <- 1"⟩,
  ⟨0, "return", "c"⟩
]

def kpSetup : List Instr := [
  ⟨0, "func", "func(config map[string]string) error"⟩,
  ⟨0, "assign", "configMap, err := k.buildConfigMap(config)"⟩,
  ⟨0, "if", "err != nil"⟩,
  ⟨1, "return", "err"⟩,
  ⟨0, "assign", "p, err := kafka.NewProducer(configMap)"⟩,
  ⟨0, "if", "err != nil"⟩,
  ⟨1, "return", "err"⟩,
  ⟨0, "assign", "k.producer = p"⟩,
  ⟨0, "assign", "k.topic = config[\"topic\"]"⟩,
  ⟨0, "assign", "k.stopChan = make(chan bool)"⟩,
  ⟨0, "go", "k.startEventsReceiver()"⟩,
  ⟨0, "return", "nil"⟩
]

def kpShutdown : List Instr := [
  ⟨0, "func", "func() error"⟩,
  ⟨0, "stmt", "k.stop()"⟩,
  ⟨0, "return", "nil"⟩
]

def kpStartEventsReceiver : List Instr := [
  ⟨0, "func", "func()"⟩,
  ⟨0, "range", "k.producer.Events()"⟩,
  ⟨1, "typeswitch", "ev := e.(type)"⟩,
  ⟨2, "case", "*kafka.Message"⟩,
  ⟨3, "if", "ev.TopicPartition.Error != nil"⟩,
  ⟨3, "else", ""⟩,
  ⟨2, "case", "*kafka.Stats"⟩,
  ⟨2, "default", ""⟩
]

def kpStop : List Instr := [
  ⟨0, "func", "func()"⟩,
  ⟨0, "stmt", "k.producer.Flush(5000)"⟩,
  ⟨0, "stmt", "k.producer.Close()"⟩
]

def kcSetup : List Instr := [
  ⟨0, "func", "func(config map[string]string, eventchan chan firebolt.Event) error"⟩,
  ⟨0, "assign", "err := k.checkConfig(config)"⟩,
  ⟨0, "if", "err != nil"⟩,
  ⟨1, "return", "err"⟩,
  ⟨0, "assign", "maxInitialPartitionLag, err := strconv.Atoi(config[\"maxpartitionlag\"])"⟩,
  ⟨0, "if", "err != nil"⟩,
  ⟨1, "return", "err"⟩,
  ⟨0, "assign", "k.maxInitialPartitionLag = maxInitialPartitionLag"⟩,
  ⟨0, "if", "config[\"parallelrecoveryenabled\"] == \"\""⟩,
  ⟨1, "assign", "config[\"parallelrecoveryenabled\"] = \"false\""⟩,
  ⟨0, "assign", "k.recoveryConsumerEnabled, _ = strconv.ParseBool(config[\"parallelrecoveryenabled\"])"⟩,
  ⟨0, "assign", "configMap, err := k.buildConfigMap(config)"⟩,
  ⟨0, "if", "err != nil"⟩,
  ⟨1, "return", "err"⟩,
  ⟨0, "stmt", "k.Subscribe([]string{messageTypeRecoveryRequest, messageTypeCancelRecovery})"⟩,
  ⟨0, "assign", "c, err := kafka.NewConsumer(configMap)"⟩,
  ⟨0, "if", "err != nil"⟩,
  ⟨1, "return", "err"⟩,
  ⟨0, "assign", "k.consumer = c"⟩,
  ⟨0, "assign", "k.topic = config[\"topic\"]"⟩,
  ⟨0, "assign", "k.sendCh = eventchan"⟩,
  ⟨0, "assign", "k.doneCh = make(chan struct{}, 1)"⟩,
  ⟨0, "assign", "k.assignPartitionsMutex = sync.Mutex{}"⟩,
  ⟨0, "assign", "k.assignPartitionsCtx, k.assignPartitionsCancel = context.WithCancel(context.Background())"⟩,
  ⟨0, "assign", "k.metrics = &Metrics{}"⟩,
  ⟨0, "stmt", "k.metrics.RegisterConsumerMetrics()"⟩,
  ⟨0, "if", "k.recoveryConsumerEnabled"⟩,
  ⟨1, "assign", "k.recoveryConsumer, err = NewRecoveryConsumer(k.topic, k.sendCh, config, k.metrics, k.Ctx)"⟩,
  ⟨1, "if", "err != nil"⟩,
  ⟨2, "return", "err"⟩,
  ⟨0, "return", "nil"⟩
]

def kcStart : List Instr := [
  ⟨0, "func", "func() error"⟩,
  ⟨0, "assign", "err := k.consumer.Subscribe(k.topic, nil)"⟩,
  ⟨0, "if", "err != nil"⟩,
  ⟨1, "return", "err"⟩,
  ⟨0, "for", ""⟩,
  ⟨1, "select", ""⟩,
  ⟨2, "case-recv:=", "k.consumer.Events()"⟩,
  ⟨3, "if", "event == nil"⟩,
  ⟨4, "return", "nil"⟩,
  ⟨3, "stmt", "k.processEvent(event)"⟩,
  ⟨2, "case-recv", "k.doneCh"⟩,
  ⟨3, "if", "k.recoveryConsumerEnabled"⟩,
  ⟨4, "stmt", "k.recoveryConsumer.Shutdown()"⟩,
  ⟨3, "return", "nil"⟩
]

def kcShutdown : List Instr := [
  ⟨0, "func", "func() error"⟩,
  ⟨0, "send", "k.doneCh <- struct{}{}"⟩,
  ⟨0, "stmt", "k.assignPartitionsCancel()"⟩,
  ⟨0, "assign", "err := k.consumer.Close()"⟩,
  ⟨0, "if", "err != nil"⟩,
  ⟨0, "return", "nil"⟩
]

def newRecoveryTracker : List Instr := [
  ⟨0, "func", "func(metrics *Metrics, ctx fbcontext.FBContext) (*RecoveryTracker, error)"⟩,
  ⟨0, "assign", "r := &RecoveryTracker{ recoveryRequests: make(map[int32]*RecoveryRequests), metrics: metrics, ctx: ctx, }"⟩,
  ⟨0, "return", "r, nil"⟩
]

def rcShutdown : List Instr := [
  ⟨0, "func", "func()"⟩,
  ⟨0, "stmt", "rc.refreshTicker.Stop()"⟩,
  ⟨0, "send", "rc.doneCh <- struct{}{}"⟩,
  ⟨0, "assign", "err := rc.consumer.Close()"⟩,
  ⟨0, "if", "err != nil"⟩,
  ⟨0, "stmt", "rc.tracker.Shutdown()"⟩
]

end Firebolt.ExpectedSrc
