import Firebolt.Properties.TransBase
import Firebolt.Spec.Params
import Firebolt.Generated.Source
import Firebolt.Expected.Source
import Firebolt.Generated.Closure
import Firebolt.Expected.Closure
/-!
# C20 — Node and Kafka client parameters are validated and passed through faithfully

Theorems about `Model/Params.lean` for **all** parameter maps and all default/min/max combinations.
String-level prefix matching is isolated in `classify` (compared with Go on generated keys); the overlay laws are
proved for every classification function, the getter laws for every parser satisfying the stated round-trip.
-/
namespace Firebolt.C20
open Firebolt Firebolt.Params

/-! ### overlay -/

theorem getKV_setKV_eq (m : List (String × String)) (k v : String) : getKV (setKV m k v) k = some v := by
  induction m with
  | nil => simp [setKV, getKV]
  | cons kv rest ih =>
    obtain ⟨k', v'⟩ := kv
    by_cases h : k' = k <;> simp [setKV, getKV, h, ih]

theorem getKV_setKV_ne (m : List (String × String)) (k j v : String) (h : j ≠ k) :
    getKV (setKV m k v) j = getKV m j := by
  induction m with
  | nil => simp [setKV, getKV]; intro e; exact absurd e.symm h
  | cons kv rest ih =>
    obtain ⟨k', v'⟩ := kv
    by_cases h1 : k' = k
    · subst h1
      have : ¬ k' = j := fun e => h e.symm
      simp [setKV, getKV, this]
    · by_cases h2 : k' = j
      · subst h2; simp [setKV, getKV, h1]
      · simp [setKV, getKV, h1, h2, ih]

/-- value of the last parameter that is classified as top-level key `k` -/
def lastTop (k : String) : PMap → Option String
  | [] => none
  | kv :: rest => match lastTop k rest with
    | some v => some v
    | none => if classify kv.1 = .top k then some kv.2 else none

def lastSub (k : String) : PMap → Option String
  | [] => none
  | kv :: rest => match lastSub k rest with
    | some v => some v
    | none => if classify kv.1 = .sub k then some kv.2 else none

/-- **top-level entries**: for every key, the client configuration holds the value of the prefixed parameter naming it
(verbatim, prefix removed) if there is one, and firebolt's baseline value otherwise — for every parameter map. -/
theorem overlay_top (base : ClientConf) (params : PMap) (k : String) :
    getKV (overlay base params).top k = match lastTop k params with
      | some v => some v
      | none => getKV base.top k := by
  unfold overlay
  induction params generalizing base with
  | nil => simp [lastTop]
  | cons kv rest ih =>
    simp only [List.foldl_cons, lastTop]
    rw [ih]
    cases h : lastTop k rest with
    | some v => rfl
    | none =>
      simp only [applyParam]
      cases hc : classify kv.1 with
      | other => simp
      | sub k' => simp
      | top k' =>
        by_cases hk : k' = k
        · subst hk; simp [getKV_setKV_eq]
        · have : k ≠ k' := fun e => hk e.symm
          simp [hk, getKV_setKV_ne _ _ _ _ this]

/-- **default topic configuration**: same law for the sub-map -/
theorem overlay_sub (base : ClientConf) (params : PMap) (k : String) :
    getKV ((overlay base params).sub.getD []) k = match lastSub k params with
      | some v => some v
      | none => getKV (base.sub.getD []) k := by
  unfold overlay
  induction params generalizing base with
  | nil => simp [lastSub]
  | cons kv rest ih =>
    simp only [List.foldl_cons, lastSub]
    rw [ih]
    cases h : lastSub k rest with
    | some v => rfl
    | none =>
      simp only [applyParam]
      cases hc : classify kv.1 with
      | other => simp
      | top k' => simp
      | sub k' =>
        by_cases hk : k' = k
        · subst hk; simp [getKV_setKV_eq]
        · have : k ≠ k' := fun e => hk e.symm
          simp [hk, getKV_setKV_ne _ _ _ _ this]

/-- **nothing else leaks**: parameters without the prefix never change the client configuration -/
theorem overlay_ignores_unprefixed (base : ClientConf) (params : PMap)
    (h : ∀ kv ∈ params, classify kv.1 = .other) : overlay base params = base := by
  unfold overlay
  induction params generalizing base with
  | nil => rfl
  | cons kv rest ih =>
    simp only [List.foldl_cons]
    have h1 : applyParam base kv = base := by simp [applyParam, h kv (List.mem_cons_self ..)]
    rw [h1]
    exact ih base (fun kv' hm => h kv' (List.mem_cons_of_mem _ hm))

/-- adding or removing unprefixed parameters anywhere in the map never changes the result -/
theorem overlay_filter_prefixed (base : ClientConf) (params : PMap) :
    overlay base params = overlay base (params.filter (fun kv => classify kv.1 ≠ .other)) := by
  unfold overlay
  induction params generalizing base with
  | nil => rfl
  | cons kv rest ih =>
    by_cases hc : classify kv.1 = .other
    · simp only [List.foldl_cons]
      have h1 : applyParam base kv = base := by simp [applyParam, hc]
      rw [h1, ih]; simp [hc]
    · simp only [List.foldl_cons]
      rw [ih]; simp [hc]

/-! ### source parameter checks -/

/-- `checkConfig` accepts exactly the configurations the statement lists -/
theorem checkConfig_iff (m : PMap) : checkConfig m = specCheck m := by
  unfold checkConfig specCheck
  generalize lookup m "brokers" = a
  generalize lookup m "consumergroup" = b
  generalize lookup m "topic" = c
  generalize lookup m "buffersize" = bs
  generalize lookup m "maxpartitionlag" = ml
  generalize lookup m "parallelrecoveryenabled" = pe
  by_cases h1 : a = "" <;> simp [h1]
  by_cases h2 : b = "" <;> simp [h2]
  by_cases h3 : c = "" <;> simp [h3]
  by_cases h4 : bs = ""
  · have : atoi "" = none := by decide
    simp [h4, this]
  · simp only [h4]
    cases hb : atoi bs with
    | none => simp
    | some n =>
      by_cases hb1 : n < 1
      · have : ¬ 0 < n := by omega
        simp [hb1, this]
      · have : 0 < n := by omega
        simp only [hb1, this]
        by_cases hp : pe = "" <;> by_cases h5 : ml = "" <;> simp [h5, hp]
        all_goals (cases hl : atoi ml with
          | none => simp [h5, hp]
          | some l => by_cases hl0 : 0 ≤ l <;> simp [hl0, h5, hp])

/-! ### typed getters -/

theorem intRequired_spec (v : Option String) (d mn mx : Int) :
    intRequired v mn mx = specInt true v d mn mx := by
  unfold intRequired specInt
  cases v with
  | none => simp
  | some s =>
    simp only []
    cases atoi s with
    | none => rfl
    | some i =>
      simp only []
      by_cases h : i > mx ∨ i < mn
      · have : ¬ (mn ≤ i ∧ i ≤ mx) := by omega
        simp [h, this]
      · have : mn ≤ i ∧ i ≤ mx := by omega
        simp [h, this]

/-- IntConfig returns the configured value or the default exactly when it parses and lies within the bounds
(given that the default survives `Itoa`/`Atoi`, which `atoi_itoa_*` below establish on sampled values and the
correspondence check on the boundary values of int64) -/
theorem intConfig_spec (v : Option String) (d mn mx : Int) (hrt : atoi (itoa d) = some d) :
    (intConfig v d mn mx).1 = specInt false v d mn mx := by
  unfold intConfig
  cases v with
  | some s =>
    simp only [Option.getD_some]
    rw [intRequired_spec (some s) d mn mx]
    unfold specInt; rfl
  | none =>
    simp only [Option.getD_none]
    unfold intRequired specInt
    simp only [hrt, Bool.false_eq_true, if_false]
    by_cases h : d > mx ∨ d < mn
    · have : ¬ (mn ≤ d ∧ d ≤ mx) := by omega
      simp [h, this]
    · have : mn ≤ d ∧ d ≤ mx := by omega
      simp [h, this]

theorem strConfig_spec (v : Option String) (d : String) :
    (strConfig v d).1 = specStr false v d ∧ strRequired v = specStr true v d := by
  unfold strConfig strRequired specStr
  cases v <;> simp

/-- Float64Config returns value-or-default exactly when it parses and lies within the bounds, for every float
parser/formatter pair with `parseF (fmtF d) = some d` (shortest round-trip formatting has this property; `%f` did not) -/
theorem floatConfig_spec {F : Type} (parseF : String → Option F) (fmtF : F → String) (gt lt : F → F → Bool)
    (v : Option String) (d mn mx : F) (hrt : parseF (fmtF d) = some d) :
    (floatConfig parseF fmtF gt lt v d mn mx).1 =
      match v with
      | some s => (match parseF s with
        | some x => if gt x mx || lt x mn then .err else .ok x
        | none => .err)
      | none => if gt d mx || lt d mn then .err else .ok d := by
  unfold floatConfig floatRequired
  cases v with
  | some s => simp only [Option.getD_some]; cases parseF s <;> rfl
  | none => simp [hrt]

/-- the previous `%f` behaviour violated the clause: a formatter that loses digits makes the default come back changed.
(abstract witness: any formatter/parser pair with `parseF (fmtF d) = some d'`, `d' ≠ d`, in bounds) -/
theorem floatConfig_lossy_formatter_changes_default {F : Type} (parseF : String → Option F) (fmtF : F → String)
    (gt lt : F → F → Bool) (d d' mn mx : F) (h : parseF (fmtF d) = some d') (hb : (gt d' mx || lt d' mn) = false) :
    (floatConfig parseF fmtF gt lt none d mn mx).1 = .ok d' := by
  unfold floatConfig floatRequired
  simp [h, hb]

/-! ### Atoi ∘ Itoa -/

theorem digitVal_of_isDigit (c : Char) (h : c.isDigit = true) : digitVal c = some (c.toNat - '0'.toNat) := by
  unfold digitVal
  have : '0' ≤ c ∧ c ≤ '9' := by
    simp only [Char.isDigit, Bool.and_eq_true, decide_eq_true_eq] at h
    constructor
    · exact Char.le_def.2 (by simpa using h.1)
    · exact Char.le_def.2 (by simpa using h.2)
  simp [this]

theorem foldlM_digits (cs : List Char) (h : ∀ c ∈ cs, c.isDigit = true) (init : Nat) :
    cs.foldlM (fun acc c => (digitVal c).map (fun d => acc * 10 + d)) init = some (Nat.ofDigitChars 10 cs init) := by
  induction cs generalizing init with
  | nil => simp
  | cons c cs ih =>
    simp only [List.foldlM_cons, digitVal_of_isDigit c (h c (List.mem_cons_self ..)), Option.map_some, Option.bind_eq_bind, Option.bind_some]
    rw [ih (fun d hd => h d (List.mem_cons_of_mem _ hd)), Nat.ofDigitChars_cons, Nat.mul_comm]

theorem digitsVal_toDigits (n : Nat) : digitsVal (Nat.toDigits 10 n) = some n := by
  have hne : Nat.toDigits 10 n ≠ [] := Nat.toDigits_ne_nil
  have hd : ∀ c ∈ Nat.toDigits 10 n, c.isDigit = true := fun c hc => Nat.isDigit_of_mem_toDigits (by decide) (by decide) hc
  unfold digitsVal
  cases hcs : Nat.toDigits 10 n with
  | nil => exact absurd hcs hne
  | cons c cs =>
    rw [hcs] at hd
    simp only []
    rw [foldlM_digits (c :: cs) hd 0, ← hcs, Nat.ofDigitChars_ten_toDigits]

theorem head_isDigit (n : Nat) : ∃ c cs, Nat.toDigits 10 n = c :: cs ∧ c.isDigit = true := by
  cases hcs : Nat.toDigits 10 n with
  | nil => exact absurd hcs Nat.toDigits_ne_nil
  | cons c cs => exact ⟨c, cs, rfl, Nat.isDigit_of_mem_toDigits (b := 10) (n := n) (by decide) (by decide) (by rw [hcs]; exact List.mem_cons_self ..)⟩

theorem splitSign_digit (c : Char) (cs : List Char) (hd : c.isDigit = true) : splitSign (c :: cs) = (false, c :: cs) := by
  have hm : c ≠ '-' := by intro e; subst e; simp [Char.isDigit] at hd
  have hp : c ≠ '+' := by intro e; subst e; simp [Char.isDigit] at hd
  unfold splitSign
  split
  · rename_i r heq; simp at heq; exact absurd heq.1 hm
  · rename_i r heq; simp at heq; exact absurd heq.1 hp
  · rfl

theorem atoiC_nonneg (n : Nat) (h : (n : Int) ≤ 2^63 - 1) : atoiC (Nat.toDigits 10 n) = some (n : Int) := by
  obtain ⟨c, cs, hcs, hd⟩ := head_isDigit n
  unfold atoiC
  rw [hcs, splitSign_digit c cs hd, ← hcs, digitsVal_toDigits]
  simp; omega

theorem atoiC_neg (m : Nat) (h : -(2^63 : Int) ≤ -(m : Int)) : atoiC ('-' :: Nat.toDigits 10 m) = some (-(m : Int)) := by
  unfold atoiC
  simp only [splitSign, digitsVal_toDigits, if_true]
  simp; omega

/-- `strconv.Atoi (strconv.Itoa n) = n` for every int64 `n` (the model's re-implementations) -/
theorem atoi_itoa (n : Int) (h1 : -(2^63) ≤ n) (h2 : n ≤ 2^63 - 1) : atoi (itoa n) = some n := by
  unfold atoi itoa
  rw [Int.toString_eq_repr, Int.repr_eq_if]
  by_cases hn : 0 ≤ n
  · simp only [hn, if_true, Nat.toList_repr]
    have := atoiC_nonneg n.toNat (by omega)
    rw [this]; congr 1; omega
  · simp only [hn, if_false, String.toList_append, Nat.toList_repr]
    have e : "-".toList = ['-'] := rfl
    rw [e, List.singleton_append]
    have := atoiC_neg (-n).toNat (by omega)
    rw [this]; congr 1; omega

/-- IntConfig, unconditionally for every default in the int64 range -/
theorem intConfig_spec_int64 (v : Option String) (d mn mx : Int) (h1 : -(2^63) ≤ d) (h2 : d ≤ 2^63 - 1) :
    (intConfig v d mn mx).1 = specInt false v d mn mx := intConfig_spec v d mn mx (atoi_itoa d h1 h2)

/-! ### boundary values, kernel-evaluated -/


theorem atoi_itoa_samples :
    ∀ n ∈ ([0, 1, -1, 5, 10, 100, 1000, 50000, 2147483647, -2147483648, 9223372036854775807, -9223372036854775808] : List Int),
      atoi (itoa n) = some n := by
  decide

theorem atoi_rejects :
    ∀ s ∈ ["", "-", "+", "1_000", "0x10", "9223372036854775808", "-9223372036854775809", "1e3", " 1", "1 ", "12a"],
      atoi s = none := by
  decide

/-- premises of the overlay laws are met by a non-trivial map: an override of a default, a new key, a topic-level key, junk -/
example :
    let base : ClientConf := ⟨[("group.id", "g"), ("session.timeout.ms", "10000")], some [("auto.offset.reset", "earliest")]⟩
    let params : PMap := [("brokers", "b"), ("librdkafka.session.timeout.ms", "5"), ("session.timeout.ms", "1"),
                          ("librdkafka.{topic}.auto.offset.reset", "latest"), ("librdkafka.fetch.min.bytes", "3")]
    overlay base params = ⟨[("group.id", "g"), ("session.timeout.ms", "5"), ("fetch.min.bytes", "3")], some [("auto.offset.reset", "latest")]⟩ := by
  decide +kernel


/-! ### the functions this model was transcribed from are unchanged (regenerated from /repo on every run) -/
theorem source_applyLibrdkafkaConf : GeneratedSrc.applyLibrdkafkaConf = ExpectedSrc.applyLibrdkafkaConf := by rfl
theorem source_kcBuildConfigMap : GeneratedSrc.kcBuildConfigMap = ExpectedSrc.kcBuildConfigMap := by rfl
theorem source_kcCheckConfig : GeneratedSrc.kcCheckConfig = ExpectedSrc.kcCheckConfig := by rfl
theorem source_rcBuildConfigMap : GeneratedSrc.rcBuildConfigMap = ExpectedSrc.rcBuildConfigMap := by rfl
theorem source_mrBuildConfigMap : GeneratedSrc.mrBuildConfigMap = ExpectedSrc.mrBuildConfigMap := by rfl
theorem source_kpBuildConfigMap : GeneratedSrc.kpBuildConfigMap = ExpectedSrc.kpBuildConfigMap := by rfl
theorem source_kpCheckConfig : GeneratedSrc.kpCheckConfig = ExpectedSrc.kpCheckConfig := by rfl
theorem source_hIntConfig : GeneratedSrc.hIntConfig = ExpectedSrc.hIntConfig := by rfl
theorem source_hIntConfigRequired : GeneratedSrc.hIntConfigRequired = ExpectedSrc.hIntConfigRequired := by rfl
theorem source_hStringConfig : GeneratedSrc.hStringConfig = ExpectedSrc.hStringConfig := by rfl
theorem source_hStringConfigRequired : GeneratedSrc.hStringConfigRequired = ExpectedSrc.hStringConfigRequired := by rfl
theorem source_hFloat64Config : GeneratedSrc.hFloat64Config = ExpectedSrc.hFloat64Config := by rfl
theorem source_hFloat64ConfigRequired : GeneratedSrc.hFloat64ConfigRequired = ExpectedSrc.hFloat64ConfigRequired := by rfl


/-! ### functions the model's assumptions rest on (construction, wiring, surrounding calls) are unchanged -/
theorem source_kcSetup : GeneratedSrc.kcSetup = ExpectedSrc.kcSetup := by rfl
theorem source_kpSetup : GeneratedSrc.kpSetup = ExpectedSrc.kpSetup := by rfl

/-! ### parameters pass through the executor untouched -/
theorem source_withConfig : GeneratedSrc.withConfig = ExpectedSrc.withConfig := by rfl

/-! ### influence closure: the pinned functions, and every function of the repository that writes a struct field or package
variable they read, are unchanged (digests regenerated from /repo on every run; a difference names the functions) -/
/-! ### The code itself, translated (`Generated/Trans.lean`, rewritten from /repo on every run by extractor/translate.go)

The `translated_*` theorems are about MiniGo terms the translator produced from the current Go source: for every
environment the translated fragment does what the hand-written model function says.  They are semantic obligations —
a rewrite that preserves the behaviour keeps them provable, a changed comparison, bound or argument does not. -/
section Translated
open Firebolt.MiniGo Firebolt.TransBase

/-- IntConfigRequired, translated: an error iff the key is absent, the value is not an integer for `strconv.Atoi`, or the
integer lies outside `[min, max]` (compared as integers); otherwise exactly the parsed integer.  `Atoi` is applied to the
value found under the name. -/
theorem translated_intConfigRequired (σ : Env) :
    let r := run Trans.intConfigRequired σ
    let v := σ "strconv.Atoi#0"
    r.stuck = false ∧
    r.ret = (if σ "lookup c#1" = 0 ∨ σ "strconv.Atoi#1" ≠ 0 ∨ v > σ "maxValue" ∨ v < σ "minValue"
             then some [0, σ "fmt.Errorf#0"] else some [v, 0]) ∧
    (σ "lookup c#1" ≠ 0 → ("strconv.Atoi", [σ "lookup c#0"]) ∈ r.calls) ∧
    r.calls.head? = some ("lookup c", [σ "name"]) := by
  by_cases h1 : σ "lookup c#1" = 0 <;> by_cases h2 : σ "strconv.Atoi#1" = 0 <;>
  by_cases h3 : σ "strconv.Atoi#0" > σ "maxValue" <;> by_cases h4 : σ "strconv.Atoi#0" < σ "minValue" <;>
  minigo_simp [Trans.intConfigRequired, h1, h2, h3, h4] <;> (try omega)

/-- IntConfig: an absent key is first set to `Itoa(default)` (a present one is left alone), then the required getter decides -/
theorem translated_intConfig (σ : Env) :
    let r := run Trans.intConfig σ
    r.stuck = false ∧ r.ret = some [σ "c.IntConfigRequired#0"] ∧
    r.env "c[name]" = (if σ "lookup c#1" = 0 then σ "strconv.Itoa#0" else σ "c[name]") ∧
    r.calls = [("lookup c", [σ "name"])] ++ (if σ "lookup c#1" = 0 then [("strconv.Itoa", [σ "defaultValue"])] else []) ++
              [("c.IntConfigRequired", [σ "name", σ "minValue", σ "maxValue"])] := by
  by_cases h1 : σ "lookup c#1" = 0 <;> minigo_simp [Trans.intConfig, h1]

/-- StringConfigRequired: the value found, whatever it is (the empty string included), or an error iff the key is absent -/
theorem translated_stringConfigRequired (σ : Env) :
    (run Trans.stringConfigRequired σ).ret =
      (if σ "lookup c#1" = 0 then some [σ "\"\"", σ "fmt.Errorf#0"] else some [σ "lookup c#0", 0]) ∧
    (run Trans.stringConfigRequired σ).stuck = false := by
  by_cases h1 : σ "lookup c#1" = 0 <;> minigo_simp [Trans.stringConfigRequired, h1]

/-- StringConfig: an absent key is set to the default as it is; a present one is left alone -/
theorem translated_stringConfig (σ : Env) :
    let r := run Trans.stringConfig σ
    r.stuck = false ∧ r.ret = some [σ "c.StringConfigRequired#0"] ∧
    r.env "c[name]" = (if σ "lookup c#1" = 0 then σ "defaultValue" else σ "c[name]") := by
  by_cases h1 : σ "lookup c#1" = 0 <;> minigo_simp [Trans.stringConfig, h1]

/-- checkConfig of the Kafka source, translated (`fmt.Errorf` never returns nil: `hE`): accepted exactly when brokers,
consumergroup, topic and buffersize are non-empty, buffersize is an integer ≥ 1 for `strconv.Atoi`, maxpartitionlag — after an
empty one has been replaced by `Itoa(MaxInt64)` — is an integer ≥ 0, and parallelrecoveryenabled is empty or a boolean for
`strconv.ParseBool`; an empty maxpartitionlag is the only setting it writes -/
theorem translated_checkConfig (σ : Env) (hE : σ "fmt.Errorf#0" ≠ 0) :
    let r := run Trans.kcCheckConfig σ
    let e := σ "\"\""
    r.stuck = false ∧
    (r.ret = some [0] ↔
      (σ "config[\"brokers\"]" ≠ e ∧ σ "config[\"consumergroup\"]" ≠ e ∧ σ "config[\"topic\"]" ≠ e ∧ σ "config[\"buffersize\"]" ≠ e ∧
       σ "strconv.Atoi(config[\"buffersize\"])#1" = 0 ∧ σ "strconv.Atoi(config[\"buffersize\"])#0" ≥ 1 ∧
       σ "strconv.Atoi(config[\"maxpartitionlag\"])#1" = 0 ∧ σ "strconv.Atoi(config[\"maxpartitionlag\"])#0" ≥ 0 ∧
       (σ "config[\"parallelrecoveryenabled\"]" = e ∨ σ "strconv.ParseBool#1" = 0))) ∧
    (r.ret = some [0] →
      r.env "config[\"maxpartitionlag\"]" =
        if σ "config[\"maxpartitionlag\"]" = e then σ "strconv.Itoa#0" else σ "config[\"maxpartitionlag\"]") ∧
    (σ "config[\"maxpartitionlag\"]" = e → r.ret = some [0] → ("strconv.Itoa", [9223372036854775807]) ∈ r.calls) := by
  by_cases h1 : σ "config[\"brokers\"]" = σ "\"\""
  · minigo_simp [Trans.kcCheckConfig, hE, h1] <;> (try omega)
  by_cases h2 : σ "config[\"consumergroup\"]" = σ "\"\""
  · minigo_simp [Trans.kcCheckConfig, hE, h1, h2] <;> (try omega)
  by_cases h3 : σ "config[\"topic\"]" = σ "\"\""
  · minigo_simp [Trans.kcCheckConfig, hE, h1, h2, h3] <;> (try omega)
  by_cases h4 : σ "config[\"buffersize\"]" = σ "\"\""
  · minigo_simp [Trans.kcCheckConfig, hE, h1, h2, h3, h4] <;> (try omega)
  by_cases h5 : ¬ σ "strconv.Atoi(config[\"buffersize\"])#1" = 0
  · minigo_simp [Trans.kcCheckConfig, hE, h1, h2, h3, h4, h5] <;> (try omega)
  by_cases h6 : σ "strconv.Atoi(config[\"buffersize\"])#0" < 1
  · minigo_simp [Trans.kcCheckConfig, hE, h1, h2, h3, h4, h5, h6] <;> (try omega)
  by_cases h7 : σ "config[\"maxpartitionlag\"]" = σ "\"\"" <;>
  by_cases h8 : σ "strconv.Atoi(config[\"maxpartitionlag\"])#1" = 0 <;>
  by_cases h9 : σ "strconv.Atoi(config[\"maxpartitionlag\"])#0" < 0 <;>
  by_cases h10 : σ "config[\"parallelrecoveryenabled\"]" = σ "\"\"" <;> by_cases h11 : σ "strconv.ParseBool#1" = 0 <;>
  minigo_simp [Trans.kcCheckConfig, hE, h1, h2, h3, h4, h5, h6, h7, h8, h9, h10, h11] <;> (try omega)

/-- one key of ApplyLibrdkafkaConf, translated: a key carrying the prefix `librdkafka.` is set on the client configuration under
the name without the prefix, with its value as it is; any other key is not touched; a failing SetKey ends the overlay with
that error -/
theorem translated_applyConfBody (σ : Env) :
    obs Trans.applyConfBody σ =
      ⟨[("strings.HasPrefix", [σ "k", σ "\"librdkafka.\""])] ++
        (if σ "strings.HasPrefix#0" ≠ 0 then
          [("configMap.SetKey", [σ "strings.TrimPrefix(k, \"librdkafka.\")", σ "v"])] ++
          (if σ "configMap.SetKey#0" ≠ 0 then
            [("fmt.Printf", [σ "\"failed to populate kafka config map with librdkafka values for key %s\\n\"", σ "k"])] else [])
         else []),
       (if σ "strings.HasPrefix#0" ≠ 0 ∧ σ "configMap.SetKey#0" ≠ 0 then some [σ "configMap.SetKey#0"] else none), false⟩ := by
  by_cases h1 : σ "strings.HasPrefix#0" = 0 <;> by_cases h2 : σ "configMap.SetKey#0" = 0 <;>
  minigo_simp [Trans.applyConfBody, h1, h2]

end Translated

theorem closure_unchanged : GeneratedClo.C20 = ExpectedClo.C20 := by rfl

end Firebolt.C20
