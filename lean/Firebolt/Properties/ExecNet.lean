import Firebolt.Model.ExecNet
import Firebolt.Properties.ExecFlow
/-!
# The product of the node components: a whole tree under every global schedule

`Model/ExecNet.lean` composes one `Exec` component per node over their shared channels.  Here:

* `reachable_ginv`: in every state reachable by any global schedule, every node satisfies every component invariant
  (`AllInv`: cascade, channel ledger, edge ledger, accounting, drain) and the two copies of every channel agree
  (`Link`: the child's input is the parent's buffer, closed on both sides or on neither, and what the upstream "sent" to
  the child component is exactly what the parent component enqueued);
* the tree-level flow theorems at global quiescence (`tree_child`, `tree_handler`, `tree_counters`, `tree_discard`),
  obtained from the component theorems through `Link`;
* the absolute form for trees without discarding nodes (`tree_flow_nodiscard`): what every node received is, as a
  multiset, the denotational prediction computed from the stream alone.
-/
namespace Firebolt.Exec

/-- parent-side view of channel `k`, child-side view of the input -/
def PV (s : St) (k : Nat) : List Ev × Bool × List Ev := ((s.outs k).buf, (s.outs k).closed, s.enq k)
def KV (s : St) : List Ev × Bool × List Ev := (s.inp, s.inpClosed, s.upSent)

/-! ### what a component step does to the two views -/

theorem trySend_kv (s s' : St) (k : Nat) (x : Ev) (h : trySend s k x = some s') : KV s' = KV s := by
  simp only [trySend] at h
  split at h
  · cases h; rfl
  · split at h
    · cases h; rfl
    · split at h
      · cases h; rfl
      · simp at h

theorem kv_upSend (c : Cfg) (s s' : St) (x : Ev) (hs : step c s (.upSend x) = some s') :
    s.inpClosed = false ∧ KV s' = (s.inp ++ [x], false, s.upSent ++ [x]) := by
  simp only [step] at hs
  split at hs
  · simp at hs
  · rename_i h
    cases hs
    have : s.inpClosed = false := by simpa using h
    exact ⟨this, by simp [KV, this]⟩

theorem kv_upClose (c : Cfg) (s s' : St) (hs : step c s .upClose = some s') :
    s.inpClosed = false ∧ KV s' = (s.inp, true, s.upSent) := by
  simp only [step] at hs
  split at hs
  · simp at hs
  · rename_i h
    cases hs
    exact ⟨by simpa using h, rfl⟩

theorem kv_recv (c : Cfg) (s s' : St) (w : Nat) (hs : step c s (.recv w) = some s') :
    ∃ e rest, s.inp = e :: rest ∧ KV s' = (rest, s.inpClosed, s.upSent) := by
  simp only [step] at hs
  og hs
  og hs
  rename_i e rest _ hinp
  refine ⟨e, rest, hinp, ?_⟩
  split at hs <;> (cases hs; rfl)

/-- every other action leaves the node's input side alone -/
theorem kv_other (c : Cfg) (s s' : St) (a : Act) (hs : step c s a = some s')
    (h1 : ∀ x, a ≠ .upSend x) (h2 : a ≠ .upClose) (h3 : isRecv a = false) : KV s' = KV s := by
  cases a with
  | upSend e => exact absurd rfl (h1 e)
  | upClose => exact absurd rfl h2
  | recv w => simp [isRecv] at h3
  | procReturn w => simp only [step] at hs; og hs; og hs; cases hs; rfl
  | complete i => simp only [step] at hs; og hs; cases hs; rfl
  | send w =>
    simp only [step] at hs; og hs; og hs
    rename_i k x todo _
    cases ht : trySend s k x with
    | none => simp [ht] at hs
    | some s1 => simp [ht] at hs; subst hs; exact trySend_kv s s1 k x ht
  | finish w => simp only [step] at hs; og hs; og hs; cases hs; rfl
  | cbSend i =>
    simp only [step] at hs; og hs
    rename_i k x todo _
    cases ht : trySend s k x with
    | none => simp [ht] at hs
    | some s1 => simp [ht] at hs; subst hs; exact trySend_kv s s1 k x ht
  | cbFinish i => simp only [step] at hs; og hs; cases hs; rfl
  | seeClosed w => simp only [step] at hs; og hs; og hs; og hs; cases hs; rfl
  | wgDone w => simp only [step] at hs; og hs; og hs; cases hs; rfl
  | wgWait w => simp only [step] at hs; og hs; og hs; og hs; cases hs; rfl
  | onceEnter w =>
    simp only [step] at hs; og hs; og hs
    split at hs
    · cases hs; rfl
    · og hs; cases hs; rfl
  | shutEnter w => simp only [step] at hs; og hs; og hs; cases hs; rfl
  | shutExit w => simp only [step] at hs; og hs; og hs; og hs; cases hs; rfl
  | closeAll w =>
    simp only [step] at hs; og hs; og hs
    split at hs <;> (cases hs; rfl)
  | downRecv k => simp only [step] at hs; split at hs <;> first | (cases hs; rfl) | simp at hs

/-- a send attempt enqueues exactly when the target is open and has room; otherwise the channel is untouched -/
theorem trySend_pv (s s' : St) (k0 : Nat) (x : Ev) (h : trySend s k0 x = some s') (k : Nat) :
    PV s' k = if k = k0 ∧ (s.outs k0).closed = false ∧ (s.outs k0).buf.length < (s.outs k0).cap
              then ((s.outs k).buf ++ [x], false, s.enq k ++ [x]) else PV s k := by
  simp only [trySend] at h
  split at h
  · rename_i hc; cases h; simp [PV, hc]
  · rename_i hc
    have hcf : (s.outs k0).closed = false := by simpa using hc
    split at h
    · rename_i hr
      cases h
      by_cases hk : k = k0
      · subst hk; simp [PV, hcf, hr]
      · simp [PV, hk, upd_other _ _ _ _ hk]
    · rename_i hr
      split at h
      · cases h; simp [PV, hr]
      · simp at h

def roomB (s : St) (k : Nat) : Bool := !(s.outs k).closed && (s.outs k).buf.length < (s.outs k).cap

theorem trySend_pv' (s s' : St) (k0 : Nat) (x : Ev) (h : trySend s k0 x = some s') (k : Nat) :
    PV s' k = if k = k0 ∧ roomB s k0 = true then ((s.outs k).buf ++ [x], false, s.enq k ++ [x]) else PV s k := by
  rw [trySend_pv s s' k0 x h k]
  simp [roomB]

theorem pv_push (c : Cfg) (s s' : St) (a : Act) (k0 : Nat) (x : Ev) (hs : step c s a = some s')
    (hp : pushOf c s a = some (k0, x)) :
    (s.outs k0).closed = false ∧ ∀ k, PV s' k = if k = k0 then ((s.outs k).buf ++ [x], false, s.enq k ++ [x]) else PV s k := by
  cases a with
  | send w =>
    simp only [pushOf] at hp; og hp
    rename_i hw
    og hp
    rename_i k1 x1 todo hpc
    split at hp <;> simp at hp
    rename_i hroom
    obtain ⟨rfl, rfl⟩ := hp
    simp only [step, hw, if_true, hpc] at hs
    cases ht : trySend s k1 x1 with
    | none => simp [ht] at hs
    | some s1 =>
      simp [ht] at hs; subst hs
      refine ⟨by simp at hroom; exact hroom.1, fun k => ?_⟩
      have := trySend_pv' s s1 k1 x1 ht k
      have hr : roomB s k1 = true := by simpa [roomB] using hroom
      simp only [hr, and_true] at this
      simpa [PV] using this
  | cbSend i =>
    simp only [pushOf] at hp; og hp
    rename_i k1 x1 todo hcb
    split at hp <;> simp at hp
    rename_i hroom
    obtain ⟨rfl, rfl⟩ := hp
    simp only [step, hcb] at hs
    cases ht : trySend s k1 x1 with
    | none => simp [ht] at hs
    | some s1 =>
      simp [ht] at hs; subst hs
      refine ⟨by simp at hroom; exact hroom.1, fun k => ?_⟩
      have := trySend_pv' s s1 k1 x1 ht k
      have hr : roomB s k1 = true := by simpa [roomB] using hroom
      simp only [hr, and_true] at this
      simpa [PV] using this
  | _ => simp [pushOf] at hp

theorem pv_close (c : Cfg) (s s' : St) (a : Act) (hs : step c s a = some s') (hc : closesOf c s a = true) :
    (∀ k, k < c.K → (s.outs k).closed = false) ∧
    ∀ k, PV s' k = if k < c.K then ((s.outs k).buf, true, s.enq k) else PV s k := by
  cases a with
  | closeAll w =>
    simp only [closesOf, Bool.and_eq_true, decide_eq_true_eq, beq_iff_eq, Bool.not_eq_true'] at hc
    obtain ⟨⟨hw, hpc⟩, hany⟩ := hc
    simp only [step, hw, if_true, hpc, hany] at hs
    simp at hs
    subst hs
    refine ⟨?_, ?_⟩
    · intro k hk
      rw [List.any_eq_false] at hany
      have := hany k (by simpa using hk)
      simpa using this
    · intro k
      by_cases hk : k < c.K <;> simp [PV, hk]
  | _ => simp [closesOf] at hc

theorem pv_down (c : Cfg) (s s' : St) (i : Nat) (hs : step c s (.downRecv i) = some s') :
    ∃ x rest, (s.outs i).buf = x :: rest ∧ ∀ k, PV s' k = if k = i then (rest, (s.outs i).closed, s.enq i) else PV s k := by
  simp only [step] at hs
  split at hs
  · rename_i x rest hb
    cases hs
    refine ⟨x, rest, hb, fun k => ?_⟩
    by_cases hk : k = i
    · subst hk; simp [PV]
    · simp [PV, hk, upd_other _ _ _ _ hk]
  · simp at hs

/-- every other action leaves every downstream channel alone -/
theorem pv_other (c : Cfg) (s s' : St) (a : Act) (hs : step c s a = some s') (hp : pushOf c s a = none)
    (hc : closesOf c s a = false) (hd : ∀ i, a ≠ .downRecv i) (k : Nat) : PV s' k = PV s k := by
  cases a with
  | upSend e => simp only [step] at hs; split at hs <;> first | (cases hs; rfl) | simp at hs
  | upClose => simp only [step] at hs; split at hs <;> first | (cases hs; rfl) | simp at hs
  | recv w =>
    simp only [step] at hs; og hs; og hs
    split at hs <;> (cases hs; rfl)
  | procReturn w => simp only [step] at hs; og hs; og hs; cases hs; rfl
  | complete i => simp only [step] at hs; og hs; cases hs; rfl
  | send w =>
    simp only [step] at hs; og hs
    rename_i hw
    og hs
    rename_i k1 x1 todo hpc
    simp only [pushOf, hw, if_true, hpc] at hp
    cases ht : trySend s k1 x1 with
    | none => simp [ht] at hs
    | some s1 =>
      simp [ht] at hs; subst hs
      have := trySend_pv' s s1 k1 x1 ht k
      have hr : roomB s k1 = false := by
        cases h : roomB s k1 with
        | false => rfl
        | true => simp only [roomB] at h; simp [h] at hp
      simp only [hr] at this
      simpa [PV] using this
  | finish w => simp only [step] at hs; og hs; og hs; cases hs; rfl
  | cbSend i =>
    simp only [step] at hs; og hs
    rename_i k1 x1 todo hcb
    simp only [pushOf, hcb] at hp
    cases ht : trySend s k1 x1 with
    | none => simp [ht] at hs
    | some s1 =>
      simp [ht] at hs; subst hs
      have := trySend_pv' s s1 k1 x1 ht k
      have hr : roomB s k1 = false := by
        cases h : roomB s k1 with
        | false => rfl
        | true => simp only [roomB] at h; simp [h] at hp
      simp only [hr] at this
      simpa [PV] using this
  | cbFinish i => simp only [step] at hs; og hs; cases hs; rfl
  | seeClosed w => simp only [step] at hs; og hs; og hs; og hs; cases hs; rfl
  | wgDone w => simp only [step] at hs; og hs; og hs; cases hs; rfl
  | wgWait w => simp only [step] at hs; og hs; og hs; og hs; cases hs; rfl
  | onceEnter w =>
    simp only [step] at hs; og hs; og hs
    split at hs
    · cases hs; rfl
    · og hs; cases hs; rfl
  | shutEnter w => simp only [step] at hs; og hs; og hs; cases hs; rfl
  | shutExit w => simp only [step] at hs; og hs; og hs; og hs; cases hs; rfl
  | closeAll w =>
    simp only [step] at hs; og hs
    rename_i hw
    og hs
    rename_i hpc
    split at hs
    · cases hs; rfl
    · rename_i hany
      simp [closesOf, hw, hpc] at hc
      simp at hany
      obtain ⟨j, hj, hcl⟩ := hc
      have := hany j hj
      rw [this] at hcl; simp at hcl
  | downRecv i => exact absurd rfl (hd i)


/-! ### the global invariant -/

/-- the two copies of every channel of the tree agree -/
def Link (N : Net) : Prop := ∀ p k, k < (N.cfg p).K → KV (N.st (k :: p)) = PV (N.st p) k

structure GInv (N : Net) : Prop where
  all : ∀ p, AllInv (N.cfg p) (N.st p)
  link : Link N

theorem partner_all (c : Cfg) (s : St) (a : Act) (h : AllInv c s) : AllInv c (partner c s a) := by
  unfold partner
  cases hs : step c s a with
  | none => simpa using h
  | some s' => simpa using step_all c s s' a h hs

theorem cons_ne_self (k : Nat) (p : Path) : k :: p ≠ p := by
  intro h; have := congrArg List.length h; simp at this

theorem cons_cons_ne (k j : Nat) (p : Path) : k :: j :: p ≠ p := by
  intro h; have := congrArg List.length h; simp at this; omega

/-- the shape of a global step -/
theorem gstep_shape (N N' : Net) (p : Path) (a : Act) (hg : gstep N p a = some N') :
    allowed p a = true ∧ ∃ s', step (N.cfg p) (N.st p) a = some s' ∧ N'.cfg = N.cfg ∧ N'.st p = s' ∧
      (∀ k, N'.st (k :: p) = kidSync N p (pushOf (N.cfg p) (N.st p) a) (closesOf (N.cfg p) (N.st p) a) k) ∧
      (∀ r, r ≠ p → (∀ k, r ≠ k :: p) → N'.st r = parSync N p a r) := by
  unfold gstep at hg
  split at hg
  · simp at hg
  · rename_i hal
    cases hs : step (N.cfg p) (N.st p) a with
    | none => simp [hs] at hg
    | some s' =>
      simp only [hs] at hg
      cases hg
      refine ⟨by simpa using hal, s', rfl, rfl, by simp, ?_, ?_⟩
      · intro k
        simp
      · intro r hr hk
        simp only [hr, if_false]
        cases r with
        | nil => rfl
        | cons k q =>
          have : q ≠ p := fun h => hk k (by rw [h])
          simp [this]



theorem kidSync_all (N : Net) (p : Path) (push : Option (Nat × Ev)) (cl : Bool) (k : Nat)
    (h : AllInv (N.cfg (k :: p)) (N.st (k :: p))) : AllInv (N.cfg (k :: p)) (kidSync N p push cl k) := by
  unfold kidSync
  split
  · split
    · exact partner_all _ _ _ h
    · exact h
  · split
    · exact partner_all _ _ _ h
    · exact h

theorem parSync_all (N : Net) (p : Path) (a : Act) (r : Path)
    (h : AllInv (N.cfg r) (N.st r)) : AllInv (N.cfg r) (parSync N p a r) := by
  unfold parSync
  split
  · split
    · exact partner_all _ _ _ h
    · exact h
  · exact h

theorem gstep_all (N N' : Net) (p : Path) (a : Act) (h : ∀ r, AllInv (N.cfg r) (N.st r)) (hg : gstep N p a = some N') :
    ∀ r, AllInv (N'.cfg r) (N'.st r) := by
  obtain ⟨_, s', hs, hcfg, hp, hkid, hoth⟩ := gstep_shape N N' p a hg
  intro r
  rw [hcfg]
  by_cases hr : r = p
  · subst hr; rw [hp]; exact step_all _ _ _ _ (h r) hs
  · by_cases hk : ∃ k, r = k :: p
    · obtain ⟨k, rfl⟩ := hk
      rw [hkid]; exact kidSync_all N p _ _ k (h _)
    · rw [hoth r hr (fun k hk' => hk ⟨k, hk'⟩)]
      exact parSync_all N p a r (h r)

/-- the input side of a partner that only does `downRecv` is unchanged -/
theorem partner_kv_down (c : Cfg) (s : St) (i : Nat) : KV (partner c s (.downRecv i)) = KV s := by
  unfold partner
  cases hs : step c s (.downRecv i) with
  | none => rfl
  | some s' => exact kv_other c s s' _ hs (by intro x; simp) (by simp) rfl

theorem partner_pv_up (c : Cfg) (s : St) (a : Act) (ha : (∃ x, a = .upSend x) ∨ a = .upClose) (k : Nat) :
    PV (partner c s a) k = PV s k := by
  unfold partner
  cases hs : step c s a with
  | none => rfl
  | some s' =>
    rcases ha with ⟨x, rfl⟩ | rfl
    · exact pv_other c s s' _ hs rfl rfl (by intro i; simp) k
    · exact pv_other c s s' _ hs rfl rfl (by intro i; simp) k

theorem partner_pv_down_other (c : Cfg) (s : St) (i k : Nat) (hk : k ≠ i) :
    PV (partner c s (.downRecv i)) k = PV s k := by
  unfold partner
  cases hs : step c s (.downRecv i) with
  | none => rfl
  | some s' =>
    obtain ⟨x, rest, _, h⟩ := pv_down c s s' i hs
    show PV s' k = PV s k
    rw [h k]; simp [hk]



theorem kv_eq (s : St) (a : List Ev) (b : Bool) (c : List Ev) (h : KV s = (a, b, c)) :
    s.inp = a ∧ s.inpClosed = b ∧ s.upSent = c := by
  simp only [KV, Prod.mk.injEq] at h; exact h

/-- a child whose input is open accepts the synchronised `upSend` -/
theorem partner_upSend (c : Cfg) (s : St) (x : Ev) (h : s.inpClosed = false) :
    KV (partner c s (.upSend x)) = (s.inp ++ [x], false, s.upSent ++ [x]) := by
  unfold partner
  simp [step, h, KV]

theorem partner_upClose (c : Cfg) (s : St) (h : s.inpClosed = false) :
    KV (partner c s .upClose) = (s.inp, true, s.upSent) := by
  unfold partner
  simp [step, h, KV]

theorem partner_downRecv (c : Cfg) (s : St) (i : Nat) (x : Ev) (rest : List Ev) (h : (s.outs i).buf = x :: rest) :
    PV (partner c s (.downRecv i)) i = (rest, (s.outs i).closed, s.enq i) := by
  unfold partner
  simp [step, h, PV]

theorem gstep_link (N N' : Net) (p : Path) (a : Act) (hl : Link N) (hg : gstep N p a = some N') : Link N' := by
  obtain ⟨hal, s', hs, hcfg, hp, hkid, hoth⟩ := gstep_shape N N' p a hg
  intro q k hk
  rw [hcfg] at hk
  by_cases hq : q = p
  · -- the acting node is the parent end of this edge
    subst hq
    rw [hp, hkid]
    have hl0 := hl q k hk
    have hnd : ∀ i, a ≠ .downRecv i := by intro i h; subst h; simp [allowed] at hal
    unfold kidSync
    cases hpush : pushOf (N.cfg q) (N.st q) a with
    | some kx =>
      obtain ⟨k0, x⟩ := kx
      obtain ⟨hopen, hpv⟩ := pv_push _ _ _ _ k0 x hs hpush
      simp only
      rw [hpv k]
      by_cases hkk : k = k0
      · subst hkk
        simp only [if_true]
        have hic : (N.st (k :: q)).inpClosed = false := by
          have := congrArg (fun t => t.2.1) hl0; simp only [KV, PV] at this; rw [this, hopen]
        rw [partner_upSend _ _ _ hic]
        simp only [KV, PV, Prod.mk.injEq] at hl0
        rw [hl0.1, hl0.2.2]
      · simp only [hkk, if_false]; exact hl0
    | none =>
      simp only
      cases hcl : closesOf (N.cfg q) (N.st q) a with
      | true =>
        obtain ⟨hopen, hpv⟩ := pv_close _ _ _ _ hs hcl
        rw [hpv k]
        simp only [hk, if_true, Bool.true_and, decide_true]
        have hic : (N.st (k :: q)).inpClosed = false := by
          have := congrArg (fun t => t.2.1) hl0; simp only [KV, PV] at this; rw [this, hopen k hk]
        rw [partner_upClose _ _ hic]
        simp only [KV, PV, Prod.mk.injEq] at hl0
        rw [hl0.1, hl0.2.2]
      | false =>
        simp only [Bool.false_and]
        rw [pv_other _ _ _ _ hs hpush hcl hnd k]; exact hl0
  · by_cases hkq : k :: q = p
    · -- the acting node is the child end of this edge
      subst hkq
      rw [hp]
      have hq1 : q ≠ k :: q := fun h => cons_ne_self k q h.symm
      have hq2 : ∀ j, q ≠ j :: k :: q := fun j h => cons_cons_ne j k q h.symm
      rw [hoth q hq1 hq2]
      have hl0 := hl q k hk
      simp only [parSync, Bool.and_eq_true, decide_eq_true_eq, true_and]
      cases hrecv : isRecv a with
      | true =>
        simp only [if_true]
        cases a with
        | recv w =>
          obtain ⟨e, rest, hinp, hkv⟩ := kv_recv _ _ _ w hs
          simp only [KV, PV, Prod.mk.injEq] at hl0
          have hb : ((N.st q).outs k).buf = e :: rest := by rw [← hl0.1, hinp]
          rw [hkv, partner_downRecv _ _ _ e rest hb, hl0.2.1, hl0.2.2]
        | _ => simp [isRecv] at hrecv
      | false =>
        simp only [Bool.false_eq_true, if_false]
        have h1 : ∀ x, a ≠ .upSend x := by intro x h; subst h; simp [allowed] at hal
        have h2 : a ≠ .upClose := by intro h; subst h; simp [allowed] at hal
        rw [kv_other _ _ _ _ hs h1 h2 hrecv]; exact hl0
    · -- neither end is the acting node: at most partner steps that do not touch this channel
      have hl0 := hl q k hk
      have hkv : KV (N'.st (k :: q)) = KV (N.st (k :: q)) := by
        rw [hoth (k :: q) hkq (by intro j h; simp at h; exact hq h.2)]
        unfold parSync
        split
        · split
          · exact partner_kv_down _ _ _
          · rfl
        · rfl
      have hpv : PV (N'.st q) k = PV (N.st q) k := by
        by_cases hkid' : ∃ j, q = j :: p
        · obtain ⟨j, rfl⟩ := hkid'
          rw [hkid]
          unfold kidSync
          split
          · split
            · exact partner_pv_up _ _ _ (Or.inl ⟨_, rfl⟩) k
            · rfl
          · split
            · exact partner_pv_up _ _ _ (Or.inr rfl) k
            · rfl
        · rw [hoth q hq (fun j h => hkid' ⟨j, h⟩)]
          unfold parSync
          split
          · rename_i i q0
            split
            · rename_i hc
              simp only [Bool.and_eq_true, decide_eq_true_eq] at hc
              have : k ≠ i := by
                intro h; subst h; exact hkq (by rw [hc.1])
              exact partner_pv_down_other _ _ _ _ this
            · rfl
          · rfl
      rw [hkv, hpv]; exact hl0



/-! ### static channel parameters -/
def DV (s : St) (k : Nat) : Bool × Nat := ((s.outs k).discard, (s.outs k).cap)

theorem trySend_dv (s s' : St) (k0 : Nat) (x : Ev) (h : trySend s k0 x = some s') (k : Nat) : DV s' k = DV s k := by
  simp only [trySend] at h
  split at h
  · cases h; rfl
  · split at h
    · cases h
      by_cases hk : k = k0
      · subst hk; simp [DV]
      · simp [DV, upd_other _ _ _ _ hk]
    · split at h
      · cases h; rfl
      · simp at h

/-- `discard_on_full_buffer` and the buffer size of a channel never change -/
theorem dv_step (c : Cfg) (s s' : St) (a : Act) (hs : step c s a = some s') (k : Nat) : DV s' k = DV s k := by
  cases a with
  | upSend e => simp only [step] at hs; split at hs <;> first | (cases hs; rfl) | simp at hs
  | upClose => simp only [step] at hs; split at hs <;> first | (cases hs; rfl) | simp at hs
  | recv w =>
    simp only [step] at hs; og hs; og hs
    split at hs <;> (cases hs; rfl)
  | procReturn w => simp only [step] at hs; og hs; og hs; cases hs; rfl
  | complete i => simp only [step] at hs; og hs; cases hs; rfl
  | send w =>
    simp only [step] at hs; og hs; og hs
    rename_i k1 x1 todo hpc
    cases ht : trySend s k1 x1 with
    | none => simp [ht] at hs
    | some s1 => simp [ht] at hs; subst hs; exact trySend_dv s s1 k1 x1 ht k
  | finish w => simp only [step] at hs; og hs; og hs; cases hs; rfl
  | cbSend i =>
    simp only [step] at hs; og hs
    rename_i k1 x1 todo hcb
    cases ht : trySend s k1 x1 with
    | none => simp [ht] at hs
    | some s1 => simp [ht] at hs; subst hs; exact trySend_dv s s1 k1 x1 ht k
  | cbFinish i => simp only [step] at hs; og hs; cases hs; rfl
  | seeClosed w => simp only [step] at hs; og hs; og hs; og hs; cases hs; rfl
  | wgDone w => simp only [step] at hs; og hs; og hs; cases hs; rfl
  | wgWait w => simp only [step] at hs; og hs; og hs; og hs; cases hs; rfl
  | onceEnter w =>
    simp only [step] at hs; og hs; og hs
    split at hs
    · cases hs; rfl
    · og hs; cases hs; rfl
  | shutEnter w => simp only [step] at hs; og hs; og hs; cases hs; rfl
  | shutExit w => simp only [step] at hs; og hs; og hs; og hs; cases hs; rfl
  | closeAll w =>
    simp only [step] at hs; og hs; og hs
    split at hs
    · cases hs; rfl
    · cases hs
      by_cases hk : k < c.K <;> simp [DV, hk]
  | downRecv i =>
    simp only [step] at hs
    split at hs
    · cases hs
      by_cases hk : k = i
      · subst hk; simp [DV]
      · simp [DV, upd_other _ _ _ _ hk]
    · simp at hs

theorem partner_dv (c : Cfg) (s : St) (a : Act) (k : Nat) : DV (partner c s a) k = DV s k := by
  unfold partner
  cases hs : step c s a with
  | none => rfl
  | some s' => exact dv_step c s s' a hs k

def Static (N : Net) (caps : Path → Nat) (disc : Path → Bool) : Prop := ∀ p k, DV (N.st p) k = (disc (k :: p), caps (k :: p))

theorem gstep_static (N N' : Net) (p : Path) (a : Act) (caps : Path → Nat) (disc : Path → Bool)
    (h : Static N caps disc) (hg : gstep N p a = some N') : Static N' caps disc := by
  obtain ⟨_, s', hs, hcfg, hp, hkid, hoth⟩ := gstep_shape N N' p a hg
  intro r k
  rw [← h r k]
  by_cases hr : r = p
  · subst hr; rw [hp]; exact dv_step _ _ _ _ hs k
  · by_cases hk : ∃ j, r = j :: p
    · obtain ⟨j, rfl⟩ := hk
      rw [hkid]; unfold kidSync
      split
      · split
        · exact partner_dv _ _ _ k
        · rfl
      · split
        · exact partner_dv _ _ _ k
        · rfl
    · rw [hoth r hr (fun j hj => hk ⟨j, hj⟩)]
      unfold parSync
      split
      · split
        · exact partner_dv _ _ _ k
        · rfl
      · rfl

/-! ### every reachable global state -/

theorem ginit_ginv (cfg : Path → Cfg) (caps : Path → Nat) (disc : Path → Bool) : GInv (ginit cfg caps disc) := by
  refine ⟨fun p => ?_, fun p k _ => ?_⟩
  · exact ⟨init_inv _ _ _, init_chan _ _ _, init_edge _ _ _, init_acct _ _ _, init_drain _ _ _⟩
  · simp [ginit, init, KV, PV]

theorem gstep_ginv (N N' : Net) (p : Path) (a : Act) (h : GInv N) (hg : gstep N p a = some N') : GInv N' :=
  ⟨gstep_all N N' p a h.all hg, gstep_link N N' p a h.link hg⟩

theorem gstep_cfg (N N' : Net) (p : Path) (a : Act) (hg : gstep N p a = some N') : N'.cfg = N.cfg := by
  obtain ⟨_, _, _, hcfg, _⟩ := gstep_shape N N' p a hg; exact hcfg

/-- **every state of the whole tree reachable under any global schedule**: every node satisfies every component
invariant, the two copies of every channel agree, the shape and the channel parameters are the configured ones -/
theorem reachable_ginv (cfg : Path → Cfg) (caps : Path → Nat) (disc : Path → Bool) (sched : List (Path × Act)) (N : Net)
    (hr : grun (ginit cfg caps disc) sched = some N) : GInv N ∧ N.cfg = cfg ∧ Static N caps disc := by
  have h0 : GInv (ginit cfg caps disc) ∧ (ginit cfg caps disc).cfg = cfg ∧ Static (ginit cfg caps disc) caps disc :=
    ⟨ginit_ginv cfg caps disc, rfl, fun p k => by simp [ginit, init, DV]⟩
  generalize ginit cfg caps disc = N0 at hr h0
  induction sched generalizing N0 with
  | nil => simp [grun] at hr; subst hr; exact h0
  | cons pa rest ih =>
    obtain ⟨p, a⟩ := pa
    simp only [grun] at hr
    cases hg : gstep N0 p a with
    | none => simp [hg] at hr
    | some N1 =>
      rw [hg] at hr
      exact ih N1 hr ⟨gstep_ginv N0 N1 p a h0.1 hg, by rw [gstep_cfg N0 N1 p a hg]; exact h0.2.1, gstep_static N0 N1 p a caps disc h0.2.2 hg⟩



/-! ### tree-level theorems -/

theorem link_fields (N : Net) (h : Link N) (p : Path) (k : Nat) (hk : k < (N.cfg p).K) :
    (N.st (k :: p)).inp = ((N.st p).outs k).buf ∧ (N.st (k :: p)).inpClosed = ((N.st p).outs k).closed ∧
    (N.st (k :: p)).upSent = (N.st p).enq k := by
  have := h p k hk
  simpa [KV, PV] using this

/-- **no send on a closed channel, no double close, anywhere in the tree, under any global schedule** -/
theorem tree_no_panic (N : Net) (h : GInv N) (p : Path) : (N.st p).panic = false := (h.all p).casc.no_panic

/-- **C03 at tree level**: the Shutdown of a child or error handler begins only after the Shutdown of its parent has
returned — and by then no worker of the parent is processing or delivering, and no async completion is outstanding -/
theorem tree_cascade (N : Net) (h : GInv N) (p : Path) (k : Nat) (hk : k < (N.cfg p).K) (hW : 0 < (N.cfg (k :: p)).W)
    (hs : (N.st (k :: p)).shutStarted = true) :
    (N.st p).shutDone = true ∧ (N.st p).pending = [] ∧ (N.st p).cbs = [] ∧ ∀ w, w < (N.cfg p).W → ((N.st p).pc w).live = false := by
  have hi := (h.all (k :: p)).casc
  have hl := shutdown_after_processing _ _ hi hs 0 hW
  have hleave : ((N.st (k :: p)).pc 0).leaving = true := by
    cases hpc : (N.st (k :: p)).pc 0 <;> simp [hpc, Pc.live, Pc.leaving] at hl ⊢
  have hc := ((h.all (k :: p)).drain.drained 0 hW hleave).1
  rw [(link_fields N h.link p k hk).2.1] at hc
  exact closed_after_shutdown _ _ (h.all p).casc k hc

/-- a child's workers leave only after the parent closed the channel, i.e. after the parent's Shutdown returned -/
theorem tree_child_exits_after_parent (N : Net) (h : GInv N) (p : Path) (k : Nat) (hk : k < (N.cfg p).K)
    (w : Nat) (hw : w < (N.cfg (k :: p)).W) (hl : ((N.st (k :: p)).pc w).leaving = true) : (N.st p).shutDone = true := by
  have hc := ((h.all (k :: p)).drain.drained w hw hl).1
  rw [(link_fields N h.link p k hk).2.1] at hc
  exact (closed_after_shutdown _ _ (h.all p).casc k hc).1

/-- **C01/C04 on an edge of the tree, relative form (any discard setting)**: at quiescence of parent and child, what the
child received plus what was dropped at its full buffer is — as a multiset — exactly the results of the events the
parent received; the drops are counted, and there are none unless the child discards -/
theorem tree_edge (N : Net) (h : GInv N) (p : Path) (k : Nat) (hk : k < (N.cfg p).nChildren)
    (htp : Terminal (N.cfg p) (N.st p)) (htk : Terminal (N.cfg (k :: p)) (N.st (k :: p))) :
    ((N.st (k :: p)).recvd ++ (N.st p).dropped k).Perm ((N.st p).recvd.flatMap (results (N.cfg p))) ∧
    (N.st p).discarded k = ((N.st p).dropped k).length ∧
    (((N.st p).outs k).discard = false → (N.st p).dropped k = []) := by
  have hK : k < (N.cfg p).K := by unfold Cfg.K; omega
  have hp := h.all p
  obtain ⟨d1, d2, _⟩ := terminal_drained _ _ hp htp
  obtain ⟨e1, _, _⟩ := terminal_drained _ _ (h.all (k :: p)) htk
  have hup := (link_fields N h.link p k hK).2.2
  have hoff := terminal_offered _ _ hp htp k
  have hprod : (N.st p).produced k = (N.st p).resolved.flatMap (results (N.cfg p)) := by
    rw [hp.edge.prod k]; congr 1; funext e; exact slice_child _ e k hk
  have hsplit : ((N.st p).enq k ++ (N.st p).dropped k).Perm ((N.st p).offered k) := by
    rw [List.perm_iff_count]; intro x; rw [List.count_append]; exact (hp.chan.split k x).symm
  refine ⟨?_, hp.chan.counted k, hp.chan.nodrop k⟩
  rw [← e1, hup]
  rw [hprod] at hoff
  exact hsplit.trans (hoff.trans (List.Perm.flatMap_right _ d2.symm))

/-- **C02 on the tree, relative form**: the error handler received (plus what was dropped at its full buffer) exactly one
report per failed event of its node, carrying that event -/
theorem tree_handler_edge (N : Net) (h : GInv N) (p : Path) (hh : (N.cfg p).hasHandler = true)
    (htp : Terminal (N.cfg p) (N.st p)) (htk : Terminal (N.cfg ((N.cfg p).nChildren :: p)) (N.st ((N.cfg p).nChildren :: p))) :
    ((N.st ((N.cfg p).nChildren :: p)).recvd ++ (N.st p).dropped (N.cfg p).nChildren).Perm ((N.st p).recvd.filter (errorB (N.cfg p))) ∧
    (N.st p).discarded (N.cfg p).nChildren = ((N.st p).dropped (N.cfg p).nChildren).length := by
  have hK : (N.cfg p).nChildren < (N.cfg p).K := by unfold Cfg.K; simp [hh]
  have hp := h.all p
  obtain ⟨d1, d2, _⟩ := terminal_drained _ _ hp htp
  obtain ⟨e1, _, _⟩ := terminal_drained _ _ (h.all _) htk
  have hup := (link_fields N h.link p _ hK).2.2
  have hoff := terminal_offered _ _ hp htp (N.cfg p).nChildren
  have hprod : (N.st p).produced (N.cfg p).nChildren = (N.st p).resolved.filter (errorB (N.cfg p)) := by
    rw [hp.edge.prod]
    have : (fun e => slice (N.cfg p).nChildren (todoOf (N.cfg p) e ((N.cfg p).oracle e))) = fun e => if errorB (N.cfg p) e then [e] else [] := by
      funext e; exact slice_handler _ e hh
    rw [this]
    induction (N.st p).resolved with
    | nil => rfl
    | cons a t ih => simp only [List.flatMap_cons, List.filter_cons, ih]; split <;> simp
  have hsplit : ((N.st p).enq (N.cfg p).nChildren ++ (N.st p).dropped (N.cfg p).nChildren).Perm ((N.st p).offered (N.cfg p).nChildren) := by
    rw [List.perm_iff_count]; intro x; rw [List.count_append]; exact (hp.chan.split _ x).symm
  refine ⟨?_, hp.chan.counted _⟩
  rw [← e1, hup]
  rw [hprod] at hoff
  exact hsplit.trans (hoff.trans (d2.symm.filter _))

/-- what each node of the tree is offered, computed from the stream alone (the denotational `Flow` model) -/
def offer (cfg : Path → Cfg) (stream : List Ev) : Path → List Ev
  | [] => stream
  | k :: q => if k < (cfg q).nChildren then (offer cfg stream q).flatMap (results (cfg q))
              else (offer cfg stream q).filter (errorB (cfg q))

/-- **C01/C02 for the whole tree, absolute form**: in a tree without discarding nodes, at global quiescence under any
global schedule, every node — at any depth, child or error handler — has received, as a multiset, exactly what the
denotational model computes from the source's stream: nothing lost, duplicated or invented anywhere -/
theorem tree_flow_nodiscard (cfg : Path → Cfg) (caps : Path → Nat) (disc : Path → Bool) (sched : List (Path × Act)) (N : Net)
    (hr : grun (ginit cfg caps disc) sched = some N) (hd : ∀ p, disc p = false)
    (hT : ∀ p, inTree cfg p → Terminal (cfg p) (N.st p)) :
    ∀ p, inTree cfg p → (N.st p).recvd.Perm (offer cfg (N.st []).upSent p) := by
  obtain ⟨hG, hcfg, hst⟩ := reachable_ginv cfg caps disc sched N hr
  subst hcfg
  intro p
  induction p with
  | nil =>
    intro hin
    obtain ⟨d1, _, _⟩ := terminal_drained _ _ (hG.all []) (hT [] hin)
    simp only [offer]; rw [d1]
  | cons k q ih =>
    intro hin
    obtain ⟨hq, hk⟩ := hin
    have ihq := ih hq
    have hnd : ((N.st q).outs k).discard = false := by
      have := hst q k; simp only [DV, Prod.mk.injEq] at this; rw [this.1]; exact hd _
    simp only [offer]
    by_cases hc : k < (N.cfg q).nChildren
    · simp only [hc, if_true]
      obtain ⟨h1, _, h3⟩ := tree_edge N hG q k hc (hT q hq) (hT (k :: q) ⟨hq, hk⟩)
      rw [h3 hnd, List.append_nil] at h1
      exact h1.trans (List.Perm.flatMap_right _ ihq)
    · simp only [hc, if_false]
      have hh : (N.cfg q).hasHandler = true ∧ k = (N.cfg q).nChildren := by
        unfold Cfg.K at hk
        cases hhh : (N.cfg q).hasHandler with
        | true => simp [hhh] at hk; exact ⟨rfl, by omega⟩
        | false => simp [hhh] at hk; omega
      obtain ⟨hh1, rfl⟩ := hh
      obtain ⟨h1, _⟩ := tree_handler_edge N hG q hh1 (hT q hq) (hT _ ⟨hq, hk⟩)
      have h3 := (hG.all q).chan.nodrop _ hnd
      rw [h3, List.append_nil] at h1
      exact h1.trans (ihq.filter _)

/-- **C16 for the whole tree**: at quiescence every node's counters account for exactly the events it was handed -/
theorem tree_counters (N : Net) (h : GInv N) (p : Path) (ht : Terminal (N.cfg p) (N.st p)) :
    (N.st p).received = (N.st p).recvd.length ∧ (N.st p).received = (N.st p).processed + (N.st p).filtered + (N.st p).failed ∧
    (N.st p).processed = ((N.st p).recvd.filter (passB (N.cfg p))).length ∧
    (N.st p).filtered = ((N.st p).recvd.filter (filterB (N.cfg p))).length ∧
    (N.st p).failed = ((N.st p).recvd.filter (errorB (N.cfg p))).length := by
  have := terminal_counters _ _ (h.all p) ht
  obtain ⟨d1, _, _⟩ := terminal_drained _ _ (h.all p) ht
  rw [d1] at this
  exact this



/-! ### isolation of the counters -/

/-- the prometheus counters a component state carries: its own outcome counters and `discarded_events_total` of each of
its downstream nodes -/
def CV (s : St) : Nat × Nat × Nat × Nat × (Nat → Nat) := (s.received, s.processed, s.filtered, s.failed, s.discarded)

/-- the synchronised partner steps (`upSend`, `upClose`, `downRecv`) change no counter -/
theorem partner_cv (c : Cfg) (s : St) (a : Act) (ha : (∃ x, a = .upSend x) ∨ a = .upClose ∨ ∃ k, a = .downRecv k) :
    CV (partner c s a) = CV s := by
  unfold partner
  cases hs : step c s a with
  | none => rfl
  | some s' =>
    rcases ha with ⟨x, rfl⟩ | rfl | ⟨k, rfl⟩
    · simp only [step] at hs; split at hs <;> first | (cases hs; rfl) | simp at hs
    · simp only [step] at hs; split at hs <;> first | (cases hs; rfl) | simp at hs
    · simp only [step] at hs; split at hs <;> first | (cases hs; rfl) | simp at hs

/-- **isolation (C16)**: a global step of node `p` changes no counter of any other node — neither its
received/processed/filtered/failed counters nor the `discarded_events_total` it keeps for its own children -/
theorem tree_counters_isolated (N N' : Net) (p : Path) (a : Act) (hg : gstep N p a = some N') (r : Path) (hr : r ≠ p) :
    CV (N'.st r) = CV (N.st r) := by
  obtain ⟨_, s', _, _, _, hkid, hoth⟩ := gstep_shape N N' p a hg
  by_cases hk : ∃ k, r = k :: p
  · obtain ⟨k, rfl⟩ := hk
    rw [hkid]; unfold kidSync
    split
    · split
      · exact partner_cv _ _ _ (Or.inl ⟨_, rfl⟩)
      · rfl
    · split
      · exact partner_cv _ _ _ (Or.inr (Or.inl rfl))
      · rfl
  · rw [hoth r hr (fun k hk' => hk ⟨k, hk'⟩)]
    unfold parSync
    split
    · split
      · exact partner_cv _ _ _ (Or.inr (Or.inr ⟨_, rfl⟩))
      · rfl
    · rfl


/-! ### non-vacuity -/

def demoNetCfg : Path → Cfg
  | [] => { W := 1, nChildren := 1, hasHandler := false, async := false, oracle := fun e => .pass [e] }       -- the main loop
  | [0] => { W := 2, nChildren := 1, hasHandler := true, async := false,
             oracle := fun e => if e = 1 then .pass [10, 11] else if e = 2 then .filter else .error }
  | _ => { W := 1, nChildren := 0, hasHandler := false, async := false, oracle := fun e => .pass [e] }        -- leaves

def leafAll (p : Path) : List (Path × Act) := [(p, .recv 0), (p, .procReturn 0), (p, .finish 0)]
def exitAll (p : Path) (w : Nat) : List (Path × Act) :=
  [(p, .seeClosed w), (p, .wgDone w), (p, .wgWait w), (p, .onceEnter w), (p, .shutEnter w), (p, .shutExit w), (p, .closeAll w)]
def rootOne : List (Path × Act) := [([], .recv 0), ([], .procReturn 0), ([], .send 0), ([], .finish 0)]

def demoNetSchedule : List (Path × Act) :=
  [([], .upSend 1), ([], .upSend 2), ([], .upSend 3), ([], .upClose)] ++
  rootOne ++ [([0], .recv 0)] ++ rootOne ++ [([0], .recv 1)] ++
  [([0], .procReturn 0), ([0], .send 0)] ++ leafAll [0, 0] ++ [([0], .send 0), ([0], .finish 0)] ++ leafAll [0, 0] ++
  [([0], .procReturn 1), ([0], .finish 1)] ++
  rootOne ++ [([0], .recv 1), ([0], .procReturn 1), ([0], .send 1), ([0], .finish 1)] ++ leafAll [1, 0] ++
  exitAll [] 0 ++
  [([0], .seeClosed 0), ([0], .seeClosed 1), ([0], .wgDone 0), ([0], .wgDone 1), ([0], .wgWait 1), ([0], .wgWait 0),
   ([0], .onceEnter 1), ([0], .shutEnter 1), ([0], .shutExit 1), ([0], .closeAll 1), ([0], .onceEnter 0)] ++
  exitAll [0, 0] 0 ++ exitAll [1, 0] 0

def summary (N : Net) :=
  (((N.st []).pc 0, (N.st [0]).pc 0, (N.st [0]).pc 1, (N.st [0,0]).pc 0, (N.st [1,0]).pc 0),
   ((N.st []).recvd, (N.st [0]).recvd, (N.st [0,0]).recvd, (N.st [1,0]).recvd),
   ((N.st [0]).received, (N.st [0]).processed, (N.st [0]).filtered, (N.st [0]).failed, (N.st [0]).panic))

/-- non-vacuity: a global schedule of a four-node tree (main loop → a 2-worker node with one child and an error handler),
every buffer of size 1, reaches global quiescence; the flow and the counters are the predicted ones -/
example : (grun (ginit demoNetCfg (fun _ => 1) (fun _ => false)) demoNetSchedule).map summary =
    some ((.exited, .exited, .exited, .exited, .exited), ([1, 2, 3], [1, 2, 3], [10, 11], [3]), (3, 1, 1, 1, false)) := by rfl

/-- the synchronised actions are not autonomous: a non-root `upSend`, and any `downRecv`, is not a global step -/
example : (gstep (ginit demoNetCfg (fun _ => 1) (fun _ => false)) [0] (.upSend 5)).isNone = true := by rfl
example : (gstep (ginit demoNetCfg (fun _ => 1) (fun _ => false)) [] (.downRecv 0)).isNone = true := by rfl

end Firebolt.Exec
