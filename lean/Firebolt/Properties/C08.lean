import Firebolt.Properties.TransBase
import Firebolt.Model.Tracker
import Firebolt.Generated.Source
import Firebolt.Expected.Source
import Firebolt.Generated.Closure
import Firebolt.Expected.Closure
/-!
# C08 — Recovery requests are never lost by merging and replicate as full snapshots

Theorems about `Model/Tracker.lean` for **every** operation sequence, every range and every receiver
(one that sees all broadcasts or any log-compaction of them).
-/
namespace Firebolt.C08
open Firebolt Firebolt.Tracker

def Req.covers (r : Req) (o : Int) : Prop := r.fromO ≤ o ∧ o < r.toO
def covered (l : Snap) (o : Int) : Prop := ∃ r ∈ l, Req.covers r o
def Req.wf (r : Req) : Prop := r.fromO ≤ r.toO

theorem widen_covers (f t : Int) (r : Req) (hr : Req.wf r) (hft : f ≤ t) (o : Int) :
    Req.covers (widen f t r) o ↔ (Req.covers r o ∨ (overlaps f t r = true ∧ f ≤ o ∧ o < t)) := by
  unfold widen overlaps Req.covers Req.wf at *
  split <;> simp_all <;> omega

/-- merging never loses and never invents: the new coverage is exactly old ∪ [f,t) -/
theorem add_covered (l : Snap) (f t : Int) (hwf : ∀ r ∈ l, Req.wf r) (hft : f ≤ t) (o : Int) :
    covered (addL l f t) o ↔ covered l o ∨ (f ≤ o ∧ o < t) := by
  unfold addL
  split
  · rename_i hany
    simp only [covered, List.mem_map]
    constructor
    · rintro ⟨r', ⟨r, hr, rfl⟩, hc⟩
      rcases (widen_covers f t r (hwf r hr) hft o).1 hc with h | h
      · exact Or.inl ⟨r, hr, h⟩
      · exact Or.inr h.2
    · rintro (⟨r, hr, hc⟩ | hnew)
      · exact ⟨widen f t r, ⟨r, hr, rfl⟩, (widen_covers f t r (hwf r hr) hft o).2 (Or.inl hc)⟩
      · obtain ⟨r, hr, hov⟩ := List.any_eq_true.1 hany
        exact ⟨widen f t r, ⟨r, hr, rfl⟩, (widen_covers f t r (hwf r hr) hft o).2 (Or.inr ⟨hov, hnew⟩)⟩
  · simp only [covered, List.mem_append, List.mem_singleton]
    constructor
    · rintro ⟨r, hr | rfl, hc⟩
      · exact Or.inl ⟨r, hr, hc⟩
      · exact Or.inr hc
    · rintro (⟨r, hr, hc⟩ | hnew)
      · exact ⟨r, Or.inl hr, hc⟩
      · exact ⟨⟨f, t⟩, Or.inr rfl, hnew⟩

/-- well-formedness (`from ≤ to`) is preserved by adding a well-formed range -/
theorem add_wf (l : Snap) (f t : Int) (hwf : ∀ r ∈ l, Req.wf r) (hft : f ≤ t) : ∀ r ∈ addL l f t, Req.wf r := by
  unfold addL
  split
  · intro r hr
    obtain ⟨r0, h0, rfl⟩ := List.mem_map.1 hr
    have := hwf r0 h0
    unfold widen Req.wf at *
    split <;> simp_all <;> omega
  · intro r hr
    rcases List.mem_append.1 hr with h | h
    · exact hwf r h
    · simp at h; subst h; exact hft

/-- adding the same range twice changes nothing the second time (coverage-wise it is idempotent by `add_covered`;
this is the stronger syntactic statement for a list that already contains the range) -/
theorem add_idempotent_covered (l : Snap) (f t : Int) (hwf : ∀ r ∈ l, Req.wf r) (hft : f ≤ t) (o : Int) :
    covered (addL (addL l f t) f t) o ↔ covered (addL l f t) o := by
  rw [add_covered _ f t (add_wf l f t hwf hft) hft, add_covered l f t hwf hft]
  constructor
  · rintro (h | h)
    · exact h
    · exact Or.inr h
  · intro h; exact Or.inl h

/-- the store after `add` differs only at `p`, the broadcast is the whole new list of `p` -/
theorem add_effect (s : Store) (p f t : Int) :
    (add s p f t).1.get? p = some (addL ((s.get? p).getD []) f t) ∧
    (∀ q, q ≠ p → (add s p f t).1.get? q = s.get? q) ∧
    (add s p f t).2 = [(p, addL ((s.get? p).getD []) f t)] := by
  unfold add
  exact ⟨by simp, fun q hq => AList.get?_set_ne _ _ _ _ hq, rfl⟩

/-- a progress update changes only `from` of the head request and only when its `to` matches;
otherwise: error, state unchanged, nothing broadcast -/
theorem update_only_head (s : Store) (p f t : Int) :
    (∃ r rest, s.get? p = some (r :: rest) ∧ r.toO = t ∧
        (update s p f t).2.2 = true ∧
        (update s p f t).1.get? p = some ({ r with fromO := f } :: rest) ∧
        (update s p f t).2.1 = [(p, { r with fromO := f } :: rest)] ∧
        (∀ q, q ≠ p → (update s p f t).1.get? q = s.get? q))
    ∨ ((¬ ∃ r rest, s.get? p = some (r :: rest) ∧ r.toO = t) ∧ update s p f t = (s, [], false)) := by
  unfold update
  cases h : s.get? p with
  | none => right; simp
  | some l =>
    cases l with
    | nil => right; simp
    | cons r rest =>
      by_cases ht : r.toO = t
      · left
        refine ⟨r, rest, rfl, ht, ?_, ?_, ?_, ?_⟩ <;> simp [ht]
        intro q hq; exact AList.get?_set_ne _ _ _ _ hq
      · right; simp [ht]

/-- completion removes exactly the requests ending at `t` of partition `p` (all others stay, in order);
with no such request (or no entry): error, state unchanged, nothing broadcast -/
theorem complete_only_named (s : Store) (p t : Int) :
    (∃ l, s.get? p = some l ∧ (∃ r ∈ l, r.toO = t) ∧
        (complete s p t).2.2 = true ∧
        (complete s p t).1.get? p = some (l.filter (fun r => r.toO ≠ t)) ∧
        (complete s p t).2.1 = [(p, l.filter (fun r => r.toO ≠ t))] ∧
        (∀ q, q ≠ p → (complete s p t).1.get? q = s.get? q))
    ∨ ((¬ ∃ l, s.get? p = some l ∧ ∃ r ∈ l, r.toO = t) ∧ complete s p t = (s, [], false)) := by
  unfold complete
  cases h : s.get? p with
  | none => right; simp
  | some l =>
    by_cases ha : l.any (fun r => decide (r.toO = t)) = true
    · left
      refine ⟨l, rfl, ?_, ?_, ?_, ?_, ?_⟩
      · obtain ⟨r, hr, hh⟩ := List.any_eq_true.1 ha
        exact ⟨r, hr, by simpa using hh⟩
      · simp [ha]
      · simp [ha]
      · simp [ha]
      · intro q hq; simp [ha]; exact AList.get?_set_ne _ _ _ _ hq
    · right
      constructor
      · rintro ⟨l', hl', r, hr, hrt⟩
        cases hl'
        exact ha (List.any_eq_true.2 ⟨r, hr, by simpa using hrt⟩)
      · simp [ha]

/-- the request offered for work is the oldest outstanding one (list order = filing order; merging is in place) -/
theorem get_is_oldest (s : Store) (p : Int) :
    Tracker.get s p = ((s.get? p).getD []).head? := by
  unfold Tracker.get
  cases h : s.get? p with
  | none => simp
  | some l => cases l <;> simp

/-- cancel-all empties every partition and broadcasts the empty snapshot for each -/
theorem cancel_all (s : Store) (p : Int) :
    (cancelAll s).1.get? p = (s.get? p).map (fun _ => []) ∧
    (cancelAll s).2 = s.map (fun kv => (kv.1, [])) := by
  unfold cancelAll
  refine ⟨?_, rfl⟩
  induction s with
  | nil => simp [AList.get?]
  | cons kv rest ih =>
    obtain ⟨k, v⟩ := kv
    by_cases hk : k = p <;> simp [AList.get?, hk] <;> simpa using ih

/-! ### state-based replication -/

/-- payload of the last broadcast for partition `j` -/
def lastOf (j : Int) : List Bcast → Option Snap
  | [] => none
  | (k, v) :: ms => match lastOf j ms with
    | some w => some w
    | none => if k = j then some v else none

theorem lastOf_append (j : Int) (l1 l2 : List Bcast) :
    lastOf j (l1 ++ l2) = match lastOf j l2 with | some w => some w | none => lastOf j l1 := by
  induction l1 with
  | nil => simp [lastOf]; cases lastOf j l2 <;> rfl
  | cons m l1 ih =>
    obtain ⟨k, v⟩ := m
    simp only [List.cons_append, lastOf, ih]
    cases lastOf j l2 <;> simp

/-- a receiver that has seen the messages `ms` holds, for every partition, the payload of the last message for it -/
theorem recvAll_char (B : Store) (ms : List Bcast) (j : Int) :
    (recvAll B ms).get? j = match lastOf j ms with | some w => some w | none => B.get? j := by
  induction ms generalizing B with
  | nil => simp [recvAll, lastOf]
  | cons m ms ih =>
    obtain ⟨k, v⟩ := m
    simp only [recvAll, lastOf]
    rw [ih]
    cases h : lastOf j ms with
    | some w => simp
    | none =>
      by_cases hk : k = j
      · subst hk; simp
      · have : j ≠ k := fun e => hk e.symm
        simp [hk, AList.get?_set_ne _ _ _ _ this]

theorem lastOf_some_of_mem (j : Int) (l : List Bcast) (h : ∃ m ∈ l, m.1 = j) : (lastOf j l).isSome := by
  induction l with
  | nil => simp at h
  | cons m l ih =>
    obtain ⟨k, v⟩ := m
    simp only [lastOf]
    cases hl : lastOf j l with
    | some w => simp
    | none =>
      obtain ⟨m', hm, hk⟩ := h
      simp at hm
      rcases hm with rfl | hm
      · simp at hk; simp [hk]
      · have := ih ⟨m', hm, hk⟩; simp [hl] at this

/-- log compaction: repeatedly delete a record that is followed by a later record with the same key -/
inductive Compacts : List Bcast → List Bcast → Prop
  | refl (l) : Compacts l l
  | drop (l1 l2 m l') : (∃ m' ∈ l2, m'.1 = m.1) → Compacts (l1 ++ l2) l' → Compacts (l1 ++ m :: l2) l'

theorem lastOf_drop_shadowed (j : Int) (l1 l2 : List Bcast) (m : Bcast) (h : ∃ m' ∈ l2, m'.1 = m.1) :
    lastOf j (l1 ++ m :: l2) = lastOf j (l1 ++ l2) := by
  rw [lastOf_append, lastOf_append]
  obtain ⟨k, v⟩ := m
  simp only [lastOf]
  cases hl : lastOf j l2 with
  | some w => rfl
  | none =>
    by_cases hk : k = j
    · subst hk
      have := lastOf_some_of_mem k l2 h
      simp [hl] at this
    · simp [hk]

theorem lastOf_compacts (j : Int) (ms ms' : List Bcast) (h : Compacts ms ms') : lastOf j ms' = lastOf j ms := by
  induction h with
  | refl l => rfl
  | drop l1 l2 m l' hs _ ih => rw [ih, lastOf_drop_shadowed j l1 l2 m hs]

/-- a receiver of any compaction of the log ends in the same state as a receiver of the whole log -/
theorem compaction_invisible (B : Store) (ms ms' : List Bcast) (h : Compacts ms ms') (j : Int) :
    (recvAll B ms').get? j = (recvAll B ms).get? j := by
  rw [recvAll_char, recvAll_char, lastOf_compacts j ms ms' h]

/-- the model's `latestPerKey` (what the harness feeds the second replica) is a compaction -/
theorem latestPerKey_compacts (ms : List Bcast) : Compacts ms (latestPerKey ms) := by
  induction ms with
  | nil => exact Compacts.refl _
  | cons m ms ih =>
    obtain ⟨k, v⟩ := m
    unfold latestPerKey
    split
    · rename_i hany
      obtain ⟨m', hm', hk⟩ := List.any_eq_true.1 hany
      have := Compacts.drop [] ms (k, v) (latestPerKey ms) ⟨m', hm', by simpa using hk⟩ (by simpa using ih)
      simpa using this
    · -- keep the head: compaction of the tail, lifted under a cons
      have lift : ∀ (a b : List Bcast), Compacts a b → Compacts ((k, v) :: a) ((k, v) :: b) := by
        intro a b hab
        induction hab with
        | refl l => exact Compacts.refl _
        | drop l1 l2 m l' hs _ ih2 =>
          have := Compacts.drop ((k, v) :: l1) l2 m ((k, v) :: l') hs (by simpa using ih2)
          simpa using this
      exact lift _ _ ih

/-- local (non-receive) operations -/
def Op.isLocal : Op → Bool
  | .recv .. => false
  | .recvBad .. => false
  | _ => true

theorem lastOf_cancel (s : Store) (j : Int) :
    lastOf j (s.map (fun kv => (kv.1, ([] : Snap)))) = (lastOf j (s.map (fun kv => (kv.1, ([] : Snap))))).map (fun _ => []) := by
  induction s with
  | nil => simp [lastOf]
  | cons kv rest ih =>
    obtain ⟨k, v⟩ := kv
    simp only [List.map_cons, lastOf]
    cases h : lastOf j (List.map (fun kv => (kv.1, ([] : Snap))) rest) with
    | some w => rw [h] at ih; simp at ih; simp [ih]
    | none => by_cases hk : k = j <;> simp [hk]

theorem lastOf_cancel_isSome (s : Store) (j : Int) :
    (lastOf j (s.map (fun kv => (kv.1, ([] : Snap))))).isSome = (s.get? j).isSome := by
  induction s with
  | nil => simp [lastOf, AList.get?]
  | cons kv rest ih =>
    obtain ⟨k, v⟩ := kv
    simp only [List.map_cons, lastOf, AList.get?]
    cases h : lastOf j (List.map (fun kv => (kv.1, ([] : Snap))) rest) with
    | some w =>
      rw [h] at ih
      by_cases hk : k = j <;> simp [hk] <;> simpa using ih.symm
    | none =>
      rw [h] at ih
      by_cases hk : k = j <;> simp [hk] <;> simpa using ih.symm

/-- one local step: the new state at `j` is the last broadcast of this step for `j`, or unchanged if there is none -/
theorem step_local (s : Store) (op : Op) (hl : Op.isLocal op = true) (j : Int) :
    (step s op).1.get? j = match lastOf j (bcastsOf (step s op).2) with
      | some w => some w
      | none => s.get? j := by
  cases op with
  | add p f t =>
    simp only [step, bcastsOf, add, lastOf]
    by_cases hp : p = j
    · subst hp; simp
    · have : j ≠ p := fun e => hp e.symm
      simp [hp, AList.get?_set_ne _ _ _ _ this]
  | upd p f t =>
    simp only [step, bcastsOf]
    rcases update_only_head s p f t with ⟨r, rest, h1, h2, h3, h4, h5, h6⟩ | ⟨_, h⟩
    · rw [h5]
      simp only [lastOf]
      by_cases hp : p = j
      · subst hp; simp [h4]
      · have : j ≠ p := fun e => hp e.symm
        simp [hp, h6 j this]
    · rw [h]; simp [lastOf]
  | done p t =>
    simp only [step, bcastsOf]
    rcases complete_only_named s p t with ⟨l, h1, h2, h3, h4, h5, h6⟩ | ⟨_, h⟩
    · rw [h5]
      simp only [lastOf]
      by_cases hp : p = j
      · subst hp; simp [h4]
      · have : j ≠ p := fun e => hp e.symm
        simp [hp, h6 j this]
    · rw [h]; simp [lastOf]
  | cancel =>
    simp only [step, bcastsOf]
    rw [(cancel_all s j).1, (cancel_all s j).2]
    have h1 := lastOf_cancel s j
    have h2 := lastOf_cancel_isSome s j
    cases hl : lastOf j (s.map (fun kv => (kv.1, ([] : Snap)))) with
    | some w =>
      rw [hl] at h1 h2
      simp at h1
      cases hs : s.get? j with
      | none => rw [hs] at h2; simp at h2
      | some v => simp [h1]
    | none =>
      rw [hl] at h2
      cases hs : s.get? j with
      | none => simp
      | some v => rw [hs] at h2; simp at h2
  | get p => simp [step, bcastsOf, lastOf]
  | recv k l => simp [Op.isLocal] at hl
  | recvBad k => simp [Op.isLocal] at hl

/-- **sender is last**: after any sequence of local operations from the empty tracker, the state of every
partition is the payload of the last broadcast for it (and partitions never broadcast have no entry) -/
theorem sender_is_last (ops : List Op) (hl : ∀ op ∈ ops, Op.isLocal op = true) (s0 : Store) (j : Int) :
    (run s0 ops).1.get? j = match lastOf j (allBcasts (run s0 ops).2) with
      | some w => some w
      | none => s0.get? j := by
  induction ops generalizing s0 with
  | nil => simp [run, allBcasts, lastOf]
  | cons op ops ih =>
    simp only [run, allBcasts, List.flatMap_cons]
    have h1 := ih (fun o ho => hl o (List.mem_cons_of_mem _ ho)) (step s0 op).1
    have h2 := step_local s0 op (hl op (List.mem_cons_self ..)) j
    simp only [allBcasts] at h1
    rw [h1, lastOf_append]
    cases hx : lastOf j (List.flatMap bcastsOf (run (step s0 op).1 ops).2) with
    | some w => rfl
    | none => simp only []; rw [h2]

/-- **snapshot replication**: an instance that has seen all broadcasts of the sender, or any compaction of them
(in particular only the latest message per partition), holds exactly the sender's requests -/
theorem snapshot_replication (ops : List Op) (hl : ∀ op ∈ ops, Op.isLocal op = true) (ms' : List Bcast)
    (hc : Compacts (allBcasts (run [] ops).2) ms') (j : Int) :
    (recvAll [] ms').get? j = (run [] ops).1.get? j := by
  rw [compaction_invisible [] _ _ hc, recvAll_char, sender_is_last ops hl [] j]

/-- the sender receiving its own broadcasts back (in order) stays in the same state -/
theorem self_feedback (ops : List Op) (hl : ∀ op ∈ ops, Op.isLocal op = true) (j : Int) :
    (recvAll (run [] ops).1 (allBcasts (run [] ops).2)).get? j = (run [] ops).1.get? j := by
  rw [recvAll_char, sender_is_last ops hl [] j]
  cases lastOf j (allBcasts (run [] ops).2) <;> rfl


/-! ### replication for arbitrary histories (local operations interleaved with received snapshots) -/

/-- partitions whose state was last written by a *received* snapshot rather than by a broadcast of this instance -/
def stepDirty (s : Store) (D : List Int) : Op → List Int
  | .recv k _ => (k.getD 0) :: D
  | .recvBad _ => D
  | op => D.filter (fun j => (lastOf j (bcastsOf (step s op).2)).isNone)

def runDirty (s : Store) (D : List Int) : List Op → List Int
  | [] => D
  | op :: ops => runDirty (step s op).1 (stepDirty s D op) ops

def optOr (a b : Option Snap) : Option Snap := match a with | some w => some w | none => b

theorem lastOf_append' (j : Int) (l1 l2 : List Bcast) : lastOf j (l1 ++ l2) = optOr (lastOf j l2) (lastOf j l1) := by
  rw [lastOf_append]; cases lastOf j l2 <;> rfl

/-- **sender is last, in general**: after ANY operation sequence, every partition that is not dirty holds exactly the
payload of this instance's last broadcast for it -/
theorem sender_is_last_general (ops : List Op) : ∀ (s : Store) (D : List Int) (bs : List Bcast),
    (∀ j, j ∉ D → s.get? j = lastOf j bs) →
    ∀ j, j ∉ runDirty s D ops → (run s ops).1.get? j = lastOf j (bs ++ allBcasts (run s ops).2) := by
  induction ops with
  | nil => intro s D bs h j hj; simpa [run, runDirty, allBcasts] using h j (by simpa [runDirty] using hj)
  | cons op ops ih =>
    intro s D bs h j hj
    simp only [run, runDirty, allBcasts, List.flatMap_cons] at hj ⊢
    have key : ∀ i, i ∉ stepDirty s D op → (step s op).1.get? i = lastOf i (bs ++ bcastsOf (step s op).2) := by
      intro i hi
      cases hop : op with
      | recv k l =>
        subst hop
        simp only [stepDirty, List.mem_cons, not_or] at hi
        simp only [step, receive, bcastsOf, List.append_nil]
        rw [AList.get?_set_ne _ _ _ _ hi.1]; exact h i hi.2
      | recvBad k =>
        subst hop
        simp only [stepDirty] at hi
        simpa [step, bcastsOf] using h i hi
      | add p f t =>
        subst hop
        have hl := step_local s (.add p f t) rfl i
        rw [hl, lastOf_append']
        cases hx : lastOf i (bcastsOf (step s (.add p f t)).2) with
        | some w => rfl
        | none =>
          simp only [optOr]
          exact h i (fun hd => hi (List.mem_filter.2 ⟨hd, by simp [hx]⟩))
      | upd p f t =>
        subst hop
        have hl := step_local s (.upd p f t) rfl i
        rw [hl, lastOf_append']
        cases hx : lastOf i (bcastsOf (step s (.upd p f t)).2) with
        | some w => rfl
        | none =>
          simp only [optOr]
          exact h i (fun hd => hi (List.mem_filter.2 ⟨hd, by simp [hx]⟩))
      | done p t =>
        subst hop
        have hl := step_local s (.done p t) rfl i
        rw [hl, lastOf_append']
        cases hx : lastOf i (bcastsOf (step s (.done p t)).2) with
        | some w => rfl
        | none =>
          simp only [optOr]
          exact h i (fun hd => hi (List.mem_filter.2 ⟨hd, by simp [hx]⟩))
      | cancel =>
        subst hop
        have hl := step_local s .cancel rfl i
        rw [hl, lastOf_append']
        cases hx : lastOf i (bcastsOf (step s .cancel).2) with
        | some w => rfl
        | none =>
          simp only [optOr]
          exact h i (fun hd => hi (List.mem_filter.2 ⟨hd, by simp [hx]⟩))
      | get p =>
        subst hop
        have hl := step_local s (.get p) rfl i
        rw [hl, lastOf_append']
        cases hx : lastOf i (bcastsOf (step s (.get p)).2) with
        | some w => rfl
        | none =>
          simp only [optOr]
          exact h i (fun hd => hi (List.mem_filter.2 ⟨hd, by simp [hx]⟩))
    have := ih (step s op).1 (stepDirty s D op) (bs ++ bcastsOf (step s op).2) key j hj
    simpa [allBcasts, List.append_assoc] using this

/-- **snapshot replication, in general**: whatever the history (requests, progress, completions, cancel-all, snapshots
received from other instances at any point), an instance that has seen all broadcasts of the sender or any compaction of
them holds exactly the sender's requests for every partition the sender wrote last -/
theorem snapshot_replication_general (ops : List Op) (ms' : List Bcast)
    (hc : Compacts (allBcasts (run [] ops).2) ms') (j : Int) (hj : j ∉ runDirty [] [] ops) :
    (recvAll [] ms').get? j = (run [] ops).1.get? j := by
  rw [compaction_invisible [] _ _ hc, recvAll_char]
  have := sender_is_last_general ops [] [] [] (fun i _ => by simp [AList.get?, lastOf]) j hj
  simp only [List.nil_append] at this
  rw [this]
  cases lastOf j (allBcasts (run [] ops).2) <;> simp [AList.get?]

/-- premises are satisfiable by a non-trivial history (merge, progress, completion, cancel) -/
example :
    let ops : List Op := [.add 0 10 20, .add 0 15 30, .upd 0 17 30, .add 1 1 2, .done 1 2, .cancel, .add 0 5 6]
    (∀ op ∈ ops, Op.isLocal op = true) ∧ (run [] ops).1.get? 0 = some [⟨5, 6⟩] ∧
      (recvAll [] (latestPerKey (allBcasts (run [] ops).2))).get? 0 = some [⟨5, 6⟩] := by
  decide


/-! ### the functions this model was transcribed from are unchanged (regenerated from /repo on every run) -/
theorem source_getRecoveryRequest : GeneratedSrc.getRecoveryRequest = ExpectedSrc.getRecoveryRequest := by rfl
theorem source_addRecoveryRequest : GeneratedSrc.addRecoveryRequest = ExpectedSrc.addRecoveryRequest := by rfl
theorem source_updateRecoveryRequest : GeneratedSrc.updateRecoveryRequest = ExpectedSrc.updateRecoveryRequest := by rfl
theorem source_markRecoveryComplete : GeneratedSrc.markRecoveryComplete = ExpectedSrc.markRecoveryComplete := by rfl
theorem source_cancelAll : GeneratedSrc.cancelAll = ExpectedSrc.cancelAll := by rfl
theorem source_sendRecoveryRequests : GeneratedSrc.sendRecoveryRequests = ExpectedSrc.sendRecoveryRequests := by rfl
theorem source_receiveRequest : GeneratedSrc.receiveRequest = ExpectedSrc.receiveRequest := by rfl
theorem source_tyRecoveryRequest : GeneratedSrc.tyRecoveryRequest = ExpectedSrc.tyRecoveryRequest := by rfl
theorem source_tyRecoveryRequests : GeneratedSrc.tyRecoveryRequests = ExpectedSrc.tyRecoveryRequests := by rfl
theorem source_trackerMax : GeneratedSrc.trackerMax = ExpectedSrc.trackerMax := by rfl
theorem source_trackerMin : GeneratedSrc.trackerMin = ExpectedSrc.trackerMin := by rfl

theorem source_kcReceive : GeneratedSrc.kcReceive = ExpectedSrc.kcReceive := by rfl

/-! ### the transport the replication theorems assume: a starting receiver keeps, per key, the record that is last in log order -/
theorem source_mrProcessMessage : GeneratedSrc.mrProcessMessage = ExpectedSrc.mrProcessMessage := by rfl
theorem source_mrProcessInitBuffer : GeneratedSrc.mrProcessInitBuffer = ExpectedSrc.mrProcessInitBuffer := by rfl
theorem source_mrProcessEvent : GeneratedSrc.mrProcessEvent = ExpectedSrc.mrProcessEvent := by rfl

/-! ### influence closure: the pinned functions, and every function of the repository that writes a struct field or package
variable they read, are unchanged (digests regenerated from /repo on every run; a difference names the functions) -/
/-! ### The code itself, translated (`Generated/Trans.lean`, rewritten from /repo on every run by extractor/translate.go)

The `translated_*` theorems are about MiniGo terms the translator produced from the current Go source: for every
environment the translated fragment does what the hand-written model function says.  They are semantic obligations —
a rewrite that preserves the behaviour keeps them provable, a changed comparison, bound or argument does not. -/
section Translated
open Firebolt.MiniGo Firebolt.TransBase

theorem translated_trackerMin (σ : Env) : (run Trans.trackerMin σ).ret = some [min (σ "x") (σ "y")] := by
  by_cases h : σ "x" > σ "y" <;> minigo_simp [Trans.trackerMin, h] <;> omega

theorem translated_trackerMax (σ : Env) : (run Trans.trackerMax σ).ret = some [max (σ "x") (σ "y")] := by
  by_cases h : σ "x" < σ "y" <;> minigo_simp [Trans.trackerMax, h] <;> omega

/-- one iteration of AddRecoveryRequest's merge loop is `widen` on the request, and sets the flag iff `overlaps` -/
theorem translated_addRequestMergeBody (σ : Env) :
    let r := run Trans.addRequestMergeBody σ
    let q : Req := ⟨σ "request.FromOffset", σ "request.ToOffset"⟩
    (⟨r.env "request.FromOffset", r.env "request.ToOffset"⟩ : Req) = widen (σ "fromOffset") (σ "toOffset") q ∧
    (r.env "overlapFound" ≠ 0 ↔ (σ "overlapFound" ≠ 0 ∨ overlaps (σ "fromOffset") (σ "toOffset") q = true)) ∧
    r.calls = [] ∧ r.ret = none ∧ r.stuck = false := by
  by_cases h1 : σ "fromOffset" ≤ σ "request.ToOffset" <;> by_cases h2 : σ "request.FromOffset" ≤ σ "toOffset" <;>
  minigo_simp [Trans.addRequestMergeBody, widen, overlaps, h1, h2] <;> (try constructor) <;> (try split) <;> (try omega)

/-- one iteration of MarkRecoveryComplete's loop: the request is retained iff its `to` differs -/
theorem translated_markCompleteBody (σ : Env) :
    let r := run Trans.markCompleteBody σ
    (r.calls = if σ "request.ToOffset" ≠ σ "toOffset" then [("append retained", [σ "request"])] else []) ∧
    (r.env "removedRequest" ≠ 0 ↔ (σ "removedRequest" ≠ 0 ∨ σ "request.ToOffset" = σ "toOffset")) ∧
    r.ret = none ∧ r.stuck = false := by
  by_cases h : σ "request.ToOffset" = σ "toOffset" <;> minigo_simp [Trans.markCompleteBody, h]

/-- UpdateRecoveryRequest: broadcasts (and moves the head's `from`) iff the partition has a head request whose `to` matches -/
theorem translated_updateRequest (σ : Env) :
    let r := run Trans.updateRequest σ
    let ok := σ "rt.recoveryRequests[partitionID]" ≠ 0 ∧ σ "len(requests.Requests)" > 0 ∧ σ "request.ToOffset" = σ "toOffset"
    r.stuck = false ∧
    (ok → r.env "request.FromOffset" = σ "fromOffset" ∧ r.ret = some [σ "rt.sendRecoveryRequests#0"] ∧
          ("rt.sendRecoveryRequests", [σ "partitionID", σ "rt.recoveryRequests[partitionID]"]) ∈ r.calls) ∧
    (¬ ok → r.env "request.FromOffset" = σ "request.FromOffset" ∧ r.ret = some [σ "fmt.Errorf#0"] ∧
          ∀ a, ("rt.sendRecoveryRequests", a) ∉ r.calls) := by
  by_cases h1 : σ "rt.recoveryRequests[partitionID]" = 0 <;> by_cases h2 : σ "len(requests.Requests)" > 0 <;>
  by_cases h3 : σ "request.ToOffset" = σ "toOffset" <;>
  minigo_simp [Trans.updateRequest, h1, h2, h3] <;> (try omega)

/-- `for _, request := range reqs { body }` over a slice of pointers to requests, as Go runs it: the body is executed once
per element, in order; the element's fields are the variables `request.FromOffset` / `request.ToOffset`, what the body
leaves in them is the element afterwards; every other variable carries over.  `ok` = no iteration returned, got stuck
or made a call. -/
def rangeReqs (body : S) : List Req → Env → List Req × Env × Bool
  | [], σ => ([], σ, true)
  | q :: rest, σ =>
    let r := run body (upd (upd σ "request.FromOffset" q.fromO) "request.ToOffset" q.toO)
    let k := rangeReqs body rest r.env
    (⟨r.env "request.FromOffset", r.env "request.ToOffset"⟩ :: k.1, k.2.1, k.2.2 && r.ret.isNone && !r.stuck && r.calls.isEmpty)

/-- frame of one merge iteration: nothing but the element and the flag changes -/
theorem addRequestMergeBody_frame (σ : Env) (x : String)
    (h1 : x ≠ "request.FromOffset") (h2 : x ≠ "request.ToOffset") (h3 : x ≠ "overlapFound") :
    (run Trans.addRequestMergeBody σ).env x = σ x := by
  by_cases c1 : σ "fromOffset" ≤ σ "request.ToOffset" <;> by_cases c2 : σ "request.FromOffset" ≤ σ "toOffset" <;>
  minigo_simp [Trans.addRequestMergeBody, c1, c2, h1, h2, h3]

theorem addRequestMergeBody_sem (σ : Env) :
    let r := run Trans.addRequestMergeBody σ
    let q : Req := ⟨σ "request.FromOffset", σ "request.ToOffset"⟩
    (⟨r.env "request.FromOffset", r.env "request.ToOffset"⟩ : Req) = widen (σ "fromOffset") (σ "toOffset") q ∧
    (r.env "overlapFound" ≠ 0 ↔ (σ "overlapFound" ≠ 0 ∨ overlaps (σ "fromOffset") (σ "toOffset") q = true)) ∧
    r.calls = [] ∧ r.ret = none ∧ r.stuck = false := by
  by_cases h1 : σ "fromOffset" ≤ σ "request.ToOffset" <;> by_cases h2 : σ "request.FromOffset" ≤ σ "toOffset" <;>
  minigo_simp [Trans.addRequestMergeBody, widen, overlaps, h1, h2] <;> (try constructor) <;> (try split) <;> (try omega)

/-- the whole merge loop of AddRecoveryRequest is `map widen` on the partition's list, and the flag is `any overlaps`;
no other variable changes -/
theorem translated_addRequest_loop (l : List Req) : ∀ (σ : Env),
    let f := σ "fromOffset"
    let t := σ "toOffset"
    let k := rangeReqs Trans.addRequestMergeBody l σ
    k.1 = l.map (widen f t) ∧ k.2.2 = true ∧
    (k.2.1 "overlapFound" ≠ 0 ↔ (σ "overlapFound" ≠ 0 ∨ l.any (overlaps f t) = true)) ∧
    (∀ x, x ≠ "request.FromOffset" → x ≠ "request.ToOffset" → x ≠ "overlapFound" → k.2.1 x = σ x) := by
  induction l with
  | nil => intro σ; simp [rangeReqs]
  | cons q rest ih =>
    intro σ
    let σ0 := upd (upd σ "request.FromOffset" q.fromO) "request.ToOffset" q.toO
    have hs := addRequestMergeBody_sem σ0
    have hf := fun x h1 h2 h3 => addRequestMergeBody_frame σ0 x h1 h2 h3
    have e0 : ∀ x, x ≠ "request.FromOffset" → x ≠ "request.ToOffset" → σ0 x = σ x := by
      intro x h1 h2; simp [σ0, h1, h2]
    have e3 : σ0 "request.FromOffset" = q.fromO := by simp [σ0]
    have e4 : σ0 "request.ToOffset" = q.toO := by simp [σ0]
    have ih' := ih (run Trans.addRequestMergeBody σ0).env
    simp only [] at hs ih'
    rw [hf "fromOffset" (by decide) (by decide) (by decide), hf "toOffset" (by decide) (by decide) (by decide),
        e0 "fromOffset" (by decide) (by decide), e0 "toOffset" (by decide) (by decide)] at ih'
    obtain ⟨hq, hflag, hc, hr, hst⟩ := hs
    obtain ⟨i1, i2, i3, i4⟩ := ih'
    rw [e0 "fromOffset" (by decide) (by decide), e0 "toOffset" (by decide) (by decide), e3, e4] at hq
    rw [e0 "fromOffset" (by decide) (by decide), e0 "toOffset" (by decide) (by decide), e3, e4,
        e0 "overlapFound" (by decide) (by decide)] at hflag
    have hq' : (⟨q.fromO, q.toO⟩ : Req) = q := by cases q; rfl
    rw [hq'] at hq hflag
    simp only [rangeReqs, List.map_cons, List.any_cons]
    refine ⟨?_, ?_, ?_, ?_⟩
    · rw [← hq, ← i1]
    · simp [i2, hr, hst, hc, σ0]
    · rw [i3, hflag]; simp [Bool.or_eq_true, or_assoc]
    · intro x h1 h2 h3
      rw [i4 x h1 h2 h3, hf x h1 h2 h3, e0 x h1 h2]

theorem map_widen_of_not_any (f t : Int) (l : List Req) (h : ¬ l.any (overlaps f t) = true) : l.map (widen f t) = l := by
  induction l with
  | nil => rfl
  | cons q rest ih =>
    simp only [List.any_cons, Bool.or_eq_true, not_or] at h
    simp [widen, h.1, ih h.2]

/-- AddRecoveryRequest as a whole, assembled from its translated head, merge loop and tail: the partition's list afterwards,
all calls, the returned value -/
def addRequestRun (l : List Req) (σ : Env) : List Req × List (String × List Int) × Option (List Int) :=
  let h := run Trans.addRequestHead σ
  let k := rangeReqs Trans.addRequestMergeBody l h.env
  let t := run Trans.addRequestTail k.2.1
  -- `requests.Requests = append(requests.Requests, request)` with the request just built from (partitionID, from, to, now)
  let l' := match t.calls with
    | ("new RecoveryRequest {PartitionID,FromOffset,ToOffset,Created}", [_, f, t', _]) :: ("append requests.Requests", _) :: _ =>
      k.1 ++ [⟨f, t'⟩]
    | _ => k.1
  (l', h.calls ++ t.calls, t.ret)

/-- **AddRecoveryRequest = `Tracker.addL`**, for every list of tracked requests and every environment: the list afterwards is
the model's, the call ends by broadcasting the partition's (possibly just created) list and returns what that returned -/
theorem translated_addRecoveryRequest (l : List Req) (σ : Env) :
    let reqs := if σ "rt.recoveryRequests[partitionID]" = 0 then σ "&RecoveryRequests{}" else σ "rt.recoveryRequests[partitionID]"
    (addRequestRun l σ).1 = addL l (σ "fromOffset") (σ "toOffset") ∧
    (addRequestRun l σ).2.1.getLast? = some ("rt.sendRecoveryRequests", [σ "partitionID", reqs]) ∧
    (addRequestRun l σ).2.2 = some [σ "rt.sendRecoveryRequests#0"] := by
  have hh : (run Trans.addRequestHead σ).env "overlapFound" = 0 ∧
      (run Trans.addRequestHead σ).env "requests" =
        (if σ "rt.recoveryRequests[partitionID]" = 0 then σ "&RecoveryRequests{}" else σ "rt.recoveryRequests[partitionID]") ∧
      (∀ x, x ≠ "requests" → x ≠ "rt.recoveryRequests[partitionID]" → x ≠ "overlapFound" → (run Trans.addRequestHead σ).env x = σ x) := by
    by_cases c : σ "rt.recoveryRequests[partitionID]" = 0 <;> minigo_simp [Trans.addRequestHead, c] <;>
      (intro x h1 h2 h3; simp [h1, h2, h3])
  obtain ⟨h0, h4, hfr⟩ := hh
  have hl := translated_addRequest_loop l (run Trans.addRequestHead σ).env
  simp only [] at hl
  rw [h0, hfr "fromOffset" (by decide) (by decide) (by decide), hfr "toOffset" (by decide) (by decide) (by decide)] at hl
  obtain ⟨l1, _, l3, lfr⟩ := hl
  have l4 := lfr "fromOffset" (by decide) (by decide) (by decide)
  have l5 := lfr "toOffset" (by decide) (by decide) (by decide)
  have l6 := lfr "partitionID" (by decide) (by decide) (by decide)
  have l7 := lfr "requests" (by decide) (by decide) (by decide)
  have l8 := lfr "rt.sendRecoveryRequests#0" (by decide) (by decide) (by decide)
  rw [hfr "fromOffset" (by decide) (by decide) (by decide)] at l4
  rw [hfr "toOffset" (by decide) (by decide) (by decide)] at l5
  rw [hfr "partitionID" (by decide) (by decide) (by decide)] at l6
  rw [h4] at l7
  rw [hfr "rt.sendRecoveryRequests#0" (by decide) (by decide) (by decide)] at l8
  simp only [addRequestRun, addL]
  generalize (rangeReqs Trans.addRequestMergeBody l (run Trans.addRequestHead σ).env) = k at *
  by_cases hany : l.any (overlaps (σ "fromOffset") (σ "toOffset")) = true
  · have hf : k.2.1 "overlapFound" ≠ 0 := l3.mpr (Or.inr hany)
    minigo_simp [Trans.addRequestTail, hf, hany, l1, l6, l7, l8]
  · have hf : k.2.1 "overlapFound" = 0 := by
      by_cases c : k.2.1 "overlapFound" = 0
      · exact c
      · exact absurd (l3.mp c) (by simp [hany])
    minigo_simp [Trans.addRequestTail, hf, hany, l1, l4, l5, l6, l7, l8, map_widen_of_not_any _ _ _ hany]

/-- MarkRecoveryComplete's loop: `retained = append(retained, request)` events collect the requests that stay -/
def rangeRetain (body : S) : List Req → Env → List Req × Env × Bool
  | [], σ => ([], σ, true)
  | q :: rest, σ =>
    let r := run body (upd (upd σ "request.FromOffset" q.fromO) "request.ToOffset" q.toO)
    let k := rangeRetain body rest r.env
    ((if r.calls.any (fun c => c.1 == "append retained") then [q] else []) ++ k.1, k.2.1, k.2.2 && r.ret.isNone && !r.stuck)

theorem markCompleteBody_sem (σ : Env) :
    let r := run Trans.markCompleteBody σ
    (r.calls = if σ "request.ToOffset" ≠ σ "toOffset" then [("append retained", [σ "request"])] else []) ∧
    (r.env "removedRequest" ≠ 0 ↔ (σ "removedRequest" ≠ 0 ∨ σ "request.ToOffset" = σ "toOffset")) ∧
    r.ret = none ∧ r.stuck = false ∧ (∀ x, x ≠ "removedRequest" → r.env x = σ x) := by
  by_cases h : σ "request.ToOffset" = σ "toOffset" <;> minigo_simp [Trans.markCompleteBody, h] <;>
    (intro x hx; simp [hx])

/-- the whole loop: retained = the requests whose `to` differs, removed iff some request ends at `to` -/
theorem translated_markComplete_loop (l : List Req) : ∀ (σ : Env),
    let k := rangeRetain Trans.markCompleteBody l σ
    k.1 = l.filter (fun r => r.toO ≠ σ "toOffset") ∧ k.2.2 = true ∧
    (k.2.1 "removedRequest" ≠ 0 ↔ (σ "removedRequest" ≠ 0 ∨ l.any (fun r => r.toO = σ "toOffset") = true)) ∧
    (∀ x, x ≠ "request.FromOffset" → x ≠ "request.ToOffset" → x ≠ "removedRequest" → k.2.1 x = σ x) := by
  induction l with
  | nil => intro σ; simp [rangeRetain]
  | cons q rest ih =>
    intro σ
    let σ0 := upd (upd σ "request.FromOffset" q.fromO) "request.ToOffset" q.toO
    have hs := markCompleteBody_sem σ0
    have e0 : ∀ x, x ≠ "request.FromOffset" → x ≠ "request.ToOffset" → σ0 x = σ x := by
      intro x h1 h2; simp [σ0, h1, h2]
    have e4 : σ0 "request.ToOffset" = q.toO := by simp [σ0]
    have ih' := ih (run Trans.markCompleteBody σ0).env
    simp only [] at hs ih'
    obtain ⟨hc, hflag, hr, hst, hfr⟩ := hs
    rw [hfr "toOffset" (by decide), e0 "toOffset" (by decide) (by decide)] at ih'
    obtain ⟨i1, i2, i3, i4⟩ := ih'
    rw [e4, e0 "toOffset" (by decide) (by decide)] at hc
    rw [e4, e0 "toOffset" (by decide) (by decide), e0 "removedRequest" (by decide) (by decide)] at hflag
    simp only [rangeRetain, List.filter_cons, List.any_cons]
    refine ⟨?_, ?_, ?_, ?_⟩
    · rw [i1, hc]; by_cases c : q.toO = σ "toOffset" <;> simp [c]
    · simp [i2, hr, hst, σ0]
    · rw [i3, hflag]; simp [Bool.or_eq_true, or_assoc]
    · intro x h1 h2 h3
      rw [i4 x h1 h2 h3, hfr x h3, e0 x h1 h2]

/-- MarkRecoveryComplete as a whole (partition present): the new list, whether it was broadcast, the returned value -/
def markCompleteRun (l : List Req) (σ : Env) : List Req × List (String × List Int) × Option (List Int) :=
  let h := run Trans.markCompleteHead σ
  let k := rangeRetain Trans.markCompleteBody l h.env
  let t := run Trans.markCompleteTail k.2.1
  -- `requests.Requests = retained` is executed iff the tail reaches the broadcast
  ((if t.calls.any (fun c => c.1 == "rt.sendRecoveryRequests") then k.1 else l), h.calls ++ t.calls, t.ret)

/-- **MarkRecoveryComplete = `Tracker.complete`** on a partition that has an entry: the list afterwards, and a broadcast
exactly when some request ended at `to` (otherwise the error is returned and nothing is broadcast) -/
theorem translated_markRecoveryComplete (l : List Req) (σ : Env) (hp : σ "rt.recoveryRequests[partitionID]" ≠ 0) :
    let hit := l.any (fun r => r.toO = σ "toOffset")
    (markCompleteRun l σ).1 = (if hit then l.filter (fun r => r.toO ≠ σ "toOffset") else l) ∧
    ((∃ a, ("rt.sendRecoveryRequests", a) ∈ (markCompleteRun l σ).2.1) ↔ hit = true) ∧
    (markCompleteRun l σ).2.2 = some [if hit then σ "rt.sendRecoveryRequests#0" else σ "fmt.Errorf#0"] := by
  have hh : (run Trans.markCompleteHead σ).env "removedRequest" = 0 ∧ (run Trans.markCompleteHead σ).ret = none ∧
      (∀ a, ("rt.sendRecoveryRequests", a) ∉ (run Trans.markCompleteHead σ).calls) ∧
      (∀ x, x ≠ "requests" → x ≠ "removedRequest" → x ≠ "retained" → (run Trans.markCompleteHead σ).env x = σ x) := by
    minigo_simp [Trans.markCompleteHead, hp]
    intro x h1 h2 h3; simp [h1, h2, h3]
  obtain ⟨h0, _, hns, hfr⟩ := hh
  have hl := translated_markComplete_loop l (run Trans.markCompleteHead σ).env
  simp only [] at hl
  rw [h0, hfr "toOffset" (by decide) (by decide) (by decide)] at hl
  obtain ⟨l1, _, l3, lfr⟩ := hl
  have l8 := lfr "rt.sendRecoveryRequests#0" (by decide) (by decide) (by decide)
  have l9 := lfr "fmt.Errorf#0" (by decide) (by decide) (by decide)
  rw [hfr "rt.sendRecoveryRequests#0" (by decide) (by decide) (by decide)] at l8
  rw [hfr "fmt.Errorf#0" (by decide) (by decide) (by decide)] at l9
  simp only [markCompleteRun]
  generalize (rangeRetain Trans.markCompleteBody l (run Trans.markCompleteHead σ).env) = k at *
  by_cases hany : l.any (fun r => r.toO = σ "toOffset") = true
  · have hf : k.2.1 "removedRequest" ≠ 0 := l3.mpr (Or.inr (by simpa using hany))
    minigo_simp [Trans.markCompleteTail, hf, hany, l1, l8]
  · have hf : k.2.1 "removedRequest" = 0 := by
      by_cases c : k.2.1 "removedRequest" = 0
      · exact c
      · exact absurd (l3.mp c) (by simpa using hany)
    minigo_simp [Trans.markCompleteTail, hf, hany, l9]
    intro a; exact hns a

/-- and that is `Tracker.complete` -/
theorem model_complete_eq (s : Store) (p t : Int) (l : List Req) (h : s.get? p = some l) :
    complete s p t =
      if l.any (fun r => r.toO = t) then (s.set p (l.filter (fun r => r.toO ≠ t)), [(p, l.filter (fun r => r.toO ≠ t))], true)
      else (s, [], false) := by
  simp [complete, h]

end Translated

theorem closure_unchanged : GeneratedClo.C08 = ExpectedClo.C08 := by rfl

end Firebolt.C08
