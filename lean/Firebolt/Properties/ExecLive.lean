import Firebolt.Properties.ExecNet
/-!
# Progress: the shutdown cascade of a whole tree cannot get stuck

`deadlock_free`: in every state of the product model reachable under any global schedule, once the source has finished
(the root component's input is closed), either every node of the tree is terminal — all workers gone, nothing pending —
or some worker somewhere can take a step.  With a fair scheduler and node code that returns (which is what `procReturn`,
`complete`, `shutExit` being separate actions stands for) this is termination of `Execute`'s drain; the bound on *how long*
it may take is C17's business.

Two more invariants of the component are needed (`LiveInv`): delivery lists only name existing downstream channels, and a
worker has left only after the close of the children has happened.
-/
namespace Firebolt.Exec

structure LiveInv (c : Cfg) (s : St) : Prop where
  todo_pc : ∀ w t, s.pc w = .deliver t → ∀ y ∈ t, y.1 < c.K
  todo_cb : ∀ t ∈ s.cbs, ∀ y ∈ t, y.1 < c.K
  exited_done : ∀ w, s.pc w = .exited → s.onceDone = true

theorem init_live (c : Cfg) (caps : Nat → Nat) (disc : Nat → Bool) : LiveInv c (init c caps disc) := by
  refine ⟨?_, ?_, ?_⟩ <;> simp [init]

theorem todoOf_ok (c : Cfg) (e : Ev) (o : Outcome) : ∀ y ∈ todoOf c e o, y.1 < c.K := by
  intro y hy
  cases o with
  | pass rs =>
    simp only [todoOf, List.mem_flatMap, List.mem_range, List.mem_map] at hy
    obtain ⟨k, hk, r, _, rfl⟩ := hy
    unfold Cfg.K; simp; omega
  | filter => simp [todoOf] at hy
  | error =>
    simp only [todoOf] at hy
    split at hy
    · rename_i hh
      simp at hy; subst hy
      unfold Cfg.K; simp [hh]
    · simp at hy

theorem live_of_move (c : Cfg) (s s' : St) (w : Nat) (v : Pc) (h : LiveInv c s)
    (hpc : s'.pc = upd s.pc w v) (hcb : s'.cbs = s.cbs) (hdone : s.onceDone = true → s'.onceDone = true)
    (hv1 : ∀ t, v = .deliver t → ∀ y ∈ t, y.1 < c.K) (hv2 : v = .exited → s'.onceDone = true) : LiveInv c s' := by
  refine ⟨?_, ?_, ?_⟩
  · intro u t hu
    rw [hpc] at hu
    by_cases huw : u = w
    · subst huw; simp at hu; exact hv1 t hu
    · rw [upd_other _ _ _ _ huw] at hu; exact h.todo_pc u t hu
  · rw [hcb]; exact h.todo_cb
  · intro u hu
    rw [hpc] at hu
    by_cases huw : u = w
    · subst huw; simp at hu; exact hv2 hu
    · rw [upd_other _ _ _ _ huw] at hu; exact hdone (h.exited_done u hu)

theorem live_of_same (c : Cfg) (s s' : St) (h : LiveInv c s) (hpc : s'.pc = s.pc) (hdone : s'.onceDone = s.onceDone)
    (hcb : ∀ t ∈ s'.cbs, ∀ y ∈ t, y.1 < c.K) : LiveInv c s' :=
  ⟨fun u t hu => by rw [hpc] at hu; exact h.todo_pc u t hu, hcb, fun u hu => by rw [hpc] at hu; rw [hdone]; exact h.exited_done u hu⟩

theorem trySend_live (s s' : St) (k : Nat) (x : Ev) (ht : trySend s k x = some s') :
    s'.pc = s.pc ∧ s'.cbs = s.cbs ∧ s'.onceDone = s.onceDone := by
  obtain ⟨h1, _, _, h4, _, _, _, h8, _, _⟩ := trySend_frame s s' k x ht
  exact ⟨h1, h8, h4⟩

theorem step_live (c : Cfg) (s s' : St) (a : Act) (h : LiveInv c s) (hs : step c s a = some s') : LiveInv c s' := by
  cases a with
  | upSend e =>
    simp only [step] at hs; split at hs <;> simp at hs
    subst hs; exact live_of_same c s _ h rfl rfl h.todo_cb
  | upClose =>
    simp only [step] at hs; split at hs <;> simp at hs
    subst hs; exact live_of_same c s _ h rfl rfl h.todo_cb
  | recv w =>
    simp only [step] at hs; og hs; og hs
    split at hs
    · cases hs; exact live_of_same c s _ h rfl rfl h.todo_cb
    · cases hs; exact live_of_move c s _ w _ h rfl rfl id (by intro t ht; cases ht) (by intro ht; cases ht)
  | procReturn w =>
    simp only [step] at hs; og hs; og hs
    rename_i e hpc; cases hs
    exact live_of_move c s _ w (.deliver (todoOf c e (c.oracle e))) h (by simp [resolve]) (by simp [resolve]) (by intro hd; simpa [resolve] using hd)
      (by intro t ht; cases ht; exact todoOf_ok c e _) (by intro ht; cases ht)
  | complete i =>
    simp only [step] at hs; og hs
    rename_i e he; cases hs
    refine live_of_same c s _ h (by simp [resolve]) (by simp [resolve]) ?_
    intro t ht
    simp only [List.mem_append, List.mem_singleton] at ht
    rcases ht with ht | rfl
    · exact h.todo_cb t ht
    · exact todoOf_ok c e _
  | send w =>
    simp only [step] at hs; og hs; og hs
    rename_i k x todo hpc
    cases ht : trySend s k x with
    | none => simp [ht] at hs
    | some s1 =>
      simp [ht] at hs; subst hs
      obtain ⟨t1, t2, t3⟩ := trySend_live s s1 k x ht
      refine live_of_move c s _ w (.deliver todo) h (by simp [t1]) (by simp [t2]) (by simp [t3]) ?_ (by intro ht; cases ht)
      intro t ht'; cases ht'
      intro y hy
      exact h.todo_pc w _ hpc y (List.mem_cons_of_mem _ hy)
  | finish w =>
    simp only [step] at hs; og hs; og hs; cases hs
    exact live_of_move c s _ w .idle h rfl rfl id (by intro t ht; cases ht) (by intro ht; cases ht)
  | cbSend i =>
    simp only [step] at hs; og hs
    rename_i k x todo he
    cases ht : trySend s k x with
    | none => simp [ht] at hs
    | some s1 =>
      simp [ht] at hs; subst hs
      obtain ⟨t1, t2, t3⟩ := trySend_live s s1 k x ht
      refine live_of_same c s _ h (by simp [t1]) (by simp [t3]) ?_
      intro t htm
      simp only [setCb, t2] at htm
      have hmem : ((k, x) :: todo) ∈ s.cbs := List.mem_of_getElem? he
      rcases List.mem_or_eq_of_mem_set htm with h1 | rfl
      · exact h.todo_cb t h1
      · intro y hy; exact h.todo_cb _ hmem y (List.mem_cons_of_mem _ hy)
  | cbFinish i =>
    simp only [step] at hs; og hs; cases hs
    refine live_of_same c s _ h rfl rfl ?_
    intro t ht
    exact h.todo_cb t (List.mem_of_mem_eraseIdx ht)
  | seeClosed w =>
    simp only [step] at hs; og hs; og hs; og hs; cases hs
    exact live_of_move c s _ w _ h rfl rfl id (by intro t ht; cases ht) (by intro ht; cases ht)
  | wgDone w =>
    simp only [step] at hs; og hs; og hs; cases hs
    exact live_of_move c s _ w _ h rfl rfl id (by intro t ht; cases ht) (by intro ht; cases ht)
  | wgWait w =>
    simp only [step] at hs; og hs; og hs; og hs; cases hs
    exact live_of_move c s _ w _ h rfl rfl id (by intro t ht; cases ht) (by intro ht; cases ht)
  | onceEnter w =>
    simp only [step] at hs; og hs; og hs
    split at hs
    · cases hs; exact live_of_move c s _ w _ h rfl rfl id (by intro t ht; cases ht) (by intro ht; cases ht)
    · og hs
      rename_i hd
      cases hs; exact live_of_move c s _ w _ h rfl rfl id (by intro t ht; cases ht) (fun _ => hd)
  | shutEnter w =>
    simp only [step] at hs; og hs; og hs; cases hs
    exact live_of_move c s _ w _ h rfl rfl id (by intro t ht; cases ht) (by intro ht; cases ht)
  | shutExit w =>
    simp only [step] at hs; og hs; og hs; og hs; cases hs
    exact live_of_move c s _ w _ h rfl rfl id (by intro t ht; cases ht) (by intro ht; cases ht)
  | closeAll w =>
    simp only [step] at hs; og hs; og hs
    split at hs
    · cases hs; exact live_of_same c s _ h rfl rfl h.todo_cb
    · cases hs; exact live_of_move c s _ w _ h rfl rfl (fun _ => rfl) (by intro t ht; cases ht) (fun _ => rfl)
  | downRecv k =>
    simp only [step] at hs
    split at hs
    · cases hs; exact live_of_same c s _ h rfl rfl h.todo_cb
    · simp at hs


theorem cnt_zero_of_all (W : Nat) (f : Nat → Pc) (P : Pc → Bool) (h : ∀ w, w < W → P (f w) = false) : cnt W f P = 0 := by
  induction W with
  | zero => rfl
  | succ W ih =>
    simp only [cnt]
    rw [ih (fun w hw => h w (by omega)), h W (by omega)]; simp

/-- a delivery on channel `k` cannot proceed: open, full, not discarding -/
def BlockedOn (s : St) (k : Nat) : Prop :=
  (s.outs k).closed = false ∧ ¬ (s.outs k).buf.length < (s.outs k).cap ∧ (s.outs k).discard = false

theorem trySend_none (s : St) (k : Nat) (x : Ev) (h : trySend s k x = none) : BlockedOn s k := by
  simp only [trySend] at h
  split at h
  · simp at h
  · rename_i hc
    split at h
    · simp at h
    · rename_i hr
      split at h
      · simp at h
      · rename_i hd
        exact ⟨by simpa using hc, hr, by simpa using hd⟩

def nonEnv : Act → Bool
  | .upSend _ | .upClose | .downRecv _ => false
  | _ => true

/-- **local progress**: a component in which no worker and no completion can take a step is blocked on a full,
non-discarding downstream channel, or waiting for input on an open, empty input, or terminal -/
theorem local_progress (c : Cfg) (s : St) (h : AllInv c s) (hl : LiveInv c s) (hW : 0 < c.W)
    (hstuck : ∀ a, nonEnv a = true → step c s a = none) :
    (∃ k, k < c.K ∧ BlockedOn s k) ∨ (s.inp = [] ∧ s.inpClosed = false) ∨ Terminal c s := by
  -- no completion is awaited
  have hpend : s.pending = [] := by
    cases hp : s.pending with
    | nil => rfl
    | cons e rest =>
      have := hstuck (.complete 0) rfl
      simp [step, hp] at this
  by_cases hB : ∃ k, k < c.K ∧ BlockedOn s k
  · exact Or.inl hB
  have hcbs : s.cbs = [] := by
    cases hc : s.cbs with
    | nil => rfl
    | cons t rest =>
      cases t with
      | nil =>
        have := hstuck (.cbFinish 0) rfl
        simp [step, hc] at this
      | cons y todo =>
        obtain ⟨k, x⟩ := y
        have := hstuck (.cbSend 0) rfl
        simp only [step, hc, List.getElem?_cons_zero] at this
        cases ht : trySend s k x with
        | some s1 => simp [ht] at this
        | none =>
          exact absurd ⟨k, hl.todo_cb _ (by rw [hc]; exact List.mem_cons_self) (k, x) List.mem_cons_self, trySend_none s k x ht⟩ hB
  by_cases hWait : s.inp = [] ∧ s.inpClosed = false
  · exact Or.inr (Or.inl hWait)
  -- every worker is past the barrier or has left
  have hw : ∀ w, w < c.W → s.pc w = .c2 ∧ s.wg ≠ 0 ∨ s.pc w = .c3 ∧ s.onceTaken = true ∧ s.onceDone = false ∨ s.pc w = .exited := by
    intro w hw
    cases hpc : s.pc w with
    | idle =>
      exfalso
      cases hi : s.inp with
      | cons e rest =>
        have := hstuck (.recv w) rfl
        simp only [step, hw, if_true, hpc, hi] at this
        split at this <;> simp at this
      | nil =>
        cases hc : s.inpClosed with
        | false => exact hWait ⟨hi, hc⟩
        | true =>
          have := hstuck (.seeClosed w) rfl
          simp [step, hw, hpc, hi, hc] at this
    | proc e => exfalso; have := hstuck (.procReturn w) rfl; simp [step, hw, hpc] at this
    | deliver t =>
      exfalso
      cases t with
      | nil => have := hstuck (.finish w) rfl; simp [step, hw, hpc] at this
      | cons y todo =>
        obtain ⟨k, x⟩ := y
        have := hstuck (.send w) rfl
        simp only [step, hw, if_true, hpc] at this
        cases ht : trySend s k x with
        | some s1 => simp [ht] at this
        | none => exact hB ⟨k, hl.todo_pc w _ hpc (k, x) List.mem_cons_self, trySend_none s k x ht⟩
    | c1 => exfalso; have := hstuck (.wgDone w) rfl; simp [step, hw, hpc] at this
    | c2 =>
      refine Or.inl ⟨rfl, ?_⟩
      intro hz
      have := hstuck (.wgWait w) rfl
      simp [step, hw, hpc, hz] at this
    | c3 =>
      refine Or.inr (Or.inl ⟨rfl, ?_⟩)
      have := hstuck (.onceEnter w) rfl
      simp only [step, hw, if_true, hpc] at this
      cases ht : s.onceTaken with
      | false => simp [ht] at this
      | true =>
        cases hd : s.onceDone with
        | false => exact ⟨rfl, rfl⟩
        | true => simp [ht, hd] at this
    | hSh => exfalso; have := hstuck (.shutEnter w) rfl; simp [step, hw, hpc] at this
    | hShIn => exfalso; have := hstuck (.shutExit w) rfl; simp [step, hw, hpc, hpend, hcbs] at this
    | hClose =>
      exfalso
      have := hstuck (.closeAll w) rfl
      simp only [step, hw, if_true, hpc] at this
      split at this <;> simp at this
    | exited => exact Or.inr (Or.inr rfl)
  -- nobody is live, nobody holds the Once
  have hnolive : cnt c.W s.pc Pc.live = 0 := cnt_zero_of_all _ _ _ (fun w hw' => by
    rcases hw w hw' with ⟨e, _⟩ | ⟨e, _⟩ | e <;> simp [e, Pc.live])
  have hnoholder : cnt c.W s.pc Pc.holder = 0 := cnt_zero_of_all _ _ _ (fun w hw' => by
    rcases hw w hw' with ⟨e, _⟩ | ⟨e, _⟩ | e <;> simp [e, Pc.holder])
  have hwg : s.wg = 0 := by rw [h.casc.wg_live]; exact hnolive
  refine Or.inr (Or.inr ⟨hW, ?_, hcbs, hpend⟩)
  intro w hw'
  rcases hw w hw' with ⟨_, hne⟩ | ⟨_, ht, hd⟩ | e
  · exact absurd hwg hne
  · have := h.casc.holders
    rw [hnoholder, ht, hd] at this
    simp at this
  · exact e



theorem partner_live (c : Cfg) (s : St) (a : Act) (h : LiveInv c s) : LiveInv c (partner c s a) := by
  unfold partner
  cases hs : step c s a with
  | none => simpa using h
  | some s' => simpa using step_live c s s' a h hs

theorem gstep_live (N N' : Net) (p : Path) (a : Act) (h : ∀ r, LiveInv (N.cfg r) (N.st r)) (hg : gstep N p a = some N') :
    ∀ r, LiveInv (N'.cfg r) (N'.st r) := by
  obtain ⟨_, s', hs, hcfg, hp, hkid, hoth⟩ := gstep_shape N N' p a hg
  intro r
  rw [hcfg]
  by_cases hr : r = p
  · subst hr; rw [hp]; exact step_live _ _ _ _ (h r) hs
  · by_cases hk : ∃ k, r = k :: p
    · obtain ⟨k, rfl⟩ := hk
      rw [hkid]; unfold kidSync
      split
      · split
        · exact partner_live _ _ _ (h _)
        · exact h _
      · split
        · exact partner_live _ _ _ (h _)
        · exact h _
    · rw [hoth r hr (fun k hk' => hk ⟨k, hk'⟩)]
      unfold parSync
      split
      · split
        · exact partner_live _ _ _ (h _)
        · exact h _
      · exact h _

theorem reachable_live (cfg : Path → Cfg) (caps : Path → Nat) (disc : Path → Bool) (sched : List (Path × Act)) (N : Net)
    (hr : grun (ginit cfg caps disc) sched = some N) : ∀ r, LiveInv (N.cfg r) (N.st r) := by
  have h0 : ∀ r, LiveInv ((ginit cfg caps disc).cfg r) ((ginit cfg caps disc).st r) := fun r => init_live _ _ _
  generalize ginit cfg caps disc = N0 at hr h0
  induction sched generalizing N0 with
  | nil => simp [grun] at hr; subst hr; exact h0
  | cons pa rest ih =>
    obtain ⟨p, a⟩ := pa
    simp only [grun] at hr
    cases hg : gstep N0 p a with
    | none => simp [hg] at hr
    | some N1 => rw [hg] at hr; exact ih N1 hr (gstep_live N0 N1 p a h0 hg)

/-- a non-environment action of a node is a global step exactly when it is a step of that node's component -/
theorem gstep_none_step_none (N : Net) (p : Path) (a : Act) (ha : nonEnv a = true) (h : gstep N p a = none) :
    step (N.cfg p) (N.st p) a = none := by
  have hal : allowed p a = true := by cases a <;> simp [nonEnv] at ha <;> rfl
  unfold gstep at h
  simp only [hal, Bool.not_true, Bool.false_eq_true, if_false] at h
  cases hs : step (N.cfg p) (N.st p) a with
  | none => rfl
  | some s' => simp [hs] at h

def FiniteDepth (cfg : Path → Cfg) (d : Nat) : Prop := ∀ p : Path, d ≤ p.length → (cfg p).K = 0

/-- **the cascade cannot get stuck**: in every reachable state of the whole tree in which the source has finished, either
every node is terminal or some worker (or pending completion) of some node can take a step -/
theorem deadlock_free (cfg : Path → Cfg) (caps : Path → Nat) (disc : Path → Bool) (sched : List (Path × Act)) (N : Net) (d : Nat)
    (hr : grun (ginit cfg caps disc) sched = some N) (hd : FiniteDepth cfg d) (hW : ∀ p, 0 < (cfg p).W) (hcap : ∀ p, 1 ≤ caps p)
    (hsrc : (N.st []).inpClosed = true) :
    (∀ p, inTree cfg p → Terminal (cfg p) (N.st p)) ∨ ∃ p a, nonEnv a = true ∧ (gstep N p a).isSome = true := by
  obtain ⟨hG, hcfg, hst⟩ := reachable_ginv cfg caps disc sched N hr
  have hL := reachable_live cfg caps disc sched N hr
  subst hcfg
  by_cases hmove : ∃ p a, nonEnv a = true ∧ (gstep N p a).isSome = true
  · exact Or.inr hmove
  refine Or.inl ?_
  have hstuck : ∀ p a, nonEnv a = true → step (N.cfg p) (N.st p) a = none := by
    intro p a ha
    apply gstep_none_step_none N p a ha
    cases hg : gstep N p a with
    | none => rfl
    | some N' => exact absurd ⟨p, a, ha, by simp [hg]⟩ hmove
  have hloc := fun p => local_progress (N.cfg p) (N.st p) (hG.all p) (hL p) (hW p) (hstuck p)
  -- nobody is blocked on a full channel: the child below would have input and nothing to do
  have hnoblock : ∀ n (p : Path), d - p.length = n → ¬ ∃ k, k < (N.cfg p).K ∧ BlockedOn (N.st p) k := by
    intro n
    induction n using Nat.strongRecOn with
    | _ n ih =>
      intro p hn ⟨k, hk, hopen, hfull, hnd⟩
      have hlen : p.length < d := by
        cases Nat.lt_or_ge p.length d with
        | inl h => exact h
        | inr h => have := hd p h; omega
      obtain ⟨l1, l2, _⟩ := link_fields N hG.link p k hk
      have hcapk : ((N.st p).outs k).cap = caps (k :: p) := by
        have := hst p k; simp only [DV, Prod.mk.injEq] at this; exact this.2
      have hne : (N.st (k :: p)).inp ≠ [] := by
        rw [l1]; intro he
        have : ((N.st p).outs k).buf.length = 0 := by rw [he]; rfl
        have := hcap (k :: p); omega
      rcases hloc (k :: p) with hb | ⟨he, _⟩ | ht
      · exact ih (d - (k :: p).length) (by simp; omega) (k :: p) rfl hb
      · exact hne he
      · exact hne (terminal_drained _ _ (hG.all _) ht).2.2
  intro p
  induction p with
  | nil =>
    intro _
    rcases hloc [] with hb | ⟨_, hc⟩ | ht
    · exact absurd hb (hnoblock _ [] rfl)
    · rw [hsrc] at hc; cases hc
    · exact ht
  | cons k q ih =>
    intro hin
    obtain ⟨hq, hk⟩ := hin
    have htq := ih hq
    have hdone : (N.st q).onceDone = true := (hL q).exited_done 0 (htq.exited 0 htq.pos)
    have hclosed : ((N.st q).outs k).closed = true := by
      rw [(hG.all q).casc.closed_iff k, hdone]; simp [hk]
    obtain ⟨_, l2, _⟩ := link_fields N hG.link q k hk
    rcases hloc (k :: q) with hb | ⟨_, hc⟩ | ht
    · exact absurd hb (hnoblock _ (k :: q) rfl)
    · rw [l2, hclosed] at hc; cases hc
    · exact ht



/-! ### non-vacuity: the hypotheses hold for the demo tree right after the source has ended -/
theorem demo_finite : FiniteDepth demoNetCfg 3 := by
  intro p hp
  match p with
  | [] => simp at hp
  | [_] => simp at hp
  | [_, _] => simp at hp
  | a :: b :: c :: r =>
    cases r <;> cases a <;> cases b <;> cases c <;> simp [demoNetCfg, Cfg.K]

theorem demo_workers : ∀ p, 0 < (demoNetCfg p).W := by
  intro p
  unfold demoNetCfg
  split <;> simp

example :
    let N := (grun (ginit demoNetCfg (fun _ => 1) (fun _ => false)) (demoNetSchedule.take 4)).get (by rfl)
    (∀ p, inTree demoNetCfg p → Terminal (demoNetCfg p) (N.st p)) ∨ ∃ p a, nonEnv a = true ∧ (gstep N p a).isSome = true := by
  intro N
  have hr : grun (ginit demoNetCfg (fun _ => 1) (fun _ => false)) (demoNetSchedule.take 4) = some N := by
    exact (Option.some_get _).symm
  exact deadlock_free demoNetCfg (fun _ => 1) (fun _ => false) (demoNetSchedule.take 4) N 3 hr demo_finite demo_workers (fun _ => Nat.le_refl 1) (by rfl)


end Firebolt.Exec
