import Firebolt.Properties.ExecLedger
/-!
# From the operational model to the flow equations (C01, C02, C03, C04, C16)

All invariants together hold in every reachable state (`reachable_all`).  In a terminal state — every worker has left,
which by the cascade invariant means the input was closed and drained, Shutdown has run and all channels are closed — the
counting invariants become the equations of the properties, for EVERY schedule that led there:
* every downstream channel was offered exactly (as a multiset) what the node handed to delivery (`terminal_offered`);
* a non-discarding child received exactly the results of the events its parent passed, a non-discarding handler exactly the
  failed events (`terminal_child`, `terminal_handler`) — the operational counterpart of `Flow.passed` / `Flow.failedEvents`;
* everything the upstream sent was handed to the node (`terminal_drained`), and every handed event was resolved;
* received = processed + filtered + failed, each counting the events with that outcome (`terminal_counters`).
-/
namespace Firebolt.Exec

def Pc.leaving : Pc → Bool
  | .idle | .proc _ | .deliver _ => false
  | _ => true

/-- once a worker has seen the input closed and drained, it stays closed and empty -/
structure DrainInv (c : Cfg) (s : St) : Prop where
  drained : ∀ w, w < c.W → (s.pc w).leaving = true → s.inpClosed = true ∧ s.inp = []

theorem init_drain (c : Cfg) (caps : Nat → Nat) (disc : Nat → Bool) : DrainInv c (init c caps disc) :=
  ⟨fun w _ h => by simp [init, Pc.leaving] at h⟩

theorem drain_of_move (c : Cfg) (s s' : St) (w : Nat) (v : Pc) (h : DrainInv c s)
    (hpc : s'.pc = upd s.pc w v) (h1 : s'.inpClosed = s.inpClosed) (h2 : s'.inp = s.inp)
    (hv : v.leaving = true → (s.pc w).leaving = true ∨ (s.inpClosed = true ∧ s.inp = [])) : DrainInv c s' := by
  refine ⟨fun u hu hl => ?_⟩
  rw [h1, h2]
  rw [hpc] at hl
  by_cases huw : u = w
  · subst huw
    simp at hl
    rcases hv hl with h3 | h3
    · exact h.drained u hu h3
    · exact h3
  · rw [upd_other _ _ _ _ huw] at hl; exact h.drained u hu hl

theorem drain_of_same (c : Cfg) (s s' : St) (h : DrainInv c s) (hpc : s'.pc = s.pc) (h1 : s'.inpClosed = s.inpClosed) (h2 : s'.inp = s.inp) :
    DrainInv c s' := ⟨fun u hu hl => by rw [h1, h2]; rw [hpc] at hl; exact h.drained u hu hl⟩

theorem trySend_drain (s s' : St) (k : Nat) (x : Ev) (ht : trySend s k x = some s') :
    s'.pc = s.pc ∧ s'.inpClosed = s.inpClosed ∧ s'.inp = s.inp := by
  unfold trySend at ht
  by_cases hc : (s.outs k).closed = true
  · simp [hc] at ht; subst ht; simp
  · by_cases hr : (s.outs k).buf.length < (s.outs k).cap
    · simp [hc, hr] at ht; subst ht; simp
    · by_cases hd : (s.outs k).discard = true
      · simp [hc, hr, hd] at ht; subst ht; simp
      · simp [hc, hr, hd] at ht

theorem step_drain (c : Cfg) (s s' : St) (a : Act) (h : DrainInv c s) (hs : step c s a = some s') : DrainInv c s' := by
  cases a with
  | upSend e =>
    simp only [step] at hs
    split at hs
    · simp at hs
    · rename_i hc; cases hs
      refine ⟨fun u hu hl => ?_⟩
      have := (h.drained u hu hl).1
      simp at hc; rw [hc] at this; cases this
  | upClose =>
    simp only [step] at hs
    split at hs
    · simp at hs
    · rename_i hc; cases hs
      refine ⟨fun u hu hl => ?_⟩
      have := (h.drained u hu hl).1
      simp at hc; rw [hc] at this; cases this
  | recv w =>
    simp only [step] at hs; og hs
    rename_i hw; og hs
    rename_i e rest hpc hinp
    split at hs
    · cases hs
      refine ⟨fun u hu hl => ?_⟩
      have := (h.drained u hu hl).2; rw [hinp] at this; cases this
    · cases hs
      refine ⟨fun u hu hl => ?_⟩
      by_cases huw : u = w
      · subst huw; simp [Pc.leaving] at hl
      · simp [upd_other _ _ _ _ huw] at hl
        have := (h.drained u hu hl).2; rw [hinp] at this; cases this
  | procReturn w =>
    simp only [step] at hs; og hs; og hs
    rename_i e hpc; cases hs
    exact drain_of_move c s _ w (.deliver (todoOf c e (c.oracle e))) h (by simp [resolve]) (by simp [resolve]) (by simp [resolve]) (by simp [Pc.leaving])
  | complete i =>
    simp only [step] at hs; og hs
    rename_i e he; cases hs
    exact drain_of_same c s _ h (by simp [resolve]) (by simp [resolve]) (by simp [resolve])
  | send w =>
    simp only [step] at hs; og hs; og hs
    rename_i k x todo hpc
    cases ht : trySend s k x with
    | none => simp [ht] at hs
    | some s1 =>
      simp [ht] at hs; subst hs
      obtain ⟨t1, t2, t3⟩ := trySend_drain s s1 k x ht
      exact drain_of_move c s _ w (.deliver todo) h (by simp [t1]) (by simp [t2]) (by simp [t3]) (by simp [Pc.leaving])
  | finish w =>
    simp only [step] at hs; og hs; og hs; cases hs
    exact drain_of_move c s _ w .idle h rfl rfl rfl (by simp [Pc.leaving])
  | cbSend i =>
    simp only [step] at hs; og hs
    rename_i k x todo he
    cases ht : trySend s k x with
    | none => simp [ht] at hs
    | some s1 =>
      simp [ht] at hs; subst hs
      obtain ⟨t1, t2, t3⟩ := trySend_drain s s1 k x ht
      exact drain_of_same c s _ h (by simp [t1]) (by simp [t2]) (by simp [t3])
  | cbFinish i => simp only [step] at hs; og hs; cases hs; exact drain_of_same c s _ h rfl rfl rfl
  | seeClosed w =>
    simp only [step] at hs; og hs; og hs
    rename_i hpc hinp; og hs
    rename_i hc; cases hs
    exact drain_of_move c s _ w _ h rfl rfl rfl (fun _ => Or.inr ⟨hc, hinp⟩)
  | wgDone w =>
    simp only [step] at hs; og hs; og hs
    rename_i hpc; cases hs
    exact drain_of_move c s _ w _ h rfl rfl rfl (fun _ => Or.inl (by simp [hpc, Pc.leaving]))
  | wgWait w =>
    simp only [step] at hs; og hs; og hs
    rename_i hpc; og hs; cases hs
    exact drain_of_move c s _ w _ h rfl rfl rfl (fun _ => Or.inl (by simp [hpc, Pc.leaving]))
  | onceEnter w =>
    simp only [step] at hs; og hs; og hs
    rename_i hpc
    split at hs
    · cases hs; exact drain_of_move c s _ w _ h rfl rfl rfl (fun _ => Or.inl (by simp [hpc, Pc.leaving]))
    · og hs; cases hs; exact drain_of_move c s _ w _ h rfl rfl rfl (fun _ => Or.inl (by simp [hpc, Pc.leaving]))
  | shutEnter w =>
    simp only [step] at hs; og hs; og hs
    rename_i hpc; cases hs
    exact drain_of_move c s _ w _ h rfl rfl rfl (fun _ => Or.inl (by simp [hpc, Pc.leaving]))
  | shutExit w =>
    simp only [step] at hs; og hs; og hs
    rename_i hpc; og hs; cases hs
    exact drain_of_move c s _ w _ h rfl rfl rfl (fun _ => Or.inl (by simp [hpc, Pc.leaving]))
  | closeAll w =>
    simp only [step] at hs; og hs; og hs
    rename_i hpc
    split at hs
    · cases hs; exact drain_of_same c s _ h rfl rfl rfl
    · cases hs; exact drain_of_move c s _ w _ h rfl rfl rfl (fun _ => Or.inl (by simp [hpc, Pc.leaving]))
  | downRecv k =>
    simp only [step] at hs
    split at hs
    · cases hs; exact drain_of_same c s _ h rfl rfl rfl
    · simp at hs

/-- all invariants of the component model -/
structure AllInv (c : Cfg) (s : St) : Prop where
  casc : Inv c s
  chan : ChanInv s
  edge : EdgeInv c s
  acct : AcctInv c s
  drain : DrainInv c s

theorem step_all (c : Cfg) (s s' : St) (a : Act) (h : AllInv c s) (hs : step c s a = some s') : AllInv c s' :=
  ⟨step_inv c s s' a h.casc hs, step_chan c s s' a h.casc h.chan hs, step_edge c s s' a h.casc h.edge hs,
   step_acct c s s' a h.acct hs, step_drain c s s' a h.drain hs⟩

/-- **every state reachable under any schedule satisfies every invariant** -/
theorem reachable_all (c : Cfg) (caps : Nat → Nat) (disc : Nat → Bool) (as : List Act) (s : St)
    (hr : run c (init c caps disc) as = some s) : AllInv c s := by
  have h0 : AllInv c (init c caps disc) := ⟨init_inv c caps disc, init_chan c caps disc, init_edge c caps disc, init_acct c caps disc, init_drain c caps disc⟩
  generalize init c caps disc = s0 at hr h0
  induction as generalizing s0 with
  | nil => simp [run] at hr; subst hr; exact h0
  | cons a as ih =>
    simp only [run] at hr
    cases hs : step c s0 a with
    | none => simp [hs] at hr
    | some s1 => rw [hs] at hr; exact ih s1 hr (step_all c s0 s1 a h0 hs)

/-! ### terminal states -/

/-- every worker has left (there is at least one), no completion is being delivered or awaited -/
structure Terminal (c : Cfg) (s : St) : Prop where
  pos : 0 < c.W
  exited : ∀ w, w < c.W → s.pc w = .exited
  quiet : s.cbs = [] ∧ s.pending = []

def results (c : Cfg) (e : Ev) : List Ev := match c.oracle e with | .pass rs => rs | _ => []

theorem slice_range (n k : Nat) (rs : List Ev) :
    slice k ((List.range n).flatMap (fun j => rs.map (fun r => (j, r)))) = if k < n then rs else [] := by
  induction n with
  | zero => simp [slice]
  | succ n ih =>
    rw [List.range_succ, List.flatMap_append]
    simp only [slice, List.filter_append, List.map_append] at ih ⊢
    rw [ih]
    simp only [List.flatMap_cons, List.flatMap_nil, List.append_nil, List.filter_map, List.map_map]
    by_cases hk : k = n
    · subst hk
      have : ¬ k < k := Nat.lt_irrefl _
      simp [this, Function.comp_def]
    · by_cases hk2 : k < n
      · have h3 : k < n + 1 := by omega
        have h4 : ∀ r ∈ rs, ((fun y : Nat × Ev => decide (y.1 = k)) ∘ fun r => (n, r)) r = false := by
          intro r _; simp; omega
        simp [hk2, h3, Function.comp_def]; intro _; omega
      · have h3 : ¬ k < n + 1 := by omega
        simp [hk2, h3, Function.comp_def]; intro _; omega

/-- what goes to child `k`: the results of a passed event, nothing otherwise -/
theorem slice_child (c : Cfg) (e : Ev) (k : Nat) (hk : k < c.nChildren) :
    slice k (todoOf c e (c.oracle e)) = results c e := by
  unfold results
  cases ho : c.oracle e with
  | pass rs => simp only [todoOf]; rw [slice_range]; simp [hk]
  | filter => simp [todoOf, slice]
  | error =>
    simp only [todoOf]
    split
    · simp [slice]; omega
    · simp [slice]

/-- what goes to the handler: the original event, exactly when the node reported an error -/
theorem slice_handler (c : Cfg) (e : Ev) (hh : c.hasHandler = true) :
    slice c.nChildren (todoOf c e (c.oracle e)) = if errorB c e then [e] else [] := by
  unfold errorB
  cases ho : c.oracle e with
  | pass rs => simp only [todoOf]; rw [slice_range]; simp
  | filter => simp [todoOf, slice]
  | error => simp [todoOf, hh, slice]

/-- **per-edge conservation at quiescence, for every schedule**: each downstream channel was offered exactly — as a
multiset — what the node handed to delivery: nothing lost, duplicated or invented between the outcome and the send -/
theorem terminal_offered (c : Cfg) (s : St) (h : AllInv c s) (ht : Terminal c s) (k : Nat) :
    (s.offered k).Perm (s.produced k) := by
  rw [List.perm_iff_count]
  intro x
  have he := h.edge.edge k x
  have hz : sumPc c.W s.pc (todoCount k x) = 0 := sumPc_zero _ _ _ (fun w hw => by rw [ht.exited w hw]; rfl)
  rw [hz, ht.quiet.1] at he
  simpa [cbsCount] using he

/-- without `discard_on_full_buffer` nothing offered is ever lost: the channel's intake is the offers -/
theorem nodiscard_enq (c : Cfg) (s : St) (h : AllInv c s) (k : Nat) (hd : (s.outs k).discard = false) :
    (s.enq k).Perm (s.offered k) := by
  rw [List.perm_iff_count]
  intro x
  have := h.chan.split k x
  rw [h.chan.nodrop k hd] at this
  simpa using this.symm

/-- everything the upstream sent was handed to the node, and every handed event has been resolved -/
theorem terminal_drained (c : Cfg) (s : St) (h : AllInv c s) (ht : Terminal c s) :
    s.upSent = s.recvd ∧ s.recvd.Perm s.resolved ∧ s.inp = [] := by
  have hd := h.drain.drained 0 ht.pos (by rw [ht.exited 0 ht.pos]; rfl)
  refine ⟨by rw [h.acct.input, hd.2]; simp, ?_, hd.2⟩
  rw [List.perm_iff_count]
  intro x
  have hb := h.acct.balx x
  have hz : sumPc c.W s.pc (procCount x) = 0 := sumPc_zero _ _ _ (fun w hw => by rw [ht.exited w hw]; rfl)
  rw [hz, ht.quiet.2] at hb
  simpa using hb

/-- **C01 at quiescence, every schedule**: a child that does not discard has received exactly the results of the events the
upstream sent to its parent and the parent passed — `flatMap results` is the `Flow.passed` of the denotational model -/
theorem terminal_child (c : Cfg) (s : St) (h : AllInv c s) (ht : Terminal c s) (k : Nat) (hk : k < c.nChildren)
    (hd : (s.outs k).discard = false) :
    (s.enq k).Perm (s.upSent.flatMap (results c)) := by
  have h1 := nodiscard_enq c s h k hd
  have h2 := terminal_offered c s h ht k
  have h3 : s.produced k = s.resolved.flatMap (results c) := by
    rw [h.edge.prod k]
    congr 1
    funext e
    exact slice_child c e k hk
  obtain ⟨d1, d2, _⟩ := terminal_drained c s h ht
  rw [h3] at h2
  rw [d1]
  exact h1.trans (h2.trans (List.Perm.flatMap_right _ d2.symm))

/-- **C02 at quiescence, every schedule**: a handler that does not discard has received exactly one report per failed
event, carrying that very event, and nothing else -/
theorem terminal_handler (c : Cfg) (s : St) (h : AllInv c s) (ht : Terminal c s) (hh : c.hasHandler = true)
    (hd : (s.outs c.nChildren).discard = false) :
    (s.enq c.nChildren).Perm (s.upSent.filter (errorB c)) := by
  have h1 := nodiscard_enq c s h c.nChildren hd
  have h2 := terminal_offered c s h ht c.nChildren
  have h3 : s.produced c.nChildren = s.resolved.filter (errorB c) := by
    rw [h.edge.prod c.nChildren]
    have : (fun e => slice c.nChildren (todoOf c e (c.oracle e))) = fun e => if errorB c e then [e] else [] := by
      funext e; exact slice_handler c e hh
    rw [this]
    induction s.resolved with
    | nil => rfl
    | cons a t ih => simp only [List.flatMap_cons, List.filter_cons, ih]; split <;> simp
  obtain ⟨d1, d2, _⟩ := terminal_drained c s h ht
  rw [h3] at h2
  rw [d1]
  exact h1.trans (h2.trans (d2.symm.filter _))

/-- **C04 at quiescence**: at a discarding target the intake plus the counted drops are exactly the offers; the counter
equals the number of drops -/
theorem terminal_discard_accounting (c : Cfg) (s : St) (h : AllInv c s) (k : Nat) :
    (s.offered k).length = (s.enq k).length + s.discarded k := by
  have hs := h.chan.split k
  have : (s.offered k).Perm (s.enq k ++ s.dropped k) := by
    rw [List.perm_iff_count]; intro x; rw [List.count_append]; exact hs x
  rw [this.length_eq, List.length_append, h.chan.counted k]

/-- **C16 at quiescence, every schedule**: received equals the number of events handed over, equals processed + filtered +
failed, each counting exactly the events with that outcome (a fanout result once) -/
theorem terminal_counters (c : Cfg) (s : St) (h : AllInv c s) (ht : Terminal c s) :
    s.received = s.upSent.length ∧ s.received = s.processed + s.filtered + s.failed ∧
    s.processed = (s.upSent.filter (passB c)).length ∧ s.filtered = (s.upSent.filter (filterB c)).length ∧
    s.failed = (s.upSent.filter (errorB c)).length := by
  obtain ⟨d1, d2, _⟩ := terminal_drained c s h ht
  have hp : ∀ (p : Ev → Bool), (s.upSent.filter p).length = (s.resolved.filter p).length := fun p => by
    rw [d1]; exact (d2.filter p).length_eq
  have hpart : ∀ l : List Ev, (l.filter (passB c)).length + (l.filter (filterB c)).length + (l.filter (errorB c)).length = l.length := by
    intro l
    have excl : ∀ a, (passB c a = true ∧ filterB c a = false ∧ errorB c a = false) ∨ (passB c a = false ∧ filterB c a = true ∧ errorB c a = false) ∨
        (passB c a = false ∧ filterB c a = false ∧ errorB c a = true) := by
      intro a; unfold passB filterB errorB; cases c.oracle a <;> simp
    induction l with
    | nil => rfl
    | cons a t ih =>
      simp only [List.filter_cons, List.length_cons]
      rcases excl a with ⟨h1, h2, h3⟩ | ⟨h1, h2, h3⟩ | ⟨h1, h2, h3⟩ <;> simp [h1, h2, h3] <;> omega
  refine ⟨by rw [h.acct.recv, d1], ?_, by rw [h.acct.proc, hp], by rw [h.acct.filt, hp], by rw [h.acct.fail, hp]⟩
  rw [h.acct.recv, h.acct.proc, h.acct.filt, h.acct.fail, hpart, d2.length_eq]

/-- non-vacuity: a concrete schedule (2 workers, one child, one handler, three events with all three outcomes) reaches a
terminal state and the equations hold there -/
def demoCfg : Cfg := { W := 2, nChildren := 1, hasHandler := true, async := false,
                       oracle := fun e => if e = 1 then .pass [10, 11] else if e = 2 then .filter else .error }

def demoSchedule : List Act :=
  [.upSend 1, .upSend 2, .upSend 3, .upClose, .recv 0, .recv 1, .procReturn 1, .procReturn 0, .send 0, .downRecv 0, .send 0,
   .finish 0, .finish 1, .recv 0, .procReturn 0, .send 0, .finish 0, .seeClosed 0, .seeClosed 1, .wgDone 0, .wgDone 1, .wgWait 1,
   .wgWait 0, .onceEnter 1, .shutEnter 1, .shutExit 1, .closeAll 1, .onceEnter 0]

example : ((run demoCfg (init demoCfg (fun _ => 1) (fun _ => false)) demoSchedule).map
      (fun s => (s.pc 0, s.pc 1, s.enq 0, s.enq 1, s.received, s.processed, s.filtered, s.failed, s.panic))) =
    some (.exited, .exited, [10, 11], [3], 3, 1, 1, 1, false) := by rfl

end Firebolt.Exec
