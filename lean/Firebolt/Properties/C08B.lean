import Firebolt.Properties.C08Bridge
/-!
# C08 — bridge: the tracker model satisfies the executable Spec on every in-scope history

`Spec/Tracker.lean` is the decidable predicate that judges the real tracker's observations in the correspondence check.
`model_satisfies_spec` proves that the model's own observation — per-operation results and broadcasts, the final state, a
replica fed every broadcast and a replica fed only the latest broadcast per key — passes it, for **every** operation
sequence inside the statement's quantifier.  (Helper lemmas: `Properties/C08Bridge.lean`.)
-/
namespace Firebolt.C08
open Firebolt Firebolt.Tracker

theorem model_satisfies_spec (ops : List Op) (h : inScope ops = true) :
    spec ops (modelRun ops).1 (modelRun ops).2 = none :=
  spec_holds ops h

/-- each step of the Spec succeeds on the model's output and keeps the ghost state in step with the store -/
theorem model_step_satisfies_spec (g : Ghost) (s : Store) (D : List Int) (op : Op) (hR : Rel g s D)
    (hs : opInScope op = true) (hu : updWellFormed op = true) :
    ∃ g', specStep g op (outObs (step s op).2) = .ok g' ∧ Rel g' (step s op).1 (stepDirty s D op) :=
  step_sim g s D op hR hs hu

end Firebolt.C08
