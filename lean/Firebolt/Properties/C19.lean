import Firebolt.Properties.TransBase
import Firebolt.Model.Limiter
import Firebolt.Properties.C07
import Firebolt.Generated.Skeleton
import Firebolt.Expected.Skeleton
import Firebolt.Generated.Source
import Firebolt.Expected.Source
import Firebolt.Generated.Closure
import Firebolt.Expected.Closure
/-!
# C19 — Parallel recovery never exceeds its configured rate

Three layers: (1) the token-bucket law for every operation sequence; (2) the model-level wiring: every recovery emission
takes exactly one token of the one limiter, main-consumer events none (C07.recover_tokens, C07.flags); (3) regenerated facts
that pin the wiring in the Go source: how the limiter is constructed and every place it is mentioned, the shape of
`recoverSingleEvent` (the `Wait` precedes the send) and of the main consumer's `processEvent` (no limiter).
Events per second on the real code are measured by the harness (runtime, not proved).
-/
namespace Firebolt.C19
open Firebolt Firebolt.Limiter

/-- over any operation sequence: what was spent plus what is left never exceeds the initial credit plus elapsed time,
and the level stays within `[0, C]` -/
theorem bucket_bound (T C : Int) (hT : 0 < T) (hC : 0 ≤ C) (s s' : St) (ops : List Op)
    (h0 : 0 ≤ s.level ∧ s.level ≤ C) (hr : run T C s ops = some s') :
    (s'.spent - s.spent) + s'.level ≤ s.level + (s'.elapsed - s.elapsed) ∧ 0 ≤ s'.level ∧ s'.level ≤ C := by
  induction ops generalizing s with
  | nil => simp [run] at hr; subst hr; omega
  | cons op ops ih =>
    simp only [run] at hr
    cases op with
    | advance dt =>
      simp only [step] at hr
      have := ih _ (by simp only []; omega) hr
      simp only [] at this; omega
    | grant =>
      by_cases hg : s.level ≥ T
      · simp only [step, hg, if_true] at hr
        have := ih _ (by show 0 ≤ s.level - T ∧ s.level - T ≤ C; omega) hr
        simp only [] at this; omega
      · simp [step, hg] at hr

/-- **rate bound**: in any window the grants cost at most the capacity plus the window's length:
`grants · T ≤ burst · T + Δ`, i.e. at most `burst + rate · Δ` recovery events, from any reachable bucket state -/
theorem window_bound (T C : Int) (hT : 0 < T) (hC : 0 ≤ C) (s s' : St) (ops : List Op)
    (h0 : 0 ≤ s.level ∧ s.level ≤ C) (hr : run T C s ops = some s') :
    s'.spent - s.spent ≤ C + (s'.elapsed - s.elapsed) := by
  have := bucket_bound T C hT hC s s' ops h0 hr; omega

/-- counting grants instead of credit: `n` grants need at least `(n - burst) · T` time units -/
def grants : List Op → Nat
  | [] => 0
  | .grant :: r => grants r + 1
  | _ :: r => grants r

theorem spent_eq_grants (T C : Int) (s s' : St) (ops : List Op) (hr : run T C s ops = some s') :
    s'.spent - s.spent = (grants ops : Int) * T := by
  induction ops generalizing s with
  | nil => simp [run] at hr; subst hr; simp [grants]
  | cons op ops ih =>
    simp only [run] at hr
    cases op with
    | advance dt =>
      simp only [step] at hr
      have := ih _ hr
      simp only [grants] at *; simpa using this
    | grant =>
      by_cases hg : s.level ≥ T
      · simp only [step, hg, if_true] at hr
        have := ih _ hr
        simp only [grants] at *
        have e : ((grants ops + 1 : Nat) : Int) * T = (grants ops : Int) * T + T := by
          rw [Int.natCast_add, Int.add_mul]; simp
        rw [e]; omega
      · simp [step, hg] at hr

theorem time_for_grants (T burst : Int) (hT : 0 < T) (hb : 0 ≤ burst) (s' : St) (ops : List Op)
    (hr : run T (burst * T) ⟨burst * T, 0, 0⟩ ops = some s') :
    ((grants ops : Int) - burst) * T ≤ s'.elapsed := by
  have h1 := window_bound T (burst * T) hT (Int.mul_nonneg hb (Int.le_of_lt hT)) _ s' ops ⟨Int.mul_nonneg hb (Int.le_of_lt hT), Int.le_refl _⟩ hr
  have h2 := spent_eq_grants T (burst * T) _ s' ops hr
  simp only [] at h1 h2
  rw [Int.sub_mul]; omega

/-! ### wiring in the model -/

/-- every recovery emission consumes exactly one token of the one shared limiter (whatever the partition) -/
theorem emission_takes_token (s : Recovery.St) (p o : Int) :
    (Recovery.recover s p o).1.granted = s.granted + (Recovery.recover s p o).2.emits.length :=
  C07.recover_tokens s p o

/-- events of the main consumer never touch the limiter -/
theorem main_untouched (s : Recovery.St) (p o : Int) : (Recovery.step s (.main p o)).1.granted = s.granted := rfl

/-! ### wiring in the source (regenerated on every run) -/

/-- the limiter is built from the configured rate with burst 100 and is used in exactly one place: the `Wait` in `recoverSingleEvent` -/
theorem skeleton_limiterUses : Generated.limiterUses = Expected.limiterUses := by rfl

/-- in `recoverSingleEvent` the `Wait` precedes the only send on the output channel -/
theorem skeleton_recoverSingleEvent : Generated.recoverSingleEvent = Expected.recoverSingleEvent := by rfl

/-- the main consumer's `processEvent` sends without consulting the limiter -/
theorem skeleton_kafkaProcessEvent : Generated.kafkaProcessEvent = Expected.kafkaProcessEvent := by rfl

/-- what the expected skeleton says, spelled out: one limiter use besides the construction, construction with burst 100 -/
theorem expected_limiter_facts :
    Expected.limiterUses = ["NewRecoveryConsumer: field rateLimiter: rate.NewLimiter(rate.Limit(maxRecordsPerSec), 100)",
                            "recoverSingleEvent: rc.rateLimiter.Wait(rc.ctx)"] := by rfl

/-- non-vacuity: a bucket of 2 tokens/unit-time… 3 grants from a full bucket of burst 2 need one token's time -/
example : run 10 20 ⟨20, 0, 0⟩ [.grant, .grant, .advance 10, .grant] = some ⟨0, 10, 30⟩ ∧
          run 10 20 ⟨20, 0, 0⟩ [.grant, .grant, .advance 9, .grant] = none := by decide


/-! ### the functions this model was transcribed from are unchanged (regenerated from /repo on every run) -/
theorem source_newRecoveryConsumer : GeneratedSrc.newRecoveryConsumer = ExpectedSrc.newRecoveryConsumer := by rfl
theorem source_rcRecoverSingleEvent : GeneratedSrc.rcRecoverSingleEvent = ExpectedSrc.rcRecoverSingleEvent := by rfl

/-! ### the recovery consumer Setup builds keeps the context NewRecoveryConsumer gave it; a revocation cancels only the assignment context of the main consumer -/
theorem source_kcSetup : GeneratedSrc.kcSetup = ExpectedSrc.kcSetup := by rfl
theorem source_revokePartitionAssignments : GeneratedSrc.revokePartitionAssignments = ExpectedSrc.revokePartitionAssignments := by rfl

/-! ### one recovery consumer per source: Start is where it is shut down -/
theorem source_kcStart : GeneratedSrc.kcStart = ExpectedSrc.kcStart := by rfl

/-! ### influence closure: the pinned functions, and every function of the repository that writes a struct field or package
variable they read, are unchanged (digests regenerated from /repo on every run; a difference names the functions) -/
/-! ### The code itself, translated (`Generated/Trans.lean`, rewritten from /repo on every run by extractor/translate.go)

The `translated_*` theorems are about MiniGo terms the translator produced from the current Go source: for every
environment the translated fragment does what the hand-written model function says.  They are semantic obligations —
a rewrite that preserves the behaviour keeps them provable, a changed comparison, bound or argument does not. -/
section Translated
open Firebolt.MiniGo Firebolt.TransBase

/-- in the source as it is now, every emission of a recovery record is preceded by a wait on the limiter in the same
call, and nothing but the emitting branch sends: derived from the translated recoverSingleEvent -/
theorem translated_emission_after_wait (σ : Env)
    (ho : 0 ≤ σ "e.TopicPartition.Offset" ∧ σ "e.TopicPartition.Offset" < 2^63)
    (ht : 0 ≤ σ "recoveryState.toOffset" ∧ σ "recoveryState.toOffset" < 2^63) :
    (rseSend σ ∈ (obs Trans.recoverSingleEvent σ).calls →
      ∃ post, (obs Trans.recoverSingleEvent σ).calls = rsePre σ ++ rseWait σ :: post ∧ rseSend σ ∉ rsePre σ) ∧
    (obs Trans.recoverSingleEvent σ).calls.count (rseSend σ) ≤ 1 := by
  have h := C07.translated_recoverSingleEvent σ ho ht
  simp only [TransExpected.recoverSingleEvent] at h
  rw [h]
  cases rdec (σ "lookup rc.activePartitionMap#1" != 0) (σ "recoveryState.fromOffset") (σ "recoveryState.toOffset")
      (σ "e.TopicPartition.Offset") (σ "rc.updateRequestEvery") with
  | ignore => simp [rsePre, rseSend, List.count_cons]
  | complete => simp [rsePre, rseSend, List.count_cons]
  | emit u =>
    constructor
    · intro _
      refine ⟨[("rc.metrics.RecoveryEvents.WithLabelValues(strconv.Itoa(int(e.TopicPartition.Partition))).Inc", []), rseSend σ] ++
          (if u then [("rc.tracker.UpdateRecoveryRequest", [σ "e.TopicPartition.Partition", σ "e.TopicPartition.Offset", σ "recoveryState.toOffset"])] else []), ?_, ?_⟩
      · simp [List.append_assoc]
      · simp [rsePre, rseSend]
    · cases u <;> simp [rsePre, rseSend, rseWait, List.count_cons, List.count_append]
end Translated

theorem closure_unchanged : GeneratedClo.C19 = ExpectedClo.C19 := by rfl

end Firebolt.C19
