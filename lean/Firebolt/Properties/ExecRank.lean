import Firebolt.Properties.ExecRankBase
/-!
# Termination of the drain: a ranking function for the whole tree

Every step a worker (or a pending completion) of any node of the tree takes strictly decreases a natural-number potential
of the global state (`gstep_pot`).  Together with progress (`deadlock_free`) this is termination: once the source has
finished, every schedule — no fairness assumed — consists of finitely many steps and can only stop in the state where
every node is terminal (`drain_terminates`).

The potential of a node is the work still ahead of it: for every event in its input, in a worker's hands, awaited from an
asynchronous call or being delivered, the cost of handling it here plus, for every result still to be sent, one unit and
the cost of handling that result at the downstream node (by recursion on the depth of the tree, which is what makes the
oracle-dependent future work a number); plus the stages of the shutdown cascade every worker still has to walk through.
-/
namespace Firebolt.Exec

theorem partner_pot_upSend (c : Cfg) (cc : Nat → Ev → Nat) (sc : Ev → Nat) (s : St) (x : Ev) :
    nodePot c cc sc (partner c s (.upSend x)) ≤ nodePot c cc sc s + sc x := by
  unfold partner
  simp only [step]
  split
  · simp
  · simp [nodePot, listPot, List.map_append, List.sum_append]; omega

theorem partner_pot_upClose (c : Cfg) (cc : Nat → Ev → Nat) (sc : Ev → Nat) (s : St) :
    nodePot c cc sc (partner c s .upClose) = nodePot c cc sc s := by
  unfold partner
  simp only [step]
  split <;> simp [nodePot]

theorem partner_pot_down (c : Cfg) (cc : Nat → Ev → Nat) (sc : Ev → Nat) (s : St) (i : Nat) :
    nodePot c cc sc (partner c s (.downRecv i)) = nodePot c cc sc s := by
  unfold partner
  simp only [step]
  split <;> simp [nodePot]

/-! ### the tree as a finite list of paths -/

def subPaths (cfg : Path → Cfg) : Nat → Path → List Path
  | 0, p => [p]
  | f + 1, p => p :: (List.range (cfg p).K).flatMap (fun k => subPaths cfg f (k :: p))

theorem subPaths_suffix (cfg : Path → Cfg) (f : Nat) : ∀ (p q : Path), q ∈ subPaths cfg f p → ∃ l, q = l ++ p := by
  induction f with
  | zero => intro p q h; simp [subPaths] at h; exact ⟨[], by simp [h]⟩
  | succ f ih =>
    intro p q h
    simp only [subPaths, List.mem_cons, List.mem_flatMap, List.mem_range] at h
    rcases h with rfl | ⟨k, _, hk⟩
    · exact ⟨[], rfl⟩
    · obtain ⟨l, rfl⟩ := ih (k :: p) q hk
      exact ⟨l ++ [k], by simp⟩

theorem mem_subPaths_self (cfg : Path → Cfg) (f : Nat) (p : Path) : p ∈ subPaths cfg f p := by
  cases f <;> simp [subPaths]

theorem subPaths_nodup (cfg : Path → Cfg) (f : Nat) : ∀ p, (subPaths cfg f p).Nodup := by
  induction f with
  | zero => intro p; simp [subPaths]
  | succ f ih =>
    intro p
    simp only [subPaths, List.nodup_cons]
    refine ⟨?_, ?_⟩
    · intro h
      simp only [List.mem_flatMap, List.mem_range] at h
      obtain ⟨k, _, hk⟩ := h
      obtain ⟨l, hl⟩ := subPaths_suffix cfg f (k :: p) p hk
      have := congrArg List.length hl
      simp at this; omega
    · unfold List.Nodup
      rw [List.pairwise_flatMap]
      refine ⟨fun k _ => ih (k :: p), ?_⟩
      have hr : (List.range (cfg p).K).Pairwise (· ≠ ·) := List.nodup_range
      refine hr.imp ?_
      intro j k hjk x hx y hy hxy
      subst hxy
      obtain ⟨l1, h1⟩ := subPaths_suffix cfg f (j :: p) x hx
      obtain ⟨l2, h2⟩ := subPaths_suffix cfg f (k :: p) x hy
      have := List.append_inj_right' (h1.symm.trans h2) (by simp)
      simp at this
      exact hjk this

theorem mem_subPaths_kid (cfg : Path → Cfg) (f : Nat) : ∀ (p q : Path) (k : Nat), q ∈ subPaths cfg f p →
    q.length < p.length + f → k < (cfg q).K → (k :: q) ∈ subPaths cfg f p := by
  induction f with
  | zero => intro p q k h hl _; simp [subPaths] at h; subst h; omega
  | succ f ih =>
    intro p q k h hl hk
    simp only [subPaths, List.mem_cons, List.mem_flatMap, List.mem_range] at h ⊢
    rcases h with rfl | ⟨j, hj, hq⟩
    · exact Or.inr ⟨k, hk, mem_subPaths_self cfg f _⟩
    · exact Or.inr ⟨j, hj, ih (j :: p) q k (by simpa using hq) (by simp; omega) hk⟩



theorem inTree_mem_subPaths (cfg : Path → Cfg) (d : Nat) (hd : FiniteDepth cfg d) :
    ∀ q, inTree cfg q → q.length ≤ d ∧ q ∈ subPaths cfg d [] := by
  intro q
  induction q with
  | nil => intro _; exact ⟨Nat.zero_le _, mem_subPaths_self cfg d []⟩
  | cons k q ih =>
    intro ⟨hq, hk⟩
    obtain ⟨hl, hm⟩ := ih hq
    have hlt : q.length < d := by
      cases Nat.lt_or_ge q.length d with
      | inl h => exact h
      | inr h => have := hd q h; omega
    exact ⟨by simp; omega, mem_subPaths_kid cfg d [] q k hm (by simp; omega) hk⟩

/-- changing a function at (at most) two points of a duplicate-free list: what one point loses beyond what the other gains
is lost by the sum -/
theorem sum_two_update (l : List Path) (g g' : Path → Nat) (p r : Path) (x : Nat) (hn : l.Nodup) (hpr : p ≠ r)
    (h1 : g' p + x + 1 ≤ g p) (h2 : g' r ≤ g r + x) (h3 : ∀ q, q ≠ p → q ≠ r → g' q = g q) :
    (l.map g').sum + (if p ∈ l then x + 1 else 0) ≤ (l.map g).sum + (if r ∈ l then x else 0) := by
  induction l with
  | nil => simp
  | cons q t ih =>
    have hnt := (List.nodup_cons.1 hn).2
    have hqt := (List.nodup_cons.1 hn).1
    have := ih hnt
    simp only [List.map_cons, List.sum_cons, List.mem_cons]
    by_cases hqp : q = p
    · subst hqp
      have hpt : ¬ q ∈ t := hqt
      have hqr : ¬ r = q := fun h => hpr h.symm
      simp only [hpt, if_false] at this
      simp only [true_or, if_true, hqr, false_or]
      split <;> simp_all <;> omega
    · by_cases hqr : q = r
      · subst hqr
        have hrt : ¬ q ∈ t := hqt
        have hpq : ¬ p = q := fun h => hqp h.symm
        simp only [hrt, if_false] at this
        simp only [hpq, false_or, true_or, if_true]
        split <;> simp_all <;> omega
      · have hpq : ¬ p = q := fun h => hqp h.symm
        have hrq : ¬ r = q := fun h => hqr h.symm
        rw [h3 q hqp hqr]
        simp only [hpq, hrq, false_or]
        omega



/-! ### the cost of an event, by recursion on the remaining depth -/

def fuelCost (cfg : Path → Cfg) : Nat → Path → Ev → Nat
  | 0, _, _ => 3
  | f + 1, p, e => 3 + todoCost (fun k x => fuelCost cfg f (k :: p) x) (todoOf (cfg p) e ((cfg p).oracle e))

def scOf (cfg : Path → Cfg) (d : Nat) (p : Path) : Ev → Nat := fuelCost cfg (d - p.length) p
def ccOf (cfg : Path → Cfg) (d : Nat) (p : Path) : Nat → Ev → Nat := fun k x => scOf cfg d (k :: p) x

theorem todoOf_nil_of_K0 (c : Cfg) (e : Ev) (o : Outcome) (h : c.K = 0) : todoOf c e o = [] := by
  have hk := todoOf_ok c e o
  cases ht : todoOf c e o with
  | nil => rfl
  | cons y t => have := hk y (by rw [ht]; exact List.mem_cons_self); omega

theorem scOf_eq (cfg : Path → Cfg) (d : Nat) (hd : FiniteDepth cfg d) (p : Path) (e : Ev) :
    scOf cfg d p e = 3 + todoCost (ccOf cfg d p) (todoOf (cfg p) e ((cfg p).oracle e)) := by
  unfold scOf
  cases hf : d - p.length with
  | zero =>
    have hK := hd p (by omega)
    rw [todoOf_nil_of_K0 _ _ _ hK]; simp [fuelCost]
  | succ f =>
    simp only [fuelCost]
    congr 2
    funext k x
    simp only [ccOf, scOf, List.length_cons]
    have : d - (p.length + 1) = f := by omega
    rw [this]

/-- potential of the node at `p` -/
def potAt (N : Net) (d : Nat) (p : Path) : Nat := nodePot (N.cfg p) (ccOf N.cfg d p) (scOf N.cfg d p) (N.st p)

/-- **the global potential**: the work still ahead of the whole tree -/
def Phi (N : Net) (d : Nat) : Nat := ((subPaths N.cfg d []).map (potAt N d)).sum

/-- **every step of a node of the tree strictly decreases the global potential** -/
theorem gstep_pot (N N' : Net) (d : Nat) (p : Path) (a : Act) (hG : GInv N) (hd : FiniteDepth N.cfg d)
    (hp : inTree N.cfg p) (ha : nonEnv a = true) (hg : gstep N p a = some N') : Phi N' d + 1 ≤ Phi N d := by
  obtain ⟨_, s', hs, hcfg, hps, hkid, hoth⟩ := gstep_shape N N' p a hg
  obtain ⟨_, hmem⟩ := inTree_mem_subPaths N.cfg d hd p hp
  have hloc := step_pot (N.cfg p) (ccOf N.cfg d p) (scOf N.cfg d p) (N.st p) s' a (scOf_eq N.cfg d hd p) (hG.all p).casc ha hs
  unfold Phi
  rw [hcfg]
  -- which child, if any, receives something
  cases hpush : pushOf (N.cfg p) (N.st p) a with
  | some kx =>
    obtain ⟨k0, x⟩ := kx
    have hgain : pushGain (ccOf N.cfg d p) (N.cfg p) (N.st p) a = scOf N.cfg d (k0 :: p) x := by simp [pushGain, hpush, ccOf]
    rw [hgain] at hloc
    have := sum_two_update (subPaths N.cfg d []) (potAt N d) (potAt N' d) p (k0 :: p) (scOf N.cfg d (k0 :: p) x)
      (subPaths_nodup N.cfg d []) (fun h => cons_ne_self k0 p h.symm)
      (by simp only [potAt, hcfg, hps]; exact hloc)
      (by
        simp only [potAt, hcfg, hkid, kidSync, hpush, if_true]
        exact partner_pot_upSend _ _ _ _ _)
      (by
        intro q hq1 hq2
        simp only [potAt, hcfg]
        by_cases hk : ∃ k, q = k :: p
        · obtain ⟨k, rfl⟩ := hk
          have hkk : k ≠ k0 := fun h => hq2 (by rw [h])
          simp [hkid, kidSync, hpush, hkk]
        · rw [hoth q hq1 (fun k hk' => hk ⟨k, hk'⟩)]
          unfold parSync
          split
          · split
            · rw [partner_pot_down]
            · rfl
          · rfl)
    simp only [hmem, if_true] at this
    split at this <;> omega
  | none =>
    have hgain : pushGain (ccOf N.cfg d p) (N.cfg p) (N.st p) a = 0 := by simp [pushGain, hpush]
    rw [hgain] at hloc
    have := sum_two_update (subPaths N.cfg d []) (potAt N d) (potAt N' d) p (0 :: p) 0
      (subPaths_nodup N.cfg d []) (fun h => cons_ne_self 0 p h.symm)
      (by simp only [potAt, hcfg, hps]; exact hloc)
      (by
        simp only [potAt, hcfg, hkid, kidSync, hpush]
        split
        · rw [partner_pot_upClose]; omega
        · omega)
      (by
        intro q hq1 hq2
        simp only [potAt, hcfg]
        by_cases hk : ∃ k, q = k :: p
        · obtain ⟨k, rfl⟩ := hk
          simp only [hkid, kidSync, hpush]
          split
          · rw [partner_pot_upClose]
          · rfl
        · rw [hoth q hq1 (fun k hk' => hk ⟨k, hk'⟩)]
          unfold parSync
          split
          · split
            · rw [partner_pot_down]
            · rfl
          · rfl)
    simp only [hmem, if_true] at this
    split at this <;> omega



/-- a schedule made of steps of workers and completions of nodes of the tree (no source actions) -/
def TreeSched (cfg : Path → Cfg) (sched : List (Path × Act)) : Prop :=
  ∀ pa ∈ sched, inTree cfg pa.1 ∧ nonEnv pa.2 = true

/-- **the drain is bounded**: a schedule of tree steps is at most as long as the potential it started with -/
theorem drain_bounded (d : Nat) (sched : List (Path × Act)) : ∀ (N N' : Net), GInv N → FiniteDepth N.cfg d →
    TreeSched N.cfg sched → grun N sched = some N' → Phi N' d + sched.length ≤ Phi N d := by
  induction sched with
  | nil => intro N N' _ _ _ hr; simp [grun] at hr; subst hr; simp
  | cons pa rest ih =>
    intro N N' hG hd hs hr
    obtain ⟨p, a⟩ := pa
    simp only [grun] at hr
    cases hg : gstep N p a with
    | none => simp [hg] at hr
    | some N1 =>
      rw [hg] at hr
      have hcfg := gstep_cfg N N1 p a hg
      have h1 := hs (p, a) List.mem_cons_self
      have hstep := gstep_pot N N1 d p a hG hd h1.1 h1.2 hg
      have hrest := ih N1 N' (gstep_ginv N N1 p a hG hg) (by rw [hcfg]; exact hd)
        (by rw [hcfg]; exact fun pa hpa => hs pa (List.mem_cons_of_mem _ hpa)) hr
      simp only [List.length_cons]
      omega

/-- the source's end of the root input stays closed under tree steps -/
theorem gstep_root_closed (N N' : Net) (p : Path) (a : Act) (ha : nonEnv a = true) (hg : gstep N p a = some N')
    (hc : (N.st []).inpClosed = true) : (N'.st []).inpClosed = true := by
  obtain ⟨_, s', hs, _, hps, _, hoth⟩ := gstep_shape N N' p a hg
  have hkv : KV (N'.st []) = (fun t : List Ev × Bool × List Ev => t) (KV (N'.st [])) := rfl
  by_cases hp : p = []
  · subst hp
    rw [hps]
    cases hrecv : isRecv a with
    | true =>
      cases a with
      | recv w =>
        obtain ⟨e, rest, _, h⟩ := kv_recv _ _ _ w hs
        have := congrArg (fun t => t.2.1) h
        simp only [KV] at this; rw [this]; exact hc
      | _ => simp [isRecv] at hrecv
    | false =>
      have h := kv_other _ _ _ _ hs (by intro x h; subst h; simp [nonEnv] at ha) (by intro h; subst h; simp [nonEnv] at ha) hrecv
      have := congrArg (fun t => t.2.1) h
      simp only [KV] at this; rw [this]; exact hc
  · rw [hoth [] (fun h => hp h.symm) (fun k h => by simp at h)]
    unfold parSync
    split
    · split
      · have h := partner_kv_down (N.cfg []) (N.st []) ‹Nat›
        have := congrArg (fun t => t.2.1) h
        simp only [KV] at this; rw [this]; exact hc
      · exact hc
    · exact hc

theorem grun_root_closed (sched : List (Path × Act)) : ∀ (N N' : Net), (∀ pa ∈ sched, nonEnv pa.2 = true) →
    grun N sched = some N' → (N.st []).inpClosed = true → (N'.st []).inpClosed = true := by
  induction sched with
  | nil => intro N N' _ hr hc; simp [grun] at hr; subst hr; exact hc
  | cons pa rest ih =>
    intro N N' hs hr hc
    obtain ⟨p, a⟩ := pa
    simp only [grun] at hr
    cases hg : gstep N p a with
    | none => simp [hg] at hr
    | some N1 =>
      rw [hg] at hr
      exact ih N1 N' (fun pa hpa => hs pa (List.mem_cons_of_mem _ hpa)) hr
        (gstep_root_closed N N1 p a (hs (p, a) List.mem_cons_self) hg hc)

theorem grun_append (s1 s2 : List (Path × Act)) : ∀ (N : Net), grun N (s1 ++ s2) = (grun N s1).bind (fun N1 => grun N1 s2) := by
  induction s1 with
  | nil => intro N; simp [grun]
  | cons pa rest ih =>
    intro N
    obtain ⟨p, a⟩ := pa
    simp only [List.cons_append, grun]
    cases gstep N p a with
    | none => simp
    | some N1 => simp [ih N1]

/-- **termination of the drain, for every schedule**: once the source has finished (state `N`, reached by any global
schedule), every continuation by steps of the tree's workers and completions — any scheduler, no fairness assumed — has at
most `Phi N d` steps, and a continuation after which nothing can move any more has left every node of the tree terminal:
all workers gone through the cascade, every Shutdown run, nothing buffered, awaited or in delivery -/
theorem drain_terminates (cfg : Path → Cfg) (caps : Path → Nat) (disc : Path → Bool) (d : Nat)
    (pre cont : List (Path × Act)) (N N' : Net)
    (hpre : grun (ginit cfg caps disc) pre = some N) (hcont : grun N cont = some N')
    (hd : FiniteDepth cfg d) (hW : ∀ p, 0 < (cfg p).W) (hcap : ∀ p, 1 ≤ caps p)
    (hsrc : (N.st []).inpClosed = true) (hs : TreeSched cfg cont) :
    cont.length ≤ Phi N d ∧
    ((∀ p a, nonEnv a = true → gstep N' p a = none) → ∀ p, inTree cfg p → Terminal (cfg p) (N'.st p)) := by
  obtain ⟨hG, hcfg, _⟩ := reachable_ginv cfg caps disc pre N hpre
  refine ⟨?_, ?_⟩
  · have := drain_bounded d cont N N' hG (by rw [hcfg]; exact hd) (by rw [hcfg]; exact hs) hcont
    omega
  · intro hstuck
    have hreach : grun (ginit cfg caps disc) (pre ++ cont) = some N' := by
      rw [grun_append, hpre]; simpa using hcont
    have hclosed := grun_root_closed cont N N' (fun pa hpa => (hs pa hpa).2) hcont hsrc
    rcases deadlock_free cfg caps disc (pre ++ cont) N' d hreach hd hW hcap hclosed with h | ⟨p, a, ha, hmove⟩
    · exact h
    · rw [hstuck p a ha] at hmove; simp at hmove



/-! ### paths outside the tree never move -/

/-- a component nothing has ever happened to -/
def Fresh (s : St) : Prop := s.inp = [] ∧ s.inpClosed = false ∧ (∀ w, s.pc w = .idle) ∧ s.pending = [] ∧ s.cbs = []

theorem fresh_stuck (c : Cfg) (s : St) (h : Fresh s) (a : Act) (ha : nonEnv a = true) : step c s a = none := by
  obtain ⟨h1, h2, h3, h4, h5⟩ := h
  cases a <;> simp [nonEnv] at ha <;> simp [step, h1, h2, h3, h4, h5]

theorem pushOf_lt_K (c : Cfg) (s : St) (hl : LiveInv c s) (a : Act) (k : Nat) (x : Ev) (hp : pushOf c s a = some (k, x)) : k < c.K := by
  cases a with
  | send w =>
    simp only [pushOf] at hp; og hp; og hp
    rename_i k1 x1 todo hpc
    split at hp <;> simp at hp
    obtain ⟨rfl, rfl⟩ := hp
    exact hl.todo_pc w _ hpc (k1, x1) List.mem_cons_self
  | cbSend i =>
    simp only [pushOf] at hp; og hp
    rename_i k1 x1 todo hcb
    split at hp <;> simp at hp
    obtain ⟨rfl, rfl⟩ := hp
    exact hl.todo_cb _ (List.mem_of_getElem? hcb) (k1, x1) List.mem_cons_self
  | _ => simp [pushOf] at hp

def OutFresh (N : Net) : Prop := ∀ p, ¬ inTree N.cfg p → Fresh (N.st p)

theorem ginit_outFresh (cfg : Path → Cfg) (caps : Path → Nat) (disc : Path → Bool) : OutFresh (ginit cfg caps disc) := by
  intro p _
  simp [Fresh, ginit, init]

/-- a step that is not the source's can only be taken by a node of the tree -/
theorem actor_in_tree (N N' : Net) (p : Path) (a : Act) (ho : OutFresh N) (ha : nonEnv a = true) (hg : gstep N p a = some N') :
    inTree N.cfg p := by
  by_cases hin : inTree N.cfg p
  · exact hin
  · obtain ⟨_, s', hs, _⟩ := gstep_shape N N' p a hg
    rw [fresh_stuck _ _ (ho p hin) a ha] at hs
    cases hs

theorem gstep_outFresh (N N' : Net) (p : Path) (a : Act) (ho : OutFresh N) (hl : ∀ r, LiveInv (N.cfg r) (N.st r))
    (hg : gstep N p a = some N') : OutFresh N' := by
  obtain ⟨hal, s', hs, hcfg, hps, hkid, hoth⟩ := gstep_shape N N' p a hg
  -- the actor is in the tree: the source's actions happen at the root, everything else by `actor_in_tree`
  have hpin : inTree N.cfg p := by
    by_cases ha : nonEnv a = true
    · exact actor_in_tree N N' p a ho ha hg
    · cases a <;> simp [nonEnv] at ha <;> simp [allowed] at hal <;> (subst hal; trivial)
  intro r hr
  rw [hcfg] at hr
  have hrp : r ≠ p := fun h => hr (h ▸ hpin)
  by_cases hk : ∃ k, r = k :: p
  · obtain ⟨k, rfl⟩ := hk
    have hkK : ¬ k < (N.cfg p).K := fun h => hr ⟨hpin, h⟩
    rw [hkid]
    unfold kidSync
    cases hpush : pushOf (N.cfg p) (N.st p) a with
    | some kx =>
      obtain ⟨k0, x⟩ := kx
      have := pushOf_lt_K _ _ (hl p) a k0 x hpush
      have hne : k ≠ k0 := fun h => hkK (h ▸ this)
      simp only [hne, if_false]
      exact ho _ hr
    | none =>
      simp only [hkK, decide_false, Bool.and_false, Bool.false_eq_true, if_false]
      exact ho _ hr
  · rw [hoth r hrp (fun k hk' => hk ⟨k, hk'⟩)]
    unfold parSync
    split
    · rename_i i q0
      split
      · rename_i hc
        simp only [Bool.and_eq_true, decide_eq_true_eq] at hc
        exact absurd (hc.1 ▸ hpin.1) hr
      · exact ho _ hr
    · exact ho _ hr

theorem reachable_outFresh (cfg : Path → Cfg) (caps : Path → Nat) (disc : Path → Bool) (sched : List (Path × Act)) (N : Net)
    (hr : grun (ginit cfg caps disc) sched = some N) : OutFresh N := by
  have h0 : OutFresh (ginit cfg caps disc) ∧ ∀ r, LiveInv ((ginit cfg caps disc).cfg r) ((ginit cfg caps disc).st r) :=
    ⟨ginit_outFresh cfg caps disc, fun r => init_live _ _ _⟩
  generalize ginit cfg caps disc = N0 at hr h0
  induction sched generalizing N0 with
  | nil => simp [grun] at hr; subst hr; exact h0.1
  | cons pa rest ih =>
    obtain ⟨p, a⟩ := pa
    simp only [grun] at hr
    cases hg : gstep N0 p a with
    | none => simp [hg] at hr
    | some N1 =>
      rw [hg] at hr
      exact ih N1 hr ⟨gstep_outFresh N0 N1 p a h0.1 h0.2 hg, gstep_live N0 N1 p a h0.2 hg⟩

/-- every schedule without source actions is a schedule of tree steps -/
theorem nonEnv_sched_is_tree (sched : List (Path × Act)) : ∀ (N N' : Net), OutFresh N → (∀ r, LiveInv (N.cfg r) (N.st r)) →
    (∀ pa ∈ sched, nonEnv pa.2 = true) → grun N sched = some N' → TreeSched N.cfg sched := by
  induction sched with
  | nil => intro _ _ _ _ _ _ pa hpa; cases hpa
  | cons pa rest ih =>
    intro N N' ho hl hs hr
    obtain ⟨p, a⟩ := pa
    simp only [grun] at hr
    cases hg : gstep N p a with
    | none => simp [hg] at hr
    | some N1 =>
      rw [hg] at hr
      have ha := hs (p, a) List.mem_cons_self
      have hin := actor_in_tree N N1 p a ho ha hg
      have hcfg := gstep_cfg N N1 p a hg
      have hrest := ih N1 N' (gstep_outFresh N N1 p a ho hl hg) (gstep_live N N1 p a hl hg)
        (fun pa hpa => hs pa (List.mem_cons_of_mem _ hpa)) hr
      intro pa hpa
      rcases List.mem_cons.1 hpa with rfl | hpa
      · exact ⟨hin, ha⟩
      · have := hrest pa hpa; rw [hcfg] at this; exact this

/-- **termination, for every continuation without source actions** (no side condition on where the steps happen) -/
theorem drain_terminates_any (cfg : Path → Cfg) (caps : Path → Nat) (disc : Path → Bool) (d : Nat)
    (pre cont : List (Path × Act)) (N N' : Net)
    (hpre : grun (ginit cfg caps disc) pre = some N) (hcont : grun N cont = some N')
    (hd : FiniteDepth cfg d) (hW : ∀ p, 0 < (cfg p).W) (hcap : ∀ p, 1 ≤ caps p)
    (hsrc : (N.st []).inpClosed = true) (hs : ∀ pa ∈ cont, nonEnv pa.2 = true) :
    cont.length ≤ Phi N d ∧
    ((∀ p a, nonEnv a = true → gstep N' p a = none) → ∀ p, inTree cfg p → Terminal (cfg p) (N'.st p)) := by
  obtain ⟨_, hcfg, _⟩ := reachable_ginv cfg caps disc pre N hpre
  have ht := nonEnv_sched_is_tree cont N N' (reachable_outFresh cfg caps disc pre N hpre) (reachable_live cfg caps disc pre N hpre) hs hcont
  rw [hcfg] at ht
  exact drain_terminates cfg caps disc d pre cont N N' hpre hcont hd hW hcap hsrc ht


/-! ### non-vacuity -/
/-- the hypotheses of `drain_terminates` hold for the demo tree after the source has ended, with a three-step continuation -/
example :
    let N := (grun (ginit demoNetCfg (fun _ => 1) (fun _ => false)) (demoNetSchedule.take 4)).get (by rfl)
    let cont : List (Path × Act) := [([], .recv 0), ([], .procReturn 0), ([], .send 0)]
    ∀ N', grun N cont = some N' → cont.length ≤ Phi N 3 := by
  intro N cont N' hc
  have hpre : grun (ginit demoNetCfg (fun _ => 1) (fun _ => false)) (demoNetSchedule.take 4) = some N := (Option.some_get _).symm
  have hs : TreeSched demoNetCfg cont := by
    intro pa hpa
    simp only [cont, List.mem_cons, List.mem_nil_iff, or_false] at hpa
    rcases hpa with rfl | rfl | rfl <;> exact ⟨trivial, rfl⟩
  exact (drain_terminates demoNetCfg (fun _ => 1) (fun _ => false) 3 (demoNetSchedule.take 4) cont N N' hpre hc
    demo_finite demo_workers (fun _ => Nat.le_refl 1) (by rfl) hs).1

/-- and that continuation exists -/
example :
    ((grun (ginit demoNetCfg (fun _ => 1) (fun _ => false)) (demoNetSchedule.take 4)).bind
      (fun N => grun N [([], .recv 0), ([], .procReturn 0), ([], .send 0)])).isSome = true := by rfl


end Firebolt.Exec
