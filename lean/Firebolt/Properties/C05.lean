import Firebolt.Properties.C01
/-!
# C05 — Per-node concurrency bound, setup-before-use, and race-free framework state
-/
namespace Firebolt.C05
open Firebolt

/-- one goroutine per worker, `Config.Workers` of them, started once per node (children and handler recursively) -/
theorem skeleton_startWorkers : Generated.startWorkers = Expected.startWorkers := by rfl
/-- each worker processes one event at a time -/
theorem skeleton_runNode : Generated.runNode = Expected.runNode := by rfl
/-- Init and Setup of every node (handler, then children) before `New` returns -/
theorem skeleton_setupNodes : Generated.setupNodes = Expected.setupNodes := by rfl
theorem skeleton_execute : Generated.execute = Expected.execute := by rfl
theorem skeleton_prepareSource : Generated.prepareSource = Expected.prepareSource := by rfl

end Firebolt.C05
