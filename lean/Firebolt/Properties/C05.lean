import Firebolt.Properties.C01
import Firebolt.Properties.ExecFlow
import Firebolt.Generated.Source
import Firebolt.Expected.Source
/-!
# C05 — Per-node concurrency bound, setup-before-use, and race-free framework state
-/
namespace Firebolt.C05
open Firebolt

/-- one goroutine per worker, `Config.Workers` of them, started once per node (children and handler recursively) -/
theorem skeleton_startWorkers : Generated.startWorkers = Expected.startWorkers := by rfl
/-- each worker processes one event at a time -/
theorem skeleton_runNode : Generated.runNode = Expected.runNode := by rfl
/-- Init and Setup of every node (handler, then children) before `New` returns -/
theorem skeleton_setupNodes : Generated.setupNodes = Expected.setupNodes := by rfl
theorem skeleton_execute : Generated.execute = Expected.execute := by rfl
theorem skeleton_prepareSource : Generated.prepareSource = Expected.prepareSource := by rfl


open Firebolt.Exec in
/-- at most `workers` processing calls of a node are in progress, in every state of the component model -/
theorem at_most_workers_in_process (c : Cfg) (s : St) : cnt c.W s.pc Pc.inProc ≤ c.W := concurrency_bound c s

open Firebolt.Exec in
/-- the lifecycle coordination is safe under every interleaving (no send on closed / double close), Shutdown never overlaps a processing call -/
theorem lifecycle_safe_any_schedule (c : Cfg) (caps : Nat → Nat) (disc : Nat → Bool) (as : List Act) (s : St)
    (hr : run c (init c caps disc) as = some s) :
    s.panic = false ∧ (s.shutStarted = true → ∀ w, w < c.W → (s.pc w).live = false) :=
  ⟨reachable_no_panic c caps disc as s hr, fun hs w hw => shutdown_after_processing c s (reachable_inv c caps disc as s hr) hs w hw⟩


/-! ### functions the model's assumptions rest on (construction, wiring, surrounding calls) are unchanged -/
theorem source_withConfig : GeneratedSrc.withConfig = ExpectedSrc.withConfig := by rfl
theorem source_exNew : GeneratedSrc.exNew = ExpectedSrc.exNew := by rfl
theorem source_instantiateNode : GeneratedSrc.instantiateNode = ExpectedSrc.instantiateNode := by rfl

end Firebolt.C05
