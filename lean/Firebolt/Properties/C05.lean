import Firebolt.TransExpected
import Firebolt.Properties.TransBase
import Firebolt.Properties.C01
import Firebolt.Properties.ExecFlow
import Firebolt.Model.Startup
import Firebolt.Generated.Source
import Firebolt.Expected.Source
import Firebolt.Generated.Closure
import Firebolt.Expected.Closure
/-!
# C05 — Per-node concurrency bound, setup-before-use, and race-free framework state
-/
namespace Firebolt.C05
open Firebolt

/-- one goroutine per worker, `Config.Workers` of them, started once per node (children and handler recursively) -/
theorem skeleton_startWorkers : Generated.startWorkers = Expected.startWorkers := by rfl
/-- each worker processes one event at a time -/
theorem skeleton_runNode : Generated.runNode = Expected.runNode := by rfl
/-- Init and Setup of every node (handler, then children) before `New` returns -/
theorem skeleton_setupNodes : Generated.setupNodes = Expected.setupNodes := by rfl
theorem skeleton_execute : Generated.execute = Expected.execute := by rfl
theorem skeleton_prepareSource : Generated.prepareSource = Expected.prepareSource := by rfl


open Firebolt.Exec in
/-- at most `workers` processing calls of a node are in progress, in every state of the component model -/
theorem at_most_workers_in_process (c : Cfg) (s : St) : cnt c.W s.pc Pc.inProc ≤ c.W := concurrency_bound c s

open Firebolt.Exec in
/-- the lifecycle coordination is safe under every interleaving (no send on closed / double close), Shutdown never overlaps a processing call -/
theorem lifecycle_safe_any_schedule (c : Cfg) (caps : Nat → Nat) (disc : Nat → Bool) (as : List Act) (s : St)
    (hr : run c (init c caps disc) as = some s) :
    s.panic = false ∧ (s.shutStarted = true → ∀ w, w < c.W → (s.pc w).live = false) :=
  ⟨reachable_no_panic c caps disc as s hr, fun hs w hw => shutdown_after_processing c s (reachable_inv c caps disc as s hr) hs w hw⟩


/-! ### functions the model's assumptions rest on (construction, wiring, surrounding calls) are unchanged -/
theorem source_withConfig : GeneratedSrc.withConfig = ExpectedSrc.withConfig := by rfl
theorem source_exNew : GeneratedSrc.exNew = ExpectedSrc.exNew := by rfl
theorem source_instantiateNode : GeneratedSrc.instantiateNode = ExpectedSrc.instantiateNode := by rfl


/-! ### set up exactly once, before any worker exists (Model/Startup.lean) -/
section
open Firebolt.Flow Firebolt.Startup
mutual
theorem start_same_nodes_N (n : FNode) : (startN n).map (·.1) = setupN n := by
  match n with
  | .mk s cs h =>
    simp only [startN, setupN]
    split
    · rfl
    · simp only [List.map_cons, List.map_append, start_same_nodes_H h, start_same_nodes_L cs]
theorem start_same_nodes_L (ns : List FNode) : (startL ns).map (·.1) = setupL ns := by
  match ns with
  | [] => rfl
  | c :: cs => simp only [startL, setupL, List.map_append, start_same_nodes_N c, start_same_nodes_L cs]
theorem start_same_nodes_H (h : Option FNode) : (startH h).map (·.1) = setupH h := by
  match h with
  | none => rfl
  | some (.mk s _ _) => rfl
end

def builtIdx (l : List Account) : List Nat := (l.filter (·.setUp)).map (·.idx)

mutual
theorem silent_built_N (n : FNode) : builtIdx (silentN n) = [] := by
  match n with
  | .mk s cs h =>
    have h1 := silent_built_L cs
    have h2 := silent_built_O h
    simp only [builtIdx, silentN, List.filter_cons, absent, List.filter_append] at *
    simp [h1, h2]
theorem silent_built_L (ns : List FNode) : builtIdx (silentL ns) = [] := by
  match ns with
  | [] => rfl
  | c :: cs =>
    have h1 := silent_built_N c
    have h2 := silent_built_L cs
    simp only [builtIdx, silentL, List.filter_append, List.map_append] at *
    simp [h1, h2]
theorem silent_built_O (h : Option FNode) : builtIdx (silentO h) = [] := by
  match h with
  | none => rfl
  | some x => simp only [silentO]; exact silent_built_N x
end

theorem builtIdx_append (a b : List Account) : builtIdx (a ++ b) = builtIdx a ++ builtIdx b := by
  simp [builtIdx, List.filter_append]

theorem built_H (o : Oracle) (input : List String) (h : Option FNode) : builtIdx (flowH o input h) = setupH h := by
  match h with
  | none => rfl
  | some (.mk s cs hh) =>
    simp only [flowH, setupH]
    have h1 := silent_built_L cs
    have h2 := silent_built_O hh
    have : builtIdx (account o s input :: (silentL cs ++ silentO hh)) = s.idx :: builtIdx (silentL cs ++ silentO hh) := by
      simp [builtIdx, account]
    rw [this, builtIdx_append, h1, h2]; rfl

mutual
/-- **Setup visits exactly the nodes of the built tree** (the ones the flow model says exist), each as often as it occurs -/
theorem setup_exactly_built_N (o : Oracle) (n : FNode) : ∀ input, (setupN n).Perm (builtIdx (flowN o input n)) := by
  match n with
  | .mk s cs h =>
    intro input
    simp only [setupN, flowN]
    split
    · rename_i hd
      rw [silent_built_N]
    · have hc := setup_exactly_built_L o cs (passed o s input)
      have : builtIdx (account o s input :: (flowL o (passed o s input) cs ++ flowH o ((failedEvents o s input).map errPayload) h)) =
          s.idx :: (builtIdx (flowL o (passed o s input) cs) ++ builtIdx (flowH o ((failedEvents o s input).map errPayload) h)) := by
        simp [builtIdx, account, List.filter_append]
      rw [this, built_H]
      exact List.Perm.cons _ (List.perm_append_comm.trans (List.Perm.append_right _ hc))
theorem setup_exactly_built_L (o : Oracle) (ns : List FNode) : ∀ input, (setupL ns).Perm (builtIdx (flowL o input ns)) := by
  match ns with
  | [] => intro input; simp [setupL, flowL, builtIdx]
  | c :: cs =>
    intro input
    simp only [setupL, flowL, builtIdx_append]
    exact List.Perm.append (setup_exactly_built_N o c input) (setup_exactly_built_L o cs input)
end

/-- **every Init/Setup precedes every worker start**: the startup sequence is all setups, then all starts -/
theorem setups_before_starts (roots : List FNode) (i j : Nat) (hi : i < (startup roots).length) (hj : j < (startup roots).length)
    (a b c : Nat) (h1 : (startup roots)[i] = .start a b) (h2 : (startup roots)[j] = .setup c) : j < i := by
  unfold startup at *
  by_cases hlt : i < ((setupL roots).map Call.setup).length
  · rw [List.getElem_append_left hlt] at h1
    simp at h1
  · by_cases hlt2 : j < ((setupL roots).map Call.setup).length
    · omega
    · rw [List.getElem_append_right (by omega)] at h2
      simp at h2

/-- workers are started for exactly the nodes that were set up, each with its configured number of workers -/
theorem started_are_set_up (roots : List FNode) : (startL roots).map (·.1) = setupL roots := start_same_nodes_L roots


end

/-! ### influence closure: the pinned functions, and every function of the repository that writes a struct field or package
variable they read, are unchanged (digests regenerated from /repo on every run; a difference names the functions) -/
/-! ### The code itself, translated (`Generated/Trans.lean`, rewritten from /repo on every run by extractor/translate.go)

The `translated_*` theorems are about MiniGo terms the translator produced from the current Go source: for every
environment the translated fragment does what the hand-written model function says.  They are semantic obligations —
a rewrite that preserves the behaviour keeps them provable, a changed comparison, bound or argument does not. -/
section Translated
open Firebolt.MiniGo Firebolt.TransBase

/-- `for i := 0; i < n; i++ { body }` with a body that does not touch `i` or `n`: the body `n` times (none for `n ≤ 0`) -/
def countedLoop (body : S) : Nat → R → R
  | 0, r => r
  | k + 1, r => countedLoop body k (exec body r)

theorem exec_startWorkersBody (r : R) (hl : r.live = true) :
    exec Trans.exStartWorkersBody r =
      { r with calls := r.calls ++ [("e.wg.Add", [1]), ("go e.runNode", [r.env "node"])] } := by
  have h : r.ret = none ∧ r.stuck = false := by simpa [R.live] using hl
  obtain ⟨h1, h2⟩ := h
  minigo_simp [Trans.exStartWorkersBody, h1, h2]

/-- startWorkers, translated: the node's rendezvous is sized with its own `workers`, then exactly `workers` times the
executor's wait group is incremented and one goroutine running `runNode(node)` is started — no more, no fewer —, then the
error handler and every child get the same treatment -/
theorem translated_startWorkers_loop (n : Nat) (σ : Env) :
    (countedLoop Trans.exStartWorkersBody n { env := σ }).calls =
      (List.replicate n [("e.wg.Add", [1]), ("go e.runNode", [σ "node"])]).flatten ∧
    ((countedLoop Trans.exStartWorkersBody n { env := σ }).calls.filter (fun c => c.1 == "go e.runNode")).length = n := by
  have key : ∀ (n : Nat) (r : R), r.live = true →
      (countedLoop Trans.exStartWorkersBody n r).calls =
        r.calls ++ (List.replicate n [("e.wg.Add", [1]), ("go e.runNode", [r.env "node"])]).flatten := by
    intro n
    induction n with
    | zero => intro r _; simp [countedLoop]
    | succ k ih =>
      intro r hl
      rw [countedLoop, exec_startWorkersBody r hl, ih _ (by simpa [R.live] using hl)]
      simp [List.replicate_succ, List.append_assoc]
  have h := key n { env := σ } (by simp [R.live])
  constructor
  · simpa using h
  · rw [h]; clear h key
    induction n with
    | zero => simp
    | succ k ih => simp [List.replicate_succ] at ih ⊢

theorem translated_startWorkers_head_tail (σ : Env) :
    obs Trans.exStartWorkersHead σ = ⟨[("node.WaitGroup.Add", [σ "node.Config.Workers"])], none, false⟩ ∧
    obs Trans.exStartWorkersTail σ =
      ⟨(if σ "node.ErrorHandler" ≠ 0 then [("e.startWorkers", [σ "node.ErrorHandler"])] else []) ++
        [("foreach node.Children: e.startWorkers", [σ "child"])], none, false⟩ := by
  by_cases h : σ "node.ErrorHandler" = 0 <;> minigo_simp [Trans.exStartWorkersHead, Trans.exStartWorkersTail, h]

/-- setupNodes, translated: every node handed to it is initialised and then set up with its own parameters — unconditionally,
exactly once per call —, a failing Setup ends the process, and the error handler and every child are treated alike -/
theorem translated_setupNodes (σ : Env) :
    obs Trans.exSetupNodes σ = TransExpected.exSetupNodes σ := by
  by_cases h1 : σ "node.NodeProcessor.Setup#0" = 0 <;> by_cases h2 : σ "node.ErrorHandler" = 0 <;>
  minigo_simp [TransExpected.exSetupNodes, Trans.exSetupNodes, h1, h2]

end Translated

theorem closure_unchanged : GeneratedClo.C05 = ExpectedClo.C05 := by rfl

end Firebolt.C05
