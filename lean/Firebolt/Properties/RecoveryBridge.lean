import Firebolt.Spec.Recovery
import Firebolt.Properties.C08Bridge
import Firebolt.Properties.RefreshConc
import Firebolt.Properties.C09
/-!
Bridge for C07 / C09: the recovery model's own observation satisfies the executable monitor (`Spec/Recovery.lean`,
written from the two property statements) on **every** in-scope operation sequence — polls, stale records, main-consumer
records, truncation errors, refreshes, assignments, revocations, requests, foreign snapshots and crashes in any order.
-/
namespace Firebolt.Recovery
open Firebolt Firebolt.Tracker

/-! ### pointwise facts about the observer's maps -/

theorem lookupP_nil (q : Int) : lookupP [] q = none := rfl

theorem lookupP_cons (kv : Int × PSnap) (m : PMap) (q : Int) :
    lookupP (kv :: m) q = if kv.1 = q then some kv.2 else lookupP m q := by
  by_cases h : kv.1 = q <;> simp [lookupP, List.find?_cons, h]

theorem lookupP_replace (m : PMap) (p q : Int) (l : PSnap) :
    lookupP (m.map (fun kv => if kv.1 = p then (p, l) else kv)) q =
      if q = p then (if m.any (fun kv => decide (kv.1 = p)) then some l else none) else lookupP m q := by
  induction m with
  | nil => by_cases h : q = p <;> simp [lookupP_nil, h]
  | cons kv rest ih =>
    simp only [List.map_cons, lookupP_cons, List.any_cons, ih]
    by_cases hk : kv.1 = p
    · by_cases hq : q = p
      · subst hq; simp [hk]
      · have : ¬ p = q := fun e => hq e.symm
        have h2 : ¬ kv.1 = q := fun e => hq (e.symm.trans hk)
        simp [hk, hq, this]
    · by_cases hq : q = p
      · subst hq
        simp only [hk, if_false, if_true, decide_false, Bool.false_or]
      · simp [hk, hq]

theorem lookupP_append_single (m : PMap) (p q : Int) (l : PSnap) :
    lookupP (m ++ [(p, l)]) q = match lookupP m q with | some x => some x | none => if p = q then some l else none := by
  induction m with
  | nil => simp [lookupP_cons, lookupP_nil]
  | cons kv rest ih =>
    simp only [List.cons_append, lookupP_cons, ih]
    by_cases hk : kv.1 = q <;> simp [hk]

theorem lookupP_none_of_not_any (m : PMap) (p : Int) (h : m.any (fun kv => decide (kv.1 = p)) = false) : lookupP m p = none := by
  induction m with
  | nil => rfl
  | cons kv rest ih =>
    simp only [List.any_cons, Bool.or_eq_false_iff, decide_eq_false_iff_not] at h
    simp [lookupP_cons, h.1, ih h.2]

theorem lookupP_setP (m : PMap) (p q : Int) (l : PSnap) :
    lookupP (setP m p l) q = if q = p then some l else lookupP m q := by
  unfold setP
  by_cases hany : m.any (fun kv => decide (kv.1 = p)) = true
  · simp only [hany, if_true, lookupP_replace]
  · simp only [Bool.not_eq_true] at hany
    simp only [hany, Bool.false_eq_true, if_false, lookupP_append_single]
    by_cases hq : q = p
    · subst hq; simp [lookupP_none_of_not_any m q hany]
    · have : ¬ p = q := fun e => hq e.symm
      simp only [hq, this, if_false]
      cases lookupP m q <;> rfl

theorem get?_erase_eq {α} (m : AList α) (k : Int) : (m.erase k).get? k = none := by
  induction m with
  | nil => rfl
  | cons kv rest ih =>
    obtain ⟨k', v⟩ := kv
    by_cases h : k' = k
    · simpa [AList.erase, h] using ih
    · simp only [AList.erase, List.filter_cons, h, ne_eq, not_false_eq_true, decide_true, if_true, AList.get?, if_false]
      simpa [AList.erase] using ih

theorem get?_erase_ne {α} (m : AList α) (k j : Int) (h : j ≠ k) : (m.erase k).get? j = m.get? j := by
  induction m with
  | nil => rfl
  | cons kv rest ih =>
    obtain ⟨k', v⟩ := kv
    by_cases h1 : k' = k
    · have h3 : ¬ k' = j := fun e => h (e.symm.trans h1)
      have ih' : AList.get? (List.filter (fun kv => decide (kv.1 ≠ k)) rest) j = AList.get? rest j := ih
      simp only [AList.erase, List.filter_cons, h1, ne_eq, not_true_eq_false, decide_false, Bool.false_eq_true, if_false,
        AList.get?]
      rw [← h1] at ih' ⊢
      simp only [h3, if_false]
      simpa using ih'
    · have ih' : AList.get? (List.filter (fun kv => decide (kv.1 ≠ k)) rest) j = AList.get? rest j := ih
      simp only [AList.erase, List.filter_cons, h1, ne_eq, not_false_eq_true, decide_true, if_true, AList.get?]
      by_cases h2 : k' = j
      · simp [h2]
      · simp only [h2, if_false]; simpa using ih'

theorem headOf_pm (tr : Store) (p : Int) (g : PMap) (h : ∀ q, lookupP g q = (tr.get? q).map snapP) :
    headOf g p = (Tracker.get tr p).map (fun r => (r.fromO, r.toO)) := by
  simp only [headOf, h p, Tracker.get]
  cases tr.get? p with
  | none => rfl
  | some l => cases l <;> rfl

/-! ### sorting: `sortByKey` and `sortInts` are insertion sorts; what the proofs need is that they permute their input,
that `sortInts` output is sorted, and that lookups do not see the order -/

theorem perm_ins {α} (kv : Int × α) (acc : List (Int × α)) : (sortByKey.ins kv acc).Perm (kv :: acc) := by
  induction acc with
  | nil => simp [sortByKey.ins]
  | cons y ys ih =>
    by_cases hle : kv.1 ≤ y.1
    · simp [sortByKey.ins, hle]
    · simp only [sortByKey.ins, hle, if_false]
      exact (List.Perm.cons y ih).trans (List.Perm.swap kv y ys)

theorem perm_sortByKey {α} (m : List (Int × α)) : (sortByKey m).Perm m := by
  induction m with
  | nil => exact List.Perm.refl _
  | cons kv rest ih =>
    have hs : sortByKey (kv :: rest) = sortByKey.ins kv (sortByKey rest) := rfl
    rw [hs]
    exact (perm_ins kv _).trans (List.Perm.cons kv ih)

theorem perm_insertSorted (x : Int) (l : List Int) : (insertSorted x l).Perm (x :: l) := by
  induction l with
  | nil => simp [insertSorted]
  | cons y ys ih =>
    by_cases hle : x ≤ y
    · simp [insertSorted, hle]
    · simp only [insertSorted, hle, if_false]
      exact (List.Perm.cons y ih).trans (List.Perm.swap x y ys)

theorem perm_sortInts (l : List Int) : (sortInts l).Perm l := by
  induction l with
  | nil => exact List.Perm.refl _
  | cons x xs ih =>
    have hs : sortInts (x :: xs) = insertSorted x (sortInts xs) := rfl
    rw [hs]
    exact (perm_insertSorted x _).trans (List.Perm.cons x ih)

theorem sorted_insertSorted (x : Int) (l : List Int) (h : l.Pairwise (· ≤ ·)) : (insertSorted x l).Pairwise (· ≤ ·) := by
  induction l with
  | nil => simp [insertSorted]
  | cons y ys ih =>
    have hy := List.pairwise_cons.1 h
    by_cases hle : x ≤ y
    · simp only [insertSorted, hle, if_true]
      refine List.pairwise_cons.2 ⟨?_, h⟩
      intro z hz
      rcases List.mem_cons.1 hz with rfl | hz
      · exact hle
      · exact Int.le_trans hle (hy.1 z hz)
    · simp only [insertSorted, hle, if_false]
      refine List.pairwise_cons.2 ⟨?_, ih hy.2⟩
      intro z hz
      have := (perm_insertSorted x ys).subset hz
      rcases List.mem_cons.1 this with rfl | hz'
      · omega
      · exact hy.1 z hz'

theorem sorted_sortInts (l : List Int) : (sortInts l).Pairwise (· ≤ ·) := by
  induction l with
  | nil => simp [sortInts]
  | cons x xs ih =>
    have hs : sortInts (x :: xs) = insertSorted x (sortInts xs) := rfl
    rw [hs]; exact sorted_insertSorted x _ ih

/-- two lists with the same elements, each without duplicates, sort to the same list -/
theorem sortInts_eq_of_same (l1 l2 : List Int) (h1 : l1.Nodup) (h2 : l2.Nodup) (h : ∀ x, x ∈ l1 ↔ x ∈ l2) :
    sortInts l1 = sortInts l2 := by
  have hp : l1.Perm l2 := (List.perm_ext_iff_of_nodup h1 h2).2 h
  have hp' : (sortInts l1).Perm (sortInts l2) := (perm_sortInts l1).trans (hp.trans (perm_sortInts l2).symm)
  exact List.Perm.eq_of_pairwise (le := (· ≤ ·)) (fun a b _ _ hab hba => Int.le_antisymm hab hba)
    (sorted_sortInts l1) (sorted_sortInts l2) hp'

theorem get?_of_perm {α} (m1 m2 : AList α) (hp : m1.Perm m2) (hk : (m1.map (·.1)).Nodup) (q : Int) : m1.get? q = m2.get? q := by
  induction hp with
  | nil => rfl
  | @cons x l1 l2 _ ih =>
    obtain ⟨k, v⟩ := x
    have hk' : k ∉ l1.map (·.1) ∧ (l1.map (·.1)).Nodup := by
      rw [List.map_cons] at hk; exact List.nodup_cons.1 hk
    simp only [AList.get?]
    by_cases h : k = q
    · simp [h]
    · simp only [h, if_false]; exact ih hk'.2
  | swap x y l =>
    obtain ⟨k1, v1⟩ := x
    obtain ⟨k2, v2⟩ := y
    have hk' : k2 ≠ k1 := by
      intro e
      rw [List.map_cons, List.map_cons] at hk
      have := (List.nodup_cons.1 hk).1
      exact this (by simp [e])
    simp only [AList.get?]
    by_cases h1 : k1 = q
    · have : ¬ k2 = q := fun e => hk' (e.trans h1.symm)
      simp [h1, this]
    · by_cases h2 : k2 = q <;> simp [h1, h2]
  | trans p1 _ ih1 ih2 =>
    have hk2 := (List.Perm.nodup_iff (List.Perm.map (·.1) p1)).1 hk
    exact (ih1 hk).trans (ih2 hk2)

/-! ### association lists -/

theorem keys_set' {α} (m : AList α) (k : Int) (v : α) : ∀ q, q ∈ (m.set k v).map (·.1) ↔ (q = k ∨ q ∈ m.map (·.1)) := by
  induction m with
  | nil => intro q; simp [AList.set]
  | cons kv rest ih =>
    obtain ⟨k', v'⟩ := kv
    intro q
    by_cases h : k' = k
    · subst h; simp [AList.set]
    · simp only [AList.set, h, if_false, List.map_cons, List.mem_cons, ih q]
      constructor
      · rintro (h1 | h1 | h1) <;> simp [h1]
      · rintro (h1 | h1 | h1) <;> simp [h1]

theorem nodup_set' {α} (m : AList α) (k : Int) (v : α) (hk : (m.map (·.1)).Nodup) : ((m.set k v).map (·.1)).Nodup := by
  induction m with
  | nil => simp [AList.set]
  | cons kv rest ih =>
    obtain ⟨k', v'⟩ := kv
    have hk' : k' ∉ rest.map (·.1) ∧ (rest.map (·.1)).Nodup := by
      rw [List.map_cons] at hk; exact List.nodup_cons.1 hk
    by_cases h : k' = k
    · subst h; simpa [AList.set] using hk
    · simp only [AList.set, h, if_false, List.map_cons, List.nodup_cons]
      refine ⟨?_, ih hk'.2⟩
      intro hm
      rcases (keys_set' rest k v k').1 hm with h1 | h1
      · exact h h1
      · exact hk'.1 h1

theorem mem_keys_iff {α} (m : AList α) (q : Int) : q ∈ m.map (·.1) ↔ (m.get? q).isSome = true := by
  induction m with
  | nil => simp [AList.get?]
  | cons kv rest ih =>
    obtain ⟨k, v⟩ := kv
    by_cases h : k = q
    · simp [AList.get?, h]
    · have : ¬ q = k := fun e => h e.symm
      simp [AList.get?, h, this, ih]

theorem get?_mem' {α} (m : AList α) (q : Int) (v : α) (h : m.get? q = some v) : (q, v) ∈ m := by
  induction m with
  | nil => simp [AList.get?] at h
  | cons kv rest ih =>
    obtain ⟨k, w⟩ := kv
    by_cases hk : k = q
    · simp [AList.get?, hk] at h; subst h; subst hk; simp
    · simp [AList.get?, hk] at h; exact List.mem_cons_of_mem _ (ih h)

theorem get?_of_mem_nodup {α} (m : AList α) (q : Int) (v : α) (h : (q, v) ∈ m) (hk : (m.map (·.1)).Nodup) : m.get? q = some v := by
  induction m with
  | nil => simp at h
  | cons kv rest ih =>
    obtain ⟨k, w⟩ := kv
    have hk' : k ∉ rest.map (·.1) ∧ (rest.map (·.1)).Nodup := by
      rw [List.map_cons] at hk; exact List.nodup_cons.1 hk
    rcases List.mem_cons.1 h with h1 | h1
    · cases h1; simp [AList.get?]
    · have : ¬ k = q := fun e => hk'.1 (by rw [e]; exact List.mem_map.2 ⟨(q, v), h1, rfl⟩)
      simp only [AList.get?, this, if_false]
      exact ih h1 hk'.2

/-- the candidate list is built with `set` from the empty list: its keys are distinct -/
theorem candidates_nodup (s : St) : ((candidates s).map (·.1)).Nodup := by
  unfold candidates
  suffices h : ∀ (ps : List Int) (acc : AList Active), (acc.map (·.1)).Nodup → ((ps.foldl (candStep s) acc).map (·.1)).Nodup from
    h s.owned [] (by simp)
  intro ps
  induction ps with
  | nil => intro acc h; exact h
  | cons q qs ih =>
    intro acc h
    simp only [List.foldl_cons]
    apply ih
    unfold candStep
    cases Tracker.get s.tracker q with
    | none => exact h
    | some r => exact nodup_set' acc q _ h

/-! ### the ghost operations, field by field -/

theorem setSnap_tr (g : Ghost) (p : Int) (l : PSnap) : (g.setSnap p l).tr = setP g.tr p l := by
  unfold Ghost.setSnap
  cases l.head? with
  | none => rfl
  | some ft =>
    obtain ⟨f, t⟩ := ft
    cases headOf g.tr p with
    | none => rfl
    | some ft' => obtain ⟨f', t'⟩ := ft'; by_cases h : t = t' <;> simp [h]

theorem setSnap_frame (g : Ghost) (p : Int) (l : PSnap) :
    (g.setSnap p l).owned = g.owned ∧ (g.setSnap p l).reading = g.reading ∧ (g.setSnap p l).cursor = g.cursor ∧
    (g.setSnap p l).low = g.low ∧ (g.setSnap p l).unknown = g.unknown := by
  unfold Ghost.setSnap
  cases l.head? with
  | none => simp
  | some ft =>
    obtain ⟨f, t⟩ := ft
    cases headOf g.tr p with
    | none => simp
    | some ft' => obtain ⟨f', t'⟩ := ft'; by_cases h : t = t' <;> simp [h]

theorem setSnap_lowFrom_ne (g : Ghost) (p q : Int) (l : PSnap) (h : q ≠ p) :
    (g.setSnap p l).lowFrom.get? q = g.lowFrom.get? q := by
  unfold Ghost.setSnap
  cases l.head? with
  | none => simp [get?_erase_ne _ _ _ h]
  | some ft =>
    obtain ⟨f, t⟩ := ft
    cases headOf g.tr p with
    | none => simp [AList.get?_set_ne _ _ _ _ h]
    | some ft' => obtain ⟨f', t'⟩ := ft'; by_cases h' : t = t' <;> simp [h', AList.get?_set_ne _ _ _ _ h]

/-- what `setSnap` records as the lowest `from` of the partition's current head request -/
theorem setSnap_lowFrom_eq (g : Ghost) (p : Int) (l : PSnap) :
    (g.setSnap p l).lowFrom.get? p =
      match l.head?, headOf g.tr p with
      | some (f, t), some (_, t') => if t = t' then some (min f ((g.lowFrom.get? p).getD f)) else some f
      | some (f, _), none => some f
      | none, _ => none := by
  unfold Ghost.setSnap
  cases l.head? with
  | none => simp [get?_erase_eq]
  | some ft =>
    obtain ⟨f, t⟩ := ft
    cases headOf g.tr p with
    | none => simp
    | some ft' => obtain ⟨f', t'⟩ := ft'; by_cases h' : t = t' <;> simp [h']

theorem headOf_setP (m : PMap) (p q : Int) (l : PSnap) : headOf (setP m p l) q = if q = p then l.head? else headOf m q := by
  simp only [headOf, lookupP_setP]
  by_cases h : q = p <;> simp [h]

/-! ### the simulation relation between the monitor's ghost state and the model state

`stale = some p`: partition `p`'s head request has just been replaced or closed under its reader and the reader has not been
re-synchronised yet (between a completion and the refresh that follows it). -/

structure Sim (stale : Option Int) (g : Ghost) (s : St) : Prop where
  owned : g.owned = s.owned
  tr : ∀ q, lookupP g.tr q = (s.tracker.get? q).map snapP
  cursor : ∀ q, g.cursor.get? q = s.cursor.get? q
  low : g.low = s.low
  rd_act : ∀ q rd, g.reading.get? q = some rd →
    ∃ a, s.active.get? q = some a ∧ a.assignOff = rd.assignOff ∧ a.toO = rd.toO
  fresh : ∀ q rd, g.reading.get? q = some rd → stale ≠ some q →
    (headOf g.tr q).map (·.2) = some rd.toO ∧ (g.lowFrom.get? q).getD rd.assignOff ≤ rd.assignOff
  act_rd : ∀ q, g.reading.get? q = none → s.active.get? q = none ∨ q ∈ g.unknown
  unk : ∀ q, q ∈ g.unknown → g.reading.get? q = none
  rd_nodup : (g.reading.map (·.1)).Nodup
  act_nodup : (s.active.map (·.1)).Nodup
  act_shape : ∀ q a, s.active.get? q = some a → a.fromO = a.assignOff ∧ a.fromO ≤ a.toO
  cur_ge : ∀ q a c, s.active.get? q = some a → s.cursor.get? q = some c → a.assignOff ≤ c
  lp : ∀ q, (headOf g.tr q).isSome = (g.lowFrom.get? q).isSome
  lowOK : ∀ q f t, headOf g.tr q = some (f, t) → (g.lowFrom.get? q).getD f ≤ f
  trWf : ∀ q l, s.tracker.get? q = some l → ∀ r ∈ l, r.fromO ≤ r.toO
  mr : 0 ≤ s.maxRecords ∧ s.maxRecords ≤ 2^63

theorem sim_init (mr ue : Int) (h : 0 ≤ mr ∧ mr ≤ 2^63) : Sim none {} { maxRecords := mr, updateEvery := ue } := by
  refine ⟨rfl, ?_, ?_, rfl, ?_, ?_, ?_, ?_, ?_, ?_, ?_, ?_, ?_, ?_, ?_, h⟩ <;>
    intros <;> simp_all [AList.get?, lookupP, headOf]

theorem applyBcasts_nil (g : Ghost) : g.applyBcasts [] = g := rfl
theorem applyBcasts_single (g : Ghost) (p : Int) (l : PSnap) : g.applyBcasts [(p, l)] = g.setSnap p l := rfl

/-- the ghost follows a tracker write of partition `p` (whatever it does to `p`'s reader: that partition is `stale` after it) -/
theorem sim_setSnap (g : Ghost) (s : St) (st : Option Int) (p : Int) (l : Snap) (tr' : Store) (hS : Sim st g s)
    (htr : ∀ q, tr'.get? q = if q = p then some l else s.tracker.get? q) (hwf : ∀ r ∈ l, r.fromO ≤ r.toO)
    (hst : st = none ∨ st = some p) :
    Sim (some p) (g.setSnap p (snapP l)) { s with tracker := tr' } := by
  obtain ⟨ho, hr, hc, hl, hu⟩ := setSnap_frame g p (snapP l)
  have htr' : (g.setSnap p (snapP l)).tr = setP g.tr p (snapP l) := setSnap_tr g p (snapP l)
  refine ⟨by rw [ho]; exact hS.owned, ?_, by rw [hc]; exact hS.cursor, by rw [hl]; exact hS.low, ?_, ?_, ?_, ?_,
    by rw [hr]; exact hS.rd_nodup, hS.act_nodup, hS.act_shape, hS.cur_ge, ?_, ?_, ?_, hS.mr⟩
  · intro q
    rw [htr', lookupP_setP, htr q]
    by_cases h : q = p
    · simp [h]
    · simp [h, hS.tr q]
  · intro q rd h; rw [hr] at h; exact hS.rd_act q rd h
  · intro q rd h hne
    rw [hr] at h
    have hqp : q ≠ p := fun e => hne (by rw [e])
    have hst' : st ≠ some q := by
      rcases hst with h1 | h1
      · rw [h1]; simp
      · rw [h1]; intro e; exact hqp (Option.some.inj e).symm
    obtain ⟨h1, h2⟩ := hS.fresh q rd h hst'
    rw [htr', headOf_setP, setSnap_lowFrom_ne g p q _ hqp]
    simp only [hqp, if_false]
    exact ⟨h1, h2⟩
  · intro q h; rw [hr] at h; rw [hu]; exact hS.act_rd q h
  · intro q h; rw [hu] at h; rw [hr]; exact hS.unk q h
  · intro q
    rw [htr', headOf_setP]
    by_cases h : q = p
    · subst h
      simp only [if_true]
      rw [setSnap_lowFrom_eq]
      cases (snapP l).head? with
      | none => rfl
      | some ft =>
        obtain ⟨f, t⟩ := ft
        cases headOf g.tr q with
        | none => rfl
        | some ft' => obtain ⟨f', t'⟩ := ft'; by_cases h' : t = t' <;> simp [h']
    · simp only [h, if_false]; rw [setSnap_lowFrom_ne g p q _ h]; exact hS.lp q
  · intro q f t hh
    rw [htr', headOf_setP] at hh
    by_cases h : q = p
    · subst h
      simp only [if_true] at hh
      rw [setSnap_lowFrom_eq, hh]
      cases hold : headOf g.tr q with
      | none => simp
      | some ft' =>
        obtain ⟨f', t'⟩ := ft'
        by_cases h' : t = t'
        · simp only [h', if_true, Option.getD_some]; exact Int.min_le_left _ _
        · simp [h']
    · simp only [h, if_false] at hh
      rw [setSnap_lowFrom_ne g p q _ h]; exact hS.lowOK q f t hh
  · intro q l' hq r hr'
    rw [htr q] at hq
    by_cases h : q = p
    · simp only [h, if_true] at hq; cases hq; exact hwf r hr'
    · simp only [h, if_false] at hq; exact hS.trWf q l' hq r hr'

theorem nodup_erase {α} (m : AList α) (k : Int) (h : (m.map (·.1)).Nodup) : ((m.erase k).map (·.1)).Nodup := by
  unfold AList.erase
  exact List.Nodup.sublist (List.Sublist.map _ List.filter_sublist) h

/-- a tracker write of partition `p` that keeps the head request's `to` keeps `p`'s reader fresh -/
theorem fresh_after_same_to (g : Ghost) (p : Int) (l : PSnap) (rd : Reading)
    (hto : (headOf g.tr p).map (·.2) = some rd.toO) (hlow : (g.lowFrom.get? p).getD rd.assignOff ≤ rd.assignOff)
    (hlp : (headOf g.tr p).isSome = (g.lowFrom.get? p).isSome)
    (hnew : (l.head?).map (·.2) = some rd.toO) :
    (headOf (g.setSnap p l).tr p).map (·.2) = some rd.toO ∧
    ((g.setSnap p l).lowFrom.get? p).getD rd.assignOff ≤ rd.assignOff := by
  rw [setSnap_tr, headOf_setP, setSnap_lowFrom_eq]
  simp only [if_true]
  refine ⟨hnew, ?_⟩
  cases hl : l.head? with
  | none => simp [hl] at hnew
  | some ft =>
    obtain ⟨f, t⟩ := ft
    cases hold : headOf g.tr p with
    | none => simp [hold] at hto
    | some ft' =>
      obtain ⟨f', t'⟩ := ft'
      have h1 : t = rd.toO := by simpa [hl] using hnew
      have h2 : t' = rd.toO := by simpa [hold] using hto
      have h3 : t = t' := h1.trans h2.symm
      simp only [h3, if_true, Option.getD_some]
      rw [hold] at hlp
      cases hv : g.lowFrom.get? p with
      | none => simp [hv] at hlp
      | some v =>
        simp only [hv, Option.getD_some] at hlow ⊢
        exact Int.le_trans (Int.min_le_right _ _) hlow

/-- a request or a foreign snapshot for `p` (tracker write, then `taint p`) -/
theorem sim_write_taint (g : Ghost) (s : St) (p : Int) (l : Snap) (tr' : Store) (hS : Sim none g s)
    (htr : ∀ q, tr'.get? q = if q = p then some l else s.tracker.get? q) (hwf : ∀ r ∈ l, r.fromO ≤ r.toO) :
    Sim none ((g.setSnap p (snapP l)).taint p) { s with tracker := tr' } := by
  have h1 := sim_setSnap g s none p l tr' hS htr hwf (Or.inl rfl)
  obtain ⟨ho, hr, hc, hl, hu⟩ := setSnap_frame g p (snapP l)
  unfold Ghost.taint
  cases hrd : (g.setSnap p (snapP l)).reading.get? p with
  | none =>
    simp only
    refine { h1 with fresh := ?_ }
    intro q rd hq _
    by_cases hqp : q = p
    · subst hqp; rw [hrd] at hq; cases hq
    · exact h1.fresh q rd hq (fun e => hqp (Option.some.inj e).symm)
  | some rd =>
    simp only
    have hrd0 : g.reading.get? p = some rd := by rw [hr] at hrd; exact hrd
    by_cases hto : (headOf (g.setSnap p (snapP l)).tr p).map (·.2) = some rd.toO
    · simp only [hto, if_true]
      refine { h1 with fresh := ?_ }
      intro q rd' hq _
      by_cases hqp : q = p
      · subst hqp
        rw [hrd] at hq; cases hq
        obtain ⟨f1, f2⟩ := hS.fresh q rd hrd0 (by simp)
        have hnew : ((snapP l).head?).map (·.2) = some rd.toO := by
          rw [setSnap_tr, headOf_setP] at hto; simpa using hto
        exact fresh_after_same_to g q (snapP l) rd f1 f2 (hS.lp q) hnew
      · exact h1.fresh q rd' hq (fun e => hqp (Option.some.inj e).symm)
    · simp only [hto, if_false]
      refine ⟨h1.owned, h1.tr, h1.cursor, h1.low, ?_, ?_, ?_, ?_, ?_, h1.act_nodup, h1.act_shape, h1.cur_ge, h1.lp, h1.lowOK,
        h1.trWf, h1.mr⟩
      · intro q rd' hq
        by_cases hqp : q = p
        · subst hqp; simp [get?_erase_eq] at hq
        · simp only [get?_erase_ne _ _ _ hqp] at hq; exact h1.rd_act q rd' hq
      · intro q rd' hq _
        by_cases hqp : q = p
        · subst hqp; simp [get?_erase_eq] at hq
        · simp only [get?_erase_ne _ _ _ hqp] at hq
          exact h1.fresh q rd' hq (fun e => hqp (Option.some.inj e).symm)
      · intro q hq
        by_cases hqp : q = p
        · subst hqp; right; simp
        · simp only [get?_erase_ne _ _ _ hqp] at hq
          rcases h1.act_rd q hq with h2 | h2
          · exact Or.inl h2
          · exact Or.inr (List.mem_cons_of_mem _ h2)
      · intro q hq
        by_cases hqp : q = p
        · subst hqp; simp [get?_erase_eq]
        · simp only [get?_erase_ne _ _ _ hqp]
          rcases List.mem_cons.1 hq with h2 | h2
          · exact absurd h2 hqp
          · exact h1.unk q h2
      · exact nodup_erase _ _ h1.rd_nodup

theorem set_get?_char {α} (m : AList α) (p : Int) (v : α) :
    ∀ q, (m.set p v).get? q = if q = p then some v else m.get? q := by
  intro q
  by_cases h : q = p
  · subst h; simp
  · simp [h, AList.get?_set_ne _ _ _ _ h]

theorem trimmed_le (mr f t : Int) (hmr : 0 ≤ mr ∧ mr ≤ 2^63) (h0 : 0 ≤ f) (hft : f ≤ t) :
    (if wrap64 (t - f) > mr then wrap64 (t - mr) else f) ≤ t := by
  split
  · unfold wrap64; omega
  · exact hft

theorem obs_noEmits (o : Out) (h : o.emits = []) : noEmits (obsOf o) = true := by
  simp [noEmits, obsOf, h]

theorem sim_weaken (g : Ghost) (s : St) (hS : Sim none g s) (p : Int) : Sim (some p) g s :=
  { hS with fresh := fun q rd hq _ => hS.fresh q rd hq (by simp) }

/-- operations that do not involve the recovery client -/
theorem step_sim_easy (g : Ghost) (s : St) (op : Op) (hS : Sim none g s) (hsc : opInScope op = true)
    (hop : match op with | .poll _ | .msg _ _ | .kerr true | .refresh | .revoke => False | _ => True) :
    ∃ g', specStep g op (obsOf (step s op).2) = .ok g' ∧ Sim none g' (step s op).1 := by
  cases op with
  | poll p => exact absurd hop (by simp)
  | msg p o => exact absurd hop (by simp)
  | refresh => exact absurd hop (by simp)
  | revoke => exact absurd hop (by simp)
  | main p o =>
    refine ⟨g, ?_, hS⟩
    simp [step, specStep, obsOf]
  | kerr b =>
    cases b with
    | true => exact absurd hop (by simp)
    | false =>
      refine ⟨g, ?_, hS⟩
      simp [step, specStep, obsOf, noEmits, callStr, lastAssign, sortByKey]
  | setLow p v =>
    refine ⟨{ g with low := g.low.set p v }, by simp [step, specStep], ?_⟩
    exact { hS with low := by simp [step, hS.low] }
  | own ps =>
    refine ⟨{ g with owned := ps }, by simp [step, specStep, obsOf, noEmits], ?_⟩
    exact { hS with owned := by simp [step] }
  | req p f t =>
    simp only [opInScope, Bool.and_eq_true, decide_eq_true_eq] at hsc
    have hle := trimmed_le s.maxRecords f t hS.mr hsc.1 hsc.2
    have hwf : ∀ r ∈ addL ((s.tracker.get? p).getD []) (if wrap64 (t - f) > s.maxRecords then wrap64 (t - s.maxRecords) else f) t,
        r.fromO ≤ r.toO := by
      apply C08.add_wf _ _ _ _ hle
      intro r hr
      cases hg : s.tracker.get? p with
      | none => simp [hg] at hr
      | some l => simp [hg] at hr; exact hS.trWf p l hg r hr
    refine ⟨(g.setSnap p (snapP (addL ((s.tracker.get? p).getD []) (if wrap64 (t - f) > s.maxRecords then wrap64 (t - s.maxRecords) else f) t))).taint p,
      ?_, ?_⟩
    · simp [step, request, Tracker.add, specStep, obsOf, noEmits, C08.sortByKey_single, Ghost.applyBcasts]
    · have := sim_write_taint g s p _ (s.tracker.set p (addL ((s.tracker.get? p).getD []) (if wrap64 (t - f) > s.maxRecords then wrap64 (t - s.maxRecords) else f) t))
        hS (set_get?_char _ _ _) hwf
      simpa [step, request, Tracker.add] using this
  | recv p l =>
    simp only [opInScope, List.all_eq_true, Bool.and_eq_true, decide_eq_true_eq] at hsc
    refine ⟨(g.setSnap p (snapP l)).taint p, ?_, ?_⟩
    · simp [step, specStep, obsOf, noEmits, snapP]
    · have := sim_write_taint g s p l (s.tracker.set p l) hS (set_get?_char _ _ _) (fun r hr => (hsc r hr).2)
      simpa [step, Tracker.receive] using this
  | crash =>
    refine ⟨{ g with owned := [], reading := [], cursor := [], unknown := [] }, by simp [step, specStep], ?_⟩
    refine ⟨by simp [step], by simpa [step] using hS.tr, by simp [step, AList.get?], by simpa [step] using hS.low, ?_, ?_, ?_, ?_, by simp,
      by simp [step], ?_, ?_, hS.lp, hS.lowOK, by simpa [step] using hS.trWf, by simpa [step] using hS.mr⟩
    · intro q rd h; simp [AList.get?] at h
    · intro q rd h; simp [AList.get?] at h
    · intro q _; left; simp [step, AList.get?]
    · intro q h; simp at h
    · intro q a h; simp [step, AList.get?] at h
    · intro q a c h; simp [step, AList.get?] at h

/-! ### `wanted`, `dedupInts`, mapped association lists -/

theorem get?_map_val {α β} (m : AList α) (F : Int → α → β) (q : Int) :
    AList.get? (m.map (fun a => (a.1, F a.1 a.2))) q = (m.get? q).map (F q) := by
  induction m with
  | nil => rfl
  | cons kv rest ih =>
    obtain ⟨k, v⟩ := kv
    by_cases h : k = q
    · subst h; simp [AList.get?]
    · simp only [List.map_cons, AList.get?, h, if_false]; exact ih

theorem mem_dedupInts (l : List Int) (x : Int) : x ∈ dedupInts l ↔ x ∈ l := by
  induction l with
  | nil => simp [dedupInts]
  | cons y ys ih =>
    unfold dedupInts
    by_cases h : ys.contains y = true
    · simp only [h, if_true, ih, List.mem_cons]
      constructor
      · intro hx; exact Or.inr hx
      · rintro (rfl | hx)
        · simpa using h
        · exact hx
    · simp only [h, if_false, List.mem_cons, ih, Bool.false_eq_true]

theorem nodup_dedupInts (l : List Int) : (dedupInts l).Nodup := by
  induction l with
  | nil => simp [dedupInts]
  | cons y ys ih =>
    unfold dedupInts
    by_cases h : ys.contains y = true
    · simp only [h, if_true]; exact ih
    · simp only [h, if_false, Bool.false_eq_true]
      refine List.nodup_cons.2 ⟨?_, ih⟩
      intro hm
      exact h (by simpa using (mem_dedupInts ys y).1 hm)

theorem wanted_keys (g : Ghost) :
    (wanted g).map (·.1) = (dedupInts g.owned).filter (fun p => (headOf g.tr p).isSome) := by
  unfold wanted
  induction dedupInts g.owned with
  | nil => rfl
  | cons p ps ih =>
    cases h : headOf g.tr p with
    | none => simp [List.filterMap_cons, h, ih]
    | some ft => simp [List.filterMap_cons, h, ih]

theorem wanted_nodup (g : Ghost) : ((wanted g).map (·.1)).Nodup := by
  rw [wanted_keys]
  exact List.Nodup.sublist List.filter_sublist (nodup_dedupInts g.owned)

theorem mem_wanted_keys (g : Ghost) (q : Int) :
    q ∈ (wanted g).map (·.1) ↔ (q ∈ g.owned ∧ (headOf g.tr q).isSome = true) := by
  rw [wanted_keys, List.mem_filter, mem_dedupInts]

theorem mem_wanted (g : Ghost) (x : Int × Int) (h : x ∈ wanted g) :
    x.1 ∈ g.owned ∧ ∃ f, headOf g.tr x.1 = some (f, x.2) := by
  unfold wanted at h
  obtain ⟨p, hp, hx⟩ := List.mem_filterMap.1 h
  cases hh : headOf g.tr p with
  | none => simp [hh] at hx
  | some ft =>
    obtain ⟨f, t⟩ := ft
    simp [hh] at hx
    subst hx
    exact ⟨(mem_dedupInts _ _).1 hp, f, hh⟩

/-! ### a refresh that changes the assignment -/

theorem candFor_none (s : St) (q : Int) (h : Tracker.get s.tracker q = none) : C09.candFor s q = none := by
  simp [C09.candFor, h]

theorem candFor_isSome (s : St) (q : Int) (r : Req) (h : Tracker.get s.tracker q = some r) : (C09.candFor s q).isSome = true := by
  simp [C09.candFor, h]

theorem tracker_get_mem (tr : Store) (q : Int) (r : Req) (h : Tracker.get tr q = some r) :
    ∃ l, tr.get? q = some l ∧ r ∈ l := by
  unfold Tracker.get at h
  cases hg : tr.get? q with
  | none => simp [hg] at h
  | some l =>
    cases l with
    | nil => simp [hg] at h
    | cons x xs => simp [hg] at h; subst h; exact ⟨x :: xs, rfl, by simp⟩

/-- facts about one candidate of a refresh, in the vocabulary of the monitor -/
theorem cand_facts (g : Ghost) (s : St) (st : Option Int) (hS : Sim st g s) (q : Int) (c : Active)
    (hc : (candidates s).get? q = some c) :
    q ∈ g.owned ∧ ∃ f t, headOf g.tr q = some (f, t) ∧ c.toO = t ∧ c.fromO = c.assignOff ∧ f ≤ c.assignOff ∧ c.assignOff ≤ t ∧
      (c.assignOff = f ∨ ∃ a, s.active.get? q = some a ∧ a.toO = t ∧ c.assignOff = a.fromO) := by
  rw [C09.candidates_char] at hc
  by_cases ho : q ∈ s.owned
  · simp only [ho, if_true] at hc
    cases hg : Tracker.get s.tracker q with
    | none => rw [candFor_none s q hg] at hc; cases hc
    | some r =>
      simp only [C09.candFor, hg] at hc
      have hh : headOf g.tr q = some (r.fromO, r.toO) := by rw [headOf_pm s.tracker q g.tr hS.tr, hg]; rfl
      obtain ⟨l, hl, hrl⟩ := tracker_get_mem s.tracker q r hg
      have hrwf := hS.trWf q l hl r hrl
      refine ⟨by rw [hS.owned]; exact ho, r.fromO, r.toO, hh, ?_⟩
      cases ha : s.active.get? q with
      | none =>
        simp only [ha] at hc
        cases hc
        exact ⟨rfl, rfl, Int.le_refl _, hrwf, Or.inl rfl⟩
      | some a =>
        simp only [ha] at hc
        obtain ⟨hs1, hs2⟩ := hS.act_shape q a ha
        by_cases hcond : a.toO = r.toO ∧ a.fromO > r.fromO
        · simp only [hcond, and_self, if_true] at hc
          cases hc
          dsimp only
          exact ⟨rfl, rfl, by omega, by omega, Or.inr ⟨a, rfl, hcond.1, rfl⟩⟩
        · simp only [hcond, if_false] at hc
          cases hc
          exact ⟨rfl, rfl, Int.le_refl _, hrwf, Or.inl rfl⟩
  · simp [ho] at hc

theorem cand_keys (g : Ghost) (s : St) (st : Option Int) (hS : Sim st g s) (q : Int) :
    q ∈ (candidates s).map (·.1) ↔ (q ∈ g.owned ∧ (headOf g.tr q).isSome = true) := by
  rw [mem_keys_iff, C09.candidates_char, headOf_pm s.tracker q g.tr hS.tr, hS.owned]
  by_cases ho : q ∈ s.owned
  · simp only [ho, if_true, true_and]
    cases hg : Tracker.get s.tracker q with
    | none => simp [candFor_none s q hg]
    | some r => simp [candFor_isSome s q r hg]
  · simp [ho]

def asg0 (s : St) : List (Int × Int) := (candidates s).map (fun c => (c.1, c.2.assignOff))

theorem asg0_get? (s : St) (q : Int) : AList.get? (asg0 s) q = ((candidates s).get? q).map (·.assignOff) :=
  get?_map_val (candidates s) (fun _ a => a.assignOff) q

theorem asg0_keys (s : St) : (asg0 s).map (·.1) = (candidates s).map (·.1) := by
  simp [asg0, List.map_map, Function.comp_def]

theorem asg_get? (s : St) (q : Int) : AList.get? (sortByKey (asg0 s)) q = ((candidates s).get? q).map (·.assignOff) := by
  rw [← asg0_get?]
  have hp := perm_sortByKey (asg0 s)
  have hk : ((sortByKey (asg0 s)).map (·.1)).Nodup :=
    (List.Perm.nodup_iff (List.Perm.map (·.1) hp)).2 (by rw [asg0_keys]; exact candidates_nodup s)
  exact get?_of_perm _ _ hp hk q

theorem asg_keys_nodup (s : St) : ((sortByKey (asg0 s)).map (·.1)).Nodup :=
  (List.Perm.nodup_iff (List.Perm.map (·.1) (perm_sortByKey (asg0 s)))).2 (by rw [asg0_keys]; exact candidates_nodup s)

theorem asg_keys_mem (s : St) (q : Int) : q ∈ (sortByKey (asg0 s)).map (·.1) ↔ q ∈ (candidates s).map (·.1) := by
  rw [← asg0_keys]
  exact (List.Perm.map (·.1) (perm_sortByKey (asg0 s))).mem_iff

/-- **the refresh point of the monitor, when the model reassigns**: the assigned set is owned ∩ outstanding, every
partition resumes inside `[lowest from seen, record after the last emitted one]`, and the monitor's new reading state matches
the model's new active set -/
theorem refreshPoint_changed (g : Ghost) (s : St) (st : Option Int) (hS : Sim st g s) (o : ObsOp)
    (ho : o.assign = some (sortByKey (asg0 s))) :
    ∃ g', refreshPoint g o = .ok g' ∧ Sim none g' { s with active := candidates s, cursor := asg0 s } := by
  have hkeys : ∀ q, q ∈ (sortByKey (asg0 s)).map (·.1) ↔ q ∈ (wanted g).map (·.1) := by
    intro q; rw [asg_keys_mem, cand_keys g s st hS, mem_wanted_keys]
  have hsort : sortInts ((sortByKey (asg0 s)).map (·.1)) = sortInts ((wanted g).map (·.1)) :=
    sortInts_eq_of_same _ _ (asg_keys_nodup s) (wanted_nodup g) hkeys
  -- every assigned entry comes from a candidate
  have hent : ∀ a ∈ sortByKey (asg0 s), ∃ c, (candidates s).get? a.1 = some c ∧ c.assignOff = a.2 := by
    intro a ha
    have h1 : AList.get? (sortByKey (asg0 s)) a.1 = some a.2 := get?_of_mem_nodup _ a.1 a.2 (by simpa using ha) (asg_keys_nodup s)
    rw [asg_get?] at h1
    cases hc : (candidates s).get? a.1 with
    | none => simp [hc] at h1
    | some c => simp [hc] at h1; exact ⟨c, rfl, h1⟩
  unfold refreshPoint
  simp only [ho]
  split
  · rename_i h; exact absurd hsort h
  · split
    · rename_i h; simp [asg_keys_nodup s] at h
    · split
      · -- no assigned entry is "bad"
        rename_i hbad
        exfalso
        obtain ⟨a, ha, hcond⟩ := List.any_eq_true.1 hbad
        obtain ⟨c, hc, hca⟩ := hent a ha
        obtain ⟨_, f, t, hh, hct, hcf, hfc, hcle, hor⟩ := cand_facts g s st hS a.1 c hc
        by_cases hu : g.unknown.contains a.1 = true
        · rw [if_pos hu] at hcond; cases hcond
        · rw [if_neg hu] at hcond
          simp only [hh] at hcond
          have hlo := hS.lowOK a.1 f t hh
          rw [← hca] at hcond
          -- lower bound
          have hlo' : ¬ (c.assignOff < (g.lowFrom.get? a.1).getD f) := by omega
          -- upper bound
          have hhi0 : f ≤ (match g.lastEmit.get? a.1 with | some e => max f (e + 1) | none => f) := by
            cases g.lastEmit.get? a.1 with
            | none => exact Int.le_refl _
            | some e => exact Int.le_max_left _ _
          rcases hor with h1 | ⟨a', ha', hat, hcf'⟩
          · -- resumes at the head's progress point
            have : ¬ (c.assignOff > (match g.reading.get? a.1 with
                | some rd => if some rd.toO = (some (f, t) : Option (Int × Int)).map (·.2) then
                    max (match g.lastEmit.get? a.1 with | some e => max f (e + 1) | none => f) rd.assignOff
                  else (match g.lastEmit.get? a.1 with | some e => max f (e + 1) | none => f)
                | none => (match g.lastEmit.get? a.1 with | some e => max f (e + 1) | none => f))) := by
              cases g.reading.get? a.1 with
              | none => simp only; omega
              | some rd =>
                simp only
                split
                · have := Int.le_max_left (match g.lastEmit.get? a.1 with | some e => max f (e + 1) | none => f) rd.assignOff
                  omega
                · omega
            simp only [Bool.or_eq_true, decide_eq_true_eq] at hcond
            rcases hcond with h2 | h2
            · exact hlo' h2
            · exact this h2
          · -- stays where this instance already is reading the same request
            have hrd : ∃ rd, g.reading.get? a.1 = some rd := by
              cases hr : g.reading.get? a.1 with
              | some rd => exact ⟨rd, rfl⟩
              | none =>
                rcases hS.act_rd a.1 hr with h3 | h3
                · rw [ha'] at h3; cases h3
                · exact absurd (by simpa using h3) hu
            obtain ⟨rd, hrd⟩ := hrd
            obtain ⟨a2, ha2, ha2o, ha2t⟩ := hS.rd_act a.1 rd hrd
            rw [ha'] at ha2; cases ha2
            have hsh := (hS.act_shape a.1 a' ha').1
            simp only [hrd, Bool.or_eq_true, decide_eq_true_eq] at hcond
            have hto : some rd.toO = (some (f, t) : Option (Int × Int)).map (·.2) := by simp [← ha2t, hat]
            simp only [hto, if_true] at hcond
            rcases hcond with h2 | h2
            · exact hlo' h2
            · have heq : c.assignOff = rd.assignOff := by omega
              rw [heq] at h2
              exact absurd h2 (Int.not_lt.mpr (Int.le_max_right _ _))
      · -- the new ghost state
        refine ⟨_, rfl, ?_⟩
        have hrd' : ∀ q, AList.get? ((sortByKey (asg0 s)).map (fun a => (a.1, (⟨a.2, ((headOf g.tr a.1).map (·.2)).getD 0⟩ : Reading)))) q =
            ((candidates s).get? q).map (fun c => (⟨c.assignOff, ((headOf g.tr q).map (·.2)).getD 0⟩ : Reading)) := by
          intro q
          rw [get?_map_val (sortByKey (asg0 s)) (fun k off => (⟨off, ((headOf g.tr k).map (·.2)).getD 0⟩ : Reading)) q, asg_get?]
          cases (candidates s).get? q <;> rfl
        refine ⟨hS.owned, hS.tr, ?_, hS.low, ?_, ?_, ?_, ?_, ?_, candidates_nodup s, ?_, ?_, hS.lp, hS.lowOK, hS.trWf, hS.mr⟩
        · intro q; simp only; rw [asg_get?, asg0_get?]
        · intro q rd hq
          simp only at hq
          rw [hrd'] at hq
          cases hc : (candidates s).get? q with
          | none => simp [hc] at hq
          | some c =>
            simp [hc] at hq
            obtain ⟨_, f, t, hh, hct, _⟩ := cand_facts g s st hS q c hc
            refine ⟨c, rfl, ?_, ?_⟩
            · rw [← hq]
            · rw [← hq]; simp [hh, hct]
        · intro q rd hq _
          simp only at hq
          rw [hrd'] at hq
          cases hc : (candidates s).get? q with
          | none => simp [hc] at hq
          | some c =>
            simp [hc] at hq
            obtain ⟨_, f, t, hh, hct, hcf, hfc, _⟩ := cand_facts g s st hS q c hc
            have hlo := hS.lowOK q f t hh
            have hlp := hS.lp q
            rw [hh] at hlp
            refine ⟨by rw [← hq]; simp [hh], ?_⟩
            cases hv : g.lowFrom.get? q with
            | none => simp [hv] at hlp
            | some v =>
              simp only [hv, Option.getD_some] at hlo ⊢
              rw [← hq]; simp only; omega
        · intro q hq
          simp only at hq
          rw [hrd'] at hq
          left
          cases hc : (candidates s).get? q with
          | none => rfl
          | some c => simp [hc] at hq
        · intro q hq; simp at hq
        · simp only [List.map_map, Function.comp_def]; exact asg_keys_nodup s
        · intro q a ha
          obtain ⟨_, f, t, hh, hct, hcf, hfc, hcle, _⟩ := cand_facts g s st hS q a ha
          exact ⟨hcf, by omega⟩
        · intro q a c ha hc
          simp only at hc
          rw [asg0_get?] at hc
          simp only at ha
          rw [ha] at hc
          simp at hc
          omega

/-! ### a refresh that finds nothing to change -/

theorem changed_false (cands act : AList Active) (h : changed cands act = false) :
    cands.length = act.length ∧ ∀ c ∈ cands, ∃ a, act.get? c.1 = some a ∧ c.2.toO = a.toO := by
  unfold changed at h
  split at h
  · rename_i hl
    refine ⟨hl, ?_⟩
    intro c hc
    have := List.any_eq_false.1 h c hc
    cases ha : act.get? c.1 with
    | none => simp [ha] at this
    | some a => simp [ha] at this; exact ⟨a, rfl, this⟩
  · cases h

theorem refreshPoint_unchanged (g : Ghost) (s : St) (hS : Sim none g s) (hch : changed (candidates s) s.active = false)
    (o : ObsOp) (ho : o.assign = none) : refreshPoint g o = .ok g := by
  unfold refreshPoint
  simp only [ho]
  by_cases hu : g.unknown = []
  · obtain ⟨hlen, hall⟩ := changed_false _ _ hch
    -- every wanted partition is being read, with the right `to`
    have hA : ∀ x ∈ wanted g, ∃ rd, g.reading.get? x.1 = some rd ∧ rd.toO = x.2 := by
      intro x hx
      obtain ⟨hown, f, hh⟩ := mem_wanted g x hx
      have hk : x.1 ∈ (candidates s).map (·.1) := (cand_keys g s none hS x.1).2 ⟨hown, by simp [hh]⟩
      have hs := (mem_keys_iff _ _).1 hk
      cases hc : (candidates s).get? x.1 with
      | none => simp [hc] at hs
      | some c =>
        obtain ⟨a, ha, hca⟩ := hall (x.1, c) (get?_mem' _ _ _ hc)
        obtain ⟨_, f', t', hh', hct, _⟩ := cand_facts g s none hS x.1 c hc
        rw [hh] at hh'; cases hh'
        cases hr : g.reading.get? x.1 with
        | none =>
          rcases hS.act_rd x.1 hr with h1 | h1
          · simp only at ha; rw [ha] at h1; cases h1
          · rw [hu] at h1; cases h1
        | some rd =>
          obtain ⟨a', ha', _, hat⟩ := hS.rd_act x.1 rd hr
          simp only at ha
          rw [ha] at ha'; cases ha'
          exact ⟨rd, rfl, by simp only at hca; omega⟩
    have h1 : (wanted g).length ≤ g.reading.length := by
      have := RefreshConc.length_le_of_nodup_subset ((wanted g).map (·.1)) (g.reading.map (·.1)) (wanted_nodup g) (by
        intro q hq
        obtain ⟨x, hx, rfl⟩ := List.mem_map.1 hq
        obtain ⟨rd, hrd, _⟩ := hA x hx
        exact (mem_keys_iff _ _).2 (by simp [hrd]))
      simpa using this
    have h2 : g.reading.length ≤ s.active.length := by
      have := RefreshConc.length_le_of_nodup_subset (g.reading.map (·.1)) (s.active.map (·.1)) hS.rd_nodup (by
        intro q hq
        have hs := (mem_keys_iff _ _).1 hq
        cases hr : g.reading.get? q with
        | none => simp [hr] at hs
        | some rd =>
          obtain ⟨a, ha, _⟩ := hS.rd_act q rd hr
          exact (mem_keys_iff _ _).2 (by simp [ha]))
      simpa using this
    have h3 : (candidates s).length ≤ (wanted g).length := by
      have := RefreshConc.length_le_of_nodup_subset ((candidates s).map (·.1)) ((wanted g).map (·.1)) (candidates_nodup s) (by
        intro q hq
        exact (mem_wanted_keys g q).2 ((cand_keys g s none hS q).1 hq))
      simpa using this
    have hlen' : (wanted g).length = g.reading.length := by omega
    have hsame : sameReading (wanted g) g.reading = true := by
      simp only [sameReading, Bool.and_eq_true, decide_eq_true_eq, List.all_eq_true]
      refine ⟨hlen', ?_⟩
      intro x hx
      obtain ⟨rd, hrd, hto⟩ := hA x hx
      simp [hrd, hto]
    simp [hsame]
  · have : g.unknown.isEmpty = false := by
      cases hg : g.unknown with
      | nil => exact absurd hg hu
      | cons _ _ => rfl
    simp [this]

theorem obsOf_refresh_changed (s : St) (h : changed (candidates s) s.active = true) :
    (refresh s).1 = { s with active := candidates s, cursor := asg0 s } ∧
    obsOf (refresh s).2 = { calls := "UA", assign := some (sortByKey (asg0 s)) } := by
  unfold refresh
  simp only [h, if_true]
  refine ⟨rfl, ?_⟩
  simp [obsOf, callStr, lastAssign, sortPairs, asg0, sortByKey]

theorem obsOf_refresh_unchanged (s : St) (h : changed (candidates s) s.active = false) :
    (refresh s).1 = s ∧ obsOf (refresh s).2 = {} := by
  unfold refresh
  simp only [h, Bool.false_eq_true, if_false]
  constructor
  · trivial
  · simp [obsOf, callStr, lastAssign, sortByKey]

/-- `RefreshAssignments` at a state the monitor is in step with -/
theorem refresh_sim (g : Ghost) (s : St) (hS : Sim none g s) :
    ∃ g', refreshPoint g (obsOf (refresh s).2) = .ok g' ∧ Sim none g' (refresh s).1 := by
  by_cases hch : changed (candidates s) s.active = true
  · obtain ⟨h1, h2⟩ := obsOf_refresh_changed s hch
    rw [h1, h2]
    exact refreshPoint_changed g s none hS _ rfl
  · simp only [Bool.not_eq_true] at hch
    obtain ⟨h1, h2⟩ := obsOf_refresh_unchanged s hch
    rw [h1, h2]
    exact ⟨g, refreshPoint_unchanged g s hS hch _ rfl, hS⟩

theorem refresh_obs_quiet (s : St) : noEmits (obsOf (refresh s).2) = true ∧ (obsOf (refresh s).2).bcasts = [] ∧
    (obsOf (refresh s).2).mainE = [] ∧ (obsOf (refresh s).2).recE = [] := by
  by_cases hch : changed (candidates s) s.active = true
  · rw [(obsOf_refresh_changed s hch).2]; simp [noEmits]
  · simp only [Bool.not_eq_true] at hch
    rw [(obsOf_refresh_unchanged s hch).2]; simp [noEmits]

theorem step_sim_refresh (g : Ghost) (s : St) (hS : Sim none g s) :
    ∃ g', specStep g .refresh (obsOf (step s .refresh).2) = .ok g' ∧ Sim none g' (step s .refresh).1 := by
  obtain ⟨g', h1, h2⟩ := refresh_sim g s hS
  obtain ⟨q1, q2, _, _⟩ := refresh_obs_quiet s
  refine ⟨g', ?_, h2⟩
  simp only [step, specStep, q1, Bool.not_true, Bool.false_eq_true, if_false, q2, applyBcasts_nil]
  exact h1

theorem step_sim_revoke (g : Ghost) (s : St) (hS : Sim none g s) :
    ∃ g', specStep g .revoke (obsOf (step s .revoke).2) = .ok g' ∧ Sim none g' (step s .revoke).1 := by
  have hS' : Sim none { g with owned := [] } { s with owned := [] } := { hS with owned := rfl }
  obtain ⟨g', h1, h2⟩ := refresh_sim _ _ hS'
  obtain ⟨q1, _, _, _⟩ := refresh_obs_quiet { s with owned := [] }
  refine ⟨g', ?_, h2⟩
  simp only [step, specStep, q1, Bool.not_true, Bool.false_eq_true, if_false]
  exact h1

/-! ### records delivered by the recovery client -/

theorem sim_unstale (g : Ghost) (s : St) (p : Int) (hS : Sim (some p) g s) (h : g.reading.get? p = none) : Sim none g s :=
  { hS with fresh := fun q rd hq _ => hS.fresh q rd hq (by intro e; cases e; rw [h] at hq; cases hq) }

/-- a delivered record on which the model does nothing at all -/
theorem delivered_quiet (g : Ghost) (s : St) (p off : Int) (hS : Sim none g s)
    (hq : ∀ a, s.active.get? p = some a → off < a.fromO) :
    delivered g p off {} = .ok g := by
  unfold delivered
  simp only [List.isEmpty_nil, Bool.not_true, Bool.false_eq_true, if_false, Option.isSome_none, applyBcasts_nil]
  by_cases hu : g.unknown.contains p = true
  · rw [if_pos hu]
  · rw [if_neg hu]
    cases hr : g.reading.get? p with
    | none => simp
    | some rd =>
      obtain ⟨a, ha, hao, hat⟩ := hS.rd_act p rd hr
      have hlt := hq a ha
      obtain ⟨hs1, hs2⟩ := hS.act_shape p a ha
      simp only [List.any_nil, Bool.false_eq_true, if_false, List.length_nil, List.isEmpty_nil, Bool.not_true, Bool.false_and,
        lookupP_nil, Bool.and_true]
      have h1 : ¬ (rd.assignOff ≤ off) := by omega
      have h2 : ¬ (off > rd.toO) := by omega
      simp [h1, h2]

theorem delivered_unknown (g : Ghost) (p off : Int) (o : ObsOp) (hu : g.unknown.contains p = true)
    (hm : o.mainE = []) (ha : o.assign = none) : delivered g p off o = .ok (g.applyBcasts o.bcasts) := by
  unfold delivered
  have hu' : p ∈ g.unknown := by simpa using hu
  simp [hm, hu', ha]

theorem delivered_unknown_assign (g : Ghost) (p off : Int) (o : ObsOp) (hu : g.unknown.contains p = true)
    (hm : o.mainE = []) (ha : o.assign.isSome = true) : delivered g p off o = refreshPoint (g.applyBcasts o.bcasts) o := by
  unfold delivered
  have hu' : p ∈ g.unknown := by simpa using hu
  simp [hm, hu', ha]

/-- the monitor's verdict on an emitted window record without a progress broadcast -/
theorem delivered_emit_plain (g : Ghost) (p off : Int) (rd : Reading) (hu : g.unknown.contains p = false)
    (hr : g.reading.get? p = some rd) (hlo : (g.lowFrom.get? p).getD rd.assignOff ≤ off) (hhi : off < rd.toO) :
    delivered g p off { recE := [(p, off)] } =
      .ok { g with lastEmit := g.lastEmit.set p (max off ((g.lastEmit.get? p).getD off)) } := by
  unfold delivered
  have h1 : ¬ (off < (g.lowFrom.get? p).getD rd.assignOff) := by omega
  have h2 : ¬ (off > rd.toO) := by omega
  have hu' : p ∉ g.unknown := by simpa using hu
  simp [hu', hr, h1, h2, lookupP_nil, Ghost.applyBcasts]

/-- ... and with the progress broadcast `(off, to) :: rest` -/
theorem delivered_emit_progress (g : Ghost) (p off : Int) (rd : Reading) (rest : PSnap) (hu : g.unknown.contains p = false)
    (hr : g.reading.get? p = some rd) (hlo : (g.lowFrom.get? p).getD rd.assignOff ≤ off) (hhi : off < rd.toO) :
    delivered g p off { recE := [(p, off)], bcasts := [(p, (off, rd.toO) :: rest)] } =
      .ok (({ g with lastEmit := g.lastEmit.set p (max off ((g.lastEmit.get? p).getD off)) } : Ghost).setSnap p ((off, rd.toO) :: rest)) := by
  unfold delivered
  have h1 : ¬ (off < (g.lowFrom.get? p).getD rd.assignOff) := by omega
  have h2 : ¬ (off > rd.toO) := by omega
  have h3 : ¬ (off > max off ((g.lastEmit.get? p).getD off)) := Int.not_lt.mpr (Int.le_max_left _ _)
  have hu' : p ∉ g.unknown := by simpa using hu
  simp [hu', hr, h1, h2, h3, lookupP_cons, lookupP_nil, Ghost.applyBcasts]

theorem sim_granted (g : Ghost) (s : St) (st : Option Int) (n : Nat) (hS : Sim st g s) : Sim st g { s with granted := n } :=
  ⟨hS.owned, hS.tr, hS.cursor, hS.low, hS.rd_act, hS.fresh, hS.act_rd, hS.unk, hS.rd_nodup, hS.act_nodup, hS.act_shape,
    hS.cur_ge, hS.lp, hS.lowOK, hS.trWf, hS.mr⟩

theorem sim_lastEmit (g : Ghost) (s : St) (st : Option Int) (le : AList Int) (hS : Sim st g s) : Sim st { g with lastEmit := le } s :=
  ⟨hS.owned, hS.tr, hS.cursor, hS.low, hS.rd_act, hS.fresh, hS.act_rd, hS.unk, hS.rd_nodup, hS.act_nodup, hS.act_shape,
    hS.cur_ge, hS.lp, hS.lowOK, hS.trWf, hS.mr⟩

/-- a reader that is neither tainted nor absent: the active entry and the monitor's reading agree -/
theorem reading_of_active (g : Ghost) (s : St) (p : Int) (a : Active) (hS : Sim none g s) (ha : s.active.get? p = some a)
    (hu : g.unknown.contains p = false) :
    ∃ rd, g.reading.get? p = some rd ∧ rd.assignOff = a.assignOff ∧ rd.toO = a.toO ∧ a.fromO = a.assignOff ∧ a.fromO ≤ a.toO ∧
      (headOf g.tr p).map (·.2) = some rd.toO ∧ (g.lowFrom.get? p).getD rd.assignOff ≤ rd.assignOff := by
  cases hr : g.reading.get? p with
  | none =>
    rcases hS.act_rd p hr with h | h
    · rw [ha] at h; cases h
    · have : g.unknown.contains p = true := by simpa using h
      rw [hu] at this; cases this
  | some rd =>
    obtain ⟨a', ha', h1, h2⟩ := hS.rd_act p rd hr
    rw [ha] at ha'; cases ha'
    obtain ⟨h3, h4⟩ := hS.act_shape p a ha
    obtain ⟨h5, h6⟩ := hS.fresh p rd hr (by simp)
    exact ⟨rd, rfl, h1.symm, h2.symm, h3, h4, h5, h6⟩

/-- an untainted reader's request is the head of the tracker's list -/
theorem tracker_head_of_fresh (g : Ghost) (s : St) (st : Option Int) (p t : Int) (hS : Sim st g s)
    (h : (headOf g.tr p).map (·.2) = some t) : ∃ r rest, s.tracker.get? p = some (r :: rest) ∧ r.toO = t := by
  rw [headOf_pm s.tracker p g.tr hS.tr] at h
  unfold Tracker.get at h
  cases hg : s.tracker.get? p with
  | none => simp [hg] at h
  | some l =>
    cases l with
    | nil => simp [hg] at h
    | cons r rest => simp [hg] at h; exact ⟨r, rest, rfl, h⟩

theorem delivered_emit (g : Ghost) (s : St) (p off : Int) (a : Active) (hS : Sim none g s) (ha : s.active.get? p = some a)
    (h1 : ¬ off < a.fromO) (h2 : ¬ a.toO - off ≤ 0) :
    ∃ g', delivered g p off (obsOf (recover s p off).2) = .ok g' ∧ Sim none g' (recover s p off).1 := by
  have hS1 : Sim none g { s with granted := s.granted + 1 } := sim_granted g s none _ hS
  by_cases hcond : off % s.updateEvery = 0 ∧ a.toO - off > 0
  · -- the record is a progress checkpoint
    rcases C08.update_only_head s.tracker p off a.toO with ⟨r, rest, hg, hrt, _, hget, hbs, hoth⟩ | ⟨hno, hupd⟩
    · -- the tracker's head is the request being read: progress is broadcast
      have hrec : (recover s p off).2 = { emits := [⟨p, off, true⟩], bcasts := [(p, { r with fromO := off } :: rest)] } ∧
          (recover s p off).1 = { s with granted := s.granted + 1, tracker := (Tracker.update s.tracker p off a.toO).1 } := by
        simp only [recover, ha, h1, h2, hcond, if_false, if_true, and_self]
        rw [← hbs]; constructor <;> first | rfl | trivial
      have hobs : obsOf (recover s p off).2 = { recE := [(p, off)], bcasts := [(p, (off, a.toO) :: snapP rest)] } := by
        rw [hrec.1]; simp [obsOf, C08.sortByKey_single, snapP, hrt, callStr, lastAssign]
      have htr : ∀ q, (Tracker.update s.tracker p off a.toO).1.get? q = if q = p then some ({ r with fromO := off } :: rest) else s.tracker.get? q := by
        intro q; by_cases hq : q = p
        · subst hq; simp [hget]
        · simp [hq, hoth q hq]
      have hwf : ∀ x ∈ ({ r with fromO := off } :: rest : Snap), x.fromO ≤ x.toO := by
        intro x hx
        rcases List.mem_cons.1 hx with h | h
        · subst h; simp only; omega
        · exact hS.trWf p (r :: rest) hg x (List.mem_cons_of_mem _ h)
      rw [hobs, hrec.2]
      by_cases hu : g.unknown.contains p = true
      · refine ⟨g.setSnap p ((off, a.toO) :: snapP rest), ?_, ?_⟩
        · exact delivered_unknown g p off _ hu rfl rfl
        · have h3 := sim_setSnap g _ none p ({ r with fromO := off } :: rest) _ hS1 htr hwf (Or.inl rfl)
          have h4 : (g.setSnap p (snapP ({ r with fromO := off } :: rest))).reading.get? p = none := by
            rw [(setSnap_frame g p _).2.1]; exact hS.unk p (by simpa using hu)
          have h5 := sim_unstale _ _ p h3 h4
          simpa [snapP, hrt] using h5
      · simp only [Bool.not_eq_true] at hu
        obtain ⟨rd, hrd, hra, hrt', hsh, _, hfr, hlow⟩ := reading_of_active g s p a hS ha hu
        have hlo : (g.lowFrom.get? p).getD rd.assignOff ≤ off := by omega
        have hhi : off < rd.toO := by omega
        refine ⟨(({ g with lastEmit := g.lastEmit.set p (max off ((g.lastEmit.get? p).getD off)) } : Ghost).setSnap p ((off, a.toO) :: snapP rest)), ?_, ?_⟩
        · have := delivered_emit_progress g p off rd (snapP rest) hu hrd hlo hhi
          rw [hrt'] at this; exact this
        · -- the ghost after the progress snapshot
          have hSle := sim_lastEmit g _ none (g.lastEmit.set p (max off ((g.lastEmit.get? p).getD off))) hS1
          have h3 := sim_setSnap _ _ none p ({ r with fromO := off } :: rest) _ hSle htr hwf (Or.inl rfl)
          have hsn : snapP ({ r with fromO := off } :: rest) = (off, a.toO) :: snapP rest := by simp [snapP, hrt]
          rw [hsn] at h3
          refine { h3 with fresh := ?_ }
          intro q rd' hq _
          by_cases hqp : q = p
          · subst hqp
            rw [(setSnap_frame _ q _).2.1] at hq
            simp only at hq
            rw [hrd] at hq; cases hq
            exact fresh_after_same_to _ q _ rd hfr hlow (hS.lp q) (by simp [hrt'])
          · exact h3.fresh q rd' hq (fun e => hqp (Option.some.inj e).symm)
    · -- no request with this `to` at the head (the reader is tainted): nothing is broadcast
      have hrec : (recover s p off).2 = { emits := [⟨p, off, true⟩] } ∧ (recover s p off).1 = { s with granted := s.granted + 1 } := by
        simp only [recover, ha, h1, h2, hcond, if_false, if_true, and_self, hupd]
      have hobs : obsOf (recover s p off).2 = { recE := [(p, off)] } := by rw [hrec.1]; simp [obsOf, sortByKey, callStr, lastAssign]
      rw [hobs, hrec.2]
      by_cases hu : g.unknown.contains p = true
      · exact ⟨g, delivered_unknown g p off _ hu rfl rfl, hS1⟩
      · simp only [Bool.not_eq_true] at hu
        obtain ⟨rd, hrd, hra, hrt', hsh, _, hfr, hlow⟩ := reading_of_active g s p a hS ha hu
        exfalso
        obtain ⟨r, rest, hg, hrt⟩ := tracker_head_of_fresh g s none p rd.toO hS hfr
        exact hno ⟨r, rest, hg, by omega⟩
  · -- an ordinary window record
    have hrec : (recover s p off).2 = { emits := [⟨p, off, true⟩] } ∧ (recover s p off).1 = { s with granted := s.granted + 1 } := by
      simp only [recover, ha, h1, h2, hcond, if_false]
      constructor <;> first | rfl | trivial
    have hobs : obsOf (recover s p off).2 = { recE := [(p, off)] } := by rw [hrec.1]; simp [obsOf, sortByKey, callStr, lastAssign]
    rw [hobs, hrec.2]
    by_cases hu : g.unknown.contains p = true
    · exact ⟨g, delivered_unknown g p off _ hu rfl rfl, hS1⟩
    · simp only [Bool.not_eq_true] at hu
      obtain ⟨rd, hrd, hra, hrt', hsh, _, hfr, hlow⟩ := reading_of_active g s p a hS ha hu
      have hlo : (g.lowFrom.get? p).getD rd.assignOff ≤ off := by omega
      have hhi : off < rd.toO := by omega
      exact ⟨_, delivered_emit_plain g p off rd hu hrd hlo hhi, sim_lastEmit g _ none _ hS1⟩

/-! ### completion of a window -/

/-- once the request a reader was working on has left the head of the tracker's list, the next refresh reassigns -/
theorem stale_changed (g : Ghost) (s : St) (st : Option Int) (p : Int) (a : Active) (hS : Sim st g s)
    (ha : s.active.get? p = some a) (hno : ∀ r, Tracker.get s.tracker p = some r → r.toO ≠ a.toO) :
    changed (candidates s) s.active = true := by
  cases hch : changed (candidates s) s.active with
  | true => rfl
  | false =>
    exfalso
    obtain ⟨hlen, hall⟩ := changed_false _ _ hch
    cases hc : (candidates s).get? p with
    | some c =>
      obtain ⟨a', ha', hca⟩ := hall (p, c) (get?_mem' _ _ _ hc)
      simp only at ha'
      rw [ha] at ha'; cases ha'
      obtain ⟨_, f, t, hh, hct, _⟩ := cand_facts g s st hS p c hc
      rw [headOf_pm s.tracker p g.tr hS.tr] at hh
      cases hg : Tracker.get s.tracker p with
      | none => simp [hg] at hh
      | some r =>
        simp [hg] at hh
        exact hno r hg (by simp only at hca; omega)
    | none =>
      have hp_act : p ∈ s.active.map (·.1) := (mem_keys_iff _ _).2 (by simp [ha])
      have hsub : ∀ q ∈ (candidates s).map (·.1), q ∈ (s.active.map (·.1)).erase p := by
        intro q hq
        have hs := (mem_keys_iff _ _).1 hq
        cases hcq : (candidates s).get? q with
        | none => simp [hcq] at hs
        | some c =>
          obtain ⟨a', ha', _⟩ := hall (q, c) (get?_mem' _ _ _ hcq)
          have hqp : q ≠ p := by intro e; subst e; rw [hc] at hcq; cases hcq
          exact (List.mem_erase_of_ne hqp).2 ((mem_keys_iff _ _).2 (by simp only at ha'; simp [ha']))
      have h1 := RefreshConc.length_le_of_nodup_subset _ _ (candidates_nodup s) hsub
      rw [List.length_erase_of_mem hp_act] at h1
      have hpos : 0 < (s.active.map (·.1)).length := List.length_pos_of_mem hp_act
      simp only [List.length_map] at h1 hpos
      omega

theorem obsOf_complete_refresh (bs : List Bcast) (r : Out) (he : r.emits = []) (hb : r.bcasts = []) :
    obsOf (Out.append { bcasts := bs } r) =
      { recE := [], mainE := [], calls := (obsOf r).calls, assign := (obsOf r).assign,
        bcasts := sortByKey (bs.map (fun b => (b.1, snapP b.2))) } := by
  simp [obsOf, Out.append, he, hb]

/-- the monitor's verdict on the record that completes the window of an untainted reader -/
theorem delivered_complete_spec (g : Ghost) (p off : Int) (rd : Reading) (o : ObsOp) (l' : PSnap)
    (hu : g.unknown.contains p = false) (hr : g.reading.get? p = some rd) (hoff : rd.toO ≤ off)
    (hre : o.recE = []) (hme : o.mainE = []) (hbc : lookupP o.bcasts p = some l')
    (hno : l'.any (fun r => decide (r.2 = rd.toO)) = false) :
    delivered g p off o = refreshPoint (g.applyBcasts o.bcasts) o := by
  unfold delivered
  have hu' : p ∉ g.unknown := by simpa using hu
  have h1 : ¬ (off < rd.toO) := by omega
  simp [hu', hr, hre, hme, hbc, hno, h1]

theorem recover_complete_shape (s : St) (p off : Int) (a : Active) (ha : s.active.get? p = some a)
    (h1 : ¬ off < a.fromO) (h2 : a.toO - off ≤ 0) :
    (recover s p off).1 = (refresh { s with tracker := (Tracker.complete s.tracker p a.toO).1 }).1 ∧
    (recover s p off).2 = Out.append { bcasts := (Tracker.complete s.tracker p a.toO).2.1 }
      (refresh { s with tracker := (Tracker.complete s.tracker p a.toO).1 }).2 := by
  simp only [recover, ha, h1, h2, if_false, if_true]
  trivial

theorem delivered_complete (g : Ghost) (s : St) (p off : Int) (a : Active) (hS : Sim none g s) (ha : s.active.get? p = some a)
    (h1 : ¬ off < a.fromO) (h2 : a.toO - off ≤ 0) :
    ∃ g', delivered g p off (obsOf (recover s p off).2) = .ok g' ∧ Sim none g' (recover s p off).1 := by
  obtain ⟨hst, hout⟩ := recover_complete_shape s p off a ha h1 h2
  obtain ⟨he, hb⟩ := C09.refresh_silent { s with tracker := (Tracker.complete s.tracker p a.toO).1 }
  have hobs := obsOf_complete_refresh (Tracker.complete s.tracker p a.toO).2.1 _ he hb
  rw [hst, hout, hobs]
  -- the state between the completion and the refresh
  rcases C08.complete_only_named s.tracker p a.toO with ⟨l, hg, hex, _, hget, hbs, hoth⟩ | ⟨hnone, hcmp⟩
  · -- the request is closed and its closure broadcast
    have htr : ∀ q, (Tracker.complete s.tracker p a.toO).1.get? q =
        if q = p then some (l.filter (fun r => decide (r.toO ≠ a.toO))) else s.tracker.get? q := by
      intro q; by_cases hq : q = p
      · subst hq; simp [hget]
      · simp [hq, hoth q hq]
    have hwf : ∀ x ∈ l.filter (fun r => decide (r.toO ≠ a.toO)), x.fromO ≤ x.toO :=
      fun x hx => hS.trWf p l hg x (List.mem_filter.1 hx).1
    have h3 := sim_setSnap g s none p _ _ hS htr hwf (Or.inl rfl)
    rw [hbs]
    simp only [List.map_cons, List.map_nil, C08.sortByKey_single]
    have hnoany : (snapP (l.filter (fun r => decide (r.toO ≠ a.toO)))).any (fun r => decide (r.2 = a.toO)) = false := by
      rw [List.any_eq_false]
      intro x hx
      simp only [snapP, List.mem_map, List.mem_filter] at hx
      obtain ⟨r, ⟨_, hr⟩, rfl⟩ := hx
      simpa using hr
    -- after the completion no request of `p` ends at `a.toO`: the refresh reassigns
    have hch : changed (candidates { s with tracker := (Tracker.complete s.tracker p a.toO).1 }) s.active = true := by
      apply stale_changed _ { s with tracker := (Tracker.complete s.tracker p a.toO).1 } (some p) p a h3 ha
      intro r hr
      obtain ⟨l2, hl2, hrl⟩ := tracker_get_mem _ p r hr
      simp only at hl2
      rw [hget] at hl2; cases hl2
      simpa using (List.mem_filter.1 hrl).2
    obtain ⟨hs1, hs2⟩ := obsOf_refresh_changed { s with tracker := (Tracker.complete s.tracker p a.toO).1 } hch
    rw [hs1, hs2]
    by_cases hu : g.unknown.contains p = true
    · rw [delivered_unknown_assign g p off _ hu rfl rfl]
      simp only [applyBcasts_single]
      exact refreshPoint_changed _ _ (some p) h3 _ rfl
    · simp only [Bool.not_eq_true] at hu
      obtain ⟨rd, hrd, hra, hrt', hsh, _, hfr, hlow⟩ := reading_of_active g s p a hS ha hu
      rw [delivered_complete_spec g p off rd _ (snapP (l.filter (fun r => decide (r.toO ≠ a.toO)))) hu hrd (by omega) rfl rfl
        (by simp [lookupP_cons]) (by rw [hrt']; exact hnoany)]
      simp only [applyBcasts_single]
      exact refreshPoint_changed _ _ (some p) h3 _ rfl
  · -- nothing to close (the reader was tainted): only the refresh happens
    have hcs : (Tracker.complete s.tracker p a.toO).1 = s.tracker ∧ (Tracker.complete s.tracker p a.toO).2.1 = [] := by
      rw [hcmp]; exact ⟨rfl, rfl⟩
    rw [hcs.1, hcs.2]
    simp only [List.map_nil]
    have hsb : sortByKey ([] : PMap) = [] := rfl
    rw [hsb]
    have hSs : Sim none g { s with tracker := s.tracker } := hS
    by_cases hu : g.unknown.contains p = true
    · by_cases hch : changed (candidates { s with tracker := s.tracker }) s.active = true
      · obtain ⟨hs1, hs2⟩ := obsOf_refresh_changed { s with tracker := s.tracker } hch
        rw [hs1, hs2, delivered_unknown_assign g p off _ hu rfl rfl]
        simp only [applyBcasts_nil]
        exact refreshPoint_changed g _ none hSs _ rfl
      · simp only [Bool.not_eq_true] at hch
        obtain ⟨hs1, hs2⟩ := obsOf_refresh_unchanged { s with tracker := s.tracker } hch
        rw [hs1, hs2, delivered_unknown g p off _ hu rfl rfl]
        exact ⟨g, rfl, hSs⟩
    · simp only [Bool.not_eq_true] at hu
      obtain ⟨rd, hrd, hra, hrt', hsh, _, hfr, hlow⟩ := reading_of_active g s p a hS ha hu
      exfalso
      obtain ⟨r, rest, hg, hrt⟩ := tracker_head_of_fresh g s none p rd.toO hS hfr
      exact hnone ⟨r :: rest, hg, r, by simp, by omega⟩

theorem obsOf_empty : obsOf ({} : Out) = {} := by
  simp [obsOf, callStr, lastAssign, sortByKey]

/-- **a record delivered by the recovery client**, whatever it is: stale, inside the window, the last one, beyond the end -/
theorem delivered_sim (g : Ghost) (s : St) (p off : Int) (hS : Sim none g s) :
    ∃ g', delivered g p off (obsOf (recover s p off).2) = .ok g' ∧ Sim none g' (recover s p off).1 := by
  cases ha : s.active.get? p with
  | none =>
    have hr : recover s p off = (s, {}) := by simp [recover, ha]
    rw [hr, obsOf_empty]
    exact ⟨g, delivered_quiet g s p off hS (fun a h => by rw [ha] at h; cases h), hS⟩
  | some a =>
    by_cases h1 : off < a.fromO
    · have hr : recover s p off = (s, {}) := by simp [recover, ha, h1]
      rw [hr, obsOf_empty]
      exact ⟨g, delivered_quiet g s p off hS (fun a' h => by rw [ha] at h; cases h; exact h1), hS⟩
    · by_cases h2 : a.toO - off ≤ 0
      · exact delivered_complete g s p off a hS ha h1 h2
      · exact delivered_emit g s p off a hS ha h1 h2

theorem sim_cursor_set (g : Ghost) (s : St) (p c : Int) (hS : Sim none g s)
    (hc : ∀ a, s.active.get? p = some a → a.assignOff ≤ c) :
    Sim none { g with cursor := g.cursor.set p c } { s with cursor := s.cursor.set p c } := by
  refine ⟨hS.owned, hS.tr, ?_, hS.low, hS.rd_act, hS.fresh, hS.act_rd, hS.unk, hS.rd_nodup, hS.act_nodup, hS.act_shape, ?_,
    hS.lp, hS.lowOK, hS.trWf, hS.mr⟩
  · intro q
    simp only
    rw [set_get?_char, set_get?_char, hS.cursor q]
  · intro q a c' ha hc'
    simp only at hc' ha
    rw [set_get?_char] at hc'
    by_cases hq : q = p
    · subst hq; simp at hc'; subst hc'; exact hc a ha
    · simp only [hq, if_false] at hc'; exact hS.cur_ge q a c' ha hc'

theorem step_sim_msg (g : Ghost) (s : St) (p off : Int) (hS : Sim none g s) :
    ∃ g', specStep g (.msg p off) (obsOf (step s (.msg p off)).2) = .ok g' ∧ Sim none g' (step s (.msg p off)).1 := by
  simpa [step, specStep] using delivered_sim g s p off hS

theorem step_sim_poll (g : Ghost) (s : St) (p : Int) (hS : Sim none g s) :
    ∃ g', specStep g (.poll p) (obsOf (step s (.poll p)).2) = .ok g' ∧ Sim none g' (step s (.poll p)).1 := by
  cases hc : s.cursor.get? p with
  | none =>
    have hg : g.cursor.get? p = none := by rw [hS.cursor p]; exact hc
    refine ⟨g, ?_, ?_⟩
    · simp [step, specStep, hc, hg, obsOf_empty, noEmits]
    · simpa [step, hc] using hS
  | some off =>
    have hg : g.cursor.get? p = some off := by rw [hS.cursor p]; exact hc
    have hS' := sim_cursor_set g s p (off + 1) hS (fun a ha => by have := hS.cur_ge p a off ha hc; omega)
    obtain ⟨g', h1, h2⟩ := delivered_sim _ _ p off hS'
    refine ⟨g', ?_, ?_⟩
    · simpa [step, specStep, hc, hg] using h1
    · simpa [step, hc] using h2

/-! ### broker log truncation (`processError` for invalid-message / out-of-range) -/

/-- what the handling of one active partition writes into the tracker, as a function of that partition's entry only -/
def truncW (low : AList Int) (e : Option Snap) (pa : Int × Active) : Option Snap :=
  let lw := (low.get? pa.1).getD 0
  if pa.2.fromO < lw then
    if lw ≥ pa.2.toO then
      match e with
      | some l => if l.any (fun r => decide (r.toO = pa.2.toO)) then some (l.filter (fun r => decide (r.toO ≠ pa.2.toO))) else none
      | none => none
    else
      match e with
      | some (r :: rest) => if r.toO = pa.2.toO then some ({ r with fromO := lw } :: rest) else none
      | _ => none
  else none

def truncStep (low : AList Int) (acc : Store × List Bcast) (pa : Int × Active) : Store × List Bcast :=
  match truncW low (acc.1.get? pa.1) pa with
  | some l => (acc.1.set pa.1 l, acc.2 ++ [(pa.1, l)])
  | none => acc

theorem truncation_fold (s : St) :
    truncation s = ({ s with active := [], tracker := (s.active.foldl (truncStep s.low) (s.tracker, [])).1 },
      { bcasts := (s.active.foldl (truncStep s.low) (s.tracker, [])).2 }) := by
  unfold truncation
  have hstep : (fun (acc : Store × List Bcast) (pa : Int × Active) =>
      let low := (s.low.get? pa.1).getD 0
      if pa.2.fromO < low then
        if low ≥ pa.2.toO then
          let (tr, bs, _) := Tracker.complete acc.1 pa.1 pa.2.toO
          (tr, acc.2 ++ bs)
        else
          let (tr, bs, _) := Tracker.update acc.1 pa.1 low pa.2.toO
          (tr, acc.2 ++ bs)
      else acc) = truncStep s.low := by
    funext acc pa
    simp only [truncStep, truncW]
    by_cases h1 : pa.2.fromO < (s.low.get? pa.1).getD 0
    · simp only [h1, if_true]
      by_cases h2 : (s.low.get? pa.1).getD 0 ≥ pa.2.toO
      · simp only [h2, if_true, Tracker.complete]
        cases hg : acc.1.get? pa.1 with
        | none => simp
        | some l => by_cases ha : l.any (fun r => decide (r.toO = pa.2.toO)) = true <;> simp [ha]
      · simp only [h2, if_false, Tracker.update]
        cases hg : acc.1.get? pa.1 with
        | none => simp
        | some l =>
          cases l with
          | nil => simp
          | cons r rest => by_cases ht : r.toO = pa.2.toO <;> simp [ht]
    · simp [h1]
  rw [hstep]

theorem filterMap_congr' {α β} (l : List α) (f g : α → Option β) (h : ∀ x ∈ l, f x = g x) : l.filterMap f = l.filterMap g := by
  induction l with
  | nil => rfl
  | cons x xs ih =>
    simp only [List.filterMap_cons, h x (by simp)]
    rw [ih (fun y hy => h y (List.mem_cons_of_mem _ hy))]

/-- the writes of a truncation: per active partition, against the tracker as it was before -/
def truncWrites (low : AList Int) (t0 : Store) (acts : AList Active) : List Bcast :=
  acts.filterMap (fun pa => (truncW low (t0.get? pa.1) pa).map (fun l => (pa.1, l)))

theorem trunc_fold_char (low : AList Int) (acts : AList Active) :
    ∀ (t0 : Store) (b0 : List Bcast), (acts.map (·.1)).Nodup →
    (acts.foldl (truncStep low) (t0, b0)).2 = b0 ++ truncWrites low t0 acts ∧
    (∀ q, (acts.foldl (truncStep low) (t0, b0)).1.get? q =
      match AList.get? (truncWrites low t0 acts) q with
      | some l => some l
      | none => t0.get? q) := by
  induction acts with
  | nil => intro t0 b0 _; simp [truncWrites, AList.get?]
  | cons pa rest ih =>
    intro t0 b0 hnd
    have hnd' : pa.1 ∉ rest.map (·.1) ∧ (rest.map (·.1)).Nodup := by
      rw [List.map_cons] at hnd; exact List.nodup_cons.1 hnd
    simp only [List.foldl_cons]
    have hsame : ∀ t1 : Store, (∀ q, q ≠ pa.1 → t1.get? q = t0.get? q) → truncWrites low t1 rest = truncWrites low t0 rest := by
      intro t1 h
      unfold truncWrites
      apply filterMap_congr'
      intro pb hpb
      have : pb.1 ≠ pa.1 := fun e => hnd'.1 (by rw [← e]; exact List.mem_map.2 ⟨pb, hpb, rfl⟩)
      rw [h pb.1 this]
    have hnotin : AList.get? (truncWrites low t0 rest) pa.1 = none := by
      cases hg : AList.get? (truncWrites low t0 rest) pa.1 with
      | none => rfl
      | some l =>
        exfalso
        have hm := get?_mem' _ _ _ hg
        unfold truncWrites at hm
        obtain ⟨pb, hpb, hb'⟩ := List.mem_filterMap.1 hm
        cases hw : truncW low (t0.get? pb.1) pb with
        | none => simp [hw] at hb'
        | some l' =>
          simp [hw] at hb'
          exact hnd'.1 (by rw [← hb'.1]; exact List.mem_map.2 ⟨pb, hpb, rfl⟩)
    cases hw : truncW low (t0.get? pa.1) pa with
    | none =>
      have hts : truncStep low (t0, b0) pa = (t0, b0) := by simp [truncStep, hw]
      rw [hts]
      obtain ⟨h1, h2⟩ := ih t0 b0 hnd'.2
      have htw : truncWrites low t0 (pa :: rest) = truncWrites low t0 rest := by simp [truncWrites, hw]
      rw [htw]; exact ⟨h1, h2⟩
    | some l =>
      have hts : truncStep low (t0, b0) pa = (t0.set pa.1 l, b0 ++ [(pa.1, l)]) := by simp [truncStep, hw]
      rw [hts]
      obtain ⟨h1, h2⟩ := ih (t0.set pa.1 l) (b0 ++ [(pa.1, l)]) hnd'.2
      have hs := hsame (t0.set pa.1 l) (fun q hq => AList.get?_set_ne _ _ _ _ hq)
      have htw : truncWrites low t0 (pa :: rest) = (pa.1, l) :: truncWrites low t0 rest := by simp [truncWrites, hw]
      rw [htw]
      refine ⟨by rw [h1, hs]; simp, ?_⟩
      intro q
      rw [h2 q, hs]
      simp only [AList.get?]
      by_cases hq : pa.1 = q
      · subst hq; simp [hnotin]
      · have hq' : q ≠ pa.1 := fun e => hq e.symm
        simp only [hq, if_false]
        rw [AList.get?_set_ne _ _ _ _ hq']

theorem truncWrites_nodup (low : AList Int) (t0 : Store) (acts : AList Active) (h : (acts.map (·.1)).Nodup) :
    ((truncWrites low t0 acts).map (·.1)).Nodup := by
  induction acts with
  | nil => simp [truncWrites]
  | cons pa rest ih =>
    have hnd' : pa.1 ∉ rest.map (·.1) ∧ (rest.map (·.1)).Nodup := by
      rw [List.map_cons] at h; exact List.nodup_cons.1 h
    cases hw : truncW low (t0.get? pa.1) pa with
    | none =>
      have : truncWrites low t0 (pa :: rest) = truncWrites low t0 rest := by simp [truncWrites, hw]
      rw [this]; exact ih hnd'.2
    | some l =>
      have : truncWrites low t0 (pa :: rest) = (pa.1, l) :: truncWrites low t0 rest := by simp [truncWrites, hw]
      rw [this, List.map_cons, List.nodup_cons]
      refine ⟨?_, ih hnd'.2⟩
      intro hm
      obtain ⟨b, hb, hbk⟩ := List.mem_map.1 hm
      unfold truncWrites at hb
      obtain ⟨pb, hpb, hb'⟩ := List.mem_filterMap.1 hb
      cases hw2 : truncW low (t0.get? pb.1) pb with
      | none => simp [hw2] at hb'
      | some l' =>
        simp [hw2] at hb'; subst hb'
        exact hnd'.1 (by rw [← hbk]; exact List.mem_map.2 ⟨pb, hpb, rfl⟩)

def applyW (t : Store) (W : List Bcast) : Store := W.foldl (fun t w => t.set w.1 w.2) t

theorem applyW_get? (W : List Bcast) : ∀ (t : Store), (W.map (·.1)).Nodup →
    ∀ q, (applyW t W).get? q = match AList.get? W q with | some l => some l | none => t.get? q := by
  induction W with
  | nil => intro t _ q; simp [applyW, AList.get?]
  | cons w rest ih =>
    intro t hnd q
    obtain ⟨k, v⟩ := w
    have hnd' : k ∉ rest.map (·.1) ∧ (rest.map (·.1)).Nodup := by
      rw [List.map_cons] at hnd; exact List.nodup_cons.1 hnd
    have : applyW t ((k, v) :: rest) = applyW (t.set k v) rest := rfl
    rw [this, ih (t.set k v) hnd'.2 q]
    simp only [AList.get?]
    by_cases hk : k = q
    · subst hk
      have hn : AList.get? rest k = none := by
        cases hg : AList.get? rest k with
        | none => rfl
        | some l => exact absurd ((mem_keys_iff rest k).2 (by simp [hg])) hnd'.1
      simp [hn]
    · have hq : q ≠ k := fun e => hk e.symm
      simp only [hk, if_false]
      rw [AList.get?_set_ne _ _ _ _ hq]

theorem sim_tracker_ext (g : Ghost) (s : St) (st : Option Int) (tr' : Store) (hS : Sim st g s)
    (h : ∀ q, tr'.get? q = s.tracker.get? q) : Sim st g { s with tracker := tr' } :=
  ⟨hS.owned, fun q => by rw [hS.tr q]; simp only; rw [h q], hS.cursor, hS.low, hS.rd_act, hS.fresh, hS.act_rd, hS.unk, hS.rd_nodup,
    hS.act_nodup, hS.act_shape, hS.cur_ge, hS.lp, hS.lowOK, fun q l hq => hS.trWf q l (by simp only at hq; rw [h q] at hq; exact hq), hS.mr⟩

/-- a batch of tracker writes seen by a monitor that is not reading anything -/
theorem sim_writes (W : List Bcast) : ∀ (g : Ghost) (s : St), Sim none g s → g.reading = [] →
    (∀ w ∈ W, ∀ r ∈ w.2, r.fromO ≤ r.toO) →
    Sim none (g.applyBcasts (W.map (fun b => (b.1, snapP b.2)))) { s with tracker := applyW s.tracker W } ∧
    (g.applyBcasts (W.map (fun b => (b.1, snapP b.2)))).reading = [] := by
  induction W with
  | nil => intro g s hS hr _; exact ⟨hS, hr⟩
  | cons w rest ih =>
    intro g s hS hr hwf
    obtain ⟨k, v⟩ := w
    have h1 := sim_setSnap g s none k v (s.tracker.set k v) hS (set_get?_char _ _ _) (hwf (k, v) (by simp)) (Or.inl rfl)
    have hr1 : (g.setSnap k (snapP v)).reading = [] := by rw [(setSnap_frame g k _).2.1]; exact hr
    have h2 := sim_unstale _ _ k h1 (by rw [hr1]; rfl)
    obtain ⟨h3, h4⟩ := ih (g.setSnap k (snapP v)) { s with tracker := s.tracker.set k v } h2 hr1
      (fun w hw => hwf w (List.mem_cons_of_mem _ hw))
    exact ⟨h3, h4⟩

theorem sortByKey_map_val {α β} (m : List (Int × α)) (f : α → β) :
    sortByKey (m.map (fun b => (b.1, f b.2))) = (sortByKey m).map (fun b => (b.1, f b.2)) := by
  induction m with
  | nil => rfl
  | cons kv rest ih =>
    have h1 : sortByKey (kv :: rest) = sortByKey.ins kv (sortByKey rest) := rfl
    have h2 : sortByKey ((kv.1, f kv.2) :: rest.map (fun b => (b.1, f b.2))) =
        sortByKey.ins (kv.1, f kv.2) (sortByKey (rest.map (fun b => (b.1, f b.2)))) := rfl
    rw [List.map_cons, h2, h1, ih]
    generalize sortByKey rest = acc
    induction acc with
    | nil => simp [sortByKey.ins]
    | cons y ys ihy =>
      by_cases hle : kv.1 ≤ y.1
      · simp [sortByKey.ins, hle]
      · simp [sortByKey.ins, hle, ihy]

theorem applyBcasts_reading (bs : PMap) : ∀ (g : Ghost), (g.applyBcasts bs).reading = g.reading := by
  induction bs with
  | nil => intro g; rfl
  | cons b rest ih =>
    intro g
    have : g.applyBcasts (b :: rest) = (g.setSnap b.1 b.2).applyBcasts rest := rfl
    rw [this, ih, (setSnap_frame g b.1 b.2).2.1]

theorem setSnap_reading_comm (g : Ghost) (p : Int) (l : PSnap) (r : AList Reading) :
    ({ g with reading := r } : Ghost).setSnap p l = { (g.setSnap p l) with reading := r } := by
  unfold Ghost.setSnap
  cases l.head? with
  | none => rfl
  | some ft =>
    obtain ⟨f, t⟩ := ft
    cases headOf g.tr p with
    | none => rfl
    | some ft' => obtain ⟨f', t'⟩ := ft'; by_cases h : t = t' <;> simp [h]

theorem applyBcasts_reading_comm (bs : PMap) : ∀ (g : Ghost) (r : AList Reading),
    ({ g with reading := r } : Ghost).applyBcasts bs = { (g.applyBcasts bs) with reading := r } := by
  induction bs with
  | nil => intro g r; rfl
  | cons b rest ih =>
    intro g r
    have h1 : ({ g with reading := r } : Ghost).applyBcasts (b :: rest) = (({ g with reading := r } : Ghost).setSnap b.1 b.2).applyBcasts rest := rfl
    have h2 : g.applyBcasts (b :: rest) = (g.setSnap b.1 b.2).applyBcasts rest := rfl
    rw [h1, h2, setSnap_reading_comm, ih]

theorem truncW_wf (low : AList Int) (e : Option Snap) (pa : Int × Active) (l : Snap)
    (hwf : ∀ l0, e = some l0 → ∀ r ∈ l0, r.fromO ≤ r.toO) (h : truncW low e pa = some l) : ∀ r ∈ l, r.fromO ≤ r.toO := by
  unfold truncW at h
  simp only at h
  split at h
  · split at h
    · cases e with
      | none => simp at h
      | some l0 =>
        simp only at h
        split at h
        · cases h
          intro r hr; exact hwf l0 rfl r (List.mem_filter.1 hr).1
        · cases h
    · cases e with
      | none => simp at h
      | some l0 =>
        cases l0 with
        | nil => simp at h
        | cons r0 rest =>
          simp only at h
          split at h
          · cases h
            intro r hr
            rcases List.mem_cons.1 hr with h' | h'
            · subst h'; simp only; omega
            · exact hwf (r0 :: rest) rfl r (List.mem_cons_of_mem _ h')
          · cases h
  · cases h

theorem mem_truncWrites (low : AList Int) (t0 : Store) (acts : AList Active) (p : Int) (a : Active) (l : Snap)
    (ha : (p, a) ∈ acts) (hw : truncW low (t0.get? p) (p, a) = some l) : (p, l) ∈ truncWrites low t0 acts := by
  unfold truncWrites
  exact List.mem_filterMap.2 ⟨(p, a), ha, by simp [hw]⟩

theorem step_sim_trunc (g : Ghost) (s : St) (hS : Sim none g s) :
    ∃ g', specStep g (.kerr true) (obsOf (step s (.kerr true)).2) = .ok g' ∧ Sim none g' (step s (.kerr true)).1 := by
  obtain ⟨hbs, htr⟩ := trunc_fold_char s.low s.active s.tracker [] hS.act_nodup
  simp only [List.nil_append] at hbs
  have hWnd := truncWrites_nodup s.low s.tracker s.active hS.act_nodup
  have hstep : step s (.kerr true) = ({ s with active := [], tracker := (s.active.foldl (truncStep s.low) (s.tracker, [])).1 },
      { bcasts := truncWrites s.low s.tracker s.active }) := by
    simp only [step, truncation_fold, hbs]
  have hobs : obsOf (step s (.kerr true)).2 =
      { bcasts := sortByKey ((truncWrites s.low s.tracker s.active).map (fun b => (b.1, snapP b.2))) } := by
    rw [hstep]; simp [obsOf, callStr, lastAssign]
  have hlook : ∀ q, lookupP (sortByKey ((truncWrites s.low s.tracker s.active).map (fun b => (b.1, snapP b.2)))) q =
      (AList.get? (truncWrites s.low s.tracker s.active) q).map snapP := by
    intro q
    rw [C08.lookupP_sortByKey _ q (by simpa [List.map_map, Function.comp_def] using hWnd)]
    exact C08.lookupP_pm _ q
  -- no reader is left without its truncation being handled
  have hbad : g.reading.findSome? (truncBad g { bcasts := sortByKey ((truncWrites s.low s.tracker s.active).map (fun b => (b.1, snapP b.2))) }) = none := by
    rw [List.findSome?_eq_none_iff]
    intro pr hpr
    obtain ⟨p, rd⟩ := pr
    have hrd : g.reading.get? p = some rd := get?_of_mem_nodup _ p rd hpr hS.rd_nodup
    obtain ⟨a, ha, hao, hat⟩ := hS.rd_act p rd hrd
    obtain ⟨hsh1, hsh2⟩ := hS.act_shape p a ha
    obtain ⟨hfr, _⟩ := hS.fresh p rd hrd (by simp)
    obtain ⟨r, rest, hg, hrt⟩ := tracker_head_of_fresh g s none p rd.toO hS hfr
    unfold truncBad
    simp only
    by_cases hcl : (g.cursor.get? p).getD rd.assignOff < (g.low.get? p).getD 0
    · simp only [hcl, if_true]
      have hcur : a.assignOff ≤ (g.cursor.get? p).getD rd.assignOff := by
        rw [hS.cursor p]
        cases hc : s.cursor.get? p with
        | none => simp; omega
        | some c => simp; exact hS.cur_ge p a c ha hc
      have hlt : a.fromO < (s.low.get? p).getD 0 := by rw [← hS.low]; omega
      rw [hlook p]
      by_cases hge : (s.low.get? p).getD 0 ≥ a.toO
      · have hw : truncW s.low (s.tracker.get? p) (p, a) = some ((r :: rest).filter (fun x => decide (x.toO ≠ a.toO))) := by
          have hany : (r :: rest).any (fun x => decide (x.toO = a.toO)) = true := by simp [hrt, hat]
          simp [truncW, hlt, hge, hg, hany]
        have hm := mem_truncWrites s.low s.tracker s.active p a _ (get?_mem' _ _ _ ha) hw
        rw [get?_of_mem_nodup _ p _ hm hWnd]
        have hge' : (g.low.get? p).getD 0 ≥ rd.toO := by rw [hS.low]; omega
        simp only [Option.map_some, hge', if_true]
        have : (snapP ((r :: rest).filter (fun x => decide (x.toO ≠ a.toO)))).any (fun x => decide (x.2 = rd.toO)) = false := by
          rw [List.any_eq_false]
          intro x hx
          simp only [snapP, List.mem_map, List.mem_filter] at hx
          obtain ⟨y, ⟨_, hy⟩, rfl⟩ := hx
          have hy' : y.toO ≠ a.toO := by simpa using hy
          simp only [decide_eq_true_eq]
          omega
        rw [this]; simp
      · have hw : truncW s.low (s.tracker.get? p) (p, a) = some ({ r with fromO := (s.low.get? p).getD 0 } :: rest) := by
          unfold truncW
          simp only [hlt, if_true, hge, if_false, hg]
          have : r.toO = a.toO := by omega
          simp [this]
        have hm := mem_truncWrites s.low s.tracker s.active p a _ (get?_mem' _ _ _ ha) hw
        rw [get?_of_mem_nodup _ p _ hm hWnd]
        have hge' : ¬ ((g.low.get? p).getD 0 ≥ rd.toO) := by rw [hS.low]; omega
        simp only [Option.map_some, hge', if_false]
        simp [snapP, hS.low, hrt]
    · simp [hcl]
  refine ⟨{ (g.applyBcasts (sortByKey ((truncWrites s.low s.tracker s.active).map (fun b => (b.1, snapP b.2))))) with reading := [] }, ?_, ?_⟩
  · rw [hobs]
    simp only [specStep, noEmits, List.isEmpty_nil, Bool.and_self, Bool.not_true, Bool.false_eq_true, if_false, hbad]
  · rw [hstep]
    -- the monitor without readers, the model without active partitions
    have hS0 : Sim none ({ g with reading := [] } : Ghost) { s with active := [] } := by
      refine ⟨hS.owned, hS.tr, hS.cursor, hS.low, ?_, ?_, ?_, ?_, by simp, by simp, ?_, ?_, hS.lp, hS.lowOK, hS.trWf, hS.mr⟩
      · intro q rd h; simp [AList.get?] at h
      · intro q rd h; simp [AList.get?] at h
      · intro q _; left; simp [AList.get?]
      · intro q _; simp [AList.get?]
      · intro q a h; simp [AList.get?] at h
      · intro q a c h; simp [AList.get?] at h
    have hwfW : ∀ w ∈ sortByKey (truncWrites s.low s.tracker s.active), ∀ r ∈ w.2, r.fromO ≤ r.toO := by
      intro w hw r hr
      have hw' := (C08.mem_sortByKey _ w).1 hw
      unfold truncWrites at hw'
      obtain ⟨pa, _, hpa⟩ := List.mem_filterMap.1 hw'
      cases hq : truncW s.low (s.tracker.get? pa.1) pa with
      | none => simp [hq] at hpa
      | some l =>
        simp [hq] at hpa; subst hpa
        exact truncW_wf s.low _ pa l (fun l0 hl0 => hS.trWf pa.1 l0 hl0) hq r hr
    obtain ⟨h1, _⟩ := sim_writes (sortByKey (truncWrites s.low s.tracker s.active)) _ _ hS0 rfl hwfW
    rw [← sortByKey_map_val, applyBcasts_reading_comm] at h1
    have hext : ∀ q, (s.active.foldl (truncStep s.low) (s.tracker, [])).1.get? q =
        (applyW s.tracker (sortByKey (truncWrites s.low s.tracker s.active))).get? q := by
      intro q
      have hp := perm_sortByKey (truncWrites s.low s.tracker s.active)
      have hnd2 : ((sortByKey (truncWrites s.low s.tracker s.active)).map (·.1)).Nodup :=
        (List.Perm.nodup_iff (List.Perm.map (·.1) hp)).2 hWnd
      rw [htr q, applyW_get? _ _ hnd2 q, get?_of_perm _ _ hp hnd2 q]
    exact sim_tracker_ext _ _ none _ h1 hext

/-! ### every operation, every history -/

theorem step_sim (g : Ghost) (s : St) (op : Op) (hS : Sim none g s) (hsc : opInScope op = true) :
    ∃ g', specStep g op (obsOf (step s op).2) = .ok g' ∧ Sim none g' (step s op).1 := by
  cases op with
  | poll p => exact step_sim_poll g s p hS
  | msg p o => exact step_sim_msg g s p o hS
  | refresh => exact step_sim_refresh g s hS
  | revoke => exact step_sim_revoke g s hS
  | kerr b =>
    cases b with
    | true => exact step_sim_trunc g s hS
    | false => exact step_sim_easy g s (.kerr false) hS hsc trivial
  | main p o => exact step_sim_easy g s _ hS hsc trivial
  | setLow p v => exact step_sim_easy g s _ hS hsc trivial
  | own ps => exact step_sim_easy g s _ hS hsc trivial
  | req p f t => exact step_sim_easy g s _ hS hsc trivial
  | recv p l => exact step_sim_easy g s _ hS hsc trivial
  | crash => exact step_sim_easy g s _ hS hsc trivial

theorem run_sim (ops : List Op) : ∀ (g : Ghost) (s : St), Sim none g s → ops.all opInScope = true →
    specRun g ops ((run s ops).2.map obsOf) = none := by
  induction ops with
  | nil => intro g s _ _; rfl
  | cons op ops ih =>
    intro g s hS hsc
    simp only [List.all_cons, Bool.and_eq_true] at hsc
    obtain ⟨g', h1, h2⟩ := step_sim g s op hS hsc.1
    simp only [run, List.map_cons, specRun, h1]
    exact ih g' (step s op).1 h2 hsc.2

/-- **bridge for C07 and C09**: for every configuration (`parallelrecoverymaxrecords` between 0 and 2⁶³, any progress
interval) and every in-scope history of polls, stale records, main-consumer records, truncation errors, refreshes,
assignments, revocations, requests, foreign snapshots and crashes, the model's own observation passes the monitor that
judges the real recovery consumer: every window record is emitted exactly once and flagged, nothing outside a window and
nothing for a partition not in recovery is emitted, completions and progress points are broadcast and never run ahead of
what was emitted, truncation closes or restarts requests, and at every refresh point the client reads exactly the owned
partitions with an outstanding request, each from a point that loses nothing and repeats nothing from below the request -/
theorem spec_holds (mr ue : Int) (hmr : 0 ≤ mr ∧ mr ≤ 2^63) (ops : List Op) (hsc : ops.all opInScope = true) :
    specRun {} ops ((run { maxRecords := mr, updateEvery := ue } ops).2.map obsOf) = none :=
  run_sim ops {} _ (sim_init mr ue hmr) hsc

/-- non-vacuity: an in-scope history with a request, a refresh, window records, a completion, a revocation and a crash -/
example : ([.own [0, 1], .req 0 10 13, .refresh, .poll 0, .poll 0, .poll 0, .poll 0, .req 1 5 9, .refresh, .poll 1, .revoke, .poll 1,
    .crash, .own [1], .refresh, .poll 1, .kerr true, .recv 1 [⟨7, 9⟩], .msg 1 3, .main 0 4] : List Op).all opInScope = true := by
  decide

end Firebolt.Recovery
