import Firebolt.TransExpected
import Firebolt.Properties.TransBase
import Firebolt.Model.Recovery
import Firebolt.Generated.Source
import Firebolt.Expected.Source
import Firebolt.Generated.Closure
import Firebolt.Expected.Closure
/-!
# C07 — Parallel recovery emits the whole requested window and nothing outside it

Theorems about `Model/Recovery.lean` (the transcription of `recoverSingleEvent`, `processError`, the main consumer's
`processEvent`), for every state, every record and every run length.  The window is `[from, to)`.
-/
namespace Firebolt.C07
open Firebolt Firebolt.Recovery

/-- a record of a partition that is not under recovery changes nothing and emits nothing
(stale records of earlier assignments, records arriving after revocation) -/
theorem inactive_silent (s : St) (p o : Int) (h : s.active.get? p = none) :
    recover s p o = (s, {}) := by
  unfold recover; simp [h]

/-- records below `from` are dropped -/
theorem below_from_silent (s : St) (p o : Int) (a : Active) (h : s.active.get? p = some a) (ho : o < a.fromO) :
    recover s p o = (s, {}) := by
  unfold recover; simp [h, ho]

/-- **exact emission**: a delivered record is emitted exactly when it lies in `[from, to)` of the partition's active
window — then once, flagged as recovery, at the cost of one limiter token — and nothing else is ever emitted -/
theorem recover_emits (s : St) (p o : Int) (a : Active) (h : s.active.get? p = some a) :
    (recover s p o).2.emits = if a.fromO ≤ o ∧ o < a.toO then [⟨p, o, true⟩] else [] := by
  unfold recover
  simp only [h]
  by_cases h1 : o < a.fromO
  · have : ¬ (a.fromO ≤ o ∧ o < a.toO) := by omega
    simp [h1, this]
  · simp only [h1, if_false]
    by_cases h2 : a.toO - o ≤ 0
    · have : ¬ (a.fromO ≤ o ∧ o < a.toO) := by omega
      simp only [h2, if_true, this, if_false]
      simp only [Out.append, refresh]
      split <;> simp
    · have : a.fromO ≤ o ∧ o < a.toO := by omega
      simp only [h2, if_false, this, and_self, if_true]
      split <;> simp

/-- each emission consumes exactly one token of the single rate limiter (C19 wiring) -/
theorem recover_tokens (s : St) (p o : Int) :
    (recover s p o).1.granted = s.granted + (recover s p o).2.emits.length := by
  unfold recover
  cases h : s.active.get? p with
  | none => simp
  | some a =>
    simp only []
    by_cases h1 : o < a.fromO
    · simp [h1]
    · simp only [h1, if_false]
      by_cases h2 : a.toO - o ≤ 0
      · simp only [h2, if_true, Out.append, refresh]
        split <;> simp
      · simp only [h2, if_false]
        split <;> simp

/-- **completion**: the first delivered record at or beyond `to` (hence at the latest the first one greater than `to`)
marks the request complete — every request of the partition ending at `to` leaves the tracker, the new snapshot is
broadcast — and refreshes the assignments; nothing is emitted -/
theorem completes_at_end (s : St) (p o : Int) (a : Active) (h : s.active.get? p = some a)
    (h1 : a.fromO ≤ o) (h2 : a.toO ≤ o) :
    recover s p o =
      ((refresh { s with tracker := (Tracker.complete s.tracker p a.toO).1 }).1,
       Out.append { bcasts := (Tracker.complete s.tracker p a.toO).2.1 }
                  (refresh { s with tracker := (Tracker.complete s.tracker p a.toO).1 }).2) := by
  unfold recover
  have h3 : ¬ o < a.fromO := by omega
  have h4 : a.toO - o ≤ 0 := by omega
  simp [h, h3, h4]

/-- after completion the request is gone: no request ending at `to` remains for the partition -/
theorem complete_removes (tr : Tracker.Store) (p t : Int) (l : Tracker.Snap) (h : tr.get? p = some l) (hex : ∃ r ∈ l, r.toO = t) :
    ∀ l', (Tracker.complete tr p t).1.get? p = some l' → ∀ r ∈ l', r.toO ≠ t := by
  intro l' hl' r hr
  unfold Tracker.complete at hl'
  have hany : l.any (fun r => decide (r.toO = t)) = true := by
    obtain ⟨r0, hr0, e⟩ := hex
    exact List.any_eq_true.2 ⟨r0, hr0, by simpa using e⟩
  simp [h, hany] at hl'
  subst hl'
  have := (List.mem_filter.1 hr).2
  simpa using this

/-- events of the main consumer are emitted once and never flagged; recovery emissions are always flagged -/
theorem flags (s : St) (op : Op) :
    (∀ e ∈ (step s op).2.emits, e.recovery = false ↔ ∃ p o, op = .main p o) := by
  intro e he
  cases op with
  | main p o => simp [step] at he; subst he; simp
  | poll p =>
    simp only [step] at he
    cases hc : s.cursor.get? p with
    | none => simp [hc] at he
    | some o =>
      simp only [hc] at he
      cases ha : ({ s with cursor := s.cursor.set p (o + 1) } : St).active.get? p with
      | none => rw [inactive_silent _ p o ha] at he; simp at he
      | some a =>
        have := recover_emits { s with cursor := s.cursor.set p (o + 1) } p o a ha
        rw [this] at he
        split at he <;> simp at he
        subst he; simp
  | msg p o =>
    simp only [step] at he
    cases ha : s.active.get? p with
    | none => rw [inactive_silent _ p o ha] at he; simp at he
    | some a =>
      rw [recover_emits s p o a ha] at he
      split at he <;> simp at he
      subst he; simp
  | kerr b => cases b <;> simp [step, truncation] at he
  | setLow p v => simp [step] at he
  | refresh => simp only [step, Recovery.refresh] at he; split at he <;> simp at he
  | own ps => simp [step] at he
  | revoke => simp only [step, Recovery.refresh] at he; split at he <;> simp at he
  | req p f t => simp [step, request] at he
  | recv p l => simp [step] at he
  | crash => simp [step] at he

/-- a progress snapshot never runs ahead of what was emitted: it is broadcast in the same step as the emission of the
record it names -/
theorem progress_le_emitted (s : St) (p o : Int) (a : Active) (h : s.active.get? p = some a)
    (h1 : a.fromO ≤ o) (h2 : o < a.toO) :
    (recover s p o).2.emits = [⟨p, o, true⟩] ∧
    ((recover s p o).2.bcasts = [] ∨ (recover s p o).2.bcasts = (Tracker.update s.tracker p o a.toO).2.1) := by
  refine ⟨by rw [recover_emits s p o a h]; simp [h1, h2], ?_⟩
  unfold recover
  have h3 : ¬ o < a.fromO := by omega
  have h4 : ¬ a.toO - o ≤ 0 := by omega
  simp only [h, h3, h4, if_false]
  split <;> simp

/-- truncation: every active partition whose window start is below the low watermark is either closed (nothing of the
window is left) or restarted from the low watermark; the active set is emptied until the next refresh; nothing is emitted -/
theorem truncation_shape (s : St) :
    (truncation s).1.active = [] ∧ (truncation s).2.emits = [] ∧ (truncation s).2.calls = [] := by
  unfold truncation; simp

/-- one active partition, the step of `truncation` in isolation -/
theorem truncation_one (s : St) (p : Int) (a : Active) (h : s.active = [(p, a)]) :
    let low := (s.low.get? p).getD 0
    (truncation s).1.tracker =
      if a.fromO < low then
        (if low ≥ a.toO then (Tracker.complete s.tracker p a.toO).1 else (Tracker.update s.tracker p low a.toO).1)
      else s.tracker := by
  unfold truncation
  simp only [h, List.foldl_cons, List.foldl_nil]
  by_cases h1 : a.fromO < (s.low.get? p).getD 0
  · by_cases h2 : (s.low.get? p).getD 0 ≥ a.toO <;> simp [h1, h2]
  · simp [h1]

/-! ### whole windows -/

/-- `n` consecutive polls of partition `p` -/
def polls (p : Int) (n : Nat) : List Op := List.replicate n (.poll p)

def emitsOf (outs : List Out) : List Emit := outs.flatMap (·.emits)

/-- the state facts a run of polls relies on -/
structure Reading (s : St) (p x t : Int) : Prop where
  act : ∃ a, s.active.get? p = some a ∧ a.fromO ≤ x ∧ a.toO = t
  cur : s.cursor.get? p = some x

theorem recover_keeps_active_in_window (s : St) (p o : Int) (a : Active) (h : s.active.get? p = some a)
    (h1 : a.fromO ≤ o) (h2 : o < a.toO) :
    (recover s p o).1.active = s.active ∧ (recover s p o).1.cursor = s.cursor := by
  unfold recover
  have h3 : ¬ o < a.fromO := by omega
  have h4 : ¬ a.toO - o ≤ 0 := by omega
  simp only [h, h3, h4, if_false]
  split <;> simp

/-- **window theorem**: from a state in which the client reads partition `p` at `x` inside the window ending at `t`,
`n ≤ t - x` consecutive polls emit exactly the records `x, x+1, …, x+n-1`, each once, in order, flagged —
so a reader that is not interrupted emits the whole remaining window `[x, t)` and nothing else -/
theorem window_run (n : Nat) : ∀ (s : St) (p x t : Int), Reading s p x t → x + n ≤ t →
    emitsOf (run s (polls p n)).2 = (List.range n).map (fun (i : Nat) => (⟨p, x + (i : Int), true⟩ : Emit)) ∧
    Reading (run s (polls p n)).1 p (x + n) t := by
  induction n with
  | zero =>
    intro s p x t hr _
    simp [polls, run, emitsOf]
    simpa using hr
  | succ n ih =>
    intro s p x t hr hle
    obtain ⟨⟨a, ha, hax, hat⟩, hc⟩ := hr
    have hxt : x < t := by omega
    simp only [polls, List.replicate_succ, run, step, hc]
    let s1 : St := { s with cursor := s.cursor.set p (x + 1) }
    have ha1 : s1.active.get? p = some a := ha
    have hem := recover_emits s1 p x a ha1
    have hkeep := recover_keeps_active_in_window s1 p x a ha1 hax (by omega)
    have hin : a.fromO ≤ x ∧ x < a.toO := ⟨hax, by omega⟩
    simp only [hin, and_self, if_true] at hem
    have hr' : Reading (recover s1 p x).1 p (x + 1) t := by
      refine ⟨⟨a, ?_, by omega, hat⟩, ?_⟩
      · rw [hkeep.1]; exact ha1
      · rw [hkeep.2]; simp [s1]
    have := ih (recover s1 p x).1 p (x + 1) t hr' (by omega)
    obtain ⟨ih1, ih2⟩ := this
    refine ⟨?_, ?_⟩
    · simp only [emitsOf, List.flatMap_cons]
      rw [hem]
      simp only [emitsOf, polls] at ih1
      rw [ih1]
      simp only [List.range_succ_eq_map, List.map_cons, List.map_map]
      simp only [List.singleton_append, List.cons.injEq]
      refine ⟨by simp, ?_⟩
      apply List.map_congr_left
      intro i _
      simp only [Function.comp]
      congr 1
      omega
    · have e : x + ((n : Nat) + 1 : Nat) = x + 1 + n := by omega
      simp only [polls] at ih2
      rw [show (x + ((n + 1 : Nat) : Int)) = x + 1 + (n : Int) by omega]
      exact ih2

/-- non-vacuity: a concrete reader state satisfies the premises, and the run emits the window -/
example :
    let s : St := { maxRecords := 1000, updateEvery := 5, owned := [0], active := [(0, ⟨10, 10, 14⟩)],
                    tracker := [(0, [⟨10, 14⟩])], cursor := [(0, 10)] }
    emitsOf (run s (polls 0 4)).2 = [⟨0, 10, true⟩, ⟨0, 11, true⟩, ⟨0, 12, true⟩, ⟨0, 13, true⟩] ∧
    (run s (polls 0 5)).1.tracker.get? 0 = some ([] : Tracker.Snap) := by
  decide


/-! ### the functions this model was transcribed from are unchanged (regenerated from /repo on every run) -/
theorem source_rcHandleEvents : GeneratedSrc.rcHandleEvents = ExpectedSrc.rcHandleEvents := by rfl
theorem source_rcProcessEvent : GeneratedSrc.rcProcessEvent = ExpectedSrc.rcProcessEvent := by rfl
theorem source_rcProcessError : GeneratedSrc.rcProcessError = ExpectedSrc.rcProcessError := by rfl
theorem source_rcRecoverSingleEvent : GeneratedSrc.rcRecoverSingleEvent = ExpectedSrc.rcRecoverSingleEvent := by rfl
theorem source_kcProcessEvent : GeneratedSrc.kcProcessEvent = ExpectedSrc.kcProcessEvent := by rfl
theorem source_setActivePartitionMap : GeneratedSrc.setActivePartitionMap = ExpectedSrc.setActivePartitionMap := by rfl

theorem source_refreshAssignments : GeneratedSrc.refreshAssignments = ExpectedSrc.refreshAssignments := by rfl
theorem source_partitionAssignmentsChanged : GeneratedSrc.partitionAssignmentsChanged = ExpectedSrc.partitionAssignmentsChanged := by rfl


/-! ### functions the model's assumptions rest on (construction, wiring, surrounding calls) are unchanged -/
theorem source_newRecoveryTracker : GeneratedSrc.newRecoveryTracker = ExpectedSrc.newRecoveryTracker := by rfl
theorem source_rcShutdown : GeneratedSrc.rcShutdown = ExpectedSrc.rcShutdown := by rfl

/-! ### influence closure: the pinned functions, and every function of the repository that writes a struct field or package
variable they read, are unchanged (digests regenerated from /repo on every run; a difference names the functions) -/
/-! ### The code itself, translated (`Generated/Trans.lean`, rewritten from /repo on every run by extractor/translate.go)

The `translated_*` theorems are about MiniGo terms the translator produced from the current Go source: for every
environment the translated fragment does what the hand-written model function says.  They are semantic obligations —
a rewrite that preserves the behaviour keeps them provable, a changed comparison, bound or argument does not. -/
section Translated
open Firebolt.MiniGo Firebolt.TransBase

/-- recoverSingleEvent, translated from the source: for every record the calls it makes are those of the decision `rdec` -/
theorem translated_recoverSingleEvent (σ : Env)
    (ho : 0 ≤ σ "e.TopicPartition.Offset" ∧ σ "e.TopicPartition.Offset" < 2^63)
    (ht : 0 ≤ σ "recoveryState.toOffset" ∧ σ "recoveryState.toOffset" < 2^63) :
    obs Trans.recoverSingleEvent σ = TransExpected.recoverSingleEvent σ := by
  have hw : wrap64 (σ "recoveryState.toOffset" - σ "e.TopicPartition.Offset") = σ "recoveryState.toOffset" - σ "e.TopicPartition.Offset" := by
    apply wrap64_id <;> omega
  by_cases h1 : σ "lookup rc.activePartitionMap#1" = 0 <;>
  by_cases h2 : σ "e.TopicPartition.Offset" < σ "recoveryState.fromOffset" <;>
  by_cases h3 : σ "recoveryState.toOffset" - σ "e.TopicPartition.Offset" ≤ 0 <;>
  by_cases h4 : σ "e.TopicPartition.Offset" % σ "rc.updateRequestEvery" = 0 <;>
  by_cases h5 : σ "e.TopicPartition.Offset" < σ "recoveryState.toOffset" <;>
  minigo_simp [Trans.recoverSingleEvent, TransExpected.recoverSingleEvent, rdec, rsePre, rseWait, rseSend, hw, h1, h2, h3, h4, h5, tmod_zero_iff] <;> (try omega)

/-- the hand-written model takes the same decision: it emits exactly in the `emit` case, and then only the record itself, flagged -/
theorem model_recover_rdec (s : St) (p o : Int) :
    (recover s p o).2.emits =
      match s.active.get? p with
      | none => []
      | some a => match rdec true a.fromO a.toO o s.updateEvery with
        | .emit _ => [⟨p, o, true⟩]
        | _ => [] := by
  unfold recover
  cases h : s.active.get? p with
  | none => simp
  | some a =>
    simp only [rdec]
    by_cases h1 : o < a.fromO <;> by_cases h2 : a.toO - o ≤ 0 <;> simp [h1, h2, refresh, Out.append]
    · split <;> simp
    · split <;> simp

/-- non-vacuity: a record inside the window reaches the emitting branch -/
example : rdec true 10 20 15 50 = .emit false := by decide

/-- processEvent of the main consumer, translated: every record it hands on is sent with `Recovery: false` — for every
environment the only send is the one below — ; an assignment starts the retrying assignment on another goroutine, a
revocation is handled at once on the event loop -/
theorem translated_kcProcessEvent (σ : Env) :
    let r := run Trans.kcProcessEvent σ
    r.stuck = false ∧ r.ret = none ∧
    (∀ c ∈ r.calls, c.1 = "send k.sendCh {Payload,Created,Recovery}" → c.2 = [σ "e.Value", σ "time.Now()", 0]) ∧
    (("send k.sendCh {Payload,Created,Recovery}", [σ "e.Value", σ "time.Now()", 0]) ∈ r.calls ↔ σ "typeswitch#0" = 2) ∧
    (("go k.retryAssignPartitions", [σ "e.Partitions"]) ∈ r.calls ↔ σ "typeswitch#0" = 0) ∧
    (("k.revokePartitionAssignments", []) ∈ r.calls ↔ σ "typeswitch#0" = 1) := by
  by_cases h0 : σ "typeswitch#0" = 0 <;> by_cases h1 : σ "typeswitch#0" = 1 <;> by_cases h2 : σ "typeswitch#0" = 2 <;>
  by_cases h3 : σ "typeswitch#0" = 3 <;> by_cases h4 : σ "typeswitch#0" = 4 <;>
  minigo_simp [Trans.kcProcessEvent, h0, h1, h2, h3, h4] <;> (try omega)


/-- one formerly active partition in the truncation handler (processError for offset-out-of-range / invalid-message), translated:
the low watermark is queried; if the start of the window has been deleted (`from < low`) the request is **closed when nothing of
the range remains** (`low ≥ to`: MarkRecoveryComplete) and otherwise **moved to the oldest retained record**
(UpdateRecoveryRequest(p, low, to)); a window that is still intact is left alone; a failing query ends the handler -/
theorem translated_truncationBody (σ : Env) :
    obs Trans.truncationBody σ = TransExpected.truncationBody σ := by
  by_cases h1 : σ "rc.consumer.QueryWatermarkOffsets#2" = 0 <;>
  by_cases h2 : σ "partition.fromOffset" < σ "rc.consumer.QueryWatermarkOffsets#0" <;>
  by_cases h3 : σ "rc.consumer.QueryWatermarkOffsets#0" ≥ σ "partition.toOffset" <;>
  by_cases h4 : σ "rc.tracker.MarkRecoveryComplete#0" = 0 <;> by_cases h5 : σ "rc.tracker.UpdateRecoveryRequest#0" = 0 <;>
  minigo_simp [TransExpected.truncationBody, Trans.truncationBody, h1, h2, h3, h4, h5] <;> (try omega)

end Translated

theorem closure_unchanged : GeneratedClo.C07 = ExpectedClo.C07 := by rfl

end Firebolt.C07
