import Firebolt.Properties.TransBase
import Firebolt.Properties.C01
import Firebolt.Properties.ExecFlow
import Firebolt.Properties.ExecNet
import Firebolt.Generated.Source
import Firebolt.Expected.Source
import Firebolt.Generated.Closure
import Firebolt.Expected.Closure
/-!
# C16 — Per-node metrics account for every event exactly once
Denotational part; the counter invariant under every interleaving is in `Properties/Exec*.lean`.
-/
namespace Firebolt.C16
open Firebolt Firebolt.Flow

@[simp] theorem isPass_pass (rs : List String) : isPass (.pass rs) = true := rfl
@[simp] theorem isPass_filter : isPass .filter = false := rfl
@[simp] theorem isPass_error : isPass .error = false := rfl
@[simp] theorem isFilter_pass (rs : List String) : isFilter (.pass rs) = false := rfl
@[simp] theorem isFilter_filter : isFilter .filter = true := rfl
@[simp] theorem isFilter_error : isFilter .error = false := rfl
@[simp] theorem isError_pass (rs : List String) : isError (.pass rs) = false := rfl
@[simp] theorem isError_filter : isError .filter = false := rfl
@[simp] theorem isError_error : isError .error = true := rfl

/-- every received event has exactly one outcome: processed + filtered + failed = received, for every oracle -/
theorem counters_partition (o : Oracle) (s : NSpec) (input : List String) :
    (account o s input).processed + (account o s input).filtered + (account o s input).failed = (account o s input).received.length := by
  simp only [account, count]
  induction input with
  | nil => simp
  | cons e es ih =>
    simp only [List.filter_cons, List.length_cons]
    cases ho : o s e <;> simp <;> omega

/-- a fanout result counts once, however many events it yields -/
theorem fanout_counts_once (o : Oracle) (s : NSpec) (e : String) (rs : List String) (h : o s e = .pass rs) :
    (account o s [e]).processed = 1 := by
  simp [account, count, h]

/-- the counters of a node depend only on what that node received (never on another node's events) -/
theorem counters_local (o : Oracle) (s : NSpec) (i1 i2 : List String) (h : i1 = i2) :
    (account o s i1).processed = (account o s i2).processed ∧ (account o s i1).filtered = (account o s i2).filtered ∧
    (account o s i1).failed = (account o s i2).failed := by subst h; exact ⟨rfl, rfl, rfl⟩

theorem skeleton_processEvent : Generated.processEvent = Expected.processEvent := by rfl
theorem skeleton_handleResult : Generated.handleResult = Expected.handleResult := by rfl
theorem skeleton_handleFailure : Generated.handleFailure = Expected.handleFailure := by rfl
theorem skeleton_deliverToChild : Generated.deliverToChild = Expected.deliverToChild := by rfl


open Firebolt.Exec in
/-- counters at quiescence for every interleaving: received = events handed over = processed + filtered + failed, each
counting exactly the events with that outcome -/
theorem counters_any_schedule (c : Cfg) (caps : Nat → Nat) (disc : Nat → Bool) (as : List Act) (s : St)
    (hr : run c (init c caps disc) as = some s) (ht : Terminal c s) :
    s.received = s.upSent.length ∧ s.received = s.processed + s.filtered + s.failed ∧
    s.processed = (s.upSent.filter (passB c)).length ∧ s.filtered = (s.upSent.filter (filterB c)).length ∧
    s.failed = (s.upSent.filter (errorB c)).length := terminal_counters c s (reachable_all c caps disc as s hr) ht

open Firebolt.Exec in
theorem discarded_counter_any_schedule (c : Cfg) (caps : Nat → Nat) (disc : Nat → Bool) (as : List Act) (s : St)
    (hr : run c (init c caps disc) as = some s) (k : Nat) : s.discarded k = (s.dropped k).length :=
  (reachable_all c caps disc as s hr).chan.counted k


open Firebolt.Exec in
/-- **C16 for every node of the tree, every global schedule**: at quiescence received = events handed over =
processed + filtered + failed, each counting exactly the events with that outcome -/
theorem tree_counters_any_global_schedule (cfg : Path → Cfg) (caps : Path → Nat) (disc : Path → Bool) (sched : List (Path × Act)) (N : Net)
    (hr : grun (ginit cfg caps disc) sched = some N) (p : Path) (ht : Terminal (cfg p) (N.st p)) :
    (N.st p).received = (N.st p).recvd.length ∧ (N.st p).received = (N.st p).processed + (N.st p).filtered + (N.st p).failed ∧
    (N.st p).processed = ((N.st p).recvd.filter (passB (cfg p))).length ∧
    (N.st p).filtered = ((N.st p).recvd.filter (filterB (cfg p))).length ∧
    (N.st p).failed = ((N.st p).recvd.filter (errorB (cfg p))).length := by
  obtain ⟨hG, hcfg, _⟩ := reachable_ginv cfg caps disc sched N hr
  subst hcfg
  exact tree_counters N hG p ht


/-! ### functions the model's assumptions rest on (construction, wiring, surrounding calls) are unchanged -/
theorem source_invokeProcessorSync : GeneratedSrc.invokeProcessorSync = ExpectedSrc.invokeProcessorSync := by rfl
theorem source_invokeProcessorFanout : GeneratedSrc.invokeProcessorFanout = ExpectedSrc.invokeProcessorFanout := by rfl


open Firebolt.Exec in
/-- **isolation, whole tree**: a step of one node never changes a counter of another node (its received / processed /
filtered / failed, or the discarded_events_total it keeps for its own children) -/
theorem tree_counters_isolated_any_step (N N' : Net) (p : Path) (a : Act) (hg : gstep N p a = some N') (r : Path) (hr : r ≠ p) :
    ((N'.st r).received, (N'.st r).processed, (N'.st r).filtered, (N'.st r).failed, (N'.st r).discarded) =
    ((N.st r).received, (N.st r).processed, (N.st r).filtered, (N.st r).failed, (N.st r).discarded) :=
  tree_counters_isolated N N' p a hg r hr

/-! ### one collector set per process: Init is once-only, every increment goes through the singleton -/
theorem source_metricsInit : GeneratedSrc.metricsInit = ExpectedSrc.metricsInit := by rfl
theorem source_metricsGet : GeneratedSrc.metricsGet = ExpectedSrc.metricsGet := by rfl
theorem source_metricsNode : GeneratedSrc.metricsNode = ExpectedSrc.metricsNode := by rfl

/-! ### influence closure: the pinned functions, and every function of the repository that writes a struct field or package
variable they read, are unchanged (digests regenerated from /repo on every run; a difference names the functions) -/
/-! ### The code itself, translated (`Generated/Trans.lean`, rewritten from /repo on every run by extractor/translate.go)

The `translated_*` theorems are about MiniGo terms the translator produced from the current Go source: for every
environment the translated fragment does what the hand-written model function says.  They are semantic obligations —
a rewrite that preserves the behaviour keeps them provable, a changed comparison, bound or argument does not. -/
section Translated
open Firebolt.MiniGo Firebolt.TransBase

/-- exactly one of the three outcome counters' call sites is reached per handled result (the failure counter is
incremented inside handleFailure) -/
theorem translated_one_outcome_counter (σ : Env) :
    let cs := (obs Trans.handleResult σ).calls.map (·.1)
    (cs.count "nc.handleFailure" + cs.count "metrics.Node().Filtered.WithLabelValues(nc.Config.ID).Inc"
      + cs.count "metrics.Node().Successes.WithLabelValues(nc.Config.ID).Inc") = 1 := by
  rw [C01.translated_handleResult]
  by_cases h1 : σ "err" = 0 <;> by_cases h2 : σ "len(result)" = 0 <;> simp [TransExpected.handleResult, h1, h2, List.count_cons]

/-- discarded_events_total of the target grows by exactly one per dropped event and by nothing otherwise (one delivery of
deliverToChild, translated from the source) -/
theorem translated_discard_counter (σ : Env) :
    ((obs Trans.deliverBody σ).calls.map (·.1)).count "metrics.Node().DiscardedEvents.WithLabelValues(childNode.Config.ID).Inc" =
      (if σ "room childNode.Ch" = 0 ∧ σ "childNode.Config.DiscardOnFullBuffer" ≠ 0 then 1 else 0) ∧
    ((obs Trans.deliverBody σ).calls.map (·.1)).count "send childNode.Ch" =
      (if σ "room childNode.Ch" = 0 ∧ σ "childNode.Config.DiscardOnFullBuffer" ≠ 0 then 0 else 1) := by
  by_cases h1 : σ "room childNode.Ch" = 0 <;> by_cases h2 : σ "childNode.Config.DiscardOnFullBuffer" = 0 <;>
  minigo_simp [Trans.deliverBody, h1, h2, List.count_cons]
end Translated

theorem closure_unchanged : GeneratedClo.C16 = ExpectedClo.C16 := by rfl

end Firebolt.C16
