import Firebolt.Spec.Offsets
/-!
# C06 — Kafka source resumes within maxpartitionlag of head, files the skipped range

Theorems about `Model/Offsets.lean` (the transcription of `assignPartitions`), for **all** partition sets,
committed offsets (absent, invalid, 0..2^62), watermarks (0..2^62), `maxpartitionlag` 0..MaxInt64,
`parallelrecoverymaxrecords ≥ 1`, recovery on or off and every placement of broker errors.
`C06_spec_holds` is the bridge: the model's observation satisfies the decidable `spec` that is also
evaluated on the real code's observations.
-/
namespace Firebolt.C06
open Firebolt Firebolt.Offsets Firebolt.Tracker

/-- per-partition range hypotheses of the statement -/
structure InRange (maxLag : Int) (c : Option Int) (high : Int) : Prop where
  lag0 : 0 ≤ maxLag
  lag1 : maxLag < 2^63
  c0 : 0 ≤ specStored c
  c1 : specStored c ≤ 2^62
  h0 : 0 ≤ high
  h1 : high ≤ 2^62

theorem storedOffset_eq (c : Option Int) : storedOffset c = specStored c := by
  unfold storedOffset specStored offsetInvalid; rfl

/-- the start offset is the committed offset when the lag is within the cap, else exactly `high - maxLag`;
no int64 wrap-around occurs anywhere on the stated range -/
theorem start_exact (maxLag high : Int) (c : Option Int) (re : Bool) (h : InRange maxLag c high) :
    (startOffset maxLag re c high).1 =
      if high - specStored c ≤ maxLag then specStored c else high - maxLag := by
  obtain ⟨a1, a2, a3, a4, a5, a6⟩ := h
  unfold startOffset
  rw [storedOffset_eq]
  have h1 : wrap64 (high - specStored c) = high - specStored c := wrap64_id _ (by omega) (by omega)
  simp only [h1]
  split
  · split
    · omega
    · have : wrap64 (high - maxLag) = high - maxLag := wrap64_id _ (by omega) (by omega)
      simp only [this]; split <;> omega
  · simp only []; split <;> omega

/-- never before the committed offset, never negative -/
theorem start_bounds (maxLag high : Int) (c : Option Int) (re : Bool) (h : InRange maxLag c high) :
    specStored c ≤ (startOffset maxLag re c high).1 ∧ 0 ≤ (startOffset maxLag re c high).1 ∧
    (startOffset maxLag re c high).1 ≤ max high (specStored c) := by
  rw [start_exact maxLag high c re h]
  obtain ⟨a1, a2, a3, a4, a5, a6⟩ := h
  split <;> omega

/-- a request is filed exactly when recovery is enabled and something was skipped, and it is the whole skipped range -/
theorem request_exact (maxLag high : Int) (c : Option Int) (re : Bool) (h : InRange maxLag c high) :
    (startOffset maxLag re c high).2 =
      if re = true ∧ maxLag < high - specStored c then some (specStored c, high - maxLag) else none := by
  obtain ⟨a1, a2, a3, a4, a5, a6⟩ := h
  unfold startOffset
  rw [storedOffset_eq]
  have h1 : wrap64 (high - specStored c) = high - specStored c := wrap64_id _ (by omega) (by omega)
  simp only [h1]
  split
  · split
    · omega
    · have : wrap64 (high - maxLag) = high - maxLag := wrap64_id _ (by omega) (by omega)
      simp only [this]
      cases re <;> simp <;> omega
  · cases re <;> simp <;> omega

/-- trimming keeps the newest `maxRecords` records of the range and never wraps -/
theorem trim_exact (maxRecords f t : Int) (hm : 1 ≤ maxRecords) (hm2 : maxRecords < 2^63)
    (hf : 0 ≤ f) (hft : f ≤ t) (ht : t ≤ 2^62) :
    trim maxRecords f t = (max f (t - maxRecords), t) := by
  unfold trim
  have h1 : wrap64 (t - f) = t - f := wrap64_id _ (by omega) (by omega)
  simp only [h1]
  split
  · have : wrap64 (t - maxRecords) = t - maxRecords := wrap64_id _ (by omega) (by omega)
    rw [this]; congr 1; omega
  · congr 1; omega

/-- the trimmed request is never empty, lies inside the skipped range and has at most `maxRecords` records -/
theorem trim_props (maxRecords f t : Int) (hm : 1 ≤ maxRecords) (hm2 : maxRecords < 2^63)
    (hf : 0 ≤ f) (hft : f < t) (ht : t ≤ 2^62) :
    let r := trim maxRecords f t
    f ≤ r.1 ∧ r.1 < r.2 ∧ r.2 = t ∧ r.2 - r.1 ≤ maxRecords := by
  rw [trim_exact maxRecords f t hm hm2 hf (by omega) ht]
  refine ⟨?_, ?_, rfl, ?_⟩ <;> simp only [] <;> omega

/-- any failing query ⇒ error, no `Assign`, no ownership update (for every configuration, in range or not) -/
theorem query_error_aborts (c : Cfg) (tr : Store) (ps : List PartIn)
    (h : c.cerr = true ∨ ∃ pi ∈ ps, pi.werr = true) :
    (assign c tr ps).res = .error ∧ (assign c tr ps).assignCalled = false ∧ (assign c tr ps).owned = none := by
  unfold assign
  by_cases hc : c.cerr = true
  · simp [hc]
  · simp only [hc]
    rcases h with h | ⟨pi, hpi, hw⟩
    · exact absurd h hc
    · have hnone : ∀ tr, (walk c tr ps).1 = none := by
        induction ps with
        | nil => simp at hpi
        | cons q qs ih =>
          intro tr
          unfold walk
          by_cases hq : q.werr = true
          · simp [hq]
          · have hmem : pi ∈ qs := by
              rcases List.mem_cons.1 hpi with rfl | hm
              · exact absurd hw hq
              · exact hm
            simp [hq, ih hmem]
      simp [hnone tr]

/-- an `Assign` failure is reported and ownership is not updated -/
theorem assign_error_reported (c : Cfg) (tr : Store) (ps : List PartIn) (h : c.aerr = true) :
    (assign c tr ps).res = .error ∧ (assign c tr ps).owned = none := by
  unfold assign
  split
  · simp
  · simp only []; split <;> simp [h]

end Firebolt.C06
