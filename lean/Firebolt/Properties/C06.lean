import Firebolt.TransExpected
import Firebolt.Properties.TransBase
import Firebolt.Spec.Offsets
import Firebolt.Generated.Source
import Firebolt.Expected.Source
import Firebolt.Generated.Closure
import Firebolt.Expected.Closure
/-!
# C06 — Kafka source resumes within maxpartitionlag of head, files the skipped range

Theorems about `Model/Offsets.lean` (the transcription of `assignPartitions`), for **all** partition sets,
committed offsets (absent, invalid, 0..2^62), watermarks (0..2^62), `maxpartitionlag` 0..MaxInt64,
`parallelrecoverymaxrecords ≥ 1`, recovery on or off and every placement of broker errors.
`C06_spec_holds` is the bridge: the model's observation satisfies the decidable `spec` that is also
evaluated on the real code's observations.
-/
namespace Firebolt.C06
open Firebolt Firebolt.Offsets Firebolt.Tracker

/-- per-partition range hypotheses of the statement -/
structure InRange (maxLag : Int) (c : Option Int) (high : Int) : Prop where
  lag0 : 0 ≤ maxLag
  lag1 : maxLag < 2^63
  c0 : 0 ≤ specStored c
  c1 : specStored c ≤ 2^62
  h0 : 0 ≤ high
  h1 : high ≤ 2^62

theorem storedOffset_eq (c : Option Int) : storedOffset c = specStored c := by
  unfold storedOffset specStored offsetInvalid; rfl

/-- the start offset is the committed offset when the lag is within the cap, else exactly `high - maxLag`;
no int64 wrap-around occurs anywhere on the stated range -/
theorem start_exact (maxLag high : Int) (c : Option Int) (re : Bool) (h : InRange maxLag c high) :
    (startOffset maxLag re c high).1 =
      if high - specStored c ≤ maxLag then specStored c else high - maxLag := by
  obtain ⟨a1, a2, a3, a4, a5, a6⟩ := h
  unfold startOffset
  rw [storedOffset_eq]
  have h1 : wrap64 (high - specStored c) = high - specStored c := wrap64_id _ (by omega) (by omega)
  simp only [h1]
  split
  · split
    · omega
    · have : wrap64 (high - maxLag) = high - maxLag := wrap64_id _ (by omega) (by omega)
      simp only [this]; split <;> omega
  · simp only []; split <;> omega

/-- never before the committed offset, never negative -/
theorem start_bounds (maxLag high : Int) (c : Option Int) (re : Bool) (h : InRange maxLag c high) :
    specStored c ≤ (startOffset maxLag re c high).1 ∧ 0 ≤ (startOffset maxLag re c high).1 ∧
    (startOffset maxLag re c high).1 ≤ max high (specStored c) := by
  rw [start_exact maxLag high c re h]
  obtain ⟨a1, a2, a3, a4, a5, a6⟩ := h
  split <;> omega

/-- a request is filed exactly when recovery is enabled and something was skipped, and it is the whole skipped range -/
theorem request_exact (maxLag high : Int) (c : Option Int) (re : Bool) (h : InRange maxLag c high) :
    (startOffset maxLag re c high).2 =
      if re = true ∧ maxLag < high - specStored c then some (specStored c, high - maxLag) else none := by
  obtain ⟨a1, a2, a3, a4, a5, a6⟩ := h
  unfold startOffset
  rw [storedOffset_eq]
  have h1 : wrap64 (high - specStored c) = high - specStored c := wrap64_id _ (by omega) (by omega)
  simp only [h1]
  split
  · split
    · omega
    · have : wrap64 (high - maxLag) = high - maxLag := wrap64_id _ (by omega) (by omega)
      simp only [this]
      cases re <;> simp <;> omega
  · cases re <;> simp <;> omega

/-- trimming keeps the newest `maxRecords` records of the range and never wraps -/
theorem trim_exact (maxRecords f t : Int) (hm : 1 ≤ maxRecords) (hm2 : maxRecords < 2^63)
    (hf : 0 ≤ f) (hft : f ≤ t) (ht : t ≤ 2^62) :
    trim maxRecords f t = (max f (t - maxRecords), t) := by
  unfold trim
  have h1 : wrap64 (t - f) = t - f := wrap64_id _ (by omega) (by omega)
  simp only [h1]
  split
  · have : wrap64 (t - maxRecords) = t - maxRecords := wrap64_id _ (by omega) (by omega)
    rw [this]; congr 1; omega
  · congr 1; omega

/-- the trimmed request is never empty, lies inside the skipped range and has at most `maxRecords` records -/
theorem trim_props (maxRecords f t : Int) (hm : 1 ≤ maxRecords) (hm2 : maxRecords < 2^63)
    (hf : 0 ≤ f) (hft : f < t) (ht : t ≤ 2^62) :
    let r := trim maxRecords f t
    f ≤ r.1 ∧ r.1 < r.2 ∧ r.2 = t ∧ r.2 - r.1 ≤ maxRecords := by
  rw [trim_exact maxRecords f t hm hm2 hf (by omega) ht]
  refine ⟨?_, ?_, rfl, ?_⟩ <;> simp only [] <;> omega

/-- any failing query ⇒ error, no `Assign`, no ownership update (for every configuration, in range or not) -/
theorem query_error_aborts (c : Cfg) (tr : Store) (ps : List PartIn)
    (h : c.cerr = true ∨ ∃ pi ∈ ps, pi.werr = true) :
    (assign c tr ps).res = .error ∧ (assign c tr ps).assignCalled = false ∧ (assign c tr ps).owned = none := by
  unfold assign
  by_cases hc : c.cerr = true
  · simp [hc]
  · simp only [hc]
    rcases h with h | ⟨pi, hpi, hw⟩
    · exact absurd h hc
    · have hnone : ∀ tr, (walk c tr ps).1 = none := by
        induction ps with
        | nil => simp at hpi
        | cons q qs ih =>
          intro tr
          unfold walk
          by_cases hq : q.werr = true
          · simp [hq]
          · have hmem : pi ∈ qs := by
              rcases List.mem_cons.1 hpi with rfl | hm
              · exact absurd hw hq
              · exact hm
            simp [hq, ih hmem]
      simp [hnone tr]

/-- an `Assign` failure is reported and ownership is not updated -/
theorem assign_error_reported (c : Cfg) (tr : Store) (ps : List PartIn) (h : c.aerr = true) :
    (assign c tr ps).res = .error ∧ (assign c tr ps).owned = none := by
  unfold assign
  split
  · simp
  · simp only []; split <;> simp [h]

end Firebolt.C06

namespace Firebolt.C06
open Firebolt Firebolt.Offsets Firebolt.Tracker

/-! ### bridge: the model's observation of a whole assignment satisfies the Spec oracle -/

theorem get?_none_of_not_mem {α} (m : AList α) (k : Int) (h : k ∉ m.map (·.1)) : m.get? k = none := by
  induction m with
  | nil => rfl
  | cons kv rest ih =>
    obtain ⟨k', v⟩ := kv
    simp only [List.map_cons, List.mem_cons, not_or] at h
    have : ¬ k' = k := fun e => h.1 e.symm
    simp [AList.get?, this, ih h.2]

theorem set_absent {α} (m : AList α) (k : Int) (v : α) (h : k ∉ m.map (·.1)) : m.set k v = m ++ [(k, v)] := by
  induction m with
  | nil => rfl
  | cons kv rest ih =>
    obtain ⟨k', v'⟩ := kv
    simp only [List.map_cons, List.mem_cons, not_or] at h
    have : ¬ k' = k := fun e => h.1 e.symm
    simp [AList.set, this, ih h.2]

/-- per-partition range facts extracted from `inScope` -/
def PartOk (cfg : Cfg) (pi : PartIn) : Prop := InRange cfg.maxLag pi.committed pi.high

theorem inScope_parts (cfg : Cfg) (ps : List PartIn) (h : inScope cfg ps = true) :
    (1 ≤ cfg.maxRecords ∧ cfg.maxRecords < 2^63) ∧ (∀ pi ∈ ps, PartOk cfg pi) ∧ (ps.map (·.p)).Nodup := by
  unfold inScope at h
  simp only [Bool.and_eq_true, decide_eq_true_eq, List.all_eq_true] at h
  obtain ⟨⟨⟨⟨⟨h1, h2⟩, h3⟩, h4⟩, h5⟩, h6⟩ := h
  refine ⟨⟨h3, h4⟩, ?_, by simpa using h6⟩
  intro pi hpi
  obtain ⟨⟨⟨a, b⟩, c'⟩, d⟩ := h5 pi hpi
  exact ⟨h1, h2, a, b, c', d⟩

/-- what `fileReq` does to a tracker that has no entry for the partition yet -/
theorem fileReq_fresh (cfg : Cfg) (tr : Store) (pi : PartIn) (hm : 1 ≤ cfg.maxRecords ∧ cfg.maxRecords < 2^63)
    (hok : PartOk cfg pi) (hfresh : pi.p ∉ tr.map (·.1)) :
    fileReq cfg tr pi =
      match specRequest cfg pi with
      | none => (tr, [])
      | some r => (tr ++ [(pi.p, [⟨r.1, r.2⟩])], [(pi.p, [⟨r.1, r.2⟩])]) := by
  unfold fileReq
  rw [request_exact cfg.maxLag pi.high pi.committed cfg.recEnabled hok]
  unfold specRequest specStart
  obtain ⟨a1, a2, a3, a4, a5, a6⟩ := hok
  by_cases hre : cfg.recEnabled = true
  · by_cases hlag : cfg.maxLag < pi.high - specStored pi.committed
    · have hnle : ¬ pi.high - specStored pi.committed ≤ cfg.maxLag := by omega
      have hlt : specStored pi.committed < pi.high - cfg.maxLag := by omega
      simp only [hre, hlag, and_self, if_true, hnle, if_false, Bool.true_and, decide_eq_true_eq, hlt]
      have ht := trim_exact cfg.maxRecords (specStored pi.committed) (pi.high - cfg.maxLag) hm.1 hm.2 a3 (by omega) (by omega)
      rw [ht]
      simp only [Tracker.add, get?_none_of_not_mem tr pi.p hfresh, Option.getD_none]
      have : addL [] (max (specStored pi.committed) (pi.high - cfg.maxLag - cfg.maxRecords)) (pi.high - cfg.maxLag)
          = [⟨max (specStored pi.committed) (pi.high - cfg.maxLag - cfg.maxRecords), pi.high - cfg.maxLag⟩] := by
        simp [addL]
      rw [this, set_absent tr pi.p _ hfresh]
    · have hle : pi.high - specStored pi.committed ≤ cfg.maxLag := by omega
      have hnlt : ¬ specStored pi.committed < specStored pi.committed := by omega
      simp [hre, hlag, hle, hnlt]
  · have hf : cfg.recEnabled = false := by simpa using hre
    simp [hf]

def specEntries (cfg : Cfg) (ps : List PartIn) : Store :=
  ps.filterMap (fun pi => (specRequest cfg pi).map (fun r => (pi.p, [(⟨r.1, r.2⟩ : Req)])))

theorem specEntries_keys (cfg : Cfg) (ps : List PartIn) : ∀ k ∈ (specEntries cfg ps).map (·.1), k ∈ ps.map (·.p) := by
  intro k hk
  simp only [specEntries, List.mem_map, List.mem_filterMap] at hk
  obtain ⟨kv, ⟨pi, hpi, hsome⟩, rfl⟩ := hk
  cases hr : specRequest cfg pi with
  | none => rw [hr] at hsome; simp at hsome
  | some r => rw [hr] at hsome; simp at hsome; subst hsome; exact List.mem_map.2 ⟨pi, hpi, rfl⟩

/-- the walk over an error-free, in-range assignment of distinct, not yet tracked partitions -/
theorem walk_ok (cfg : Cfg) (ps : List PartIn) : ∀ (tr : Store),
    (1 ≤ cfg.maxRecords ∧ cfg.maxRecords < 2^63) → (∀ pi ∈ ps, PartOk cfg pi) → (∀ pi ∈ ps, pi.werr = false) →
    (ps.map (·.p)).Nodup → (∀ pi ∈ ps, pi.p ∉ tr.map (·.1)) →
    (walk cfg tr ps).1 = some (ps.map (fun pi => (pi.p, specStart cfg.maxLag pi))) ∧
    (walk cfg tr ps).2.1 = tr ++ specEntries cfg ps ∧
    (walk cfg tr ps).2.2.length = (specEntries cfg ps).length := by
  induction ps with
  | nil => intro tr _ _ _ _ _; simp [walk, specEntries]
  | cons pi rest ih =>
    intro tr hm hok hw hnd hfresh
    have hpi := hok pi (List.mem_cons_self ..)
    have hwpi := hw pi (List.mem_cons_self ..)
    have hfr := fileReq_fresh cfg tr pi hm hpi (hfresh pi (List.mem_cons_self ..))
    simp only [List.map_cons, List.nodup_cons] at hnd
    have hstart : (startOffset cfg.maxLag cfg.recEnabled pi.committed pi.high).1 = specStart cfg.maxLag pi := by
      rw [start_exact cfg.maxLag pi.high pi.committed cfg.recEnabled hpi]; rfl
    -- the tracker after filing this partition's request still has no entry for the remaining partitions
    have hfresh' : ∀ q ∈ rest, q.p ∉ (fileReq cfg tr pi).1.map (·.1) := by
      intro q hq
      have hq1 := hfresh q (List.mem_cons_of_mem _ hq)
      have hne : q.p ≠ pi.p := fun e => hnd.1 (e ▸ List.mem_map.2 ⟨q, hq, rfl⟩)
      rw [hfr]
      cases specRequest cfg pi with
      | none => exact hq1
      | some r => simp only [List.map_append, List.map_cons, List.map_nil, List.mem_append, List.mem_singleton, not_or]; exact ⟨hq1, hne⟩
    obtain ⟨i1, i2, i3⟩ := ih (fileReq cfg tr pi).1 hm (fun q hq => hok q (List.mem_cons_of_mem _ hq))
      (fun q hq => hw q (List.mem_cons_of_mem _ hq)) hnd.2 hfresh'
    simp only [walk, hwpi, Bool.false_eq_true, if_false, i1, i2, i3, hstart, Option.map_some, List.map_cons, List.length_append]
    refine ⟨trivial, ?_, ?_⟩
    · rw [hfr]
      cases hr : specRequest cfg pi with
      | none => simp [specEntries, hr]
      | some r => simp [specEntries, hr]
    · rw [hfr]
      cases hr : specRequest cfg pi with
      | none => simp [specEntries, hr]
      | some r => simp [specEntries, hr]; omega

/-- **bridge**: for every assignment inside the statement's quantifier — any partitions, committed offsets, watermarks,
lag cap, record cap, recovery on or off, any placement of broker errors — what the model of `assignPartitions` makes
observable satisfies the Spec predicate that also judges the real code -/
theorem spec_holds (cfg : Cfg) (ps : List PartIn) (h : inScope cfg ps = true) : spec cfg ps (obsOf (assign cfg [] ps)) = none := by
  obtain ⟨hm, hok, hnd⟩ := inScope_parts cfg ps h
  unfold spec
  by_cases hq : (cfg.cerr || ps.any (·.werr)) = true
  · -- a query fails
    have hq' : cfg.cerr = true ∨ ∃ pi ∈ ps, pi.werr = true := by
      simp only [Bool.or_eq_true, List.any_eq_true] at hq
      rcases hq with h1 | ⟨pi, h1, h2⟩
      · exact Or.inl h1
      · exact Or.inr ⟨pi, h1, h2⟩
    obtain ⟨e1, e2, e3⟩ := query_error_aborts cfg [] ps hq'
    simp [hq, obsOf, e1, e2, e3]
  · simp only [hq, Bool.false_eq_true, if_false]
    have hc : cfg.cerr = false := by
      cases hcc : cfg.cerr with
      | false => rfl
      | true => simp [hcc] at hq
    have hw : ∀ pi ∈ ps, pi.werr = false := by
      intro pi hpi
      cases hww : pi.werr with
      | false => rfl
      | true => exact absurd (by simp only [Bool.or_eq_true, List.any_eq_true]; exact Or.inr ⟨pi, hpi, hww⟩) hq
    obtain ⟨w1, w2, w3⟩ := walk_ok cfg ps [] hm hok hw hnd (fun _ _ => by simp)
    by_cases ha : cfg.aerr = true
    · obtain ⟨e1, e3⟩ := assign_error_reported cfg [] ps ha
      simp [ha, obsOf, e1, e3]
    · have haf : cfg.aerr = false := by simpa using ha
      have hassign : assign cfg [] ps =
          ⟨.assigned (ps.map (fun pi => (pi.p, specStart cfg.maxLag pi))), true,
           if cfg.recEnabled then some (ps.map (fun pi => (pi.p, specStart cfg.maxLag pi))) else none,
           [] ++ specEntries cfg ps, (walk cfg [] ps).2.2⟩ := by
        unfold assign
        simp only [hc, Bool.false_eq_true, if_false, w1, haf, w2]
      rw [hassign]
      simp only [haf, Bool.false_eq_true, if_false, obsOf]
      have hneg : (ps.map (fun pi => (pi.p, specStart cfg.maxLag pi))).any (fun a => decide (a.2 < 0)) = false := by
        rw [List.any_eq_false]
        intro a ha'
        obtain ⟨pi, hpi, rfl⟩ := List.mem_map.1 ha'
        have hb := start_bounds cfg.maxLag pi.high pi.committed cfg.recEnabled (hok pi hpi)
        rw [start_exact cfg.maxLag pi.high pi.committed cfg.recEnabled (hok pi hpi)] at hb
        have : specStart cfg.maxLag pi = if pi.high - specStored pi.committed ≤ cfg.maxLag then specStored pi.committed else pi.high - cfg.maxLag := rfl
        simp only [this, decide_eq_true_eq]; omega
      have htr : sortByKey ((([] : Store) ++ specEntries cfg ps).map (fun kv => (kv.1, kv.2.map (fun q => (q.fromO, q.toO))))) = specTracker cfg ps := by
        unfold specTracker specEntries
        congr 1
        simp only [List.nil_append, List.map_filterMap]
        congr 1
        funext pi
        cases specRequest cfg pi <;> simp
      simp only [htr, hneg]
      cases cfg.recEnabled <;> simp


/-! ### the functions this model was transcribed from are unchanged (regenerated from /repo on every run) -/
theorem source_retryAssignPartitions : GeneratedSrc.retryAssignPartitions = ExpectedSrc.retryAssignPartitions := by rfl
theorem source_assignPartitions : GeneratedSrc.assignPartitions = ExpectedSrc.assignPartitions := by rfl
theorem source_calculateAssignmentOffsets : GeneratedSrc.calculateAssignmentOffsets = ExpectedSrc.calculateAssignmentOffsets := by rfl
theorem source_offsetForPartition : GeneratedSrc.offsetForPartition = ExpectedSrc.offsetForPartition := by rfl
theorem source_requestRecovery : GeneratedSrc.requestRecovery = ExpectedSrc.requestRecovery := by rfl


/-! ### functions the model's assumptions rest on (construction, wiring, surrounding calls) are unchanged -/
theorem source_kcSetup : GeneratedSrc.kcSetup = ExpectedSrc.kcSetup := by rfl
theorem source_kcStart : GeneratedSrc.kcStart = ExpectedSrc.kcStart := by rfl

theorem source_revokePartitionAssignments : GeneratedSrc.revokePartitionAssignments = ExpectedSrc.revokePartitionAssignments := by rfl
theorem source_kcProcessEvent : GeneratedSrc.kcProcessEvent = ExpectedSrc.kcProcessEvent := by rfl
theorem source_kcCheckConfig : GeneratedSrc.kcCheckConfig = ExpectedSrc.kcCheckConfig := by rfl

/-! ### the request filed for the skipped range is merged by the tracker -/
theorem source_addRecoveryRequest : GeneratedSrc.addRecoveryRequest = ExpectedSrc.addRecoveryRequest := by rfl

/-! ### influence closure: the pinned functions, and every function of the repository that writes a struct field or package
variable they read, are unchanged (digests regenerated from /repo on every run; a difference names the functions) -/
/-! ### The code itself, translated (`Generated/Trans.lean`, rewritten from /repo on every run by extractor/translate.go)

The `translated_*` theorems are about MiniGo terms the translator produced from the current Go source: for every
environment the translated fragment does what the hand-written model function says.  They are semantic obligations —
a rewrite that preserves the behaviour keeps them provable, a changed comparison, bound or argument does not. -/
section Translated
open Firebolt.MiniGo Firebolt.TransBase

/-- RequestRecovery files exactly the trimmed request of the model -/
theorem translated_requestRecovery (σ : Env) :
    obs Trans.requestRecovery σ = TransExpected.requestRecovery σ := by
  minigo_simp [Trans.requestRecovery, TransExpected.requestRecovery, trim]
  split <;> simp_all

/-- the per-partition body of calculateAssignmentOffsets: same start offset and same recovery request as `startOffset` -/
theorem translated_calcOffsetsBody (σ : Env) (herr : σ "k.consumer.QueryWatermarkOffsets#2" = 0) :
    let so := startOffset (σ "maxInitialPartitionLagOffset") (σ "k.recoveryConsumerEnabled" != 0)
                (some (σ "k.offsetForPartition#0")) (σ "k.consumer.QueryWatermarkOffsets#1")
    let r := run Trans.calcOffsetsBody σ
    r.env "tp.Offset" = so.1 ∧ r.ret = none ∧ r.stuck = false ∧
    r.calls = [("k.offsetForPartition", [σ "tp.Partition", σ "committedOffsets"]),
               ("k.consumer.QueryWatermarkOffsets", [σ "k.topic", σ "tp.Partition", 10000])] ++
              (match so.2 with
               | none => []
               | some (f, t) => [("k.recoveryConsumer.RequestRecovery", [σ "tp.Partition", f, t])]) := by
  by_cases h1 : σ "k.offsetForPartition#0" = -1001 <;>
  by_cases h2 : wrap64 (σ "k.consumer.QueryWatermarkOffsets#1" - (if σ "k.offsetForPartition#0" = -1001 then 0 else σ "k.offsetForPartition#0")) > σ "maxInitialPartitionLagOffset" <;>
  by_cases h3 : σ "maxInitialPartitionLagOffset" > σ "k.consumer.QueryWatermarkOffsets#1" <;>
  by_cases h4 : σ "k.recoveryConsumerEnabled" = 0 <;>
  simp [h1] at h2 <;>
  minigo_simp [startOffset, storedOffset, offsetInvalid, Trans.calcOffsetsBody, herr, h1, h2, h3, h4] <;>
  (try split) <;> simp_all <;> (try omega)

/-- a failing watermark query aborts the walk: nothing is assigned for this partition, no request is filed -/
theorem translated_calcOffsetsBody_error (σ : Env) (herr : σ "k.consumer.QueryWatermarkOffsets#2" ≠ 0) :
    let r := run Trans.calcOffsetsBody σ
    r.ret = some [0, σ "k.consumer.QueryWatermarkOffsets#2"] ∧
    r.calls = [("k.offsetForPartition", [σ "tp.Partition", σ "committedOffsets"]),
               ("k.consumer.QueryWatermarkOffsets", [σ "k.topic", σ "tp.Partition", 10000])] := by
  by_cases h1 : σ "k.offsetForPartition#0" = -1001 <;> minigo_simp [Trans.calcOffsetsBody, h1, herr]

/-- non-vacuity: a lagging partition with recovery enabled reaches the request branch -/
example : (run Trans.calcOffsetsBody (fun x => if x = "k.consumer.QueryWatermarkOffsets#1" then 1000 else
    if x = "maxInitialPartitionLagOffset" then 100 else if x = "k.recoveryConsumerEnabled" then 1 else
    if x = "k.offsetForPartition#0" then 5 else if x = "tp.Partition" then 3 else 0)).calls.getLast? =
    some ("k.recoveryConsumer.RequestRecovery", [3, 5, 900]) := by decide

/-- what one iteration of the partition loop reads: the partition id and what the client answers for it -/
def bindPart (σ : Env) (pi : PartIn) : Env :=
  upd (upd (upd (upd (upd σ "tp.Partition" pi.p) "k.offsetForPartition#0" (pi.committed.getD 0))
    "k.consumer.QueryWatermarkOffsets#0" pi.low) "k.consumer.QueryWatermarkOffsets#1" pi.high)
    "k.consumer.QueryWatermarkOffsets#2" (if pi.werr then 1 else 0)

/-- `for i, tp := range assignedPartitions { body }` as Go runs it: the body once per partition, in order; a `return` inside
the body ends the function (`none`: nothing is assigned); otherwise the partition gets the offset left in `tp.Offset`; the
`RequestRecovery` calls made on the way are collected -/
def rangeParts (body : S) : List PartIn → Env → Option (List (Int × Int)) × List (List Int)
  | [], _ => (some [], [])
  | pi :: rest, σ =>
    let r := run body (bindPart σ pi)
    let reqs := (r.calls.filter (fun c => c.1 == "k.recoveryConsumer.RequestRecovery")).map (·.2)
    if r.ret.isSome || r.stuck then (none, reqs)
    else
      let k := rangeParts body rest r.env
      (k.1.map (fun l => (pi.p, r.env "tp.Offset") :: l), reqs ++ k.2)

/-- the requests the model's walk files before trimming, in order -/
def walkReqs (c : Cfg) : List PartIn → List (List Int)
  | [] => []
  | pi :: rest =>
    if pi.werr then []
    else (match (startOffset c.maxLag c.recEnabled pi.committed pi.high).2 with
          | none => []
          | some (f, t) => [[pi.p, f, t]]) ++ walkReqs c rest

theorem startOffset_getD (maxLag : Int) (rec : Bool) (c : Option Int) (high : Int) :
    startOffset maxLag rec (some (c.getD 0)) high = startOffset maxLag rec c high := by
  cases c <;> simp [startOffset, storedOffset, offsetInvalid]

theorem calcOffsetsBody_frame (σ : Env) (x : String)
    (hx : x ∉ ["partitionOffset", "low", "high", "err", "offsetWithCappedLag", "tp.Offset", "partitions[i]"]) :
    (run Trans.calcOffsetsBody σ).env x = σ x := by
  simp only [List.mem_cons, List.not_mem_nil, or_false, not_or] at hx
  obtain ⟨a1, a2, a3, a4, a5, a6, a7⟩ := hx
  by_cases h0 : σ "k.consumer.QueryWatermarkOffsets#2" = 0 <;>
  by_cases h1 : σ "k.offsetForPartition#0" = -1001 <;>
  by_cases h2 : wrap64 (σ "k.consumer.QueryWatermarkOffsets#1" - (if σ "k.offsetForPartition#0" = -1001 then 0 else σ "k.offsetForPartition#0")) > σ "maxInitialPartitionLagOffset" <;>
  by_cases h3 : σ "maxInitialPartitionLagOffset" > σ "k.consumer.QueryWatermarkOffsets#1" <;>
  by_cases h4 : σ "k.recoveryConsumerEnabled" = 0 <;>
  simp [h1] at h2 <;>
  minigo_simp [Trans.calcOffsetsBody, h0, h1, h2, h3, h4, a1, a2, a3, a4, a5, a6, a7]

theorem walk_fst_indep (c : Cfg) (parts : List PartIn) : ∀ tr tr', (walk c tr parts).1 = (walk c tr' parts).1 := by
  induction parts with
  | nil => intro tr tr'; rfl
  | cons pi rest ih =>
    intro tr tr'
    simp only [walk]
    split
    · rfl
    · simp only []; rw [ih (fileReq c tr pi).1 (fileReq c tr' pi).1]

/-- **the partition loop of calculateAssignmentOffsets = the model's `walk`**: for every list of assigned partitions with
whatever the client answers for each, the offsets assigned (or the abort on a failing watermark query) and the recovery
requests filed on the way, in order, are the model's -/
theorem translated_calcOffsets_loop (c : Cfg) (tr : Tracker.Store) (parts : List PartIn) : ∀ σ : Env,
    σ "maxInitialPartitionLagOffset" = c.maxLag → (σ "k.recoveryConsumerEnabled" != 0) = c.recEnabled →
    rangeParts Trans.calcOffsetsBody parts σ = ((walk c tr parts).1, walkReqs c parts) := by
  induction parts generalizing tr with
  | nil => intro σ _ _; rfl
  | cons pi rest ih =>
    intro σ hm hr
    have b1 : bindPart σ pi "maxInitialPartitionLagOffset" = c.maxLag := by simp [bindPart, hm]
    have b2 : (bindPart σ pi "k.recoveryConsumerEnabled" != 0) = c.recEnabled := by simp [bindPart]; simpa using hr
    have b3 : bindPart σ pi "k.offsetForPartition#0" = pi.committed.getD 0 := by simp [bindPart]
    have b4 : bindPart σ pi "k.consumer.QueryWatermarkOffsets#1" = pi.high := by simp [bindPart]
    have b5 : bindPart σ pi "tp.Partition" = pi.p := by simp [bindPart]
    have b6 : bindPart σ pi "k.consumer.QueryWatermarkOffsets#2" = if pi.werr then 1 else 0 := by simp [bindPart]
    by_cases hw : pi.werr = true
    · have he : bindPart σ pi "k.consumer.QueryWatermarkOffsets#2" ≠ 0 := by rw [b6]; simp [hw]
      obtain ⟨e1, e2⟩ := translated_calcOffsetsBody_error (bindPart σ pi) he
      simp [rangeParts, walk, walkReqs, hw, e1, e2]
    · have he : bindPart σ pi "k.consumer.QueryWatermarkOffsets#2" = 0 := by rw [b6]; simp [hw]
      obtain ⟨o1, o2, o3, o4⟩ := translated_calcOffsetsBody (bindPart σ pi) he
      rw [b1, b2, b3, b4, startOffset_getD] at o1 o4
      rw [b5] at o4
      have f1 := calcOffsetsBody_frame (bindPart σ pi) "maxInitialPartitionLagOffset" (by decide)
      have f2 := calcOffsetsBody_frame (bindPart σ pi) "k.recoveryConsumerEnabled" (by decide)
      have ih' := ih (fileReq c tr pi).1 (run Trans.calcOffsetsBody (bindPart σ pi)).env (by rw [f1, b1]) (by rw [f2]; exact b2)
      simp only [rangeParts, walk, walkReqs, hw, o2, o3, ih', o1, o4]
      cases hso : (startOffset c.maxLag c.recEnabled pi.committed pi.high).2 with
      | none => simp
      | some ft => obtain ⟨f, t⟩ := ft; simp

end Translated

theorem closure_unchanged : GeneratedClo.C06 = ExpectedClo.C06 := by rfl

end Firebolt.C06
