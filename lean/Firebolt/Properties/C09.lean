import Firebolt.TransExpected
import Firebolt.Properties.TransBase
import Firebolt.Properties.C07
import Firebolt.Properties.RefreshConc
import Firebolt.Generated.Source
import Firebolt.Expected.Source
import Firebolt.Generated.Closure
import Firebolt.Expected.Closure
/-!
# C09 — Recovery follows partition ownership and survives restarts and rebalances

Theorems about `Model/Recovery.lean`: what `RefreshAssignments` makes the client read, that revocation stops
emission, where a successor resumes, and that old and new owner together cover the window.
-/
namespace Firebolt.C09
open Firebolt Firebolt.Recovery

/-- the window a partition gets in a refresh: from the request's progress point, or from where this instance already
is reading *the same request* if that is further on -/
def candFor (s : St) (p : Int) : Option Active :=
  match Tracker.get s.tracker p with
  | none => none
  | some r =>
    let f := match s.active.get? p with
      | some a => if a.toO = r.toO ∧ a.fromO > r.fromO then a.fromO else r.fromO
      | none => r.fromO
    some ⟨f, f, r.toO⟩

theorem cand_fold (s : St) (ps : List Int) (acc : AList Active) (p : Int) :
    (ps.foldl (candStep s) acc).get? p =
    if p ∈ ps then (match candFor s p with | some a => some a | none => acc.get? p) else acc.get? p := by
  induction ps generalizing acc with
  | nil => simp
  | cons q qs ih =>
    simp only [List.foldl_cons]
    rw [ih]
    by_cases hq : q = p
    · subst hq
      simp only [List.mem_cons, true_or, if_true]
      unfold candFor candStep
      cases hg : Tracker.get s.tracker q with
      | none => simp
      | some r => simp; intro _; trivial
    · have hne : p ≠ q := fun e => hq e.symm
      simp only [List.mem_cons, hne, false_or]
      unfold candStep
      cases hg : Tracker.get s.tracker q with
      | none => rfl
      | some r => simp only [AList.get?_set_ne _ _ _ _ hne]

/-- **owned × outstanding**: the candidate set of a refresh contains exactly the owned partitions that have an
outstanding request, each with the window of its oldest request -/
theorem candidates_char (s : St) (p : Int) :
    (candidates s).get? p = if p ∈ s.owned then candFor s p else none := by
  unfold candidates
  rw [cand_fold]
  by_cases h : p ∈ s.owned
  · simp only [h, if_true]
    cases candFor s p <;> simp [AList.get?]
  · simp [h, AList.get?]

/-- after a refresh the active set is the candidate set whenever the two differ in partitions or in a `to`;
otherwise nothing is touched (no client call, no reassignment, no duplicate delivery) -/
theorem refresh_effect (s : St) :
    (changed (candidates s) s.active = true →
        (refresh s).1.active = candidates s ∧
        (refresh s).2.calls = [.unassign, .assign ((candidates s).map (fun c => (c.1, c.2.assignOff)))] ∧
        (refresh s).1.cursor = (candidates s).map (fun c => (c.1, c.2.assignOff))) ∧
    (changed (candidates s) s.active = false → refresh s = (s, {})) := by
  unfold refresh
  constructor
  · intro h; simp [h]
  · intro h; simp [h]

/-- refresh never emits and never broadcasts -/
theorem refresh_silent (s : St) : (refresh s).2.emits = [] ∧ (refresh s).2.bcasts = [] := by
  by_cases h : changed (candidates s) s.active = true <;> simp [refresh, h]

/-- **revocation stops emission**: after `revoke` nothing is active, so no record of any partition is emitted any more
(until ownership and a refresh return) -/
theorem revoke_stops (s : St) : (step s .revoke).1.active = [] := by
  simp only [step, refresh]
  have hc : candidates { s with owned := [] } = [] := by simp [candidates]
  rw [hc]
  by_cases h : s.active = []
  · simp [changed, h]
  · have : changed [] s.active = true := by
      unfold changed
      cases hs : s.active with
      | nil => exact absurd hs h
      | cons a l => simp
    simp [this]

theorem revoke_then_silent (s : St) (p o : Int) :
    (recover (step s .revoke).1 p o).2.emits = [] := by
  have h : (step s .revoke).1.active.get? p = none := by rw [revoke_stops]; rfl
  rw [C07.inactive_silent _ p o h]

/-- **a successor resumes at the broadcast progress point**: an instance that holds no in-memory window for `p`
(new process, or `p` newly assigned) starts `p` exactly at the `from` of the replicated oldest request -/
theorem successor_resumes (s : St) (p : Int) (r : Tracker.Req) (hact : s.active.get? p = none)
    (hreq : Tracker.get s.tracker p = some r) (hown : p ∈ s.owned) :
    (candidates s).get? p = some ⟨r.fromO, r.fromO, r.toO⟩ := by
  rw [candidates_char]
  simp [hown, candFor, hreq, hact]

/-- a crash leaves the replicated requests untouched and forgets everything else -/
theorem crash_state (s : St) :
    (step s .crash).1.tracker = s.tracker ∧ (step s .crash).1.active = [] ∧ (step s .crash).1.cursor = [] := by
  simp [step]

/-- **old and new owner together cover the window**: the old owner, reading from `x`, emitted `[x, x+n)` and
broadcast a progress point `q` with `x ≤ q ≤ x+n` (any of the records it emitted, or its start); the successor, reading
from `q`, emits `[q, t)`; every offset of `[x, t)` is emitted by one of them and nothing outside `[x, t)` by either -/
theorem crash_union (x t q : Int) (n m : Nat) (hq1 : x ≤ q) (hq2 : q ≤ x + n) (hn : x + n ≤ t) (hm : q + m = t) (o : Int) :
    (o ∈ (List.range n).map (fun (i : Nat) => x + (i : Int)) ∨ o ∈ (List.range m).map (fun (i : Nat) => q + (i : Int)))
      ↔ (x ≤ o ∧ o < t) := by
  simp only [List.mem_map, List.mem_range]
  constructor
  · rintro (⟨i, hi, rfl⟩ | ⟨i, hi, rfl⟩) <;> omega
  · intro ⟨h1, h2⟩
    by_cases h : o < q
    · left; exact ⟨(o - x).toNat, by omega, by omega⟩
    · right; exact ⟨(o - q).toNat, by omega, by omega⟩

/-- the two halves of `crash_union` are what the model does (window theorem of C07 applied to both incarnations) -/
theorem crash_union_model (s s' : St) (p x t q : Int) (n m : Nat)
    (h1 : C07.Reading s p x t) (h2 : C07.Reading s' p q t) (hn : x + n ≤ t) (hm : q + m = t)
    (hq1 : x ≤ q) (hq2 : q ≤ x + n) (o : Int) :
    ((⟨p, o, true⟩ : Emit) ∈ C07.emitsOf (run s (C07.polls p n)).2 ∨ (⟨p, o, true⟩ : Emit) ∈ C07.emitsOf (run s' (C07.polls p m)).2)
      ↔ (x ≤ o ∧ o < t) := by
  rw [(C07.window_run n s p x t h1 hn).1, (C07.window_run m s' p q t h2 (by omega)).1]
  rw [← crash_union x t q n m hq1 hq2 hn hm o]
  simp only [List.mem_map, List.mem_range]
  constructor
  · rintro (⟨i, hi, he⟩ | ⟨i, hi, he⟩)
    · left; exact ⟨i, hi, by simpa using he⟩
    · right; exact ⟨i, hi, by simpa using he⟩
  · rintro (⟨i, hi, he⟩ | ⟨i, hi, he⟩)
    · left; exact ⟨i, hi, by rw [he]⟩
    · right; exact ⟨i, hi, by rw [he]⟩

/-- non-vacuity: request, ownership and refresh in either order lead to the same reader state -/
example :
    let s0 : St := { maxRecords := 1000, updateEvery := 5 }
    (run s0 [.req 0 10 14, .own [0, 1], .refresh]).1.active = [(0, ⟨10, 10, 14⟩)] ∧
    (run s0 [.own [0, 1], .refresh, .req 0 10 14, .refresh]).1.active = [(0, ⟨10, 10, 14⟩)] ∧
    (run s0 [.req 0 10 14, .own [0, 1], .refresh, .revoke]).1.active = [] := by
  decide


/-! ### the functions this model was transcribed from are unchanged (regenerated from /repo on every run) -/
theorem source_refreshAssignments : GeneratedSrc.refreshAssignments = ExpectedSrc.refreshAssignments := by rfl
theorem source_partitionAssignmentsChanged : GeneratedSrc.partitionAssignmentsChanged = ExpectedSrc.partitionAssignmentsChanged := by rfl
theorem source_setActivePartitionMap : GeneratedSrc.setActivePartitionMap = ExpectedSrc.setActivePartitionMap := by rfl
theorem source_setAssignedPartitions : GeneratedSrc.setAssignedPartitions = ExpectedSrc.setAssignedPartitions := by rfl
theorem source_revokePartitionAssignments : GeneratedSrc.revokePartitionAssignments = ExpectedSrc.revokePartitionAssignments := by rfl
theorem source_kcReceive : GeneratedSrc.kcReceive = ExpectedSrc.kcReceive := by rfl
theorem source_rcRecoverSingleEvent : GeneratedSrc.rcRecoverSingleEvent = ExpectedSrc.rcRecoverSingleEvent := by rfl


/-! ### functions the model's assumptions rest on (construction, wiring, surrounding calls) are unchanged -/
theorem source_kcShutdown : GeneratedSrc.kcShutdown = ExpectedSrc.kcShutdown := by rfl
theorem source_kcStart : GeneratedSrc.kcStart = ExpectedSrc.kcStart := by rfl

/-! ### several goroutines: the ticker's refresh, revocations and assignments, completions (`Model/RefreshConc.lean`)

The sequential model above takes `RefreshAssignments` as one step.  That is justified by the locking discipline the pins
`source_refreshAssignments` / `source_setAssignedPartitions` show (lock first, everything under it): for every interleaving
of any number of callers the outcome at quiescence is the sequential one. -/

open Firebolt.RefreshConc in
/-- whatever the schedule of the goroutines' steps — refreshes, assignments and revocations (`setOwned`; `refresh`), and
changes of the tracker (`setReq`: requests filed or received, completions) at any moment —: when all calls have returned and
the tracker has not changed since the last refresh built its candidates, the recovery client is assigned exactly the owned
partitions with an outstanding request -/
theorem refresh_any_interleaving (s0 : Sys) (h0 : Inv s0) (sched : List Nat)
    (hq : ∀ j, ((run step s0 sched).th j).todo = []) (hst : (run step s0 sched).sh.stale = false) :
    (run step s0 sched).sh.client = (run step s0 sched).sh.active ∧
    ∀ p, p ∈ (run step s0 sched).sh.client ↔ (p ∈ (run step s0 sched).sh.owned ∧ p ∈ (run step s0 sched).sh.reqs) :=
  refresh_serialised s0 h0 sched hq hst

open Firebolt.RefreshConc in
/-- a revocation that has returned leaves the recovery client without partitions, whatever refresh was in flight -/
theorem revocation_any_interleaving (s0 : Sys) (h0 : Inv s0) (sched : List Nat)
    (hq : ∀ j, ((run step s0 sched).th j).todo = []) (hst : (run step s0 sched).sh.stale = false)
    (hrev : (run step s0 sched).sh.owned = []) :
    (run step s0 sched).sh.client = [] :=
  revoked_reads_nothing s0 h0 sched hq hst hrev

open Firebolt.RefreshConc in
/-- the callers cannot block one another for good: while a call is outstanding some goroutine can step -/
theorem refresh_no_deadlock (s : Sys) (hI : Inv s) (j : Nat) (hj : (s.th j).todo ≠ []) :
    ∃ i, (step s i).isSome = true :=
  progress s hI j hj

open Firebolt.RefreshConc in
/-- the test `partitionAssignmentsChanged` makes on two maps is set equality of their keys -/
theorem changed_test_is_set_equality (c a : List Part) (hc : c.Nodup) (ha : a.Nodup) :
    (c.length = a.length ∧ ∀ p ∈ c, p ∈ a) ↔ sameSet c a = true :=
  code_test_iff c a hc ha

open Firebolt.RefreshConc in
/-- the protocol before fix F12 (candidates compared outside the lock) loses a revocation that arrives while a refresh is
in its broker round trip — the history found on the real code, here as a schedule of the old protocol's model -/
theorem protocol_before_F12_lost_revocations :
    let s := run (stepOld demoReq) demo badSchedule
    (s.th 0).todo = [] ∧ (s.th 1).todo = [] ∧ s.sh.holder = none ∧ s.sh.owned = [] ∧ s.sh.client = [0] :=
  old_protocol_loses_revocation

open Firebolt.RefreshConc in
/-- non-vacuity: the demo system (ticker refresh ∥ revocation) satisfies the invariant's start condition -/
theorem refresh_demo_meets_hypotheses : Inv demo := demo_inv

/-! ### the successor learns the progress point from the transport: per key the record that is last in log order -/
theorem source_mrProcessMessage : GeneratedSrc.mrProcessMessage = ExpectedSrc.mrProcessMessage := by rfl
theorem source_mrProcessInitBuffer : GeneratedSrc.mrProcessInitBuffer = ExpectedSrc.mrProcessInitBuffer := by rfl
theorem source_mrProcessEvent : GeneratedSrc.mrProcessEvent = ExpectedSrc.mrProcessEvent := by rfl
theorem source_kcSetup : GeneratedSrc.kcSetup = ExpectedSrc.kcSetup := by rfl

/-! ### influence closure: the pinned functions, and every function of the repository that writes a struct field or package
variable they read, are unchanged (digests regenerated from /repo on every run; a difference names the functions) -/
/-! ### The code itself, translated (`Generated/Trans.lean`, rewritten from /repo on every run by extractor/translate.go)

The `translated_*` theorems are about MiniGo terms the translator produced from the current Go source: for every
environment the translated fragment does what the hand-written model function says.  They are semantic obligations —
a rewrite that preserves the behaviour keeps them provable, a changed comparison, bound or argument does not. -/
section Translated
open Firebolt.MiniGo Firebolt.TransBase

/-- the candidate-building iteration of RefreshAssignments: one lookup in the tracker, one in the active map; for an
outstanding request the candidate is built from the resume offset `candFrom` (progress of the same request is kept, progress
of another request is not — F10) and the request's `to`, and stored under the partition -/
theorem translated_refreshCandidateBody (σ : Env) :
    let r := run Trans.refreshCandidateBody σ
    let f := candFrom (σ "lookup rc.activePartitionMap#1" != 0) (σ "recoveryState.fromOffset") (σ "recoveryState.toOffset")
                              (σ "recoveryRequest.FromOffset") (σ "recoveryRequest.ToOffset")
    r.stuck = false ∧ r.ret = none ∧
    r.calls = [("rc.tracker.GetRecoveryRequest", [σ "partition.Partition"]), ("lookup rc.activePartitionMap", [σ "partition.Partition"])] ++
      (if σ "rc.tracker.GetRecoveryRequest#0" = 0 then [] else
        [("new kafka.TopicPartition {Topic,Partition,Offset}", [σ "partition.Topic", σ "partition.Partition", f]),
         ("new partitionRecoveryState {partition,fromOffset,toOffset}",
            [σ "new kafka.TopicPartition {Topic,Partition,Offset}#0", f, σ "recoveryRequest.ToOffset"])]) ∧
    (r.env "recoveryCandidates[partition.Partition]" =
      if σ "rc.tracker.GetRecoveryRequest#0" = 0 then σ "recoveryCandidates[partition.Partition]"
      else σ "new partitionRecoveryState {partition,fromOffset,toOffset}#0") := by
  by_cases h0 : σ "rc.tracker.GetRecoveryRequest#0" = 0 <;>
  by_cases h1 : σ "lookup rc.activePartitionMap#1" = 0 <;>
  by_cases h2 : σ "recoveryState.toOffset" = σ "recoveryRequest.ToOffset" <;>
  by_cases h3 : σ "recoveryState.fromOffset" > σ "recoveryRequest.FromOffset" <;>
  minigo_simp [Trans.refreshCandidateBody, candFrom, h0, h1, h2, h3] <;> (try omega)

/-- the model's candidate step picks the same resume offset -/
theorem model_candStep_candFrom (s : St) (acc : AList Active) (p : Int) :
    candStep s acc p =
      match Tracker.get s.tracker p with
      | none => acc
      | some r =>
        let f := match s.active.get? p with
          | some a => candFrom true a.fromO a.toO r.fromO r.toO
          | none => r.fromO
        acc.set p ⟨f, f, r.toO⟩ := by
  unfold candStep candFrom
  cases Tracker.get s.tracker p <;> simp
  cases s.active.get? p <;> simp

/-- what one iteration of the candidate loop of RefreshAssignments reads for partition `p`: the tracker's oldest request
and the entry of the active map, as they are in state `s` -/
def bindOwned (σ : Env) (s : St) (p : Int) : Env :=
  let r := Tracker.get s.tracker p
  let a := s.active.get? p
  upd (upd (upd (upd (upd (upd (upd σ "partition.Partition" p)
    "rc.tracker.GetRecoveryRequest#0" (if r.isSome then 1 else 0))
    "recoveryRequest.FromOffset" ((r.map (·.fromO)).getD 0)) "recoveryRequest.ToOffset" ((r.map (·.toO)).getD 0))
    "lookup rc.activePartitionMap#1" (if a.isSome then 1 else 0))
    "recoveryState.fromOffset" ((a.map (·.fromO)).getD 0)) "recoveryState.toOffset" ((a.map (·.toO)).getD 0)

/-- the candidate an iteration constructs, read off its two construction events -/
def candOfCalls (calls : List (String × List Int)) : Option Active :=
  match calls.find? (fun c => c.1 == "new kafka.TopicPartition {Topic,Partition,Offset}"),
        calls.find? (fun c => c.1 == "new partitionRecoveryState {partition,fromOffset,toOffset}") with
  | some (_, [_, _, off]), some (_, [_, f, t]) => some ⟨off, f, t⟩
  | _, _ => none

/-- `for _, partition := range rc.assignedPartitions { body }`: the body once per owned partition, in order; a constructed
candidate is stored under the partition (`recoveryCandidates[partition.Partition] = recoveryState`) -/
def rangeOwned (body : S) (s : St) : List Int → Env → AList Active → AList Active
  | [], _, acc => acc
  | p :: rest, σ, acc =>
    let r := run body (bindOwned σ s p)
    rangeOwned body s rest r.env (match candOfCalls r.calls with | some a => acc.set p a | none => acc)

/-- **the candidate loop of RefreshAssignments = the model's `candidates`**: for every state and every list of owned
partitions the map built by the translated loop is `owned.foldl (candStep s)` -/
theorem translated_refreshCandidates_loop (s : St) (owned : List Int) : ∀ (σ : Env) (acc : AList Active),
    rangeOwned Trans.refreshCandidateBody s owned σ acc = owned.foldl (candStep s) acc := by
  induction owned with
  | nil => intro σ acc; rfl
  | cons p rest ih =>
    intro σ acc
    simp only [rangeOwned, List.foldl_cons]
    rw [ih]
    congr 1
    have hb := translated_refreshCandidateBody (bindOwned σ s p)
    simp only [] at hb
    obtain ⟨_, _, hc, _⟩ := hb
    rw [hc, model_candStep_candFrom]
    cases hr : Tracker.get s.tracker p with
    | none => simp [bindOwned, hr, candOfCalls]
    | some r =>
      cases ha : s.active.get? p with
      | none => simp [bindOwned, hr, ha, candOfCalls, candFrom]
      | some a => simp [bindOwned, hr, ha, candOfCalls, candFrom]

theorem translated_refreshCandidates (s : St) (σ : Env) :
    rangeOwned Trans.refreshCandidateBody s s.owned σ [] = candidates s :=
  translated_refreshCandidates_loop s s.owned σ []


/-- revokePartitionAssignments, translated: assignments in flight are cancelled and the assignment lock taken, the client is
unassigned, and — **whether or not Unassign failed** — a consumer with parallel recovery tells its recovery consumer that it
owns nothing and refreshes it before the revocation returns; without parallel recovery nothing else happens -/
theorem translated_revoke (σ : Env) :
    obs Trans.kcRevoke σ = TransExpected.kcRevoke σ := by
  by_cases h1 : σ "k.consumer.Unassign#0" = 0 <;> by_cases h2 : σ "k.recoveryConsumerEnabled" = 0 <;>
  by_cases h3 : σ "k.recoveryConsumer.RefreshAssignments#0" = 0 <;>
  minigo_simp [TransExpected.kcRevoke, Trans.kcRevoke, h1, h2, h3]


/-- what one iteration of partitionAssignmentsChanged reads for candidate `(p, c)`: whether `p` is in the active map, and the
two `to` offsets -/
def bindCand (σ : Env) (act : AList Active) (p : Int) (c : Active) : Env :=
  upd (upd (upd σ "lookup rc.activePartitionMap#1" (if (act.get? p).isSome then 1 else 0))
    "candidate.toOffset" c.toO) "activePartitionRecoveryState.toOffset" (((act.get? p).map (·.toO)).getD 0)

/-- `for _, candidate := range candidates { body }` with a body that may `return true`: the first iteration that returns
decides; if none does the loop falls through (`false`) -/
def rangeChanged (body : S) (act : AList Active) : List (Int × Active) → Env → Bool
  | [], _ => false
  | (p, c) :: rest, σ =>
    let r := run body (bindCand σ act p c)
    if r.ret.isSome then true else rangeChanged body act rest r.env

theorem changedBody_ret (σ : Env) :
    (run Trans.changedBody σ).ret =
      if σ "lookup rc.activePartitionMap#1" = 0 ∨ σ "candidate.toOffset" ≠ σ "activePartitionRecoveryState.toOffset"
      then some [1] else none := by
  by_cases h1 : σ "lookup rc.activePartitionMap#1" = 0 <;>
  by_cases h2 : σ "candidate.toOffset" = σ "activePartitionRecoveryState.toOffset" <;>
  minigo_simp [Trans.changedBody, h1, h2]

/-- **the loop of partitionAssignmentsChanged = the `any` of the model's `changed`**: some candidate is not in the active map
or is there with another `to` -/
theorem translated_changed_loop (act : AList Active) (cands : List (Int × Active)) : ∀ σ : Env,
    rangeChanged Trans.changedBody act cands σ =
      cands.any (fun c => match act.get? c.1 with
        | none => true
        | some a => c.2.toO ≠ a.toO) := by
  induction cands with
  | nil => intro σ; rfl
  | cons x rest ih =>
    obtain ⟨p, c⟩ := x
    intro σ
    simp only [rangeChanged, List.any_cons]
    rw [changedBody_ret, ih]
    cases h : act.get? p with
    | none => simp [bindCand, h]
    | some a =>
      by_cases e : c.toO = a.toO <;> simp [bindCand, h, e]

end Translated

theorem closure_unchanged : GeneratedClo.C09 = ExpectedClo.C09 := by rfl

end Firebolt.C09
