import Firebolt.Model.Exec
/-!
# Close cascade and lifecycle ordering of one node, under every schedule (C03, C05; used by C01, C02, C04)

`Inv` is an inductive invariant of the component model `Model/Exec.lean`: it holds initially and is preserved by every
enabled action, hence in every state reachable under ANY interleaving of the node's workers, asynchronous completions,
the upstream and the downstream consumers.  Consequences (`reachable_*` below):
* a send is never attempted on a closed channel and no channel is closed twice (`panic` is unreachable);
* the node's Shutdown begins only when no processing call is in progress and no worker can take another event;
* children and error handler are closed only after Shutdown has returned, when no asynchronous completion is outstanding;
* at most `W` processing calls are in progress.
-/
namespace Firebolt.Exec

def cnt (W : Nat) (f : Nat → Pc) (P : Pc → Bool) : Nat :=
  match W with
  | 0 => 0
  | W + 1 => cnt W f P + (if P (f W) then 1 else 0)

theorem cnt_upd_ge (W : Nat) (f : Nat → Pc) (P : Pc → Bool) (w : Nat) (v : Pc) (h : W ≤ w) :
    cnt W (upd f w v) P = cnt W f P := by
  induction W with
  | zero => rfl
  | succ W ih =>
    simp only [cnt]; rw [ih (by omega), upd_other _ _ _ _ (by omega : W ≠ w)]

theorem cnt_upd (W : Nat) (f : Nat → Pc) (P : Pc → Bool) (w : Nat) (v : Pc) (h : w < W) :
    cnt W (upd f w v) P + (if P (f w) then 1 else 0) = cnt W f P + (if P v then 1 else 0) := by
  induction W with
  | zero => omega
  | succ W ih =>
    simp only [cnt]
    by_cases hw : w = W
    · subst hw; rw [cnt_upd_ge _ _ _ _ _ (Nat.le_refl _)]; simp; omega
    · have := ih (by omega); rw [upd_other _ _ _ _ (fun h => hw h.symm)]; omega

theorem cnt_pos_of (W : Nat) (f : Nat → Pc) (P : Pc → Bool) (w : Nat) (h : w < W) (hp : P (f w) = true) :
    0 < cnt W f P := by
  induction W with
  | zero => omega
  | succ W ih =>
    simp only [cnt]
    by_cases hw : w = W
    · subst hw; simp [hp]
    · have := ih (by omega); omega

theorem cnt_zero_all (W : Nat) (f : Nat → Pc) (P : Pc → Bool) (h : cnt W f P = 0) (w : Nat) (hw : w < W) :
    P (f w) = false := by
  cases hp : P (f w) with
  | false => rfl
  | true => have := cnt_pos_of W f P w hw hp; omega

theorem cnt_le (W : Nat) (f : Nat → Pc) (P : Pc → Bool) : cnt W f P ≤ W := by
  induction W with
  | zero => simp [cnt]
  | succ W ih => simp only [cnt]; split <;> omega

theorem cnt_const (W : Nat) (v : Pc) (P : Pc → Bool) : cnt W (fun _ => v) P = if P v then W else 0 := by
  induction W with
  | zero => simp [cnt]
  | succ W ih => simp only [cnt, ih]; split <;> omega

structure Inv (c : Cfg) (s : St) : Prop where
  wg_live : s.wg = cnt c.W s.pc Pc.live
  past_wg : ∀ w, w < c.W → (s.pc w).past = true → s.wg = 0
  holders : cnt c.W s.pc Pc.holder = (if s.onceTaken && !s.onceDone then 1 else 0)
  done_taken : s.onceDone = true → s.onceTaken = true
  taken_wg : s.onceTaken = true → s.wg = 0
  closed_iff : ∀ k, (s.outs k).closed = (s.onceDone && decide (k < c.K))
  started_taken : s.shutStarted = true → s.onceTaken = true
  done_started : s.shutDone = true → s.shutStarted = true
  done_quiet : s.shutDone = true → s.pending = [] ∧ s.cbs = []
  hclose_done : ∀ w, w < c.W → s.pc w = .hClose → s.shutDone = true
  oncedone_shut : s.onceDone = true → s.shutDone = true
  hsh_not_started : ∀ w, w < c.W → s.pc w = .hSh → s.shutStarted = false
  hshin_started : ∀ w, w < c.W → s.pc w = .hShIn → s.shutStarted = true
  no_panic : s.panic = false

theorem init_inv (c : Cfg) (caps : Nat → Nat) (disc : Nat → Bool) : Inv c (init c caps disc) := by
  refine ⟨?_, ?_, ?_, ?_, ?_, ?_, ?_, ?_, ?_, ?_, ?_, ?_, ?_, ?_⟩ <;> simp [init, cnt_const, Pc.live, Pc.holder, Pc.past]

/-- effect of moving worker `w` to `v` on the derived counts -/
theorem move (W : Nat) (f : Nat → Pc) (w : Nat) (v : Pc) (hw : w < W) :
    (cnt W (upd f w v) Pc.live + (if (f w).live then 1 else 0) = cnt W f Pc.live + (if v.live then 1 else 0)) ∧
    (cnt W (upd f w v) Pc.holder + (if (f w).holder then 1 else 0) = cnt W f Pc.holder + (if v.holder then 1 else 0)) ∧
    (∀ u, u < W → ((upd f w v) u).past = true → (u = w ∧ v.past = true) ∨ (u ≠ w ∧ (f u).past = true)) ∧
    (∀ u, u < W → ∀ q, (upd f w v) u = q → (u = w ∧ v = q) ∨ (u ≠ w ∧ f u = q)) := by
  refine ⟨cnt_upd W f _ w v hw, cnt_upd W f _ w v hw, ?_, ?_⟩
  · intro u _ hp
    by_cases h : u = w
    · subst h; simp at hp; exact Or.inl ⟨rfl, hp⟩
    · rw [upd_other _ _ _ _ h] at hp; exact Or.inr ⟨h, hp⟩
  · intro u _ q hq
    by_cases h : u = w
    · subst h; simp at hq; exact Or.inl ⟨rfl, hq⟩
    · rw [upd_other _ _ _ _ h] at hq; exact Or.inr ⟨h, hq⟩

/-- what a send attempt can change -/
theorem trySend_frame (s s' : St) (k : Nat) (x : Ev) (h : trySend s k x = some s') :
    s'.pc = s.pc ∧ s'.wg = s.wg ∧ s'.onceTaken = s.onceTaken ∧ s'.onceDone = s.onceDone ∧ s'.shutStarted = s.shutStarted ∧
    s'.shutDone = s.shutDone ∧ s'.pending = s.pending ∧ s'.cbs = s.cbs ∧ (∀ j, (s'.outs j).closed = (s.outs j).closed) ∧
    (s'.panic = (s.panic || (s.outs k).closed)) := by
  unfold trySend at h
  by_cases hc : (s.outs k).closed = true
  · simp [hc] at h; subst h; simp [hc]
  · simp only [hc] at h
    by_cases hr : (s.outs k).buf.length < (s.outs k).cap
    · simp [hr] at h; subst h
      have hcf : (s.outs k).closed = false := by simpa using hc
      refine ⟨rfl, rfl, rfl, rfl, rfl, rfl, rfl, rfl, ?_, by simp [hcf]⟩
      intro j; by_cases hj : j = k
      · subst hj; simp [hcf]
      · simp [upd_other _ _ _ _ hj]
    · simp only [hr] at h
      by_cases hd : (s.outs k).discard = true
      · have hcf : (s.outs k).closed = false := by simpa using hc
        simp [hd] at h; subst h; simp [hcf]
      · simp [hd] at h

theorem resolve_frame (c : Cfg) (s : St) (e : Ev) :
    (resolve c s e).pc = s.pc ∧ (resolve c s e).wg = s.wg ∧ (resolve c s e).onceTaken = s.onceTaken ∧
    (resolve c s e).onceDone = s.onceDone ∧ (resolve c s e).shutStarted = s.shutStarted ∧ (resolve c s e).shutDone = s.shutDone ∧
    (resolve c s e).pending = s.pending ∧ (resolve c s e).cbs = s.cbs ∧ (resolve c s e).outs = s.outs ∧ (resolve c s e).panic = s.panic := by
  simp [resolve]

macro "og" h:ident : tactic => `(tactic| (split at $h:ident; rotate_left; (simp at $h:ident)))

/-- generic re-establishment of the invariant when a live, non-holder, non-past worker moves to another such state and
nothing else of the cascade state changes -/
theorem inv_of_live_move (c : Cfg) (s s' : St) (w : Nat) (v : Pc) (hw : w < c.W) (h : Inv c s)
    (hlive : (s.pc w).live = true) (hv : v.live = true) (hvh : v.holder = false) (hvp : v.past = false)
    (hne : v ≠ .hClose ∧ v ≠ .hSh ∧ v ≠ .hShIn)
    (hpc : s'.pc = upd s.pc w v) (hwg : s'.wg = s.wg) (h1 : s'.onceTaken = s.onceTaken) (h2 : s'.onceDone = s.onceDone)
    (h3 : s'.shutStarted = s.shutStarted) (h4 : s'.shutDone = s.shutDone) (h5 : s'.pending = s.pending) (h6 : s'.cbs = s.cbs)
    (h7 : ∀ j, (s'.outs j).closed = (s.outs j).closed) (h8 : s'.panic = s.panic) : Inv c s' := by
  obtain ⟨i1, i2, i3, i4, i5, i6, i7, i8, i9, i10, i11, i12, i14, i13⟩ := h
  obtain ⟨m1, m2, m3, m4⟩ := move c.W s.pc w v hw
  have hnh : (s.pc w).holder = false := by cases hp : s.pc w <;> simp [hp, Pc.live, Pc.holder] at hlive ⊢
  simp [hlive, hv, hvh, hnh] at m1 m2
  refine ⟨by rw [hwg, hpc]; omega, ?_, by rw [hpc, h1, h2]; omega, by rw [h1, h2]; exact i4, by rw [h1, hwg]; exact i5,
          by intro k; rw [h7, h2]; exact i6 k, by rw [h3, h1]; exact i7, by rw [h4, h3]; exact i8, by rw [h4, h5, h6]; exact i9,
          ?_, by rw [h2, h4]; exact i11, ?_, ?_, by rw [h8]; exact i13⟩
  · intro u hu hp; rw [hpc] at hp; rw [hwg]
    rcases m3 u hu hp with ⟨_, hx⟩ | ⟨_, hx⟩
    · rw [hvp] at hx; cases hx
    · exact i2 u hu hx
  · intro u hu hq; rw [hpc] at hq; rw [h4]
    rcases m4 u hu _ hq with ⟨_, hx⟩ | ⟨_, hx⟩
    · exact absurd hx hne.1
    · exact i10 u hu hx
  · intro u hu hq; rw [hpc] at hq; rw [h3]
    rcases m4 u hu _ hq with ⟨_, hx⟩ | ⟨_, hx⟩
    · exact absurd hx hne.2.1
    · exact i12 u hu hx
  · intro u hu hq; rw [hpc] at hq; rw [h3]
    rcases m4 u hu _ hq with ⟨_, hx⟩ | ⟨_, hx⟩
    · exact absurd hx hne.2.2
    · exact i14 u hu hx

/-- re-establishment when no worker moves and only buffers, ledgers, counters change -/
theorem inv_of_frame (c : Cfg) (s s' : St) (h : Inv c s)
    (hpc : s'.pc = s.pc) (hwg : s'.wg = s.wg) (h1 : s'.onceTaken = s.onceTaken) (h2 : s'.onceDone = s.onceDone)
    (h3 : s'.shutStarted = s.shutStarted) (h4 : s'.shutDone = s.shutDone)
    (h56 : s'.shutDone = true → s'.pending = [] ∧ s'.cbs = [])
    (h7 : ∀ j, (s'.outs j).closed = (s.outs j).closed) (h8 : s'.panic = s.panic) : Inv c s' := by
  obtain ⟨i1, i2, i3, i4, i5, i6, i7, i8, i9, i10, i11, i12, i14, i13⟩ := h
  exact ⟨by rw [hwg, hpc]; exact i1, by rw [hpc, hwg]; exact i2, by rw [hpc, h1, h2]; exact i3, by rw [h1, h2]; exact i4,
         by rw [h1, hwg]; exact i5, by intro k; rw [h7, h2]; exact i6 k, by rw [h3, h1]; exact i7, by rw [h4, h3]; exact i8, h56,
         by rw [hpc, h4]; exact i10, by rw [h2, h4]; exact i11, by rw [hpc, h3]; exact i12, by rw [hpc, h3]; exact i14, by rw [h8]; exact i13⟩

/-- when some worker is live, nothing has been shut down or closed yet -/
theorem live_facts (c : Cfg) (s : St) (h : Inv c s) (w : Nat) (hw : w < c.W) (hl : (s.pc w).live = true) :
    s.onceTaken = false ∧ s.onceDone = false ∧ s.shutStarted = false ∧ s.shutDone = false ∧ ∀ k, (s.outs k).closed = false := by
  have hpos := cnt_pos_of c.W s.pc _ w hw hl
  have hwg : s.wg ≠ 0 := by rw [h.wg_live]; omega
  have h1 : s.onceTaken = false := by
    cases ht : s.onceTaken with
    | false => rfl
    | true => exact absurd (h.taken_wg ht) hwg
  have h2 : s.onceDone = false := by
    cases hd : s.onceDone with
    | false => rfl
    | true => have := h.done_taken hd; rw [h1] at this; cases this
  have h3 : s.shutStarted = false := by
    cases hd : s.shutStarted with
    | false => rfl
    | true => have := h.started_taken hd; rw [h1] at this; cases this
  have h4 : s.shutDone = false := by
    cases hd : s.shutDone with
    | false => rfl
    | true => have := h.done_started hd; rw [h3] at this; cases this
  exact ⟨h1, h2, h3, h4, fun k => by rw [h.closed_iff k, h2]; rfl⟩

theorem step_inv (c : Cfg) (s s' : St) (a : Act) (h : Inv c s) (hs : step c s a = some s') : Inv c s' := by
  cases a with
  | upSend e =>
    simp only [step] at hs; split at hs <;> simp at hs; subst hs
    exact inv_of_frame c s _ h rfl rfl rfl rfl rfl rfl h.done_quiet (fun _ => rfl) rfl
  | upClose =>
    simp only [step] at hs; split at hs <;> simp at hs; subst hs
    exact inv_of_frame c s _ h rfl rfl rfl rfl rfl rfl h.done_quiet (fun _ => rfl) rfl
  | recv w =>
    simp only [step] at hs; og hs
    rename_i hw; og hs
    rename_i e rest hpc _
    have hl : (s.pc w).live = true := by simp [hpc, Pc.live]
    obtain ⟨f1, f2, f3, f4, f5⟩ := live_facts c s h w hw hl
    split at hs
    · cases hs
      exact inv_of_frame c s _ h rfl rfl rfl rfl rfl rfl (by simp [f4]) (fun _ => rfl) rfl
    · cases hs
      exact inv_of_live_move c s _ w (.proc e) hw h hl (by simp [Pc.live]) (by simp [Pc.holder]) (by simp [Pc.past])
        ⟨by simp, by simp, by simp⟩ rfl rfl rfl rfl rfl rfl rfl rfl (fun _ => rfl) rfl
  | procReturn w =>
    simp only [step] at hs; og hs
    rename_i hw; og hs
    rename_i e hpc; cases hs
    have hl : (s.pc w).live = true := by simp [hpc, Pc.live]
    obtain ⟨r1, r2, r3, r4, r5, r6, r7, r8, r9, r10⟩ := resolve_frame c s e
    exact inv_of_live_move c s _ w (.deliver (todoOf c e (c.oracle e))) hw h hl (by simp [Pc.live]) (by simp [Pc.holder]) (by simp [Pc.past])
      ⟨by simp, by simp, by simp⟩ (by simp [r1]) (by simp [r2]) (by simp [r3]) (by simp [r4]) (by simp [r5]) (by simp [r6]) (by simp [r7]) (by simp [r8])
      (fun j => by simp [r9]) (by simp [r10])
  | complete i =>
    simp only [step] at hs; og hs
    rename_i e he; cases hs
    obtain ⟨r1, r2, r3, r4, r5, r6, r7, r8, r9, r10⟩ := resolve_frame c s e
    have hne : s.pending ≠ [] := by intro hn; rw [hn] at he; simp at he
    have hsd : s.shutDone = false := by
      cases hd : s.shutDone with
      | false => rfl
      | true => exact absurd (h.done_quiet hd).1 hne
    exact inv_of_frame c s _ h (by simp [r1]) (by simp [r2]) (by simp [r3]) (by simp [r4]) (by simp [r5]) (by simp [r6])
      (by simp [r6, hsd]) (fun j => by simp [r9]) (by simp [r10])
  | send w =>
    simp only [step] at hs; og hs
    rename_i hw; og hs
    rename_i k x todo hpc
    have hl : (s.pc w).live = true := by simp [hpc, Pc.live]
    obtain ⟨f1, f2, f3, f4, f5⟩ := live_facts c s h w hw hl
    cases ht : trySend s k x with
    | none => simp [ht] at hs
    | some s1 =>
      simp [ht] at hs; subst hs
      obtain ⟨t1, t2, t3, t4, t5, t6, t7, t8, t9, t10⟩ := trySend_frame s s1 k x ht
      exact inv_of_live_move c s _ w (.deliver todo) hw h hl (by simp [Pc.live]) (by simp [Pc.holder]) (by simp [Pc.past])
        ⟨by simp, by simp, by simp⟩ (by simp [t1]) (by simp [t2]) (by simp [t3]) (by simp [t4]) (by simp [t5]) (by simp [t6]) (by simp [t7]) (by simp [t8])
        (fun j => by simp [t9]) (by simp [t10, f5 k])
  | finish w =>
    simp only [step] at hs; og hs
    rename_i hw; og hs
    rename_i hpc; cases hs
    have hl : (s.pc w).live = true := by simp [hpc, Pc.live]
    exact inv_of_live_move c s _ w .idle hw h hl (by simp [Pc.live]) (by simp [Pc.holder]) (by simp [Pc.past])
      ⟨by simp, by simp, by simp⟩ rfl rfl rfl rfl rfl rfl rfl rfl (fun _ => rfl) rfl
  | cbSend i =>
    simp only [step] at hs; og hs
    rename_i k x todo he
    have hne : s.cbs ≠ [] := by intro hn; rw [hn] at he; simp at he
    have hsd : s.shutDone = false := by
      cases hd : s.shutDone with
      | false => rfl
      | true => exact absurd (h.done_quiet hd).2 hne
    have hod : s.onceDone = false := by
      cases hd : s.onceDone with
      | false => rfl
      | true => have := h.oncedone_shut hd; rw [hsd] at this; cases this
    cases ht : trySend s k x with
    | none => simp [ht] at hs
    | some s1 =>
      simp [ht] at hs; subst hs
      obtain ⟨t1, t2, t3, t4, t5, t6, t7, t8, t9, t10⟩ := trySend_frame s s1 k x ht
      have hcl : (s.outs k).closed = false := by rw [h.closed_iff k, hod]; rfl
      exact inv_of_frame c s _ h (by simp [t1]) (by simp [t2]) (by simp [t3]) (by simp [t4]) (by simp [t5]) (by simp [t6])
        (by simp [t6, hsd]) (fun j => by simp [t9]) (by simp [t10, hcl])
  | cbFinish i =>
    simp only [step] at hs; og hs
    rename_i he; cases hs
    have hne : s.cbs ≠ [] := by intro hn; rw [hn] at he; simp at he
    have hsd : s.shutDone = false := by
      cases hd : s.shutDone with
      | false => rfl
      | true => exact absurd (h.done_quiet hd).2 hne
    exact inv_of_frame c s _ h rfl rfl rfl rfl rfl rfl (by simp [hsd]) (fun _ => rfl) rfl
  | seeClosed w =>
    simp only [step] at hs; og hs
    rename_i hw; og hs
    rename_i hpc _; og hs
    cases hs
    have hl : (s.pc w).live = true := by simp [hpc, Pc.live]
    exact inv_of_live_move c s _ w .c1 hw h hl (by simp [Pc.live]) (by simp [Pc.holder]) (by simp [Pc.past])
      ⟨by simp, by simp, by simp⟩ rfl rfl rfl rfl rfl rfl rfl rfl (fun _ => rfl) rfl
  | wgDone w =>
    simp only [step] at hs; og hs
    rename_i hw; og hs
    rename_i hpc; cases hs
    obtain ⟨i1, i2, i3, i4, i5, i6, i7, i8, i9, i10, i11, i12, i14, i13⟩ := h
    obtain ⟨m1, m2, m3, m4⟩ := move c.W s.pc w .c2 hw
    simp [hpc, Pc.live, Pc.holder] at m1 m2
    have hlive : 0 < cnt c.W s.pc Pc.live := cnt_pos_of c.W s.pc _ w hw (by simp [hpc, Pc.live])
    refine ⟨by simp; omega, ?_, (by have h3' := i3; simp at h3' ⊢; omega), i4, ?_, i6, i7, i8, i9, ?_, i11, ?_, ?_, i13⟩
    · intro u hu hp; rcases m3 u hu hp with ⟨_, hv⟩ | ⟨_, hv⟩
      · simp [Pc.past] at hv
      · have := i2 u hu hv; simp; omega
    · intro ht; have := i5 ht; simp; omega
    · intro u hu hq; rcases m4 u hu _ hq with ⟨_, hx⟩ | ⟨_, hx⟩
      · cases hx
      · exact i10 u hu hx
    · intro u hu hq; rcases m4 u hu _ hq with ⟨_, hx⟩ | ⟨_, hx⟩
      · cases hx
      · exact i12 u hu hx
    · intro u hu hq; rcases m4 u hu _ hq with ⟨_, hx⟩ | ⟨_, hx⟩
      · cases hx
      · exact i14 u hu hx
  | wgWait w =>
    simp only [step] at hs; og hs
    rename_i hw; og hs
    rename_i hpc; og hs
    rename_i hz; cases hs
    obtain ⟨i1, i2, i3, i4, i5, i6, i7, i8, i9, i10, i11, i12, i14, i13⟩ := h
    obtain ⟨m1, m2, m3, m4⟩ := move c.W s.pc w .c3 hw
    simp [hpc, Pc.live, Pc.holder] at m1 m2
    refine ⟨by simp; omega, fun _ _ _ => hz, (by have h3' := i3; simp at h3' ⊢; omega), i4, i5, i6, i7, i8, i9, ?_, i11, ?_, ?_, i13⟩
    · intro u hu hq; rcases m4 u hu _ hq with ⟨_, hx⟩ | ⟨_, hx⟩
      · cases hx
      · exact i10 u hu hx
    · intro u hu hq; rcases m4 u hu _ hq with ⟨_, hx⟩ | ⟨_, hx⟩
      · cases hx
      · exact i12 u hu hx
    · intro u hu hq; rcases m4 u hu _ hq with ⟨_, hx⟩ | ⟨_, hx⟩
      · cases hx
      · exact i14 u hu hx
  | onceEnter w =>
    simp only [step] at hs; og hs
    rename_i hw; og hs
    rename_i hpc
    obtain ⟨i1, i2, i3, i4, i5, i6, i7, i8, i9, i10, i11, i12, i14, i13⟩ := h
    have hz : s.wg = 0 := i2 w hw (by simp [hpc, Pc.past])
    split at hs
    · rename_i hnt; cases hs
      obtain ⟨m1, m2, m3, m4⟩ := move c.W s.pc w .hSh hw
      simp [hpc, Pc.live, Pc.holder] at m1 m2
      simp at hnt
      have hnd : s.onceDone = false := by
        cases hd : s.onceDone with
        | false => rfl
        | true => have := i4 hd; simp [hnt] at this
      have hns : s.shutStarted = false := by
        cases hd : s.shutStarted with
        | false => rfl
        | true => have := i7 hd; simp [hnt] at this
      refine ⟨by simp; omega, fun _ _ _ => hz, ?_, by simp, by simp; exact hz, by simpa using i6, by simp, i8, i9, ?_, i11, ?_, ?_, i13⟩
      · simp [hnt, hnd] at i3 ⊢; omega
      · intro u hu hq; rcases m4 u hu _ hq with ⟨_, hx⟩ | ⟨_, hx⟩
        · cases hx
        · exact i10 u hu hx
      · intro u hu hq; exact hns
      · intro u hu hq; rcases m4 u hu _ hq with ⟨_, hx⟩ | ⟨_, hx⟩
        · cases hx
        · exact i14 u hu hx
    · og hs
      rename_i hd; cases hs
      obtain ⟨m1, m2, m3, m4⟩ := move c.W s.pc w .exited hw
      simp [hpc, Pc.live, Pc.holder] at m1 m2
      refine ⟨by simp; omega, fun _ _ _ => hz, (by have h3' := i3; simp at h3' ⊢; omega), i4, i5, i6, i7, i8, i9, ?_, i11, ?_, ?_, i13⟩
      · intro u hu hq; rcases m4 u hu _ hq with ⟨_, hx⟩ | ⟨_, hx⟩
        · cases hx
        · exact i10 u hu hx
      · intro u hu hq; rcases m4 u hu _ hq with ⟨_, hx⟩ | ⟨_, hx⟩
        · cases hx
        · exact i12 u hu hx
      · intro u hu hq; rcases m4 u hu _ hq with ⟨_, hx⟩ | ⟨_, hx⟩
        · cases hx
        · exact i14 u hu hx
  | shutEnter w =>
    simp only [step] at hs; og hs
    rename_i hw; og hs
    rename_i hpc; cases hs
    obtain ⟨i1, i2, i3, i4, i5, i6, i7, i8, i9, i10, i11, i12, i14, i13⟩ := h
    have hz : s.wg = 0 := i2 w hw (by simp [hpc, Pc.past])
    have hh : 0 < cnt c.W s.pc Pc.holder := cnt_pos_of c.W s.pc _ w hw (by simp [hpc, Pc.holder])
    have ht : s.onceTaken = true := by
      cases htk : s.onceTaken with
      | true => rfl
      | false => simp [htk] at i3; omega
    have hnd : s.onceDone = false := by
      cases hd : s.onceDone with
      | false => rfl
      | true => simp [hd] at i3; omega
    have hns := i12 w hw hpc
    have hsd : s.shutDone = false := by
      cases hd : s.shutDone with
      | false => rfl
      | true => have := i8 hd; rw [hns] at this; cases this
    obtain ⟨m1, m2, m3, m4⟩ := move c.W s.pc w .hShIn hw
    simp [hpc, Pc.live, Pc.holder] at m1 m2
    refine ⟨by simp; omega, fun _ _ _ => hz, (by have h3' := i3; simp at h3' ⊢; omega), i4, i5, i6, fun _ => ht, fun _ => rfl, i9, ?_, i11, ?_, fun _ _ _ => rfl, i13⟩
    · intro u hu hq; rcases m4 u hu _ hq with ⟨_, hx⟩ | ⟨_, hx⟩
      · cases hx
      · exact i10 u hu hx
    · -- no other worker can be at hSh: there is exactly one holder
      intro u hu hq
      rcases m4 u hu _ hq with ⟨_, hx⟩ | ⟨hne, hx⟩
      · cases hx
      · exfalso
        -- two distinct holders contradict `holders`
        have c1 : cnt c.W (upd s.pc w .hShIn) Pc.holder = 1 := by simp [ht, hnd] at i3; omega
        have hpos := cnt_pos_of c.W (upd (upd s.pc w .hShIn) u .idle) Pc.holder w hw (by rw [upd_other _ _ _ _ (Ne.symm hne)]; simp [Pc.holder])
        have := cnt_upd c.W (upd s.pc w .hShIn) Pc.holder u .idle hu
        rw [upd_other _ _ _ _ hne, hx] at this
        simp [Pc.holder] at this
        omega
  | shutExit w =>
    simp only [step] at hs; og hs
    rename_i hw; og hs
    rename_i hpc; og hs
    rename_i hq; cases hs
    obtain ⟨i1, i2, i3, i4, i5, i6, i7, i8, i9, i10, i11, i12, i14, i13⟩ := h
    have hz : s.wg = 0 := i2 w hw (by simp [hpc, Pc.past])
    obtain ⟨m1, m2, m3, m4⟩ := move c.W s.pc w .hClose hw
    simp [hpc, Pc.live, Pc.holder] at m1 m2
    simp at hq
    have hst : s.shutStarted = true := i14 w hw hpc
    refine ⟨by simp; omega, fun _ _ _ => hz, (by have h3' := i3; simp at h3' ⊢; omega), i4, i5, i6, i7, fun _ => hst, fun _ => hq,
            fun _ _ _ => rfl, fun _ => rfl, ?_, ?_, i13⟩
    · intro u hu hq2; rcases m4 u hu _ hq2 with ⟨_, hx⟩ | ⟨_, hx⟩
      · cases hx
      · exact i12 u hu hx
    · intro u hu hq2; rcases m4 u hu _ hq2 with ⟨_, hx⟩ | ⟨_, hx⟩
      · cases hx
      · exact i14 u hu hx
  | closeAll w =>
    simp only [step] at hs; og hs
    rename_i hw; og hs
    rename_i hpc
    obtain ⟨i1, i2, i3, i4, i5, i6, i7, i8, i9, i10, i11, i12, i14, i13⟩ := h
    have hz : s.wg = 0 := i2 w hw (by simp [hpc, Pc.past])
    have hh : 0 < cnt c.W s.pc Pc.holder := cnt_pos_of c.W s.pc _ w hw (by simp [hpc, Pc.holder])
    have hnd : s.onceDone = false := by
      cases hd : s.onceDone with
      | false => rfl
      | true => simp [hd] at i3; omega
    have ht : s.onceTaken = true := by
      cases htk : s.onceTaken with
      | true => rfl
      | false => simp [htk] at i3; omega
    have hsd : s.shutDone = true := i10 w hw hpc
    split at hs
    · -- some channel already closed: impossible, nothing is closed before the Once function finishes
      rename_i hany
      obtain ⟨k, _, hk⟩ := List.any_eq_true.1 hany
      rw [i6 k, hnd] at hk; simp at hk
    · cases hs
      obtain ⟨m1, m2, m3, m4⟩ := move c.W s.pc w .exited hw
      simp [hpc, Pc.live, Pc.holder] at m1 m2
      refine ⟨by simp; omega, fun _ _ _ => hz, ?_, by simp [ht], fun _ => hz, ?_, i7, i8, i9, ?_, fun _ => hsd, ?_, ?_, i13⟩
      · simp [ht, hnd] at i3 ⊢; omega
      · intro k
        by_cases hk : k < c.K
        · simp [hk]
        · simp [hk]; rw [i6 k, hnd]; rfl
      · intro u hu hq2; rcases m4 u hu _ hq2 with ⟨_, hx⟩ | ⟨_, hx⟩
        · cases hx
        · exact i10 u hu hx
      · intro u hu hq2; rcases m4 u hu _ hq2 with ⟨_, hx⟩ | ⟨_, hx⟩
        · cases hx
        · exact i12 u hu hx
      · intro u hu hq2; rcases m4 u hu _ hq2 with ⟨_, hx⟩ | ⟨_, hx⟩
        · cases hx
        · exact i14 u hu hx
  | downRecv k =>
    simp only [step] at hs
    split at hs
    · cases hs
      refine inv_of_frame c s _ h rfl rfl rfl rfl rfl rfl h.done_quiet (fun j => ?_) rfl
      by_cases hj : j = k
      · subst hj; simp
      · simp [upd_other _ _ _ _ hj]
    · simp at hs

/-- **every reachable state satisfies the invariant**, whatever the schedule -/
theorem run_inv (c : Cfg) (s s' : St) (as : List Act) (h : Inv c s) (hr : run c s as = some s') : Inv c s' := by
  induction as generalizing s with
  | nil => simp [run] at hr; subst hr; exact h
  | cons a as ih =>
    simp only [run] at hr
    cases hs : step c s a with
    | none => simp [hs] at hr
    | some s1 => rw [hs] at hr; exact ih s1 (step_inv c s s1 a h hs) hr

theorem reachable_inv (c : Cfg) (caps : Nat → Nat) (disc : Nat → Bool) (as : List Act) (s : St)
    (hr : run c (init c caps disc) as = some s) : Inv c s :=
  run_inv c _ s as (init_inv c caps disc) hr

/-! ### what the invariant means, in the words of the properties -/

/-- **never a send on a closed channel, never a double close**: `panic` is unreachable under every schedule -/
theorem reachable_no_panic (c : Cfg) (caps : Nat → Nat) (disc : Nat → Bool) (as : List Act) (s : St)
    (hr : run c (init c caps disc) as = some s) : s.panic = false :=
  (reachable_inv c caps disc as s hr).no_panic

/-- **Shutdown begins only after all processing calls have returned**: once the node's Shutdown has begun no worker is
inside a processing call or delivering its results, and none can take another event (no worker is idle) -/
theorem shutdown_after_processing (c : Cfg) (s : St) (h : Inv c s) (hs : s.shutStarted = true) (w : Nat) (hw : w < c.W) :
    (s.pc w).live = false := by
  have hz : s.wg = 0 := h.taken_wg (h.started_taken hs)
  have : cnt c.W s.pc Pc.live = 0 := by rw [← h.wg_live]; exact hz
  exact cnt_zero_all c.W s.pc _ this w hw

/-- **no event is handed to a node after its Shutdown has begun** -/
theorem no_event_after_shutdown (c : Cfg) (s s' : St) (h : Inv c s) (hs : s.shutStarted = true) (w : Nat)
    (hstep : step c s (.recv w) = some s') : False := by
  simp only [step] at hstep
  split at hstep
  · rename_i hw
    have hl := shutdown_after_processing c s h hs w hw
    split at hstep
    · rename_i hpc _; rw [hpc] at hl; simp [Pc.live] at hl
    · simp at hstep
  · simp at hstep

/-- **children and error handler stay open until Shutdown has returned** (so an async node can flush in Shutdown), and
when they are closed no completion is outstanding -/
theorem closed_after_shutdown (c : Cfg) (s : St) (h : Inv c s) (k : Nat) (hk : (s.outs k).closed = true) :
    s.shutDone = true ∧ s.pending = [] ∧ s.cbs = [] ∧ ∀ w, w < c.W → (s.pc w).live = false := by
  have hod : s.onceDone = true := by
    have := h.closed_iff k; rw [hk] at this
    cases hd : s.onceDone with
    | true => rfl
    | false => rw [hd] at this; simp at this
  have hsd := h.oncedone_shut hod
  exact ⟨hsd, (h.done_quiet hsd).1, (h.done_quiet hsd).2, fun w hw => shutdown_after_processing c s h (h.done_started hsd) w hw⟩

/-- **Shutdown is called by exactly one worker, once**: at most one Once holder, and only it performs Shutdown and the closes -/
theorem single_holder (c : Cfg) (s : St) (h : Inv c s) : cnt c.W s.pc Pc.holder ≤ 1 := by
  rw [h.holders]; split <;> omega

/-- **at most `W` processing calls are in progress** (a single-worker node is never called concurrently) -/
theorem concurrency_bound (c : Cfg) (s : St) : cnt c.W s.pc Pc.inProc ≤ c.W := cnt_le c.W s.pc _

/-- a worker leaves only when the input is closed and drained -/
theorem exit_only_when_drained (c : Cfg) (s s' : St) (w : Nat) (hstep : step c s (.seeClosed w) = some s') :
    s.inpClosed = true ∧ s.inp = [] := by
  simp only [step] at hstep
  split at hstep
  · split at hstep
    · rename_i hpc hi
      split at hstep
      · rename_i hc; exact ⟨hc, hi⟩
      · simp at hstep
    · simp at hstep
  · simp at hstep

end Firebolt.Exec
