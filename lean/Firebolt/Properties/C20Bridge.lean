import Firebolt.Properties.C20
/-!
# C20 — bridge: the overlay model passes the executable Spec for every parameter map

`Spec/Params.lean` (`specOverlay`) is the predicate that judges the client configurations the real code builds.
`overlay_satisfies_spec` proves that the model's result passes it for every baseline with distinct keys and every
parameter map whose prefixed names stay distinct once the prefix is removed (they are the keys of a Go map, and removing a
fixed prefix is injective; stated as a hypothesis because it is a fact about strings, not about the overlay).
-/
namespace Firebolt.C20
open Firebolt Firebolt.Params

abbrev KV := List (String × String)

def keysNd (m : KV) : Prop := (m.map (·.1)).Nodup

/-! ### `setKV` / `getKV` on lists with distinct keys -/

theorem keys_setKV (m : KV) (k v : String) : ∀ q, q ∈ (setKV m k v).map (·.1) ↔ (q = k ∨ q ∈ m.map (·.1)) := by
  induction m with
  | nil => intro q; simp [setKV]
  | cons kv rest ih =>
    obtain ⟨k', v'⟩ := kv
    intro q
    by_cases h : k' = k
    · subst h; simp [setKV]
    · simp only [setKV, h, if_false, List.map_cons, List.mem_cons, ih q]
      constructor
      · rintro (h1 | h1 | h1) <;> simp [h1]
      · rintro (h1 | h1 | h1) <;> simp [h1]

theorem keysNd_setKV (m : KV) (k v : String) (h : keysNd m) : keysNd (setKV m k v) := by
  induction m with
  | nil => simp [keysNd, setKV]
  | cons kv rest ih =>
    obtain ⟨k', v'⟩ := kv
    have h' : k' ∉ rest.map (·.1) ∧ (rest.map (·.1)).Nodup := by
      unfold keysNd at h; rw [List.map_cons] at h; exact List.nodup_cons.1 h
    by_cases hk : k' = k
    · subst hk; simpa [keysNd, setKV] using h
    · simp only [keysNd, setKV, hk, if_false, List.map_cons, List.nodup_cons]
      refine ⟨?_, ih h'.2⟩
      intro hm
      rcases (keys_setKV rest k v k').1 hm with h1 | h1
      · exact hk h1
      · exact h'.1 h1

theorem getKV_mem (m : KV) (k v : String) (h : getKV m k = some v) : (k, v) ∈ m := by
  induction m with
  | nil => simp [getKV] at h
  | cons kv rest ih =>
    obtain ⟨k', v'⟩ := kv
    by_cases hk : k' = k
    · simp [getKV, hk] at h; subst h; subst hk; simp
    · simp [getKV, hk] at h; exact List.mem_cons_of_mem _ (ih h)

theorem mem_getKV (m : KV) (k v : String) (hm : (k, v) ∈ m) (hn : keysNd m) : getKV m k = some v := by
  induction m with
  | nil => simp at hm
  | cons kv rest ih =>
    obtain ⟨k', v'⟩ := kv
    have h' : k' ∉ rest.map (·.1) ∧ (rest.map (·.1)).Nodup := by
      unfold keysNd at hn; rw [List.map_cons] at hn; exact List.nodup_cons.1 hn
    rcases List.mem_cons.1 hm with h1 | h1
    · cases h1; simp [getKV]
    · have : ¬ k' = k := fun e => h'.1 (by rw [e]; exact List.mem_map.2 ⟨(k, v), h1, rfl⟩)
      simp only [getKV, this, if_false]
      exact ih h1 h'.2

theorem getKV_isSome_iff (m : KV) (k : String) : (getKV m k).isSome = true ↔ k ∈ m.map (·.1) := by
  induction m with
  | nil => simp [getKV]
  | cons kv rest ih =>
    obtain ⟨k', v'⟩ := kv
    by_cases hk : k' = k
    · simp [getKV, hk]
    · have : ¬ k = k' := fun e => hk e.symm
      simp [getKV, hk, this, ih]

/-! ### the overlay as a fold of `setKV` over the overriding entries -/

/-- last value given for key `k` -/
def lastOfKV (k : String) : KV → Option String
  | [] => none
  | kv :: rest => match lastOfKV k rest with
    | some v => some v
    | none => if kv.1 = k then some kv.2 else none

def foldSet (base over : KV) : KV := over.foldl (fun m kv => setKV m kv.1 kv.2) base

theorem getKV_foldSet (over : KV) : ∀ (base : KV) (k : String),
    getKV (foldSet base over) k = match lastOfKV k over with | some v => some v | none => getKV base k := by
  induction over with
  | nil => intro base k; simp [foldSet, lastOfKV]
  | cons kv rest ih =>
    intro base k
    have : foldSet base (kv :: rest) = foldSet (setKV base kv.1 kv.2) rest := rfl
    rw [this, ih]
    simp only [lastOfKV]
    cases h : lastOfKV k rest with
    | some v => rfl
    | none =>
      by_cases hk : kv.1 = k
      · subst hk; simp [getKV_setKV_eq]
      · have : k ≠ kv.1 := fun e => hk e.symm
        simp [hk, getKV_setKV_ne _ _ _ _ this]

theorem keysNd_foldSet (over : KV) : ∀ (base : KV), keysNd base → keysNd (foldSet base over) := by
  induction over with
  | nil => intro base h; exact h
  | cons kv rest ih => intro base h; exact ih _ (keysNd_setKV base kv.1 kv.2 h)

theorem keys_foldSet (over : KV) : ∀ (base : KV) (q : String),
    q ∈ (foldSet base over).map (·.1) ↔ (q ∈ over.map (·.1) ∨ q ∈ base.map (·.1)) := by
  induction over with
  | nil => intro base q; simp [foldSet]
  | cons kv rest ih =>
    intro base q
    have : foldSet base (kv :: rest) = foldSet (setKV base kv.1 kv.2) rest := rfl
    rw [this, ih, keys_setKV]
    simp only [List.map_cons, List.mem_cons]
    constructor
    · rintro (h | h | h) <;> simp [h]
    · rintro ((h | h) | h) <;> simp [h]

theorem lastOfKV_of_nodup (over : KV) (k : String) (hn : keysNd over) :
    lastOfKV k over = (over.find? (fun o => o.1 == k)).map (·.2) := by
  induction over with
  | nil => rfl
  | cons kv rest ih =>
    have h' : kv.1 ∉ rest.map (·.1) ∧ (rest.map (·.1)).Nodup := by
      unfold keysNd at hn; rw [List.map_cons] at hn; exact List.nodup_cons.1 hn
    simp only [lastOfKV, ih h'.2]
    by_cases hk : kv.1 = k
    · have hnone : rest.find? (fun o => o.1 == k) = none := by
        rw [List.find?_eq_none]
        intro x hx hxk
        exact h'.1 (by rw [hk]; exact List.mem_map.2 ⟨x, hx, by simpa using hxk⟩)
      simp [hk, hnone]
    · have : (kv.1 == k) = false := by simpa using hk
      rw [List.find?_cons_of_neg (by simpa using hk)]
      cases rest.find? (fun o => o.1 == k) <;> simp [hk]

/-- **the Spec's entry clause holds for a fold of `setKV`**: every result entry is justified, nothing is missing, keys are
unique -/
theorem specEntries_foldSet (base over : KV) (hb : keysNd base) (ho : keysNd over) :
    specEntries base over (foldSet base over) = true := by
  have hres := keysNd_foldSet over base hb
  simp only [specEntries, Bool.and_eq_true, List.all_eq_true, decide_eq_true_eq]
  refine ⟨⟨⟨?_, ?_⟩, ?_⟩, hres⟩
  · intro kv hkv
    have hg := mem_getKV _ kv.1 kv.2 hkv hres
    rw [getKV_foldSet, lastOfKV_of_nodup over kv.1 ho] at hg
    cases hf : over.find? (fun o => o.1 == kv.1) with
    | some o => simp [hf] at hg; simp [hg]
    | none =>
      simp [hf] at hg
      have := getKV_mem base kv.1 kv.2 hg
      simp only [List.any_eq_true, Bool.and_eq_true, beq_iff_eq]
      exact ⟨(kv.1, kv.2), this, rfl, rfl⟩
  · intro b hb'
    have : b.1 ∈ (foldSet base over).map (·.1) := (keys_foldSet over base b.1).2 (Or.inr (List.mem_map.2 ⟨b, hb', rfl⟩))
    obtain ⟨kv, hkv, hk⟩ := List.mem_map.1 this
    exact List.any_eq_true.2 ⟨kv, hkv, by simp [hk]⟩
  · intro o ho'
    have : o.1 ∈ (foldSet base over).map (·.1) := (keys_foldSet over base o.1).2 (Or.inl (List.mem_map.2 ⟨o, ho', rfl⟩))
    obtain ⟨kv, hkv, hk⟩ := List.mem_map.1 this
    exact List.any_eq_true.2 ⟨kv, hkv, by simp [hk]⟩

/-! ### the model's overlay is such a fold, per level -/

def topOf (params : PMap) : KV := params.filterMap (fun kv => match classify kv.1 with | .top k => some (k, kv.2) | _ => none)
def subOf (params : PMap) : KV := params.filterMap (fun kv => match classify kv.1 with | .sub k => some (k, kv.2) | _ => none)

theorem overlay_top_fold (params : PMap) : ∀ (base : ClientConf), (overlay base params).top = foldSet base.top (topOf params) := by
  induction params with
  | nil => intro base; rfl
  | cons kv rest ih =>
    intro base
    have h1 : overlay base (kv :: rest) = overlay (applyParam base kv) rest := rfl
    rw [h1, ih]
    unfold applyParam topOf
    cases hc : classify kv.1 with
    | other => simp [hc]
    | sub k => simp [hc]
    | top k => simp [hc, foldSet]

theorem overlay_sub_fold (params : PMap) : ∀ (base : ClientConf),
    (overlay base params).sub = match subOf params with
      | [] => base.sub
      | _ :: _ => some (foldSet (base.sub.getD []) (subOf params)) := by
  induction params with
  | nil => intro base; rfl
  | cons kv rest ih =>
    intro base
    have h1 : overlay base (kv :: rest) = overlay (applyParam base kv) rest := rfl
    rw [h1, ih]
    unfold applyParam
    cases hc : classify kv.1 with
    | other => simp [subOf, hc]
    | top k => simp [subOf, hc]
    | sub k =>
      have hs : subOf (kv :: rest) = (k, kv.2) :: subOf rest := by simp [subOf, hc]
      rw [hs]
      simp only
      cases hr : subOf rest with
      | nil => simp [foldSet]
      | cons x xs => simp [foldSet]

/-- the Spec's two lists of overriding entries are the model's classification -/
theorem spec_lists (params : PMap) :
    (strip prefixL params).filter (fun kv => !kv.1.startsWith prefixT) = topOf params ∧
    strip prefixT (strip prefixL params) = subOf params := by
  induction params with
  | nil => exact ⟨rfl, rfl⟩
  | cons kv rest ih =>
    obtain ⟨ih1, ih2⟩ := ih
    unfold strip topOf subOf classify at *
    by_cases h1 : kv.1.startsWith prefixL = true
    · by_cases h2 : ((kv.1.drop prefixL.length).toString).startsWith prefixT = true
      · simp only [List.filterMap_cons, h1, if_true, h2, List.filter_cons, Bool.not_true, Bool.false_eq_true, if_false]
        exact ⟨ih1, by rw [ih2]⟩
      · have h2' : ((kv.1.drop prefixL.length).toString).startsWith prefixT = false := by simpa using h2
        simp only [List.filterMap_cons, h1, if_true, h2', List.filter_cons, Bool.not_false, Bool.false_eq_true, if_false]
        exact ⟨by rw [ih1], ih2⟩
    · simp only [List.filterMap_cons, h1, Bool.false_eq_true, if_false]
      exact ⟨ih1, ih2⟩

/-- **bridge for C20's overlay clause**: for every baseline and every parameter map (distinct keys at each level), the
model's client configuration passes the Spec that judges the real `buildConfigMap`s: every baseline entry and every
`librdkafka.`-prefixed parameter is there with the prefix removed, prefixed values win, nothing else is there, and the default
topic sub-map is touched only by `{topic}.` parameters -/
theorem overlay_satisfies_spec (base : ClientConf) (params : PMap)
    (hbt : keysNd base.top) (hbs : keysNd (base.sub.getD [])) (hpt : keysNd (topOf params)) (hps : keysNd (subOf params)) :
    specOverlay params base base (overlay base params) = none := by
  obtain ⟨hl1, hl2⟩ := spec_lists params
  unfold specOverlay
  simp only [hl1, hl2, ne_eq, not_true_eq_false, if_false, overlay_top_fold, specEntries_foldSet base.top (topOf params) hbt hpt,
    Bool.not_true, Bool.false_eq_true]
  rw [overlay_sub_fold]
  cases hs : subOf params with
  | nil => simp
  | cons x xs =>
    have := specEntries_foldSet (base.sub.getD []) (subOf params) hbs hps
    rw [hs] at this
    simp [this]

/-- non-vacuity: a consumer baseline and a parameter map with top-level, sub-map and unprefixed entries -/
example :
    let base : ClientConf := ⟨[("bootstrap.servers", "b"), ("group.id", "g"), ("session.timeout.ms", "10000")], some [("auto.offset.reset", "earliest")]⟩
    let params : PMap := [("brokers", "b"), ("librdkafka.session.timeout.ms", "77"), ("zz", "leak"), ("librdkafka.{topic}.auto.offset.reset", "latest"), ("librdkafka.fetch.min.bytes", "3")]
    specOverlay params base base (overlay base params) = none ∧ (overlay base params).top.length = 4 := by
  decide +kernel

end Firebolt.C20
