import Firebolt.TransExpected
import Firebolt.Properties.TransBase
import Firebolt.Properties.ExecFlow
import Firebolt.Spec.ExecTrace
import Firebolt.Generated.Skeleton
import Firebolt.Expected.Skeleton
import Firebolt.Properties.ExecNet
import Firebolt.Generated.Source
import Firebolt.Expected.Source
import Firebolt.Generated.Closure
import Firebolt.Expected.Closure
/-!
# C01 — Event flow conservation through the node tree

Part 1 (this file, denotational): theorems about `Model/Flow.lean` for every tree, oracle and stream.
Part 2 (`Properties/Exec*.lean`, operational): the per-edge conservation invariant under every interleaving of workers,
proved on the node component model `Model/Exec.lean`; the skeleton equalities below pin that model's shape to the source.
-/
namespace Firebolt.C01
open Firebolt Firebolt.Flow

/-- only successful results travel on: an event reaches the children iff it is a result of a passed event -/
theorem passed_mem (o : Oracle) (s : NSpec) (input : List String) (x : String) :
    x ∈ passed o s input ↔ ∃ e ∈ input, ∃ rs, o s e = .pass rs ∧ x ∈ rs := by
  unfold passed
  simp only [List.mem_flatMap]
  constructor
  · rintro ⟨e, he, hx⟩
    cases ho : o s e with
    | pass rs => rw [ho] at hx; exact ⟨e, he, rs, ho, hx⟩
    | filter => rw [ho] at hx; simp at hx
    | error => rw [ho] at hx; simp at hx
  · rintro ⟨e, he, rs, ho, hx⟩
    exact ⟨e, he, by rw [ho]; exact hx⟩

/-- nothing is lost, duplicated or invented on the way to the children: the multiplicity of every event offered to a child
is the sum, over the events the parent received, of its multiplicity among that event's results
(one result for sync/async, each element of a fanout result, nothing for filtered or failed events) -/
theorem passed_count (o : Oracle) (s : NSpec) (input : List String) (x : String) :
    (passed o s input).count x =
      (input.map (fun e => match o s e with | .pass rs => rs.count x | _ => 0)).sum := by
  unfold passed
  rw [List.count_flatMap]
  congr 1
  apply List.map_congr_left
  intro e _
  cases ho : o s e <;> simp [ho]

/-- an enabled node receives exactly what it is offered (no discarding in this model) and is set up -/
theorem enabled_receives (o : Oracle) (input : List String) (s : NSpec) (cs : List FNode) (h : Option FNode) (hd : s.disabled = false) :
    (flowN o input (.mk s cs h)).head? = some (account o s input) := by
  simp [flowN, hd]

/-- every enabled child is offered exactly the parent's successful results — each child the same, each once -/
theorem children_offered (o : Oracle) (input : List String) (s : NSpec) (cs : List FNode) (h : Option FNode) (hd : s.disabled = false) :
    flowN o input (.mk s cs h) =
      account o s input :: (flowL o (passed o s input) cs ++ flowH o ((failedEvents o s input).map errPayload) h) := by
  simp [flowN, hd]

theorem flowL_append (o : Oracle) (input : List String) (a b : List FNode) :
    flowL o input (a ++ b) = flowL o input a ++ flowL o input b := by
  induction a with
  | nil => simp [flowL]
  | cons c cs ih => simp [flowL, ih]

mutual
/-- a disabled node, its handler and all its descendants are never set up and never see an event -/
theorem silentN_all (n : FNode) : ∀ a ∈ silentN n, a.setUp = false ∧ a.received = [] := by
  match n with
  | .mk s cs h =>
    intro a ha
    simp only [silentN, List.mem_cons, List.mem_append] at ha
    rcases ha with rfl | ha | ha
    · simp [absent]
    · exact silentL_all cs a ha
    · exact silentO_all h a ha
theorem silentL_all (ns : List FNode) : ∀ a ∈ silentL ns, a.setUp = false ∧ a.received = [] := by
  match ns with
  | [] => intro a ha; simp [silentL] at ha
  | c :: cs =>
    intro a ha
    simp only [silentL, List.mem_append] at ha
    rcases ha with ha | ha
    · exact silentN_all c a ha
    · exact silentL_all cs a ha
theorem silentO_all (h : Option FNode) : ∀ a ∈ silentO h, a.setUp = false ∧ a.received = [] := by
  match h with
  | none => intro a ha; simp [silentO] at ha
  | some x => intro a ha; simp only [silentO] at ha; exact silentN_all x a ha
end

theorem disabled_pruned (o : Oracle) (input : List String) (s : NSpec) (cs : List FNode) (h : Option FNode) (hd : s.disabled = true) :
    ∀ a ∈ flowN o input (.mk s cs h), a.setUp = false ∧ a.received = [] := by
  intro a ha
  simp only [flowN, hd, if_true] at ha
  exact silentN_all _ a ha

/-- every root is offered the whole stream -/
theorem roots_offered (o : Oracle) (stream : List String) (s : NSpec) (cs : List FNode) (h : Option FNode) (rest : List FNode)
    (hd : s.disabled = false) :
    (flow o stream (.mk s cs h :: rest)).head? = some (account o s stream) := by
  simp [flow, flowL, flowN, hd]

/-! ### the model's shape is the source's shape (regenerated on every run) -/
theorem skeleton_execute : Generated.execute = Expected.execute := by rfl
theorem skeleton_processEvent : Generated.processEvent = Expected.processEvent := by rfl
theorem skeleton_eventToEventSlice : Generated.eventToEventSlice = Expected.eventToEventSlice := by rfl
theorem skeleton_handleResult : Generated.handleResult = Expected.handleResult := by rfl
theorem skeleton_deliverToChild : Generated.deliverToChild = Expected.deliverToChild := by rfl
theorem skeleton_invokeProcessorAsync : Generated.invokeProcessorAsync = Expected.invokeProcessorAsync := by rfl
theorem skeleton_initNodeContextHierarchy : Generated.initNodeContextHierarchy = Expected.initNodeContextHierarchy := by rfl
theorem skeleton_runNode : Generated.runNode = Expected.runNode := by rfl


/-! ### every schedule (component model) -/
open Firebolt.Exec in
/-- per-edge conservation at quiescence for every interleaving: a non-discarding child received exactly the results of the
events its parent was sent and passed (multiset equality) -/
theorem edge_conservation_any_schedule (c : Cfg) (caps : Nat → Nat) (disc : Nat → Bool) (as : List Act) (s : St)
    (hr : run c (init c caps disc) as = some s) (ht : Terminal c s) (k : Nat) (hk : k < c.nChildren) (hd : (s.outs k).discard = false) :
    (s.enq k).Perm (s.upSent.flatMap (results c)) := terminal_child c s (reachable_all c caps disc as s hr) ht k hk hd

open Firebolt.Exec in
/-- every channel, discarding or not, is offered exactly what the node handed to delivery -/
theorem offered_is_produced_any_schedule (c : Cfg) (caps : Nat → Nat) (disc : Nat → Bool) (as : List Act) (s : St)
    (hr : run c (init c caps disc) as = some s) (ht : Terminal c s) (k : Nat) : (s.offered k).Perm (s.produced k) :=
  terminal_offered c s (reachable_all c caps disc as s hr) ht k


/-! ### the whole tree, every global schedule (product model `Model/ExecNet.lean`) -/
open Firebolt.Exec in
/-- **C01 for the whole tree**: in a tree without discarding nodes, at global quiescence of any global schedule, every node
at any depth has received — as a multiset — exactly what the denotational model computes from the source's stream -/
theorem tree_flow_any_global_schedule (cfg : Path → Cfg) (caps : Path → Nat) (disc : Path → Bool) (sched : List (Path × Act)) (N : Net)
    (hr : grun (ginit cfg caps disc) sched = some N) (hd : ∀ p, disc p = false)
    (hT : ∀ p, inTree cfg p → Terminal (cfg p) (N.st p)) (p : Path) (hp : inTree cfg p) :
    (N.st p).recvd.Perm (offer cfg (N.st []).upSent p) := tree_flow_nodiscard cfg caps disc sched N hr hd hT p hp

open Firebolt.Exec in
/-- **C01 on every edge, relative form, any discard setting**: child's receipts plus the counted drops at its full buffer
are exactly the results of what the parent received -/
theorem tree_edge_any_global_schedule (cfg : Path → Cfg) (caps : Path → Nat) (disc : Path → Bool) (sched : List (Path × Act)) (N : Net)
    (hr : grun (ginit cfg caps disc) sched = some N) (p : Path) (k : Nat) (hk : k < (cfg p).nChildren)
    (htp : Terminal (cfg p) (N.st p)) (htk : Terminal (cfg (k :: p)) (N.st (k :: p))) :
    ((N.st (k :: p)).recvd ++ (N.st p).dropped k).Perm ((N.st p).recvd.flatMap (results (cfg p))) := by
  obtain ⟨hG, hcfg, _⟩ := reachable_ginv cfg caps disc sched N hr
  subst hcfg
  exact (tree_edge N hG p k hk htp htk).1

open Firebolt.Exec in
/-- the two copies of every channel of the tree agree in every reachable global state -/
theorem tree_channels_agree (cfg : Path → Cfg) (caps : Path → Nat) (disc : Path → Bool) (sched : List (Path × Act)) (N : Net)
    (hr : grun (ginit cfg caps disc) sched = some N) (p : Path) (k : Nat) (hk : k < (cfg p).K) :
    (N.st (k :: p)).inp = ((N.st p).outs k).buf ∧ (N.st (k :: p)).inpClosed = ((N.st p).outs k).closed ∧
    (N.st (k :: p)).upSent = (N.st p).enq k := by
  obtain ⟨hG, hcfg, _⟩ := reachable_ginv cfg caps disc sched N hr
  subst hcfg
  exact link_fields N hG.link p k hk


/-! ### functions the model's assumptions rest on (construction, wiring, surrounding calls) are unchanged -/
theorem source_getNodeType : GeneratedSrc.getNodeType = ExpectedSrc.getNodeType := by rfl
theorem source_invokeProcessorSync : GeneratedSrc.invokeProcessorSync = ExpectedSrc.invokeProcessorSync := by rfl
theorem source_invokeProcessorFanout : GeneratedSrc.invokeProcessorFanout = ExpectedSrc.invokeProcessorFanout := by rfl
theorem source_newAsyncEvent : GeneratedSrc.newAsyncEvent = ExpectedSrc.newAsyncEvent := by rfl
theorem source_instantiateNode : GeneratedSrc.instantiateNode = ExpectedSrc.instantiateNode := by rfl

/-! ### the source side: how the source channel is made and what the supervisor does with it between incarnations -/
theorem skeleton_superviseSource : Generated.superviseSource = Expected.superviseSource := by rfl
theorem skeleton_prepareSource : Generated.prepareSource = Expected.prepareSource := by rfl
theorem source_withConfig : GeneratedSrc.withConfig = ExpectedSrc.withConfig := by rfl

/-! ### influence closure: the pinned functions, and every function of the repository that writes a struct field or package
variable they read, are unchanged (digests regenerated from /repo on every run; a difference names the functions) -/
/-! ### The code itself, translated (`Generated/Trans.lean`, rewritten from /repo on every run by extractor/translate.go)

The `translated_*` theorems are about MiniGo terms the translator produced from the current Go source: for every
environment the translated fragment does what the hand-written model function says.  They are semantic obligations —
a rewrite that preserves the behaviour keeps them provable, a changed comparison, bound or argument does not. -/
section Translated
open Firebolt.MiniGo Firebolt.TransBase

/-- handleResult, translated from the source: an error goes to handleFailure only; an empty result counts as filtered and
reaches no child; anything else counts as processed once and is handed to every child -/
theorem translated_handleResult (σ : Env) :
    obs Trans.handleResult σ = TransExpected.handleResult σ := by
  by_cases h1 : σ "err" = 0 <;> by_cases h2 : σ "len(result)" = 0 <;> minigo_simp [TransExpected.handleResult, Trans.handleResult, h1, h2]

/-- InitNodeContextHierarchy up to its loop, translated: a disabled node yields no context and **nothing at all happens for it** —
no instantiation, no recursion into its children (the function returns before its loop) -/
theorem translated_initHead (σ : Env) :
    obs Trans.initHead σ = ⟨[], (if σ "nodeConfig.Disabled" ≠ 0 then some [0] else none), false⟩ := by
  by_cases h : σ "nodeConfig.Disabled" = 0 <;> minigo_simp [Trans.initHead, h]

/-- one child: its context is built by the same function and becomes a child exactly when it is not nil (= not disabled) -/
theorem translated_initChildBody (σ : Env) :
    obs Trans.initChildBody σ =
      ⟨[("InitNodeContextHierarchy", [σ "childConfig"])] ++
        (if σ "InitNodeContextHierarchy#0" ≠ 0 then [("append childContexts", [σ "InitNodeContextHierarchy#0"])] else []),
       none, false⟩ := by
  by_cases h : σ "InitNodeContextHierarchy#0" = 0 <;> minigo_simp [Trans.initChildBody, h]

/-- the rest of InitNodeContextHierarchy (node kinds other than Unknown): the error handler — when one is configured — gets a
context of its own built from **its own** configuration, buffer size and processor kind (F3), the node a context with its own
configuration and buffer size, the children collected by the loop and that handler; that context is returned -/
theorem translated_initTail (σ : Env) (hk : σ "getNodeType(nodeProcessor)#0" ≠ σ "Unknown") :
    let r := run Trans.initTail σ
    let hctx := "new Context {Config,Ch,StopCh,NodeProcessor,NodeType,WaitGroup,ShutdownOnce}"
    let nctx := "new Context {Config,Ch,StopCh,NodeProcessor,NodeType,Children,ErrorHandler,WaitGroup,ShutdownOnce}"
    r.stuck = false ∧ r.ret = some [σ (nctx ++ "#0")] ∧
    ((∃ a, (hctx, a) ∈ r.calls) ↔ σ "nodeConfig.ErrorHandler" ≠ 0) ∧
    (σ "nodeConfig.ErrorHandler" ≠ 0 →
      (hctx, [σ "nodeConfig.ErrorHandler", σ "make(chan firebolt.Event, nodeConfig.ErrorHandler.BufferSize)",
              σ "make(chan bool, nodeConfig.Workers)", σ "GetRegistry().InstantiateNode(nodeConfig.ErrorHandler.Name)#0",
              σ "getNodeType(errorHandlerProcessor)", σ "&sync.WaitGroup{}", σ "&sync.Once{}"]) ∈ r.calls) ∧
    (nctx, [σ "nodeConfig", σ "make(chan firebolt.Event, nodeConfig.BufferSize)", σ "make(chan bool)",
            σ "GetRegistry().InstantiateNode(nodeConfig.Name)#0", σ "getNodeType(nodeProcessor)#0", σ "childContexts",
            (if σ "nodeConfig.ErrorHandler" ≠ 0 then σ (hctx ++ "#0") else 0), σ "&sync.WaitGroup{}", σ "&sync.Once{}"]) ∈ r.calls := by
  by_cases h : σ "nodeConfig.ErrorHandler" = 0 <;> minigo_simp [Trans.initTail, h, hk]

end Translated

theorem closure_unchanged : GeneratedClo.C01 = ExpectedClo.C01 := by rfl

end Firebolt.C01
