import Firebolt.TransExpected
import Firebolt.Properties.TransBase
import Firebolt.Properties.C01
import Firebolt.Properties.ExecFlow
import Firebolt.Properties.ExecNet
import Firebolt.Generated.Closure
import Firebolt.Expected.Closure
/-!
# C04 — Backpressure never loses events; discard drops are counted and never block
The ledger invariants under every interleaving are proved on the node component model (`Properties/ExecLedger.lean`).
-/
namespace Firebolt.C04
open Firebolt

theorem skeleton_deliverToChild : Generated.deliverToChild = Expected.deliverToChild := by rfl
theorem skeleton_handleFailure : Generated.handleFailure = Expected.handleFailure := by rfl
theorem skeleton_execute : Generated.execute = Expected.execute := by rfl


open Firebolt.Exec in
/-- a non-discarding target never loses: a send attempt either enqueues or is not enabled (the producer waits) -/
theorem backpressure_never_loses (s s' : St) (k : Nat) (x : Ev) (hc : (s.outs k).closed = false) (hd : (s.outs k).discard = false)
    (h : trySend s k x = some s') : s'.enq k = s.enq k ++ [x] ∧ s'.dropped k = s.dropped k := backpressure_waits s s' k x hc hd h

open Firebolt.Exec in
/-- a send to a discarding target is always enabled: it never makes the sender (parent, callback, main loop) wait -/
theorem discarding_target_never_blocks (s : St) (k : Nat) (x : Ev) (hd : (s.outs k).discard = true) : (trySend s k x).isSome = true :=
  discard_never_blocks s k x hd

open Firebolt.Exec in
/-- an event is dropped only at a full buffer of a discarding target -/
theorem drops_only_at_full_buffer (s s' : St) (k : Nat) (x : Ev) (hc : (s.outs k).closed = false) (h : trySend s k x = some s')
    (hdrop : s'.dropped k ≠ s.dropped k) : (s.outs k).cap ≤ (s.outs k).buf.length ∧ (s.outs k).discard = true :=
  drop_only_when_full s s' k x hc h hdrop

open Firebolt.Exec in
/-- in every reachable state: offers = intake + drops, drops only at discarding targets, every drop counted, FIFO, capacity -/
theorem channel_ledger_any_schedule (c : Cfg) (caps : Nat → Nat) (disc : Nat → Bool) (as : List Act) (s : St)
    (hr : run c (init c caps disc) as = some s) : ChanInv s := (reachable_all c caps disc as s hr).chan

open Firebolt.Exec in
theorem discard_accounting_any_schedule (c : Cfg) (caps : Nat → Nat) (disc : Nat → Bool) (as : List Act) (s : St)
    (hr : run c (init c caps disc) as = some s) (k : Nat) : (s.offered k).length = (s.enq k).length + s.discarded k :=
  terminal_discard_accounting c s (reachable_all c caps disc as s hr) k


open Firebolt.Exec in
/-- **C04 on every edge of the tree, every global schedule**: whatever the discard settings, drops happen only at a
discarding child, every drop is counted in `discarded_events_total` of that child, and receipts + drops = offers -/
theorem tree_discard_any_global_schedule (cfg : Path → Cfg) (caps : Path → Nat) (disc : Path → Bool) (sched : List (Path × Act)) (N : Net)
    (hr : grun (ginit cfg caps disc) sched = some N) (p : Path) (k : Nat) (hk : k < (cfg p).nChildren)
    (htp : Terminal (cfg p) (N.st p)) (htk : Terminal (cfg (k :: p)) (N.st (k :: p))) :
    ((N.st (k :: p)).recvd ++ (N.st p).dropped k).Perm ((N.st p).recvd.flatMap (results (cfg p))) ∧
    (N.st p).discarded k = ((N.st p).dropped k).length ∧ (disc (k :: p) = false → (N.st p).dropped k = []) := by
  obtain ⟨hG, hcfg, hst⟩ := reachable_ginv cfg caps disc sched N hr
  subst hcfg
  obtain ⟨h1, h2, h3⟩ := tree_edge N hG p k hk htp htk
  refine ⟨h1, h2, fun hd => h3 ?_⟩
  have := hst p k; simp only [DV, Prod.mk.injEq] at this; rw [this.1]; exact hd


open Firebolt.Exec in
/-- **C04 on the tree**: a worker about to deliver to a child (or handler) marked `discard_on_full_buffer` can always
take that step — whatever the state of the child and of the rest of the tree, in every reachable global state -/
theorem tree_discarding_child_never_blocks (cfg : Path → Cfg) (caps : Path → Nat) (disc : Path → Bool) (sched : List (Path × Act)) (N : Net)
    (hr : grun (ginit cfg caps disc) sched = some N) (p : Path) (w k : Nat) (x : Ev) (todo : List (Nat × Ev))
    (hw : w < (cfg p).W) (hpc : (N.st p).pc w = .deliver ((k, x) :: todo)) (hd : disc (k :: p) = true) :
    (gstep N p (.send w)).isSome = true := by
  obtain ⟨_, hcfg, hst⟩ := reachable_ginv cfg caps disc sched N hr
  subst hcfg
  have hdk : ((N.st p).outs k).discard = true := by
    have := hst p k; simp only [DV, Prod.mk.injEq] at this; rw [this.1]; exact hd
  have hts := discard_never_blocks (N.st p) k x hdk
  cases ht : trySend (N.st p) k x with
  | none => simp [ht] at hts
  | some s1 =>
    simp [gstep, allowed, step, hw, hpc, ht]


/-! ### influence closure: the pinned functions, and every function of the repository that writes a struct field or package
variable they read, are unchanged (digests regenerated from /repo on every run; a difference names the functions) -/
/-! ### The code itself, translated (`Generated/Trans.lean`, rewritten from /repo on every run by extractor/translate.go)

The `translated_*` theorems are about MiniGo terms the translator produced from the current Go source: for every
environment the translated fragment does what the hand-written model function says.  They are semantic obligations —
a rewrite that preserves the behaviour keeps them provable, a changed comparison, bound or argument does not. -/
section Translated
open Firebolt.MiniGo Firebolt.TransBase

def gauge (σ : Env) : String × List Int :=
  ("metrics.Node().BufferedEvents.WithLabelValues(childNode.Config.ID).Set", [σ "float64(len(childNode.Ch))"])

/-- one delivery of deliverToChild: with room the event is sent; without room a discarding child costs the event and one
count of discarded_events_total, and nothing blocks; a non-discarding child gets a blocking send (never lost) after one
count of buffer_full_events_total -/
theorem translated_deliverBody (σ : Env) :
    obs Trans.deliverBody σ =
      ⟨(if σ "room childNode.Ch" ≠ 0 then [("send childNode.Ch", [σ "event"])]
        else if σ "childNode.Config.DiscardOnFullBuffer" ≠ 0 then
          [("metrics.Node().DiscardedEvents.WithLabelValues(childNode.Config.ID).Inc", [])]
        else [("metrics.Node().BufferFullEvents.WithLabelValues(childNode.Config.ID).Inc", []), ("send childNode.Ch", [σ "event"])])
        ++ [gauge σ], none, false⟩ := by
  by_cases h1 : σ "room childNode.Ch" = 0 <;> by_cases h2 : σ "childNode.Config.DiscardOnFullBuffer" = 0 <;>
  minigo_simp [Trans.deliverBody, gauge, h1, h2]

/-- an event is dropped by a delivery only at a discarding child with a full buffer, and then it is counted -/
theorem translated_drop_only_if_discarding_and_counted (σ : Env) :
    (("send childNode.Ch", [σ "event"]) ∉ (obs Trans.deliverBody σ).calls ↔
      (σ "room childNode.Ch" = 0 ∧ σ "childNode.Config.DiscardOnFullBuffer" ≠ 0)) ∧
    (("metrics.Node().DiscardedEvents.WithLabelValues(childNode.Config.ID).Inc", []) ∈ (obs Trans.deliverBody σ).calls ↔
      ("send childNode.Ch", [σ "event"]) ∉ (obs Trans.deliverBody σ).calls) := by
  rw [translated_deliverBody]
  by_cases h1 : σ "room childNode.Ch" = 0 <;> by_cases h2 : σ "childNode.Config.DiscardOnFullBuffer" = 0 <;> simp [h1, h2, gauge]

/-- the main loop's delivery of one source event to one root node (F11): the same policy as delivery to any other node — with
room the event is sent; a full discarding root costs the event and one count of its discarded_events_total and the source
is not held up; a full non-discarding root gets a blocking send after one count of buffer_full_events_total -/
theorem translated_rootDeliverBody (σ : Env) :
    (obs Trans.exRootDeliverBody σ).calls =
      (if σ "room rootNode.Ch" ≠ 0 then [("send rootNode.Ch", [σ "sourceEvent"])]
        else if σ "rootNode.Config.DiscardOnFullBuffer" ≠ 0 then
          [("metrics.Node().DiscardedEvents.WithLabelValues(rootNode.Config.ID).Inc", [])]
        else [("metrics.Node().BufferFullEvents.WithLabelValues(rootNode.Config.ID).Inc", []), ("send rootNode.Ch", [σ "sourceEvent"])])
        ++ [("metrics.Node().BufferedEvents.WithLabelValues(rootNode.Config.ID).Set", [σ "float64(len(rootNode.Ch))"])] ∧
    (obs Trans.exRootDeliverBody σ).ret = none ∧ (obs Trans.exRootDeliverBody σ).stuck = false := by
  by_cases h1 : σ "room rootNode.Ch" = 0 <;> by_cases h2 : σ "rootNode.Config.DiscardOnFullBuffer" = 0 <;>
  minigo_simp [Trans.exRootDeliverBody, h1, h2]


/-- the two delivery bodies in the exact form the driver's counterexample search uses (`fbdriver transcheck`) -/
theorem translated_deliverBody_exact (σ : Env) : obs Trans.deliverBody σ = TransExpected.deliverBody σ := by
  by_cases h1 : σ "room childNode.Ch" = 0 <;> by_cases h2 : σ "childNode.Config.DiscardOnFullBuffer" = 0 <;>
  minigo_simp [Trans.deliverBody, TransExpected.deliverBody, TransExpected.gauge, h1, h2]

theorem translated_rootDeliverBody_exact (σ : Env) : obs Trans.exRootDeliverBody σ = TransExpected.exRootDeliverBody σ := by
  by_cases h1 : σ "room rootNode.Ch" = 0 <;> by_cases h2 : σ "rootNode.Config.DiscardOnFullBuffer" = 0 <;>
  minigo_simp [Trans.exRootDeliverBody, TransExpected.exRootDeliverBody, h1, h2]

end Translated

theorem closure_unchanged : GeneratedClo.C04 = ExpectedClo.C04 := by rfl

end Firebolt.C04
