import Firebolt.Properties.C01
import Firebolt.Properties.ExecFlow
/-!
# C04 — Backpressure never loses events; discard drops are counted and never block
The ledger invariants under every interleaving are proved on the node component model (`Properties/ExecLedger.lean`).
-/
namespace Firebolt.C04
open Firebolt

theorem skeleton_deliverToChild : Generated.deliverToChild = Expected.deliverToChild := by rfl
theorem skeleton_handleFailure : Generated.handleFailure = Expected.handleFailure := by rfl
theorem skeleton_execute : Generated.execute = Expected.execute := by rfl


open Firebolt.Exec in
/-- a non-discarding target never loses: a send attempt either enqueues or is not enabled (the producer waits) -/
theorem backpressure_never_loses (s s' : St) (k : Nat) (x : Ev) (hc : (s.outs k).closed = false) (hd : (s.outs k).discard = false)
    (h : trySend s k x = some s') : s'.enq k = s.enq k ++ [x] ∧ s'.dropped k = s.dropped k := backpressure_waits s s' k x hc hd h

open Firebolt.Exec in
/-- a send to a discarding target is always enabled: it never makes the sender (parent, callback, main loop) wait -/
theorem discarding_target_never_blocks (s : St) (k : Nat) (x : Ev) (hd : (s.outs k).discard = true) : (trySend s k x).isSome = true :=
  discard_never_blocks s k x hd

open Firebolt.Exec in
/-- an event is dropped only at a full buffer of a discarding target -/
theorem drops_only_at_full_buffer (s s' : St) (k : Nat) (x : Ev) (hc : (s.outs k).closed = false) (h : trySend s k x = some s')
    (hdrop : s'.dropped k ≠ s.dropped k) : (s.outs k).cap ≤ (s.outs k).buf.length ∧ (s.outs k).discard = true :=
  drop_only_when_full s s' k x hc h hdrop

open Firebolt.Exec in
/-- in every reachable state: offers = intake + drops, drops only at discarding targets, every drop counted, FIFO, capacity -/
theorem channel_ledger_any_schedule (c : Cfg) (caps : Nat → Nat) (disc : Nat → Bool) (as : List Act) (s : St)
    (hr : run c (init c caps disc) as = some s) : ChanInv s := (reachable_all c caps disc as s hr).chan

open Firebolt.Exec in
theorem discard_accounting_any_schedule (c : Cfg) (caps : Nat → Nat) (disc : Nat → Bool) (as : List Act) (s : St)
    (hr : run c (init c caps disc) as = some s) (k : Nat) : (s.offered k).length = (s.enq k).length + s.discarded k :=
  terminal_discard_accounting c s (reachable_all c caps disc as s hr) k

end Firebolt.C04
