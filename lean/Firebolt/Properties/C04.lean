import Firebolt.Properties.C01
/-!
# C04 — Backpressure never loses events; discard drops are counted and never block
The ledger invariants under every interleaving are proved on the node component model (`Properties/ExecLedger.lean`).
-/
namespace Firebolt.C04
open Firebolt

theorem skeleton_deliverToChild : Generated.deliverToChild = Expected.deliverToChild := by rfl
theorem skeleton_handleFailure : Generated.handleFailure = Expected.handleFailure := by rfl
theorem skeleton_execute : Generated.execute = Expected.execute := by rfl

end Firebolt.C04
