import Firebolt.Properties.RecoveryBridge
/-!
# C09 — bridge: at every refresh point the model reads exactly owned ∩ outstanding, from a point that loses nothing

The same monitor as in `C07B.lean`; the clauses that are C09's are those of `refreshPoint` (after a refresh, a revocation or
a completion the client is assigned exactly the owned partitions with an outstanding request; each resumes between the
lowest `from` seen for its request and the record after the last one emitted; a reader whose request was replaced under it
is re-synchronised), "nothing is emitted for a revoked partition", and the `crash` operation (the successor knows only the
replicated snapshots).
-/
namespace Firebolt.C09
open Firebolt Firebolt.Recovery

theorem model_satisfies_monitor (mr ue : Int) (hmr : 0 ≤ mr ∧ mr ≤ 2^63) (ops : List Op) (hsc : ops.all opInScope = true) :
    specRun {} ops ((run { maxRecords := mr, updateEvery := ue } ops).2.map obsOf) = none :=
  Recovery.spec_holds mr ue hmr ops hsc

/-- a refresh that reassigns: the assigned set and every resume offset pass the monitor's refresh point -/
theorem refresh_point_reassign (g : Ghost) (s : St) (st : Option Int) (hS : Sim st g s) (o : ObsOp)
    (ho : o.assign = some (sortByKey (asg0 s))) :
    ∃ g', refreshPoint g o = .ok g' ∧ Sim none g' { s with active := candidates s, cursor := asg0 s } :=
  refreshPoint_changed g s st hS o ho

/-- a refresh that leaves the assignment alone does so only when the client already reads owned ∩ outstanding -/
theorem refresh_point_unchanged (g : Ghost) (s : St) (hS : Sim none g s) (hch : changed (candidates s) s.active = false)
    (o : ObsOp) (ho : o.assign = none) : refreshPoint g o = .ok g :=
  refreshPoint_unchanged g s hS hch o ho

/-- a completed window always leads to a reassignment (the reader of a closed request is never left in place) -/
theorem completion_reassigns (g : Ghost) (s : St) (st : Option Int) (p : Int) (a : Active) (hS : Sim st g s)
    (ha : s.active.get? p = some a) (hno : ∀ r, Tracker.get s.tracker p = some r → r.toO ≠ a.toO) :
    changed (candidates s) s.active = true :=
  stale_changed g s st p a hS ha hno

end Firebolt.C09
