import Firebolt.Properties.RecoveryBridge
/-!
# C07 — bridge: the recovery model passes the executable monitor on every in-scope history

`Spec/Recovery.lean` is the monitor, written from the statements of C07 and C09, that judges the real recovery consumer's
observations in the correspondence check.  `model_satisfies_monitor` proves that the model's own observation passes it for
**every** configuration and **every** in-scope operation sequence; the clauses that are C07's: every window record is
emitted exactly once and flagged as recovery, nothing outside `[from, to)` and nothing for a partition that is not in
recovery is emitted, the completion is broadcast when the window is exhausted (not before), progress snapshots never run
ahead of what was emitted and never change `to`, truncation closes or restarts requests at the low watermark, other
client errors are ignored.  (Helper lemmas and the simulation relation: `Properties/RecoveryBridge.lean`.)
-/
namespace Firebolt.C07
open Firebolt Firebolt.Recovery

theorem model_satisfies_monitor (mr ue : Int) (hmr : 0 ≤ mr ∧ mr ≤ 2^63) (ops : List Op) (hsc : ops.all opInScope = true) :
    specRun {} ops ((run { maxRecords := mr, updateEvery := ue } ops).2.map obsOf) = none :=
  Recovery.spec_holds mr ue hmr ops hsc

/-- a record delivered by the recovery client — stale, inside the window, the last one, beyond the end — is judged correct,
and the monitor stays in step with the model -/
theorem delivered_record_judged_correct (g : Ghost) (s : St) (p off : Int) (hS : Sim none g s) :
    ∃ g', delivered g p off (obsOf (recover s p off).2) = .ok g' ∧ Sim none g' (recover s p off).1 :=
  delivered_sim g s p off hS

/-- log truncation under any set of readers: every reader whose next record is gone gets its request closed or restarted -/
theorem truncation_judged_correct (g : Ghost) (s : St) (hS : Sim none g s) :
    ∃ g', specStep g (.kerr true) (obsOf (step s (.kerr true)).2) = .ok g' ∧ Sim none g' (step s (.kerr true)).1 :=
  step_sim_trunc g s hS

end Firebolt.C07
