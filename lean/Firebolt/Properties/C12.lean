import Firebolt.Properties.TransBase
import Firebolt.Properties.C10
import Firebolt.Generated.Source
import Firebolt.Expected.Source
import Firebolt.Generated.Closure
import Firebolt.Expected.Closure
/-!
# C12 — Message wire fidelity and compaction-safe record keys
-/
namespace Firebolt.C12
open Firebolt Firebolt.Receiver

/-- **record keys identify (type, key)**: for types without '-', equal record keys mean equal type and equal key -/
theorem ukey_inj (t1 k1 t2 k2 : Bytes) (h1 : dash ∉ t1) (h2 : dash ∉ t2)
    (h : t1 ++ [dash] ++ k1 = t2 ++ [dash] ++ k2) : t1 = t2 ∧ k1 = k2 := by
  induction t1 generalizing t2 with
  | nil =>
    cases t2 with
    | nil => simpa using h
    | cons c t2 => simp at h; simp at h2; exact absurd h.1 h2.1
  | cons c t1 ih =>
    cases t2 with
    | nil => simp at h; simp at h1; exact absurd h.1.symm h1.1
    | cons d t2 =>
      simp at h h1 h2
      obtain ⟨rfl, h⟩ := h
      have := ih t2 h1.2 h2.2 (by simpa using h)
      simp [this.1, this.2]

theorem record_key_iff (m1 m2 : Msg) (h1 : dash ∉ m1.mtype) (h2 : dash ∉ m2.mtype) :
    ukey m1 = ukey m2 ↔ (m1.mtype = m2.mtype ∧ m1.key = m2.key) := by
  constructor
  · intro h; exact ukey_inj _ _ _ _ h1 h2 h
  · rintro ⟨a, b⟩; simp [ukey, a, b]

/-- why the restriction is needed: with '-' in the type two different pairs collide -/
theorem collision_with_dash :
    ukey ⟨[97, 45, 98], [99], []⟩ = ukey ⟨[97], [98, 45, 99], []⟩ := by decide

/-- one record per send/ack, carrying type, key, payload and the flag unchanged, keyed by the record key -/
theorem produce_faithful (m : Msg) (ack : Bool) :
    (produce m ack).2.msg = m ∧ (produce m ack).2.ack = ack ∧ (produce m ack).1 = ukey m := by
  simp [produce]

/-- send and ack of the same message carry the same record key, so compaction keeps only the newer of the two -/
theorem send_ack_same_key (m : Msg) : (produce m false).1 = (produce m true).1 := rfl

/-- **compaction keeps the latest state**: deleting a record that is followed by a later record with the same record
key does not change what a receiver that is still catching up ends up holding for any key -/
theorem compaction_safe (h1 h2 : List Wire) (w : Wire) (k : Bytes)
    (hs : ∃ w' ∈ h2, ukey w'.msg = ukey w.msg) :
    lastWith k (h1 ++ w :: h2) = lastWith k (h1 ++ h2) := by
  unfold lastWith
  simp only [List.reverse_append, List.reverse_cons, List.append_assoc, List.find?_append]
  cases hf : h2.reverse.find? (fun w => ukey w.msg = k) with
  | some x => simp
  | none =>
    by_cases hk : ukey w.msg = k
    · obtain ⟨w', hw', he⟩ := hs
      have : (h2.reverse.find? (fun w => ukey w.msg = k)).isSome := by
        rw [List.find?_isSome]
        exact ⟨w', by simpa using hw', by simpa [hk] using he⟩
      rw [hf] at this; cases this
    · simp [hk]


/-! ### the functions this model was transcribed from are unchanged (regenerated from /repo on every run) -/
theorem source_msSend : GeneratedSrc.msSend = ExpectedSrc.msSend := by rfl
theorem source_msAck : GeneratedSrc.msAck = ExpectedSrc.msAck := by rfl
theorem source_msProduceMessage : GeneratedSrc.msProduceMessage = ExpectedSrc.msProduceMessage := by rfl
theorem source_msgUniqueKey : GeneratedSrc.msgUniqueKey = ExpectedSrc.msgUniqueKey := by rfl
theorem source_tyWireMessage : GeneratedSrc.tyWireMessage = ExpectedSrc.tyWireMessage := by rfl
theorem source_tyMessage : GeneratedSrc.tyMessage = ExpectedSrc.tyMessage := by rfl
theorem source_mrProcessMessage : GeneratedSrc.mrProcessMessage = ExpectedSrc.mrProcessMessage := by rfl


/-! ### functions the model's assumptions rest on (construction, wiring, surrounding calls) are unchanged -/
theorem source_newKafkaMessageSender : GeneratedSrc.newKafkaMessageSender = ExpectedSrc.newKafkaMessageSender := by rfl
theorem source_msShutdown : GeneratedSrc.msShutdown = ExpectedSrc.msShutdown := by rfl
theorem source_msgInitKafkaSender : GeneratedSrc.msgInitKafkaSender = ExpectedSrc.msgInitKafkaSender := by rfl
theorem source_msgGetSender : GeneratedSrc.msgGetSender = ExpectedSrc.msgGetSender := by rfl

theorem source_kpProduce : GeneratedSrc.kpProduce = ExpectedSrc.kpProduce := by rfl
theorem source_kpProcess : GeneratedSrc.kpProcess = ExpectedSrc.kpProcess := by rfl

theorem source_exSendMessageFn : GeneratedSrc.exSendMessageFn = ExpectedSrc.exSendMessageFn := by rfl
theorem source_exAckMessageFn : GeneratedSrc.exAckMessageFn = ExpectedSrc.exAckMessageFn := by rfl
theorem source_exNewMessage : GeneratedSrc.exNewMessage = ExpectedSrc.exNewMessage := by rfl

/-! ### influence closure: the pinned functions, and every function of the repository that writes a struct field or package
variable they read, are unchanged (digests regenerated from /repo on every run; a difference names the functions) -/
/-! ### The code itself, translated (`Generated/Trans.lean`, rewritten from /repo on every run by extractor/translate.go)

The `translated_*` theorems are about MiniGo terms the translator produced from the current Go source: for every
environment the translated fragment does what the hand-written model function says.  They are semantic obligations —
a rewrite that preserves the behaviour keeps them provable, a changed comparison, bound or argument does not. -/
section Translated
open Firebolt.MiniGo Firebolt.TransBase

/-- produceMessage, translated: the wire message is built from the very message and acknowledgement flag handed in (and the
current time); if it cannot be encoded an error is returned and nothing is produced; otherwise exactly one record is
produced whose value is that encoding and whose key is `uniqueKey(msg)` -/
theorem translated_produceMessage (σ : Env) :
    let r := run Trans.msProduceMessage σ
    r.stuck = false ∧
    r.calls.head? = some ("new wireMessage {Message,Updated,Acknowledged}", [σ "msg", σ "time.Now()", σ "ack"]) ∧
    ("json.Marshal", [σ "new wireMessage {Message,Updated,Acknowledged}#0"]) ∈ r.calls ∧
    (σ "json.Marshal#1" ≠ 0 → r.ret = some [σ "fmt.Errorf#0"] ∧ ∀ a, ("s.producer.Produce", a) ∉ r.calls) ∧
    (σ "json.Marshal#1" = 0 → r.ret = some [0] ∧
      ("new kafka.Message {TopicPartition,Key,Value}",
        [σ "kafka.TopicPartition{Topic: &s.topic, Partition: kafka.PartitionAny}", σ "[]byte(uniqueKey(msg))", σ "json.Marshal#0"]) ∈ r.calls ∧
      (r.calls.filter (fun c => c.1 == "s.producer.Produce")) = [("s.producer.Produce", [σ "new kafka.Message {TopicPartition,Key,Value}#0"])]) := by
  by_cases h : σ "json.Marshal#1" = 0 <;> minigo_simp [Trans.msProduceMessage, h]

/-- Send and Ack differ in nothing but the acknowledgement flag: same message, same path, same key -/
theorem translated_send_ack (σ : Env) :
    obs Trans.msSend σ = ⟨[("s.produceMessage", [σ "msg", 0])], some [σ "s.produceMessage#0"], false⟩ ∧
    obs Trans.msAck σ = ⟨[("s.produceMessage", [σ "msg", 1])], some [σ "s.produceMessage#0"], false⟩ := by
  minigo_simp [Trans.msSend, Trans.msAck]

/-- the producer's delivery-report loop, translated: whatever the client reports — a delivered record, a failed one, statistics,
anything else — the loop body makes no call at all: a report is information for the log and puts nothing on the topic -/
theorem translated_reportLoopBody (σ : Env) :
    obs Trans.kpReportBody σ = ⟨[("typeswitch ev := e.(type)", [])], none, false⟩ := by
  by_cases h0 : σ "typeswitch#0" = 0 <;> by_cases h1 : σ "typeswitch#0" = 1 <;> by_cases h2 : σ "typeswitch#0" = 2 <;>
  by_cases h3 : σ "ev.TopicPartition.Error" = 0 <;>
  minigo_simp [Trans.kpReportBody, h0, h1, h2, h3]

end Translated

theorem closure_unchanged : GeneratedClo.C12 = ExpectedClo.C12 := by rfl

end Firebolt.C12
