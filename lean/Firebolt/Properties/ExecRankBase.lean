import Firebolt.Properties.ExecLive
namespace Firebolt.Exec

/-! ### a ranking function: the work a component still has to do -/

/-- work caused by a delivery list: one send each, plus what the receiving node will have to do with it -/
def todoCost (cc : Nat → Ev → Nat) (t : List (Nat × Ev)) : Nat := (t.map (fun y => 1 + cc y.1 y.2)).sum

def pcPot (cc : Nat → Ev → Nat) (sc : Ev → Nat) : Pc → Nat
  | .idle => 8
  | .proc e => 8 + sc e - 1
  | .deliver t => 9 + todoCost cc t
  | .c1 => 7
  | .c2 => 6
  | .c3 => 5
  | .hSh => 4
  | .hShIn => 3
  | .hClose => 2
  | .exited => 0

def listPot (sc : Ev → Nat) (l : List Ev) : Nat := (l.map sc).sum
def pendPot (sc : Ev → Nat) (l : List Ev) : Nat := (l.map (fun e => sc e - 1)).sum
def cbsPot (cc : Nat → Ev → Nat) (l : List (List (Nat × Ev))) : Nat := (l.map (fun t => 1 + todoCost cc t)).sum

/-- potential of one component: `sc` = cost of an event at this node, `cc k` = cost of an event at downstream node `k` -/
def nodePot (c : Cfg) (cc : Nat → Ev → Nat) (sc : Ev → Nat) (s : St) : Nat :=
  listPot sc s.inp + sumPc c.W s.pc (pcPot cc sc) + pendPot sc s.pending + cbsPot cc s.cbs

@[simp] theorem todoCost_nil (cc : Nat → Ev → Nat) : todoCost cc [] = 0 := rfl
@[simp] theorem todoCost_cons (cc : Nat → Ev → Nat) (k : Nat) (x : Ev) (t : List (Nat × Ev)) :
    todoCost cc ((k, x) :: t) = 1 + cc k x + todoCost cc t := by simp [todoCost, Nat.add_assoc]

theorem sum_eraseIdx (l : List Nat) (i : Nat) (v : Nat) (h : l[i]? = some v) : (l.eraseIdx i).sum + v = l.sum := by
  induction l generalizing i with
  | nil => simp at h
  | cons a t ih =>
    cases i with
    | zero => simp at h; subst h; simp; omega
    | succ j =>
      simp at h
      have := ih j h
      simp only [List.eraseIdx_cons_succ, List.sum_cons]; omega

theorem sum_set (l : List Nat) (i : Nat) (v w : Nat) (h : l[i]? = some v) : (l.set i w).sum + v = l.sum + w := by
  induction l generalizing i with
  | nil => simp at h
  | cons a t ih =>
    cases i with
    | zero => simp at h; subst h; simp; omega
    | succ j =>
      simp at h
      have := ih j h
      simp only [List.set_cons_succ, List.sum_cons]; omega

theorem map_eraseIdx' {α β} (f : α → β) (l : List α) (i : Nat) : (l.eraseIdx i).map f = (l.map f).eraseIdx i := by
  induction l generalizing i with
  | nil => simp
  | cons a t ih => cases i with
    | zero => simp
    | succ j => simp [ih j]

theorem pendPot_erase (sc : Ev → Nat) (l : List Ev) (i : Nat) (e : Ev) (h : l[i]? = some e) :
    pendPot sc (l.eraseIdx i) + (sc e - 1) = pendPot sc l := by
  unfold pendPot
  rw [map_eraseIdx']
  exact sum_eraseIdx _ i _ (by simp [h])

theorem cbsPot_erase (cc : Nat → Ev → Nat) (l : List (List (Nat × Ev))) (i : Nat) (t : List (Nat × Ev)) (h : l[i]? = some t) :
    cbsPot cc (l.eraseIdx i) + (1 + todoCost cc t) = cbsPot cc l := by
  unfold cbsPot
  rw [map_eraseIdx']
  exact sum_eraseIdx _ i _ (by simp [h])

theorem cbsPot_set (cc : Nat → Ev → Nat) (l : List (List (Nat × Ev))) (i : Nat) (t t' : List (Nat × Ev)) (h : l[i]? = some t) :
    cbsPot cc (l.set i t') + (1 + todoCost cc t) = cbsPot cc l + (1 + todoCost cc t') := by
  unfold cbsPot
  rw [List.map_set]
  exact sum_set _ i _ _ (by simp [h])



def pushGain (cc : Nat → Ev → Nat) (c : Cfg) (s : St) (a : Act) : Nat :=
  match pushOf c s a with
  | some (k, x) => cc k x
  | none => 0

theorem trySend_pot (s s1 : St) (k : Nat) (x : Ev) (ht : trySend s k x = some s1) :
    s1.inp = s.inp ∧ s1.pc = s.pc ∧ s1.pending = s.pending ∧ s1.cbs = s.cbs := by
  obtain ⟨h1, _, _, _, _, _, h7, h8, _, _⟩ := trySend_frame s s1 k x ht
  have := trySend_kv s s1 k x ht
  simp only [KV, Prod.mk.injEq] at this
  exact ⟨this.1, h1, h7, h8⟩

theorem pushGain_le_send (cc : Nat → Ev → Nat) (c : Cfg) (s : St) (w k : Nat) (x : Ev) (todo : List (Nat × Ev))
    (hw : w < c.W) (hpc : s.pc w = .deliver ((k, x) :: todo)) : pushGain cc c s (.send w) ≤ cc k x := by
  simp only [pushGain, pushOf, hw, if_true, hpc]
  split <;> simp_all

theorem pushGain_le_cb (cc : Nat → Ev → Nat) (c : Cfg) (s : St) (i k : Nat) (x : Ev) (todo : List (Nat × Ev))
    (hcb : s.cbs[i]? = some ((k, x) :: todo)) : pushGain cc c s (.cbSend i) ≤ cc k x := by
  simp only [pushGain, pushOf, hcb]
  split <;> simp_all

/-- **every step of a component uses up potential**: at least one unit, plus whatever it hands to a downstream node -/
theorem step_pot (c : Cfg) (cc : Nat → Ev → Nat) (sc : Ev → Nat) (s s' : St) (a : Act)
    (hsc : ∀ e, sc e = 3 + todoCost cc (todoOf c e (c.oracle e))) (hi : Inv c s)
    (ha : nonEnv a = true) (hs : step c s a = some s') :
    nodePot c cc sc s' + pushGain cc c s a + 1 ≤ nodePot c cc sc s := by
  have hnp := (step_inv c s s' a hi hs).no_panic
  cases a with
  | upSend e => simp [nonEnv] at ha
  | upClose => simp [nonEnv] at ha
  | downRecv k => simp [nonEnv] at ha
  | recv w =>
    simp only [step] at hs; og hs
    rename_i hw; og hs
    rename_i e rest hpc hinp
    have hg : pushGain cc c s (.recv w) = 0 := by simp [pushGain, pushOf]
    have hse := hsc e
    split at hs
    · cases hs
      simp only [nodePot, hg, hinp, listPot, pendPot, List.map_cons, List.sum_cons, List.map_append, List.sum_append, List.map_nil, List.sum_nil]
      omega
    · cases hs
      have hu := sumPc_upd c.W s.pc (pcPot cc sc) w (.proc e) hw
      rw [hpc] at hu
      simp only [nodePot, hg, hinp, listPot, List.map_cons, List.sum_cons, pcPot] at hu ⊢
      omega
  | procReturn w =>
    simp only [step] at hs; og hs
    rename_i hw; og hs
    rename_i e hpc; cases hs
    have hg : pushGain cc c s (.procReturn w) = 0 := by simp [pushGain, pushOf]
    have hu := sumPc_upd c.W s.pc (pcPot cc sc) w (.deliver (todoOf c e (c.oracle e))) hw
    rw [hpc] at hu
    have hse := hsc e
    simp only [nodePot, hg, resolve, pcPot] at hu ⊢
    omega
  | complete i =>
    simp only [step] at hs; og hs
    rename_i e he; cases hs
    have hg : pushGain cc c s (.complete i) = 0 := by simp [pushGain, pushOf]
    have h1 := pendPot_erase sc s.pending i e he
    have hse := hsc e
    simp only [nodePot, hg, resolve, cbsPot, List.map_append, List.sum_append, List.map_cons, List.map_nil, List.sum_cons, List.sum_nil] at h1 ⊢
    omega
  | send w =>
    simp only [step] at hs; og hs
    rename_i hw; og hs
    rename_i k x todo hpc
    cases ht : trySend s k x with
    | none => simp [ht] at hs
    | some s1 =>
      simp [ht] at hs; subst hs
      obtain ⟨t1, t2, t3, t4⟩ := trySend_pot s s1 k x ht
      have hg := pushGain_le_send cc c s w k x todo hw hpc
      have hu := sumPc_upd c.W s.pc (pcPot cc sc) w (.deliver todo) hw
      rw [hpc] at hu
      simp only [nodePot, t1, t2, t3, t4, pcPot, todoCost_cons] at hu ⊢
      omega
  | finish w =>
    simp only [step] at hs; og hs
    rename_i hw; og hs
    rename_i hpc; cases hs
    have hg : pushGain cc c s (.finish w) = 0 := by simp [pushGain, pushOf]
    have hu := sumPc_upd c.W s.pc (pcPot cc sc) w .idle hw
    rw [hpc] at hu
    simp only [nodePot, hg, pcPot, todoCost_nil] at hu ⊢
    omega
  | cbSend i =>
    simp only [step] at hs; og hs
    rename_i k x todo he
    cases ht : trySend s k x with
    | none => simp [ht] at hs
    | some s1 =>
      simp [ht] at hs; subst hs
      obtain ⟨t1, t2, t3, t4⟩ := trySend_pot s s1 k x ht
      have hg := pushGain_le_cb cc c s i k x todo he
      have h1 := cbsPot_set cc s.cbs i ((k, x) :: todo) todo he
      simp only [nodePot, setCb, t1, t2, t3, t4, todoCost_cons] at h1 ⊢
      omega
  | cbFinish i =>
    simp only [step] at hs; og hs
    rename_i he; cases hs
    have hg : pushGain cc c s (.cbFinish i) = 0 := by simp [pushGain, pushOf]
    have h1 := cbsPot_erase cc s.cbs i [] he
    simp only [nodePot, hg, todoCost_nil] at h1 ⊢
    omega
  | seeClosed w =>
    simp only [step] at hs; og hs
    rename_i hw; og hs
    rename_i hpc _; og hs; cases hs
    have hg : pushGain cc c s (.seeClosed w) = 0 := by simp [pushGain, pushOf]
    have hu := sumPc_upd c.W s.pc (pcPot cc sc) w .c1 hw
    rw [hpc] at hu
    simp only [nodePot, hg, pcPot] at hu ⊢
    omega
  | wgDone w =>
    simp only [step] at hs; og hs
    rename_i hw; og hs
    rename_i hpc; cases hs
    have hg : pushGain cc c s (.wgDone w) = 0 := by simp [pushGain, pushOf]
    have hu := sumPc_upd c.W s.pc (pcPot cc sc) w .c2 hw
    rw [hpc] at hu
    simp only [nodePot, hg, pcPot] at hu ⊢
    omega
  | wgWait w =>
    simp only [step] at hs; og hs
    rename_i hw; og hs
    rename_i hpc; og hs; cases hs
    have hg : pushGain cc c s (.wgWait w) = 0 := by simp [pushGain, pushOf]
    have hu := sumPc_upd c.W s.pc (pcPot cc sc) w .c3 hw
    rw [hpc] at hu
    simp only [nodePot, hg, pcPot] at hu ⊢
    omega
  | onceEnter w =>
    simp only [step] at hs; og hs
    rename_i hw; og hs
    rename_i hpc
    have hg : pushGain cc c s (.onceEnter w) = 0 := by simp [pushGain, pushOf]
    split at hs
    · cases hs
      have hu := sumPc_upd c.W s.pc (pcPot cc sc) w .hSh hw
      rw [hpc] at hu
      simp only [nodePot, hg, pcPot] at hu ⊢
      omega
    · og hs; cases hs
      have hu := sumPc_upd c.W s.pc (pcPot cc sc) w .exited hw
      rw [hpc] at hu
      simp only [nodePot, hg, pcPot] at hu ⊢
      omega
  | shutEnter w =>
    simp only [step] at hs; og hs
    rename_i hw; og hs
    rename_i hpc; cases hs
    have hg : pushGain cc c s (.shutEnter w) = 0 := by simp [pushGain, pushOf]
    have hu := sumPc_upd c.W s.pc (pcPot cc sc) w .hShIn hw
    rw [hpc] at hu
    simp only [nodePot, hg, pcPot] at hu ⊢
    omega
  | shutExit w =>
    simp only [step] at hs; og hs
    rename_i hw; og hs
    rename_i hpc; og hs; cases hs
    have hg : pushGain cc c s (.shutExit w) = 0 := by simp [pushGain, pushOf]
    have hu := sumPc_upd c.W s.pc (pcPot cc sc) w .hClose hw
    rw [hpc] at hu
    simp only [nodePot, hg, pcPot] at hu ⊢
    omega
  | closeAll w =>
    simp only [step] at hs; og hs
    rename_i hw; og hs
    rename_i hpc
    have hg : pushGain cc c s (.closeAll w) = 0 := by simp [pushGain, pushOf]
    split at hs
    · cases hs; simp at hnp
    · cases hs
      have hu := sumPc_upd c.W s.pc (pcPot cc sc) w .exited hw
      rw [hpc] at hu
      simp only [nodePot, hg, pcPot] at hu ⊢
      omega


end Firebolt.Exec
