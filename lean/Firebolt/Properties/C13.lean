import Firebolt.Properties.TransBase
import Firebolt.Spec.Config
import Firebolt.Generated.Source
import Firebolt.Expected.Source
import Firebolt.Generated.Closure
import Firebolt.Expected.Closure
/-!
# C13 — Configuration is accepted exactly when it is consistent, and defaults are filled

Theorems about `Model/Config.lean` for every tree shape.  The full equivalence `accept ↔ consistent` is FALSE on the
unchanged code (known finding F1: the uniqueness walk only follows first children); its negation is proved with a
concrete witness, and `accept_iff_partial` states exactly what holds: accept ↔ (consistent but for ids) ∧ ids unique
along every first-child spine.
-/
namespace Firebolt.C13
open Firebolt Firebolt.Config

/-! ### defaults -/
mutual
theorem defaults_filledN (n : Node) : filledN (defaultsN n) = true := by
  match n with
  | .mk id name w b cs h =>
    have h1 := defaults_filledL cs
    have h2 := defaults_filledO h
    unfold defaultsN filledN
    rw [h1, h2]
    by_cases hid : id = "" <;> by_cases hw : w = 0 <;> by_cases hb : b = 0 <;> simp [hid, hw, hb]
theorem defaults_filledL (ns : List Node) : filledL (defaultsL ns) = true := by
  match ns with
  | [] => simp [defaultsL, filledL]
  | c :: cs => simp [defaultsL, filledL, defaults_filledN c, defaults_filledL cs]
theorem defaults_filledO (h : Option Node) : filledO (defaultsO h) = true := by
  match h with
  | none => simp [defaultsO, filledO]
  | some hn => simp [defaultsO, filledO, defaults_filledN hn]
end

/-- an accepted configuration has every id (defaulting to the type name), workers and buffersize filled,
for nodes, error handlers and all descendants; the timeout is positive (10 when unset) -/
theorem accepted_defaults (r : Registry) (c : Cfg) (h : (Config.read r c).1 = .ok) :
    filledL (Config.read r c).2.nodes = true ∧ 0 < (Config.read r c).2.timeout ∧
    ((Config.read r c).2.timeout = if c.timeout ≤ 0 then 10 else c.timeout) := by
  unfold Config.read at *
  cases hv : validate r (withDefaults c) with
  | ok =>
    simp only [withDefaults]
    refine ⟨defaults_filledL c.nodes, ?_, ?_⟩
    · split <;> omega
    · trivial
  | reject => simp [hv] at h
  | crash => simp [hv] at h

/-! ### the uniqueness walk -/

/-- `l` has no duplicates and shares nothing with `seen` -/
def Fresh (l seen : List String) : Prop := l.Nodup ∧ ∀ x ∈ l, x ∉ seen

theorem uniqCode_iff (n : Node) : ∀ (seen s : List String),
    uniqCode seen n = some s ↔ (Fresh (spine n) seen ∧ s = (spine n).reverse ++ seen) := by
  match n with
  | .mk id name w b cs h =>
    intro seen s
    match cs with
    | [] =>
      simp only [uniqCode, spine, Fresh]
      by_cases hin : id ∈ seen <;> simp [hin] <;> grind
    | c :: rest =>
      have ih := uniqCode_iff c (id :: seen) s
      simp only [uniqCode, spine, Fresh] at *
      by_cases hin : id ∈ seen
      · simp [hin]
      · simp only [hin, if_false]
        rw [ih]
        simp only [List.nodup_cons, List.mem_cons, List.reverse_cons, List.append_assoc, List.singleton_append]
        grind

/-- the walk accepts exactly when the visited ids (each root and its chain of first children) are pairwise distinct -/
theorem uniqRoots_iff (ns : List Node) : ∀ (seen : List String),
    (uniqRoots seen ns = true ↔ Fresh (spines ns) seen) := by
  induction ns with
  | nil => intro seen; simp [uniqRoots, spines, Fresh]
  | cons n ns ih =>
    intro seen
    simp only [uniqRoots, spines, List.flatMap_cons]
    cases hu : uniqCode seen n with
    | none =>
      simp only [Bool.false_eq_true, false_iff]
      intro hf
      have : uniqCode seen n = some ((spine n).reverse ++ seen) := by
        rw [uniqCode_iff]; refine ⟨?_, rfl⟩
        unfold Fresh at *; grind [List.nodup_append]
      rw [hu] at this; cases this
    | some s =>
      have := (uniqCode_iff n seen s).1 hu
      obtain ⟨hf, rfl⟩ := this
      rw [ih]
      unfold Fresh spines at *
      simp only [List.nodup_append, List.mem_append, List.mem_reverse]
      grind

/-- **what the code does guarantee about ids**: in an accepted configuration the ids along every first-child spine,
across all roots, are pairwise distinct -/
theorem accepted_spine_unique (r : Registry) (c : Cfg) (h : validate r c = .ok) : (spines c.nodes).Nodup := by
  unfold validate at h
  by_cases hu : uniqRoots [] c.nodes = true
  · exact ((uniqRoots_iff c.nodes []).1 hu).1
  · simp [hu] at h

/-! ### type and handler rules -/

theorem checkHandler_iff (r : Registry) (h : Node) : checkHandler r h = .ok ↔ handlerOk r h = true := by
  unfold checkHandler handlerOk
  cases hc : h.children.isEmpty <;> cases hh : h.handler <;> simp
  cases hr : r.node h.name with
  | none => simp
  | some reg => by_cases h3 : reg.consumes = Ty.E <;> simp [h3]

theorem checkHandler_not_crash (r : Registry) (h : Node) : checkHandler r h ≠ .crash := by
  unfold checkHandler
  split
  · simp
  · split
    · simp
    · split
      · simp
      · split <;> simp

/-- the children loop succeeds iff every child is registered and consumes what the parent produces -/
theorem checkChildTypes_ok (r : Registry) (p : Reg) (cs : List Node) :
    checkChildTypes r p cs = .ok ↔ ∀ c ∈ cs, ∃ creg, r.node c.name = some creg ∧ p.produces = some creg.consumes := by
  induction cs with
  | nil => simp [checkChildTypes]
  | cons c cs ih =>
    simp only [checkChildTypes, List.mem_cons, forall_eq_or_imp]
    cases hr : r.node c.name with
    | none => simp
    | some creg =>
      simp only []
      by_cases hp : p.produces = some creg.consumes
      · simp [hp, ih]
      · simp only [hp, ne_eq, not_false_eq_true, if_true]
        constructor
        · intro h; split at h <;> simp at h
        · rintro ⟨⟨cr, h1, h2⟩, _⟩
          simp at h1; subst h1; exact absurd h2 hp

mutual
/-- a node that passes validateNodeConfig and consumes `input` is well typed below, with legal handlers -/
theorem checkNode_sound (r : Registry) (n : Node) (input : Ty) :
    checkNode r n = .ok → (∃ reg, r.node n.name = some reg ∧ reg.consumes = input) → typedN r input n = true := by
  match n with
  | .mk id name w b cs h =>
    intro hok ⟨reg, hreg, hcons⟩
    simp only [Node.name] at hreg
    simp only [checkNode, hreg] at hok
    simp only [typedN, hreg, hcons, decide_true, Bool.true_and]
    cases hct : checkChildTypes r reg cs with
    | ok =>
      rw [hct] at hok
      simp only [] at hok
      cases hch : checkHandlerO r h with
      | ok =>
        rw [hch] at hok
        simp only [] at hok
        have hh : handlerOkO r h = true := by
          match h with
          | none => rfl
          | some hn => exact (checkHandler_iff r hn).1 (by simpa [checkHandlerO] using hch)
        rw [hh]
        have hall := (checkChildTypes_ok r reg cs).1 hct
        cases hp : reg.produces with
        | none =>
          simp only [Bool.true_and]
          cases cs with
          | nil => rfl
          | cons c cs' =>
            obtain ⟨creg, _, h2⟩ := hall c (List.mem_cons_self ..)
            rw [hp] at h2; cases h2
        | some out =>
          simp only [Bool.true_and]
          exact checkNodes_sound r cs out hok (fun c hc => by
            obtain ⟨creg, h1, h2⟩ := hall c hc
            rw [hp] at h2
            exact ⟨creg, h1, (Option.some.inj h2).symm⟩)
      | reject => rw [hch] at hok; simp at hok
      | crash => rw [hch] at hok; simp at hok
    | reject => rw [hct] at hok; simp at hok
    | crash => rw [hct] at hok; simp at hok
theorem checkNodes_sound (r : Registry) (ns : List Node) (input : Ty) :
    checkNodes r ns = .ok → (∀ c ∈ ns, ∃ reg, r.node c.name = some reg ∧ reg.consumes = input) → typedL r input ns = true := by
  match ns with
  | [] => intro _ _; simp [typedL]
  | c :: cs =>
    intro hok hall
    simp only [checkNodes] at hok
    cases hc : checkNode r c with
    | ok =>
      rw [hc] at hok
      simp only [typedL, Bool.and_eq_true]
      exact ⟨checkNode_sound r c input hc (hall c (List.mem_cons_self ..)),
             checkNodes_sound r cs input (by simpa using hok) (fun x hx => hall x (List.mem_cons_of_mem _ hx))⟩
    | reject => rw [hc] at hok; simp at hok
    | crash => rw [hc] at hok; simp at hok
end

theorem checkRoots_ok (r : Registry) (p : Ty) (ns : List Node) (h : checkRoots r p ns = .ok) :
    ∀ n ∈ ns, ∃ reg, r.node n.name = some reg ∧ reg.consumes = p := by
  induction ns with
  | nil => intro n hn; cases hn
  | cons n ns ih =>
    simp only [checkRoots] at h
    cases hr : r.node n.name with
    | none => simp [hr] at h
    | some reg =>
      simp only [hr] at h
      by_cases hp : p = reg.consumes
      · intro x hx
        rcases List.mem_cons.1 hx with rfl | hx
        · exact ⟨reg, hr, hp.symm⟩
        · exact ih (by simpa [hp] using h) x hx
      · simp [hp] at h

theorem checkSource_ok (r : Registry) (c : Cfg) (h : checkSource r c = .ok) :
    ∃ p, r.source c.source = some p ∧ ∀ n ∈ c.nodes, ∃ reg, r.node n.name = some reg ∧ reg.consumes = p := by
  unfold checkSource at h
  cases hs : r.source c.source with
  | none => simp [hs] at h
  | some p => exact ⟨p, rfl, checkRoots_ok r p c.nodes (by simpa [hs] using h)⟩

/-- **soundness of acceptance** (all clauses but global id uniqueness): an accepted configuration has a registered
source, every node and handler registered, every node consuming what its parent (or the source) produces, every
handler consuming error reports with neither children nor a handler, and a kafka transport if any -/
theorem accept_sound (r : Registry) (c : Cfg) (h : validate r c = .ok) :
    (match c.transport with | some t => t = "kafka" | none => True) ∧
    ∃ p, r.source c.source = some p ∧ typedL r p c.nodes = true := by
  unfold validate at h
  by_cases hu : uniqRoots [] c.nodes = true
  · simp only [hu, Bool.not_true, Bool.false_eq_true, if_false] at h
    cases htb : transportBad c.transport with
    | true => simp [htb] at h
    | false =>
      simp only [htb, Bool.false_eq_true, if_false] at h
      constructor
      · cases ht : c.transport with
        | none => trivial
        | some t =>
          simp only [ht, transportBad] at htb
          simpa using htb
      · cases hcs : checkSource r c with
        | ok =>
          rw [hcs] at h
          obtain ⟨p, hp, hall⟩ := checkSource_ok r c hcs
          exact ⟨p, hp, checkNodes_sound r c.nodes p (by simpa using h) hall⟩
        | reject => rw [hcs] at h; simp at h
        | crash => rw [hcs] at h; simp at h
  · simp [hu] at h


/-! ### completeness: a consistent configuration is accepted -/

theorem typedN_reg (r : Registry) (input : Ty) (n : Node) (h : typedN r input n = true) :
    ∃ reg, r.node n.name = some reg ∧ reg.consumes = input := by
  match n with
  | .mk id name w b cs hh =>
    simp only [typedN] at h
    cases hr : r.node name with
    | none => simp [hr] at h
    | some reg =>
      simp only [hr, Bool.and_eq_true, decide_eq_true_eq] at h
      exact ⟨reg, by simp [Node.name, hr], h.1.1⟩

theorem typedL_all (r : Registry) (input : Ty) (ns : List Node) (h : typedL r input ns = true) :
    ∀ c ∈ ns, typedN r input c = true := by
  induction ns with
  | nil => intro c hc; cases hc
  | cons a t ih =>
    simp only [typedL, Bool.and_eq_true] at h
    intro c hc
    rcases List.mem_cons.1 hc with rfl | hc
    · exact h.1
    · exact ih h.2 c hc

mutual
theorem checkNode_complete (r : Registry) (n : Node) (input : Ty) (h : typedN r input n = true) : checkNode r n = .ok := by
  match n with
  | .mk id name w b cs hh =>
    simp only [typedN] at h
    cases hr : r.node name with
    | none => simp [hr] at h
    | some reg =>
      simp only [hr, Bool.and_eq_true, decide_eq_true_eq] at h
      obtain ⟨⟨hcons, hho⟩, hprod⟩ := h
      have hhandler : checkHandlerO r hh = .ok := by
        match hh with
        | none => rfl
        | some hn => exact (checkHandler_iff r hn).2 (by simpa [handlerOkO] using hho)
      simp only [checkNode, hr]
      cases hp : reg.produces with
      | none =>
        rw [hp] at hprod
        have hcs : cs = [] := by cases cs <;> simp_all
        subst hcs
        simp [checkChildTypes, hhandler, checkNodes]
      | some out =>
        rw [hp] at hprod
        have hall := typedL_all r out cs hprod
        have hct : checkChildTypes r reg cs = .ok := by
          rw [checkChildTypes_ok]
          intro c hc
          obtain ⟨creg, h1, h2⟩ := typedN_reg r out c (hall c hc)
          exact ⟨creg, h1, by rw [hp, h2]⟩
        simp only [hct, hhandler]
        exact checkNodes_complete r cs out hprod
theorem checkNodes_complete (r : Registry) (ns : List Node) (input : Ty) (h : typedL r input ns = true) : checkNodes r ns = .ok := by
  match ns with
  | [] => rfl
  | c :: cs =>
    simp only [typedL, Bool.and_eq_true] at h
    simp only [checkNodes, checkNode_complete r c input h.1]
    exact checkNodes_complete r cs input h.2
end

theorem checkRoots_complete (r : Registry) (p : Ty) (ns : List Node) (h : typedL r p ns = true) : checkRoots r p ns = .ok := by
  induction ns with
  | nil => rfl
  | cons a t ih =>
    simp only [typedL, Bool.and_eq_true] at h
    obtain ⟨reg, h1, h2⟩ := typedN_reg r p a h.1
    simp only [checkRoots, h1]
    have : ¬ p ≠ reg.consumes := by simp [h2]
    simp only [this, if_false]
    exact ih h.2

mutual
theorem spine_sublist (n : Node) : (spine n).Sublist (idsN n) := by
  match n with
  | .mk id name w b cs h =>
    match cs with
    | [] => simp [spine, idsN, idsL]
    | c :: rest =>
      simp only [spine, idsN, idsL]
      exact List.Sublist.cons₂ _ ((spine_sublist c).trans (List.sublist_append_left _ _))
end

theorem spines_sublist (ns : List Node) : (spines ns).Sublist (idsL ns) := by
  induction ns with
  | nil => simp [spines, idsL]
  | cons a t ih =>
    simp only [spines, List.flatMap_cons, idsL]
    exact List.Sublist.append (spine_sublist a) ih

/-- **completeness**: a configuration that is consistent in the sense of the statement is accepted -/
theorem consistent_accepted (r : Registry) (c : Cfg) (hids : (idsL c.nodes).Nodup)
    (htr : match c.transport with | some t => t = "kafka" | none => True)
    (p : Ty) (hsrc : r.source c.source = some p) (htyped : typedL r p c.nodes = true) : validate r c = .ok := by
  unfold validate
  have hu : uniqRoots [] c.nodes = true := by
    rw [uniqRoots_iff]
    exact ⟨List.Nodup.sublist (spines_sublist c.nodes) hids, fun x _ hx => by cases hx⟩
  have htb : transportBad c.transport = false := by
    cases ht : c.transport with
    | none => rfl
    | some t => rw [ht] at htr; simp [transportBad, htr]
  have hcs : checkSource r c = .ok := by
    unfold checkSource; rw [hsrc]; exact checkRoots_complete r p c.nodes htyped
  simp [hu, htb, hcs, checkNodes_complete r c.nodes p htyped]

/-- **what acceptance is, exactly, for the code as it stands**: accepted ⇔ every clause of consistency other than id
uniqueness holds ∧ the ids along the first-child spines are pairwise distinct -/
theorem accept_iff_partial (r : Registry) (c : Cfg) :
    validate r c = .ok ↔
      ((spines c.nodes).Nodup ∧ (match c.transport with | some t => t = "kafka" | none => True) ∧
       ∃ p, r.source c.source = some p ∧ typedL r p c.nodes = true) := by
  constructor
  · intro h
    exact ⟨accepted_spine_unique r c h, (accept_sound r c h).1, (accept_sound r c h).2⟩
  · rintro ⟨hsp, htr, p, hsrc, htyped⟩
    unfold validate
    have hu : uniqRoots [] c.nodes = true := by
      rw [uniqRoots_iff]; exact ⟨hsp, fun x _ hx => by cases hx⟩
    have htb : transportBad c.transport = false := by
      cases ht : c.transport with
      | none => rfl
      | some t => rw [ht] at htr; simp [transportBad, htr]
    have hcs : checkSource r c = .ok := by
      unfold checkSource; rw [hsrc]; exact checkRoots_complete r p c.nodes htyped
    simp [hu, htb, hcs, checkNodes_complete r c.nodes p htyped]

/-! ### the finding: duplicate ids off the first-child spine are accepted -/

def tinyRegistry : Registry :=
  { node := fun n => if n = "t" then some ⟨.A, some .A⟩ else none,
    source := fun n => if n = "s" then some .A else none }

def dupSiblings : Cfg :=
  ⟨"s", none, 0, [.mk "a" "t" 1 1 [.mk "b" "t" 1 1 [] none, .mk "b" "t" 1 1 [] none] none]⟩

/-- the full statement "accepted → consistent" is false for the code as it stands: two siblings share the id `b` -/
theorem sibling_duplicate_accepted :
    validate tinyRegistry dupSiblings = .ok ∧ consistent tinyRegistry dupSiblings = false := by
  decide

/-- … while a duplicate between a node and its first child is rejected -/
theorem spine_duplicate_rejected :
    validate tinyRegistry ⟨"s", none, 0, [.mk "a" "t" 1 1 [.mk "a" "t" 1 1 [] none] none]⟩ = .reject := by
  decide


/-! ### the functions this model was transcribed from are unchanged (regenerated from /repo on every run) -/
theorem source_cfgRead : GeneratedSrc.cfgRead = ExpectedSrc.cfgRead := by rfl
theorem source_cfgValidate : GeneratedSrc.cfgValidate = ExpectedSrc.cfgValidate := by rfl
theorem source_cfgValidateInternalData : GeneratedSrc.cfgValidateInternalData = ExpectedSrc.cfgValidateInternalData := by rfl
theorem source_cfgValidateSource : GeneratedSrc.cfgValidateSource = ExpectedSrc.cfgValidateSource := by rfl
theorem source_cfgValidateUniqueID : GeneratedSrc.cfgValidateUniqueID = ExpectedSrc.cfgValidateUniqueID := by rfl
theorem source_cfgValidateNode : GeneratedSrc.cfgValidateNode = ExpectedSrc.cfgValidateNode := by rfl
theorem source_cfgValidateErrorHandler : GeneratedSrc.cfgValidateErrorHandler = ExpectedSrc.cfgValidateErrorHandler := by rfl
theorem source_cfgSetDefaults : GeneratedSrc.cfgSetDefaults = ExpectedSrc.cfgSetDefaults := by rfl
theorem source_cfgAssignNodeDefaults : GeneratedSrc.cfgAssignNodeDefaults = ExpectedSrc.cfgAssignNodeDefaults := by rfl

/-! ### the registry the validator reads: the latest registration of a name replaces the record whole -/
theorem source_registerNodeType : GeneratedSrc.registerNodeType = ExpectedSrc.registerNodeType := by rfl
theorem source_registerSourceType : GeneratedSrc.registerSourceType = ExpectedSrc.registerSourceType := by rfl
theorem source_getNodeRegistration : GeneratedSrc.getNodeRegistration = ExpectedSrc.getNodeRegistration := by rfl
theorem source_getSourceRegistration : GeneratedSrc.getSourceRegistration = ExpectedSrc.getSourceRegistration := by rfl

/-! ### influence closure: the pinned functions, and every function of the repository that writes a struct field or package
variable they read, are unchanged (digests regenerated from /repo on every run; a difference names the functions) -/
/-! ### The code itself, translated (`Generated/Trans.lean`, rewritten from /repo on every run by extractor/translate.go)

The `translated_*` theorems are about MiniGo terms the translator produced from the current Go source: for every
environment the translated fragment does what the hand-written model function says.  They are semantic obligations —
a rewrite that preserves the behaviour keeps them provable, a changed comparison, bound or argument does not. -/
section Translated
open Firebolt.MiniGo Firebolt.TransBase

/-- config.Read, translated: a file that cannot be read or parsed is an error and nothing further happens; defaults are
filled (`setDefaults`) before `validate` judges; a refused configuration is an error; an accepted one is returned with a
missing or non-positive `shutdowntimeout` replaced by 10 and any other left alone -/
theorem translated_cfgRead (σ : Env) :
    let r := run Trans.cfgRead σ
    let names := r.calls.map (·.1)
    r.stuck = false ∧
    (σ "os.ReadFile#1" ≠ 0 → r.ret = some [0, σ "os.ReadFile#1"] ∧ names = ["os.ReadFile"]) ∧
    (σ "os.ReadFile#1" = 0 → σ "yaml.Unmarshal#0" ≠ 0 →
        r.ret = some [0, σ "yaml.Unmarshal#0"] ∧ names = ["os.ReadFile", "[]byte", "yaml.Unmarshal"]) ∧
    (σ "os.ReadFile#1" = 0 → σ "yaml.Unmarshal#0" = 0 →
        names = ["os.ReadFile", "[]byte", "yaml.Unmarshal", "setDefaults", "validate"] ∧
        (σ "validate#0" ≠ 0 → r.ret = some [0, σ "validate#0"]) ∧
        (σ "validate#0" = 0 → r.ret = some [σ "&c", 0] ∧
            r.env "c.ShutdownTimeOut" = if σ "c.ShutdownTimeOut" ≤ 0 then 10 else σ "c.ShutdownTimeOut")) := by
  by_cases h1 : σ "os.ReadFile#1" = 0 <;> by_cases h2 : σ "yaml.Unmarshal#0" = 0 <;> by_cases h3 : σ "validate#0" = 0 <;>
  by_cases h4 : σ "c.ShutdownTimeOut" ≤ 0 <;>
  minigo_simp [Trans.cfgRead, h1, h2, h3, h4]

/-- assignNodeConfigDefaults, translated: an empty id becomes the name, zero workers / buffer size become 1, everything else
is left as given; the error handler (when there is one) and every child get the same treatment -/
theorem translated_cfgNodeDefaults (σ : Env) :
    let r := run Trans.cfgNodeDefaults σ
    r.stuck = false ∧ r.ret = none ∧
    r.env "n.ID" = (if σ "n.ID" = σ "\"\"" then σ "n.Name" else σ "n.ID") ∧
    r.env "n.Workers" = (if σ "n.Workers" = 0 then 1 else σ "n.Workers") ∧
    r.env "n.BufferSize" = (if σ "n.BufferSize" = 0 then 1 else σ "n.BufferSize") ∧
    r.calls = (if σ "n.ErrorHandler" ≠ 0 then [("assignNodeConfigDefaults", [σ "n.ErrorHandler"])] else []) ++
              [("foreach n.Children: assignNodeConfigDefaults", [σ "child"])] := by
  by_cases h1 : σ "n.ID" = σ "\"\"" <;> by_cases h2 : σ "n.Workers" = 0 <;> by_cases h3 : σ "n.BufferSize" = 0 <;>
  by_cases h4 : σ "n.ErrorHandler" = 0 <;>
  minigo_simp [Trans.cfgNodeDefaults, h1, h2, h3, h4]

/-- validateErrorHandlerConfig, translated: accepted exactly when the handler has no children, no handler of its own, a
registered type, and that type consumes `*firebolt.EventError` (`fmt.Errorf` never returns nil: `hE`) -/
theorem translated_cfgValidateHandler (σ : Env) (hE : σ "fmt.Errorf#0" ≠ 0) :
    let r := run Trans.cfgValidateHandler σ
    r.stuck = false ∧
    (r.ret = some [0] ↔
      (σ "n.Children" = 0 ∧ σ "n.ErrorHandler" = 0 ∧ σ "node.GetRegistry().GetNodeRegistration#0" ≠ 0 ∧
       σ "r.Consumes" = σ "reflect.TypeOf#0")) ∧
    (r.ret ≠ some [0] → r.ret = some [σ "fmt.Errorf#0"]) := by
  by_cases h1 : σ "n.Children" = 0 <;> by_cases h2 : σ "n.ErrorHandler" = 0 <;>
  by_cases h3 : σ "node.GetRegistry().GetNodeRegistration#0" = 0 <;> by_cases h4 : σ "r.Consumes" = σ "reflect.TypeOf#0" <;>
  minigo_simp [Trans.cfgValidateHandler, h1, h2, h3, h4, hE]

/-- validateInternalDataConfig: refused exactly when an internaldata section names a transport other than "kafka" -/
theorem translated_cfgValidateInternalData (σ : Env) :
    (run Trans.cfgValidateInternalData σ).ret =
      (if σ "c.InternalData" ≠ 0 ∧ σ "c.InternalData.Transport" ≠ σ "\"kafka\"" then some [σ "fmt.Errorf#0"] else some [0]) := by
  by_cases h1 : σ "c.InternalData" = 0 <;> by_cases h2 : σ "c.InternalData.Transport" = σ "\"kafka\"" <;>
  minigo_simp [Trans.cfgValidateInternalData, h1, h2]

/-- the parent/child type check of validateNodeConfig: the walk goes on (no return) exactly when the child's type is
registered and consumes, by identity of the registered types, what the parent produces -/
theorem translated_cfgChildTypeBody (σ : Env) :
    ((run Trans.cfgChildTypeBody σ).ret = none ↔
      (σ "node.GetRegistry().GetNodeRegistration#0" ≠ 0 ∧ σ "r.Produces" = σ "childRegistration.Consumes")) ∧
    ((run Trans.cfgChildTypeBody σ).ret ≠ none → (run Trans.cfgChildTypeBody σ).ret = some [σ "fmt.Errorf#0"]) := by
  by_cases h1 : σ "node.GetRegistry().GetNodeRegistration#0" = 0 <;> by_cases h2 : σ "r.Produces" = σ "childRegistration.Consumes" <;>
  minigo_simp [Trans.cfgChildTypeBody, h1, h2]

/-- the source/root type check of validateSourceConfig, likewise -/
theorem translated_cfgRootTypeBody (σ : Env) :
    ((run Trans.cfgRootTypeBody σ).ret = none ↔
      (σ "node.GetRegistry().GetNodeRegistration#0" ≠ 0 ∧ σ "r.Produces" = σ "nodeReg.Consumes")) := by
  by_cases h1 : σ "node.GetRegistry().GetNodeRegistration#0" = 0 <;> by_cases h2 : σ "r.Produces" = σ "nodeReg.Consumes" <;>
  minigo_simp [Trans.cfgRootTypeBody, h1, h2]

/-- validateUniqueID up to its loop: an id seen before is refused, a new one is recorded -/
theorem translated_cfgUniqueIDHead (σ : Env) :
    ((run Trans.cfgUniqueIDHead σ).ret = (if σ "lookup allIDs#1" ≠ 0 then some [σ "fmt.Errorf#0"] else none)) ∧
    (σ "lookup allIDs#1" = 0 → (run Trans.cfgUniqueIDHead σ).env "allIDs[node.ID]" = σ "struct{}{}") := by
  by_cases h1 : σ "lookup allIDs#1" = 0 <;> minigo_simp [Trans.cfgUniqueIDHead, h1]

/-- **F1 at the level of the source**: the body of validateUniqueID's loop over the children *returns* — in every
environment — with the result for the child at hand, so the loop never reaches a second child: only first-child spines are
checked (the model's `uniqCode` follows the code; `C13.sibling_duplicate_accepted` is the witness) -/
theorem translated_cfgUniqueIDBody_returns (σ : Env) :
    (run Trans.cfgUniqueIDBody σ).ret = some [σ "validateUniqueID#0"] ∧
    (run Trans.cfgUniqueIDBody σ).calls = [("validateUniqueID", [σ "allIDs", σ "child"])] := by
  minigo_simp [Trans.cfgUniqueIDBody]
end Translated

theorem closure_unchanged : GeneratedClo.C13 = ExpectedClo.C13 := by rfl

end Firebolt.C13
