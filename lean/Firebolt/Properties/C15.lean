import Firebolt.Properties.TransBase
import Firebolt.Model.Producer
import Firebolt.Generated.Skeleton
import Firebolt.Expected.Skeleton
import Firebolt.Generated.Source
import Firebolt.Expected.Source
import Firebolt.Generated.Closure
import Firebolt.Expected.Closure
/-!
# C15 — Kafka producer sink and error reports: one faithful record per event
Theorems about `Model/Producer.lean` (decision logic stated outright), for all payloads, topics and errors.
-/
namespace Firebolt.C15
open Firebolt Firebolt.Producer

/-- a record is enqueued exactly for a produce request with a topic from either place; otherwise an error and no record -/
theorem produce_iff (cfg : String) (p : Payload) :
    (∃ t v, produce cfg p = .produced t v) ↔ (∃ t v, p = .request t v ∧ (t ≠ "" ∨ cfg ≠ "")) := by
  cases p with
  | other => simp [produce]
  | request t v =>
    simp only [produce]
    by_cases ht : t = "" <;> by_cases hc : cfg = "" <;> simp [ht, hc]

/-- the request's topic wins over the configured one; the value is the request's bytes, unchanged -/
theorem produce_topic_value (cfg t v : String) :
    produce cfg (.request t v) =
      if t ≠ "" then .produced t v else if cfg ≠ "" then .produced cfg v else .error := by
  simp only [produce]
  by_cases ht : t = "" <;> by_cases hc : cfg = "" <;> simp [ht, hc]

theorem wrong_type_rejected (cfg : String) : produce cfg .other = .error := rfl

/-- structured errors keep their code, message and info -/
theorem structured_preserved (c m : String) :
    errJson (.fb c m) = ⟨c, m, false⟩ ∧ errJson (.fbInfo c m) = ⟨c, m, true⟩ := ⟨rfl, rfl⟩

/-- everything else — plain, wrapped, pointer-to-structured — is ERR_UNKNOWN plus the error's text, without info -/
theorem unstructured_unknown (e : Err) (h : ∀ c m, e ≠ .fb c m ∧ e ≠ .fbInfo c m) :
    (errJson e).code = "ERR_UNKNOWN" ∧ (errJson e).hasInfo = false := by
  cases e with
  | plain m => exact ⟨rfl, rfl⟩
  | fb c m => exact absurd rfl (h c m).1
  | fbInfo c m => exact absurd rfl (h c m).2
  | wrapped p c m => exact ⟨rfl, rfl⟩
  | ptrFb c m => exact ⟨rfl, rfl⟩

/-- an error report becomes exactly one record on the configured topic, an object with exactly `timestamp`, `event`,
`error`; whether the failed event's payload can be serialised changes only the `event` field -/
theorem report_shape (cfg : String) (ser : Bool) (e : Err) (hc : cfg ≠ "") :
    ∃ r, report cfg true ser e = .produced r ∧ r.topic = cfg ∧ r.keys = ["error", "event", "timestamp"] ∧ r.err = errJson e ∧
      (r.event = if ser then .same else .replaced) := by
  simp [report, hc]

theorem report_payload_independent (cfg : String) (e : Err) (r1 r2 : Report)
    (h1 : report cfg true true e = .produced r1) (h2 : report cfg true false e = .produced r2) :
    r1.topic = r2.topic ∧ r1.keys = r2.keys ∧ r1.err = r2.err := by
  unfold report at h1 h2
  by_cases hc : cfg = ""
  · simp [hc] at h1
  · simp [hc] at h1 h2; subst h1; subst h2; exact ⟨rfl, rfl, rfl⟩

theorem non_report_rejected (cfg : String) (ser : Bool) (e : Err) : report cfg false ser e = .error := rfl


/-! ### the functions this model was transcribed from are unchanged (regenerated from /repo on every run) -/
theorem source_kpProcess : GeneratedSrc.kpProcess = ExpectedSrc.kpProcess := by rfl
theorem source_kpProduce : GeneratedSrc.kpProduce = ExpectedSrc.kpProduce := by rfl
theorem source_epProcess : GeneratedSrc.epProcess = ExpectedSrc.epProcess := by rfl
theorem source_eventErrorMarshalJSON : GeneratedSrc.eventErrorMarshalJSON = ExpectedSrc.eventErrorMarshalJSON := by rfl
theorem source_newEventError : GeneratedSrc.newEventError = ExpectedSrc.newEventError := by rfl
theorem source_newFBError : GeneratedSrc.newFBError = ExpectedSrc.newFBError := by rfl
theorem source_tyEventError : GeneratedSrc.tyEventError = ExpectedSrc.tyEventError := by rfl
theorem source_tyFBError : GeneratedSrc.tyFBError = ExpectedSrc.tyFBError := by rfl


/-! ### functions the model's assumptions rest on (construction, wiring, surrounding calls) are unchanged -/
theorem source_kpSetup : GeneratedSrc.kpSetup = ExpectedSrc.kpSetup := by rfl
theorem source_kpStartEventsReceiver : GeneratedSrc.kpStartEventsReceiver = ExpectedSrc.kpStartEventsReceiver := by rfl
theorem source_kpStop : GeneratedSrc.kpStop = ExpectedSrc.kpStop := by rfl
theorem source_kpShutdown : GeneratedSrc.kpShutdown = ExpectedSrc.kpShutdown := by rfl

/-! ### where the error reports the error producer serialises are built -/
theorem skeleton_handleFailure : Generated.handleFailure = Expected.handleFailure := by rfl

/-! ### influence closure: the pinned functions, and every function of the repository that writes a struct field or package
variable they read, are unchanged (digests regenerated from /repo on every run; a difference names the functions) -/
/-! ### The code itself, translated (`Generated/Trans.lean`, rewritten from /repo on every run by extractor/translate.go)

The `translated_*` theorems are about MiniGo terms the translator produced from the current Go source: for every
environment the translated fragment does what the hand-written model function says.  They are semantic obligations —
a rewrite that preserves the behaviour keeps them provable, a changed comparison, bound or argument does not. -/
section Translated
open Firebolt.MiniGo Firebolt.TransBase

/-- KafkaProducer.Process: a record is produced iff the payload is a produce request and a topic is known (the
request's own topic wins over the configured one); otherwise an error is returned and nothing is produced -/
theorem translated_kpProcess (σ : Env) :
    let r := run Trans.kpProcess σ
    let isReq := σ "assert firebolt.ProduceRequest#1" ≠ 0
    let dest := if σ "produceRequest.Topic#0" ≠ σ "\"\"" then σ "produceRequest.Topic#0" else σ "k.topic"
    r.stuck = false ∧
    ((∃ a, ("k.Produce", a) ∈ r.calls) ↔ (isReq ∧ dest ≠ σ "\"\"")) ∧
    (r.ret = if isReq ∧ dest ≠ σ "\"\"" then some [0, 0] else some [0, σ "errors.New#0"]) ∧
    (isReq → dest ≠ σ "\"\"" → r.env "destinationTopic" = dest) := by
  by_cases h1 : σ "assert firebolt.ProduceRequest#1" = 0 <;>
  by_cases h2 : σ "produceRequest.Topic#0" = σ "\"\"" <;>
  by_cases h3 : σ "k.topic" = σ "\"\"" <;>
  minigo_simp [Trans.kpProcess, h1, h2, h3]
end Translated

theorem closure_unchanged : GeneratedClo.C15 = ExpectedClo.C15 := by rfl

end Firebolt.C15
