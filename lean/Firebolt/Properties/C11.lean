import Firebolt.TransExpected
import Firebolt.Properties.TransBase
import Firebolt.Spec.Route
import Firebolt.Generated.Source
import Firebolt.Expected.Source
import Firebolt.Generated.Closure
import Firebolt.Expected.Closure
/-!
# C11 — Messages are routed to exactly the subscribed source and nodes

Theorems about `Model/Route.lean` for every tree (any depth and fan-out), every subscription assignment, every message
type and every set of failing recipients.
-/
namespace Firebolt.C11
open Firebolt Firebolt.Route

def subscribed (t : String) (x : Int × List String × Bool) : Bool := x.2.1.contains t
def failing (t : String) (x : Int × List String × Bool) : Bool := x.2.1.contains t && x.2.2

theorem filter_sub_cons (t : String) (k : Int) (s : List String) (f : Bool) (l : List (Int × List String × Bool)) :
    (((k, s, f) :: l).filter (subscribed t)).map (·.1) =
      if s.contains t then k :: (l.filter (subscribed t)).map (·.1) else (l.filter (subscribed t)).map (·.1) := by
  by_cases h : t ∈ s <;> simp [List.filter_cons, subscribed, h]

theorem filter_fail_cons (t : String) (k : Int) (s : List String) (f : Bool) (l : List (Int × List String × Bool)) :
    (((k, s, f) :: l).filter (failing t)).map (·.1) =
      if s.contains t && f then k :: (l.filter (failing t)).map (·.1) else (l.filter (failing t)).map (·.1) := by
  by_cases h : t ∈ s <;> cases f <;> simp [List.filter_cons, failing, h]

mutual
/-- **the walk visits every node exactly once, in preorder**: recipients are exactly the subscribed nodes, the reported
failures exactly the failing subscribed nodes (a failure never stops the walk), indices advance by the subtree size -/
theorem walk_N (t : String) (n : RNode) : ∀ (w : Walk),
    (deliverN t w n).recipients = w.recipients ++ ((flattenN w.next n).1.filter (subscribed t)).map (·.1) ∧
    (deliverN t w n).errors = w.errors ++ ((flattenN w.next n).1.filter (failing t)).map (·.1) ∧
    (deliverN t w n).next = (flattenN w.next n).2 := by
  match n with
  | .mk subs fail cs =>
    intro w
    simp only [deliverN, flattenN]
    by_cases hs : subs.contains t = true
    · have ih := walk_L t cs ⟨w.recipients ++ [w.next], if fail then w.errors ++ [w.next] else w.errors, w.next + 1⟩
      simp only [hs, if_true]
      obtain ⟨h1, h2, h3⟩ := ih
      refine ⟨?_, ?_, h3⟩
      · have hm : t ∈ subs := by simpa using hs
        rw [h1, filter_sub_cons]; simp [hm]
      · have hm : t ∈ subs := by simpa using hs
        rw [h2, filter_fail_cons]; cases fail <;> simp [hm]
    · have ih := walk_L t cs { w with next := w.next + 1 }
      simp only [hs, Bool.false_eq_true, if_false]
      obtain ⟨h1, h2, h3⟩ := ih
      refine ⟨?_, ?_, h3⟩
      · have hm : ¬ t ∈ subs := by simpa using hs
        rw [h1, filter_sub_cons]; simp [hm]
      · have hm : ¬ t ∈ subs := by simpa using hs
        rw [h2, filter_fail_cons]; simp [hm]
theorem walk_L (t : String) (ns : List RNode) : ∀ (w : Walk),
    (deliverL t w ns).recipients = w.recipients ++ ((flattenL w.next ns).1.filter (subscribed t)).map (·.1) ∧
    (deliverL t w ns).errors = w.errors ++ ((flattenL w.next ns).1.filter (failing t)).map (·.1) ∧
    (deliverL t w ns).next = (flattenL w.next ns).2 := by
  match ns with
  | [] => intro w; simp [deliverL, flattenL]
  | c :: cs =>
    intro w
    simp only [deliverL, flattenL]
    obtain ⟨a1, a2, a3⟩ := walk_N t c w
    obtain ⟨b1, b2, b3⟩ := walk_L t cs (deliverN t w c)
    refine ⟨?_, ?_, ?_⟩
    · rw [b1, a1, a3]; simp
    · rw [b2, a2, a3]; simp
    · rw [b3, a3]
end

mutual
/-- preorder indices are consecutive -/
theorem flatten_idx_N (n : RNode) : ∀ (k : Int),
    (∀ x ∈ (flattenN k n).1, k ≤ x.1 ∧ x.1 < (flattenN k n).2) ∧ ((flattenN k n).1.map (·.1)).Nodup ∧ k < (flattenN k n).2 := by
  match n with
  | .mk s f cs =>
    intro k
    simp only [flattenN]
    obtain ⟨h1, h2, h3⟩ := flatten_idx_L cs (k + 1)
    refine ⟨?_, ?_, by omega⟩
    · intro x hx
      rcases List.mem_cons.1 hx with rfl | hx
      · simp; omega
      · have := h1 x hx; omega
    · simp only [List.map_cons, List.nodup_cons]
      refine ⟨?_, h2⟩
      intro hm
      obtain ⟨y, hy, e⟩ := List.mem_map.1 hm
      have := h1 y hy
      omega
theorem flatten_idx_L (ns : List RNode) : ∀ (k : Int),
    (∀ x ∈ (flattenL k ns).1, k ≤ x.1 ∧ x.1 < (flattenL k ns).2) ∧ ((flattenL k ns).1.map (·.1)).Nodup ∧ k ≤ (flattenL k ns).2 := by
  match ns with
  | [] => intro k; simp [flattenL]
  | c :: cs =>
    intro k
    simp only [flattenL]
    obtain ⟨a1, a2, a3⟩ := flatten_idx_N c k
    obtain ⟨b1, b2, b3⟩ := flatten_idx_L cs (flattenN k c).2
    refine ⟨?_, ?_, by omega⟩
    · intro x hx
      rcases List.mem_append.1 hx with hx | hx
      · have := a1 x hx; omega
      · have := b1 x hx; omega
    · rw [List.map_append]
      refine List.nodup_append.2 ⟨a2, b2, ?_⟩
      intro x hx y hy e
      obtain ⟨x', hx', rfl⟩ := List.mem_map.1 hx
      obtain ⟨y', hy', rfl⟩ := List.mem_map.1 hy
      have := a1 x' hx'; have := b1 y' hy'; omega
end

/-- **routing theorem**: `deliverMessage` hands the message to the source iff it is subscribed, then to every node of
the tree whose current subscription lists the type — each exactly once, no one else — and reports exactly the failures
of the failing recipients, for every tree -/
theorem deliver_exact (t : String) (srcSubs : List String) (srcFail : Bool) (roots : List RNode) :
    (deliver t srcSubs srcFail roots).recipients = ((everyone srcSubs srcFail roots).filter (subscribed t)).map (·.1) ∧
    (deliver t srcSubs srcFail roots).errors = ((everyone srcSubs srcFail roots).filter (failing t)).map (·.1) := by
  unfold deliver everyone
  by_cases hs : srcSubs.contains t = true
  · obtain ⟨h1, h2, _⟩ := walk_L t roots ⟨[-1], if srcFail then [-1] else [], 0⟩
    simp only [hs, if_true]
    refine ⟨?_, ?_⟩
    · have hm : t ∈ srcSubs := by simpa using hs
      rw [h1, filter_sub_cons]; simp [hm]
    · have hm : t ∈ srcSubs := by simpa using hs
      rw [h2, filter_fail_cons]; cases srcFail <;> simp [hm]
  · obtain ⟨h1, h2, _⟩ := walk_L t roots {}
    simp only [hs, Bool.false_eq_true, if_false]
    refine ⟨?_, ?_⟩
    · have hm : ¬ t ∈ srcSubs := by simpa using hs
      rw [h1, filter_sub_cons]; simp [hm]
    · have hm : ¬ t ∈ srcSubs := by simpa using hs
      rw [h2, filter_fail_cons]; simp [hm]

/-- no recipient is visited twice -/
theorem deliver_nodup (t : String) (srcSubs : List String) (srcFail : Bool) (roots : List RNode) :
    (deliver t srcSubs srcFail roots).recipients.Nodup := by
  rw [(deliver_exact t srcSubs srcFail roots).1]
  have hall : ((everyone srcSubs srcFail roots).map (·.1)).Nodup := by
    unfold everyone
    obtain ⟨h1, h2, _⟩ := flatten_idx_L roots 0
    simp only [List.map_cons, List.nodup_cons]
    refine ⟨?_, h2⟩
    intro hm
    obtain ⟨y, hy, e⟩ := List.mem_map.1 hm
    have := h1 y hy
    omega
  exact (List.Nodup.sublist ((List.filter_sublist).map _) hall)

/-- non-vacuity: a three-level tree with overlapping subscriptions and two failing recipients -/
example :
    let tree := [RNode.mk ["a"] true [.mk ["b"] false [.mk ["a", "b"] true []], .mk ["a"] false []], .mk [] false []]
    (deliver "a" ["a"] false tree).recipients = [-1, 0, 2, 3] ∧ (deliver "a" ["a"] false tree).errors = [0, 2] := by
  decide

end Firebolt.C11

namespace Firebolt.C11
open Firebolt Firebolt.Route

/-- **bridge**: for every tree, subscription assignment, message type and failing subset, what the model of the delivery
walk makes observable satisfies the Spec predicate that also judges `Executor.deliverMessage` -/
theorem spec_holds (t : String) (srcSubs : List String) (srcFail : Bool) (roots : List RNode) :
    spec t srcSubs srcFail roots (deliver t srcSubs srcFail roots).recipients (deliver t srcSubs srcFail roots).errors = none := by
  obtain ⟨h1, h2⟩ := deliver_exact t srcSubs srcFail roots
  have hn := deliver_nodup t srcSubs srcFail roots
  unfold spec
  have e1 : (fun x : Int × List String × Bool => x.2.1.contains t) = subscribed t := rfl
  have e2 : (fun x : Int × List String × Bool => x.2.1.contains t && x.2.2) = failing t := rfl
  simp only [e1, e2, ← h1, ← h2]
  have a1 : (deliver t srcSubs srcFail roots).recipients.Nodup := hn
  have a2 : (deliver t srcSubs srcFail roots).recipients.any (fun r => !(deliver t srcSubs srcFail roots).recipients.contains r) = false := by
    rw [List.any_eq_false]; intro x hx; simp [hx]
  simp [a1, a2]


/-! ### the functions this model was transcribed from are unchanged (regenerated from /repo on every run) -/
theorem source_exDeliverMessage : GeneratedSrc.exDeliverMessage = ExpectedSrc.exDeliverMessage := by rfl
theorem source_exDeliverMessageToNode : GeneratedSrc.exDeliverMessageToNode = ExpectedSrc.exDeliverMessageToNode := by rfl
theorem source_exAddError : GeneratedSrc.exAddError = ExpectedSrc.exAddError := by rfl
theorem source_exNewContextMessage : GeneratedSrc.exNewContextMessage = ExpectedSrc.exNewContextMessage := by rfl
theorem source_ctxSubscribe : GeneratedSrc.ctxSubscribe = ExpectedSrc.ctxSubscribe := by rfl
theorem source_ctxAcceptsMessage : GeneratedSrc.ctxAcceptsMessage = ExpectedSrc.ctxAcceptsMessage := by rfl


/-! ### functions the model's assumptions rest on (construction, wiring, surrounding calls) are unchanged -/
theorem source_exInitMessaging : GeneratedSrc.exInitMessaging = ExpectedSrc.exInitMessaging := by rfl
theorem source_exInitMessagingKafka : GeneratedSrc.exInitMessagingKafka = ExpectedSrc.exInitMessagingKafka := by rfl
theorem source_ctxInit : GeneratedSrc.ctxInit = ExpectedSrc.ctxInit := by rfl
theorem source_exNewMessage : GeneratedSrc.exNewMessage = ExpectedSrc.exNewMessage := by rfl
theorem source_exFindNodeByID : GeneratedSrc.exFindNodeByID = ExpectedSrc.exFindNodeByID := by rfl
theorem source_exFindMatchingNode : GeneratedSrc.exFindMatchingNode = ExpectedSrc.exFindMatchingNode := by rfl
theorem source_exGetSource : GeneratedSrc.exGetSource = ExpectedSrc.exGetSource := by rfl
theorem source_ctxSendMessage : GeneratedSrc.ctxSendMessage = ExpectedSrc.ctxSendMessage := by rfl
theorem source_ctxAckMessage : GeneratedSrc.ctxAckMessage = ExpectedSrc.ctxAckMessage := by rfl
theorem source_ctxConfigureMessaging : GeneratedSrc.ctxConfigureMessaging = ExpectedSrc.ctxConfigureMessaging := by rfl

/-! ### influence closure: the pinned functions, and every function of the repository that writes a struct field or package
variable they read, are unchanged (digests regenerated from /repo on every run; a difference names the functions) -/
/-! ### The code itself, translated (`Generated/Trans.lean`, rewritten from /repo on every run by extractor/translate.go)

The `translated_*` theorems are about MiniGo terms the translator produced from the current Go source: for every
environment the translated fragment does what the hand-written model function says.  They are semantic obligations —
a rewrite that preserves the behaviour keeps them provable, a changed comparison, bound or argument does not. -/
section Translated
open Firebolt.MiniGo Firebolt.TransBase

/-- deliverMessageToNode: a node is asked once whether it accepts the type; it receives the message iff it does; a
failing receipt is recorded; every child is visited regardless -/
theorem translated_exDeliverToNode (σ : Env) :
    obs Trans.exDeliverToNode σ = TransExpected.exDeliverToNode σ := by
  by_cases h1 : σ "node.NodeProcessor.AcceptsMessage#0" = 0 <;> by_cases h2 : σ "node.NodeProcessor.Receive#0" = 0 <;>
  minigo_simp [TransExpected.exDeliverToNode, Trans.exDeliverToNode, h1, h2]

/-- Executor.deliverMessage, translated: the source is asked once and receives the message iff it accepts the type; every root
subtree is visited regardless of what the source did; a failing receipt is recorded; the recorded failures are returned -/
theorem translated_exDeliverMessage (σ : Env) :
    obs Trans.exDeliverMessage σ = TransExpected.exDeliverMessage σ := by
  by_cases h1 : σ "e.source.AcceptsMessage#0" = 0 <;> by_cases h2 : σ "e.source.Receive#0" = 0 <;>
  minigo_simp [TransExpected.exDeliverMessage, Trans.exDeliverMessage, h1, h2]


/-- what deliverMessageToNode reads at one node: whether the node accepts the type and whether its Receive fails -/
def bindNode (σ : Env) (accepts fails : Bool) : Env :=
  upd (upd σ "node.NodeProcessor.AcceptsMessage#0" (if accepts then 1 else 0)) "node.NodeProcessor.Receive#0" (if fails then 1 else 0)

mutual
/-- deliverMessageToNode as Go runs it on a tree: the translated body at the node, then — its `for range node.Children` event —
the same function on every child in order; recipients and failures are read off the `Receive` / `addError` calls -/
def codeWalkN (body : S) (t : String) (σ : Env) (w : Walk) : RNode → Walk
  | .mk subs fail cs =>
    let r := run body (bindNode σ (subs.contains t) fail)
    let me := w.next
    let w1 : Walk := ⟨if r.calls.any (fun c => c.1 == "node.NodeProcessor.Receive") then w.recipients ++ [me] else w.recipients,
                      if r.calls.any (fun c => c.1 == "errorList.addError") then w.errors ++ [me] else w.errors, me + 1⟩
    if r.calls.any (fun c => c.1 == "foreach node.Children: e.deliverMessageToNode") then codeWalkL body t σ w1 cs else w1
def codeWalkL (body : S) (t : String) (σ : Env) (w : Walk) : List RNode → Walk
  | [] => w
  | c :: cs => codeWalkL body t σ (codeWalkN body t σ w c) cs
end

theorem any_name_eq (l : List (String × List Int)) (nm : String) :
    l.any (fun c => c.1 == nm) = (l.map (·.1)).contains nm := by
  induction l with
  | nil => simp
  | cons x rest ih =>
    have ih' : (rest.any fun c => nm == c.fst) = decide (nm ∈ List.map (fun x => x.fst) rest) := by
      simpa [BEq.comm] using ih
    simp [BEq.comm, ih']

theorem exDeliverToNode_calls (σ : Env) (a f : Bool) :
    (run Trans.exDeliverToNode (bindNode σ a f)).calls.map (·.1) =
      ["node.NodeProcessor.AcceptsMessage"] ++ (if a then ["node.NodeProcessor.Receive"] ++ (if f then ["errorList.addError"] else []) else [])
        ++ ["foreach node.Children: e.deliverMessageToNode"] := by
  have h := translated_exDeliverToNode (bindNode σ a f)
  have hc : (run Trans.exDeliverToNode (bindNode σ a f)).calls = (obs Trans.exDeliverToNode (bindNode σ a f)).calls := rfl
  rw [hc, h]
  cases a <;> cases f <;> simp [TransExpected.exDeliverToNode, bindNode]

mutual
/-- **the tree walk of deliverMessageToNode = the model's `deliverN`**: same recipients, same failures, same numbering, for every
tree, message type and starting state of the walk -/
theorem translated_walkN (t : String) (σ : Env) (w : Walk) : (n : RNode) →
    codeWalkN Trans.exDeliverToNode t σ w n = deliverN t w n
  | .mk subs fail cs => by
    have hn := exDeliverToNode_calls σ (subs.contains t) fail
    simp only [codeWalkN, deliverN, any_name_eq, hn]
    cases hc : subs.contains t <;> cases fail <;> simp [translated_walkL t σ _ cs]
theorem translated_walkL (t : String) (σ : Env) (w : Walk) : (l : List RNode) →
    codeWalkL Trans.exDeliverToNode t σ w l = deliverL t w l
  | [] => by simp [codeWalkL, deliverL]
  | c :: cs => by
    simp only [codeWalkL, deliverL]
    rw [translated_walkN t σ w c, translated_walkL t σ _ cs]
end

end Translated

theorem closure_unchanged : GeneratedClo.C11 = ExpectedClo.C11 := by rfl

end Firebolt.C11
