import Firebolt.Properties.C20Bridge
/-!
# C20 — bridge: the overlay model passes the executable Spec for every parameter map

(Helper lemmas: `Properties/C20Bridge.lean`.)
-/
namespace Firebolt.C20
open Firebolt Firebolt.Params

/-- for every baseline and every parameter map (distinct keys at each level) the model's client configuration passes the
Spec that judges the real `buildConfigMap`s -/
theorem model_overlay_satisfies_spec (base : ClientConf) (params : PMap)
    (hbt : keysNd base.top) (hbs : keysNd (base.sub.getD [])) (hpt : keysNd (topOf params)) (hps : keysNd (subOf params)) :
    specOverlay params base base (overlay base params) = none :=
  overlay_satisfies_spec base params hbt hbs hpt hps

/-- the entry clause of the Spec, for any fold of `SetKey` over overriding entries -/
theorem spec_entries_of_setkey_fold (base over : KV) (hb : keysNd base) (ho : keysNd over) :
    specEntries base over (foldSet base over) = true :=
  specEntries_foldSet base over hb ho

end Firebolt.C20
